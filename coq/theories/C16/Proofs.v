(* C16/Proofs.v — lemmas about the frame model (no axioms). *)
From Coq Require Import List NArith ZArith Bool Lia ZifyN ZifyNat ZifyBool.
From BLB Require Import Lib.CRC Lib.CRCFast Gen.Consts C16.CrcT C16.Model.
Import ListNotations.
Open Scope N_scope.

(* ------------------------------------------------------------------ *)
(* stream helpers                                                      *)

Lemma lenN_acc : forall (l : list byte) n, fold_left (fun n _ => N.succ n) l n = n + N.of_nat (length l).
Proof.
  induction l as [|x l IH]; intros n; simpl; [lia|]. rewrite IH. lia.
Qed.

Lemma lenN_length l : lenN l = N.of_nat (length l).
Proof. unfold lenN. rewrite lenN_acc. lia. Qed.

Lemma lenN_app a b : lenN (a ++ b) = lenN a + lenN b.
Proof. rewrite !lenN_length, app_length. lia. Qed.

Lemma lenN_cons x l : lenN (x :: l) = N.succ (lenN l).
Proof. rewrite !lenN_length. simpl. lia. Qed.

Lemma lenN_nil : lenN [] = 0.
Proof. reflexivity. Qed.

Lemma takeN_0 l : takeN 0 l = Some ([], l).
Proof. destruct l; reflexivity. Qed.

Lemma takeN_cons n x l : n <> 0 ->
  takeN n (x :: l) = match takeN (N.pred n) l with Some (a, r') => Some (x :: a, r') | None => None end.
Proof. destruct n; [congruence|reflexivity]. Qed.

Lemma takeN_app : forall a rest, takeN (lenN a) (a ++ rest) = Some (a, rest).
Proof.
  induction a as [|x a IH]; intros rest.
  - simpl. apply takeN_0.
  - rewrite lenN_cons. simpl app. rewrite takeN_cons by lia.
    rewrite N.pred_succ, IH. reflexivity.
Qed.

Lemma takeN_spec : forall l n a r, takeN n l = Some (a, r) -> l = a ++ r /\ lenN a = n.
Proof.
  induction l as [|x l IH]; intros n a r H.
  - destruct n; simpl in H; [|discriminate]. inversion H. auto.
  - destruct (N.eq_dec n 0) as [->|Hn].
    + rewrite takeN_0 in H. inversion H. auto.
    + rewrite takeN_cons in H by exact Hn.
      destruct (takeN (N.pred n) l) as [[a' r']|] eqn:E; [|discriminate].
      inversion H; subst. apply IH in E. destruct E as [E1 E2]. split; [rewrite E1; reflexivity|].
      rewrite lenN_cons, E2. lia.
Qed.

Lemma takeN_none : forall l n, takeN n l = None -> lenN l < n.
Proof.
  induction l as [|x l IH]; intros n H.
  - destruct n; simpl in H; [discriminate|]. rewrite lenN_nil. lia.
  - destruct (N.eq_dec n 0) as [->|Hn]; [rewrite takeN_0 in H; discriminate|].
    rewrite takeN_cons in H by exact Hn.
    destruct (takeN (N.pred n) l) as [[a' r']|] eqn:E; [discriminate|].
    apply IH in E. rewrite lenN_cons. lia.
Qed.

Lemma takeN_some : forall l n, n <= lenN l -> exists a r, takeN n l = Some (a, r).
Proof.
  intros l n H. destruct (takeN n l) as [[a r]|] eqn:E; [eauto|].
  apply takeN_none in E. lia.
Qed.

(* ------------------------------------------------------------------ *)
(* little-endian words                                                 *)

Lemma le32_length x : length (le32 x) = 4%nat.
Proof. reflexivity. Qed.

Lemma lenN_le32 x : lenN (le32 x) = 4.
Proof. reflexivity. Qed.

Lemma land_255_mod x : N.land x 255 = x mod 256.
Proof. change 255 with (N.ones 8). rewrite N.land_ones. reflexivity. Qed.

Lemma of_le_le32 x : x < 2 ^ 32 -> of_le (le32 x) = x.
Proof.
  intros H. unfold le32, of_le. cbn [fold_right].
  rewrite !land_255_mod, !N.shiftr_div_pow2.
  change (2 ^ 8) with 256. change (2 ^ 16) with 65536. change (2 ^ 24) with 16777216.
  change (2 ^ 32) with 4294967296 in H.
  assert (H1 := N.div_mod x 256 ltac:(lia)).
  assert (H2 := N.div_mod (x / 256) 256 ltac:(lia)).
  assert (H3 := N.div_mod (x / 256 / 256) 256 ltac:(lia)).
  assert (E2 : x / 65536 = x / 256 / 256) by (rewrite N.div_div by lia; reflexivity).
  assert (E3 : x / 16777216 = x / 256 / 256 / 256) by (rewrite !N.div_div by lia; reflexivity).
  rewrite E2, E3.
  assert (H4 : x / 256 / 256 / 256 < 256).
  { rewrite !N.div_div by lia. apply N.div_lt_upper_bound; lia. }
  rewrite (N.mod_small (x / 256 / 256 / 256) 256) by exact H4.
  lia.
Qed.

Lemma le32_4 x : exists a b c d, le32 x = [a; b; c; d].
Proof. unfold le32. eauto. Qed.

Lemma takeN_4_le32 x rest : takeN 4 (le32 x ++ rest) = Some (le32 x, rest).
Proof. change 4 with (lenN (le32 x)). apply takeN_app. Qed.

(* ------------------------------------------------------------------ *)
(* checksums: the executable table version is Lib.CRC's crc32c         *)

Lemma crc_t_chain a b c :
  crc_update_t (crc_update_t (crc_update_t 0 a) b) c = crc32c (a ++ b ++ c).
Proof.
  rewrite !crc_update_t_correct. rewrite !crc_update_app. unfold crc32c. rewrite app_assoc. reflexivity.
Qed.

(* ------------------------------------------------------------------ *)
(* pool.go                                                              *)

Lemma pool_cap_ge n : n <= pool_cap n.
Proof.
  unfold pool_cap.
  destruct (n <=? pool_small) eqn:E0; [lia|].
  destruct (n <=? buf1MB) eqn:E1; [lia|].
  destruct (n <=? buf4MB) eqn:E2; [lia|].
  destruct (n <=? buf8MB) eqn:E3; lia.
Qed.

Lemma delivered_cap_ge n c : n <= delivered_cap n c.
Proof.
  unfold delivered_cap, fits. destruct (n <=? c) eqn:E; [lia|apply pool_cap_ge].
Qed.

(* ------------------------------------------------------------------ *)
(* round trip                                                           *)

Section Delivered.
  Variables H B : Type.
  (* what the receiver must hand over for a sent message, given the caller's buffer *)
  Definition delivered (h : H) (b : B) (p : list byte) (bufcap : N) (rest : list byte) : rres H B :=
    if lenN p =? 0 then ROk h b [] false false rest
    else ROk h b p (fits (lenN p) bufcap) (negb (crc32c p =? 0)) rest.

  Lemma delivered_is_ok h b p c rest :
    exists p' i k, delivered h b p c rest = ROk h b p' i k rest.
  Proof. unfold delivered. destruct (lenN p =? 0); eauto. Qed.

  (* the payload handed over is byte-for-byte the payload sent, and it is in the caller's buffer iff it fits *)
  Lemma delivered_payload h b p c rest :
    exists i k, delivered h b p c rest = ROk h b p i k rest /\
                (i = true <-> (0 < lenN p /\ lenN p <= c)).
  Proof.
    unfold delivered, fits. destruct (lenN p =? 0) eqn:E.
    - assert (p = []) as -> by (destruct p; [reflexivity|rewrite lenN_cons in E; lia]).
      exists false, false. split; [reflexivity|]. rewrite lenN_nil. split; [discriminate|lia].
    - eexists _, _. split; [reflexivity|]. lia.
  Qed.
End Delivered.

Section RoundTrip.
  Variables H B : Type.
  Variable genc_h : H -> list byte.
  Variable genc_b : B -> list byte.
  Variable gdec_h : list byte -> gres H.
  Variable gdec_b : list byte -> gres B.
  (* the facts about encoding/gob that the codec relies on: self-delimiting, reads nothing beyond its message *)
  Hypothesis gdec_h_genc : forall m rest, gdec_h (genc_h m ++ rest) = GOk m (lenN (genc_h m)).
  Hypothesis gdec_b_genc : forall m rest, gdec_b (genc_b m ++ rest) = GOk m (lenN (genc_b m)).

  Notation send := (send H B genc_h genc_b).
  Notation recv := (recv H B gdec_h gdec_b).
  Notation recv_seq := (recv_seq H B gdec_h gdec_b).
  Notation delivered := (delivered H B).


  Lemma recv_send h b p bufcap isbulk rest :
    lenN p < 2 ^ 32 ->
    (isbulk = true \/ p = []) ->
    recv (send h b p ++ rest) bufcap isbulk = delivered h b p bufcap rest.
  Proof.
    intros Hlen Hb. unfold send, recv, delivered.
    rewrite <- !app_assoc.
    rewrite gdec_h_genc, takeN_app.
    rewrite gdec_b_genc, takeN_app.
    rewrite takeN_4_le32. rewrite takeN_4_le32.
    rewrite crc_t_chain, crc32c_t_correct.
    rewrite (of_le_le32 (crc32c _)) by apply crc32c_lt.
    rewrite app_assoc, N.eqb_refl. cbn [negb].
    rewrite of_le_le32 by exact Hlen.
    destruct (lenN p =? 0) eqn:E0.
    - reflexivity.
    - destruct Hb as [-> | ->]; [|discriminate]. cbn [negb].
      rewrite <- !app_assoc.
      rewrite takeN_app, takeN_4_le32.
      rewrite crc32c_t_correct, of_le_le32 by apply crc32c_lt.
      rewrite N.eqb_refl. cbn [negb]. rewrite andb_false_r. reflexivity.
  Qed.

  (* a connection carrying any sequence of messages *)
  Definition smsg := (H * B * list byte * bool)%type.   (* header, body, payload, body implements BulkData *)
  Definition msg_ok (m : smsg) : Prop :=
    let '(_, _, p, isb) := m in lenN p < 2 ^ 32 /\ (isb = true \/ p = []).
  Definition wire (ms : list smsg) : list byte :=
    flat_map (fun '(h, b, p, _) => send h b p) ms.

  (* expected results: message k with buffer k, remaining stream = the frames that follow *)
  Fixpoint expected (ms : list smsg) (caps : list N) (tail : list byte) : list (rres H B) :=
    match ms, caps with
    | (h, b, p, _) :: ms', c :: caps' => delivered h b p c (wire ms' ++ tail) :: expected ms' caps' tail
    | _, _ => []
    end.


  Lemma frame_roundtrip_lemma : forall ms caps tail,
    Forall msg_ok ms -> length caps = length ms ->
    recv_seq (wire ms ++ tail) (combine caps (map (fun '(_, _, _, isb) => isb) ms)) = expected ms caps tail.
  Proof.
    induction ms as [|[[[h b] p] isb] ms IH]; intros caps tail Hok Hl.
    - destruct caps; [reflexivity|discriminate].
    - destruct caps as [|c caps]; [discriminate|].
      inversion Hok as [|? ? Hm Hok']; subst. cbn in Hm. destruct Hm as [Hp Hb].
      unfold recv_seq. cbn [wire flat_map map combine recv_conn expected].
      change (flat_map (fun '(h, b, p, _) => send h b p) ms) with (wire ms).
      rewrite <- app_assoc, recv_send by assumption.
      destruct (delivered_is_ok H B h b p c (wire ms ++ tail)) as (p' & i & k & E).
      rewrite E. f_equal. apply (IH caps tail); [assumption|]. simpl in Hl. lia.
  Qed.

End RoundTrip.

(* the trivial codec satisfies the gob laws (so the Section hypotheses are satisfiable) *)
Lemma tgdec_tgenc m rest : tgdec (tgenc m ++ rest) = GOk m (lenN (tgenc m)).
Proof. reflexivity. Qed.

(* ------------------------------------------------------------------ *)
(* transit damage: one burst of at most 32 bits                        *)

From BLB Require Import Lib.CRCProofs.

Lemma app_eq_len {A} : forall (a b x y : list A),
  a ++ x = b ++ y -> length a = length b -> a = b /\ x = y.
Proof.
  induction a as [|u a IH]; intros [|v b] x y E L; simpl in *; try discriminate; auto.
  inversion E; subst. destruct (IH b x y H1) as [-> ->]; [lia|auto].
Qed.

Lemma mod256_small a k : a < 256 -> (a + 256 * k) mod 256 = a.
Proof.
  intros Ha. replace (a + 256 * k) with (a + k * 256) by lia.
  rewrite N.mod_add by lia. apply N.mod_small, Ha.
Qed.

Lemma div256_small a k : a < 256 -> (a + 256 * k) / 256 = k.
Proof.
  intros Ha. replace (a + 256 * k) with (a + k * 256) by lia.
  rewrite N.div_add by lia. rewrite N.div_small by exact Ha. lia.
Qed.

(* four bytes read as a little-endian word and written back are the same four bytes *)
Lemma le32_of_le4 cf : length cf = 4%nat -> Forall (fun x => x < 256) cf -> le32 (of_le cf) = cf.
Proof.
  intros L F.
  destruct cf as [|a [|b [|c [|d [|? ?]]]]]; try discriminate.
  inversion F as [|? ? Ha F1]; subst. inversion F1 as [|? ? Hb F2]; subst.
  inversion F2 as [|? ? Hc F3]; subst. inversion F3 as [|? ? Hd _]; subst.
  unfold le32, of_le. cbn [fold_right].
  rewrite !land_255_mod, !N.shiftr_div_pow2.
  change (2 ^ 8) with 256. change (2 ^ 16) with (256 * 256). change (2 ^ 24) with (256 * 256 * 256).
  rewrite <- !N.div_div by lia.
  rewrite N.mul_0_r, N.add_0_r.
  rewrite !div256_small by assumption.
  rewrite !mod256_small by assumption.
  rewrite (N.mod_small d 256) by assumption.
  reflexivity.
Qed.

Lemma of_le4_lt cf : length cf = 4%nat -> Forall (fun x => x < 256) cf -> of_le cf < 2 ^ 32.
Proof.
  intros L F.
  destruct cf as [|a [|b [|c [|d [|? ?]]]]]; try discriminate.
  inversion F as [|? ? Ha F1]; subst. inversion F1 as [|? ? Hb F2]; subst.
  inversion F2 as [|? ? Hc F3]; subst. inversion F3 as [|? ? Hd _]; subst.
  unfold of_le. cbn [fold_right]. change (2 ^ 32) with 4294967296. lia.
Qed.

Lemma lenN_eq_length (a b : list byte) : length a = length b -> lenN a = lenN b.
Proof. intros E. rewrite !lenN_length, E. reflexivity. Qed.

Lemma burst_error_length cw cw' : burst_error cw cw' -> length cw' = length cw.
Proof.
  intros (e & _ & L & ->). apply xorl_length. symmetry. exact L.
Qed.

Section Burst.
  Variables H B : Type.
  Variable genc_h : H -> list byte.
  Variable genc_b : B -> list byte.
  Variable gdec_h : list byte -> gres H.
  Variable gdec_b : list byte -> gres B.
  Hypothesis gdec_h_genc : forall m rest, gdec_h (genc_h m ++ rest) = GOk m (lenN (genc_h m)).
  Hypothesis gdec_b_genc : forall m rest, gdec_b (genc_b m ++ rest) = GOk m (lenN (genc_b m)).

  Notation send := (send H B genc_h genc_b).
  Notation recv := (recv H B gdec_h gdec_b).

  (* the part of a frame before the payload: gob(header) gob(body) le32(len) le32(crc of those) *)
  Definition frame_prefix (h : H) (b : B) (n : N) : list byte :=
    let hb := genc_h h ++ genc_b b in
    hb ++ le32 n ++ le32 (crc32c (hb ++ le32 n)).

  Lemma send_split h b p :
    lenN p <> 0 -> send h b p = frame_prefix h b (lenN p) ++ p ++ le32 (crc32c p).
  Proof using.
    clear gdec_h_genc gdec_b_genc gdec_h gdec_b. intros Hn. unfold send, frame_prefix. rewrite !crc32c_t_correct.
    destruct (lenN p =? 0) eqn:E; [lia|]. rewrite <- !app_assoc. reflexivity.
  Qed.

  (* the receiver gets through an undamaged prefix and arrives at the payload *)
  Lemma recv_after_prefix h b n bufcap (p' cf' rest : list byte) :
    n < 2 ^ 32 -> n <> 0 -> lenN p' = n -> length cf' = 4%nat ->
    recv (frame_prefix h b n ++ p' ++ cf' ++ rest) bufcap true =
      if negb (of_le cf' =? 0) && negb (of_le cf' =? crc32c p') then RErrCrc rest
      else ROk h b p' (fits n bufcap) (negb (of_le cf' =? 0)) rest.
  Proof.
    intros Hn Hn0 Hp Hc. unfold frame_prefix, recv.
    rewrite <- !app_assoc.
    rewrite gdec_h_genc, takeN_app.
    rewrite gdec_b_genc, takeN_app.
    rewrite takeN_4_le32. rewrite takeN_4_le32.
    rewrite crc_t_chain.
    rewrite (of_le_le32 (crc32c _)) by apply crc32c_lt.
    rewrite app_assoc, N.eqb_refl. cbn [negb].
    rewrite of_le_le32 by exact Hn.
    destruct (n =? 0) eqn:E0; [lia|]. cbn [negb].
    rewrite <- Hp, takeN_app.
    assert (L4 : lenN cf' = 4) by (rewrite lenN_length, Hc; reflexivity).
    rewrite <- L4, takeN_app, crc32c_t_correct. reflexivity.
  Qed.

  (* [FULL] clause: a burst inside payload ++ payload checksum that does not turn the checksum field into 0 is rejected *)
  Lemma burst_payload_unless_zero h b p p' cf' rest bufcap :
    0 < lenN p -> lenN p < 2 ^ 32 ->
    length cf' = 4%nat -> Forall (fun x => x < 256) cf' ->
    burst_error (bits_of (p ++ le32 (crc32c p))) (bits_of (p' ++ cf')) ->
    of_le cf' <> 0 ->
    send h b p = frame_prefix h b (lenN p) ++ p ++ le32 (crc32c p) /\
    recv (frame_prefix h b (lenN p) ++ p' ++ cf' ++ rest) bufcap true = RErrCrc rest.
  Proof.
    intros Hp0 Hp Hc Hf Hb Hz. split; [apply send_split; lia|].
    assert (Lp : length p' = length p).
    { apply burst_error_length in Hb. rewrite !bits_of_length, !app_length, Hc, le32_length in Hb. lia. }
    rewrite recv_after_prefix; [|exact Hp|lia|apply lenN_eq_length, Lp|exact Hc].
    assert (Hne : crc32c p' <> of_le cf').
    { apply (crc_detects_burst p p' (crc32c p) (of_le cf') eq_refl).
      rewrite !codeword_bytes, le32_of_le4 by assumption. exact Hb. }
    destruct (of_le cf' =? 0) eqn:E1; [apply N.eqb_eq in E1; contradiction|].
    destruct (of_le cf' =? crc32c p') eqn:E2; [apply N.eqb_eq in E2; congruence|].
    reflexivity.
  Qed.

  (* what the zero escape does: with a zero checksum field anything of the right length is delivered *)
  Lemma zero_field_delivers h b n p' rest bufcap :
    n < 2 ^ 32 -> n <> 0 -> lenN p' = n ->
    recv (frame_prefix h b n ++ p' ++ [0; 0; 0; 0] ++ rest) bufcap true = ROk h b p' (fits n bufcap) false rest.
  Proof.
    intros Hn Hn0 Hp. rewrite recv_after_prefix by (try assumption; reflexivity). reflexivity.
  Qed.

  (* [PARTIAL] clause: a burst inside gob(header) gob(body) le32(len) le32(crc): if gob rejects the damaged bytes the
     receiver reports that error; if gob still consumes the original extent, the checksum comparison fails. *)
  Lemma burst_header_partial h b n (hb' lenb' crcb' tl : list byte) bufcap isbulk :
    let hb := genc_h h ++ genc_b b in
    length hb' = length hb -> length lenb' = 4%nat -> length crcb' = 4%nat ->
    Forall (fun x => x < 256) crcb' ->
    burst_error (bits_of (hb ++ le32 n ++ le32 (crc32c (hb ++ le32 n)))) (bits_of (hb' ++ lenb' ++ crcb')) ->
    let s' := hb' ++ lenb' ++ crcb' ++ tl in
    (* gob on the damaged stream: *)
    (exists k, gdec_h s' = GErr k) \/
    (exists h' n1, gdec_h s' = GOk h' n1 /\ n1 <= lenN hb' /\
       ((exists k, gdec_b (dropN n1 s') = GErr k) \/
        (exists b' n2, gdec_b (dropN n1 s') = GOk b' n2 /\ n1 + n2 = lenN hb'))) ->
    (exists r, recv s' bufcap isbulk = RErrHdr r) \/ (exists r, recv s' bufcap isbulk = RErrBody r) \/
    recv s' bufcap isbulk = RErrCrc tl.
  Proof.
    intros hb Lh Ll Lc Fc Hb s' Hg.
    destruct Hg as [[k Hk] | (h' & n1 & Hh & Hn1 & Hg)].
    - left. unfold recv. rewrite Hk. eauto.
    - right.
      assert (Ls' : lenN s' = lenN hb' + 8 + lenN tl).
      { unfold s'. rewrite !lenN_app, (lenN_length lenb'), (lenN_length crcb'), Ll, Lc. lia. }
      destruct (takeN_some s' n1 ltac:(lia)) as (g1 & s1 & T1).
      destruct (takeN_spec _ _ _ _ T1) as [E1 L1].
      assert (D1 : dropN n1 s' = s1) by (unfold dropN; rewrite T1; reflexivity).
      rewrite D1 in Hg.
      destruct Hg as [[k Hk] | (b' & n2 & Hbd & Hn2)].
      + left. unfold recv. rewrite Hh, T1, Hk. eauto.
      + right.
        assert (Ls1 : lenN s1 = lenN s' - n1) by (rewrite E1, lenN_app, L1; lia).
        destruct (takeN_some s1 n2 ltac:(lia)) as (g2 & s2 & T2).
        destruct (takeN_spec _ _ _ _ T2) as [E2 L2].
        (* g1 ++ g2 is the damaged gob part, s2 the rest *)
        assert (E : (g1 ++ g2) ++ s2 = hb' ++ (lenb' ++ crcb' ++ tl)).
        { rewrite <- app_assoc, <- E2, <- E1. reflexivity. }
        apply app_eq_len in E.
        2:{ apply Nat2N.inj. rewrite <- !lenN_length, lenN_app. lia. }
        destruct E as [Eg Es2].
        unfold recv. rewrite Hh, T1, Hbd, T2, Es2.
        assert (L4 : lenN lenb' = 4) by (rewrite lenN_length, Ll; reflexivity).
        assert (L4c : lenN crcb' = 4) by (rewrite lenN_length, Lc; reflexivity).
        rewrite <- L4 at 1. rewrite takeN_app.
        rewrite <- L4c at 1. rewrite takeN_app.
        rewrite crc_t_chain, app_assoc, Eg.
        assert (Hne : crc32c (hb' ++ lenb') <> of_le crcb').
        { apply (crc_detects_burst (hb ++ le32 n) (hb' ++ lenb') (crc32c (hb ++ le32 n)) (of_le crcb') eq_refl).
          rewrite !codeword_bytes, le32_of_le4 by assumption. rewrite <- !app_assoc. exact Hb. }
        destruct (of_le crcb' =? crc32c (hb' ++ lenb')) eqn:E3; [apply N.eqb_eq in E3; congruence|].
        reflexivity.
  Qed.
End Burst.

(* ------------------------------------------------------------------ *)
(* F8: the refutation witness, on the trivial codec                    *)

Definition f8_p : list byte := [129].          (* crc32c [129] = 0x22E0EB2A < 2^31 *)
Definition f8_p' : list byte := [1].
Definition f8_cf' : list byte := [0; 0; 0; 0].

Lemma f8_burst : burst_error (bits_of (f8_p ++ le32 (crc32c f8_p))) (bits_of (f8_p' ++ f8_cf')).
Proof.
  (* 7 clean bits, then the last payload bit and the 30 significant checksum bits (31 bits), then 2 clean bits *)
  apply (burst_error_intro _ _ 7 (true :: firstn 30 (bits_of (le32 (crc32c f8_p)))) 2).
  - vm_compute. lia.
  - reflexivity.
  - vm_compute. reflexivity.
  - vm_compute. reflexivity.
Qed.

Lemma f8_witness :
  exists (p p' cf' : list byte),
    0 < lenN p /\ lenN p < 2 ^ 32 /\ length cf' = 4%nat /\ Forall (fun x => x < 256) cf' /\
    burst_error (bits_of (p ++ le32 (crc32c p))) (bits_of (p' ++ cf')) /\
    p' <> p /\
    send byte byte tgenc tgenc 7 9 p = frame_prefix byte byte tgenc tgenc 7 9 (lenN p) ++ p ++ le32 (crc32c p) /\
    recv byte byte tgdec tgdec (frame_prefix byte byte tgenc tgenc 7 9 (lenN p) ++ p' ++ cf') 0 true
      = ROk 7 9 p' false false [].
Proof.
  exists f8_p, f8_p', f8_cf'.
  split; [reflexivity|]. split; [reflexivity|]. split; [reflexivity|].
  split; [repeat constructor|]. split; [exact f8_burst|]. split; [discriminate|].
  split; vm_compute; reflexivity.
Qed.

(* ------------------------------------------------------------------ *)
(* non-vacuity: the hypotheses of the theorems are satisfiable and the functions compute what they should *)

(* two frames (payload [5;6;7] then no payload) followed by one stray byte, on the trivial codec *)
Example roundtrip_concrete :
  recv_seq byte byte tgdec tgdec
    (send byte byte tgenc tgenc 1 2 [5; 6; 7] ++ send byte byte tgenc tgenc 3 4 [] ++ [99]) [(3, true); (0, false)]
  = [ROk 1 2 [5; 6; 7] true true (send byte byte tgenc tgenc 3 4 [] ++ [99]); ROk 3 4 [] false false [99]].
Proof. vm_compute. reflexivity. Qed.

(* a one-bit flip inside the payload is a burst, the field stays non-zero, and the receiver says checksum mismatch *)
Example payload_flip_rejected :
  burst_error (bits_of ([5; 6; 7] ++ le32 (crc32c [5; 6; 7]))) (bits_of ([5; 6; 135] ++ le32 (crc32c [5; 6; 7]))) /\
  recv byte byte tgdec tgdec
    (frame_prefix byte byte tgenc tgenc 1 2 3 ++ [5; 6; 135] ++ le32 (crc32c [5; 6; 7]) ++ [99]) 0 true = RErrCrc [99].
Proof.
  split.
  - apply (burst_error_intro _ _ 23 [true] 32); vm_compute; try reflexivity. lia.
  - vm_compute. reflexivity.
Qed.

(* a flipped bit in the length word: same extent for gob, header checksum catches it *)
Example length_flip_rejected :
  recv byte byte tgdec tgdec
    (xor_at (send byte byte tgenc tgenc 1 2 [5; 6; 7]) 16 1) 0 true = RErrCrc ([5; 6; 7] ++ le32 (crc32c [5; 6; 7])).
Proof. vm_compute. reflexivity. Qed.

(* ------------------------------------------------------------------ *)
(* after a rejected message nothing further is delivered (fix cbee0a8) *)

Section Reject.
  Variables H B : Type.
  Variable gdec_h : list byte -> gres H.
  Variable gdec_b : list byte -> gres B.

  Definition is_ok (r : rres H B) : bool := match r with ROk _ _ _ _ _ _ => true | _ => false end.

  (* in a list of receive results: once a message was rejected with a checksum mismatch or an unread payload,
     no later result is a delivery *)
  Fixpoint silent_after_reject (l : list (rres H B)) : Prop :=
    match l with
    | [] => True
    | r :: t => (is_reject H B r = true -> Forall (fun x => is_ok x = false) t) /\ silent_after_reject t
    end.

  Lemma recv_conn_broken s bufs :
    Forall (fun x => is_ok x = false) (recv_conn H B gdec_h gdec_b true s bufs).
  Proof. destruct bufs as [|[c i] bufs]; simpl; repeat constructor. Qed.

  Lemma silent_no_ok l : Forall (fun x => is_ok x = false) l -> silent_after_reject l.
  Proof.
    induction l as [|r t IH]; intros F; simpl; [exact I|].
    inversion F; subst. split; [intros _; assumption|apply IH; assumption].
  Qed.

  Lemma recv_conn_silent : forall bufs broken s,
    silent_after_reject (recv_conn H B gdec_h gdec_b broken s bufs).
  Proof.
    induction bufs as [|[c i] bufs IH]; intros broken s; [exact I|].
    destruct broken.
    - apply silent_no_ok, recv_conn_broken.
    - cbn [recv_conn].
      destruct (recv H B gdec_h gdec_b s c i) eqn:E; cbn [silent_after_reject is_reject];
        (split; [try discriminate|]); try apply IH; try exact I.
      + intros _. apply recv_conn_broken.
      + intros _. apply recv_conn_broken.
  Qed.
End Reject.

(* the connection as it was before the fix: every body-level error kept reading *)
Section Unrepaired.
  Variables H B : Type.
  Variable gdec_h : list byte -> gres H.
  Variable gdec_b : list byte -> gres B.
  Fixpoint recv_seq_unrepaired (s : list byte) (bufs : list (N * bool)) : list (rres H B) :=
    match bufs with
    | [] => []
    | (cap, isb) :: bufs' =>
        let r := recv H B gdec_h gdec_b s cap isb in
        r :: match r with
             | ROk _ _ _ _ _ rest => recv_seq_unrepaired rest bufs'
             | RErrBody rest | RErrCrc rest | RErrNotBulk rest => recv_seq_unrepaired rest bufs'
             | RErrHdr _ | RStall => []
             end
    end.
End Unrepaired.

(* C16-B, variant (b), on the one-byte codec: ONE message (1, 2, payload = the bytes of a frame "3 4 no payload") is
   sent; a one-bit burst hits its header checksum field.  The unrepaired connection rejects it and then delivers
   message (3, 4), which was never sent; the repaired connection delivers nothing after the rejection. *)
Definition c16b_payload : list byte := send byte byte tgenc tgenc 3 4 [].
Definition c16b_stream : list byte := xor_at (send byte byte tgenc tgenc 1 2 c16b_payload) 48 1.

Example c16b_unrepaired_delivers_unsent :
  recv_seq_unrepaired byte byte tgdec tgdec c16b_stream [(0, true); (0, true)]
  = [RErrCrc (c16b_payload ++ le32 (crc32c c16b_payload)); ROk 3 4 [] false false (le32 (crc32c c16b_payload))].
Proof. vm_compute. reflexivity. Qed.

Example c16b_repaired_silent :
  recv_seq byte byte tgdec tgdec c16b_stream [(0, true); (0, true)]
  = [RErrCrc (c16b_payload ++ le32 (crc32c c16b_payload)); RErrHdr (c16b_payload ++ le32 (crc32c c16b_payload))].
Proof. vm_compute. reflexivity. Qed.
