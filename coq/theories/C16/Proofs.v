(* C16/Proofs.v — lemmas about the frame model (no axioms). *)
From Coq Require Import List NArith ZArith Bool Lia ZifyN ZifyNat ZifyBool.
From BLB Require Import Lib.CRC Lib.CRCFast Gen.Consts C16.CrcT C16.Model.
Import ListNotations.
Open Scope N_scope.

(* ------------------------------------------------------------------ *)
(* stream helpers                                                      *)

Lemma lenN_acc : forall (l : list byte) n, fold_left (fun n _ => N.succ n) l n = n + N.of_nat (length l).
Proof.
  induction l as [|x l IH]; intros n; simpl; [lia|]. rewrite IH. lia.
Qed.

Lemma lenN_length l : lenN l = N.of_nat (length l).
Proof. unfold lenN. rewrite lenN_acc. lia. Qed.

Lemma lenN_app a b : lenN (a ++ b) = lenN a + lenN b.
Proof. rewrite !lenN_length, app_length. lia. Qed.

Lemma lenN_cons x l : lenN (x :: l) = N.succ (lenN l).
Proof. rewrite !lenN_length. simpl. lia. Qed.

Lemma lenN_nil : lenN [] = 0.
Proof. reflexivity. Qed.

Lemma takeN_0 l : takeN 0 l = Some ([], l).
Proof. destruct l; reflexivity. Qed.

Lemma takeN_cons n x l : n <> 0 ->
  takeN n (x :: l) = match takeN (N.pred n) l with Some (a, r') => Some (x :: a, r') | None => None end.
Proof. destruct n; [congruence|reflexivity]. Qed.

Lemma takeN_app : forall a rest, takeN (lenN a) (a ++ rest) = Some (a, rest).
Proof.
  induction a as [|x a IH]; intros rest.
  - simpl. apply takeN_0.
  - rewrite lenN_cons. simpl app. rewrite takeN_cons by lia.
    rewrite N.pred_succ, IH. reflexivity.
Qed.

Lemma takeN_spec : forall l n a r, takeN n l = Some (a, r) -> l = a ++ r /\ lenN a = n.
Proof.
  induction l as [|x l IH]; intros n a r H.
  - destruct n; simpl in H; [|discriminate]. inversion H. auto.
  - destruct (N.eq_dec n 0) as [->|Hn].
    + rewrite takeN_0 in H. inversion H. auto.
    + rewrite takeN_cons in H by exact Hn.
      destruct (takeN (N.pred n) l) as [[a' r']|] eqn:E; [|discriminate].
      inversion H; subst. apply IH in E. destruct E as [E1 E2]. split; [rewrite E1; reflexivity|].
      rewrite lenN_cons, E2. lia.
Qed.

Lemma takeN_none : forall l n, takeN n l = None -> lenN l < n.
Proof.
  induction l as [|x l IH]; intros n H.
  - destruct n; simpl in H; [discriminate|]. rewrite lenN_nil. lia.
  - destruct (N.eq_dec n 0) as [->|Hn]; [rewrite takeN_0 in H; discriminate|].
    rewrite takeN_cons in H by exact Hn.
    destruct (takeN (N.pred n) l) as [[a' r']|] eqn:E; [discriminate|].
    apply IH in E. rewrite lenN_cons. lia.
Qed.

Lemma takeN_some : forall l n, n <= lenN l -> exists a r, takeN n l = Some (a, r).
Proof.
  intros l n H. destruct (takeN n l) as [[a r]|] eqn:E; [eauto|].
  apply takeN_none in E. lia.
Qed.

(* ------------------------------------------------------------------ *)
(* little-endian words                                                 *)

Lemma le32_length x : length (le32 x) = 4%nat.
Proof. reflexivity. Qed.

Lemma lenN_le32 x : lenN (le32 x) = 4.
Proof. reflexivity. Qed.

Lemma land_255_mod x : N.land x 255 = x mod 256.
Proof. change 255 with (N.ones 8). rewrite N.land_ones. reflexivity. Qed.

Lemma of_le_le32 x : x < 2 ^ 32 -> of_le (le32 x) = x.
Proof.
  intros H. unfold le32, of_le. cbn [fold_right].
  rewrite !land_255_mod, !N.shiftr_div_pow2.
  change (2 ^ 8) with 256. change (2 ^ 16) with 65536. change (2 ^ 24) with 16777216.
  change (2 ^ 32) with 4294967296 in H.
  assert (H1 := N.div_mod x 256 ltac:(lia)).
  assert (H2 := N.div_mod (x / 256) 256 ltac:(lia)).
  assert (H3 := N.div_mod (x / 256 / 256) 256 ltac:(lia)).
  assert (E2 : x / 65536 = x / 256 / 256) by (rewrite N.div_div by lia; reflexivity).
  assert (E3 : x / 16777216 = x / 256 / 256 / 256) by (rewrite !N.div_div by lia; reflexivity).
  rewrite E2, E3.
  assert (H4 : x / 256 / 256 / 256 < 256).
  { rewrite !N.div_div by lia. apply N.div_lt_upper_bound; lia. }
  rewrite (N.mod_small (x / 256 / 256 / 256) 256) by exact H4.
  lia.
Qed.

Lemma le32_4 x : exists a b c d, le32 x = [a; b; c; d].
Proof. unfold le32. eauto. Qed.

Lemma takeN_4_le32 x rest : takeN 4 (le32 x ++ rest) = Some (le32 x, rest).
Proof. change 4 with (lenN (le32 x)). apply takeN_app. Qed.

(* ------------------------------------------------------------------ *)
(* checksums: the executable table version is Lib.CRC's crc32c         *)

Lemma crc_t_chain a b c :
  crc_update_t (crc_update_t (crc_update_t 0 a) b) c = crc32c (a ++ b ++ c).
Proof.
  rewrite !crc_update_t_correct. rewrite !crc_update_app. unfold crc32c. rewrite app_assoc. reflexivity.
Qed.

(* ------------------------------------------------------------------ *)
(* pool.go                                                              *)

Lemma pool_cap_ge n : n <= pool_cap n.
Proof.
  unfold pool_cap.
  destruct (n <=? pool_small) eqn:E0; [lia|].
  destruct (n <=? buf1MB) eqn:E1; [lia|].
  destruct (n <=? buf4MB) eqn:E2; [lia|].
  destruct (n <=? buf8MB) eqn:E3; lia.
Qed.

Lemma delivered_cap_ge n c : n <= delivered_cap n c.
Proof.
  unfold delivered_cap, fits. destruct (n <=? c) eqn:E; [lia|apply pool_cap_ge].
Qed.

(* ------------------------------------------------------------------ *)
(* round trip                                                           *)

Section RoundTrip.
  Variables H B : Type.
  Variable genc_h : H -> list byte.
  Variable genc_b : B -> list byte.
  Variable gdec_h : list byte -> gres H.
  Variable gdec_b : list byte -> gres B.
  (* the facts about encoding/gob that the codec relies on: self-delimiting, reads nothing beyond its message *)
  Hypothesis gdec_h_genc : forall m rest, gdec_h (genc_h m ++ rest) = GOk m (lenN (genc_h m)).
  Hypothesis gdec_b_genc : forall m rest, gdec_b (genc_b m ++ rest) = GOk m (lenN (genc_b m)).

  Notation send := (send H B genc_h genc_b).
  Notation recv := (recv H B gdec_h gdec_b).
  Notation recv_seq := (recv_seq H B gdec_h gdec_b).

  (* what the receiver must hand over for a sent message, given the caller's buffer *)
  Definition delivered (h : H) (b : B) (p : list byte) (bufcap : N) (rest : list byte) : rres H B :=
    if lenN p =? 0 then ROk h b [] false false rest
    else ROk h b p (fits (lenN p) bufcap) (negb (crc32c p =? 0)) rest.

  Lemma recv_send h b p bufcap isbulk rest :
    lenN p < 2 ^ 32 ->
    (isbulk = true \/ p = []) ->
    recv (send h b p ++ rest) bufcap isbulk = delivered h b p bufcap rest.
  Proof.
    intros Hlen Hb. unfold send, recv, delivered.
    rewrite <- !app_assoc.
    rewrite gdec_h_genc, takeN_app.
    rewrite gdec_b_genc, takeN_app.
    rewrite takeN_4_le32. rewrite takeN_4_le32.
    rewrite crc_t_chain, crc32c_t_correct.
    rewrite (of_le_le32 (crc32c _)) by apply crc32c_lt.
    rewrite app_assoc, N.eqb_refl. cbn [negb].
    rewrite of_le_le32 by exact Hlen.
    destruct (lenN p =? 0) eqn:E0.
    - reflexivity.
    - destruct Hb as [-> | ->]; [|discriminate]. cbn [negb].
      rewrite <- !app_assoc.
      rewrite takeN_app, takeN_4_le32.
      rewrite crc32c_t_correct, of_le_le32 by apply crc32c_lt.
      rewrite N.eqb_refl. cbn [negb]. rewrite andb_false_r. reflexivity.
  Qed.

  (* a connection carrying any sequence of messages *)
  Definition smsg := (H * B * list byte * bool)%type.   (* header, body, payload, body implements BulkData *)
  Definition msg_ok (m : smsg) : Prop :=
    let '(_, _, p, isb) := m in lenN p < 2 ^ 32 /\ (isb = true \/ p = []).
  Definition wire (ms : list smsg) : list byte :=
    flat_map (fun '(h, b, p, _) => send h b p) ms.

  (* expected results: message k with buffer k, remaining stream = the frames that follow *)
  Fixpoint expected (ms : list smsg) (caps : list N) (tail : list byte) : list (rres H B) :=
    match ms, caps with
    | (h, b, p, _) :: ms', c :: caps' => delivered h b p c (wire ms' ++ tail) :: expected ms' caps' tail
    | _, _ => []
    end.

  Lemma delivered_is_ok h b p c rest :
    exists p' i k, delivered h b p c rest = ROk h b p' i k rest.
  Proof. unfold delivered. destruct (lenN p =? 0); eauto. Qed.

  Lemma frame_roundtrip_lemma : forall ms caps tail,
    Forall msg_ok ms -> length caps = length ms ->
    recv_seq (wire ms ++ tail) (combine caps (map (fun '(_, _, _, isb) => isb) ms)) = expected ms caps tail.
  Proof.
    induction ms as [|[[[h b] p] isb] ms IH]; intros caps tail Hok Hl.
    - destruct caps; [reflexivity|discriminate].
    - destruct caps as [|c caps]; [discriminate|].
      inversion Hok as [|? ? Hm Hok']; subst. cbn in Hm. destruct Hm as [Hp Hb].
      cbn [wire flat_map map combine recv_seq expected].
      change (flat_map (fun '(h, b, p, _) => send h b p) ms) with (wire ms).
      rewrite <- app_assoc, recv_send by assumption.
      destruct (delivered_is_ok h b p c (wire ms ++ tail)) as (p' & i & k & E).
      rewrite E. f_equal. apply IH; [assumption|]. simpl in Hl. lia.
  Qed.

  (* the payload handed over is byte-for-byte the payload sent, and it is in the caller's buffer iff it fits *)
  Lemma delivered_payload h b p c rest :
    exists i k, delivered h b p c rest = ROk h b p i k rest /\
                (i = true <-> (0 < lenN p /\ lenN p <= c)).
  Proof.
    unfold delivered, fits. destruct (lenN p =? 0) eqn:E.
    - assert (p = []) as -> by (destruct p; [reflexivity|rewrite lenN_cons in E; lia]).
      exists false, false. split; [reflexivity|]. rewrite lenN_nil. split; [discriminate|lia].
    - eexists _, _. split; [reflexivity|]. lia.
  Qed.
End RoundTrip.

(* the trivial codec satisfies the gob laws (so the Section hypotheses are satisfiable) *)
Lemma tgdec_tgenc m rest : tgdec (tgenc m ++ rest) = GOk m (lenN (tgenc m)).
Proof. reflexivity. Qed.
