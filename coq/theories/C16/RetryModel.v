(* C16/RetryModel.v — the retry decision of pkg/rpc/connection_cache.go SendWithCancel on top of net/rpc's client,
   and what happens to the request's bulk payload.  Definitions only.

   One ATTEMPT = rc.clt.Go(method, req, reply) on one connection.  net/rpc's Client.send either refuses at once with
   ErrShutdown (connection already known dead: nothing is written) or calls codec.WriteRequest; bulkGobCodec.writeBulk
   then takes the payload out of the request with BulkData.Get(), which CLEARS the field.  SendWithCancel re-dials and
   tries once more exactly when call.Error == rpc.ErrShutdown. *)
From Coq Require Import List NArith ZArith Bool.
From BLB Require Import Lib.CRC.
Import ListNotations.
Open Scope N_scope.

Inductive cerr := ENil | EShutdown | EUnexpectedEOF | EOther.

Record attempt := {
  wrote : bool;       (* Client.send reached WriteRequest: the payload was taken out of the request *)
  reached : bool;   (* the complete request reached the handler *)
  aerr : cerr }.      (* call.Error *)

(* SendWithCancel's policy *)
Definition retry_policy (e : cerr) : bool := match e with EShutdown => true | _ => false end.
(* the policy of a plain rpc.Client.Call: never *)
Definition no_retry (e : cerr) : bool := false.

(* BulkData.Get: after WriteRequest ran, the request holds no payload any more *)
Definition body_after (body : list byte) (w : bool) : list byte := if w then [] else body.

(* the attempts actually made, each with the payload the request held when it was made; final error *)
Fixpoint swc (pol : cerr -> bool) (body : list byte) (atts : list attempt) : list (attempt * list byte) * cerr :=
  match atts with
  | [] => ([], EOther)                      (* could not connect: ErrorRPCConnect *)
  | a :: rest =>
      if pol (aerr a)
      then let '(run, e) := swc pol (body_after body (wrote a)) rest in ((a, body) :: run, e)
      else ([(a, body)], aerr a)
  end.

(* payloads put on the wire / handed to a handler *)
Definition wire_payloads (run : list (attempt * list byte)) : list (list byte) :=
  map snd (filter (fun x => wrote (fst x)) run).
Definition handler_payloads (run : list (attempt * list byte)) : list (list byte) :=
  map snd (filter (fun x => reached (fst x)) run).

(* ---------- fault scripts of the connection-level harness ---------- *)
Definition att (w d : bool) (e : cerr) : attempt := {| wrote := w; reached := d; aerr := e |}.

(* fault: 0 none; 1 the cached connection was dropped while idle (server restart); 2 connection closed before the
   request was completely forwarded; 3 closed after the request reached the server, before the first reply byte;
   4 closed in the middle of the reply.  noticed: the client had seen the idle connection die before the call. *)
Definition fault_attempts (fault : N) (noticed : bool) : list attempt :=
  match fault with
  | 0 => [att true true ENil]
  | 1 => if noticed then [att false false EShutdown; att true true ENil] else [att true false EOther]
  | 2 => [att true false EOther]
  | 3 => [att true true EUnexpectedEOF]
  | 4 => [att true true EOther]
  | _ => []
  end.

Definition count_deliv (run : list (attempt * list byte)) : N :=
  N.of_nat (length (filter (fun x => reached (fst x)) run)).

(* (error is nil, deliveries, dials) of a run; the first attempt dials iff no live connection was cached *)
Definition outcome (cached : bool) (r : list (attempt * list byte) * cerr) : bool * N * N :=
  let '(run, e) := r in
  (match e with ENil => true | _ => false end, count_deliv run,
   (if cached then 0 else 1) + (N.of_nat (length run) - 1)).

Definition outcome_eqb (cmp_dials : bool) (a b : bool * N * N) : bool :=
  let '(e1, d1, n1) := a in let '(e2, d2, n2) := b in
  Bool.eqb e1 e2 && (d1 =? d2) && (negb cmp_dials || (n1 =? n2)).

(* verdict for one call observed by the harness.
   mode 0 = ConnectionCache.Send, 1 = plain rpc.Client.Call; fault 9 = concurrent phase (general clauses only).
   1 fine; 5 a handler received a request different from the one sent; 6 reached more than once;
   7 success without exactly one delivery; 8 successful reply differs from what the handler returned;
   9 outcome impossible under the retry rule "only when nothing was written" for this fault script *)
Definition conn_verdict (mode fault : N) (cached errnil : bool) (ndials ndeliv : N) (allsame replyok : bool) : Z :=
  if negb allsame then 5%Z
  else if 1 <? ndeliv then 6%Z
  else if errnil && negb (ndeliv =? 1) then 7%Z
  else if errnil && negb replyok then 8%Z
  else if 4 <? fault then 1%Z
  else
    let pol := if mode =? 0 then retry_policy else no_retry in
    let obs := (errnil, ndeliv, ndials) in
    let ok noticed := outcome_eqb (mode =? 0) (outcome cached (swc pol [] (fault_attempts fault noticed))) obs in
    if ok true || ok false then 1%Z else 9%Z.
