(* C16/Props.v — property-level theorems only (statements + `exact`), each followed by Print Assumptions.
   Tags [FULL]/[PARTIAL]/[REFUTED] are read by bin/check. *)
From Coq Require Import List NArith Bool.
From BLB Require Import Lib.CRC Lib.CRCProofs C16.Model C16.Proofs C16.RetryModel C16.RetryProofs.
Import ListNotations.
Open Scope N_scope.

(* [FULL] for every header/body codec that is self-delimiting like encoding/gob, every sequence of messages with
   or without payload (each below 4 GiB), every list of receiver buffer capacities and every trailing stream:
   receiving from the concatenated frames returns exactly the messages sent, in order, each leaving exactly the
   following frames unread (no message bleeds into the next) *)
Theorem frame_roundtrip :
  forall (H B : Type) (genc_h : H -> list byte) (genc_b : B -> list byte)
         (gdec_h : list byte -> gres H) (gdec_b : list byte -> gres B),
    (forall m rest, gdec_h (genc_h m ++ rest) = GOk m (lenN (genc_h m))) ->
    (forall m rest, gdec_b (genc_b m ++ rest) = GOk m (lenN (genc_b m))) ->
    forall (ms : list (smsg H B)) (caps : list N) (tail : list byte),
      Forall (msg_ok H B) ms -> length caps = length ms ->
      recv_seq H B gdec_h gdec_b (wire H B genc_h genc_b ms ++ tail)
               (combine caps (map (fun '(_, _, _, isb) => isb) ms))
      = expected H B genc_h genc_b ms caps tail.
Proof. exact frame_roundtrip_lemma. Qed.
Print Assumptions frame_roundtrip.

(* [FULL] what `expected` hands over for each message is the header, body and payload sent, byte for byte, and
   the payload is in the caller's buffer exactly when it is non-empty and fits the buffer's capacity *)
Theorem frame_roundtrip_buffer_rule :
  forall (H B : Type) (h : H) (b : B) (p : list byte) (c : N) (rest : list byte),
    exists i k, delivered H B h b p c rest = ROk h b p i k rest /\
                (i = true <-> (0 < lenN p /\ lenN p <= c)).
Proof. exact delivered_payload. Qed.
Print Assumptions frame_roundtrip_buffer_rule.

(* [FULL] a buffer handed out by the pool or kept from the caller is never smaller than the announced payload *)
Theorem pool_buffer_fits : forall n bufcap, n <= delivered_cap n bufcap.
Proof. exact delivered_cap_ge. Qed.
Print Assumptions pool_buffer_fits.

(* [REFUTED] the clause "every burst of at most 32 bits inside payload and payload checksum is reported as an error"
   is false for the code as it is. Witness on a one-byte codec: payload [129] whose checksum 0x22E0EB2A has its two
   top bits clear, a 31-bit burst over the last payload bit and the 30 significant checksum bits turns the checksum
   field into 0, which the receiver takes as do-not-check, and payload [1] is delivered (finding F8) *)
Theorem frame_detects_burst_payload_refuted :
  exists (p p' cf' : list byte),
    0 < lenN p /\ lenN p < 2 ^ 32 /\ length cf' = 4%nat /\ Forall (fun x => x < 256) cf' /\
    burst_error (bits_of (p ++ le32 (crc32c p))) (bits_of (p' ++ cf')) /\
    p' <> p /\
    send byte byte tgenc tgenc 7 9 p = frame_prefix byte byte tgenc tgenc 7 9 (lenN p) ++ p ++ le32 (crc32c p) /\
    recv byte byte tgdec tgdec (frame_prefix byte byte tgenc tgenc 7 9 (lenN p) ++ p' ++ cf') 0 true
      = ROk 7 9 p' false false [].
Proof. exact f8_witness. Qed.
Print Assumptions frame_detects_burst_payload_refuted.

(* [FULL] the same clause with exactly that case carved out. For every gob-like codec, message, non-empty payload
   below 4 GiB, receiver buffer and following stream: if the bytes of payload and payload checksum are hit by any
   single burst of at most 32 bits, anywhere including across the boundary of the two, and the damaged checksum
   field does not read 0, the receiver returns errChecksumMismatch and delivers nothing *)
Theorem frame_detects_burst_payload_unless_zero :
  forall (H B : Type) (genc_h : H -> list byte) (genc_b : B -> list byte)
         (gdec_h : list byte -> gres H) (gdec_b : list byte -> gres B),
    (forall m rest, gdec_h (genc_h m ++ rest) = GOk m (lenN (genc_h m))) ->
    (forall m rest, gdec_b (genc_b m ++ rest) = GOk m (lenN (genc_b m))) ->
    forall (h : H) (b : B) (p p' cf' rest : list byte) (bufcap : N),
      0 < lenN p -> lenN p < 2 ^ 32 ->
      length cf' = 4%nat -> Forall (fun x => x < 256) cf' ->
      burst_error (bits_of (p ++ le32 (crc32c p))) (bits_of (p' ++ cf')) ->
      of_le cf' <> 0 ->
      send H B genc_h genc_b h b p = frame_prefix H B genc_h genc_b h b (lenN p) ++ p ++ le32 (crc32c p) /\
      recv H B gdec_h gdec_b (frame_prefix H B genc_h genc_b h b (lenN p) ++ p' ++ cf' ++ rest) bufcap true
        = RErrCrc rest.
Proof. exact burst_payload_unless_zero. Qed.
Print Assumptions frame_detects_burst_payload_unless_zero.

(* [PARTIAL] a burst of at most 32 bits inside gob header, gob body, length and header checksum is reported as an
   error PROVIDED encoding/gob either rejects the damaged bytes or still consumes the original number of bytes;
   when gob accepts a different extent the two checksum fields are read from other positions and detection is only
   probabilistic, a limit of a format whose outer frame is not length-prefixed. Never a delivery, never a wait *)
Theorem frame_burst_header_partial :
  forall (H B : Type) (genc_h : H -> list byte) (genc_b : B -> list byte)
         (gdec_h : list byte -> gres H) (gdec_b : list byte -> gres B),
    (forall m rest, gdec_h (genc_h m ++ rest) = GOk m (lenN (genc_h m))) ->
    (forall m rest, gdec_b (genc_b m ++ rest) = GOk m (lenN (genc_b m))) ->
    forall (h : H) (b : B) (n : N) (hb' lenb' crcb' tl : list byte) (bufcap : N) (isbulk : bool),
    let hb := genc_h h ++ genc_b b in
    length hb' = length hb -> length lenb' = 4%nat -> length crcb' = 4%nat ->
    Forall (fun x => x < 256) crcb' ->
    burst_error (bits_of (hb ++ le32 n ++ le32 (crc32c (hb ++ le32 n)))) (bits_of (hb' ++ lenb' ++ crcb')) ->
    let s' := hb' ++ lenb' ++ crcb' ++ tl in
    (exists k, gdec_h s' = GErr k) \/
    (exists h' n1, gdec_h s' = GOk h' n1 /\ n1 <= lenN hb' /\
       ((exists k, gdec_b (dropN n1 s') = GErr k) \/
        (exists b' n2, gdec_b (dropN n1 s') = GOk b' n2 /\ n1 + n2 = lenN hb'))) ->
    (exists r, recv H B gdec_h gdec_b s' bufcap isbulk = RErrHdr r) \/
    (exists r, recv H B gdec_h gdec_b s' bufcap isbulk = RErrBody r) \/
    recv H B gdec_h gdec_b s' bufcap isbulk = RErrCrc tl.
Proof. exact burst_header_partial. Qed.
Print Assumptions frame_burst_header_partial.

(* [FULL] repaired codec, fix cbee0a8. For every gob behaviour whatsoever, every stream, damaged or not, and every
   list of receiver buffers: once a message was rejected with a checksum mismatch or with its payload left unread,
   no later receive on that connection delivers anything, and a codec that has remembered such an error never
   delivers at all. The unrepaired connection violates this, see Proofs.c16b_unrepaired_delivers_unsent *)
Theorem frame_rejected_then_silent :
  forall (H B : Type) (gdec_h : list byte -> gres H) (gdec_b : list byte -> gres B)
         (bufs : list (N * bool)) (broken : bool) (s : list byte),
    silent_after_reject H B (recv_conn H B gdec_h gdec_b broken s bufs) /\
    Forall (fun x => is_ok H B x = false) (recv_conn H B gdec_h gdec_b true s bufs).
Proof. intros. split; [apply recv_conn_silent | apply recv_conn_broken]. Qed.
Print Assumptions frame_rejected_then_silent.

(* [FULL] connection level, pkg/rpc/connection_cache.go SendWithCancel over net/rpc. For every request payload and
   every sequence of attempt outcomes in which, as net/rpc guarantees, an attempt failing with ErrShutdown wrote
   nothing: every payload put on the wire and every payload a handler gets is byte-identical to the caller's,
   and at most one attempt writes at all, i.e. a request is retried unchanged or not retried. A policy that also
   retries after an unexpected EOF resends it with the payload gone, see RetryProofs.eof_retry_resends_consumed *)
Theorem retry_never_resends_consumed_request :
  forall (body : list byte) (atts : list attempt),
    Forall rpc_law atts ->
    let run := fst (swc retry_policy body atts) in
    Forall (fun p => p = body) (wire_payloads run) /\
    Forall (fun p => p = body) (handler_payloads run) /\
    (length (wire_payloads run) <= 1)%nat.
Proof. exact retry_never_resends_lemma. Qed.
Print Assumptions retry_never_resends_consumed_request.
