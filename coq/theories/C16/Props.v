(* C16/Props.v — property-level theorems only (statements + `exact`), each followed by Print Assumptions.
   Tags [FULL]/[PARTIAL]/[REFUTED] are read by bin/check. *)
From Coq Require Import List NArith Bool.
From BLB Require Import Lib.CRC C16.Model C16.Proofs.
Import ListNotations.
Open Scope N_scope.

(* [FULL] for every header/body codec that is self-delimiting like encoding/gob, every sequence of messages with
   or without payload (each below 4 GiB), every list of receiver buffer capacities and every trailing stream:
   receiving from the concatenated frames returns exactly the messages sent, in order, each leaving exactly the
   following frames unread (no message bleeds into the next) *)
Theorem frame_roundtrip :
  forall (H B : Type) (genc_h : H -> list byte) (genc_b : B -> list byte)
         (gdec_h : list byte -> gres H) (gdec_b : list byte -> gres B),
    (forall m rest, gdec_h (genc_h m ++ rest) = GOk m (lenN (genc_h m))) ->
    (forall m rest, gdec_b (genc_b m ++ rest) = GOk m (lenN (genc_b m))) ->
    forall (ms : list (smsg H B)) (caps : list N) (tail : list byte),
      Forall (msg_ok H B) ms -> length caps = length ms ->
      recv_seq H B gdec_h gdec_b (wire H B genc_h genc_b ms ++ tail)
               (combine caps (map (fun '(_, _, _, isb) => isb) ms))
      = expected H B genc_h genc_b ms caps tail.
Proof. exact frame_roundtrip_lemma. Qed.
Print Assumptions frame_roundtrip.

(* [FULL] what `expected` hands over for each message is the header, body and payload sent, byte for byte, and
   the payload is in the caller's buffer exactly when it is non-empty and fits the buffer's capacity *)
Theorem frame_roundtrip_buffer_rule :
  forall (H B : Type) (h : H) (b : B) (p : list byte) (c : N) (rest : list byte),
    exists i k, delivered H B h b p c rest = ROk h b p i k rest /\
                (i = true <-> (0 < lenN p /\ lenN p <= c)).
Proof. exact delivered_payload. Qed.
Print Assumptions frame_roundtrip_buffer_rule.

(* [FULL] a buffer handed out by the pool or kept from the caller is never smaller than the announced payload *)
Theorem pool_buffer_fits : forall n bufcap, n <= delivered_cap n bufcap.
Proof. exact delivered_cap_ge. Qed.
Print Assumptions pool_buffer_fits.
