(* C16/RetryProofs.v — the retry rule never resends a request whose payload was already taken out. *)
From Coq Require Import List NArith ZArith Bool Lia.
From BLB Require Import Lib.CRC C16.RetryModel.
Import ListNotations.

(* net/rpc: an attempt that fails with ErrShutdown did not write anything (Client.send refuses before WriteRequest;
   calls already written get ErrShutdown only if the user closed the client, which ConnectionCache does only at
   reference count 0, i.e. with no call in flight) *)
Definition rpc_law (a : attempt) : Prop := aerr a = EShutdown -> wrote a = false.

(* a policy is safe if it retries only errors that guarantee nothing was written *)
Definition policy_safe (pol : cerr -> bool) (atts : list attempt) : Prop :=
  Forall (fun a => pol (aerr a) = true -> wrote a = false) atts.

Lemma retry_policy_safe atts : Forall rpc_law atts -> policy_safe retry_policy atts.
Proof.
  intros F. unfold policy_safe. eapply Forall_impl; [|exact F].
  intros a L Hp. apply L. destruct (aerr a); simpl in Hp; try discriminate. reflexivity.
Qed.

Lemma swc_bodies pol : forall atts body,
  policy_safe pol atts ->
  Forall (fun x => snd x = body) (fst (swc pol body atts)) /\
  (length (wire_payloads (fst (swc pol body atts))) <= 1)%nat.
Proof.
  induction atts as [|a rest IH]; intros body S; simpl.
  - split; [constructor|simpl; lia].
  - inversion S as [|? ? Ha S']; subst.
    destruct (pol (aerr a)) eqn:P.
    + specialize (Ha eq_refl).
      destruct (swc pol (body_after body (wrote a)) rest) as [run e] eqn:E.
      specialize (IH (body_after body (wrote a)) S'). rewrite E in IH. simpl in IH.
      rewrite Ha in *. simpl in IH. destruct IH as [IH1 IH2].
      simpl. split; [constructor; [reflexivity|exact IH1]|].
      unfold wire_payloads in *. simpl. rewrite Ha. exact IH2.
    + simpl. split; [repeat constructor|].
      unfold wire_payloads. simpl. destruct (wrote a); simpl; lia.
Qed.

Lemma retry_never_resends_lemma : forall (body : list byte) (atts : list attempt),
  Forall rpc_law atts ->
  let run := fst (swc retry_policy body atts) in
  Forall (fun p => p = body) (wire_payloads run) /\
  Forall (fun p => p = body) (handler_payloads run) /\
  (length (wire_payloads run) <= 1)%nat.
Proof.
  intros body atts F run.
  destruct (swc_bodies retry_policy atts body (retry_policy_safe atts F)) as [B L].
  fold run in B, L.
  assert (G : forall f, Forall (fun p => p = body) (map snd (filter f run))).
  { intros f. apply Forall_forall. intros p Hin. apply in_map_iff in Hin.
    destruct Hin as (x & <- & Hx). apply filter_In in Hx. destruct Hx as [Hx _].
    rewrite Forall_forall in B. apply B, Hx. }
  split; [apply G|]. split; [apply G|exact L].
Qed.

(* a policy that also retries after an unexpected EOF (i.e. after WriteRequest ran) resends the request with the
   payload gone: second attempt carries [] instead of the body, and the handler gets both *)
Definition eof_retry_policy (e : cerr) : bool :=
  match e with EShutdown | EUnexpectedEOF => true | _ => false end.

Example eof_retry_resends_consumed :
  let run := fst (swc eof_retry_policy [1%N; 2%N; 3%N] [att true true EUnexpectedEOF; att true true ENil]) in
  handler_payloads run = [[1%N; 2%N; 3%N]; []] /\ snd (swc eof_retry_policy [1%N; 2%N; 3%N] [att true true EUnexpectedEOF; att true true ENil]) = ENil.
Proof. vm_compute. split; reflexivity. Qed.

(* the verdict function accepts what the model itself produces, and rejects the resend *)
Example verdict_accepts_idle_drop_retry : conn_verdict 0 1 true true 1 1 true true = 1%Z.
Proof. reflexivity. Qed.
Example verdict_accepts_close_before_reply : conn_verdict 0 3 true false 0 1 true true = 1%Z.
Proof. reflexivity. Qed.
Example verdict_rejects_resend : conn_verdict 0 3 true true 1 2 false true = 5%Z.
Proof. reflexivity. Qed.
Example verdict_rejects_success_after_close : conn_verdict 0 3 true true 1 1 true true = 9%Z.
Proof. reflexivity. Qed.
