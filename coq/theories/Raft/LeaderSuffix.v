(* Raft/LeaderSuffix.v — the contract the leader loop of raft.go (C03/Layer.v, hypothesis core_contract) assumes of the core:
   from the moment everything in the leader's log is committed and applied (raft.go waits for the term's NOP), the entries
   returned by TakeNewlyCommitted ([n_commits]) are, in order, a prefix of the entries handed to core.Propose, for as long as
   the node stays leader of that term.

   Node-level, over Raft/Core.v: any sequence of events Deliver (any message), Tick, Propose (any batch), Bootstrap on one
   node, each completed without crash, after which the node is still Leader of the same term.  Hypotheses on the start
   state: Leader, no snapshot, index-contiguous log (a reachable-state invariant, Raft/LogMatch.v g_base), commit index =
   last index.  AddNode / RemoveNode (the core proposes an entry of its own), SnapshotDone and Restart are outside. *)
From Coq Require Import List NArith ZArith Bool Lia ZifyN ZifyNat ZifyBool.
From BLB Require Import Raft.Core Raft.NodeProofs Raft.LogMatchLists.
Import ListNotations.
Open Scope N_scope.

Definition seg (a b : N) (L : list entry) : list entry := firstn (N.to_nat (b - a)) (skipn (N.to_nat a) L).

Lemma seg_nil a L : seg a a L = [].
Proof. unfold seg. replace (N.to_nat (a - a)) with 0%nat by lia. reflexivity. Qed.

Lemma seg_app a b c L : a <= b -> b <= c -> seg a b L ++ seg b c L = seg a c L.
Proof.
  intros H1 H2. unfold seg.
  rewrite (firstn_split (N.to_nat (b - a)) (N.to_nat (c - a))) by lia. f_equal.
  rewrite skipn_skipn'. f_equal; [lia | f_equal; lia].
Qed.

Lemma seg_ext a b L x : b <= N.of_nat (length L) -> seg a b (L ++ x) = seg a b L.
Proof.
  intro H. unfold seg. rewrite skipn_app, firstn_app.
  replace (N.to_nat (b - a) - length (skipn (N.to_nat a) L))%nat with 0%nat by (rewrite skipn_length; lia).
  simpl. rewrite app_nil_r. reflexivity.
Qed.

Definition pre (s : node) : Prop :=
  p_snap (n_p s) = None /\ wf_from 1 (p_log (n_p s)) /\ n_commit s <= llen (n_p s).

(* handlers that leave the log alone: commit index grows inside the log, the newly committed entries are that segment *)
Definition lc0 (s s' : node) : Prop :=
  pre s ->
  pre s' /\ p_log (n_p s') = p_log (n_p s) /\ n_commit s <= n_commit s' /\
  n_commits s' = n_commits s ++ seg (n_commit s) (n_commit s') (p_log (n_p s)).

Lemma lc0_refl s : lc0 s s.
Proof. intro P. repeat split; auto; try apply P; try lia. rewrite seg_nil, app_nil_r. reflexivity. Qed.

Lemma lc0_trans a b c : lc0 a b -> lc0 b c -> lc0 a c.
Proof.
  intros A B P. destruct (A P) as [Pb [L1 [C1 K1]]]. destruct (B Pb) as [Pc [L2 [C2 K2]]].
  split; auto. split; [congruence|]. split; [lia|].
  rewrite K2, K1, L1, <- app_assoc, seg_app; auto.
Qed.

Lemma lc0_vol s s' :
  n_p s' = n_p s -> n_commit s' = n_commit s -> n_commits s' = n_commits s -> lc0 s s'.
Proof.
  intros A B C P. unfold pre in *. rewrite A, B, C. repeat split; try apply P; try lia.
  rewrite seg_nil, app_nil_r. reflexivity.
Qed.

Definition lx0 (s : node) (r : R node) : Prop := match r with Ret s' => lc0 s s' | _ => True end.

Lemma lx0_bind s (a : R node) (f : node -> R node) :
  lx0 s a -> (forall s1, lx0 s1 (f s1)) -> lx0 s (bind a f).
Proof.
  intros Ha Hf. destruct a as [s1 | c | p]; simpl in *; auto.
  specialize (Hf s1). destruct (f s1); simpl in *; auto. eapply lc0_trans; eauto.
Qed.

Lemma lx0_bind_pure {A} s (a : R A) (f : A -> R node) :
  (forall x, a = Ret x -> lx0 s (f x)) -> lx0 s (bind a f).
Proof. intros Hf. destruct a; simpl in *; auto. Qed.

Lemma lx0_pre s s' r : lc0 s s' -> lx0 s' r -> lx0 s r.
Proof. intros H K. destruct r; simpl in *; auto. eapply lc0_trans; eauto. Qed.

Ltac cvol := apply lc0_vol; reflexivity.

Lemma lx0_do_mut_guids s ids : lx0 s (do_mut (MFilterGuids ids) s).
Proof.
  unfold do_mut. destruct (negb (n_budget s =? 0) && (n_budget s =? n_cnt s + 1)); simpl; auto.
  intro P. unfold pre, llen in *. simpl. repeat split; try apply P; try lia. rewrite seg_nil, app_nil_r. reflexivity.
Qed.

Lemma lc0_commit_up_to s i :
  n_commit s <= i -> (pre s -> i <= llen (n_p s)) -> lx0 s (commit_up_to s i).
Proof.
  intros Hi Hb. unfold commit_up_to.
  destruct (p_snap (n_p s)) eqn:Es.
  { destruct (n_commit s <? sn_index s0); [| ].
    - destruct (negb (sn_index s0 =? i)); simpl; auto. intros [X _]. congruence.
    - destruct (log_entries (n_p s) (n_commit s + 1) (i + 1)); simpl; auto.
      match goal with |- lx0 s (if ?c then _ else _) => destruct c end.
      + match goal with |- lx0 s (match ?x with _ => _ end) => destruct x end; simpl; auto.
        destruct (do_mut _ _); simpl; auto; intros [X _]; congruence.
      + simpl. intros [X _]. congruence. }
  destruct (log_entries (n_p s) (n_commit s + 1) (i + 1)) as [ents | |] eqn:El; simpl; auto.
  assert (K : lc0 s (set_commit s i (n_restore s) (n_commits s ++ ents))).
  { intro P. destruct P as [Ps [Pw Pc]]. specialize (Hb (conj Ps (conj Pw Pc))).
    rewrite log_entries_wf in El by (auto; lia). inversion El.
    unfold pre, llen in *. simpl. repeat split; auto.
    unfold seg. f_equal. f_equal; [lia | f_equal; lia]. }
  match goal with |- lx0 s (if ?c then _ else _) => destruct c end; [| exact K].
  match goal with |- lx0 s (match ?x with _ => _ end) => destruct x end; simpl; auto.
  eapply lx0_pre; [exact K | apply lx0_do_mut_guids].
Qed.

Lemma lx0_send_app_ents s p : lx0 s (send_app_ents s p).
Proof.
  unfold send_app_ents. apply lx0_bind_pure. intros ob _. destruct ob as [b |].
  - simpl. cvol.
  - destruct (p_snap (n_p s)); simpl; auto. destruct (sn_conf s0); simpl; auto. cvol.
Qed.

Lemma lx0_for_peers ids f s : (forall s1 p, lx0 s1 (f s1 p)) -> lx0 s (for_peers ids f s).
Proof.
  intro Hf. revert s. induction ids as [| id r IH]; intros s; simpl; [apply lc0_refl|].
  destruct (peer_get id (l_peers s)); auto. apply lx0_bind; auto.
Qed.

Lemma lx0_leader_commit_up_to s i :
  n_commit s <= i -> (pre s -> i <= llen (n_p s)) -> lx0 s (leader_commit_up_to s i).
Proof.
  intros Hi Hb. unfold leader_commit_up_to. apply lx0_bind; [apply lc0_commit_up_to; auto|]. intros s1.
  match goal with |- lx0 s1 (if ?c then _ else _) => destruct c end; simpl; [cvol | apply lc0_refl].
Qed.

Lemma lx0_leader_maybe_commit s : lx0 s (leader_maybe_commit s).
Proof.
  unfold leader_maybe_commit. apply lx0_bind_pure. intros mi _.
  destruct (n_commit s <? mi) eqn:Ec; [| simpl; apply lc0_refl]. apply N.ltb_lt in Ec.
  apply lx0_bind_pure. intros [t ok] Hst.
  destruct (negb ok); simpl; auto. destruct (negb (t =? p_term (n_p s))); [simpl; apply lc0_refl|].
  apply lx0_bind.
  - apply lx0_leader_commit_up_to; [lia|]. intros [Ps [Pw _]].
    destruct (st_term_wf _ _ _ _ Ps Pw Hst) as [_ [X _]]. exact X.
  - intros s1. apply lx0_for_peers. intros s2 p.
    destruct (pr_match p =? last_index (n_p s2)); [apply lx0_send_app_ents | simpl; apply lc0_refl].
Qed.

Lemma lx0_tick_leader s : lx0 s (tick_leader s).
Proof.
  unfold tick_leader. apply lx0_bind.
  - apply lx0_for_peers. intros s2 p. destruct (should_send s2 p); [apply lx0_send_app_ents | simpl; apply lc0_refl].
  - intros s1. match goal with |- lx0 s1 (if ?c then _ else _) => destruct c end; [| simpl; cvol].
    apply lx0_bind_pure. intros ok _. destruct ok; simpl; cvol.
Qed.

Lemma lx0_handle_app_ents_resp s from su ix hi : lx0 s (handle_app_ents_resp s from su ix hi).
Proof.
  unfold handle_app_ents_resp. destruct (peer_get from (l_peers s)); [| simpl; apply lc0_refl].
  destruct (ix <? pr_match p); [simpl; apply lc0_refl|]. destruct (negb su).
  - eapply lx0_pre; [| apply lx0_send_app_ents]. cvol.
  - match goal with |- lx0 s (if ?c then _ else _) => destruct c end; simpl; auto.
    apply lx0_bind.
    + match goal with |- lx0 s (if ?c then _ else _) => destruct c end.
      * eapply lx0_pre; [| apply lx0_send_app_ents]. cvol.
      * simpl. cvol.
    + intros s2. apply lx0_leader_maybe_commit.
Qed.

Lemma lx0_handle_leader s m : lx0 s (handle_leader s m).
Proof.
  unfold handle_leader. destruct (m_body m); simpl; auto; try cvol; try apply lc0_refl.
  apply lx0_handle_app_ents_resp.
Qed.

Lemma lx0_do_mut_keep s m :
  match m with MAppend _ | MTruncate _ | MTrim _ | MSnapCommit _ => False | _ => True end -> lx0 s (do_mut m s).
Proof.
  intro Hm. unfold do_mut. destruct (negb (n_budget s =? 0) && (n_budget s =? n_cnt s + 1)); simpl; auto.
  intro P. unfold pre, llen in *. destruct m; try contradiction; simpl; repeat split; try apply P; try lia;
    rewrite seg_nil, app_nil_r; reflexivity.
Qed.

(* Propose at a leader: the stamped batch is appended, then only commits *)
Definition lc1 (s s' : node) (new : list entry) : Prop :=
  pre s' /\ p_log (n_p s') = p_log (n_p s) ++ new /\ n_commit s <= n_commit s' /\
  n_commits s' = n_commits s ++ seg (n_commit s) (n_commit s') (p_log (n_p s')).

Lemma lc0_lc1 s s' : pre s -> lc0 s s' -> lc1 s s' [].
Proof.
  intros P H. destruct (H P) as [A [B [C D]]]. unfold lc1. rewrite app_nil_r.
  split; [exact A|]. split; [exact B|]. split; [exact C|]. rewrite B. exact D.
Qed.

Lemma leader_propose_lc s es s' :
  pre s -> leader_propose s es = Ret s' ->
  lc1 s s' (stamp es (last_index (n_p s) + 1) (p_term (n_p s))).
Proof.
  intros P. pose proof P as [Ps [Pw Pc]]. unfold leader_propose, log_append.
  rewrite (last_index_wf _ Ps Pw). unfold llen in *.
  destruct (stamp_wf es (N.of_nat (length (p_log (n_p s))) + 1) (p_term (n_p s))) as [Ws _].
  set (new := stamp es (N.of_nat (length (p_log (n_p s))) + 1) (p_term (n_p s))) in *.
  pose proof (mem_append_wf (p_log (n_p s)) new Pw Ws) as Hma. rewrite Hma. cbv beta iota delta [snd].
  unfold do_mut. destruct (negb (n_budget s =? 0) && (n_budget s =? n_cnt s + 1)); [discriminate|].
  cbv beta iota delta [bind].
  match goal with |- context [for_peers _ _ ?x] => set (x1 := x) end.
  assert (L1 : p_log (n_p x1) = p_log (n_p s) ++ new).
  { change (fst (mem_append (p_log (n_p s)) new) = p_log (n_p s) ++ new). rewrite Hma. reflexivity. }
  assert (P1 : pre x1).
  { unfold pre, llen. rewrite L1. split; [exact Ps|]. split.
    - apply wf_from_app. split; auto. replace (1 + N.of_nat (length (p_log (n_p s)))) with (N.of_nat (length (p_log (n_p s))) + 1) by lia. exact Ws.
    - change (n_commit x1) with (n_commit s). rewrite app_length. lia. }
  intro H.
  assert (K : lx0 x1 (Ret s')).
  { rewrite <- H. apply lx0_bind.
    - apply lx0_for_peers. intros s3 p.
      match goal with |- lx0 s3 (if ?c then _ else _) => destruct c end; [apply lx0_send_app_ents | simpl; apply lc0_refl].
    - intros s2. destruct (l_peers s2); [apply lx0_leader_maybe_commit | simpl; apply lc0_refl]. }
  simpl in K. destruct (K P1) as [A [B [C D]]]. unfold lc1.
  split; [exact A|]. split; [rewrite B; exact L1|]. split; [exact C|]. rewrite B. exact D.
Qed.

Lemma handle_msg_leader s m s' :
  n_role s = Leader -> p_term (n_p s') = p_term (n_p s) -> handle_msg s m = Ret s' -> lc0 s s'.
Proof.
  intros Hr Ht. unfold handle_msg.
  match goal with |- (if ?c then _ else _) = _ -> _ => destruct c end; [intro H; inversion H; subst; apply lc0_refl|].
  match goal with |- (if ?c then _ else _) = _ -> _ => destruct c end; [intro H; inversion H; subst; apply lc0_refl|].
  assert (HG : forall s1, (if guid_get (m_from m) (p_guids (n_p s)) =? 0 then do_mut (MSetGuid (m_from m) (m_fromg m)) s else Ret s) = Ret s1 ->
               lc0 s s1 /\ n_role s1 = n_role s /\ p_term (n_p s1) = p_term (n_p s)).
  { intros s1. destruct (guid_get (m_from m) (p_guids (n_p s)) =? 0).
    - intro E. pose proof (lx0_do_mut_keep s (MSetGuid (m_from m) (m_fromg m)) I) as K. rewrite E in K. split; [exact K|].
      revert E. unfold do_mut. destruct (negb (n_budget s =? 0) && (n_budget s =? n_cnt s + 1)); [discriminate|].
      intro E. inversion E. simpl. auto.
    - intro E. inversion E. split; [apply lc0_refl | auto]. }
  destruct (if guid_get (m_from m) (p_guids (n_p s)) =? 0 then do_mut (MSetGuid (m_from m) (m_fromg m)) s else Ret s) as [s1 | |];
    simpl; try discriminate.
  destruct (HG s1 eq_refl) as [K1 [R1 T1]].
  match goal with |- (if ?c then _ else _) = _ -> _ => destruct c end; [intro H; inversion H; subst; exact K1|].
  destruct (m_term m <? p_term (n_p s1)); [intro H; inversion H; subst; exact K1|].
  destruct (p_term (n_p s1) <? m_term m) eqn:Egt.
  - apply N.ltb_lt in Egt. intro H. exfalso.
    assert (Hge : m_term m <= p_term (n_p s')).
    { revert H.
      match goal with |- bind ?a _ = _ -> _ => destruct a as [s2 | |] eqn:E2 end; simpl; try discriminate.
      intro H. pose proof (rext_handle_by_role s2 m) as P. rewrite H in P. destruct P as [[P _] _].
      assert (m_term m = p_term (n_p s2)).
      { revert E2. destruct (m_body m); try discriminate;
          unfold do_mut; destruct (negb (n_budget s1 =? 0) && (n_budget s1 =? n_cnt s1 + 1)); simpl; try discriminate;
          intro X; inversion X; reflexivity. }
      lia. }
    lia.
  - simpl. unfold handle_by_role. rewrite R1, Hr. intro H.
    pose proof (lx0_handle_leader s1 m) as K. rewrite H in K. simpl in K. eapply lc0_trans; eauto.
Qed.

(* ---------------------------------------------------------------- the leader loop *)
Record loop_st := { lp_node : node; lp_prop : list entry; lp_comm : list entry }.

Definition proposed_by (s : node) (ev : event) : list entry :=
  match ev with
  | EPropose es => stamp es (last_index (n_p s) + 1) (p_term (n_p s))
  | _ => []
  end.

Definition loop_event (ev : event) : Prop :=
  match ev with EDeliver _ | ETick | EPropose _ | EBootstrap _ _ => True | _ => False end.

(* one completed event after which the node is still leader of the same term *)
Inductive loop_step : loop_st -> event -> loop_st -> Prop :=
| LoopStep : forall st ev code s',
    loop_event ev ->
    run_event (settle (lp_node st)) ev = Ret (code, s') ->
    n_role s' = Leader -> p_term (n_p s') = p_term (n_p (lp_node st)) ->
    loop_step st ev {| lp_node := s';
                       lp_prop := lp_prop st ++ proposed_by (lp_node st) ev;      (* handed to core.Propose (stamped) *)
                       lp_comm := lp_comm st ++ n_commits s' |}.                 (* returned by TakeNewlyCommitted *)

Inductive loop_run : loop_st -> list event -> loop_st -> Prop :=
| loop_nil : forall st, loop_run st [] st
| loop_cons : forall st ev st1 evs st2, loop_step st ev st1 -> loop_run st1 evs st2 -> loop_run st (ev :: evs) st2.

(* the loop starts when everything in the leader's log is committed (raft.go: the term's NOP has been applied) *)
Definition loop_start (s0 : node) : Prop :=
  n_role s0 = Leader /\ p_snap (n_p s0) = None /\ wf_from 1 (p_log (n_p s0)) /\ n_commit s0 = llen (n_p s0).

Definition prefix {A} (a b : list A) : Prop := exists c, b = a ++ c.

Lemma event_lc1 s ev code s' :
  pre s -> n_role s = Leader -> loop_event ev ->
  run_event (settle s) ev = Ret (code, s') -> p_term (n_p s') = p_term (n_p s) ->
  pre s' /\ p_log (n_p s') = p_log (n_p s) ++ proposed_by s ev /\ n_commit s <= n_commit s' /\
  n_commits s' = seg (n_commit s) (n_commit s') (p_log (n_p s')).
Proof.
  intros P Hr Hev Hrun Ht.
  assert (P0 : pre (settle s)) by exact P.
  assert (K : lc1 (settle s) s' (proposed_by s ev)).
  { destruct ev; simpl in Hev; try contradiction; simpl in Hrun.
    - unfold propose_initial_membership in Hrun. simpl in Hrun. rewrite Hr in Hrun. inversion Hrun. subst.
      apply lc0_lc1; auto. apply lc0_refl.
    - unfold wrap0 in Hrun. destruct (handle_msg (settle s) m) as [x | |] eqn:E; simpl in Hrun; try discriminate.
      inversion Hrun. subst x. apply lc0_lc1; auto. eapply handle_msg_leader; eauto.
    - unfold wrap0 in Hrun. destruct (tick (settle s)) as [x | |] eqn:E; simpl in Hrun; try discriminate.
      inversion Hrun. subst x. apply lc0_lc1; auto. revert E. unfold tick. simpl. rewrite Hr. intro E.
      pose proof (lx0_tick_leader (set_elapsed (settle s) ((n_elapsed s + 1) mod 4294967296))) as K. rewrite E in K. simpl in K.
      eapply lc0_trans; [| exact K]. apply lc0_vol; reflexivity.
    - unfold propose in Hrun. simpl in Hrun. rewrite Hr in Hrun.
      destruct (leader_propose (settle s) es) as [x | |] eqn:E; simpl in Hrun; try discriminate.
      inversion Hrun. subst x. apply (leader_propose_lc (settle s) es s' P0 E). }
  destruct K as [A [B [C D]]]. simpl in *. auto.
Qed.

Theorem leader_loop_invariant s0 evs st :
  loop_start s0 ->
  loop_run {| lp_node := s0; lp_prop := []; lp_comm := [] |} evs st ->
  let c0 := n_commit s0 in
  let s := lp_node st in
  n_role s = Leader /\ p_term (n_p s) = p_term (n_p s0) /\ c0 <= n_commit s /\ n_commit s <= llen (n_p s) /\
  lp_prop st = skipn (N.to_nat c0) (p_log (n_p s)) /\
  lp_comm st = seg c0 (n_commit s) (p_log (n_p s)).
Proof.
  intros [Hr [Hs [Hw Hc]]] Hrun. simpl.
  remember {| lp_node := s0; lp_prop := []; lp_comm := [] |} as st0 eqn:E0.
  assert (I0 : n_role (lp_node st0) = Leader /\ p_term (n_p (lp_node st0)) = p_term (n_p s0) /\ pre (lp_node st0) /\
               n_commit s0 <= n_commit (lp_node st0) /\
               lp_prop st0 = skipn (N.to_nat (n_commit s0)) (p_log (n_p (lp_node st0))) /\
               lp_comm st0 = seg (n_commit s0) (n_commit (lp_node st0)) (p_log (n_p (lp_node st0)))).
  { subst st0. simpl. unfold pre. rewrite Hc. unfold llen. repeat split; auto; try lia.
    - rewrite skipn_all2; auto. lia.
    - rewrite seg_nil. reflexivity. }
  clear E0. induction Hrun as [st | st ev st1 evs st2 Hst Hr1 IH].
  - destruct I0 as [A [B [[P1 [P2 P3]] [C [D E]]]]]. repeat split; auto.
  - apply IH. destruct I0 as [A [B [P [C [D E]]]]].
    destruct Hst as [st ev code s' Hev Hrun1 Hr' Ht'].
    destruct (event_lc1 _ _ _ _ P A Hev Hrun1 Ht') as [P' [L' [C' K']]]. simpl.
    pose proof P as [_ [_ Pc]]. unfold llen in Pc.
    split; auto. split; [congruence|]. split; auto. split; [lia|]. split.
    + rewrite L', D. rewrite skipn_app. f_equal.
      replace (N.to_nat (n_commit s0) - length (p_log (n_p (lp_node st))))%nat with 0%nat by lia. reflexivity.
    + rewrite E, K', L'. rewrite <- (seg_ext _ _ _ (proposed_by (lp_node st) ev)) by lia.
      apply seg_app; lia.
Qed.

(* THE CONTRACT: at every point of the loop the entries returned by TakeNewlyCommitted so far are a prefix of the entries
   handed to core.Propose so far (as stamped by the core: index, term, and the type and payload given to Propose) *)
Theorem leader_commits_own_suffix_node s0 evs st :
  loop_start s0 -> loop_run {| lp_node := s0; lp_prop := []; lp_comm := [] |} evs st ->
  prefix (lp_comm st) (lp_prop st).
Proof.
  intros H0 Hrun. destruct (leader_loop_invariant s0 evs st H0 Hrun) as [_ [_ [_ [_ [A B]]]]].
  rewrite A, B. unfold seg, prefix. exists (skipn (N.to_nat (n_commit (lp_node st) - n_commit s0)) (skipn (N.to_nat (n_commit s0)) (p_log (n_p (lp_node st))))).
  symmetry. apply firstn_skipn.
Qed.

(* the same, one event at a time, in the shape of C03/Layer.v's step_ok: when TakeNewlyCommitted returns [n_commits] after an
   event, everything committed in the loop so far followed by these entries is a prefix of everything proposed so far *)
Lemma loop_run_snoc st evs st1 ev st2 : loop_run st evs st1 -> loop_step st1 ev st2 -> loop_run st (evs ++ [ev]) st2.
Proof.
  intros H1 H2. induction H1; simpl.
  - econstructor; [exact H2 | constructor].
  - econstructor; eauto.
Qed.

Theorem leader_commits_own_suffix_stepwise s0 evs st1 ev st2 :
  loop_start s0 -> loop_run {| lp_node := s0; lp_prop := []; lp_comm := [] |} evs st1 -> loop_step st1 ev st2 ->
  lp_comm st2 = lp_comm st1 ++ n_commits (lp_node st2) /\
  lp_prop st2 = lp_prop st1 ++ proposed_by (lp_node st1) ev /\
  prefix (lp_comm st1 ++ n_commits (lp_node st2)) (lp_prop st2).
Proof.
  intros H0 H1 H2. pose proof (leader_commits_own_suffix_node s0 _ st2 H0 (loop_run_snoc _ _ _ _ _ H1 H2)) as P.
  destruct H2. simpl in *. auto.
Qed.

(* in terms of what was handed to core.Propose: type and payload of the proposed entries, batch after batch *)
Definition cmd_of (e : entry) : N * list Z := (e_type e, e_pl e).
Definition batches (evs : list event) : list entry :=
  flat_map (fun ev => match ev with EPropose es => es | _ => [] end) evs.

Lemma cmd_of_stamp es i t : map cmd_of (stamp es i t) = map cmd_of es.
Proof. revert i. induction es as [| e r IH]; intros i; simpl; auto. rewrite IH. reflexivity. Qed.

Lemma loop_run_prop st evs st' :
  loop_run st evs st' -> map cmd_of (lp_prop st') = map cmd_of (lp_prop st) ++ map cmd_of (batches evs).
Proof.
  induction 1 as [st | st ev st1 evs st2 Hs Hr IH]; simpl.
  - rewrite app_nil_r. reflexivity.
  - rewrite IH. destruct Hs. simpl. rewrite !map_app, <- app_assoc. f_equal. f_equal.
    destruct ev; simpl; auto. apply cmd_of_stamp.
Qed.

Theorem leader_commits_own_suffix_cmds s0 evs st :
  loop_start s0 -> loop_run {| lp_node := s0; lp_prop := []; lp_comm := [] |} evs st ->
  prefix (map cmd_of (lp_comm st)) (map cmd_of (batches evs)).
Proof.
  intros H0 Hrun. destruct (leader_commits_own_suffix_node s0 evs st H0 Hrun) as [c Hc].
  pose proof (loop_run_prop _ _ _ Hrun) as Hp. simpl in Hp. rewrite <- Hp, Hc, map_app. exists (map cmd_of c). reflexivity.
Qed.
