(* Raft/CompletenessAckM.v — round 7: the acknowledgement invariant of Raft/CompletenessAck.v over ginvM (generated from it by
   text replacement: the fixed-quorum election invariant and the configuration-size invariant are replaced by the
   hypothesis "one leader per term in the post-state history"). *)
From Coq Require Import List NArith ZArith Bool Lia ZifyN ZifyNat ZifyBool.
From BLB Require Import Lib.LTS Raft.Core Raft.Wire Raft.NodeProofs Raft.NodeKeep Raft.NodeElect Raft.NodeConf
  Raft.Election Raft.ElectionFixed Raft.LogMatchLists Raft.LogMatchNode Raft.LogMatch Raft.Completeness Raft.CompletenessAck
  Raft.LogMatchNodeM Raft.LogMatchM.
Import ListNotations.
Open Scope N_scope.

Section AckInvM.
  Variables (bm : list nid) (be : N).

  Record ackinvM (σ : sys) (G : list lrec) (A : list ack) : Prop := {
    k_g : ginvM bm be σ G;
    k_rec : forall v T P, In (v, T, P) A -> P = [] \/ exists i lt, In (T, i, lt) G /\ pfx P lt;
    k_msg : forall m idx h, In m (sy_soup σ) -> m_body m = AppEntsResp true idx h ->
              exists P, In (m_from m, m_term m, P) A /\ length P = N.to_nat idx;
    k_lead : forall T i l, In (T, i, l) G -> i <> 0 -> In (i, T, l) A;
    k_esc : forall v T P, In (v, T, P) A ->
              exists s, get_node v (sy_nodes σ) = Some s /\ T <= p_term (n_p s) /\
                        forall k, tpos T P k -> keeps (p_log (n_p s)) (firstn k P) \/ escapes G T (p_term (n_p s)) (firstn k P)
  }.

  Section Step.
    Variables (σ : sys) (G : list lrec) (A : list ack).
    Variables (i : nid) (s : node) (ev : event) (k : N) (s' : node).
    Hypothesis KI : ackinvM σ G A.
    Hypothesis Gs : get_node i (sy_nodes σ) = Some s.
    Hypothesis Hdel : forall m, ev = EDeliver m -> In m (sy_soup σ) /\ m_to m <> 0.
    Hypothesis Hres : evres bm be ev.
    Hypothesis NS : nstep s ev k s'.
    Hypothesis ESp : forall t a b, In (t, a) (sy_hist (step_sys σ s')) -> In (t, b) (sy_hist (step_sys σ s')) -> a = b.

    Let σ' := step_sys σ s'.
    Let G' := G ++ rec_of s s'.
    Let A' := A ++ acks_of s' ++ rec_acks (rec_of s s').
    Let L0 := p_log (n_p s).
    Let L' := p_log (n_p s').
    Let T' := p_term (n_p s').

    Lemma stM_GI : ginvM bm be σ G. Proof. apply (k_g _ _ _ KI). Qed.

    Lemma stM_GI' : ginvM bm be σ' G'.
    Proof. apply (ginvM_step_abs bm be σ G i s ev k s' stM_GI Gs Hdel Hres NS ESp). Qed.

    Lemma stM_incl : incl G G'.
    Proof. intros r Hr. apply in_or_app. left. exact Hr. Qed.

    Lemma stM_id : n_id s' = i.
    Proof.
      pose proof (ns_id _ _ _ _ NS) as Hid. destruct (get_node_in _ _ _ Gs) as [_ Gid]. congruence.
    Qed.

    Lemma stM_Gs' : get_node i (sy_nodes σ') = Some s'.
    Proof. simpl. rewrite <- stM_id. eapply get_put_same. rewrite stM_id. exact Gs. Qed.

    Lemma stM_Go j : j <> i -> get_node j (sy_nodes σ') = get_node j (sy_nodes σ).
    Proof. intro Hj. simpl. apply get_put_other. rewrite stM_id. exact Hj. Qed.

    Lemma stM_NI : LogMatchNode.inv (with_budget (settle s) k) (inp_of ev) (boot_of ev) (rt_of ev) (vq_of ev) (lq_of s) (dc_of ev) (rsp_of ev) s'.
    Proof. exact (ns_inv _ _ _ _ NS). Qed.

    Lemma stM_term_le : p_term (n_p s) <= T'.
    Proof. pose proof (v_tm _ _ _ _ _ _ _ _ _ stM_NI) as X. exact X. Qed.

    (* a successful AppEntsResp in the outbox: the acknowledged prefix is a prefix of a leader record of the current term *)
    Lemma stM_resp m0 idx h :
      In m0 (n_msgs s') -> m_body m0 = AppEntsResp true idx h ->
      (N.to_nat idx <= length L')%nat /\
      (idx = 0 \/ exists j l, In (T', j, l) G /\ firstn (N.to_nat idx) L' = firstn (N.to_nat idx) l).
    Proof.
      intros H0 Hb. pose proof stM_GI as GI. pose proof stM_GI' as GI'.
      destruct (N.eq_dec idx 0) as [Z0 | Hnz]; [subst idx; simpl; split; [lia | left; reflexivity]|].
      pose proof (v_msgs _ _ _ _ _ _ _ _ _ stM_NI) as N_msgs. rewrite Forall_forall in N_msgs.
      pose proof (N_msgs m0 H0) as Mg. unfold mgood in Mg. rewrite Hb in Mg.
      destruct Mg as [Z0 | [e1 [X1 R1]]]; [contradiction|]. fold L' in X1.
      assert (Hd : exists md pi pt cm oe, ev = EDeliver md /\ m_body md = AppEnts pi pt cm oe).
      { unfold rt_of in R1. destruct ev; try contradiction. destruct (m_body m) eqn:Ebd; try contradiction.
        eexists _, _, _, _, _. split; [reflexivity | exact Ebd]. }
      destruct Hd as [md [pi [pt [cm [oe [Eev Ebd]]]]]].
      destruct (Hdel md Eev) as [Min _]. pose proof (g_msgs _ _ _ _ GI md Min) as Mk. unfold msg_ok3 in Mk. rewrite Ebd in Mk.
      destruct Mk as [j [l [Rin [Sl Tm1]]]].
      assert (Htm : m_term md = T').
      { destruct (ns_term _ _ _ _ NS md Eev) as [D | D]; [rewrite D in H0; contradiction | unfold T'; congruence]. }
      assert (Hl : exists e2, nth_error l (N.to_nat (idx - 1)) = Some e2 /\ e_term e2 = e_term e1).
      { unfold rt_of in R1. rewrite Eev, Ebd in R1. destruct R1 as [[R1 R2] | [ents [jj [ee [R1 [R2 [R3 R4]]]]]]].
        - destruct Sl as [_ [Ta _]]. destruct Ta as [Z0 | [e2 [A1 A2]]].
          + exfalso. subst. contradiction.
          + exists e2. subst idx. split; auto. congruence.
        - subst oe. pose proof (slice_nth _ _ _ _ _ _ Sl R2) as A1. exists ee. split; [| congruence].
          rewrite <- A1. f_equal. lia. }
      destruct Hl as [e2 [A1 A2]].
      assert (HG'l : In (m_term md, j, l) G') by (apply stM_incl; exact Rin).
      pose proof (same_term_prefix G' L' l (N.to_nat (idx - 1)) e1 e2 (g_cmp _ _ _ _ GI')
                    (g_lm_node _ _ _ _ GI' i s' stM_Gs') (g_lm_rec _ _ _ _ GI' _ _ _ HG'l) X1 A1 (eq_sym A2)) as Pf.
      replace (S (N.to_nat (idx - 1))) with (N.to_nat idx) in Pf by lia.
      split; [apply nth_len in X1; lia|]. right. exists j, l. rewrite <- Htm. auto.
    Qed.

    (* the same from the bare evidence: the log agrees in term with the delivered entries at position idx *)
    Lemma stM_resp_ok idx :
      idx <> 0 -> resp_ok (rt_of ev) L' idx -> (forall md, ev = EDeliver md -> m_term md = T') ->
      (N.to_nat idx <= length L')%nat /\ exists j l, In (T', j, l) G /\ firstn (N.to_nat idx) L' = firstn (N.to_nat idx) l.
    Proof.
      intros Hnz Mg Hterm. pose proof stM_GI as GI. pose proof stM_GI' as GI'.
      destruct Mg as [Z0 | [e1 [X1 R1]]]; [contradiction|].
      assert (Hd : exists md pi pt cm oe, ev = EDeliver md /\ m_body md = AppEnts pi pt cm oe).
      { unfold rt_of in R1. destruct ev; try contradiction. destruct (m_body m) eqn:Ebd; try contradiction.
        eexists _, _, _, _, _. split; [reflexivity | exact Ebd]. }
      destruct Hd as [md [pi [pt [cm [oe [Eev Ebd]]]]]].
      destruct (Hdel md Eev) as [Min _]. pose proof (g_msgs _ _ _ _ GI md Min) as Mk. unfold msg_ok3 in Mk. rewrite Ebd in Mk.
      destruct Mk as [j [l [Rin [Sl Tm1]]]].
      pose proof (Hterm md Eev) as Htm.
      assert (Hl : exists e2, nth_error l (N.to_nat (idx - 1)) = Some e2 /\ e_term e2 = e_term e1).
      { unfold rt_of in R1. rewrite Eev, Ebd in R1. destruct R1 as [[R1 R2] | [ents [jj [ee [R1 [R2 [R3 R4]]]]]]].
        - destruct Sl as [_ [Ta _]]. destruct Ta as [Z0 | [e2 [A1 A2]]].
          + exfalso. subst. contradiction.
          + exists e2. subst idx. split; auto. congruence.
        - subst oe. pose proof (slice_nth _ _ _ _ _ _ Sl R2) as A1. exists ee. split; [| congruence].
          rewrite <- A1. f_equal. lia. }
      destruct Hl as [e2 [A1 A2]].
      assert (HG'l : In (m_term md, j, l) G') by (apply stM_incl; exact Rin).
      pose proof (same_term_prefix G' L' l (N.to_nat (idx - 1)) e1 e2 (g_cmp _ _ _ _ GI')
                    (g_lm_node _ _ _ _ GI' i s' stM_Gs') (g_lm_rec _ _ _ _ GI' _ _ _ HG'l) X1 A1 (eq_sym A2)) as Pf.
      replace (S (N.to_nat (idx - 1))) with (N.to_nat idx) in Pf by lia.
      split; [apply nth_len in X1; lia|]. exists j, l. rewrite <- Htm. auto.
    Qed.

    Lemma keeps_nth_inv l P j e : keeps l P -> (j < length P)%nat -> nth_error l j = Some e -> nth_error P j = Some e.
    Proof.
      unfold keeps. intros H Hj Hl. rewrite <- H. rewrite nth_error_firstn'. apply Nat.ltb_lt in Hj. rewrite Hj. exact Hl.
    Qed.

    (* the follower cut its log at a term conflict at position c: an acknowledged prefix reaching beyond c is contradicted
       by the leader record the delivered AppEnts is a slice of *)
    Lemma stM_conflict a c T P kk :
      inp_of ev = Some a -> T' = ai_term a -> conflict_at L0 a c -> firstn c L' = firstn c L0 ->
      In (i, T, P) A -> tpos T P kk -> T <= p_term (n_p s) -> keeps L0 (firstn kk P) ->
      keeps L' (firstn kk P) \/ escapes G T T' (firstn kk P).
    Proof.
      intros Hinp Hta [Hpc [e1 [e2 [X1 [X2 X3]]]]] Hfc Hin Htp HT K.
      pose proof stM_GI as GI. pose proof (tpos_len _ _ _ Htp) as Hlk.
      destruct (Nat.le_gt_cases kk c) as [Hle | Hgt].
      { left. eapply keeps_agree; [| exact K]. rewrite Hlk. eapply firstn_eq_le; eauto. }
      right.
      assert (Hm' : exists m pi pt cm ents, ev = EDeliver m /\ m_body m = AppEnts pi pt cm (Some ents) /\
                         a = {| ai_term := m_term m; ai_pi := pi; ai_pt := pt; ai_ents := ents |}).
      { destruct ev; simpl in Hinp; try discriminate. destruct (m_body m) eqn:Eb; try discriminate.
        destruct ents; try discriminate. inversion Hinp. eexists _, _, _, _, _. repeat split; eauto. }
      destruct Hm' as [m [pi [pt [cm [ents [Eev [Eb Ea]]]]]]].
      destruct (Hdel m Eev) as [Min _]. pose proof (g_msgs _ _ _ _ GI m Min) as Mk. unfold msg_ok3 in Mk. rewrite Eb in Mk.
      destruct Mk as [j [l [Rin [Sl _]]]].
      assert (Hl2 : nth_error l c = Some e2).
      { rewrite Ea in X2. simpl in X2. pose proof (slice_nth _ _ _ _ _ _ Sl X2) as Y.
        rewrite Ea in Hpc. simpl in Hpc. rewrite <- Y. f_equal. lia. }
      assert (Hp1 : nth_error (firstn kk P) c = Some e1).
      { eapply keeps_nth_inv; eauto. lia. }
      assert (Hnk : ~ keeps l (firstn kk P)).
      { intro K2. pose proof (keeps_nth _ _ _ _ K2 Hp1) as Y. rewrite Hl2 in Y. inversion Y. subst. congruence. }
      assert (Etm : m_term m = T') by (rewrite Hta, Ea; reflexivity).
      destruct (N.eq_dec T T') as [Eq | Ne].
      - exfalso. destruct (k_rec _ _ _ KI _ _ _ Hin) as [Pn | [iT [lT [RT [xx Hx]]]]].
        + subst P. destruct Htp as [[H1 H2] _]. simpl in H2. lia.
        + rewrite Etm, <- Eq in Rin. pose proof (g_cmp _ _ _ _ GI _ _ _ _ _ RT Rin) as Cm.
          assert (HP1 : nth_error P c = Some e1).
          { rewrite nth_error_firstn' in Hp1. destruct (c <? kk)%nat; [exact Hp1 | discriminate]. }
          assert (HlT : nth_error lT c = Some e1).
          { rewrite Hx. rewrite nth_error_app1; [exact HP1|]. apply nth_len in HP1. lia. }
          assert (S c <= length lT)%nat by (eapply nth_len; eauto).
          assert (S c <= length l)%nat by (eapply nth_len; eauto).
          pose proof (comparable_firstn _ _ _ Cm H H0) as Pf. apply firstn_nth_eq in Pf. congruence.
      - exists T', j, l. split; [rewrite <- Etm; exact Rin|]. split; [pose proof stM_term_le; lia|].
        split; [lia | exact Hnk].
    Qed.

    Lemma stM_esc_old T P kk :
      In (i, T, P) A -> tpos T P kk -> T <= p_term (n_p s) -> keeps L0 (firstn kk P) ->
      keeps L' (firstn kk P) \/ escapes G T T' (firstn kk P).
    Proof.
      intros Hin Htp HT K. pose proof (tpos_len _ _ _ Htp) as Hlk.
      pose proof (v_lr _ _ _ _ _ _ _ _ _ stM_NI) as N_lr. unfold LR in N_lr. cbv zeta in N_lr.
      change (p_log (n_p (with_budget (settle s) k))) with L0 in N_lr. fold L' in N_lr.
      destruct N_lr as [X | [[_ [_ [a [c [Xa [Xt [X Xc]]]]]]] | [[_ [_ [b [Xb [X0 X]]]]] | [[Xr [Xt [new [X Xn]]]] | [_ [_ [a [Xa [Xt Xm]]]]]]]]].
      - left. rewrite X. exact K.
      - eapply stM_conflict; eauto. rewrite X. rewrite firstn_firstn, Nat.min_id. reflexivity.
      - exfalso. rewrite X0 in K. apply keeps_len in K. rewrite Hlk in K. simpl in K. destruct Htp as [[H1 _] _]. lia.
      - left. eapply keeps_pfx; [| exact K]. rewrite X. exists new. reflexivity.
      - destruct Xm as [c [E [Hb [Hc [Ta [Ag Cf]]]]]]. destruct Cf as [Cl | Cf].
        + left. eapply keeps_pfx; [| exact K]. rewrite E, Cl, firstn_all. eexists. reflexivity.
        + eapply stM_conflict; eauto. rewrite E. rewrite firstn_app, firstn_firstn, Nat.min_id.
          rewrite firstn_length. replace (c - Nat.min c (length L0))%nat with 0%nat by lia. simpl. apply app_nil_r.
    Qed.


    Lemma in_rec_acks rs a : In a (rec_acks rs) -> exists t j l, In (t, j, l) rs /\ a = (j, t, l).
    Proof.
      unfold rec_acks. rewrite in_map_iff. intros [[[t j] l] [E H]]. exists t, j, l. simpl in E. auto.
    Qed.

    Lemma escapes_mono G1 G2 T h1 h2 Pk : incl G1 G2 -> h1 <= h2 -> escapes G1 T h1 Pk -> escapes G2 T h2 Pk.
    Proof. intros Hi Hh [U [j [l [A1 [A2 [A3 A4]]]]]]. exists U, j, l. repeat split; auto. lia. Qed.

    (* what the touched node still holds of its earlier acknowledgements; the escape witnesses are OLD records *)
    Lemma stM_esc_node T P kk :
      In (i, T, P) A -> tpos T P kk ->
      T <= p_term (n_p s) /\ (keeps L' (firstn kk P) \/ escapes G T T' (firstn kk P)).
    Proof.
      intros Hin Htp. destruct (k_esc _ _ _ KI _ _ _ Hin) as [x [Gx [Le Hk]]]. rewrite Gs in Gx. inversion Gx. subst x.
      split; [exact Le|]. destruct (Hk kk Htp) as [K | Es].
      - apply (stM_esc_old T P kk Hin Htp Le K).
      - right. eapply escapes_mono; [apply incl_refl | apply stM_term_le | exact Es].
    Qed.

    Lemma ackinvM_step_abs : ackinvM σ' G' A'.
    Proof.
      pose proof stM_GI as GI. pose proof stM_GI' as GI'. pose proof stM_Gs' as Gs'. pose proof stM_id as Hi.
      pose proof (ns_id _ _ _ _ NS) as Hid. pose proof (ns_pext _ _ _ _ NS) as Hp. pose proof (ns_msgs _ _ _ _ NS) as Hm. pose proof (ns_esum _ _ _ _ NS) as He.
      constructor.
      - exact GI'.
      - (* acknowledged prefixes are prefixes of a leader record of their term *)
        intros v T P Hin. unfold A' in Hin. apply in_app_or in Hin. destruct Hin as [Hin | Hin].
        + destruct (k_rec _ _ _ KI _ _ _ Hin) as [E | [j [l [A1 A2]]]]; [left; exact E | right].
          exists j, l. split; [apply stM_incl; exact A1 | exact A2].
        + apply in_app_or in Hin. destruct Hin as [Hin | Hin].
          * apply in_acks_of in Hin. destruct Hin as [m0 [idx [h [H0 [Hb Ea]]]]]. inversion Ea. subst v T P.
            destruct (stM_resp m0 idx h H0 Hb) as [Hl [Z | [j [l [A1 A2]]]]].
            -- left. subst idx. reflexivity.
            -- right. exists j, l. split; [apply stM_incl; exact A1|]. fold L'. rewrite A2. apply firstn_pfx.
          * apply in_rec_acks in Hin. destruct Hin as [t [j [l [Hr Ea]]]]. inversion Ea. subst v T P.
            right. exists j, l. split; [apply in_or_app; right; exact Hr | apply pfx_refl].
      - (* every successful AppEntsResp in the soup is recorded *)
        intros m idx h Hin Hb. simpl in Hin. apply in_app_or in Hin. destruct Hin as [Hin | Hin].
        + destruct (k_msg _ _ _ KI m idx h Hin Hb) as [P [A1 A2]]. exists P. split; auto. apply in_or_app. left. exact A1.
        + apply in_out_msgs in Hin. destruct Hin as [m0 [H0 [Et [Ef [Eto Eb]]]]].
          unfold msgs_ok in Hm. rewrite Forall_forall in Hm. destruct (Hm m0 H0) as [X [Y Z]].
          rewrite Eb in Hb. destruct (stM_resp m0 idx h H0 Hb) as [Hl _].
          exists (firstn (N.to_nat idx) L'). split.
          * apply in_or_app. right. apply in_or_app. left. rewrite Et, Ef, X, Y. apply (acks_of_in s' m0 idx h H0 Hb).
          * rewrite firstn_length. lia.
      - (* a leader acknowledges its own log *)
        intros T j l Hin Hj. apply in_app_or in Hin. destruct Hin as [Hin | Hin].
        + apply in_or_app. left. apply (k_lead _ _ _ KI _ _ _ Hin Hj).
        + apply in_or_app. right. apply in_or_app. right. unfold rec_acks. apply in_map_iff.
          exists (T, j, l). split; [reflexivity | exact Hin].
      - (* ESC *)
        intros v T P Hin. unfold A' in Hin. apply in_app_or in Hin. destruct Hin as [Hin | Hin].
        + destruct (k_esc _ _ _ KI _ _ _ Hin) as [x [Gx [Le Hk]]].
          destruct (N.eq_dec v i) as [E | E].
          * subst v. rewrite Gs in Gx. inversion Gx. subst x. exists s'. split; [exact Gs'|].
            split; [pose proof stM_term_le; unfold T' in *; lia|].
            intros kk Htp. destruct (stM_esc_node T P kk Hin Htp) as [_ [K | Es]]; [left; exact K | right].
            eapply escapes_mono; [apply stM_incl | apply N.le_refl | exact Es].
          * exists x. split; [rewrite stM_Go; auto|]. split; auto.
            intros kk Htp. destruct (Hk kk Htp) as [K | Es]; [left; exact K | right].
            eapply escapes_mono; [apply stM_incl | apply N.le_refl | exact Es].
        + assert (Hnew : v = n_id s' /\ T = T' /\ exists idx, P = firstn idx L').
          { apply in_app_or in Hin. destruct Hin as [Hin | Hin].
            - apply in_acks_of in Hin. destruct Hin as [m0 [idx [h [H0 [Hb Ea]]]]]. inversion Ea. split; auto. split; auto.
              exists (N.to_nat idx). reflexivity.
            - apply in_rec_acks in Hin. destruct Hin as [t [j [l [Hr Ea]]]]. inversion Ea. subst v T P.
              apply in_rec_of in Hr. destruct Hr as [Er _]. inversion Er. split; auto. split; auto.
              exists (length L'). symmetry. apply firstn_all. }
          destruct Hnew as [Ev [ET [idx EP]]]. subst v T P. exists s'. rewrite Hi. split; [exact Gs'|]. split; [apply N.le_refl|].
          intros kk [[H1 H2] _]. left. apply keeps_firstn_firstn. rewrite firstn_length in H2. lia.
    Qed.
  End Step.
End AckInvM.
