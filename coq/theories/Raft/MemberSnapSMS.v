(* Raft/MemberSnapSMS.v — round 12: state machine safety over the combined alphabet cstep of Raft/MemberSnapSystemU.v: entries
   handed to the state machine by any two nodes at any two moments of a run with the same index are equal. *)
From Coq Require Import List NArith ZArith Bool Lia ZifyN ZifyNat ZifyBool.
From BLB Require Import Lib.LTS Raft.Core Raft.Wire Raft.NodeProofs Raft.Election Raft.LogMatchLists Raft.LogMatch Raft.CompletenessAck
  Raft.CompletenessVote Raft.SMSafetyNode Raft.SMSafetyBound Raft.SnapEvents Raft.MemberVotes Raft.LogMatchM Raft.CompletenessAckM
  Raft.CompletenessVoteM Raft.MemberSafety Raft.MemberRun Raft.SnapVirtualQ Raft.LogMatchNodeSQ Raft.MemberSnapSystemU.
Import ListNotations.
Open Scope N_scope.

Section SMS.
  Variables (bm : list nid) (be : N).
  Hypothesis Hbm : NoDup bm.

  (* applied entries lie in the own physical log at or below the commit index: every event of the combined alphabet *)
  Lemma appl_stepC a e a' : appl_okM a -> cstep bm be a e a' -> appl_okM a'.
  Proof.
    intros AO Hst. destruct Hst as [σ EC i s ev k crashed st s' Gs Hdel Hres Hrun].
    assert (Hi : n_id s' = i) by (destruct (step_facts _ _ _ _ _ _ Hrun) as [Hid' _]; destruct (get_node_in _ _ _ Gs) as [_ Gid']; congruence).
    intros j x0 Hx. cbn [fst sy_nodes] in Hx. destruct (N.eq_dec j i) as [E | E].
    - subst j. simpl in Hx. rewrite <- Hi in Hx. rewrite (get_put_same s' (sy_nodes σ) s) in Hx by (rewrite Hi; exact Gs). inversion Hx. subst x0.
      intros x Hin. split; [| apply (applied_index_bound s ev k crashed st s' Hrun x Hin)].
      destruct ev as [ms ep | m | | es | mem rnd | mem | sm |].
      + apply (fun H => applied_in_own_log s _ k crashed st s' H Hrun x Hin); exact Logic.I.
      + destruct (m_body m) as [pi pt cm oes | su ix hi | vli vlt | gr | li lt cf] eqn:Eb.
        5: { apply (applied_in_own_log_snap s (EDeliver m) k crashed st s'); auto. eexists _, _, _; exact Eb. }
        all: apply (applied_in_own_log s (EDeliver m) k crashed st s'); auto; simpl; unfold no_snap_msg; rewrite Eb; exact Logic.I.
      + apply (fun H => applied_in_own_log s _ k crashed st s' H Hrun x Hin); exact Logic.I.
      + apply (fun H => applied_in_own_log s _ k crashed st s' H Hrun x Hin); exact Logic.I.
      + apply (fun H => applied_in_own_log s _ k crashed st s' H Hrun x Hin); exact Logic.I.
      + apply (fun H => applied_in_own_log s _ k crashed st s' H Hrun x Hin); exact Logic.I.
      + apply (applied_in_own_log_snap s (ESnapDone sm) k crashed st s' Logic.I Hrun x Hin).
      + apply (fun H => applied_in_own_log s _ k crashed st s' H Hrun x Hin); exact Logic.I.
    - simpl in Hx. rewrite get_put_other in Hx by congruence. apply (AO j x0 Hx).
  Qed.

  Lemma appl_runC a sched a' : appl_okM a -> run asys sys_event (cstep bm be) a sched a' -> appl_okM a'.
  Proof. intros AO Hr. induction Hr; auto. apply IHHr. eapply appl_stepC; eauto. Qed.

  Theorem state_machine_safety_combined_sys a0 a1 a2 sched1 sched2 :
    minitS a0 -> run asys sys_event (cstep bm be) a0 sched1 a1 -> run asys sys_event (cstep bm be) a1 sched2 a2 ->
    forall n1 n2 x y,
      In n1 (sy_nodes (fst a1)) -> In n2 (sy_nodes (fst a2)) -> In x (n_commits n1) -> In y (n_commits n2) ->
      e_index x = e_index y -> x = y.
  Proof.
    intros Hi Hr1 Hr2 n1 n2 x y Hn1 Hn2 Hx Hy Ei.
    assert (AO0 : appl_okM a0).
    { intros i s G z Hz. apply get_node_in in G. destruct G as [G _]. destruct Hi as [_ Hl]. destruct (Hl s G) as [_ [_ [_ [_ E]]]].
      rewrite E in Hz. contradiction. }
    pose proof (appl_runC _ _ _ AO0 Hr1) as AO1. pose proof (appl_runC _ _ _ AO1 Hr2) as AO2.
    destruct (MSI_run bm be _ _ _ _ _ _ _ _ _ _ (MSI_init bm be Hbm a0 Hi) Hr1) as [Cf1 [S1 [G1 [A1 [CL1 [GR1 [GL1 [HI1 _]]]]]]]].
    destruct (MSI_run bm be _ _ _ _ _ _ _ _ _ _ HI1 Hr2) as [Cf2 [S2 [G2 [A2 [CL2 [GR2 [GL2 [HI2 [HG HA]]]]]]]]].
    pose proof (mi_ms _ _ _ _ _ _ _ _ _ _ HI1) as M1. pose proof (mi_ms _ _ _ _ _ _ _ _ _ _ HI2) as M2.
    pose proof (in_get_node _ _ (e_nodup _ (mi_em _ _ _ _ _ _ _ _ _ _ HI1)) Hn1) as Ga.
    pose proof (in_get_node _ _ (e_nodup _ (mi_em _ _ _ _ _ _ _ _ _ _ HI2)) Hn2) as Gb.
    assert (Hpos : forall σv EC G A CL GR GL (M : MS bm be (σv, EC) G A CL GR GL) j vs z,
               get_node j (sy_nodes σv) = Some vs -> In z (p_log (n_p vs)) -> e_index z <= n_commit vs ->
               exists T P, committedM G A T P /\ nth_error P (N.to_nat (e_index z) - 1) = Some z /\ 1 <= e_index z).
    { intros σv EC G A CL GR GL M j vs z Gz Hz Hb0.
      pose proof (k_g _ _ _ _ _ (w_k _ _ _ _ _ _ _ _ (ms_w _ _ _ _ _ _ _ _ M))) as GI. cbn [fst] in GI.
      destruct (LogMatchM.g_base _ _ _ _ GI _ _ Gz) as [_ [Wf _]]. apply In_nth_error in Hz. destruct Hz as [kz Hk].
      pose proof (wf_from_nth _ _ _ _ Wf Hk) as Iz.
      destruct (ms_cn _ _ _ _ _ _ _ _ M _ _ Gz) as [Hcl [Z | [T [P [Cm [_ [w Hw]]]]]]]; [lia|].
      exists T, P. split; [exact Cm|]. split; [| lia].
      replace (N.to_nat (e_index z) - 1)%nat with kz by lia.
      rewrite Hw. rewrite nth_error_app1 by (rewrite firstn_length; lia). rewrite nth_error_firstn'.
      assert (Y : (kz <? N.to_nat (n_commit vs))%nat = true) by (apply Nat.ltb_lt; lia). rewrite Y. exact Hk. }
    destruct (AO1 _ _ Ga x Hx) as [Lx Bx]. destruct (AO2 _ _ Gb y Hy) as [Ly By].
    pose proof (get_vsys Cf1 S1 _ _ _ Ga) as Gva. pose proof (get_vsys Cf2 S2 _ _ _ Gb) as Gvb.
    destruct (Hpos _ _ _ _ _ _ _ M1 _ _ x Gva ltac:(simpl; apply in_or_app; right; exact Lx) Bx) as [Tx [Px [Cx [Nx Ix]]]].
    destruct (Hpos _ _ _ _ _ _ _ M2 _ _ y Gvb ltac:(simpl; apply in_or_app; right; exact Ly) By) as [Ty [Py [Cy [Ny Iy]]]].
    pose proof (committedM_mono G1 G2 A1 A2 Tx Px HG HA Cx) as Cx2.
    pose proof (committedM_comparable bm be _ _ _ _ _ _ _ _ _ _ M2 Cx2 Cy) as Cmp.
    rewrite Ei in Nx.
    assert (H1 : (Datatypes.S (N.to_nat (e_index y) - 1) <= length Px)%nat) by (eapply nth_len; eauto).
    assert (H2 : (Datatypes.S (N.to_nat (e_index y) - 1) <= length Py)%nat) by (eapply nth_len; eauto).
    pose proof (comparable_firstn _ _ _ Cmp H1 H2) as Pf. apply firstn_nth_eq in Pf. congruence.
  Qed.
End SMS.
