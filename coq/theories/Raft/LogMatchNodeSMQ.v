(* Raft/LogMatchNodeSMQ.v — the same as Raft/LogMatchNodeSM.v over Raft/LogMatchNodeQ.v / LogMatchNodeSQ.v (generated).
   Raft/LogMatchNodeSM.v — round 10: the node-level pass of Raft/LogMatchNodeS.v (stores WITH a snapshot, seen through the
   virtual node vn C s) for the two events it excluded, AddNode and RemoveNode, as Raft/LogMatchNodeM.v does for stores without
   snapshot: at a leader both are "set the configuration, touch the peer table, leader_propose one configuration entry"
   (RemoveNode: one more leader_maybe_commit). *)
From Coq Require Import List NArith ZArith Bool Lia ZifyN ZifyNat ZifyBool.
From BLB Require Import Raft.Core Raft.NodeProofs Raft.NodeKeep Raft.NodeElect Raft.CommitCount Raft.LogMatchLists Raft.LogMatchNodeQ
  Raft.SnapContig Raft.LogMatchNodeMQ Raft.LogMatchNodeSQ.
Import ListNotations.
Open Scope N_scope.

Section LVSM.
  Variable C : list entry.
  Variable s0r : node.
  Variable inp : option ainp.
  Variable boot : option entry.
  Variable RT : N -> N -> Prop.
  Variable VQ : nid -> list entry -> Prop.
  Variable LQ : list entry -> N -> Prop.
  Local Notation s0 := (vn C s0r).
  Hypothesis HLQ : forall t, p_term (n_p s0) < t -> LQ (p_log (n_p s0)) t.
  Variable DC : N -> Prop.
  Variable RSP : nid -> N -> N -> Prop.
  Local Notation INV := (inv s0 inp boot RT VQ LQ DC RSP).
  Local Notation iS := (iS C s0r inp boot RT VQ LQ DC RSP).
  Local Notation postS := (postS C s0r inp boot RT VQ LQ DC RSP).
  Local Notation postS2 := (postS2 C s0r inp boot RT VQ LQ DC RSP).
  Local Notation postSQ := (postSQ C s0r inp boot RT VQ LQ DC RSP).
  Local Notation strongS := (strong s0).

  Lemma iS_frame s s' :
    iS s ->
    n_p s' = n_p s -> n_role s' = n_role s ->
    (n_conf s' = n_conf s \/ (1 <= p_term (n_p s) /\ n_commit s = n_commit s0r)) ->
    n_commit s' = n_commit s -> l_peers s' = l_peers s -> n_id s' = n_id s -> n_msgs s' = n_msgs s -> iS s'.
  Proof.
    intros [I Sh] P Rl Cf Hc Hp Hi M. split.
    - eapply (inv_frame s0 inp boot RT VQ LQ DC RSP (vn C s) (vn C s') I); simpl; try rewrite P; try rewrite M; auto.
      exists []. rewrite app_nil_r. split; [reflexivity|]. split; [constructor|]. split; [left; constructor | constructor].
    - unfold shp, cmS in *. rewrite P, Hc. exact Sh.
  Qed.

  Lemma postS2_add_node member rnd :
    base s0 -> shp C s0r s0r -> n_msgs s0r = [] -> member <> n_id s0r ->
    (n_role s0r = Leader -> forall c, n_conf s0r = Some c -> memb member (mb_members c) = false -> peer_get member (l_peers s0r) = None) ->
    postS2 (add_node s0r member rnd).
  Proof.
    intros Hb Sh Hm Hne Hpg. assert (I : iS s0r) by (apply iS_start; assumption).
    unfold add_node. destruct (n_role s0r) eqn:Er; try (simpl; exact I). specialize (Hpg eq_refl).
    unfold leader_add_node. pose proof (pure_verify_nop s0r) as Pv.
    destruct (verify_nop_committed s0r) as [[] | |]; simpl in *; auto; [| contradiction].
    destruct (n_conf s0r) as [c |] eqn:Ec; [| simpl; auto].
    destruct (memb member (mb_members c)) eqn:Emb; [simpl; exact I|]. specialize (Hpg c eq_refl Emb).
    destruct (negb (latest_conf_committed s0r)); [simpl; exact I|].
    cbv zeta.
    match goal with |- postS2 (bind (leader_propose (set_leader ?x1 _ (peer_set ?q _)) ?es) _) => set (s1 := x1); set (newp := q) end.
    assert (H2 : 2 <= p_term (n_p s0r)).
    { destruct I as [I _]. apply (v_n2 _ _ _ _ _ _ _ _ _ I). simpl. congruence. }
    assert (I1 : iS s1).
    { apply (iS_frame s0r s1 I); try reflexivity. right. split; [lia | reflexivity]. }
    assert (I2 : iS (set_leader s1 (l_check s1) (peer_set newp (l_peers s1)))).
    { apply (iS_peer_set C s0r inp boot RT VQ LQ HLQ DC RSP s1 newp (l_check s1) I1).
      - intros p0 Hp0. simpl in Hp0. rewrite Hpg in Hp0. discriminate.
      - left. left. reflexivity.
      - intros _. simpl. exact Hne. }
    apply postS2_of_postS.
    apply postS_leader_propose; auto.
    split; [exact Er | reflexivity].
  Qed.

  (* ---------------------------------------------------------------- RemoveNode *)
  Lemma iS_peer_del s x chk :
    iS s -> n_commit s <= n_commit s0r -> iS (set_leader s chk (peer_del x (l_peers s))).
  Proof.
    intros [I Sh] Hc. split; [| exact Sh].
    change (vn C (set_leader s chk (peer_del x (l_peers s)))) with (set_leader (vn C s) chk (peer_del x (l_peers (vn C s)))).
    apply inv_peer_del; [exact I | exact Hc].
  Qed.

  Definition slS (x : node) : Prop := strongS x /\ n_role x = Leader.

  Lemma postSQ_commit_tail_L s mi f :
    iS s -> strongS s -> n_role s = Leader -> l_peers s = [] -> n_commit s <= mi -> cjust s0 inp RT DC RSP (vn C s) mi ->
    in_latest_conf s = true ->
    postSQ slS (s1 <- leader_commit_up_to s mi ;; for_peers (peer_ids s1) f s1).
  Proof.
    intros I St Hr Lp Hle J Hic.
    eapply postSQ_bindQ with (Q := fun x => slS x /\ l_peers x = []).
    - unfold leader_commit_up_to. cbv zeta.
      eapply postSQ_bindQ; [apply postSQ_commit_up_to; auto|].
      intros s1 I1 [_ [_ [T1 [R1 [_ [C1 [P1 [Id1 _]]]]]]]].
      assert (Hic1 : in_latest_conf s1 = true) by (unfold in_latest_conf in *; rewrite C1, Id1; exact Hic).
      rewrite Hic1. cbn [negb andb]. rewrite andb_false_r.
      apply postSQ_ret; [exact I1|]. split; [| congruence]. split; [| congruence].
      destruct St as [S1 S2]. split; [exact S1 | congruence].
    - intros s1 I1 [Q1 P1]. unfold peer_ids. rewrite P1. cbn [map for_peers]. apply postSQ_ret; auto.
  Qed.

  Lemma postSQ_leader_maybe_commit_L s :
    iS s -> strongS s -> n_role s = Leader -> l_peers s = [] -> postSQ slS (leader_maybe_commit s).
  Proof.
    intros I St Hr Lp. unfold leader_maybe_commit.
    apply postSQ_bind_pure; [apply pure_find_majority_index|]. intros mi Hf.
    destruct (n_commit s <? mi) eqn:Ec; [| apply postSQ_ret; [exact I | split; auto]]. apply N.ltb_lt in Ec.
    apply postSQ_bind_pure; [apply pure_st_term|]. intros [t ok] Hst.
    destruct ok; [| simpl; auto]. cbn [negb].
    destruct (t =? p_term (n_p s)) eqn:Et; cbn [negb]; [| apply postSQ_ret; [exact I | split; auto]]. apply N.eqb_eq in Et.
    assert (X : cjust s0 inp RT DC RSP (vn C s) mi /\ (l_peers s = [] -> in_latest_conf s = true)) by (eapply leader_cjust_S; eauto).
    destruct X as [J Hic]. specialize (Hic Lp).
    apply postSQ_commit_tail_L; auto. lia.
  Qed.

  Lemma postSQ_leader_propose_L s es :
    iS s -> strongS s -> n_role s = Leader -> p_log (n_p s) = p_log (n_p s0r) -> n_msgs s = [] -> n_commit s = n_commit s0r ->
    postSQ slS (leader_propose s es).
  Proof.
    intros I St Hrl Hl Hmsg Hcm. unfold leader_propose.
    eapply postSQ_bindQ; [apply postS_log_append_leader; auto|].
    intros s1 I1 [St1 Rl1].
    eapply postSQ_bindQ with (Q := slS).
    - apply postS_for_peers; [| exact I1 | split; auto]. intros s3 p I3 [St3 Rl3] Hp.
      match goal with |- LogMatchNodeSQ.postSQ _ _ _ _ _ _ _ _ _ _ (if ?c then _ else _) => destruct c end;
        [| apply postSQ_ret; [exact I3 | split; auto]].
      eapply postSQ_mono;
        [| apply postSQ_send_app_ents; [exact HLQ | exact I3 | right; apply strong_vn; exact St3 | exists p; auto]].
      intros x Hx. split; [eapply sameL_strong; eauto | destruct Hx as [_ [_ [Rx _]]]; congruence].
    - intros s2 I2 [St2 Rl2]. destruct (l_peers s2) eqn:Lp; [| apply postSQ_ret; [exact I2 | split; auto]].
      apply postSQ_leader_maybe_commit_L; auto.
  Qed.

  Lemma postS2_remove_node member :
    base s0 -> shp C s0r s0r -> n_msgs s0r = [] -> postS2 (remove_node s0r member).
  Proof.
    intros Hb Sh Hm. assert (I : iS s0r) by (apply iS_start; assumption).
    unfold remove_node. destruct (n_role s0r) eqn:Er; try (simpl; exact I).
    unfold leader_remove_node. pose proof (pure_verify_nop s0r) as Pv.
    destruct (verify_nop_committed s0r) as [[] | |]; simpl in *; auto; [| contradiction].
    destruct (n_conf s0r) as [c |] eqn:Ec; [| simpl; auto].
    destruct (negb (memb member (mb_members c))); [simpl; exact I|].
    destruct (negb (latest_conf_committed s0r)); [simpl; exact I|].
    cbv zeta.
    match goal with |- postS2 (bind (leader_propose (set_conf ?x1 ?cf) ?es) _) => set (s1 := x1); set (ncf := cf) end.
    assert (H2 : 2 <= p_term (n_p s0r)).
    { destruct I as [I _]. apply (v_n2 _ _ _ _ _ _ _ _ _ I). simpl. congruence. }
    assert (I1 : iS s1) by (apply iS_peer_del; [exact I | apply N.le_refl]).
    assert (I2 : iS (set_conf s1 ncf)).
    { apply (iS_frame s1 (set_conf s1 ncf) I1); try reflexivity. right. split; [simpl; lia | reflexivity]. }
    assert (P : postSQ slS (leader_propose (set_conf s1 ncf) [conf_entry (match ncf with Some x => x | None => c end)])).
    { apply postSQ_leader_propose_L; auto. split; [simpl; exact Er | reflexivity]. }
    unfold ncf in P at 2.
    match goal with |- postS2 (bind ?a _) => destruct a as [s3 | |] end; simpl in *; auto.
    destruct P as [I3 [St3 Rl3]].
    assert (P4 : postSQ strongS (leader_maybe_commit s3)) by (apply postS_leader_maybe_commit_strong; auto).
    destruct (leader_maybe_commit s3) as [s4 | |]; simpl in *; auto. tauto.
  Qed.
End LVSM.

(* ---------------------------------------------------------------- the event with a crash point, AddNode / RemoveNode included *)
Theorem run_event_crash_lm_SM C s ev k crashed st s' :
  base (vn C s) -> shape C (n_p s) (n_commit s) -> evokM s ev -> premE C s ev ->
  run_event_crash (settle s) ev k = Ret (crashed, st, s') ->
  inv (with_budget (settle (vn C s)) k) (inp_of ev) (boot_of ev) (rt_of ev) (vq_of ev) (lq_of (vn C s)) (dc_of ev) (rsp_of ev) (vn C s') /\
  shape C (n_p s') (n_commit s').
Proof.
  intros Hb Hsh He Hp.
  assert (Hgen : postS2 C (with_budget (settle s) k) (inp_of ev) (boot_of ev) (rt_of ev) (vq_of ev) (lq_of (vn C s)) (dc_of ev) (rsp_of ev)
                   (run_event (with_budget (settle s) k) ev) ->
                 run_event_crash (settle s) ev k = Ret (crashed, st, s') ->
                 inv (with_budget (settle (vn C s)) k) (inp_of ev) (boot_of ev) (rt_of ev) (vq_of ev) (lq_of (vn C s)) (dc_of ev) (rsp_of ev) (vn C s') /\
                 shape C (n_p s') (n_commit s')).
  { intro P. unfold run_event_crash. set (s0 := with_budget (settle s) k) in *.
    assert (Hq : forall t, p_term (n_p (vn C s0)) < t -> lq_of (vn C s) (p_log (n_p (vn C s0))) t) by (intros t Ht; split; [reflexivity | exact Ht]).
    assert (Hfin : forall x, iS C s0 (inp_of ev) (boot_of ev) (rt_of ev) (vq_of ev) (lq_of (vn C s)) (dc_of ev) (rsp_of ev) x ->
              inv (with_budget (settle (vn C s)) k) (inp_of ev) (boot_of ev) (rt_of ev) (vq_of ev) (lq_of (vn C s)) (dc_of ev) (rsp_of ev) (vn C x) /\
              shape C (n_p x) (n_commit x)).
    { intros x [Ix Sx]. split.
      - exact Ix.
      - apply (shape_cm C (n_p x) (cmS s0 x)); [exact Sx|]. intros m Hm. destruct Sx as [_ S2]. rewrite Hm in S2. unfold cmS in S2. lia. }
    destruct (run_event s0 ev) as [[st0 x] | c | p]; simpl in *; try discriminate.
    - intro H. inversion H. subst. apply (Hfin (with_budget x 0)).
      eapply iS_vol; [exact P | | | | | | |]; reflexivity.
    - pose proof (postS_new_core C s0 (inp_of ev) (boot_of ev) (rt_of ev) (vq_of ev) (lq_of (vn C s)) Hq (dc_of ev) (rsp_of ev) (n_id s) (n_cfg s) p P) as Q.
      destruct (new_core (n_id s) (n_cfg s) p) as [z | |]; simpl in *; try discriminate.
      intro H. inversion H. subst. exact (Hfin _ Q). }
  set (s0 := with_budget (settle s) k) in *.
  assert (Hb0 : base (vn C s0)) by (unfold base in *; simpl; exact Hb).
  assert (Hsh0 : shp C s0 s0) by (unfold shp, cmS; simpl; rewrite N.min_id; exact Hsh).
  assert (Hq : forall t, p_term (n_p (vn C s0)) < t -> lq_of (vn C s) (p_log (n_p (vn C s0))) t) by (intros t Ht; split; [reflexivity | exact Ht]).
  destruct ev; try (apply run_event_crash_lm_S; assumption).
  - destruct He as [He1 He2]. apply Hgen. simpl.
    apply (postS2_add_node C s0 None None _ _ (lq_of (vn C s)) Hq _ _ member rnd Hb0 Hsh0 eq_refl He1 He2).
  - apply Hgen. simpl. apply (postS2_remove_node C s0 None None _ _ (lq_of (vn C s)) Hq _ _ member Hb0 Hsh0 eq_refl).
Qed.
