(* Raft/MemberSnapSystemX.v — round 15: the combined alphabet with AddNode of ANY id, the node's own included, without side condition.
   Along its runs every node satisfies Jnm (a node that is not Follower and whose latest configuration is committed is a member
   of it, Raft/NonMemberPass.v), so a request of a node to add itself is always one the core refuses, every run is a run of
   wstep (Raft/MemberSnapSystemW.v), and the four theorems carry over. *)
From Coq Require Import List NArith ZArith Bool Lia.
From BLB Require Import Lib.LTS Raft.Core Raft.Wire Raft.NodeProofs Raft.Election Raft.LogMatch Raft.MemberVotes Raft.MemberRun
  Raft.NonMemberLeader Raft.NonMemberPass Raft.MemberSnapSystemU Raft.MemberSnapSystemW.
Import ListNotations.
Open Scope N_scope.

Section X.
  Variables (bm : list nid) (be : N).
  Hypothesis Hbm : NoDup bm.

  Definition evresX (s : node) (ev : event) : Prop :=
    match ev with EAddNode _ _ => True | _ => evresC bm be s ev end.

  Inductive xstep : asys -> sys_event -> asys -> Prop :=
  | XStep : forall σ EC i s ev k crashed st s',
      get_node i (sy_nodes σ) = Some s ->
      (forall m, ev = EDeliver m -> In m (sy_soup σ) /\ m_to m <> 0) ->
      evresX s ev ->
      run_event_crash (settle s) ev k = Ret (crashed, st, s') ->
      xstep (σ, EC) (i, ev, k) (step_sys σ s', EC ++ ec_of s s').

  Definition all_J (a : asys) : Prop := forall i s, get_node i (sy_nodes (fst a)) = Some s -> Jnm s.

  Lemma all_J_init a : minitS a -> all_J a.
  Proof.
    intros [[_ [Ha _]] _] i s G Hr. exfalso. apply Hr. apply get_node_in in G. destruct G as [G _]. destruct (Ha s G) as [_ R]. exact R.
  Qed.

  Lemma all_J_step a e a' : all_J a -> xstep a e a' -> all_J a'.
  Proof.
    intros J H. destruct H as [σ EC i s ev k crashed st s' G D He Rn].
    destruct (step_facts _ _ _ _ _ _ Rn) as [Hid _]. destruct (get_node_in _ _ _ G) as [_ Gid].
    assert (Hi : n_id s' = i) by congruence.
    intros j x Hx. cbn [fst] in Hx. simpl in Hx. destruct (N.eq_dec j i) as [E | E].
    - subst j. rewrite <- Hi in Hx. rewrite (get_put_same s' (sy_nodes σ) s) in Hx by (rewrite Hi; exact G). inversion Hx. subst x.
      exact (non_member_step s ev k crashed st s' (J i s G) Rn).
    - rewrite get_put_other in Hx by congruence. exact (J j x Hx).
  Qed.

  Lemma xstep_wstep a e a' : all_J a -> xstep a e a' -> wstep bm be a e a'.
  Proof.
    intros J H. destruct H as [σ EC i s ev k crashed st s' G D He Rn]. eapply WStep; eauto.
    destruct ev; simpl in *; auto. intros _.
    destruct (n_role s) eqn:Er; [left; discriminate | |];
      (right; destruct (latest_conf_committed s) eqn:Ec; [left; apply (J i s G); [congruence | exact Ec] | right; reflexivity]).
  Qed.

  Lemma xrun_wrun a sched a' : all_J a -> run asys sys_event xstep a sched a' -> run asys sys_event (wstep bm be) a sched a' /\ all_J a'.
  Proof.
    intros J H. induction H as [a | a e a1 es a2 Hst Hr IH]; [split; [apply run_nil | exact J]|].
    destruct (IH (all_J_step _ _ _ J Hst)) as [R J2]. split; [| exact J2]. eapply run_cons; [apply xstep_wstep; eassumption | exact R].
  Qed.

  (* THE INVARIANT over the combined alphabet *)
  Theorem non_follower_with_committed_conf_is_member_sys a0 a sched :
    minitS a0 -> run asys sys_event xstep a0 sched a ->
    forall i s, get_node i (sy_nodes (fst a)) = Some s ->
      n_role s <> Follower -> latest_conf_committed s = true -> in_latest_conf s = true.
  Proof. intros Hi Hr. destruct (xrun_wrun _ _ _ (all_J_init a0 Hi) Hr) as [_ J]. exact J. Qed.

  Theorem election_safety_combined_x a0 a sched :
    minitS a0 -> run asys sys_event xstep a0 sched a ->
    forall t x y, In (t, x) (sy_hist (fst a)) -> In (t, y) (sy_hist (fst a)) -> x = y.
  Proof. intros Hi Hr. destruct (xrun_wrun _ _ _ (all_J_init a0 Hi) Hr) as [W _]. exact (election_safety_combined_w bm be Hbm a0 a sched Hi W). Qed.

  Theorem log_matching_combined_x a0 a sched :
    minitS a0 -> run asys sys_event xstep a0 sched a ->
    exists Cf, fitsC a Cf /\
      forall x y k k' e e',
        In x (sy_nodes (fst a)) -> In y (sy_nodes (fst a)) ->
        nth_error (llogC Cf x) k = Some e -> nth_error (llogC Cf y) k' = Some e' ->
        e_index e = e_index e' -> e_term e = e_term e' ->
        k = k' /\ firstn (Datatypes.S k) (llogC Cf x) = firstn (Datatypes.S k) (llogC Cf y).
  Proof. intros Hi Hr. destruct (xrun_wrun _ _ _ (all_J_init a0 Hi) Hr) as [W _]. exact (log_matching_combined_w bm be Hbm a0 a sched Hi W). Qed.

  Theorem leader_completeness_combined_x a0 a1 a2 sched1 sched2 :
    minitS a0 -> run asys sys_event xstep a0 sched1 a1 -> run asys sys_event xstep a1 sched2 a2 ->
    exists Cf1 Cf2, fitsC a1 Cf1 /\ fitsC a2 Cf2 /\
      forall x b,
        In x (sy_nodes (fst a1)) -> In b (sy_nodes (fst a2)) -> n_role b = Leader -> p_term (n_p x) < p_term (n_p b) ->
        (N.to_nat (n_commit x) <= length (llogC Cf1 x))%nat /\
        firstn (N.to_nat (n_commit x)) (llogC Cf2 b) = firstn (N.to_nat (n_commit x)) (llogC Cf1 x).
  Proof.
    intros Hi H1 H2. destruct (xrun_wrun _ _ _ (all_J_init a0 Hi) H1) as [W1 J1]. destruct (xrun_wrun _ _ _ J1 H2) as [W2 _].
    exact (leader_completeness_combined_w bm be Hbm a0 a1 a2 sched1 sched2 Hi W1 W2).
  Qed.

  Theorem state_machine_safety_combined_x a0 a1 a2 sched1 sched2 :
    minitS a0 -> run asys sys_event xstep a0 sched1 a1 -> run asys sys_event xstep a1 sched2 a2 ->
    forall n1 n2 x y,
      In n1 (sy_nodes (fst a1)) -> In n2 (sy_nodes (fst a2)) -> In x (n_commits n1) -> In y (n_commits n2) ->
      e_index x = e_index y -> x = y.
  Proof.
    intros Hi H1 H2. destruct (xrun_wrun _ _ _ (all_J_init a0 Hi) H1) as [W1 J1]. destruct (xrun_wrun _ _ _ J1 H2) as [W2 _].
    exact (state_machine_safety_combined_w bm be Hbm a0 a1 a2 sched1 sched2 Hi W1 W2).
  Qed.
End X.
