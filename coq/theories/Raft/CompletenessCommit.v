(* Raft/CompletenessCommit.v — leader completeness piece (c) and state machine safety: the commit indices of the nodes only
   cover quorum-acknowledged prefixes.

   committed σ G A T P : P is a non-empty prefix of a leader-log record of term T whose last entry has term T and which a
   quorum has acknowledged in term T (the Raft paper's "committed").  Invariant: the first n_commit entries of every node's
   log, and the first leaderCommit entries of the record behind every AppEnts in the soup, lie inside such a prefix; the
   matchIndex entries of every leader's peers table are backed by acknowledgements.  With lc_quorum (every leader record
   of a later term keeps a committed prefix) this gives: committed prefixes are pairwise comparable, a committed entry is
   never truncated, leader completeness in terms of commit indices, and state machine safety. *)
From Coq Require Import List NArith ZArith Bool Lia ZifyN ZifyNat ZifyBool.
From BLB Require Import Lib.LTS Raft.Core Raft.Wire Raft.NodeProofs Raft.NodeKeep Raft.NodeElect Raft.NodeConf
  Raft.Election Raft.ElectionFixed Raft.LogMatchLists Raft.CommitCount Raft.LogMatchNode Raft.LogMatch Raft.Completeness
  Raft.CompletenessAck Raft.CompletenessVote.
Import ListNotations.
Open Scope N_scope.

Section CommitInv.
  Variables (bm : list nid) (be : N).

  Definition committed (σ : sys) (G : list lrec) (A : list ack) (T : N) (P : list entry) : Prop :=
    exists iT lT e, In (T, iT, lT) G /\ iT <> 0 /\ pfx P lT /\ (1 <= length P)%nat /\
                    nth_error P (length P - 1) = Some e /\ e_term e = T /\ qacked σ A T (length P).

  Definition cprefix (σ : sys) (G : list lrec) (A : list ack) (t : N) (L : list entry) (c : nat) : Prop :=
    c = 0%nat \/ exists T P, committed σ G A T P /\ T <= t /\ pfx (firstn c L) P.

  Lemma qacked_mono σ σ' A A' T mi :
    quorum_of (map n_id (sy_nodes σ')) = quorum_of (map n_id (sy_nodes σ)) -> incl A A' -> qacked σ A T mi -> qacked σ' A' T mi.
  Proof.
    intros Hq Hi [Q [Q1 [Q2 Q3]]]. exists Q. split; auto. split; [rewrite Hq; exact Q2|].
    intros v Hv. destruct (Q3 v Hv) as [P [X Y]]. exists P. split; auto.
  Qed.

  Lemma committed_mono σ σ' G G' A A' T P :
    quorum_of (map n_id (sy_nodes σ')) = quorum_of (map n_id (sy_nodes σ)) -> incl G G' -> incl A A' ->
    committed σ G A T P -> committed σ' G' A' T P.
  Proof.
    intros Hq HG HA [iT [lT [e [C1 [C2 [C3 [C4 [C5 [C6 C7]]]]]]]]]. exists iT, lT, e. repeat split; auto.
    eapply qacked_mono; eauto.
  Qed.

  Lemma cprefix_mono σ σ' G G' A A' t t' L c :
    quorum_of (map n_id (sy_nodes σ')) = quorum_of (map n_id (sy_nodes σ)) -> incl G G' -> incl A A' -> t <= t' ->
    cprefix σ G A t L c -> cprefix σ' G' A' t' L c.
  Proof.
    intros Hq HG HA Ht [Z | [T [P [C1 [C2 C3]]]]]; [left; exact Z | right]. exists T, P. split; [eapply committed_mono; eauto|].
    split; [lia | exact C3].
  Qed.

  (* every leader record of a later term keeps a committed prefix (lc_quorum) *)
  Lemma committed_kept σ G A CL GR T P :
    voteinv bm be σ G A CL GR -> committed σ G A T P -> forall U c l, In (U, c, l) G -> T < U -> keeps l P.
  Proof.
    intros WI [iT [lT [e [C1 [C2 [C3 [C4 [C5 [C6 C7]]]]]]]]] U c l RU HTU.
    assert (HlT : nth_error lT (length P - 1) = Some e).
    { destruct C3 as [x Hx]. rewrite Hx. rewrite nth_error_app1; [exact C5 | lia]. }
    pose proof (lc_quorum bm be σ G A CL GR WI T iT lT (length P) e C1 C2 HlT C6 C4 C7 U c l RU HTU) as K.
    assert (E : firstn (length P) lT = P).
    { destruct C3 as [x Hx]. rewrite Hx. rewrite firstn_app, firstn_all, Nat.sub_diag. simpl. apply app_nil_r. }
    rewrite E in K. exact K.
  Qed.

  Lemma committed_comparable σ G A CL GR T1 P1 T2 P2 :
    voteinv bm be σ G A CL GR -> committed σ G A T1 P1 -> committed σ G A T2 P2 -> comparable P1 P2.
  Proof.
    intros WI C1 C2. pose proof (k_g _ _ _ _ _ (w_k _ _ _ _ _ _ _ WI)) as GI.
    assert (Hlt : forall Ta Pa Tb Pb, committed σ G A Ta Pa -> committed σ G A Tb Pb -> Ta < Tb -> comparable Pa Pb).
    { intros Ta Pa Tb Pb Ca Cb Hab. pose proof Cb as [iT [lT [e [D1 [D2 [D3 _]]]]]].
      pose proof (committed_kept σ G A CL GR Ta Pa WI Ca _ _ _ D1 Hab) as K.
      eapply pfx_comparable; [| exact D3]. exists (skipn (length Pa) lT). unfold keeps in K. rewrite <- K at 1. symmetry. apply firstn_skipn. }
    destruct (N.lt_trichotomy T1 T2) as [H | [H | H]].
    - eapply Hlt; eauto.
    - subst T2. destruct C1 as [i1 [l1 [e1 [A1 [_ [A3 _]]]]]]. destruct C2 as [i2 [l2 [e2 [B1 [_ [B3 _]]]]]].
      destruct (g_cmp _ _ _ _ GI _ _ _ _ _ A1 B1) as [X | X].
      + eapply pfx_comparable; [eapply pfx_trans; [exact A3 | exact X] | exact B3].
      + eapply pfx_comparable; [exact A3 | eapply pfx_trans; [exact B3 | exact X]].
    - apply comparable_sym. eapply Hlt; eauto.
  Qed.

  Definition pjust_ack (A : list ack) (id t m : N) : Prop :=
    m = 0 \/ exists P, In (id, t, P) A /\ length P = N.to_nat m.

  Record cminv (σ : sys) (G : list lrec) (A : list ack) (CL : list cand) (GR : list grant) : Prop := {
    c_w : voteinv bm be σ G A CL GR;
    c_node : forall i s, get_node i (sy_nodes σ) = Some s ->
               (N.to_nat (n_commit s) <= length (p_log (n_p s)))%nat /\
               cprefix σ G A (p_term (n_p s)) (p_log (n_p s)) (N.to_nat (n_commit s));
    c_msg : forall m pi pt cm oe, In m (sy_soup σ) -> m_body m = AppEnts pi pt cm oe ->
              exists i l, In (m_term m, i, l) G /\ (N.to_nat cm <= length l)%nat /\ cprefix σ G A (m_term m) l (N.to_nat cm);
    c_peers : forall i s, get_node i (sy_nodes σ) = Some s -> n_role s = Leader ->
                forall p, In p (l_peers s) -> pjust_ack A (pr_id p) (p_term (n_p s)) (pr_match p)
  }.

  Lemma cminv_init σ : linit σ -> (forall s, In s (sy_nodes σ) -> n_commit s = 0) ->
                       cminv σ [(1, 0, [boot_entry bm be])] [] [] [].
  Proof.
    intros Hi Hc. pose proof Hi as [[Hn [Ha [Hs _]]] _]. constructor.
    - apply voteinv_init. exact Hi.
    - intros i s G. apply get_node_in in G. destruct G as [G _]. rewrite (Hc s G). simpl. split; [lia | left; reflexivity].
    - rewrite Hs. intros m pi pt cm oe [].
    - intros i s G R. apply get_node_in in G. destruct G as [G _]. apply Ha in G. destruct G as [_ [R' _]]. congruence.
  Qed.

  Section Step.
    Variables (n : nat) (σ : sys) (G : list lrec) (A : list ack) (CL : list cand) (GR : list grant).
    Variables (i : nid) (s : node) (ev : event) (k : N) (s' : node).
    Hypothesis Hlen : length (sy_nodes σ) = n.
    Hypothesis CI : cminv σ G A CL GR.
    Hypothesis Gs : get_node i (sy_nodes σ) = Some s.
    Hypothesis Hdel : forall m, ev = EDeliver m -> In m (sy_soup σ) /\ m_to m <> 0.
    Hypothesis Hres : evres bm be ev.
    Hypothesis NS : nstep s ev k s'.
    Hypothesis El0 : Election.inv (map n_id (sy_nodes σ)) (step_sys σ s').
    Hypothesis I20 : inv2 n (step_sys σ s').

    Let σ' := step_sys σ s'.
    Let G' := G ++ rec_of s s'.
    Let A' := A ++ acks_of s' ++ rec_acks (rec_of s s').
    Let CL' := CL ++ cl_of s s'.
    Let GR' := GR ++ gr_of G s s'.
    Let L0 := p_log (n_p s).
    Let L' := p_log (n_p s').
    Let T' := p_term (n_p s').
    Let c0 := N.to_nat (n_commit s).
    Let c' := N.to_nat (n_commit s').

    Let WI := c_w _ _ _ _ _ CI.
    Let KI := w_k _ _ _ _ _ _ _ WI.
    Let GI := k_g _ _ _ _ _ KI.
    Let WI' : voteinv bm be σ' G' A' CL' GR' := voteinv_step_abs bm be n σ G A CL GR i s ev k s' Hlen WI Gs Hdel Hres NS El0 I20.
    Let KI' := w_k _ _ _ _ _ _ _ WI'.
    Let GI' := k_g _ _ _ _ _ KI'.
    Let NI := st_NI s ev k s' NS.
    Let Hi : n_id s' = i := st_id σ i s ev k s' Gs NS.
    Let Gs' : get_node i (sy_nodes σ') = Some s' := st_Gs' σ i s ev k s' Gs NS.

    Lemma cs_q : quorum_of (map n_id (sy_nodes σ')) = quorum_of (map n_id (sy_nodes σ)).
    Proof. unfold quorum_of. simpl. rewrite put_node_ids. reflexivity. Qed.

    Lemma cs_inclG : incl G G'. Proof. intros r Hr. apply in_or_app. left. exact Hr. Qed.
    Lemma cs_inclA : incl A A'. Proof. intros r Hr. apply in_or_app. left. exact Hr. Qed.

    Lemma cs_term_le : p_term (n_p s) <= T'.
    Proof. exact (v_tm _ _ _ _ _ _ _ _ _ NI). Qed.

    Lemma cs_cpre_mono t t' L c : t <= t' -> cprefix σ G A t L c -> cprefix σ' G' A' t' L c.
    Proof. intro Ht. apply cprefix_mono; auto using cs_q, cs_inclG, cs_inclA. Qed.

    (* the delivered AppEnts behind a follower's merge, and its leader record *)
    Lemma cs_delivered a :
      inp_of ev = Some a ->
      exists m pi pt cm ents j l, ev = EDeliver m /\ m_body m = AppEnts pi pt cm (Some ents) /\
        a = {| ai_term := m_term m; ai_pi := pi; ai_pt := pt; ai_ents := ents |} /\
        In (m_term m, j, l) G /\ slice l pi pt (Some ents).
    Proof.
      intro Hinp. destruct ev; simpl in Hinp; try discriminate. destruct (m_body m) eqn:Eb; try discriminate.
      destruct ents as [es |]; try discriminate. inversion Hinp as [Ha]. clear Hinp.
      destruct (Hdel m eq_refl) as [Min _]. pose proof (g_msgs _ _ _ _ GI m Min) as Mk. unfold msg_ok3 in Mk. rewrite Eb in Mk.
      destruct Mk as [j [l [Rin [Sl _]]]]. exists m, prev_idx, prev_term, commit, es, j, l.
      split; [reflexivity|]. split; [exact Eb|]. split; [reflexivity|]. split; [exact Rin | exact Sl].
    Qed.

    (* A COMMITTED ENTRY IS NEVER TRUNCATED: the first n_commit entries of the old log are still there *)
    Lemma cs_conflict_ge a cpos : inp_of ev = Some a -> T' = ai_term a -> conflict_at L0 a cpos -> (c0 <= cpos)%nat.
    Proof.
      intros Hinp Hta [Hpc [e1 [e2 [X1 [X2 X3]]]]].
      destruct (Nat.le_gt_cases c0 cpos) as [Hle | Hgt]; [exact Hle | exfalso].
      destruct (cs_delivered a Hinp) as [m [pi [pt [cm [ents [j [l [Eev [Eb [Ea [Rin Sl]]]]]]]]]]].
      assert (Hl2 : nth_error l cpos = Some e2).
      { rewrite Ea in X2. simpl in X2. pose proof (slice_nth _ _ _ _ _ _ Sl X2) as Y.
        rewrite Ea in Hpc. simpl in Hpc. rewrite <- Y. f_equal. lia. }
      assert (Etm : m_term m = T') by (rewrite Hta, Ea; reflexivity).
      destruct (c_node _ _ _ _ _ CI i s Gs) as [Hcl Hcp]. fold c0 in Hcl, Hcp. fold L0 in Hcl, Hcp.
      destruct Hcp as [Z | [T [P [Cm [HT [x Hx]]]]]]; [lia|].
      assert (HP1 : nth_error P cpos = Some e1).
      { rewrite Hx. rewrite nth_error_app1 by (rewrite firstn_length; lia). rewrite nth_error_firstn'.
        assert (Y : (cpos <? c0)%nat = true) by (apply Nat.ltb_lt; lia). rewrite Y. exact X1. }
      pose proof cs_term_le as Hle. destruct (N.eq_dec T T') as [Eq | Ne].
      - pose proof Cm as [iT [lT [e [D1 [D2 [D3 _]]]]]]. rewrite Etm, <- Eq in Rin.
        pose proof (g_cmp _ _ _ _ GI _ _ _ _ _ D1 Rin) as Cmp.
        assert (HlT : nth_error lT cpos = Some e1).
        { destruct D3 as [y Hy]. rewrite Hy. rewrite nth_error_app1; [exact HP1|]. apply nth_len in HP1. lia. }
        assert (S cpos <= length lT)%nat by (eapply nth_len; eauto).
        assert (S cpos <= length l)%nat by (eapply nth_len; eauto).
        pose proof (comparable_firstn _ _ _ Cmp H H0) as Pf. apply firstn_nth_eq in Pf. congruence.
      - assert (HTU : T < m_term m) by lia.
        pose proof (committed_kept σ G A CL GR T P WI Cm _ _ _ Rin HTU) as K.
        pose proof (keeps_nth _ _ _ _ K HP1) as Y. congruence.
    Qed.

    Lemma cs_no_trunc : firstn c0 L' = firstn c0 L0.
    Proof.
      destruct (c_node _ _ _ _ _ CI i s Gs) as [Hcl _]. fold c0 in Hcl. fold L0 in Hcl.
      pose proof (v_lr _ _ _ _ _ _ _ _ _ NI) as N_lr. unfold LR in N_lr. cbv zeta in N_lr.
      change (p_log (n_p (with_budget (settle s) k))) with L0 in N_lr. fold L' in N_lr. fold T' in N_lr.
      destruct N_lr as [X | [[_ [_ [a [c [Xa [Xt [X Xc]]]]]]] | [[_ [_ [b [Xb [X0 X]]]]] | [[Xr [Xt [new [X Xn]]]] | [_ [_ [a [Xa [Xt Xm]]]]]]]]].
      - rewrite X. reflexivity.
      - pose proof (cs_conflict_ge a c Xa Xt Xc) as Hge. rewrite X. rewrite firstn_firstn, Nat.min_l by lia. reflexivity.
      - rewrite X0 in *. simpl in Hcl. assert (c0 = 0)%nat by lia. rewrite H. reflexivity.
      - rewrite X. rewrite firstn_app. replace (c0 - length L0)%nat with 0%nat by lia. simpl. apply app_nil_r.
      - destruct Xm as [c [E [Hb [Hc [Ta [Ag Cf]]]]]]. rewrite E. rewrite firstn_app, firstn_firstn.
        destruct Cf as [Cl | Cf].
        + subst c. rewrite Nat.min_l by lia. rewrite firstn_length, Nat.min_l by lia.
          replace (c0 - length L0)%nat with 0%nat by lia. simpl. apply app_nil_r.
        + pose proof (cs_conflict_ge a c Xa Xt Cf) as Hge. rewrite Nat.min_l by lia.
          rewrite firstn_length. replace (c0 - Nat.min c (length L0))%nat with 0%nat by lia. simpl. apply app_nil_r.
    Qed.

    Lemma cs_cond_rec : (n_role s' = Leader \/ (n_role s = Leader /\ T' = p_term (n_p s))) -> In (T', n_id s', L') G'.
    Proof. intro H. apply in_or_app. right. apply rec_of_in. exact H. Qed.

    (* a peers-table justification is backed by an acknowledgement *)
    Lemma cs_pjust v m :
      pjust (with_budget (settle s) k) (rsp_of ev) s' v m -> pjust_ack A' v T' m.
    Proof.
      intros [Z | [[[Hr Ht] [p0 [X1 X2]]] | R]]; [left; exact Z | |].
      - change (n_role (with_budget (settle s) k)) with (n_role s) in Hr.
        change (p_term (n_p (with_budget (settle s) k))) with (p_term (n_p s)) in Ht.
        change (l_peers (with_budget (settle s) k)) with (l_peers s) in X1.
        destruct (peer_get_some _ _ _ X1) as [Y1 Y2].
        destruct (c_peers _ _ _ _ _ CI i s Gs Hr p0 Y1) as [Z | [P [Z1 Z2]]]; [left; congruence | right].
        exists P. rewrite Y2 in Z1. fold T' in Ht. rewrite Ht. split; [apply cs_inclA; exact Z1 | congruence].
      - fold T' in R. unfold rsp_of in R. destruct ev; try contradiction. destruct (m_body m0) eqn:Eb; try contradiction.
        destruct success; [| contradiction]. destruct R as [R1 [R2 R3]].
        destruct (Hdel m0 eq_refl) as [Min _]. destruct (k_msg _ _ _ _ _ KI m0 _ _ Min Eb) as [P [Z1 Z2]].
        right. exists P. rewrite R1, R3, R2. split; [apply cs_inclA; exact Z1 | exact Z2].
    Qed.

    (* the commit index of the touched node after the step *)
    Lemma cs_node' : (c' <= length L')%nat /\ cprefix σ' G' A' T' L' c'.
    Proof.
      destruct (c_node _ _ _ _ _ CI i s Gs) as [Hcl Hcp]. fold c0 in Hcl, Hcp. fold L0 in Hcl, Hcp.
      pose proof cs_no_trunc as Hnt. pose proof cs_term_le as Hle.
      destruct (v_ext _ _ _ _ _ _ _ _ _ NI) as [E1 [_ [E3 E4]]].
      destruct E3 as [X | [X | [X | X]]].
      - (* not increased: unchanged, or reset by a restart *)
        change (n_commit (with_budget (settle s) k)) with (n_commit s) in X.
        assert (Ec : (c' <= c0)%nat) by (unfold c', c0; lia). split.
        + assert (Y : length (firstn c0 L') = length (firstn c0 L0)) by (rewrite Hnt; reflexivity).
          rewrite !firstn_length in Y. lia.
        + destruct (Nat.eq_dec c' 0) as [Z | Hnz]; [left; exact Z|].
          destruct Hcp as [Z | [T [P [Cm [HT Hp]]]]]; [lia | right]. exists T, P.
          split; [eapply committed_mono; eauto using cs_q, cs_inclG, cs_inclA|]. split; [lia|].
          eapply pfx_trans; [| exact Hp]. rewrite <- Hnt.
          replace (firstn c' L') with (firstn c' (firstn c0 L')) by (rewrite firstn_firstn; f_equal; lia). apply firstn_pfx.
      - (* a follower commits up to min(acknowledged index, leaderCommit) *)
        destruct X as [cm [idx [h [m0 [D1 [D2 [D3 [D4 D5]]]]]]]].
        destruct (st_resp bm be n σ G A i s ev k s' Hlen KI Gs Hdel Hres NS El0 I20 m0 idx h D3 D4) as [Hil Hir].
        fold L' in Hil, Hir. split; [unfold c'; lia|].
        destruct (Nat.eq_dec c' 0) as [Z | Hnz]; [left; exact Z | right].
        destruct Hir as [Z | [j [l [Rl Fl]]]]; [unfold c' in Hnz; lia|]. fold T' in Rl.
        unfold dc_of in D1. destruct ev as [| md | | | | | |]; try contradiction. destruct (m_body md) eqn:Ebd; try contradiction. subst cm.
        destruct (Hdel md eq_refl) as [Min _].
        destruct (c_msg _ _ _ _ _ CI md _ _ _ _ Min Ebd) as [j2 [l2 [R2 [Hl2 Cp2]]]].
        assert (Htm : m_term md = T').
        { destruct (ns_term _ _ _ _ NS md eq_refl) as [D | D]; [rewrite D in D3; contradiction | unfold T'; congruence]. }
        rewrite Htm in R2, Cp2.
        destruct Cp2 as [Z | [T [P [Cm [HT Hp]]]]]; [unfold c' in Hnz; lia|].
        exists T, P. split; [eapply committed_mono; eauto using cs_q, cs_inclG, cs_inclA|]. split; [exact HT|].
        pose proof (g_cmp _ _ _ _ GI _ _ _ _ _ Rl R2) as Cmp.
        assert (Hll : (N.to_nat idx <= length l)%nat).
        { eapply firstn_length_ge; [exact Fl | exact Hil]. }
        assert (F1 : firstn c' L' = firstn c' l) by (eapply firstn_eq_le; [| exact Fl]; unfold c'; lia).
        assert (F2 : firstn c' l = firstn c' l2) by (apply comparable_firstn; auto; unfold c'; lia).
        rewrite F1, F2. destruct Hp as [x Hx]. exists (skipn c' (firstn (N.to_nat commit) l2) ++ x).
        rewrite app_assoc. rewrite Hx. f_equal.
        rewrite <- (firstn_skipn c' (firstn (N.to_nat commit) l2)) at 1. f_equal.
        rewrite firstn_firstn. rewrite Nat.min_l by (unfold c'; lia). reflexivity.
      - (* a leader commits by counting *)
        destruct X as [B1 [B2 [B3 [c [Q [B4 [B5 [B6 B7]]]]]]]]. unfold llen in B2. fold L' in B2, B3. fold T' in B3.
        split; [unfold c'; lia|].
        destruct (Nat.eq_dec c' 0) as [Z | Hnz]; [left; exact Z | right].
        assert (Hcond : n_role s' = Leader \/ (n_role s = Leader /\ T' = p_term (n_p s))).
        { destruct B1 as [B1 | [B1 B1']]; [left; exact B1 | right; split; [exact B1 | exact B1']]. }
        pose proof (cs_cond_rec Hcond) as Rec.
        assert (Hnz' : n_id s' <> 0) by (rewrite Hi; rewrite <- (proj2 (get_node_in _ _ _ Gs)); eapply (i_nz _ _ (g_el _ _ _ _ GI)); eauto).
        destruct B3 as [Z | [e [Be Bt]]]; [unfold c' in Hnz; lia|].
        exists T', (firstn c' L'). split; [| split; [apply N.le_refl | apply pfx_refl]].
        assert (Hlen' : length (firstn c' L') = c') by (rewrite firstn_length; unfold c'; lia).
        exists (n_id s'), L', e. rewrite Hlen'. split; [exact Rec|]. split; [exact Hnz'|]. split; [apply firstn_pfx|].
        split; [lia|]. split.
        { rewrite nth_error_firstn'. assert (Y : (c' - 1 <? c')%nat = true) by (apply Nat.ltb_lt; lia). rewrite Y.
          rewrite <- Be. f_equal. unfold c'. lia. }
        split; [exact Bt|].
        exists Q. split; [exact B5|]. split.
        { pose proof (i_conf _ _ (g_el _ _ _ _ GI') i s' Gs' c B4) as Hq. simpl in Hq. unfold quorum_of. simpl. rewrite Hq in B6. exact B6. }
        intros v Hv. destruct (B7 v Hv) as [Ev | [p [P1 [P2 P3]]]].
        + subst v. exists L'. split; [apply (k_lead _ _ _ _ _ KI' _ _ _ Rec Hnz') | unfold c'; lia].
        + destruct (cs_pjust v (pr_match p) P3) as [Z | [P [Z1 Z2]]]; [unfold c' in Hnz; lia|].
          exists P. split; [exact Z1 | unfold c'; lia].
      - (* the commit index was raised to a position where the log agrees with the delivered entries (installed snapshot) *)
        destruct X as [cm [a [D1 [Ia [Ta [D2 Rk]]]]]]. fold L' in Rk. fold T' in Ta.
        destruct (Nat.eq_dec c' 0) as [Z | Hnz]; [split; [lia | left; exact Z] |].
        assert (Hnzc : n_commit s' <> 0) by (unfold c' in Hnz; lia).
        unfold dc_of in D1. destruct ev as [| md | | | | | |]; try contradiction. destruct (m_body md) eqn:Ebd; try contradiction. subst cm.
        assert (Htm : m_term md = T').
        { unfold inp_of in Ia. rewrite Ebd in Ia. destruct ents; [| discriminate]. inversion Ia as [Ea]. rewrite <- Ea in Ta. simpl in Ta. congruence. }
        destruct (st_resp_ok bm be n σ G A i s (EDeliver md) k s' Hlen KI Gs Hdel Hres NS El0 I20 (n_commit s') Hnzc Rk
                    ltac:(intros m0 E0; inversion E0 as [Em0]; rewrite <- Em0; exact Htm)) as [Hil [j [l [Rl Fl]]]].
        fold L' in Hil, Fl. fold c' in Hil, Fl. split; [exact Hil|]. right.
        destruct (Hdel md eq_refl) as [Min _].
        destruct (c_msg _ _ _ _ _ CI md _ _ _ _ Min Ebd) as [j2 [l2 [R2 [Hl2 Cp2]]]]. rewrite Htm in R2, Cp2.
        destruct Cp2 as [Z | [T [P [Cm [HT Hp]]]]]; [unfold c' in Hnz; lia|].
        exists T, P. split; [eapply committed_mono; eauto using cs_q, cs_inclG, cs_inclA|]. split; [exact HT|].
        pose proof (g_cmp _ _ _ _ GI _ _ _ _ _ Rl R2) as Cmp.
        assert (Hll : (c' <= length l)%nat).
        { assert (Y : length (firstn c' L') = length (firstn c' l)) by (rewrite Fl; reflexivity). rewrite !firstn_length in Y. lia. }
        assert (F2 : firstn c' l = firstn c' l2) by (apply comparable_firstn; auto; unfold c'; lia).
        rewrite Fl, F2. destruct Hp as [x Hx]. exists (skipn c' (firstn (N.to_nat commit) l2) ++ x).
        rewrite app_assoc. rewrite Hx. f_equal.
        rewrite <- (firstn_skipn c' (firstn (N.to_nat commit) l2)) at 1. f_equal.
        rewrite firstn_firstn. rewrite Nat.min_l by (unfold c'; lia). reflexivity.
    Qed.

    Lemma cs_Go j : j <> i -> get_node j (sy_nodes σ') = get_node j (sy_nodes σ).
    Proof. apply (st_Go σ i s ev k s' Gs NS). Qed.

    Lemma cs_Gcase j x : get_node j (sy_nodes σ') = Some x -> (j = i /\ x = s') \/ (j <> i /\ get_node j (sy_nodes σ) = Some x).
    Proof.
      intro Hx. destruct (N.eq_dec j i) as [E | E].
      - subst j. rewrite Gs' in Hx. inversion Hx. auto.
      - rewrite cs_Go in Hx; auto.
    Qed.

    Lemma cminv_step_abs : cminv σ' G' A' CL' GR'.
    Proof.
      pose proof (ns_id _ _ _ _ NS) as Hid. pose proof (ns_pext _ _ _ _ NS) as Hp. pose proof (ns_msgs _ _ _ _ NS) as Hm. pose proof (ns_esum _ _ _ _ NS) as He. pose proof cs_node' as [Hn1 Hn2].
      constructor.
      - exact WI'.
      - intros j x Hx. destruct (cs_Gcase j x Hx) as [[_ E] | [Hj E]].
        + subst x. split; [exact Hn1 | exact Hn2].
        + destruct (c_node _ _ _ _ _ CI j x E) as [X Y]. split; [exact X|]. eapply cs_cpre_mono; [apply N.le_refl | exact Y].
      - intros m pi pt cm oe Hin Hb. simpl in Hin. apply in_app_or in Hin. destruct Hin as [Hin | Hin].
        + destruct (c_msg _ _ _ _ _ CI m pi pt cm oe Hin Hb) as [j [l [X [Y Z]]]]. exists j, l. split; [apply cs_inclG; exact X|].
          split; [exact Y|]. eapply cs_cpre_mono; [apply N.le_refl | exact Z].
        + apply in_out_msgs in Hin. destruct Hin as [m0 [H0 [Et [Ef [Eto Eb]]]]].
          unfold msgs_ok in Hm. rewrite Forall_forall in Hm. destruct (Hm m0 H0) as [X [Y Z]].
          destruct (v_ext _ _ _ _ _ _ _ _ _ NI) as [E1 _]. rewrite Forall_forall in E1. pose proof (E1 m0 H0) as Cm.
          unfold cm_msg in Cm. rewrite <- Eb, Hb in Cm.
          assert (Hcond : n_role s' = Leader \/ (n_role s = Leader /\ T' = p_term (n_p s))).
          { destruct (v_lead _ _ _ _ _ _ _ _ _ NI) as [Na | Ld].
            - unfold no_appents in Na. rewrite Forall_forall in Na. exfalso. apply (Na m0 H0). unfold is_appents. rewrite <- Eb, Hb. exact Logic.I.
            - exact Ld. }
          exists (n_id s'), L'. rewrite Et, X. split; [apply cs_cond_rec; exact Hcond|]. fold c' in Hn1, Hn2. fold T' in Hn2.
          assert (Hle : (N.to_nat cm <= c')%nat) by (unfold c'; lia).
          split; [lia|]. destruct (Nat.eq_dec (N.to_nat cm) 0) as [Z0 | Hnz]; [left; exact Z0 | right].
          destruct Hn2 as [Z0 | [T [P [C1 [C2 C3]]]]]; [lia|]. exists T, P. split; [exact C1|]. split; [exact C2|].
          eapply pfx_trans; [| exact C3]. exists (skipn (N.to_nat cm) (firstn c' L')).
          rewrite <- (firstn_skipn (N.to_nat cm) (firstn c' L')) at 1. f_equal. rewrite firstn_firstn, Nat.min_l by lia. reflexivity.
      - intros j x Hx Hr p Hp0. destruct (cs_Gcase j x Hx) as [[_ E] | [Hj E]].
        + subst x. destruct (v_ext _ _ _ _ _ _ _ _ _ NI) as [_ [_ [_ E4]]]. destruct (E4 Hr) as [_ [_ P3]].
          apply cs_pjust. apply P3. exact Hp0.
        + destruct (c_peers _ _ _ _ _ CI j x E Hr p Hp0) as [Z | [P [Z1 Z2]]]; [left; exact Z | right]. exists P. split; [apply cs_inclA; exact Z1 | exact Z2].
    Qed.
  End Step.

  Lemma cminv_step_rec n σ G A CL GR i s ev k crashed st s' :
    length (sy_nodes σ) = n -> cminv σ G A CL GR -> get_node i (sy_nodes σ) = Some s ->
    (forall m, ev = EDeliver m -> In m (sy_soup σ) /\ m_to m <> 0) -> evok2 n ev -> evres bm be ev ->
    run_event_crash (settle s) ev k = Ret (crashed, st, s') ->
    cminv (step_sys σ s') (G ++ rec_of s s') (A ++ acks_of s' ++ rec_acks (rec_of s s')) (CL ++ cl_of s s') (GR ++ gr_of G s s').
  Proof.
    intros Hlen CI Gs Hdel Hev Hres Hrun.
    destruct (abs_of_run bm be n σ G i s ev k crashed st s' Hlen (k_g _ _ _ _ _ (w_k _ _ _ _ _ _ _ (c_w _ _ _ _ _ CI))) Gs Hdel Hev Hres Hrun) as [NS [El0 I20]].
    apply (cminv_step_abs n σ G A CL GR i s ev k s' Hlen CI Gs Hdel Hres NS El0 I20).
  Qed.

  Lemma cminv_step n σ G A CL GR e σ' :
    length (sy_nodes σ) = n -> cminv σ G A CL GR -> lstep n bm be σ e σ' ->
    exists G' A' CL' GR', cminv σ' G' A' CL' GR' /\ incl G G' /\ incl A A'.
  Proof.
    intros Hlen CI [Hst Hres]. destruct Hst as [σ i s ev k crashed st s' Gs Hdel Hev Hrun]. simpl in Hres.
    exists (G ++ rec_of s s'), (A ++ acks_of s' ++ rec_acks (rec_of s s')), (CL ++ cl_of s s'), (GR ++ gr_of G s s').
    split; [| split; intros r Hr; apply in_or_app; left; exact Hr].
    apply (cminv_step_rec n σ G A CL GR i s ev k crashed st s' Hlen CI Gs Hdel Hev Hres Hrun).
  Qed.

  Lemma cmrun_inv n σ1 sched σ2 G1 A1 CL1 GR1 :
    length (sy_nodes σ1) = n -> cminv σ1 G1 A1 CL1 GR1 -> run sys sys_event (lstep n bm be) σ1 sched σ2 ->
    exists G2 A2 CL2 GR2, cminv σ2 G2 A2 CL2 GR2 /\ incl G1 G2 /\ incl A1 A2.
  Proof.
    intros Hn CI Hrun. revert G1 A1 CL1 GR1 CI Hn.
    induction Hrun as [σ | σ e σ' es σ'' Hst Hr IH]; intros G1 A1 CL1 GR1 CI Hn.
    - exists G1, A1, CL1, GR1. split; auto. split; apply incl_refl.
    - destruct (cminv_step n σ G1 A1 CL1 GR1 e σ' Hn CI Hst) as [G' [A' [CL' [GR' [CI' [Hi1 Hi2]]]]]].
      assert (Hn' : length (sy_nodes σ') = n).
      { eapply lrun_length; [| exact Hn]. eapply run_cons; [exact Hst | apply run_nil]. }
      destruct (IH G' A' CL' GR' CI' Hn') as [G2 [A2 [CL2 [GR2 [CI2 [Hj1 Hj2]]]]]]. exists G2, A2, CL2, GR2. split; auto.
      split; eapply incl_tran; eauto.
  Qed.
End CommitInv.

(* ---------------------------------------------------------------- ghost-free theorems *)
From BLB Require Import Raft.SMSafetyNode Raft.SMSafetyBound.

Definition cinit (σ : sys) : Prop := linit σ /\ forall s, In s (sy_nodes σ) -> n_commit s = 0 /\ n_commits s = [].

(* LEADER COMPLETENESS in terms of commit indices: whatever any node has committed is in the log of every leader of a later term *)
Theorem leader_completeness_sys :
  forall (bm : list nid) (be : N) (σ0 σ1 σ2 : sys) (sched1 sched2 : list sys_event),
    cinit σ0 ->
    run sys sys_event (lstep (length (sy_nodes σ0)) bm be) σ0 sched1 σ1 ->
    run sys sys_event (lstep (length (sy_nodes σ0)) bm be) σ1 sched2 σ2 ->
    forall a b,
      In a (sy_nodes σ1) -> In b (sy_nodes σ2) -> n_role b = Leader -> p_term (n_p a) < p_term (n_p b) ->
      (N.to_nat (n_commit a) <= length (p_log (n_p a)))%nat /\
      firstn (N.to_nat (n_commit a)) (p_log (n_p b)) = firstn (N.to_nat (n_commit a)) (p_log (n_p a)).
Proof.
  intros bm be σ0 σ1 σ2 sched1 sched2 [Hinit Hc0] Hr1 Hr2 a b Ha Hb Hlb Htb.
  assert (Hc0' : forall s, In s (sy_nodes σ0) -> n_commit s = 0) by (intros s Hs; apply Hc0; auto).
  destruct (cmrun_inv bm be _ σ0 sched1 σ1 _ _ _ _ eq_refl (cminv_init bm be σ0 Hinit Hc0') Hr1) as [G1 [A1 [CL1 [GR1 [C1 _]]]]].
  assert (Hn1 : length (sy_nodes σ1) = length (sy_nodes σ0)) by (eapply lrun_length; eauto).
  destruct (cmrun_inv bm be _ σ1 sched2 σ2 G1 A1 CL1 GR1 Hn1 C1 Hr2) as [G2 [A2 [CL2 [GR2 [C2 [HG HA]]]]]].
  pose proof (c_w _ _ _ _ _ _ _ C1) as W1. pose proof (c_w _ _ _ _ _ _ _ C2) as W2.
  pose proof (k_g _ _ _ _ _ (w_k _ _ _ _ _ _ _ W1)) as GI1. pose proof (k_g _ _ _ _ _ (w_k _ _ _ _ _ _ _ W2)) as GI2.
  pose proof (in_get_node _ _ (i_nodup _ _ (g_el _ _ _ _ GI1)) Ha) as Ga.
  pose proof (in_get_node _ _ (i_nodup _ _ (g_el _ _ _ _ GI2)) Hb) as Gb.
  destruct (c_node _ _ _ _ _ _ _ C1 _ _ Ga) as [Hcl Hcp]. split; [exact Hcl|].
  destruct Hcp as [Z | [T [P [Cm [HT Hp]]]]]; [rewrite Z; reflexivity|].
  pose proof (committed_mono σ1 σ2 G1 G2 A1 A2 T P (lrun_quorum _ _ _ _ _ _ Hr2 Hn1) HG HA Cm) as Cm2.
  pose proof (g_rec_leader _ _ _ _ GI2 _ _ Gb Hlb) as Rb.
  pose proof (committed_kept bm be σ2 G2 A2 CL2 GR2 T P W2 Cm2 _ _ _ Rb ltac:(lia)) as K.
  set (c := N.to_nat (n_commit a)) in *.
  assert (Hlen : length (firstn c (p_log (n_p a))) = c) by (rewrite firstn_length; lia).
  assert (HcP : (c <= length P)%nat) by (destruct Hp as [x Hx]; rewrite Hx, app_length; lia).
  assert (E1 : firstn c P = firstn c (p_log (n_p a))).
  { destruct Hp as [x Hx]. rewrite Hx. rewrite firstn_app, Hlen, Nat.sub_diag. simpl. rewrite app_nil_r. rewrite firstn_firstn, Nat.min_id. reflexivity. }
  rewrite <- E1. unfold keeps in K. rewrite <- K. rewrite firstn_firstn, Nat.min_l by lia. reflexivity.
Qed.

(* what every node has handed to its state machine lies inside its committed prefix *)
Definition appl_ok (σ : sys) : Prop :=
  forall i s, get_node i (sy_nodes σ) = Some s -> forall x, In x (n_commits s) -> In x (p_log (n_p s)) /\ e_index x <= n_commit s.

Lemma appl_step bm be n σ G A CL GR e σ' :
  cminv bm be σ G A CL GR -> appl_ok σ -> lstep n bm be σ e σ' -> appl_ok σ'.
Proof.
  intros CI AO [Hst Hres]. destruct Hst as [σ i s ev k crashed st s' Gs Hdel Hev Hrun]. simpl in Hres.
  pose proof (k_g _ _ _ _ _ (w_k _ _ _ _ _ _ _ (c_w _ _ _ _ _ _ _ CI))) as GI.
  assert (Hi : n_id s' = i) by (destruct (step_facts _ _ _ _ _ _ Hrun) as [Hid' _]; destruct (get_node_in _ _ _ Gs) as [_ Gid']; congruence).
  intros j x0 Hx. simpl in Hx. destruct (N.eq_dec j i) as [E | E].
  - subst j. rewrite <- Hi in Hx. rewrite (get_put_same s' (sy_nodes σ) s) in Hx by (rewrite Hi; exact Gs). inversion Hx. subst x0.
    intros x Hin. split.
    + assert (Hok : ev_applied_ok ev).
      { destruct ev; simpl in *; auto. destruct (Hdel m eq_refl) as [Min _]. pose proof (g_msgs _ _ _ _ GI m Min) as Mk.
        unfold msg_ok3 in Mk. unfold no_snap_msg. destruct (m_body m); auto. }
      apply (applied_in_own_log s ev k crashed st s' Hok Hrun x Hin).
    + apply (applied_index_bound s ev k crashed st s' Hrun x Hin).
  - rewrite get_put_other in Hx by congruence. apply (AO j x0 Hx).
Qed.

Lemma cm_appl_run bm be n σ1 sched σ2 G1 A1 CL1 GR1 :
  length (sy_nodes σ1) = n -> cminv bm be σ1 G1 A1 CL1 GR1 -> appl_ok σ1 -> run sys sys_event (lstep n bm be) σ1 sched σ2 -> appl_ok σ2.
Proof.
  intros Hn CI AO Hrun. revert G1 A1 CL1 GR1 CI AO Hn.
  induction Hrun as [σ | σ e σ' es σ'' Hst Hr IH]; intros G1 A1 CL1 GR1 CI AO Hn; auto.
  destruct (cminv_step bm be n σ G1 A1 CL1 GR1 e σ' Hn CI Hst) as [G' [A' [CL' [GR' [CI' _]]]]].
  assert (Hn' : length (sy_nodes σ') = n).
  { eapply lrun_length; [| exact Hn]. eapply run_cons; [exact Hst | apply run_nil]. }
  apply (IH G' A' CL' GR' CI'); [| exact Hn']. apply (appl_step bm be n σ G1 A1 CL1 GR1 e σ' CI AO Hst).
Qed.

(* STATE MACHINE SAFETY: entries handed to the state machine by any two nodes at any two moments with the same index are equal *)
Theorem state_machine_safety_sys :
  forall (bm : list nid) (be : N) (σ0 σ1 σ2 : sys) (sched1 sched2 : list sys_event),
    cinit σ0 ->
    run sys sys_event (lstep (length (sy_nodes σ0)) bm be) σ0 sched1 σ1 ->
    run sys sys_event (lstep (length (sy_nodes σ0)) bm be) σ1 sched2 σ2 ->
    forall a b x y,
      In a (sy_nodes σ1) -> In b (sy_nodes σ2) -> In x (n_commits a) -> In y (n_commits b) ->
      e_index x = e_index y -> x = y.
Proof.
  intros bm be σ0 σ1 σ2 sched1 sched2 [Hinit Hc0] Hr1 Hr2 a b x y Ha Hb Hx Hy Ei.
  assert (Hc0' : forall s, In s (sy_nodes σ0) -> n_commit s = 0) by (intros s Hs; apply Hc0; auto).
  pose proof (cminv_init bm be σ0 Hinit Hc0') as C0.
  assert (AO0 : appl_ok σ0).
  { intros i s G z Hz. apply get_node_in in G. destruct G as [G _]. destruct (Hc0 s G) as [_ E]. rewrite E in Hz. contradiction. }
  destruct (cmrun_inv bm be _ σ0 sched1 σ1 _ _ _ _ eq_refl C0 Hr1) as [G1 [A1 [CL1 [GR1 [C1 _]]]]].
  pose proof (cm_appl_run bm be _ σ0 sched1 σ1 _ _ _ _ eq_refl C0 AO0 Hr1) as AO1.
  assert (Hn1 : length (sy_nodes σ1) = length (sy_nodes σ0)) by (eapply lrun_length; eauto).
  destruct (cmrun_inv bm be _ σ1 sched2 σ2 G1 A1 CL1 GR1 Hn1 C1 Hr2) as [G2 [A2 [CL2 [GR2 [C2 [HG HA]]]]]].
  pose proof (cm_appl_run bm be _ σ1 sched2 σ2 _ _ _ _ Hn1 C1 AO1 Hr2) as AO2.
  pose proof (c_w _ _ _ _ _ _ _ C1) as W1. pose proof (c_w _ _ _ _ _ _ _ C2) as W2.
  pose proof (k_g _ _ _ _ _ (w_k _ _ _ _ _ _ _ W1)) as GI1. pose proof (k_g _ _ _ _ _ (w_k _ _ _ _ _ _ _ W2)) as GI2.
  pose proof (in_get_node _ _ (i_nodup _ _ (g_el _ _ _ _ GI1)) Ha) as Ga.
  pose proof (in_get_node _ _ (i_nodup _ _ (g_el _ _ _ _ GI2)) Hb) as Gb.
  (* position of an applied entry inside the committed prefix of its node *)
  assert (Hpos : forall σ G A CL GR (CI : cminv bm be σ G A CL GR) s z,
             get_node (n_id s) (sy_nodes σ) = Some s -> In z (p_log (n_p s)) -> e_index z <= n_commit s ->
             exists T P, committed σ G A T P /\ nth_error P (N.to_nat (e_index z) - 1) = Some z /\ 1 <= e_index z).
  { intros σ G A CL GR CI s z Gz Hz Hb0.
    pose proof (k_g _ _ _ _ _ (w_k _ _ _ _ _ _ _ (c_w _ _ _ _ _ _ _ CI))) as GI.
    destruct (g_base _ _ _ _ GI _ _ Gz) as [_ [Wf _]]. apply In_nth_error in Hz. destruct Hz as [kz Hk].
    pose proof (wf_from_nth _ _ _ _ Wf Hk) as Iz.
    destruct (c_node _ _ _ _ _ _ _ CI _ _ Gz) as [Hcl [Z | [T [P [Cm [_ [w Hw]]]]]]]; [lia|].
    exists T, P. split; [exact Cm|]. split; [| lia].
    replace (N.to_nat (e_index z) - 1)%nat with kz by lia.
    rewrite Hw. rewrite nth_error_app1 by (rewrite firstn_length; lia). rewrite nth_error_firstn'.
    assert (Y : (kz <? N.to_nat (n_commit s))%nat = true) by (apply Nat.ltb_lt; lia). rewrite Y. exact Hk. }
  destruct (AO1 _ _ Ga x Hx) as [Lx Bx]. destruct (AO2 _ _ Gb y Hy) as [Ly By].
  destruct (Hpos _ _ _ _ _ C1 a x Ga Lx Bx) as [Tx [Px [Cx [Nx Ix]]]].
  destruct (Hpos _ _ _ _ _ C2 b y Gb Ly By) as [Ty [Py [Cy [Ny Iy]]]].
  pose proof (committed_mono σ1 σ2 G1 G2 A1 A2 Tx Px (lrun_quorum _ _ _ _ _ _ Hr2 Hn1) HG HA Cx) as Cx2.
  pose proof (committed_comparable bm be σ2 G2 A2 CL2 GR2 _ _ _ _ W2 Cx2 Cy) as Cmp.
  rewrite Ei in Nx.
  assert (H1 : (S (N.to_nat (e_index y) - 1) <= length Px)%nat) by (eapply nth_len; eauto).
  assert (H2 : (S (N.to_nat (e_index y) - 1) <= length Py)%nat) by (eapply nth_len; eauto).
  pose proof (comparable_firstn _ _ _ Cmp H1 H2) as Pf. apply firstn_nth_eq in Pf. congruence.
Qed.

(* A COMMITTED ENTRY IS NEVER TRUNCATED: no step removes or changes one of the first n_commit entries of the touched node's log *)
Theorem committed_never_truncated_sys :
  forall (bm : list nid) (be : N) (σ0 σ σ' : sys) (sched : list sys_event) (e : sys_event),
    cinit σ0 ->
    run sys sys_event (lstep (length (sy_nodes σ0)) bm be) σ0 sched σ ->
    lstep (length (sy_nodes σ0)) bm be σ e σ' ->
    forall a a', In a (sy_nodes σ) -> In a' (sy_nodes σ') -> n_id a' = n_id a ->
      firstn (N.to_nat (n_commit a)) (p_log (n_p a')) = firstn (N.to_nat (n_commit a)) (p_log (n_p a)).
Proof.
  intros bm be σ0 σ σ' sched e [Hinit Hc0] Hr Hst a a' Ha Ha' Hid.
  assert (Hc0' : forall s, In s (sy_nodes σ0) -> n_commit s = 0) by (intros s Hs; apply Hc0; auto).
  destruct (cmrun_inv bm be _ σ0 sched σ _ _ _ _ eq_refl (cminv_init bm be σ0 Hinit Hc0') Hr) as [G [A [CL [GR [CI _]]]]].
  assert (Hn : length (sy_nodes σ) = length (sy_nodes σ0)) by (eapply lrun_length; eauto).
  destruct (cminv_step bm be _ σ G A CL GR e σ' Hn CI Hst) as [G' [A' [CL' [GR' [CI' _]]]]].
  pose proof (k_g _ _ _ _ _ (w_k _ _ _ _ _ _ _ (c_w _ _ _ _ _ _ _ CI))) as GI.
  pose proof (k_g _ _ _ _ _ (w_k _ _ _ _ _ _ _ (c_w _ _ _ _ _ _ _ CI'))) as GI'.
  pose proof (in_get_node _ _ (i_nodup _ _ (g_el _ _ _ _ GI)) Ha) as Ga.
  pose proof (in_get_node _ _ (i_nodup _ _ (g_el _ _ _ _ GI')) Ha') as Ga'.
  destruct Hst as [Hst Hres]. destruct Hst as [σ i s ev k crashed st s' Gs Hdel Hev Hrun]. simpl in *.
  assert (Hi : n_id s' = i) by (destruct (step_facts _ _ _ _ _ _ Hrun) as [Hid' _]; destruct (get_node_in _ _ _ Gs) as [_ Gid']; congruence).
  destruct (N.eq_dec (n_id a) i) as [E | E].
  - rewrite E in Ga. rewrite Gs in Ga. inversion Ga. subst a.
    rewrite Hid, E, <- Hi in Ga'. rewrite (get_put_same s' (sy_nodes σ) s) in Ga' by (rewrite Hi; exact Gs). inversion Ga'. subst a'.
    destruct (abs_of_run bm be _ σ G i s ev k crashed st s' Hn GI Gs Hdel Hev Hres Hrun) as [NS [El0 I20]].
    eapply (cs_no_trunc bm be); eauto.
  - rewrite Hid in Ga'. rewrite get_put_other in Ga' by congruence. rewrite Ga in Ga'. inversion Ga'. reflexivity.
Qed.
