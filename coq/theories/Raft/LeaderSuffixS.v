(* Raft/LeaderSuffixS.v — round 9: the leader-loop contract of Raft/LeaderSuffix.v with the start-state hypothesis lifted to
   states WITH snapshots.  The start state is a leader whose log is contiguous with its snapshot (Raft/SnapContig.v contig, a
   reachable-state invariant), whose snapshot index is at most its commit index, and whose commit index equals its last index.
   The loop, its events and the lists lp_prop / lp_comm are those of Raft/LeaderSuffix.v. *)
From Coq Require Import List NArith ZArith Bool Lia ZifyN ZifyNat ZifyBool.
From BLB Require Import Raft.Core Raft.NodeProofs Raft.LogMatchLists Raft.LeaderSuffix Raft.SnapContig.
Import ListNotations.
Open Scope N_scope.

Definition sidxS (p : pstate) : N := match p_snap p with Some m => sn_index m | None => 0 end.
Definition lenS (p : pstate) : N := N.of_nat (length (p_log p)).

(* b is the index just below the first physical entry (or the snapshot index when the log is fully trimmed) *)
Definition preS (b : N) (s : node) : Prop :=
  wf_from (b + 1) (p_log (n_p s)) /\ last_index (n_p s) = b + lenS (n_p s) /\
  sidxS (n_p s) <= n_commit s /\ b <= n_commit s /\ n_commit s <= b + lenS (n_p s).

Definition lc0S (b : N) (s s' : node) : Prop :=
  preS b s ->
  preS b s' /\ p_log (n_p s') = p_log (n_p s) /\ n_commit s <= n_commit s' /\
  n_commits s' = n_commits s ++ seg (n_commit s - b) (n_commit s' - b) (p_log (n_p s)).

Lemma lc0S_refl b s : lc0S b s s.
Proof. intro P. repeat split; auto; try apply P; try lia. rewrite seg_nil, app_nil_r. reflexivity. Qed.

Lemma lc0S_trans b x y z : lc0S b x y -> lc0S b y z -> lc0S b x z.
Proof.
  intros A B P. destruct (A P) as [Pb [L1 [C1 K1]]]. destruct (B Pb) as [Pc [L2 [C2 K2]]].
  split; auto. split; [congruence|]. split; [lia|].
  destruct P as [_ [_ [_ [Pb1 _]]]].
  rewrite K2, K1, L1, <- app_assoc, seg_app; auto; lia.
Qed.

Lemma lc0S_vol b s s' :
  n_p s' = n_p s -> n_commit s' = n_commit s -> n_commits s' = n_commits s -> lc0S b s s'.
Proof.
  intros A B C P. unfold preS in *. rewrite A, B, C. repeat split; try apply P; try lia.
  rewrite seg_nil, app_nil_r. reflexivity.
Qed.

Definition lx0S (b : N) (s : node) (r : R node) : Prop := match r with Ret s' => lc0S b s s' | _ => True end.

Lemma lx0S_bind b s (a : R node) (f : node -> R node) :
  lx0S b s a -> (forall s1, lx0S b s1 (f s1)) -> lx0S b s (bind a f).
Proof.
  intros Ha Hf. destruct a as [s1 | c | p]; simpl in *; auto.
  specialize (Hf s1). destruct (f s1); simpl in *; auto. eapply lc0S_trans; eauto.
Qed.

Lemma lx0S_bind_pure {A} b s (a : R A) (f : A -> R node) :
  (forall x, a = Ret x -> lx0S b s (f x)) -> lx0S b s (bind a f).
Proof. intros Hf. destruct a; simpl in *; auto. Qed.

Lemma lx0S_pre b s s' r : lc0S b s s' -> lx0S b s' r -> lx0S b s r.
Proof. intros H K. destruct r; simpl in *; auto. eapply lc0S_trans; eauto. Qed.

Ltac cvolS := apply lc0S_vol; reflexivity.

Lemma lx0S_do_mut_guids b s ids : lx0S b s (do_mut (MFilterGuids ids) s).
Proof.
  unfold do_mut. destruct (negb (n_budget s =? 0) && (n_budget s =? n_cnt s + 1)); simpl; auto.
  intro P. unfold preS, lenS, sidxS, last_index in *. simpl. repeat split; try apply P; try lia. rewrite seg_nil, app_nil_r. reflexivity.
Qed.

Lemma log_entries_wfb p b c e :
  wf_from (b + 1) (p_log p) -> b <= c ->
  log_entries p (c + 1) e = Ret (firstn (N.to_nat (e - (c + 1))) (skipn (N.to_nat (c - b)) (p_log p))).
Proof.
  intros H Hb. unfold log_entries. rewrite (drop_while_lt (b + 1) (c + 1)); auto; [| lia].
  replace (c + 1 - (b + 1)) with (c - b) by lia.
  apply entries_loop_wf. replace (c + 1) with (b + 1 + N.of_nat (N.to_nat (c - b))) at 1 by lia. apply wf_from_skipn. exact H.
Qed.

Lemma lc0S_commit_up_to b s i :
  n_commit s <= i -> (preS b s -> i <= b + lenS (n_p s)) -> lx0S b s (commit_up_to s i).
Proof.
  intros Hi Hb. unfold commit_up_to.
  assert (Common :
    lx0S b s (ents <- log_entries (n_p s) (n_commit s + 1) (i + 1) ;;
              (let s1 := set_commit s i (n_restore s) (n_commits s ++ ents) in
               if negb (latest_conf_committed s) && latest_conf_committed s1
               then match n_conf s1 with Some c => do_mut (MFilterGuids (mb_members c)) s1 | None => Fatal F_PANIC end
               else Ret s1))).
  { destruct (log_entries (n_p s) (n_commit s + 1) (i + 1)) as [ents | |] eqn:El; simpl; auto.
    assert (K : lc0S b s (set_commit s i (n_restore s) (n_commits s ++ ents))).
    { intro P. pose proof P as [Pw [Pl [Ps [Pb Pc]]]]. specialize (Hb P).
      rewrite (log_entries_wfb _ b) in El by (auto; lia). inversion El.
      unfold preS, lenS, sidxS in *. simpl. repeat split; auto; try lia.
      unfold seg. f_equal. f_equal. lia. }
    match goal with |- lx0S b s (if ?c then _ else _) => destruct c end; [| exact K].
    match goal with |- lx0S b s (match ?x with _ => _ end) => destruct x end; simpl; auto.
    eapply lx0S_pre; [exact K | apply lx0S_do_mut_guids]. }
  destruct (p_snap (n_p s)) as [m |] eqn:Es; [| exact Common].
  destruct (n_commit s <? sn_index m) eqn:El; [| exact Common].
  apply N.ltb_lt in El.
  destruct (negb (sn_index m =? i)); simpl; auto.
  intros [_ [_ [X _]]]. unfold sidxS in X. rewrite Es in X. lia.
Qed.

Lemma lx0S_send_app_ents b s p : lx0S b s (send_app_ents s p).
Proof.
  unfold send_app_ents. apply lx0S_bind_pure. intros ob _. destruct ob as [x |].
  - simpl. cvolS.
  - destruct (p_snap (n_p s)); simpl; auto. destruct (sn_conf s0); simpl; auto. cvolS.
Qed.

Lemma lx0S_for_peers b ids f s : (forall s1 p, lx0S b s1 (f s1 p)) -> lx0S b s (for_peers ids f s).
Proof.
  intro Hf. revert s. induction ids as [| id r IH]; intros s; simpl; [apply lc0S_refl|].
  destruct (peer_get id (l_peers s)); auto. apply lx0S_bind; auto.
Qed.

Lemma lx0S_leader_commit_up_to b s i :
  n_commit s <= i -> (preS b s -> i <= b + lenS (n_p s)) -> lx0S b s (leader_commit_up_to s i).
Proof.
  intros Hi Hb. unfold leader_commit_up_to. apply lx0S_bind; [apply lc0S_commit_up_to; auto|]. intros s1.
  match goal with |- lx0S b s1 (if ?c then _ else _) => destruct c end; simpl; [cvolS | apply lc0S_refl].
Qed.

Lemma st_term_le p i r : st_term p i = Ret r -> i <= last_index p.
Proof. unfold st_term. destruct (last_index p <? i) eqn:E; [discriminate|]. intros _. apply N.ltb_ge in E. exact E. Qed.

Lemma lx0S_leader_maybe_commit b s : lx0S b s (leader_maybe_commit s).
Proof.
  unfold leader_maybe_commit. apply lx0S_bind_pure. intros mi _.
  destruct (n_commit s <? mi) eqn:Ec; [| simpl; apply lc0S_refl]. apply N.ltb_lt in Ec.
  apply lx0S_bind_pure. intros [t ok] Hst.
  destruct (negb ok); simpl; auto. destruct (negb (t =? p_term (n_p s))); [simpl; apply lc0S_refl|].
  apply lx0S_bind.
  - apply lx0S_leader_commit_up_to; [lia|]. intros [_ [Pl _]]. rewrite <- Pl. eapply st_term_le; eauto.
  - intros s1. apply lx0S_for_peers. intros s2 p.
    destruct (pr_match p =? last_index (n_p s2)); [apply lx0S_send_app_ents | simpl; apply lc0S_refl].
Qed.

Lemma lx0S_tick_leader b s : lx0S b s (tick_leader s).
Proof.
  unfold tick_leader. apply lx0S_bind.
  - apply lx0S_for_peers. intros s2 p. destruct (should_send s2 p); [apply lx0S_send_app_ents | simpl; apply lc0S_refl].
  - intros s1. match goal with |- lx0S b s1 (if ?c then _ else _) => destruct c end; [| simpl; cvolS].
    apply lx0S_bind_pure. intros ok _. destruct ok; simpl; cvolS.
Qed.

Lemma lx0S_handle_app_ents_resp b s from su ix hi : lx0S b s (handle_app_ents_resp s from su ix hi).
Proof.
  unfold handle_app_ents_resp. destruct (peer_get from (l_peers s)); [| simpl; apply lc0S_refl].
  destruct (ix <? pr_match p); [simpl; apply lc0S_refl|]. destruct (negb su).
  - eapply lx0S_pre; [| apply lx0S_send_app_ents]. cvolS.
  - match goal with |- lx0S b s (if ?c then _ else _) => destruct c end; simpl; auto.
    apply lx0S_bind.
    + match goal with |- lx0S b s (if ?c then _ else _) => destruct c end.
      * eapply lx0S_pre; [| apply lx0S_send_app_ents]. cvolS.
      * simpl. cvolS.
    + intros s2. apply lx0S_leader_maybe_commit.
Qed.

Lemma lx0S_handle_leader b s m : lx0S b s (handle_leader s m).
Proof.
  unfold handle_leader. destruct (m_body m); simpl; auto; try cvolS; try apply lc0S_refl.
  apply lx0S_handle_app_ents_resp.
Qed.

Lemma lx0S_do_mut_keep b s m :
  match m with MAppend _ | MTruncate _ | MTrim _ | MSnapCommit _ => False | _ => True end -> lx0S b s (do_mut m s).
Proof.
  intro Hm. unfold do_mut. destruct (negb (n_budget s =? 0) && (n_budget s =? n_cnt s + 1)); simpl; auto.
  intro P. unfold preS, lenS, sidxS, last_index in *. destruct m; try contradiction; simpl; repeat split; try apply P; try lia;
    rewrite seg_nil, app_nil_r; reflexivity.
Qed.

(* Propose at a leader: the stamped batch is appended, then only commits *)
Definition lc1S (b : N) (s s' : node) (new : list entry) : Prop :=
  preS b s' /\ p_log (n_p s') = p_log (n_p s) ++ new /\ n_commit s <= n_commit s' /\
  n_commits s' = n_commits s ++ seg (n_commit s - b) (n_commit s' - b) (p_log (n_p s')).

Lemma lc0S_lc1S b s s' : preS b s -> lc0S b s s' -> lc1S b s s' [].
Proof.
  intros P H. destruct (H P) as [A [B [C D]]]. unfold lc1S. rewrite app_nil_r.
  split; [exact A|]. split; [exact B|]. split; [exact C|]. rewrite B. exact D.
Qed.

Lemma mem_append_wfb es : forall f l,
  wf_from f l -> wf_from (f + N.of_nat (length l)) es -> mem_append l es = (l ++ es, true).
Proof.
  induction es as [| e r IH]; intros f l Hl He; simpl.
  - rewrite app_nil_r. reflexivity.
  - destruct He as [Hi He].
    assert (Hl' : wf_from f (l ++ [e])).
    { apply wf_from_app. split; auto. cbn [wf_from]. split; auto. }
    assert (Hr : wf_from (f + N.of_nat (length (l ++ [e]))) r).
    { rewrite app_length. simpl. replace (f + N.of_nat (length l + 1)) with (f + N.of_nat (length l) + 1) by lia. exact He. }
    destruct l as [| x t] eqn:El.
    + unfold log_last. simpl. rewrite (IH f [e] Hl' Hr). reflexivity.
    + rewrite <- El in *. rewrite (log_last_wf f l Hl) by (rewrite El; discriminate).
      assert (X : (e_index e =? f + N.of_nat (length l) - 1 + 1) = true).
      { apply N.eqb_eq. rewrite El in *. simpl length in *. lia. }
      rewrite X. rewrite (IH f (l ++ [e]) Hl' Hr). rewrite <- app_assoc. reflexivity.
Qed.

Lemma last_index_wfb p b : wf_from (b + 1) (p_log p) -> p_log p <> [] -> last_index p = b + lenS p.
Proof. intros H Hn. unfold last_index. rewrite (log_last_wf (b + 1) _ H Hn). unfold lenS. destruct (p_log p); [congruence|]. simpl length. lia. Qed.

Lemma leader_propose_lcS b s es s' :
  preS b s -> leader_propose s es = Ret s' ->
  lc1S b s s' (stamp es (last_index (n_p s) + 1) (p_term (n_p s))).
Proof.
  intros P. pose proof P as [Pw [Pl [Ps [Pb Pc]]]]. unfold leader_propose, log_append.
  rewrite Pl. unfold lenS in *.
  destruct (stamp_wf es (b + N.of_nat (length (p_log (n_p s))) + 1) (p_term (n_p s))) as [Ws _].
  set (new := stamp es (b + N.of_nat (length (p_log (n_p s))) + 1) (p_term (n_p s))) in *.
  assert (Ws' : wf_from (b + 1 + N.of_nat (length (p_log (n_p s)))) new).
  { replace (b + 1 + N.of_nat (length (p_log (n_p s)))) with (b + N.of_nat (length (p_log (n_p s))) + 1) by lia. exact Ws. }
  pose proof (mem_append_wfb new (b + 1) (p_log (n_p s)) Pw Ws') as Hma. rewrite Hma. cbv beta iota delta [snd].
  unfold do_mut. destruct (negb (n_budget s =? 0) && (n_budget s =? n_cnt s + 1)); [discriminate|].
  cbv beta iota delta [bind].
  match goal with |- context [for_peers _ _ ?x] => set (x1 := x) end.
  assert (L1 : p_log (n_p x1) = p_log (n_p s) ++ new).
  { change (fst (mem_append (p_log (n_p s)) new) = p_log (n_p s) ++ new). rewrite Hma. reflexivity. }
  assert (S1 : p_snap (n_p x1) = p_snap (n_p s)) by reflexivity.
  assert (Ww : wf_from (b + 1) (p_log (n_p s) ++ new)) by (apply wf_from_app; split; auto).
  assert (P1 : preS b x1).
  { unfold preS, lenS, sidxS. rewrite S1, L1. split; [exact Ww|]. split.
    - destruct new as [| n0 nr] eqn:En.
      + rewrite app_nil_r. unfold last_index. rewrite L1, S1, app_nil_r. exact Pl.
      + assert (Hne : p_log (n_p x1) <> []) by (rewrite L1; destruct (p_log (n_p s)); discriminate).
        rewrite L1 in Hne. pose proof (last_index_wfb (n_p x1) b) as X. rewrite L1 in X. unfold lenS in X. rewrite L1 in X. apply X; auto.
    - change (n_commit x1) with (n_commit s). unfold sidxS in Ps. rewrite app_length. lia. }
  intro H.
  assert (K : lx0S b x1 (Ret s')).
  { rewrite <- H. apply lx0S_bind.
    - apply lx0S_for_peers. intros s3 p.
      match goal with |- lx0S b s3 (if ?c then _ else _) => destruct c end; [apply lx0S_send_app_ents | simpl; apply lc0S_refl].
    - intros s2. destruct (l_peers s2); [apply lx0S_leader_maybe_commit | simpl; apply lc0S_refl]. }
  simpl in K. destruct (K P1) as [A [B [C D]]]. unfold lc1S.
  split; [exact A|]. split; [rewrite B; exact L1|]. split; [exact C|]. rewrite B. exact D.
Qed.

Lemma handle_msg_leaderS b s m s' :
  n_role s = Leader -> p_term (n_p s') = p_term (n_p s) -> handle_msg s m = Ret s' -> lc0S b s s'.
Proof.
  intros Hr Ht. unfold handle_msg.
  match goal with |- (if ?c then _ else _) = _ -> _ => destruct c end; [intro H; inversion H; subst; apply lc0S_refl|].
  match goal with |- (if ?c then _ else _) = _ -> _ => destruct c end; [intro H; inversion H; subst; apply lc0S_refl|].
  assert (HG : forall s1, (if guid_get (m_from m) (p_guids (n_p s)) =? 0 then do_mut (MSetGuid (m_from m) (m_fromg m)) s else Ret s) = Ret s1 ->
               lc0S b s s1 /\ n_role s1 = n_role s /\ p_term (n_p s1) = p_term (n_p s)).
  { intros s1. destruct (guid_get (m_from m) (p_guids (n_p s)) =? 0).
    - intro E. pose proof (lx0S_do_mut_keep b s (MSetGuid (m_from m) (m_fromg m)) I) as K. rewrite E in K. split; [exact K|].
      revert E. unfold do_mut. destruct (negb (n_budget s =? 0) && (n_budget s =? n_cnt s + 1)); [discriminate|].
      intro E. inversion E. simpl. auto.
    - intro E. inversion E. split; [apply lc0S_refl | auto]. }
  destruct (if guid_get (m_from m) (p_guids (n_p s)) =? 0 then do_mut (MSetGuid (m_from m) (m_fromg m)) s else Ret s) as [s1 | |];
    simpl; try discriminate.
  destruct (HG s1 eq_refl) as [K1 [R1 T1]].
  match goal with |- (if ?c then _ else _) = _ -> _ => destruct c end; [intro H; inversion H; subst; exact K1|].
  destruct (m_term m <? p_term (n_p s1)); [intro H; inversion H; subst; exact K1|].
  destruct (p_term (n_p s1) <? m_term m) eqn:Egt.
  - apply N.ltb_lt in Egt. intro H. exfalso.
    assert (Hge : m_term m <= p_term (n_p s')).
    { revert H.
      match goal with |- bind ?a _ = _ -> _ => destruct a as [s2 | |] eqn:E2 end; simpl; try discriminate.
      intro H. pose proof (rext_handle_by_role s2 m) as P. rewrite H in P. destruct P as [[P _] _].
      assert (m_term m = p_term (n_p s2)).
      { revert E2. destruct (m_body m); try discriminate;
          unfold do_mut; destruct (negb (n_budget s1 =? 0) && (n_budget s1 =? n_cnt s1 + 1)); simpl; try discriminate;
          intro X; inversion X; reflexivity. }
      lia. }
    lia.
  - simpl. unfold handle_by_role. rewrite R1, Hr. intro H.
    pose proof (lx0S_handle_leader b s1 m) as K. rewrite H in K. simpl in K. eapply lc0S_trans; eauto.
Qed.

Lemma event_lc1S b s ev code s' :
  preS b s -> n_role s = Leader -> loop_event ev ->
  run_event (settle s) ev = Ret (code, s') -> p_term (n_p s') = p_term (n_p s) ->
  preS b s' /\ p_log (n_p s') = p_log (n_p s) ++ proposed_by s ev /\ n_commit s <= n_commit s' /\
  n_commits s' = seg (n_commit s - b) (n_commit s' - b) (p_log (n_p s')).
Proof.
  intros P Hr Hev Hrun Ht.
  assert (P0 : preS b (settle s)) by exact P.
  assert (K : lc1S b (settle s) s' (proposed_by s ev)).
  { destruct ev; simpl in Hev; try contradiction; simpl in Hrun.
    - unfold propose_initial_membership in Hrun. simpl in Hrun. rewrite Hr in Hrun. inversion Hrun. subst.
      apply lc0S_lc1S; auto. apply lc0S_refl.
    - unfold wrap0 in Hrun. destruct (handle_msg (settle s) m) as [x | |] eqn:E; simpl in Hrun; try discriminate.
      inversion Hrun. subst x. apply lc0S_lc1S; auto. eapply handle_msg_leaderS; eauto.
    - unfold wrap0 in Hrun. destruct (tick (settle s)) as [x | |] eqn:E; simpl in Hrun; try discriminate.
      inversion Hrun. subst x. apply lc0S_lc1S; auto. revert E. unfold tick. simpl. rewrite Hr. intro E.
      pose proof (lx0S_tick_leader b (set_elapsed (settle s) ((n_elapsed s + 1) mod 4294967296))) as K. rewrite E in K. simpl in K.
      eapply lc0S_trans; [| exact K]. apply lc0S_vol; reflexivity.
    - unfold propose in Hrun. simpl in Hrun. rewrite Hr in Hrun.
      destruct (leader_propose (settle s) es) as [x | |] eqn:E; simpl in Hrun; try discriminate.
      inversion Hrun. subst x. apply (leader_propose_lcS b (settle s) es s' P0 E). }
  destruct K as [A [B [C D]]]. simpl in *. auto.
Qed.

(* the loop starts when everything in the leader's log is committed; the log may have been trimmed behind a snapshot *)
Definition loop_start_snap (s0 : node) : Prop :=
  n_role s0 = Leader /\ contig (n_p s0) /\ sidxS (n_p s0) <= n_commit s0 /\ n_commit s0 = last_index (n_p s0).

Definition base_of (p : pstate) : N :=
  match p_log p with e :: _ => e_index e - 1 | [] => sidxS p end.

Lemma loop_start_pre s0 : loop_start_snap s0 -> preS (base_of (n_p s0)) s0 /\ n_commit s0 = base_of (n_p s0) + lenS (n_p s0).
Proof.
  intros [_ [[Hl _] [Hs Hc]]]. unfold preS, base_of, lenS in *.
  destruct (p_log (n_p s0)) as [| e r] eqn:El.
  - unfold last_index in *. rewrite El in *. simpl in *. unfold sidxS in *. repeat split; auto; lia.
  - unfold lwf in Hl. destruct Hl as [H1 Hw].
    assert (Hli : last_index (n_p s0) = e_index e + N.of_nat (length (e :: r)) - 1).
    { unfold last_index. rewrite El. rewrite (log_last_wf _ _ Hw); [reflexivity | discriminate]. }
    replace (e_index e - 1 + 1) with (e_index e) by lia.
    simpl length in *. split; [split; [exact Hw|]; repeat split; auto; lia | lia].
Qed.

Theorem leader_loop_invariant_snap s0 evs st :
  loop_start_snap s0 ->
  loop_run {| lp_node := s0; lp_prop := []; lp_comm := [] |} evs st ->
  let b := base_of (n_p s0) in
  let c0 := n_commit s0 in
  let s := lp_node st in
  n_role s = Leader /\ p_term (n_p s) = p_term (n_p s0) /\ c0 <= n_commit s /\ n_commit s <= b + lenS (n_p s) /\
  lp_prop st = skipn (N.to_nat (c0 - b)) (p_log (n_p s)) /\
  lp_comm st = seg (c0 - b) (n_commit s - b) (p_log (n_p s)).
Proof.
  intros H0 Hrun. destruct (loop_start_pre s0 H0) as [P0 Hc]. destruct H0 as [Hr _]. simpl.
  set (b := base_of (n_p s0)) in *.
  remember {| lp_node := s0; lp_prop := []; lp_comm := [] |} as st0 eqn:E0.
  assert (I0 : n_role (lp_node st0) = Leader /\ p_term (n_p (lp_node st0)) = p_term (n_p s0) /\ preS b (lp_node st0) /\
               n_commit s0 <= n_commit (lp_node st0) /\
               lp_prop st0 = skipn (N.to_nat (n_commit s0 - b)) (p_log (n_p (lp_node st0))) /\
               lp_comm st0 = seg (n_commit s0 - b) (n_commit (lp_node st0) - b) (p_log (n_p (lp_node st0)))).
  { subst st0. simpl. repeat split; auto; try lia; try apply P0.
    - rewrite skipn_all2; auto. unfold lenS in Hc. lia.
    - rewrite seg_nil. reflexivity. }
  clear E0. induction Hrun as [st | st ev st1 evs st2 Hst Hr1 IH].
  - destruct I0 as [A [B [[P1 [P2 [P3 [P4 P5]]]] [C [D E]]]]]. repeat split; auto.
  - apply IH. destruct I0 as [A [B [P [C [D E]]]]].
    destruct Hst as [st ev code s' Hev Hrun1 Hr' Ht'].
    destruct (event_lc1S b _ _ _ _ P A Hev Hrun1 Ht') as [P' [L' [C' K']]]. simpl.
    pose proof P as [_ [_ [_ [Pb Pc]]]]. unfold lenS in Pc.
    destruct P0 as [_ [_ [_ [Pb0 _]]]].
    split; auto. split; [congruence|]. split; auto. split; [lia|]. split.
    + rewrite L', D. rewrite skipn_app. f_equal.
      replace (N.to_nat (n_commit s0 - b) - length (p_log (n_p (lp_node st))))%nat with 0%nat by lia. reflexivity.
    + rewrite E, K', L'. rewrite <- (seg_ext _ _ _ (proposed_by (lp_node st) ev)) by lia.
      apply seg_app; lia.
Qed.

(* THE CONTRACT with snapshots: the entries returned by TakeNewlyCommitted so far are a prefix of the entries handed to
   core.Propose so far *)
Theorem leader_commits_own_suffix_snap_node s0 evs st :
  loop_start_snap s0 -> loop_run {| lp_node := s0; lp_prop := []; lp_comm := [] |} evs st ->
  prefix (lp_comm st) (lp_prop st).
Proof.
  intros H0 Hrun. destruct (leader_loop_invariant_snap s0 evs st H0 Hrun) as [_ [_ [_ [_ [A B]]]]].
  rewrite A, B. unfold seg, prefix.
  eexists. symmetry. apply firstn_skipn.
Qed.

Theorem leader_commits_own_suffix_snap_stepwise s0 evs st1 ev st2 :
  loop_start_snap s0 -> loop_run {| lp_node := s0; lp_prop := []; lp_comm := [] |} evs st1 -> loop_step st1 ev st2 ->
  lp_comm st2 = lp_comm st1 ++ n_commits (lp_node st2) /\
  lp_prop st2 = lp_prop st1 ++ proposed_by (lp_node st1) ev /\
  prefix (lp_comm st1 ++ n_commits (lp_node st2)) (lp_prop st2).
Proof.
  intros H0 H1 H2. pose proof (leader_commits_own_suffix_snap_node s0 _ st2 H0 (loop_run_snoc _ _ _ _ _ H1 H2)) as P.
  destruct H2. simpl in *. auto.
Qed.

Theorem leader_commits_own_suffix_snap_cmds s0 evs st :
  loop_start_snap s0 -> loop_run {| lp_node := s0; lp_prop := []; lp_comm := [] |} evs st ->
  prefix (map cmd_of (lp_comm st)) (map cmd_of (batches evs)).
Proof.
  intros H0 Hrun. destruct (leader_commits_own_suffix_snap_node s0 evs st H0 Hrun) as [c Hc].
  pose proof (loop_run_prop _ _ _ Hrun) as Hp. simpl in Hp. rewrite <- Hp, Hc, map_app. exists (map cmd_of c). reflexivity.
Qed.

(* the round 3 start condition is the special case without snapshot *)
Lemma loop_start_is_snap s0 : loop_start s0 -> loop_start_snap s0.
Proof.
  intros [Hr [Hs [Hw Hc]]]. unfold loop_start_snap, sidxS. rewrite Hs. split; [exact Hr|]. split.
  - unfold contig, lwf. rewrite Hs. destruct (p_log (n_p s0)) as [| e r] eqn:El; simpl; auto.
    destruct Hw as [Hi Hw]. rewrite Hi. split; [split; [lia | split; [reflexivity | exact Hw]] | reflexivity].
  - split; [lia|]. rewrite (last_index_wf _ Hs Hw). exact Hc.
Qed.
