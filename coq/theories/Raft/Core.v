(* Raft/Core.v — executable model of BLB's Raft core (pkg/raft/raft), used by C02, C03 and C07 (part A).

   Transcribed branch by branch from
     core.go           newCore, proposeInitialMembership, Propose, HandleMsg, Tick, TrimLog, AddNode, RemoveNode,
                       changeState, send, initLatestConf, commitUpTo
     core_follower.go  enter, tick, handle, canGrantVote, handleSnapshot, handleAppEnts, conflictIndex, maybeCommit
     core_candidate.go enter, tick, handle, handleVoteResp, checkIfElected
     core_leader.go    enter, tick, isAlive, shouldSend, checkQuorumActive, handle, sendAppEnts, getAppEnts,
                       findMajorityIndex, handleAppEntsResp, propose, addNode, removeNode, verifyNopCommitted,
                       maybeCommit, commitUpTo
     storage.go        IsInCleanState, getLogEntries, inLog, hasEntry, lastIndex, term
     log.go / wal/mem_log.go   Entries, Term, Append, Truncate, Trim, GetIterator (the in-memory reference log)
     mem_storage.go    memState, memSnapshotMgr (Commit)
     raft.go           sendMsgs (GUID / epoch stamping), fsmSnapshotDone
   Every log.Fatalf is the outcome [Fatal code]; a Go runtime panic (nil dereference, index out of range) is
   [Fatal 20].  Every durable mutation goes through [do_mut]; with a budget k the k-th mutation ends the handler with
   [Crashed p] (p = the surviving persistent state): that is "crash between two durable mutations".
   RandomElectionRange is 0 in every harness configuration (the Tick schedule is the nondeterminism), so
   rand.Uint32() % 1 = 0; the random epoch of addNode is an oracle input of the AddNode event.
   Go map iteration order (peers) only permutes emitted messages; observations sort them by destination (stable).
   Definitions only; proofs are in Raft/*Proofs.v. *)
From Coq Require Import List NArith ZArith Bool.
From BLB Require Import Gen.Consts.
Import ListNotations.
Open Scope N_scope.

Definition nid := N.   (* node id; 0 is the empty string *)

Definition EntryNormal : N := raft_EntryNormal.
Definition EntryConf : N := raft_EntryConf.
Definition EntryNOP : N := raft_EntryNOP.

Record entry := { e_term : N; e_index : N; e_type : N; e_pl : list Z }.
Record membership := { mb_members : list nid; mb_epoch : N; mb_index : N; mb_term : N }.
Record snapmeta := { sn_index : N; sn_term : N; sn_conf : option membership }.

(* ---------------------------------------------------------------- persistent state and its mutations *)
Record pstate := {
  p_term : N; p_vote : nid; p_guid : N; p_guids : list (nid * N);
  p_log : list entry; p_snap : option snapmeta }.

Inductive mut :=
| MSaveState (v : nid) (t : N)
| MSetVote (v : nid)
| MSetGuid (id : nid) (g : N)
| MFilterGuids (ids : list nid)
| MAppend (es : list entry)
| MTruncate (i : N)
| MTrim (i : N)
| MSnapCommit (m : snapmeta).

Definition memb (x : N) (l : list N) : bool := existsb (N.eqb x) l.

Fixpoint guid_set (id : nid) (g : N) (l : list (nid * N)) : list (nid * N) :=
  match l with
  | [] => [(id, g)]
  | (k, v) :: r => if id =? k then (k, g) :: r else if id <? k then (id, g) :: l else (k, v) :: guid_set id g r
  end.

Fixpoint guid_get (id : nid) (l : list (nid * N)) : N :=
  match l with [] => 0 | (k, v) :: r => if id =? k then v else guid_get id r end.

Definition log_last (l : list entry) : option N :=
  match rev l with [] => None | e :: _ => Some (e_index e) end.
Definition log_first (l : list entry) : option N :=
  match l with [] => None | e :: _ => Some (e_index e) end.

(* wal.memLog.Append: records must continue the last id; the first bad record stops the batch with an error *)
Fixpoint mem_append (l : list entry) (es : list entry) : list entry * bool :=
  match es with
  | [] => (l, true)
  | e :: r => match log_last l with
              | Some li => if e_index e =? li + 1 then mem_append (l ++ [e]) r else (l, false)
              | None => mem_append (l ++ [e]) r
              end
  end.

Fixpoint drop_while {A} (f : A -> bool) (l : list A) : list A :=
  match l with [] => [] | x :: r => if f x then drop_while f r else l end.

Definition mem_truncate (keep : N) (l : list entry) : list entry :=
  rev (drop_while (fun e => keep <? e_index e) (rev l)).
Definition mem_trim (upto : N) (l : list entry) : list entry :=
  drop_while (fun e => e_index e <=? upto) l.

Definition set_log (p : pstate) (l : list entry) : pstate :=
  {| p_term := p_term p; p_vote := p_vote p; p_guid := p_guid p; p_guids := p_guids p; p_log := l; p_snap := p_snap p |}.

Definition apply_mut (p : pstate) (m : mut) : pstate :=
  match m with
  | MSaveState v t => {| p_term := t; p_vote := v; p_guid := p_guid p; p_guids := p_guids p; p_log := p_log p; p_snap := p_snap p |}
  | MSetVote v => {| p_term := p_term p; p_vote := v; p_guid := p_guid p; p_guids := p_guids p; p_log := p_log p; p_snap := p_snap p |}
  | MSetGuid id g => {| p_term := p_term p; p_vote := p_vote p; p_guid := p_guid p; p_guids := guid_set id g (p_guids p); p_log := p_log p; p_snap := p_snap p |}
  | MFilterGuids ids => {| p_term := p_term p; p_vote := p_vote p; p_guid := p_guid p;
                           p_guids := filter (fun kv => memb (fst kv) ids) (p_guids p); p_log := p_log p; p_snap := p_snap p |}
  | MAppend es => set_log p (fst (mem_append (p_log p) es))
  | MTruncate i => set_log p (mem_truncate i (p_log p))
  | MTrim i => set_log p (mem_trim i (p_log p))
  | MSnapCommit m => {| p_term := p_term p; p_vote := p_vote p; p_guid := p_guid p; p_guids := p_guids p; p_log := p_log p; p_snap := Some m |}
  end.

(* ---------------------------------------------------------------- messages *)
Inductive mbody :=
| AppEnts (prev_idx prev_term commit : N) (ents : option (list entry))
| AppEntsResp (success : bool) (index hint : N)
| VoteReq (last_idx last_term : N)
| VoteResp (granted : bool)
| InstallSnap (last_idx last_term : N) (conf : membership).

Record msg := { m_term : N; m_from : nid; m_to : nid; m_fromg : N; m_tog : N; m_epoch : N; m_body : mbody }.

(* ---------------------------------------------------------------- configuration and volatile state *)
Record config := { cf_follower_to : N; cf_cand_to : N; cf_hb_to : N; cf_stepdown_to : N; cf_snap_to : N;
                   cf_max_ents : N; cf_keep : N }.

Record peer := { pr_id : nid; pr_next : N; pr_match : N; pr_snap : bool; pr_contact : N; pr_recv : N }.
Inductive role := Follower | Candidate | Leader.

Record node := {
  n_id : nid; n_cfg : config;
  n_p : pstate; n_cnt : N; n_budget : N; n_muts : list mut;
  n_role : role; n_leader : nid; n_commit : N; n_restore : bool; n_elapsed : N;
  n_conf : option membership;
  f_contact : N; f_timeout : N;
  c_timeout : N; c_votes : list nid;
  l_check : N; l_peers : list peer;
  n_msgs : list msg; n_commits : list entry }.

(* ---------------------------------------------------------------- outcomes *)
Inductive R (A : Type) :=
| Ret (a : A)
| Fatal (code : N)
| Crashed (p : pstate).
Arguments Ret {A} a.
Arguments Fatal {A} code.
Arguments Crashed {A} p.

Definition bind {A B} (x : R A) (f : A -> R B) : R B :=
  match x with Ret a => f a | Fatal c => Fatal c | Crashed p => Crashed p end.
Notation "x <- a ;; b" := (bind a (fun x => b)) (at level 61, a at next level, right associativity).

(* Fatalf sites *)
Definition F_RESP_HIGHER_TERM : N := 1.
Definition F_SECOND_LEADER : N := 2.
Definition F_NO_TERM_LAST : N := 3.
Definition F_TERM_BEYOND_LAST : N := 4.
Definition F_NO_SNAPSHOT : N := 5.
Definition F_GAP : N := 6.
Definition F_NOT_CONTIGUOUS : N := 7.
Definition F_LEADER_GOT_APPEND : N := 8.
Definition F_CAND_GOT_RESP : N := 9.
Definition F_NO_SNAP_TO_SHIP : N := 10.
Definition F_NO_TERM_MATCH : N := 11.
Definition F_ACK_BEYOND : N := 12.
Definition F_RECONF_BEFORE_NOP : N := 13.
Definition F_NO_TERM_MAJORITY : N := 14.
Definition F_COMMIT_NOT_SNAP : N := 15.
Definition F_TRIM_OUTSIDE : N := 16.
Definition F_END_BEYOND : N := 17.
Definition F_LOG_MISMATCH : N := 18.
Definition F_LOG_TERM_MISSING : N := 19.
Definition F_PANIC : N := 20.
Definition F_APPEND_REJECTED : N := 21.

(* ---------------------------------------------------------------- field updates *)
Definition upd_p (s : node) (p : pstate) (cnt : N) (ms : list mut) : node :=
  {| n_id := n_id s; n_cfg := n_cfg s; n_p := p; n_cnt := cnt; n_budget := n_budget s; n_muts := ms;
     n_role := n_role s; n_leader := n_leader s; n_commit := n_commit s; n_restore := n_restore s; n_elapsed := n_elapsed s;
     n_conf := n_conf s; f_contact := f_contact s; f_timeout := f_timeout s; c_timeout := c_timeout s; c_votes := c_votes s;
     l_check := l_check s; l_peers := l_peers s; n_msgs := n_msgs s; n_commits := n_commits s |}.

Definition set_role (s : node) (r : role) (leader : nid) (elapsed : N) : node :=
  {| n_id := n_id s; n_cfg := n_cfg s; n_p := n_p s; n_cnt := n_cnt s; n_budget := n_budget s; n_muts := n_muts s;
     n_role := r; n_leader := leader; n_commit := n_commit s; n_restore := n_restore s; n_elapsed := elapsed;
     n_conf := n_conf s; f_contact := f_contact s; f_timeout := f_timeout s; c_timeout := c_timeout s; c_votes := c_votes s;
     l_check := l_check s; l_peers := l_peers s; n_msgs := n_msgs s; n_commits := n_commits s |}.

Definition set_leader_id (s : node) (leader : nid) : node := set_role s (n_role s) leader (n_elapsed s).
Definition set_elapsed (s : node) (e : N) : node := set_role s (n_role s) (n_leader s) e.

Definition set_commit (s : node) (c : N) (restore : bool) (commits : list entry) : node :=
  {| n_id := n_id s; n_cfg := n_cfg s; n_p := n_p s; n_cnt := n_cnt s; n_budget := n_budget s; n_muts := n_muts s;
     n_role := n_role s; n_leader := n_leader s; n_commit := c; n_restore := restore; n_elapsed := n_elapsed s;
     n_conf := n_conf s; f_contact := f_contact s; f_timeout := f_timeout s; c_timeout := c_timeout s; c_votes := c_votes s;
     l_check := l_check s; l_peers := l_peers s; n_msgs := n_msgs s; n_commits := commits |}.

Definition set_conf (s : node) (c : option membership) : node :=
  {| n_id := n_id s; n_cfg := n_cfg s; n_p := n_p s; n_cnt := n_cnt s; n_budget := n_budget s; n_muts := n_muts s;
     n_role := n_role s; n_leader := n_leader s; n_commit := n_commit s; n_restore := n_restore s; n_elapsed := n_elapsed s;
     n_conf := c; f_contact := f_contact s; f_timeout := f_timeout s; c_timeout := c_timeout s; c_votes := c_votes s;
     l_check := l_check s; l_peers := l_peers s; n_msgs := n_msgs s; n_commits := n_commits s |}.

Definition set_follower (s : node) (contact timeout : N) : node :=
  {| n_id := n_id s; n_cfg := n_cfg s; n_p := n_p s; n_cnt := n_cnt s; n_budget := n_budget s; n_muts := n_muts s;
     n_role := n_role s; n_leader := n_leader s; n_commit := n_commit s; n_restore := n_restore s; n_elapsed := n_elapsed s;
     n_conf := n_conf s; f_contact := contact; f_timeout := timeout; c_timeout := c_timeout s; c_votes := c_votes s;
     l_check := l_check s; l_peers := l_peers s; n_msgs := n_msgs s; n_commits := n_commits s |}.

Definition set_candidate (s : node) (timeout : N) (votes : list nid) : node :=
  {| n_id := n_id s; n_cfg := n_cfg s; n_p := n_p s; n_cnt := n_cnt s; n_budget := n_budget s; n_muts := n_muts s;
     n_role := n_role s; n_leader := n_leader s; n_commit := n_commit s; n_restore := n_restore s; n_elapsed := n_elapsed s;
     n_conf := n_conf s; f_contact := f_contact s; f_timeout := f_timeout s; c_timeout := timeout; c_votes := votes;
     l_check := l_check s; l_peers := l_peers s; n_msgs := n_msgs s; n_commits := n_commits s |}.

Definition set_leader (s : node) (check : N) (peers : list peer) : node :=
  {| n_id := n_id s; n_cfg := n_cfg s; n_p := n_p s; n_cnt := n_cnt s; n_budget := n_budget s; n_muts := n_muts s;
     n_role := n_role s; n_leader := n_leader s; n_commit := n_commit s; n_restore := n_restore s; n_elapsed := n_elapsed s;
     n_conf := n_conf s; f_contact := f_contact s; f_timeout := f_timeout s; c_timeout := c_timeout s; c_votes := c_votes s;
     l_check := check; l_peers := peers; n_msgs := n_msgs s; n_commits := n_commits s |}.

Definition set_msgs (s : node) (ms : list msg) : node :=
  {| n_id := n_id s; n_cfg := n_cfg s; n_p := n_p s; n_cnt := n_cnt s; n_budget := n_budget s; n_muts := n_muts s;
     n_role := n_role s; n_leader := n_leader s; n_commit := n_commit s; n_restore := n_restore s; n_elapsed := n_elapsed s;
     n_conf := n_conf s; f_contact := f_contact s; f_timeout := f_timeout s; c_timeout := c_timeout s; c_votes := c_votes s;
     l_check := l_check s; l_peers := l_peers s; n_msgs := ms; n_commits := n_commits s |}.

(* the single gate for durable writes *)
Definition do_mut (m : mut) (s : node) : R node :=
  let p' := apply_mut (n_p s) m in
  let c := n_cnt s + 1 in
  if (negb (n_budget s =? 0)) && (n_budget s =? c) then Crashed p'
  else Ret (upd_p s p' c (n_muts s ++ [m])).

(* ---------------------------------------------------------------- storage.go / log.go reads *)
Definition last_index (p : pstate) : N :=
  match log_last (p_log p) with
  | Some li => li
  | None => match p_snap p with Some m => sn_index m | None => 0 end
  end.

(* entryLog.Entries(beg, end) over memLog.GetIterator(beg) *)
Fixpoint entries_loop (l : list entry) (expected end_ : N) : R (list entry) :=
  match l with
  | [] => Ret []
  | e :: r => if negb (e_index e =? expected) then Fatal F_LOG_MISMATCH
              else if end_ <=? e_index e then Ret []
              else x <- entries_loop r (expected + 1) end_ ;; Ret (e :: x)
  end.

Definition log_entries (p : pstate) (beg end_ : N) : R (list entry) :=
  entries_loop (drop_while (fun e => e_index e <? beg) (p_log p)) beg end_.

Definition log_term (p : pstate) (i : N) : R N :=
  es <- log_entries p i (i + 1) ;;
  match es with [] => Fatal F_LOG_TERM_MISSING | e :: _ => Ret (e_term e) end.

Definition st_term (p : pstate) (index : N) : R (N * bool) :=
  if last_index p <? index then Fatal F_TERM_BEYOND_LAST
  else if index =? 0 then Ret (0, true)
  else
    let from_snap :=
      match p_snap p with
      | None => Fatal F_NO_SNAPSHOT
      | Some m => if sn_index m =? index then Ret (sn_term m, true) else Ret (0, false)
      end in
    match log_first (p_log p) with
    | Some fi => if fi <=? index then (t <- log_term p index ;; Ret (t, true)) else from_snap
    | None => from_snap
    end.

Definition in_log (p : pstate) (index term : N) : R bool :=
  match log_first (p_log p), log_last (p_log p) with
  | Some fi, Some li =>
      if (fi <=? index) && (index <=? li) then (t <- log_term p index ;; Ret (term =? t)) else Ret false
  | _, _ => Ret false
  end.

Definition has_entry (p : pstate) (index term : N) : R bool :=
  if index =? 0 then Ret true
  else match p_snap p with
       | Some m => if index <=? sn_index m then Ret true else in_log p index term
       | None => in_log p index term
       end.

Definition get_log_entries (p : pstate) (beg end_ : N) : R (N * list entry * bool) :=
  tk <- st_term p (beg - 1) ;;
  let '(prev_term, ok) := tk in
  if negb ok then Ret (prev_term, [], false)
  else match log_first (p_log p), log_last (p_log p) with
       | Some fi, Some li =>
           if beg <? fi then Ret (prev_term, [], false)
           else if li + 1 <? end_ then Fatal F_END_BEYOND
           else (es <- log_entries p beg end_ ;; Ret (prev_term, es, true))
       | _, _ => Ret (prev_term, [], false)
       end.

Definition is_clean (p : pstate) : bool :=
  match p_log p, p_snap p with
  | [], None => (p_vote p =? 0) && (p_term p =? 0)
  | _, _ => false
  end.

(* ---------------------------------------------------------------- util.go *)
Definition quorum (m : membership) : N := N.of_nat (length (mb_members m)) / 2 + 1.

Definition decode_conf (e : entry) : option membership :=
  if e_type e =? EntryConf then
    match e_pl e with
    | ep :: ms => Some {| mb_members := map Z.to_N ms; mb_epoch := Z.to_N ep; mb_index := e_index e; mb_term := e_term e |}
    | [] => Some {| mb_members := []; mb_epoch := 0; mb_index := e_index e; mb_term := e_term e |}
    end
  else None.

Definition encode_conf (m : membership) : list Z := Z.of_N (mb_epoch m) :: map Z.of_N (mb_members m).

Definition in_latest_conf (s : node) : bool :=
  match n_conf s with Some c => memb (n_id s) (mb_members c) | None => false end.
Definition latest_conf_committed (s : node) : bool :=
  match n_conf s with Some c => mb_index c <=? n_commit s | None => true end.
Definition get_epoch (s : node) : N := match n_conf s with Some c => mb_epoch c | None => 0 end.

Definition sub32 (a b : N) : N := (a + 4294967296 - b) mod 4294967296.

(* ---------------------------------------------------------------- core.go: send, initLatestConf, commitUpTo, TrimLog *)
Definition send (s : node) (to : nid) (b : mbody) : node :=
  set_msgs s (n_msgs s ++ [{| m_term := p_term (n_p s); m_from := n_id s; m_to := to; m_fromg := 0; m_tog := 0; m_epoch := 0; m_body := b |}]).

Fixpoint last_conf_entry (l : list entry) (acc : option entry) : option entry :=
  match l with
  | [] => acc
  | e :: r => last_conf_entry r (if e_type e =? EntryConf then Some e else acc)
  end.

Definition init_latest_conf (p : pstate) : option membership :=
  let latest := match p_snap p with Some m => sn_conf m | None => None end in
  let sidx := match p_snap p with Some m => sn_index m | None => 0 end in
  match p_log p with
  | [] => latest
  | _ => match last_conf_entry (drop_while (fun e => e_index e <? sidx + 1) (p_log p)) None with
         | Some e => if e_index e =? 0 then latest else decode_conf e
         | None => latest
         end
  end.

Definition commit_up_to (s : node) (index : N) : R node :=
  let snap_case :=
    match p_snap (n_p s) with
    | Some m => if n_commit s <? sn_index m then Some m else None
    | None => None
    end in
  match snap_case with
  | Some m => if negb (sn_index m =? index) then Fatal F_COMMIT_NOT_SNAP
              else Ret (set_commit s (sn_index m) true (n_commits s))
  | None =>
      let was := latest_conf_committed s in
      ents <- log_entries (n_p s) (n_commit s + 1) (index + 1) ;;
      let s1 := set_commit s index (n_restore s) (n_commits s ++ ents) in
      if negb was && latest_conf_committed s1 then
        match n_conf s1 with
        | Some c => do_mut (MFilterGuids (mb_members c)) s1
        | None => Fatal F_PANIC
        end
      else Ret s1
  end.

Definition trim_log (s : node) (last_snap_idx : N) : R node :=
  match log_first (p_log (n_p s)), log_last (p_log (n_p s)) with
  | Some fi, Some li =>
      if last_snap_idx =? fi - 1 then Ret s
      else if (last_snap_idx <? fi) || (li <? last_snap_idx) then Fatal F_TRIM_OUTSIDE
      else if last_snap_idx - fi <? cf_keep (n_cfg s) then Ret s
      else do_mut (MTrim (last_snap_idx - cf_keep (n_cfg s))) s
  | _, _ => Ret s
  end.

(* ---------------------------------------------------------------- follower: enter *)
Definition enter_follower (s : node) : node :=
  set_follower s (n_elapsed s) (cf_follower_to (n_cfg s)).

Definition become_follower (s : node) (leader : nid) : node :=
  enter_follower (set_role s Follower leader 0).

(* ---------------------------------------------------------------- leader *)
Fixpoint peer_get (id : nid) (l : list peer) : option peer :=
  match l with [] => None | p :: r => if pr_id p =? id then Some p else peer_get id r end.

Fixpoint peer_set (q : peer) (l : list peer) : list peer :=
  match l with
  | [] => [q]
  | p :: r => if pr_id q =? pr_id p then q :: r else if pr_id q <? pr_id p then q :: l else p :: peer_set q r
  end.

Definition peer_del (id : nid) (l : list peer) : list peer := filter (fun p => negb (pr_id p =? id)) l.

Definition mk_peer id nx mt sn ct rv := {| pr_id := id; pr_next := nx; pr_match := mt; pr_snap := sn; pr_contact := ct; pr_recv := rv |}.

(* getAppEnts: None = ship the snapshot *)
Definition get_app_ents (s : node) (p : peer) : R (option mbody) :=
  let st := n_p s in
  if negb (pr_next p =? pr_match p + 1) then
    tk <- st_term st (pr_next p - 1) ;;
    let '(pt, ok) := tk in
    if negb ok then Ret None else Ret (Some (AppEnts (pr_next p - 1) pt (n_commit s) None))
  else if pr_match p =? last_index st then
    tk <- st_term st (pr_match p) ;;
    let '(pt, ok) := tk in
    if negb ok then Fatal F_NO_TERM_MATCH else Ret (Some (AppEnts (pr_match p) pt (n_commit s) None))
  else
    let end_ := N.min (last_index st + 1) (pr_match p + 1 + cf_max_ents (n_cfg s)) in
    r <- get_log_entries st (pr_match p + 1) end_ ;;
    let '(pt, ents, ok) := r in
    if negb ok then Ret None else Ret (Some (AppEnts (pr_match p) pt (n_commit s) (Some ents))).

Definition send_app_ents (s : node) (p : peer) : R node :=
  ob <- get_app_ents s p ;;
  match ob with
  | None =>
      match p_snap (n_p s) with
      | None => Fatal F_NO_SNAP_TO_SHIP
      | Some m =>
          match sn_conf m with
          | None => Fatal F_PANIC
          | Some c =>
              let s1 := send s (pr_id p) (InstallSnap (sn_index m) (sn_term m) c) in
              Ret (set_leader s1 (l_check s1) (peer_set (mk_peer (pr_id p) (pr_next p) (pr_match p) true (n_elapsed s) (pr_recv p)) (l_peers s1)))
          end
      end
  | Some b =>
      let s1 := send s (pr_id p) b in
      Ret (set_leader s1 (l_check s1) (peer_set (mk_peer (pr_id p) (pr_next p) (pr_match p) (pr_snap p) (n_elapsed s) (pr_recv p)) (l_peers s1)))
  end.

(* iterate over the peers present at loop start (Go: range over the map); a peer deleted meanwhile is skipped *)
Fixpoint for_peers (ids : list nid) (f : node -> peer -> R node) (s : node) : R node :=
  match ids with
  | [] => Ret s
  | id :: r => match peer_get id (l_peers s) with
               | Some p => s1 <- f s p ;; for_peers r f s1
               | None => for_peers r f s
               end
  end.

Definition peer_ids (s : node) : list nid := map pr_id (l_peers s).

Fixpoint insert_desc (x : N) (l : list N) : list N :=
  match l with [] => [x] | y :: r => if y <? x then x :: l else y :: insert_desc x r end.
Definition sort_desc (l : list N) : list N := fold_right insert_desc [] l.

Definition find_majority_index (s : node) : R N :=
  match n_conf s with
  | None => Fatal F_PANIC
  | Some c =>
      let own := if in_latest_conf s then [last_index (n_p s)] else [] in
      let l := sort_desc (own ++ map pr_match (l_peers s)) in
      match nth_error l (N.to_nat (quorum c - 1)) with
      | Some ci => Ret ci
      | None => Fatal F_PANIC
      end
  end.

Definition leader_commit_up_to (s : node) (index : N) : R node :=
  let was := latest_conf_committed s in
  s1 <- commit_up_to s index ;;
  if negb was && latest_conf_committed s1 && negb (in_latest_conf s1) then Ret (become_follower s1 0)
  else Ret s1.

Definition leader_maybe_commit (s : node) : R node :=
  mi <- find_majority_index s ;;
  if n_commit s <? mi then
    tk <- st_term (n_p s) mi ;;
    let '(t, ok) := tk in
    if negb ok then Fatal F_NO_TERM_MAJORITY
    else if negb (t =? p_term (n_p s)) then Ret s
    else
      s1 <- leader_commit_up_to s mi ;;
      for_peers (peer_ids s1)
        (fun s2 p => if pr_match p =? last_index (n_p s2) then send_app_ents s2 p else Ret s2) s1
  else Ret s.

Definition enter_leader (s : node) : R node :=
  match n_conf s with
  | None => Fatal F_PANIC
  | Some c =>
      let li := last_index (n_p s) in
      let others := filter (fun m => negb (m =? n_id s)) (mb_members c) in
      let s0 := set_leader s (l_check s) [] in
      s1 <- fold_left (fun (acc : R node) (m : nid) =>
                         a <- acc ;;
                         let p := mk_peer m (li + 1) 0 false 0 0 in
                         let a1 := set_leader a (l_check a) (peer_set p (l_peers a)) in
                         send_app_ents a1 p) others (Ret s0) ;;
      match l_peers s1 with
      | [] => leader_maybe_commit s1
      | _ => Ret s1
      end
  end.

Definition become_leader (s : node) : R node := enter_leader (set_role s Leader (n_id s) 0).

Definition is_alive (s : node) (p : peer) : bool :=
  let el := sub32 (n_elapsed s) (pr_recv p) in
  if pr_snap p then el <? cf_snap_to (n_cfg s) else el <? cf_stepdown_to (n_cfg s).

Definition should_send (s : node) (p : peer) : bool :=
  let el := sub32 (n_elapsed s) (pr_contact p) in
  if pr_snap p then cf_snap_to (n_cfg s) <=? el else cf_hb_to (n_cfg s) <=? el.

Definition check_quorum_active (s : node) : R bool :=
  match n_conf s with
  | None => Fatal F_PANIC
  | Some c =>
      let active := 1 + N.of_nat (length (filter (is_alive s) (l_peers s))) in
      Ret (negb (active <? quorum c))
  end.

Definition tick_leader (s : node) : R node :=
  s1 <- for_peers (peer_ids s) (fun s2 p => if should_send s2 p then send_app_ents s2 p else Ret s2) s ;;
  let chk := l_check s1 + 1 in
  let s2 := set_leader s1 chk (l_peers s1) in
  if negb (cf_stepdown_to (n_cfg s) =? 0) && (cf_stepdown_to (n_cfg s) <? chk) then
    let s3 := set_leader s2 0 (l_peers s2) in
    ok <- check_quorum_active s3 ;;
    if ok then Ret s3 else Ret (become_follower s3 0)
  else Ret s2.

Definition handle_app_ents_resp (s : node) (from : nid) (success : bool) (index hint : N) : R node :=
  match peer_get from (l_peers s) with
  | None => Ret s
  | Some p =>
      if index <? pr_match p then Ret s
      else
        let p1 := mk_peer (pr_id p) (pr_next p) (pr_match p) false (pr_contact p) (n_elapsed s) in
        if negb success then
          let nx := if negb (hint =? 0) then hint else index in
          let p2 := mk_peer (pr_id p1) (if nx <=? pr_match p1 then pr_match p1 + 1 else nx) (pr_match p1) false (pr_contact p1) (pr_recv p1) in
          let s1 := set_leader s (l_check s) (peer_set p2 (l_peers s)) in
          send_app_ents s1 p2
        else
          let p2 := mk_peer (pr_id p1) (index + 1) index false (pr_contact p1) (pr_recv p1) in
          let s1 := set_leader s (l_check s) (peer_set p2 (l_peers s)) in
          if last_index (n_p s1) <? index then Fatal F_ACK_BEYOND
          else
            s2 <- (if negb (index =? last_index (n_p s1)) then send_app_ents s1 p2 else Ret s1) ;;
            leader_maybe_commit s2
  end.

Fixpoint stamp (es : list entry) (idx term : N) : list entry :=
  match es with
  | [] => []
  | e :: r => {| e_term := term; e_index := idx; e_type := e_type e; e_pl := e_pl e |} :: stamp r (idx + 1) term
  end.

Definition log_append (s : node) (es : list entry) : R node :=
  let ok := snd (mem_append (p_log (n_p s)) es) in
  s1 <- do_mut (MAppend es) s ;;
  if ok then Ret s1 else Fatal F_APPEND_REJECTED.

Definition leader_propose (s : node) (es : list entry) : R node :=
  let li := last_index (n_p s) in
  s1 <- log_append s (stamp es (li + 1) (p_term (n_p s))) ;;
  s2 <- for_peers (peer_ids s1)
          (fun s3 p => if (pr_match p + 1 =? pr_next p) && (li + 1 =? pr_next p) then send_app_ents s3 p else Ret s3) s1 ;;
  match l_peers s2 with
  | [] => leader_maybe_commit s2
  | _ => Ret s2
  end.

Definition verify_nop_committed (s : node) : R unit :=
  tk <- st_term (n_p s) (n_commit s) ;;
  let '(lt, ok) := tk in
  if negb ok then Fatal F_NO_TERM_LAST
  else if negb (p_term (n_p s) =? lt) then Fatal F_RECONF_BEFORE_NOP
  else Ret tt.

(* returns (error code, state) *)
Definition E_NONE : N := 0.
Definition E_NOT_LEADER : N := 1.
Definition E_ALREADY_CONFIGURED : N := 2.
Definition E_NODE_EXISTS : N := 3.
Definition E_NODE_NOT_EXISTS : N := 4.
Definition E_TOO_MANY : N := 5.

Definition conf_entry (c : membership) : entry :=
  {| e_term := 0; e_index := 0; e_type := EntryConf; e_pl := encode_conf c |}.

Definition leader_add_node (s : node) (member : nid) (rnd : N) : R (N * node) :=
  _ <- verify_nop_committed s ;;
  match n_conf s with
  | None => Fatal F_PANIC
  | Some conf =>
      if memb member (mb_members conf) then Ret (E_NODE_EXISTS, s)
      else if negb (latest_conf_committed s) then Ret (E_TOO_MANY, s)
      else
        let ep := if mb_epoch conf =? 0 then rnd else mb_epoch conf in
        let li := last_index (n_p s) in
        let nc := {| mb_members := mb_members conf ++ [member]; mb_epoch := ep; mb_index := li + 1; mb_term := p_term (n_p s) |} in
        let s1 := set_conf s (Some nc) in
        let s2 := set_leader s1 (l_check s1) (peer_set (mk_peer member (li + 1) 0 false 0 (n_elapsed s1)) (l_peers s1)) in
        s3 <- leader_propose s2 [conf_entry nc] ;;
        Ret (E_NONE, s3)
  end.

Definition leader_remove_node (s : node) (member : nid) : R (N * node) :=
  _ <- verify_nop_committed s ;;
  match n_conf s with
  | None => Fatal F_PANIC
  | Some conf =>
      if negb (memb member (mb_members conf)) then Ret (E_NODE_NOT_EXISTS, s)
      else if negb (latest_conf_committed s) then Ret (E_TOO_MANY, s)
      else
        let s1 := set_leader s (l_check s) (peer_del member (l_peers s)) in
        let li := last_index (n_p s1) in
        let nc := {| mb_members := filter (fun m => negb (m =? member)) (mb_members conf); mb_epoch := mb_epoch conf;
                     mb_index := li + 1; mb_term := p_term (n_p s1) |} in
        let s2 := set_conf s1 (Some nc) in
        s3 <- leader_propose s2 [conf_entry nc] ;;
        s4 <- leader_maybe_commit s3 ;;
        Ret (E_NONE, s4)
  end.

Definition handle_leader (s : node) (m : msg) : R node :=
  match m_body m with
  | VoteReq _ _ => Ret (send s (m_from m) (VoteResp false))
  | AppEntsResp su ix hi => handle_app_ents_resp s (m_from m) su ix hi
  | AppEnts _ _ _ _ => Fatal F_LEADER_GOT_APPEND
  | InstallSnap _ _ _ => Fatal F_LEADER_GOT_APPEND
  | VoteResp _ => Ret s
  end.

(* ---------------------------------------------------------------- candidate *)
Fixpoint set_add (x : N) (l : list N) : list N :=
  match l with [] => [x] | y :: r => if x =? y then l else if x <? y then x :: l else y :: set_add x r end.

Definition check_if_elected (s : node) : R node :=
  match n_conf s with
  | None => Fatal F_PANIC
  | Some c => if quorum c <=? N.of_nat (length (c_votes s)) then become_leader s else Ret s
  end.

Definition enter_candidate (s : node) : R node :=
  if negb (in_latest_conf s) && latest_conf_committed s then Ret (become_follower s 0)
  else
    let s0 := set_candidate s (c_timeout s) [] in
    s1 <- do_mut (MSaveState (n_id s0) (p_term (n_p s0) + 1)) s0 ;;
    let s2 := if in_latest_conf s1 then set_candidate s1 (c_timeout s1) (set_add (n_id s1) (c_votes s1)) else s1 in
    let li := last_index (n_p s2) in
    tk <- st_term (n_p s2) li ;;
    let '(lt, ok) := tk in
    if negb ok then Fatal F_NO_TERM_LAST
    else match n_conf s2 with
         | None => Fatal F_PANIC
         | Some c =>
             let s3 := fold_left (fun a m => if m =? n_id a then a else send a m (VoteReq li lt)) (mb_members c) s2 in
             let s4 := set_candidate s3 (cf_cand_to (n_cfg s3)) (c_votes s3) in
             check_if_elected s4
         end.

Definition become_candidate (s : node) : R node := enter_candidate (set_role s Candidate 0 0).

Definition handle_candidate (s : node) (m : msg) : R node :=
  match m_body m with
  | VoteResp g => if g then check_if_elected (set_candidate s (c_timeout s) (set_add (m_from m) (c_votes s))) else Ret s
  | VoteReq _ _ => Ret (send s (m_from m) (VoteResp false))
  | AppEnts _ _ _ _ => Ret (become_follower s (m_from m))
  | InstallSnap _ _ _ => Ret (become_follower s (m_from m))
  | AppEntsResp _ _ _ => Fatal F_CAND_GOT_RESP
  end.

(* ---------------------------------------------------------------- follower *)
Definition can_grant_vote (s : node) (from : nid) (last_idx last_term : N) : R bool :=
  let v := p_vote (n_p s) in
  if negb (v =? 0) && negb (v =? from) then Ret false
  else
    let li := last_index (n_p s) in
    tk <- st_term (n_p s) li ;;
    let '(lt, ok) := tk in
    if negb ok then Fatal F_NO_TERM_LAST
    else Ret ((lt <? last_term) || ((last_term =? lt) && (li <=? last_idx))).

Definition follower_maybe_commit (s : node) (leader_commit match_index : N) : R node :=
  if n_commit s <? N.min match_index leader_commit then commit_up_to s (N.min match_index leader_commit) else Ret s.

Definition last_ent_index (es : list entry) : N := match rev es with e :: _ => e_index e | [] => 0 end.

(* compare ents[idx+offset].Term with entsInLog[idx].Term for idx = 0 .. count-1 *)
Fixpoint conflict_loop (count : nat) (idx : nat) (offset : nat) (ents in_log : list entry) : R (N * bool) :=
  match count with
  | O => Ret (0, false)
  | S c => match nth_error ents (idx + offset), nth_error in_log idx with
           | Some a, Some b => if negb (e_term a =? e_term b) then Ret (e_index a, true)
                               else conflict_loop c (S idx) offset ents in_log
           | _, _ => Fatal F_PANIC
           end
  end.

Definition conflict_index (s : node) (ents : list entry) : R (N * bool) :=
  match ents with
  | [] => Fatal F_PANIC
  | e0 :: _ =>
      let p := n_p s in
      if e_index e0 =? last_index p + 1 then Ret (0, false)
      else if last_index p + 1 <? e_index e0 then Fatal F_GAP
      else
        let lastent := last_ent_index ents in
        let start_or_done :=
          match p_snap p with
          | Some m => if lastent <=? sn_index m then None else Some (N.max (e_index e0) (sn_index m + 1))
          | None => Some (e_index e0)
          end in
        match start_or_done with
        | None => Ret (0, false)
        | Some start =>
            match log_last (p_log p) with
            | None => Ret (0, false)
            | Some lli =>
                let end_ := N.min lli lastent in
                in_log <- log_entries p start (end_ + 1) ;;
                let count := if end_ <? start then O else N.to_nat (end_ - start + 1) in
                conflict_loop count O (N.to_nat (start - e_index e0)) ents in_log
            end
        end
  end.

Definition set_follower_contact (s : node) : node := set_follower s (n_elapsed s) (f_timeout s).

Definition handle_app_ents (s : node) (from : nid) (prev_idx prev_term commit : N) (oents : option (list entry)) : R node :=
  let s := set_follower_contact s in
  ok <- has_entry (n_p s) prev_idx prev_term ;;
  if negb ok then
    let li := last_index (n_p s) in
    let hint := if li <? prev_idx then li + 1 else 0 in
    Ret (send s from (AppEntsResp false prev_idx hint))
  else
    match oents with
    | None =>
        let s1 := send s from (AppEntsResp true prev_idx 0) in
        follower_maybe_commit s1 commit prev_idx
    | Some ents =>
        ca <- conflict_index s ents ;;
        let '(ci, any) := ca in
        s1 <- (if any then
                 s' <- do_mut (MTruncate (ci - 1)) s ;;
                 match n_conf s' with
                 | Some c => if ci <=? mb_index c then Ret (set_conf s' (init_latest_conf (n_p s'))) else Ret s'
                 | None => Ret s'
                 end
               else Ret s) ;;
        let li := last_ent_index ents in
        if li <=? last_index (n_p s1) then
          let s2 := send s1 from (AppEntsResp true li 0) in
          follower_maybe_commit s2 commit li
        else
          match ents with
          | [] => Fatal F_PANIC
          | e0 :: _ =>
              let fi := e_index e0 in
              let off := last_index (n_p s1) + 1 - fi in
              if N.of_nat (length ents) <? off then Fatal F_PANIC
              else
                let app := skipn (N.to_nat off) ents in
                match app with
                | [] => Fatal F_PANIC
                | a0 :: _ =>
                    if negb (e_index a0 =? last_index (n_p s1) + 1) then Fatal F_NOT_CONTIGUOUS
                    else
                      let s2 := fold_left (fun a e => if e_type e =? EntryConf then set_conf a (decode_conf e) else a) app s1 in
                      s3 <- log_append s2 app ;;
                      let s4 := send s3 from (AppEntsResp true li 0) in
                      follower_maybe_commit s4 commit li
                end
          end
    end.

Definition handle_snapshot (s : node) (from : nid) (last_idx last_term : N) (conf : membership) : R node :=
  let s := set_follower_contact s in
  let stale := match p_snap (n_p s) with Some m => if last_idx <=? sn_index m then Some (sn_index m) else None | None => None end in
  match stale with
  | Some cur => Ret (send s from (AppEntsResp true cur 0))
  | None =>
      s1 <- do_mut (MSnapCommit {| sn_index := last_idx; sn_term := last_term; sn_conf := Some conf |}) s ;;
      il <- in_log (n_p s1) last_idx last_term ;;
      s2 <- (if il then trim_log s1 last_idx
             else s' <- do_mut (MTruncate 0) s1 ;; Ret (set_conf s' (Some conf))) ;;
      s3 <- (if n_commit s2 <? last_idx then commit_up_to s2 last_idx else Ret s2) ;;
      Ret (send s3 from (AppEntsResp true last_idx 0))
  end.

Definition follower_note_leader (s : node) (from : nid) : R node :=
  s1 <- (if p_vote (n_p s) =? 0 then do_mut (MSetVote from) s else Ret s) ;;
  if n_leader s1 =? 0 then Ret (set_leader_id s1 from)
  else if negb (n_leader s1 =? from) then Fatal F_SECOND_LEADER
  else Ret s1.

Definition handle_follower (s : node) (m : msg) : R node :=
  match m_body m with
  | AppEnts pi pt cm es => s1 <- follower_note_leader s (m_from m) ;; handle_app_ents s1 (m_from m) pi pt cm es
  | VoteReq li lt =>
      g <- can_grant_vote s (m_from m) li lt ;;
      s1 <- (if g then do_mut (MSetVote (m_from m)) s else Ret s) ;;
      Ret (send s1 (m_from m) (VoteResp g))
  | InstallSnap li lt c => s1 <- follower_note_leader s (m_from m) ;; handle_snapshot s1 (m_from m) li lt c
  | AppEntsResp _ _ _ => Ret s
  | VoteResp _ => Ret s
  end.

(* ---------------------------------------------------------------- core.go: HandleMsg, Tick, Propose, AddNode, RemoveNode *)
Definition handle_by_role (s : node) (m : msg) : R node :=
  match n_role s with
  | Follower => handle_follower s m
  | Candidate => handle_candidate s m
  | Leader => handle_leader s m
  end.

Definition handle_msg (s : node) (m : msg) : R node :=
  if (negb (m_to m =? 0) && negb (m_to m =? n_id s)) || (negb (m_tog m =? 0) && negb (m_tog m =? p_guid (n_p s))) then Ret s
  else
    let expected := guid_get (m_from m) (p_guids (n_p s)) in
    if negb (expected =? 0) && negb (expected =? m_fromg m) then Ret s
    else
      s1 <- (if expected =? 0 then do_mut (MSetGuid (m_from m) (m_fromg m)) s else Ret s) ;;
      let my := get_epoch s1 in
      if negb (m_epoch m =? 0) && negb (my =? 0) && negb (m_epoch m =? my) then Ret s1
      else if m_term m <? p_term (n_p s1) then Ret s1
      else
        s2 <- (if p_term (n_p s1) <? m_term m then
                 match m_body m with
                 | AppEnts _ _ _ _ | InstallSnap _ _ _ =>
                     s' <- do_mut (MSaveState (m_from m) (m_term m)) s1 ;; Ret (become_follower s' (m_from m))
                 | VoteReq _ _ =>
                     s' <- do_mut (MSaveState 0 (m_term m)) s1 ;; Ret (become_follower s' 0)
                 | _ => Fatal F_RESP_HIGHER_TERM
                 end
               else Ret s1) ;;
        handle_by_role s2 m.

Definition tick (s : node) : R node :=
  let s := set_elapsed s ((n_elapsed s + 1) mod 4294967296) in
  match n_role s with
  | Follower => if f_timeout s <=? sub32 (n_elapsed s) (f_contact s) then become_candidate s else Ret s
  | Candidate => if c_timeout s <=? n_elapsed s then become_candidate s else Ret s
  | Leader => tick_leader s
  end.

Definition propose (s : node) (es : list entry) : R (N * node) :=
  match n_role s with
  | Leader => s1 <- leader_propose s es ;; Ret (E_NONE, s1)
  | _ => Ret (E_NOT_LEADER, s)
  end.

Definition add_node (s : node) (member : nid) (rnd : N) : R (N * node) :=
  match n_role s with Leader => leader_add_node s member rnd | _ => Ret (E_NOT_LEADER, s) end.

Definition remove_node (s : node) (member : nid) : R (N * node) :=
  match n_role s with Leader => leader_remove_node s member | _ => Ret (E_NOT_LEADER, s) end.

Definition propose_initial_membership (s : node) (members : list nid) (epoch : N) : R (N * node) :=
  match n_role s with
  | Follower =>
      if is_clean (n_p s) then
        let c := {| mb_members := members; mb_epoch := epoch; mb_index := 1; mb_term := 1 |} in
        let e := {| e_term := 1; e_index := 1; e_type := EntryConf; e_pl := encode_conf c |} in
        s1 <- do_mut (MSaveState 0 1) s ;;
        s2 <- log_append s1 [e] ;;
        Ret (E_NONE, set_conf s2 (decode_conf e))
      else Ret (E_ALREADY_CONFIGURED, s)
  | _ => Ret (E_ALREADY_CONFIGURED, s)
  end.

(* raft.go fsmSnapshotDone *)
Definition snapshot_done (s : node) (m : snapmeta) : R node :=
  let newer := match p_snap (n_p s) with Some cur => sn_index m <=? sn_index cur | None => false end in
  if newer then Ret s
  else s1 <- do_mut (MSnapCommit m) s ;; trim_log s1 (sn_index m).

(* core.go newCore *)
Definition blank_node (id : nid) (cfg : config) (p : pstate) : node :=
  {| n_id := id; n_cfg := cfg; n_p := p; n_cnt := 0; n_budget := 0; n_muts := [];
     n_role := Follower; n_leader := 0; n_commit := 0; n_restore := false; n_elapsed := 0;
     n_conf := None; f_contact := 0; f_timeout := 0; c_timeout := 0; c_votes := [];
     l_check := 0; l_peers := []; n_msgs := []; n_commits := [] |}.

(* core.go reconcileLogWithSnapshot (fix F10): finish an interrupted handleSnapshot before anything reads the log *)
Definition reconcile (s : node) : R node :=
  match p_snap (n_p s), log_first (p_log (n_p s)), log_last (p_log (n_p s)) with
  | Some m, Some fi, Some li =>
      if (li <? sn_index m) || (sn_index m + 1 <? fi) then do_mut (MTruncate 0) s
      else if fi <=? sn_index m then
        t <- log_term (n_p s) (sn_index m) ;;
        if negb (t =? sn_term m) then do_mut (MTruncate 0) s else Ret s
      else Ret s
  | _, _, _ => Ret s
  end.

Definition new_core (id : nid) (cfg : config) (p0 : pstate) : R node :=
  r <- reconcile (blank_node id cfg p0) ;;
  let p := n_p r in
  let s0 := set_conf (blank_node id cfg p) (init_latest_conf p) in
  s1 <- (match p_snap p with
         | None => Ret s0
         | Some m => commit_up_to s0 (sn_index m)
         end) ;;
  Ret (become_follower s1 0).

(* raft.go sendMsgs: stamp GUIDs and epoch, hand the messages over; observations list them sorted by destination *)
Fixpoint insert_by_to (m : msg) (l : list msg) : list msg :=
  match l with [] => [m] | x :: r => if m_to m <? m_to x then m :: l else x :: insert_by_to m r end.
Definition sort_by_to (l : list msg) : list msg := fold_right insert_by_to [] l.

Definition stamp_msg (s : node) (m : msg) : msg :=
  {| m_term := m_term m; m_from := m_from m; m_to := m_to m; m_fromg := p_guid (n_p s);
     m_tog := guid_get (m_to m) (p_guids (n_p s)); m_epoch := get_epoch s; m_body := m_body m |}.

Definition out_msgs (s : node) : list msg := sort_by_to (map (stamp_msg s) (n_msgs s)).

(* state at the start of the next event: outputs taken, mutation counter reset *)
Definition settle (s : node) : node :=
  let s1 := set_msgs (set_commit s (n_commit s) false []) [] in
  upd_p s1 (n_p s1) 0 [].

Definition with_budget (s : node) (k : N) : node :=
  {| n_id := n_id s; n_cfg := n_cfg s; n_p := n_p s; n_cnt := n_cnt s; n_budget := k; n_muts := n_muts s;
     n_role := n_role s; n_leader := n_leader s; n_commit := n_commit s; n_restore := n_restore s; n_elapsed := n_elapsed s;
     n_conf := n_conf s; f_contact := f_contact s; f_timeout := f_timeout s; c_timeout := c_timeout s; c_votes := c_votes s;
     l_check := l_check s; l_peers := l_peers s; n_msgs := n_msgs s; n_commits := n_commits s |}.

(* ---------------------------------------------------------------- events on one node *)
Inductive event :=
| EBootstrap (members : list nid) (epoch : N)
| EDeliver (m : msg)
| ETick
| EPropose (es : list entry)
| EAddNode (member : nid) (rnd : N)
| ERemoveNode (member : nid)
| ESnapDone (m : snapmeta)
| ERestart.

Definition wrap0 (r : R node) : R (N * node) := s <- r ;; Ret (0, s).

Definition run_event (s : node) (ev : event) : R (N * node) :=
  match ev with
  | EBootstrap ms ep => propose_initial_membership s ms ep
  | EDeliver m => wrap0 (handle_msg s m)
  | ETick => wrap0 (tick s)
  | EPropose es => propose s es
  | EAddNode m rnd => add_node s m rnd
  | ERemoveNode m => remove_node s m
  | ESnapDone m => wrap0 (snapshot_done s m)
  | ERestart => wrap0 (new_core (n_id s) (n_cfg s) (n_p s))
  end.

(* the event with a crash right after its k-th durable mutation (k = 0: no crash); after a crash the node is rebuilt by newCore *)
Definition run_event_crash (s : node) (ev : event) (k : N) : R (bool * N * node) :=
  match run_event (with_budget s k) ev with
  | Ret (st, s') => Ret (false, st, with_budget s' 0)
  | Fatal c => Fatal c
  | Crashed p => s' <- new_core (n_id s) (n_cfg s) p ;; Ret (true, 0, s')
  end.
