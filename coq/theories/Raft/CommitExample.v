(* Raft/CommitExample.v — non-vacuity of leader_completeness_sys, state_machine_safety_sys and committed_never_truncated_sys on
   the 2-node run of Raft/SMSafetyExample.v / Raft/CompletenessExample.v. *)
From Coq Require Import List NArith ZArith Bool Lia.
From BLB Require Import Lib.LTS Raft.Core Raft.Wire Raft.Election Raft.ElectionExample Raft.NodeConf Raft.ElectionFixed
  Raft.LogMatchLists Raft.LogMatchNode Raft.LogMatch Raft.LogMatchExample Raft.SMSafetyExample Raft.CompletenessExample
  Raft.LeaderSuffixExample Raft.CompletenessCommit.
Import ListNotations.
Open Scope N_scope.

Lemma cinit_l0 : cinit l0.
Proof.
  split.
  - split.
    + unfold sinit2. split; [| split; [| auto]].
      * simpl. constructor; [simpl; intros [H | []]; discriminate | constructor; [simpl; tauto | constructor]].
      * intros s [H | [H | []]]; subst s; (split; [vm_compute; discriminate|]; split; [reflexivity|]);
          unfold sok, pok; vm_compute; repeat split; auto.
    + intros s [H | [H | []]]; subst s; vm_compute; auto.
  - intros s [H | [H | []]]; subst s; vm_compute; auto.
Qed.

Lemma run_l12 : run sys sys_event (lstep 2 [1; 2] 5) l0 sm_sched1 l12.
Proof.
  unfold sm_sched1, lm_sched. simpl app.
  apply run_cons with (s1 := l1); [lstep_plain; repeat split; auto|].
  apply run_cons with (s1 := l2); [lstep_plain|].
  apply run_cons with (s1 := l3); [lstep_plain|].
  apply run_cons with (s1 := l4); [lstep_deliver|].
  apply run_cons with (s1 := l5); [lstep_deliver|].
  apply run_cons with (s1 := l6); [lstep_plain; constructor; [unfold eok; vm_compute; exact Logic.I | constructor]|].
  apply run_cons with (s1 := l7); [lstep_deliver|].
  apply run_cons with (s1 := l8); [lstep_deliver|].
  apply run_cons with (s1 := l9); [lstep_deliver|].
  apply run_cons with (s1 := l10); [lstep_deliver|].
  apply run_cons with (s1 := l11); [lstep_deliver|].
  apply run_cons with (s1 := l12); [lstep_deliver|].
  apply run_nil.
Qed.

Lemma run_c5 : run sys sys_event (lstep 2 [1; 2] 5) l12 lc_sched2 c5.
Proof.
  unfold lc_sched2.
  apply run_cons with (s1 := l13); [lstep_deliver|].
  apply run_cons with (s1 := c1); [lstep_plain|].
  apply run_cons with (s1 := c2); [lstep_plain|].
  apply run_cons with (s1 := c3); [lstep_plain|].
  apply run_cons with (s1 := c4); [lstep_deliver|].
  apply run_cons with (s1 := c5); [lstep_deliver|].
  apply run_nil.
Qed.

(* the old leader (term 2) has committed 2 entries; after the leader change the new leader (term 3) holds them *)
Example leader_completeness_commit_nonvacuous :
  exists σ0 σ1 σ2 sched1 sched2 a b,
    cinit σ0 /\
    run sys sys_event (lstep (length (sy_nodes σ0)) [1; 2] 5) σ0 sched1 σ1 /\
    run sys sys_event (lstep (length (sy_nodes σ0)) [1; 2] 5) σ1 sched2 σ2 /\
    In a (sy_nodes σ1) /\ In b (sy_nodes σ2) /\ n_role b = Leader /\ p_term (n_p a) < p_term (n_p b) /\
    n_commit a = 2 /\ n_id a <> n_id b.
Proof.
  exists l0, l12, c5, sm_sched1, lc_sched2, (nth 0 (sy_nodes l12) (mk_node 1)), (nth 1 (sy_nodes c5) (mk_node 1)).
  split; [exact cinit_l0|]. split; [exact run_l12|]. split; [exact run_c5|].
  split; [vm_compute; auto|]. split; [vm_compute; auto|]. split; [vm_compute; reflexivity|]. split; [vm_compute; reflexivity|].
  split; [vm_compute; reflexivity | vm_compute; discriminate].
Qed.

(* leader and follower hand the entries of index 2 to their state machines at different moments *)
Example state_machine_safety_nonvacuous :
  exists σ0 σ1 σ2 sched1 sched2 a b x y,
    cinit σ0 /\
    run sys sys_event (lstep (length (sy_nodes σ0)) [1; 2] 5) σ0 sched1 σ1 /\
    run sys sys_event (lstep (length (sy_nodes σ0)) [1; 2] 5) σ1 sched2 σ2 /\
    In a (sy_nodes σ1) /\ In b (sy_nodes σ2) /\ In x (n_commits a) /\ In y (n_commits b) /\
    e_index x = e_index y /\ e_index x = 2 /\ n_id a <> n_id b.
Proof.
  exists l0, l12, l13, sm_sched1, sm_sched2, (nth 0 (sy_nodes l12) (mk_node 1)), (nth 1 (sy_nodes l13) (mk_node 1)),
    {| e_term := 2; e_index := 2; e_type := EntryNormal; e_pl := [42%Z] |},
    {| e_term := 2; e_index := 2; e_type := EntryNormal; e_pl := [42%Z] |}.
  split; [exact cinit_l0|]. split; [exact run_l12|]. split.
  { unfold sm_sched2. apply run_cons with (s1 := l13); [lstep_deliver|]. apply run_nil. }
  split; [vm_compute; auto|]. split; [vm_compute; auto|]. split; [vm_compute; auto|]. split; [vm_compute; auto|].
  split; [reflexivity|]. split; [reflexivity | vm_compute; discriminate].
Qed.

(* a step of a node with commit index 2 whose log changes (the leader appends a proposal) *)
Example committed_never_truncated_nonvacuous :
  exists σ0 σ σ' sched e a a',
    cinit σ0 /\ run sys sys_event (lstep (length (sy_nodes σ0)) [1; 2] 5) σ0 sched σ /\
    lstep (length (sy_nodes σ0)) [1; 2] 5 σ e σ' /\
    In a (sy_nodes σ) /\ In a' (sy_nodes σ') /\ n_id a' = n_id a /\ n_commit a = 2 /\
    length (p_log (n_p a)) = 2%nat /\ length (p_log (n_p a')) = 3%nat.
Proof.
  exists l0, l12, (apply_step l12 1 (EPropose [e3]) 0), sm_sched1, (1, EPropose [e3], 0),
    (nth 0 (sy_nodes l12) (mk_node 1)), (nth 0 (sy_nodes (apply_step l12 1 (EPropose [e3]) 0)) (mk_node 1)).
  split; [exact cinit_l0|]. split; [exact run_l12|]. split.
  { change (length (sy_nodes l0)) with 2%nat. lstep_plain. constructor; [unfold eok; vm_compute; exact Logic.I | constructor]. }
  split; [vm_compute; auto|]. split; [vm_compute; auto|]. split; [vm_compute; reflexivity|]. split; [vm_compute; reflexivity|].
  split; vm_compute; reflexivity.
Qed.
