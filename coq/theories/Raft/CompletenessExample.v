(* Raft/CompletenessExample.v — non-vacuity of leader_completeness_quorum_sys: in the 2-node run of Raft/SMSafetyExample.v node 1
   is leader of term 2 and entry (index 2, term 2) is acknowledged by both nodes; then node 2 times out, campaigns for term
   3, node 1 grants its vote (canGrantVote: node 2's log is as up-to-date) and node 2 becomes leader of term 3 — a leader
   change after which the new leader holds the quorum-acknowledged entry. *)
From Coq Require Import List NArith ZArith Bool Lia.
From BLB Require Import Lib.LTS Raft.Core Raft.Wire Raft.Election Raft.ElectionExample Raft.NodeConf Raft.ElectionFixed
  Raft.LogMatchLists Raft.LogMatchNode Raft.LogMatch Raft.LogMatchExample Raft.SMSafetyExample Raft.CompletenessVote.
Import ListNotations.
Open Scope N_scope.

Definition c1 := apply_step l13 2 ETick 0.
Definition c2 := apply_step c1 2 ETick 0.
Definition c3 := apply_step c2 2 ETick 0.                    (* node 2 campaigns for term 3 *)
Definition mc3 := Eval vm_compute in nthmsg c3 9.            (* VoteReq 2 2 *)
Definition c4 := apply_step c3 1 (EDeliver mc3) 0.           (* node 1 steps down and grants *)
Definition mc4 := Eval vm_compute in nthmsg c4 10.
Definition c5 := apply_step c4 2 (EDeliver mc4) 0.           (* node 2 leader of term 3 *)

Definition lc_sched2 : list sys_event :=
  [(2, EDeliver m12, 0); (2, ETick, 0); (2, ETick, 0); (2, ETick, 0); (1, EDeliver mc3, 0); (2, EDeliver mc4, 0)].

Example leader_completeness_nonvacuous :
  exists σ0 σ1 σ2 sched1 sched2 a b e,
    linit σ0 /\
    run sys sys_event (lstep (length (sy_nodes σ0)) [1; 2] 5) σ0 sched1 σ1 /\
    run sys sys_event (lstep (length (sy_nodes σ0)) [1; 2] 5) σ1 sched2 σ2 /\
    In a (sy_nodes σ1) /\ n_role a = Leader /\ nth_error (p_log (n_p a)) (2 - 1) = Some e /\ e_term e = p_term (n_p a) /\
    (exists Q, NoDup Q /\ quorum_of (map n_id (sy_nodes σ1)) <= N.of_nat (length Q) /\
               forall v, In v Q ->
                 v = n_id a \/
                 exists m idx h, In m (sy_soup σ1) /\ m_from m = v /\ m_term m = p_term (n_p a) /\
                                 m_body m = AppEntsResp true idx h /\ (2 <= N.to_nat idx)%nat) /\
    In b (sy_nodes σ2) /\ n_role b = Leader /\ p_term (n_p a) < p_term (n_p b) /\ n_id a <> n_id b.
Proof.
  exists l0, l12, c5, sm_sched1, lc_sched2, (nth 0 (sy_nodes l12) (mk_node 1)), (nth 1 (sy_nodes c5) (mk_node 1)),
    {| e_term := 2; e_index := 2; e_type := EntryNormal; e_pl := [42%Z] |}.
  split; [| split; [| split]].
  - split.
    + unfold sinit2. split; [| split; [| auto]].
      * simpl. constructor; [simpl; intros [H | []]; discriminate | constructor; [simpl; tauto | constructor]].
      * intros s [H | [H | []]]; subst s; (split; [vm_compute; discriminate|]; split; [reflexivity|]);
          unfold sok, pok; vm_compute; repeat split; auto.
    + intros s [H | [H | []]]; subst s; vm_compute; auto.
  - change (length (sy_nodes l0)) with 2%nat. unfold sm_sched1, lm_sched. simpl app.
    apply run_cons with (s1 := l1); [lstep_plain; repeat split; auto|].
    apply run_cons with (s1 := l2); [lstep_plain|].
    apply run_cons with (s1 := l3); [lstep_plain|].
    apply run_cons with (s1 := l4); [lstep_deliver|].
    apply run_cons with (s1 := l5); [lstep_deliver|].
    apply run_cons with (s1 := l6); [lstep_plain; constructor; [unfold eok; vm_compute; exact Logic.I | constructor]|].
    apply run_cons with (s1 := l7); [lstep_deliver|].
    apply run_cons with (s1 := l8); [lstep_deliver|].
    apply run_cons with (s1 := l9); [lstep_deliver|].
    apply run_cons with (s1 := l10); [lstep_deliver|].
    apply run_cons with (s1 := l11); [lstep_deliver|].
    apply run_cons with (s1 := l12); [lstep_deliver|].
    apply run_nil.
  - change (length (sy_nodes l0)) with 2%nat. unfold lc_sched2.
    apply run_cons with (s1 := l13); [lstep_deliver|].
    apply run_cons with (s1 := c1); [lstep_plain|].
    apply run_cons with (s1 := c2); [lstep_plain|].
    apply run_cons with (s1 := c3); [lstep_plain|].
    apply run_cons with (s1 := c4); [lstep_deliver|].
    apply run_cons with (s1 := c5); [lstep_deliver|].
    apply run_nil.
  - split; [vm_compute; auto|]. split; [vm_compute; reflexivity|]. split; [vm_compute; reflexivity|].
    split; [vm_compute; reflexivity|]. split.
    + exists [1; 2]. split; [constructor; [simpl; intros [H | []]; discriminate | constructor; [simpl; tauto | constructor]]|].
      split; [vm_compute; discriminate|].
      intros v [Hv | [Hv | []]]; subst v.
      * left. vm_compute. reflexivity.
      * right. exists m10, 2, 0. split; [vm_compute; tauto|]. split; [reflexivity|]. split; [vm_compute; reflexivity|].
        split; [reflexivity | vm_compute; lia].
    + split; [vm_compute; auto|]. split; [vm_compute; reflexivity|]. split; [vm_compute; reflexivity|]. vm_compute. discriminate.
Qed.
