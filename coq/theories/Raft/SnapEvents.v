(* Raft/SnapEvents.v — round 5: the two events that change the ghost prefix of a node, at node level.
   SnapshotDone (fsmSnapshotDone: commit the snapshot of an applied position, trim the log), with a crash after either
   durable write followed by newCore: the logical log does not change, the ghost prefix grows by what was trimmed. *)
From Coq Require Import List NArith ZArith Bool Lia ZifyN ZifyNat ZifyBool.
From BLB Require Import Lib.LTS Raft.Core Raft.Wire Raft.NodeProofs Raft.NodeKeep Raft.NodeElect Raft.NodeConf Raft.Election Raft.ElectionFixed
  Raft.LogMatchLists Raft.CommitCount Raft.LogMatchNode Raft.LogMatch Raft.SMSafetyNode Raft.SnapContig Raft.LogMatchNodeS Raft.SnapVirtual.
Import ListNotations.
Open Scope N_scope.

(* the metadata names an applied position of the logical log *)
Definition legitS (C : list entry) (s : node) (m : snapmeta) : Prop :=
  1 <= sn_index m /\ sn_index m <= n_commit s /\ sn_index m <= N.of_nat (length (C ++ p_log (n_p s))) /\
  term_at (C ++ p_log (n_p s)) (sn_index m) (sn_term m).

Definition sd_out (C : list entry) (s0 : node) (r : R node) : Prop :=
  match r with
  | Ret x => exists C', C' ++ p_log (n_p x) = C ++ p_log (n_p s0) /\ shape C' (n_p x) (n_commit s0) /\
                        same_pv (n_p s0) (n_p x) /\ vols s0 x
  | Crashed p => exists C', C' ++ p_log p = C ++ p_log (n_p s0) /\ shape C' p (n_commit s0) /\ same_pv (n_p s0) p
  | Fatal _ => True
  end.

Lemma snapshot_done_out C s0 m :
  shape C (n_p s0) (n_commit s0) ->
  (match p_snap (n_p s0) with Some cur => sn_index m <=? sn_index cur | None => false end = false -> legitS C s0 m) ->
  sd_out C s0 (snapshot_done s0 m).
Proof.
  intros Sh Lg. unfold snapshot_done.
  destruct (match p_snap (n_p s0) with Some cur => sn_index m <=? sn_index cur | None => false end) eqn:En.
  { simpl. exists C. split; [reflexivity|]. split; [exact Sh|]. split; [apply same_pv_refl | apply vols_refl]. }
  destruct (Lg eq_refl) as [L1 [L2 [L3 L4]]].
  assert (HC : N.of_nat (length C) <= sn_index m).
  { pose proof Sh as [_ Sx]. destruct (p_snap (n_p s0)) as [cur |].
    - apply N.leb_gt in En. lia.
    - rewrite Sx. simpl. lia. }
  set (p1 := apply_mut (n_p s0) (MSnapCommit m)).
  assert (Sh1 : shape C p1 (n_commit s0)) by (apply shape_snap; auto).
  assert (Pv1 : same_pv (n_p s0) p1) by (unfold same_pv, p1; simpl; auto).
  destruct (do_mut_cases (MSnapCommit m) s0) as [E | E]; rewrite E; cbv beta iota delta [bind].
  { simpl. exists C. split; [reflexivity|]. split; [exact Sh1 | exact Pv1]. }
  match goal with |- context [trim_log ?x _] => set (s1 := x) end.
  assert (Hs1 : sd_out C s0 (Ret s1)).
  { simpl. exists C. split; [reflexivity|]. split; [exact Sh1|]. split; [exact Pv1 | unfold vols; simpl; repeat split; reflexivity]. }
  unfold trim_log. change (p_log (n_p s1)) with (p_log (n_p s0)).
  destruct (shape_phys _ _ _ Sh) as [_ Wp].
  destruct (log_first (p_log (n_p s0))) as [fi |] eqn:Ef; [| exact Hs1].
  destruct (log_last (p_log (n_p s0))) as [li |] eqn:El; [| exact Hs1].
  assert (Hne : p_log (n_p s0) <> []) by (intro X; rewrite X in Ef; discriminate).
  rewrite (log_first_wf _ _ Wp Hne) in Ef. assert (Efi : fi = 1 + N.of_nat (length C)) by congruence. subst fi.
  destruct (sn_index m =? 1 + N.of_nat (length C) - 1); [exact Hs1|].
  destruct ((sn_index m <? 1 + N.of_nat (length C)) || (li <? sn_index m)) eqn:Eo; [exact Logic.I|].
  apply orb_false_iff in Eo. destruct Eo as [Eo1 _]. apply N.ltb_ge in Eo1.
  destruct (sn_index m - (1 + N.of_nat (length C)) <? cf_keep (n_cfg s1)) eqn:Ek; [exact Hs1|]. apply N.ltb_ge in Ek.
  set (u := sn_index m - cf_keep (n_cfg s1)).
  assert (Hu1 : u <= sn_index m) by (unfold u; lia).
  assert (Hu2 : N.of_nat (length C) <= u) by (unfold u; lia).
  destruct (shape_trim C p1 (n_commit s0) m u Sh1 eq_refl Hu1 Hu2) as [HL Sh2].
  set (n := N.to_nat (u - N.of_nat (length C))) in *.
  change (p_log p1) with (p_log (n_p s0)) in HL, Sh2.
  assert (Pv2 : same_pv (n_p s0) (apply_mut p1 (MTrim u))) by (unfold same_pv; simpl; auto).
  destruct (do_mut_cases (MTrim u) s1) as [E2 | E2]; rewrite E2.
  - simpl. exists (C ++ firstn n (p_log (n_p s0))). split; [exact HL|]. split; [exact Sh2 | exact Pv2].
  - simpl. exists (C ++ firstn n (p_log (n_p s0))). split; [exact HL|]. split; [exact Sh2|]. split; [exact Pv2 | unfold vols; simpl; repeat split; reflexivity].
Qed.

Lemma commit_up_to_log s i s1 : commit_up_to s i = Ret s1 -> p_log (n_p s1) = p_log (n_p s).
Proof.
  unfold commit_up_to.
  match goal with |- (match ?x with _ => _ end) = _ -> _ => destruct x as [m |] end.
  - destruct (negb (sn_index m =? i)); [discriminate|]. intro H. inversion H. reflexivity.
  - destruct (log_entries (n_p s) (n_commit s + 1) (i + 1)) as [ents | |]; simpl; try discriminate.
    match goal with |- (if ?c then _ else _) = _ -> _ => destruct c end.
    + match goal with |- (match ?x with _ => _ end) = _ -> _ => destruct x end; [| discriminate].
      unfold do_mut. match goal with |- (if ?c then _ else _) = _ -> _ => destruct c end; [discriminate|].
      intro H. inversion H. reflexivity.
    + intro H. inversion H. reflexivity.
Qed.

Lemma new_core_log C' id cfg p cm z : shape C' p cm -> new_core id cfg p = Ret z -> p_log (n_p z) = p_log p.
Proof.
  intros Sh. unfold new_core. rewrite (reconcile_keep C' id cfg p cm Sh). cbv beta iota delta [bind]. simpl n_p.
  destruct (p_snap p) as [mm |].
  - destruct (commit_up_to _ (sn_index mm)) as [y | |] eqn:Ey; simpl; try discriminate.
    apply commit_up_to_log in Ey. intro H. inversion H. simpl. rewrite Ey. reflexivity.
  - simpl. intro H. inversion H. reflexivity.
Qed.

(* ---------------------------------------------------------------- SnapshotDone as an abstract step of the virtual node *)
Definition rtF (idx t : N) : Prop := False.

Lemma fake_initial C C' s0 lg' :
  C' ++ lg' = C ++ p_log (n_p s0) ->
  vn C' (upd_p s0 (set_log (n_p s0) lg') (n_cnt s0) (n_muts s0)) = vn C s0.
Proof. intro H. unfold vn, vp, upd_p, set_log. simpl. rewrite H. reflexivity. Qed.

Theorem snapdone_nstep C s m k crashed st s' :
  base (vn C s) -> shape C (n_p s) (n_commit s) ->
  (match p_snap (n_p s) with Some cur => sn_index m <=? sn_index cur | None => false end = false -> legitS C s m) ->
  run_event_crash (settle s) (ESnapDone m) k = Ret (crashed, st, s') ->
  exists C', C' ++ p_log (n_p s') = C ++ p_log (n_p s) /\ shape C' (n_p s') (n_commit s') /\
             nstep (vn C s) ETick k (vn C' s').
Proof.
  intros Hb Sh Lg Hrun.
  destruct (step_facts _ _ _ _ _ _ Hrun) as [Hid [Hpx [Hm Hs]]].
  assert (Hrest : forall C', inv (with_budget (settle (vn C s)) k) (inp_of ETick) (boot_of ETick) (rt_of ETick) (vq_of ETick)
                               (lq_of (vn C s)) (dc_of ETick) (rsp_of ETick) (vn C' s') -> nstep (vn C s) ETick k (vn C' s')).
  { intros C' NI. constructor; auto.
    - apply msgs_ok_vn. exact Hm.
    - intros m0 E. discriminate. }
  revert Hrun. unfold run_event_crash. set (s0 := with_budget (settle s) k).
  assert (Sh0 : shape C (n_p s0) (n_commit s0)) by exact Sh.
  assert (Lg0 : match p_snap (n_p s0) with Some cur => sn_index m <=? sn_index cur | None => false end = false -> legitS C s0 m) by exact Lg.
  pose proof (snapshot_done_out C s0 m Sh0 Lg0) as Out.
  simpl run_event. unfold wrap0.
  set (v0 := with_budget (settle (vn C s)) k).
  assert (Hb0 : base v0) by (unfold base in *; simpl; exact Hb).
  assert (I0 : inv v0 None None (rt_of ETick) (vq_of ETick) (lq_of (vn C s)) (dc_of ETick) (rsp_of ETick) v0).
  { apply inv_start; [exact Hb0 | reflexivity]. }
  destruct (snapshot_done s0 m) as [x | c | p]; simpl in Out |- *; try discriminate.
  - destruct Out as [C' [HL [Sh' [Pv [V1 [V2 [V3 [V4 [V5 [V6 V7]]]]]]]]]].
    intro H. inversion H. subst. exists C'. split; [exact HL|]. split; [simpl; rewrite V5; exact Sh'|].
    apply Hrest. simpl inp_of. simpl boot_of.
    destruct Pv as [P1 [P2 [P3 P4]]].
    eapply inv_frame with (s := v0); [exact I0 | | | | | | | | |].
    + simpl. exact HL.
    + reflexivity.
    + simpl. exact P1.
    + left. simpl. exact V3.
    + left. simpl. exact V4.
    + simpl. exact V5.
    + simpl. exact V6.
    + simpl. exact V1.
    + exists []. simpl. rewrite V7. split; [reflexivity|]. split; [constructor|]. split; [left; constructor | constructor].
  - destruct Out as [C' [HL [Sh' [P1 [P2 [P3 P4]]]]]].
    set (f0 := upd_p s0 (set_log (n_p s0) (p_log p)) (n_cnt s0) (n_muts s0)).
    assert (Hf : vn C' f0 = vn C s0) by (apply fake_initial; exact HL).
    assert (Hq : forall t, p_term (n_p (vn C' f0)) < t -> lq_of (vn C s) (p_log (n_p (vn C' f0))) t).
    { rewrite Hf. intros t Ht. split; [reflexivity | exact Ht]. }
    assert (PS : pS C' f0 None None p).
    { split.
      - pose proof Hb as [_ [_ [Bn1 _]]]. constructor.
        + reflexivity.
        + apply (proj1 Sh').
        + simpl. rewrite HL. destruct Bn1 as [[X _] | X]; [left; exact X | right; rewrite P1; exact X].
        + simpl. rewrite P1. apply N.le_refl.
        + unfold LR. cbv zeta. left. reflexivity.
      - exists (n_commit s0). split; [exact Sh' | apply N.le_refl]. }
    pose proof (postS_new_core C' f0 None None (rt_of ETick) (vq_of ETick) (lq_of (vn C s)) Hq (dc_of ETick) (rsp_of ETick)
                  (n_id s) (n_cfg s) p PS) as Q.
    destruct (new_core (n_id s) (n_cfg s) p) as [z | |] eqn:En; simpl in *; try discriminate.
    intro H. inversion H. subst. destruct Q as [Iz Sz].
    assert (HLz : C' ++ p_log (n_p s') = C ++ p_log (n_p s)).
    { rewrite (new_core_log C' (n_id s) (n_cfg s) p (n_commit s0) s' Sh' En). exact HL. }
    exists C'. split; [exact HLz|]. split.
    + apply (shape_cm C' (n_p s') (cmS f0 s')); [exact Sz|]. intros mm Hmm. destruct Sz as [_ S2]. rewrite Hmm in S2. unfold cmS in S2. lia.
    + apply Hrest. rewrite Hf in Iz. exact Iz.
Qed.

(* ---------------------------------------------------------------- InstallSnapshot delivery as an abstract step of the virtual node *)
Lemma esum_other s s' m om' : esum s s' (Some m) -> m_body m <> VoteResp true -> esum s s' om'.
Proof.
  intros H Hb Hr. destruct (H Hr) as [A [B D]]. split; [| split; [exact B | exact D]].
  intros v Hv. destruct (A v Hv) as [X | [X | [m0 [E [Y _]]]]]; [left; exact X | right; left; exact X|].
  inversion E. subst m0. contradiction.
Qed.

Theorem install_nstep C s m li lt cf Cs k crashed st s' :
  base (vn C s) -> shape C (n_p s) (n_commit s) -> m_body m = InstallSnap li lt cf ->
  (p_term (n_p s) <= m_term m -> premV C (with_budget (settle (vn C s)) k) (n_p s) (m_term m) Cs li lt) ->
  run_event_crash (settle s) (EDeliver m) k = Ret (crashed, st, s') ->
  exists C', nstep (vn C s) (EDeliver (vmsg m Cs li)) k (vn C' s') /\ shape C' (n_p s') (n_commit s') /\
             incl C' (C ++ p_log (n_p s) ++ Cs).
Proof.
  intros Hb Sh Hbody Hp Hrun.
  destruct (install_snapshot_lm_S C s m li lt cf Cs k crashed st s' Hb Sh Hbody Hp Hrun) as [C' [NI [Sh' Hi']]].
  exists C'. split; [| split; [exact Sh' | exact Hi']].
  destruct (step_facts _ _ _ _ _ _ Hrun) as [Hid [Hpx [Hm Hs]]].
  constructor.
  - exact Hid.
  - exact Hpx.
  - apply msgs_ok_vn. exact Hm.
  - simpl in Hs. simpl. eapply esum_other; [exact Hs|]. rewrite Hbody. discriminate.
  - intros m0 Em. inversion Em. subst m0. destruct (deliver_term _ _ _ _ _ _ Hrun) as [D | D]; [left; simpl; rewrite D; reflexivity | right; exact D].
  - exact NI.
Qed.

(* ---------------------------------------------------------------- nothing is handed to the state machine by SnapshotDone or by
   a completed InstallSnapshot delivery (the commit index moves by "restore", without entries) *)
Lemma do_mut_c m s x : do_mut m s = Ret x -> n_commits x = n_commits s /\ n_commit x = n_commit s /\ n_p x = apply_mut (n_p s) m.
Proof.
  unfold do_mut. destruct (negb (n_budget s =? 0) && (n_budget s =? n_cnt s + 1)); [discriminate|]. intro H. inversion H. simpl. auto.
Qed.

Lemma trim_log_c s i x : trim_log s i = Ret x -> n_commits x = n_commits s /\ n_commit x = n_commit s /\ p_snap (n_p x) = p_snap (n_p s).
Proof.
  unfold trim_log. destruct (log_first (p_log (n_p s))); [| intro H; inversion H; auto].
  destruct (log_last (p_log (n_p s))); [| intro H; inversion H; auto].
  destruct (i =? n - 1); [intro H; inversion H; auto|]. destruct ((i <? n) || (n0 <? i)); [discriminate|].
  destruct (i - n <? cf_keep (n_cfg s)); [intro H; inversion H; auto|].
  intro H. apply do_mut_c in H. destruct H as [A [B D]]. rewrite A, B, D. simpl. auto.
Qed.

Lemma snapshot_done_c s m x : snapshot_done s m = Ret x -> n_commits x = n_commits s.
Proof.
  unfold snapshot_done. match goal with |- (if ?c then _ else _) = _ -> _ => destruct c end; [intro H; inversion H; reflexivity|].
  destruct (do_mut (MSnapCommit m) s) as [s1 | |] eqn:E; simpl; try discriminate. apply do_mut_c in E. destruct E as [A _].
  intro H. apply trim_log_c in H. destruct H as [B _]. congruence.
Qed.

Lemma handle_snapshot_c s from li lt c x : handle_snapshot s from li lt c = Ret x -> n_commits x = n_commits s.
Proof.
  unfold handle_snapshot. set (sc := set_follower_contact s).
  match goal with |- (match ?y with _ => _ end) = _ -> _ => destruct y end; [intro H; inversion H; reflexivity|].
  set (M := {| sn_index := li; sn_term := lt; sn_conf := Some c |}).
  destruct (do_mut (MSnapCommit M) sc) as [s1 | |] eqn:E1; simpl; try discriminate. apply do_mut_c in E1. destruct E1 as [A1 [B1 P1]].
  change (n_commits sc) with (n_commits s) in A1.
  destruct (in_log (n_p s1) li lt) as [il | |]; simpl; try discriminate.
  assert (H2 : forall s2, (if il then trim_log s1 li else s' <- do_mut (MTruncate 0) s1;; Ret (set_conf s' (Some c))) = Ret s2 ->
             n_commits s2 = n_commits s1 /\ p_snap (n_p s2) = Some M).
  { intros s2. destruct il.
    - intro H. apply trim_log_c in H. destruct H as [X [_ Z]]. split; [exact X|]. rewrite Z, P1. reflexivity.
    - destruct (do_mut (MTruncate 0) s1) as [y | |] eqn:E2; simpl; try discriminate. apply do_mut_c in E2. destruct E2 as [X [_ Z]].
      intro H. inversion H. subst. simpl. split; [exact X|]. rewrite Z, P1. reflexivity. }
  destruct (if il then trim_log s1 li else s' <- do_mut (MTruncate 0) s1;; Ret (set_conf s' (Some c))) as [s2 | |]; simpl; try discriminate.
  destruct (H2 s2 eq_refl) as [A2 S2].
  destruct (n_commit s2 <? li) eqn:E3.
  - unfold commit_up_to. rewrite S2. simpl. rewrite E3. rewrite N.eqb_refl. simpl. intro H. inversion H. simpl. congruence.
  - simpl. intro H. inversion H. simpl. congruence.
Qed.

Lemma handle_msg_install_c s m li lt c x :
  m_body m = InstallSnap li lt c -> handle_msg s m = Ret x -> n_commits x = n_commits s.
Proof.
  intro Hb. unfold handle_msg.
  match goal with |- (if ?c then _ else _) = _ -> _ => destruct c end; [intro H; inversion H; reflexivity|].
  match goal with |- (if ?c then _ else _) = _ -> _ => destruct c end; [intro H; inversion H; reflexivity|].
  match goal with |- bind ?a _ = _ -> _ => destruct a as [s1 | |] eqn:E1 end; simpl; try discriminate.
  assert (A1 : n_commits s1 = n_commits s).
  { destruct (guid_get (m_from m) (p_guids (n_p s)) =? 0); [apply do_mut_c in E1; tauto | inversion E1; reflexivity]. }
  match goal with |- (if ?c then _ else _) = _ -> _ => destruct c end; [intro H; inversion H; congruence|].
  destruct (m_term m <? p_term (n_p s1)); [intro H; inversion H; congruence|].
  assert (Hrole : forall s2, n_commits s2 = n_commits s -> handle_by_role s2 m = Ret x -> n_commits x = n_commits s).
  { intros s2 A2. unfold handle_by_role. destruct (n_role s2).
    - unfold handle_follower. rewrite Hb.
      destruct (follower_note_leader s2 (m_from m)) as [s3 | |] eqn:E3; simpl; try discriminate.
      apply SMSafetyNode.follower_note_leader_commits in E3. intro H. apply handle_snapshot_c in H. congruence.
    - unfold handle_candidate. rewrite Hb. intro H. inversion H. simpl. exact A2.
    - unfold handle_leader. rewrite Hb. discriminate. }
  destruct (p_term (n_p s1) <? m_term m).
  - rewrite Hb. destruct (do_mut (MSaveState (m_from m) (m_term m)) s1) as [s' | |] eqn:E2; simpl; try discriminate.
    apply do_mut_c in E2. destruct E2 as [X _]. apply Hrole. simpl. congruence.
  - simpl. apply Hrole. exact A1.
Qed.

Theorem applied_in_own_log_snap s ev k crashed st s' :
  (match ev with
   | ESnapDone _ => True
   | EDeliver m => exists li lt c, m_body m = InstallSnap li lt c
   | _ => False
   end) ->
  run_event_crash (settle s) ev k = Ret (crashed, st, s') ->
  forall x, In x (n_commits s') -> In x (p_log (n_p s')).
Proof.
  intros Hev. unfold run_event_crash. set (s0 := with_budget (settle s) k).
  destruct (run_event s0 ev) as [[st0 y] | c | p] eqn:E; try discriminate.
  - intro H. inversion H. subst. simpl. assert (Hy : n_commits y = []).
    { destruct ev; try contradiction; simpl in E; unfold wrap0 in E.
      - destruct Hev as [li [lt [c Hb]]]. destruct (handle_msg s0 m) as [z | |] eqn:Ez; simpl in E; try discriminate.
        inversion E. subst. apply (handle_msg_install_c s0 m li lt c y Hb Ez).
      - destruct (snapshot_done s0 m) as [z | |] eqn:Ez; simpl in E; try discriminate. inversion E. subst.
        apply (snapshot_done_c s0 m y Ez). }
    rewrite Hy. intros x [].
  - simpl. destruct (new_core (n_id s) (n_cfg s) p) as [z | |] eqn:En; simpl; try discriminate.
    intro H. inversion H. subst. apply (SMSafetyNode.new_core_commits _ _ _ _ En).
Qed.
