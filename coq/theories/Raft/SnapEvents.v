(* Raft/SnapEvents.v — round 5: the two events that change the ghost prefix of a node, at node level.
   SnapshotDone (fsmSnapshotDone: commit the snapshot of an applied position, trim the log), with a crash after either
   durable write followed by newCore: the logical log does not change, the ghost prefix grows by what was trimmed. *)
From Coq Require Import List NArith ZArith Bool Lia ZifyN ZifyNat ZifyBool.
From BLB Require Import Raft.Core Raft.NodeProofs Raft.NodeKeep Raft.NodeElect Raft.LogMatchLists Raft.CommitCount Raft.LogMatchNode
  Raft.SnapContig Raft.LogMatchNodeS.
Import ListNotations.
Open Scope N_scope.

(* the metadata names an applied position of the logical log *)
Definition legitS (C : list entry) (s : node) (m : snapmeta) : Prop :=
  1 <= sn_index m /\ sn_index m <= n_commit s /\ sn_index m <= N.of_nat (length (C ++ p_log (n_p s))) /\
  term_at (C ++ p_log (n_p s)) (sn_index m) (sn_term m).

(* stores that agree on everything but the log / snapshot split *)
Definition same_pv (p p' : pstate) : Prop :=
  p_term p' = p_term p /\ p_vote p' = p_vote p /\ p_guid p' = p_guid p /\ p_guids p' = p_guids p.

Lemma shape_snap C p cm m :
  shape C p cm -> 1 <= sn_index m -> sn_index m <= cm -> sn_index m <= N.of_nat (length (C ++ p_log p)) ->
  term_at (C ++ p_log p) (sn_index m) (sn_term m) -> N.of_nat (length C) <= sn_index m ->
  shape C (apply_mut p (MSnapCommit m)) cm.
Proof.
  intros [W _] H1 H2 H3 H4 H5. unfold shape. simpl. split; [exact W|]. repeat split; auto.
Qed.

Lemma shape_trim C p cm m u :
  shape C p cm -> p_snap p = Some m -> u <= sn_index m -> N.of_nat (length C) <= u ->
  let n := N.to_nat (u - N.of_nat (length C)) in
  (C ++ firstn n (p_log p)) ++ p_log (apply_mut p (MTrim u)) = C ++ p_log p /\
  shape (C ++ firstn n (p_log p)) (apply_mut p (MTrim u)) cm.
Proof.
  intros Sh Es Hu Hc n. pose proof Sh as [W Sx]. rewrite Es in Sx. destruct Sx as [S1 [S2 [S3 [S4 S5]]]].
  destruct (shape_phys _ _ _ Sh) as [_ Wp].
  assert (Ht : mem_trim u (p_log p) = skipn n (p_log p)).
  { rewrite (mem_trim_from _ _ _ Wp). f_equal. unfold n. lia. }
  assert (Hn : (n <= length (p_log p))%nat) by (unfold n; rewrite app_length in S2; lia).
  assert (HL : (C ++ firstn n (p_log p)) ++ skipn n (p_log p) = C ++ p_log p) by (rewrite <- app_assoc, firstn_skipn; reflexivity).
  change (p_log (apply_mut p (MTrim u))) with (mem_trim u (p_log p)). rewrite Ht. split; [exact HL|].
  unfold shape. change (p_log (apply_mut p (MTrim u))) with (mem_trim u (p_log p)).
  change (p_snap (apply_mut p (MTrim u))) with (p_snap p). rewrite Ht, Es, HL. split; [exact W|].
  rewrite app_length, firstn_length, Nat.min_l by exact Hn. repeat split; auto. unfold n. lia.
Qed.

Definition vols (s0 x : node) : Prop :=
  n_id x = n_id s0 /\ n_cfg x = n_cfg s0 /\ n_role x = n_role s0 /\ n_conf x = n_conf s0 /\ n_commit x = n_commit s0 /\
  l_peers x = l_peers s0 /\ n_msgs x = n_msgs s0.

Lemma same_pv_refl p : same_pv p p.
Proof. unfold same_pv. auto. Qed.

Lemma vols_refl s : vols s s.
Proof. unfold vols. repeat split; reflexivity. Qed.

Definition sd_out (C : list entry) (s0 : node) (r : R node) : Prop :=
  match r with
  | Ret x => exists C', C' ++ p_log (n_p x) = C ++ p_log (n_p s0) /\ shape C' (n_p x) (n_commit s0) /\
                        same_pv (n_p s0) (n_p x) /\ vols s0 x
  | Crashed p => exists C', C' ++ p_log p = C ++ p_log (n_p s0) /\ shape C' p (n_commit s0) /\ same_pv (n_p s0) p
  | Fatal _ => True
  end.

Lemma snapshot_done_out C s0 m :
  shape C (n_p s0) (n_commit s0) -> legitS C s0 m -> sd_out C s0 (snapshot_done s0 m).
Proof.
  intros Sh [L1 [L2 [L3 L4]]]. unfold snapshot_done.
  destruct (match p_snap (n_p s0) with Some cur => sn_index m <=? sn_index cur | None => false end) eqn:En.
  { simpl. exists C. split; [reflexivity|]. split; [exact Sh|]. split; [apply same_pv_refl | apply vols_refl]. }
  assert (HC : N.of_nat (length C) <= sn_index m).
  { pose proof Sh as [_ Sx]. destruct (p_snap (n_p s0)) as [cur |].
    - apply N.leb_gt in En. lia.
    - rewrite Sx. simpl. lia. }
  set (p1 := apply_mut (n_p s0) (MSnapCommit m)).
  assert (Sh1 : shape C p1 (n_commit s0)) by (apply shape_snap; auto).
  assert (Pv1 : same_pv (n_p s0) p1) by (unfold same_pv, p1; simpl; auto).
  destruct (do_mut_cases (MSnapCommit m) s0) as [E | E]; rewrite E; cbv beta iota delta [bind].
  { simpl. exists C. split; [reflexivity|]. split; [exact Sh1 | exact Pv1]. }
  match goal with |- context [trim_log ?x _] => set (s1 := x) end.
  assert (Hs1 : sd_out C s0 (Ret s1)).
  { simpl. exists C. split; [reflexivity|]. split; [exact Sh1|]. split; [exact Pv1 | unfold vols; simpl; repeat split; reflexivity]. }
  unfold trim_log. change (p_log (n_p s1)) with (p_log (n_p s0)).
  destruct (shape_phys _ _ _ Sh) as [_ Wp].
  destruct (log_first (p_log (n_p s0))) as [fi |] eqn:Ef; [| exact Hs1].
  destruct (log_last (p_log (n_p s0))) as [li |] eqn:El; [| exact Hs1].
  assert (Hne : p_log (n_p s0) <> []) by (intro X; rewrite X in Ef; discriminate).
  rewrite (log_first_wf _ _ Wp Hne) in Ef. assert (Efi : fi = 1 + N.of_nat (length C)) by congruence. subst fi.
  destruct (sn_index m =? 1 + N.of_nat (length C) - 1); [exact Hs1|].
  destruct ((sn_index m <? 1 + N.of_nat (length C)) || (li <? sn_index m)) eqn:Eo; [exact Logic.I|].
  apply orb_false_iff in Eo. destruct Eo as [Eo1 _]. apply N.ltb_ge in Eo1.
  destruct (sn_index m - (1 + N.of_nat (length C)) <? cf_keep (n_cfg s1)) eqn:Ek; [exact Hs1|]. apply N.ltb_ge in Ek.
  set (u := sn_index m - cf_keep (n_cfg s1)).
  assert (Hu1 : u <= sn_index m) by (unfold u; lia).
  assert (Hu2 : N.of_nat (length C) <= u) by (unfold u; lia).
  destruct (shape_trim C p1 (n_commit s0) m u Sh1 eq_refl Hu1 Hu2) as [HL Sh2].
  set (n := N.to_nat (u - N.of_nat (length C))) in *.
  change (p_log p1) with (p_log (n_p s0)) in HL, Sh2.
  assert (Pv2 : same_pv (n_p s0) (apply_mut p1 (MTrim u))) by (unfold same_pv; simpl; auto).
  destruct (do_mut_cases (MTrim u) s1) as [E2 | E2]; rewrite E2.
  - simpl. exists (C ++ firstn n (p_log (n_p s0))). split; [exact HL|]. split; [exact Sh2 | exact Pv2].
  - simpl. exists (C ++ firstn n (p_log (n_p s0))). split; [exact HL|]. split; [exact Sh2|]. split; [exact Pv2 | unfold vols; simpl; repeat split; reflexivity].
Qed.
