(* Raft/LeaderSuffixExample.v — non-vacuity of leader_commits_own_suffix: node 1 of the run of Raft/SMSafetyExample.v (leader
   of term 2, everything committed) proposes one command, a tick passes, and the follower's acknowledgement arrives: the
   loop hypotheses hold and the committed list is the non-empty prefix [entry 3] of the proposed list. *)
From Coq Require Import List NArith ZArith Bool Lia.
From BLB Require Import Lib.LTS Raft.Core Raft.Wire Raft.Election Raft.ElectionExample Raft.LogMatchLists Raft.LogMatch
  Raft.LogMatchExample Raft.SMSafetyExample Raft.LeaderSuffix.
Import ListNotations.
Open Scope N_scope.

Definition e3 : entry := {| e_term := 0; e_index := 0; e_type := EntryNormal; e_pl := [43%Z] |}.
Definition l14 := apply_step l13 1 (EPropose [e3]) 0.
Definition m14 := Eval vm_compute in nthmsg l14 9.
Definition l15 := apply_step l14 2 (EDeliver m14) 0.
Definition m15 := Eval vm_compute in nthmsg l15 10.          (* AppEntsResp true 3 *)

Definition ldr0 : node := Eval vm_compute in nth 0 (sy_nodes l13) (mk_node 1).
Definition step_node (s : node) (ev : event) : node :=
  match run_event (settle s) ev with Ret (_, s') => s' | _ => s end.
Definition ldr1 : node := Eval vm_compute in step_node ldr0 (EPropose [e3]).
Definition ldr2 : node := Eval vm_compute in step_node ldr1 ETick.
Definition ldr3 : node := Eval vm_compute in step_node ldr2 (EDeliver m15).

Lemma loop_step_exec st ev code s' :
  loop_event ev -> run_event (settle (lp_node st)) ev = Ret (code, s') ->
  n_role s' = Leader -> p_term (n_p s') = p_term (n_p (lp_node st)) ->
  loop_step st ev {| lp_node := s'; lp_prop := lp_prop st ++ proposed_by (lp_node st) ev; lp_comm := lp_comm st ++ n_commits s' |}.
Proof. intros. econstructor; eauto. Qed.

Example leader_suffix_nonvacuous :
  exists s0 evs st,
    loop_start s0 /\ loop_run {| lp_node := s0; lp_prop := []; lp_comm := [] |} evs st /\
    lp_comm st = [{| e_term := 2; e_index := 3; e_type := EntryNormal; e_pl := [43%Z] |}] /\
    lp_prop st = lp_comm st /\ length evs = 3%nat.
Proof.
  exists ldr0, [EPropose [e3]; ETick; EDeliver m15].
  eexists. split; [| split].
  - unfold loop_start. split; [reflexivity|]. split; [reflexivity|]. split; [simpl; auto | reflexivity].
  - eapply loop_cons.
    { apply (loop_step_exec _ (EPropose [e3]) 0 ldr1); [exact I | vm_compute; reflexivity | reflexivity | reflexivity]. }
    eapply loop_cons.
    { apply (loop_step_exec _ ETick 0 ldr2); [exact I | vm_compute; reflexivity | reflexivity | reflexivity]. }
    eapply loop_cons.
    { apply (loop_step_exec _ (EDeliver m15) 0 ldr3); [exact I | vm_compute; reflexivity | reflexivity | reflexivity]. }
    apply loop_nil.
  - vm_compute. auto.
Qed.
