(* Raft/NodeProofs.v — node-level facts about every handler of Raft/Core.v, for all inputs and all outcomes
   (completed, Fatal, crashed after any durable mutation):
     pext : the durable term never decreases, and within a term a vote once cast is never changed;
            the node's own GUID is never rewritten.
   These are the "step summaries" the system-level proofs (Raft/Election.v) are built on. *)
From Coq Require Import List NArith ZArith Bool Lia.
From BLB Require Import Raft.Core.
Import ListNotations.
Open Scope N_scope.

(* ---------------------------------------------------------------- the relation on persistent states *)
Definition pext (p p' : pstate) : Prop :=
  p_term p <= p_term p' /\
  (p_term p' = p_term p -> p_vote p = 0 \/ p_vote p' = p_vote p) /\
  p_guid p' = p_guid p.

Lemma pext_refl p : pext p p.
Proof. unfold pext. repeat split; auto; try lia. Qed.

Lemma pext_trans p q r : pext p q -> pext q r -> pext p r.
Proof.
  unfold pext. intros [A [B C]] [D [E F]]. repeat split; try lia; try congruence.
Qed.

Definition frame (s s' : node) : Prop := n_id s' = n_id s /\ n_cfg s' = n_cfg s /\ n_budget s' = n_budget s.

Lemma frame_refl s : frame s s. Proof. unfold frame; auto. Qed.
Lemma frame_trans a b c : frame a b -> frame b c -> frame a c.
Proof. unfold frame. intros [A [B C]] [D [E F]]. repeat split; congruence. Qed.

Definition rext (s : node) (r : R node) : Prop :=
  match r with
  | Ret s' => pext (n_p s) (n_p s') /\ frame s s'
  | Fatal _ => True
  | Crashed p => pext (n_p s) p
  end.

Definition pure {A} (r : R A) : Prop := match r with Crashed _ => False | _ => True end.

Lemma rext_ret_same s s' : n_p s' = n_p s -> frame s s' -> rext s (Ret s').
Proof. intros H F. simpl. rewrite H. split; auto using pext_refl. Qed.

Lemma rext_bind s (a : R node) (f : node -> R node) :
  rext s a -> (forall s1, frame s s1 -> rext s1 (f s1)) -> rext s (bind a f).
Proof.
  intros Ha Hf. destruct a as [s1 | c | p]; simpl in *; auto.
  destruct Ha as [Hp Hfr]. specialize (Hf s1 Hfr). destruct (f s1) as [s2 | c | p]; simpl in *; auto.
  - destruct Hf. split; eauto using pext_trans, frame_trans.
  - eauto using pext_trans.
Qed.

Lemma rext_bind_pure {A} s (a : R A) (f : A -> R node) :
  pure a -> (forall x, a = Ret x -> rext s (f x)) -> rext s (bind a f).
Proof. intros Hp Hf. destruct a; simpl in *; auto. contradiction. Qed.

Lemma pure_bind {A B} (a : R A) (f : A -> R B) : pure a -> (forall x, pure (f x)) -> pure (bind a f).
Proof. intros Ha Hf. destruct a; simpl in *; auto. Qed.

(* pairs returned by the API-level functions *)
Definition rext2 (s : node) (r : R (N * node)) : Prop :=
  match r with
  | Ret (_, s') => pext (n_p s) (n_p s') /\ frame s s'
  | Fatal _ => True
  | Crashed p => pext (n_p s) p
  end.

Lemma rext2_bind s (a : R node) (f : node -> R (N * node)) :
  rext s a -> (forall s1, frame s s1 -> rext2 s1 (f s1)) -> rext2 s (bind a f).
Proof.
  intros Ha Hf. destruct a as [s1 | c | p]; simpl in *; auto.
  destruct Ha as [Hp Hfr]. specialize (Hf s1 Hfr). destruct (f s1) as [[st s2] | c | p]; simpl in *; auto.
  - destruct Hf. split; eauto using pext_trans, frame_trans.
  - eauto using pext_trans.
Qed.

Lemma rext2_bind_pure {A} s (a : R A) (f : A -> R (N * node)) :
  pure a -> (forall x, a = Ret x -> rext2 s (f x)) -> rext2 s (bind a f).
Proof. intros Hp Hf. destruct a; simpl in *; auto. contradiction. Qed.

(* ---------------------------------------------------------------- purity of the read-only functions *)
Lemma pure_entries_loop l e n : pure (entries_loop l e n).
Proof.
  revert e. induction l as [| x r IH]; intros e; simpl; auto.
  destruct (negb (e_index x =? e)); simpl; auto.
  destruct (n <=? e_index x); simpl; auto.
  apply pure_bind; auto. intros; simpl; auto.
Qed.

Lemma pure_log_entries p b e : pure (log_entries p b e).
Proof. apply pure_entries_loop. Qed.

Lemma pure_log_term p i : pure (log_term p i).
Proof. unfold log_term. apply pure_bind; [apply pure_log_entries|]. intros [|x r]; simpl; auto. Qed.

Lemma pure_st_term p i : pure (st_term p i).
Proof.
  unfold st_term. destruct (last_index p <? i); simpl; auto. destruct (i =? 0); simpl; auto.
  assert (H : pure (match p_snap p with
                    | Some m => if sn_index m =? i then Ret (sn_term m, true) else Ret (0, false)
                    | None => Fatal F_NO_SNAPSHOT end)).
  { destruct (p_snap p); simpl; auto. destruct (sn_index s =? i); simpl; auto. }
  destruct (log_first (p_log p)); auto. destruct (n <=? i); auto.
  apply pure_bind; [apply pure_log_term|]. intros; simpl; auto.
Qed.

Lemma pure_in_log p i t : pure (in_log p i t).
Proof.
  unfold in_log. destruct (log_first (p_log p)); simpl; auto. destruct (log_last (p_log p)); simpl; auto.
  destruct ((n <=? i) && (i <=? n0)); simpl; auto.
  apply pure_bind; [apply pure_log_term|]. intros; simpl; auto.
Qed.

Lemma pure_has_entry p i t : pure (has_entry p i t).
Proof.
  unfold has_entry. destruct (i =? 0); simpl; auto.
  destruct (p_snap p); [destruct (i <=? sn_index s); simpl; auto|]; apply pure_in_log.
Qed.

Lemma pure_get_log_entries p b e : pure (get_log_entries p b e).
Proof.
  unfold get_log_entries. apply pure_bind; [apply pure_st_term|]. intros [pt ok].
  destruct (negb ok); simpl; auto.
  destruct (log_first (p_log p)); simpl; auto. destruct (log_last (p_log p)); simpl; auto.
  destruct (b <? n); simpl; auto. destruct (n0 + 1 <? e); simpl; auto.
  apply pure_bind; [apply pure_log_entries|]. intros; simpl; auto.
Qed.

Lemma pure_get_app_ents s p : pure (get_app_ents s p).
Proof.
  unfold get_app_ents. destruct (negb (pr_next p =? pr_match p + 1)).
  - apply pure_bind; [apply pure_st_term|]. intros [pt ok]. destruct (negb ok); simpl; auto.
  - destruct (pr_match p =? last_index (n_p s)).
    + apply pure_bind; [apply pure_st_term|]. intros [pt ok]. destruct (negb ok); simpl; auto.
    + apply pure_bind; [apply pure_get_log_entries|]. intros [[pt es] ok]. destruct (negb ok); simpl; auto.
Qed.

Lemma pure_find_majority_index s : pure (find_majority_index s).
Proof.
  unfold find_majority_index. destruct (n_conf s); simpl; auto.
  match goal with |- pure (match ?x with _ => _ end) => destruct x end; simpl; auto.
Qed.

Lemma pure_check_quorum_active s : pure (check_quorum_active s).
Proof. unfold check_quorum_active. destruct (n_conf s); simpl; auto. Qed.

Lemma pure_verify_nop_committed s : pure (verify_nop_committed s).
Proof.
  unfold verify_nop_committed. apply pure_bind; [apply pure_st_term|]. intros [lt ok].
  destruct (negb ok); simpl; auto. destruct (negb (p_term (n_p s) =? lt)); simpl; auto.
Qed.

Lemma pure_can_grant_vote s f li lt : pure (can_grant_vote s f li lt).
Proof.
  unfold can_grant_vote.
  destruct (negb (p_vote (n_p s) =? 0) && negb (p_vote (n_p s) =? f)); simpl; auto.
  apply pure_bind; [apply pure_st_term|]. intros [t ok]. destruct (negb ok); simpl; auto.
Qed.

Lemma pure_conflict_loop c i o es il : pure (conflict_loop c i o es il).
Proof.
  revert i. induction c; intros i; simpl; auto.
  destruct (nth_error es (i + o)); simpl; auto. destruct (nth_error il i); simpl; auto.
  destruct (negb (e_term e =? e_term e0)); simpl; auto.
Qed.

Lemma pure_conflict_index s es : pure (conflict_index s es).
Proof.
  unfold conflict_index. destruct es as [| e0 r]; simpl; auto.
  destruct (e_index e0 =? last_index (n_p s) + 1); simpl; auto.
  destruct (last_index (n_p s) + 1 <? e_index e0); simpl; auto.
  match goal with |- pure (match ?x with _ => _ end) => destruct x end; simpl; auto.
  destruct (log_last (p_log (n_p s))); simpl; auto.
  apply pure_bind; [apply pure_log_entries|]. intros. apply pure_conflict_loop.
Qed.

Lemma can_grant_vote_true s f li lt :
  can_grant_vote s f li lt = Ret true -> p_vote (n_p s) = 0 \/ p_vote (n_p s) = f.
Proof.
  unfold can_grant_vote.
  destruct (p_vote (n_p s) =? 0) eqn:E0; [apply N.eqb_eq in E0; auto|].
  destruct (p_vote (n_p s) =? f) eqn:E1; [apply N.eqb_eq in E1; auto|].
  simpl. discriminate.
Qed.

(* ---------------------------------------------------------------- the gate *)
Lemma do_mut_rext s m : pext (n_p s) (apply_mut (n_p s) m) -> rext s (do_mut m s).
Proof.
  intro H. unfold do_mut.
  destruct (negb (n_budget s =? 0) && (n_budget s =? n_cnt s + 1)); simpl; auto.
  split; auto. unfold frame; simpl; auto.
Qed.

Lemma pext_keep p p' : p_term p' = p_term p -> p_vote p' = p_vote p -> p_guid p' = p_guid p -> pext p p'.
Proof. intros A B C. unfold pext. rewrite A, B, C. repeat split; auto; lia. Qed.

Lemma mut_keep p m :
  match m with MSaveState _ _ | MSetVote _ => False | _ => True end -> pext p (apply_mut p m).
Proof. destruct m; simpl; intro H; try contradiction; apply pext_keep; reflexivity. Qed.

Lemma do_mut_keep s m :
  match m with MSaveState _ _ | MSetVote _ => False | _ => True end -> rext s (do_mut m s).
Proof. intro H. apply do_mut_rext. apply mut_keep; auto. Qed.

Lemma do_mut_save s v t : p_term (n_p s) < t -> rext s (do_mut (MSaveState v t) s).
Proof.
  intro H. apply do_mut_rext. unfold pext; simpl. repeat split; auto; try lia.
Qed.

Lemma do_mut_vote s v : p_vote (n_p s) = 0 \/ p_vote (n_p s) = v -> rext s (do_mut (MSetVote v) s).
Proof.
  intro H. apply do_mut_rext. unfold pext; simpl. repeat split; auto; try lia.
Qed.

(* leaves: states built from s by the volatile setters *)
Ltac leaf := apply rext_ret_same; [reflexivity | unfold frame; simpl; auto].

Lemma rext_same_p s s' r : n_p s' = n_p s -> frame s s' -> rext s' r -> rext s r.
Proof.
  intros Hp Hf Hr. destruct r; simpl in *; auto.
  - rewrite <- Hp. destruct Hr. split; auto. eapply frame_trans; eauto.
  - rewrite <- Hp. auto.
Qed.

(* move from a volatile variant of s back to s *)
Ltac shift := eapply rext_same_p; [| | ]; [ | | ].

(* ---------------------------------------------------------------- handlers *)
Lemma rext_log_append s es : rext s (log_append s es).
Proof.
  unfold log_append. apply rext_bind; [apply do_mut_keep; exact I|].
  intros s1 _. destruct (snd (mem_append (p_log (n_p s)) es)); simpl; auto using pext_refl, frame_refl.
Qed.

Lemma rext_commit_up_to s i : rext s (commit_up_to s i).
Proof.
  unfold commit_up_to.
  match goal with |- rext s (match ?x with _ => _ end) => destruct x end.
  - destruct (negb (sn_index s0 =? i)); simpl; auto. split; [apply pext_refl | unfold frame; simpl; auto].
  - apply rext_bind_pure; [apply pure_log_entries|]. intros ents _.
    match goal with |- rext s (if ?c then _ else _) => destruct c end.
    + match goal with |- rext s (match ?x with _ => _ end) => destruct x eqn:E end; simpl; auto.
      eapply rext_same_p; [| | apply do_mut_keep; exact I]; [reflexivity | unfold frame; simpl; auto].
    + leaf.
Qed.

Lemma rext_trim_log s i : rext s (trim_log s i).
Proof.
  unfold trim_log. destruct (log_first (p_log (n_p s))); [| leaf]. destruct (log_last (p_log (n_p s))); [| leaf].
  destruct (i =? n - 1); [leaf|]. destruct ((i <? n) || (n0 <? i)); simpl; auto.
  destruct (i - n <? cf_keep (n_cfg s)); [leaf|]. apply do_mut_keep; exact I.
Qed.

Lemma rext_send_app_ents s p : rext s (send_app_ents s p).
Proof.
  unfold send_app_ents. apply rext_bind_pure; [apply pure_get_app_ents|]. intros ob _.
  destruct ob; [leaf|]. destruct (p_snap (n_p s)); simpl; auto. destruct (sn_conf s0); simpl; auto.
  split; [apply pext_refl | unfold frame; simpl; auto].
Qed.

Lemma rext_for_peers ids f s :
  (forall s1 p, rext s1 (f s1 p)) -> rext s (for_peers ids f s).
Proof.
  intro Hf. revert s. induction ids as [| id r IH]; intros s; simpl.
  - leaf.
  - destruct (peer_get id (l_peers s)); auto. apply rext_bind; auto.
Qed.

Lemma become_follower_p s l : n_p (become_follower s l) = n_p s.
Proof. reflexivity. Qed.
Lemma become_follower_frame s l : frame s (become_follower s l).
Proof. unfold frame; simpl; auto. Qed.

Lemma rext_leader_commit_up_to s i : rext s (leader_commit_up_to s i).
Proof.
  unfold leader_commit_up_to. apply rext_bind; [apply rext_commit_up_to|]. intros s1 _.
  match goal with |- rext s1 (if ?c then _ else _) => destruct c end; leaf.
Qed.

Lemma rext_leader_maybe_commit s : rext s (leader_maybe_commit s).
Proof.
  unfold leader_maybe_commit. apply rext_bind_pure; [apply pure_find_majority_index|]. intros mi _.
  destruct (n_commit s <? mi); [| leaf].
  apply rext_bind_pure; [apply pure_st_term|]. intros [t ok] _.
  destruct (negb ok); simpl; auto. destruct (negb (t =? p_term (n_p s))); [leaf|].
  apply rext_bind; [apply rext_leader_commit_up_to|]. intros s1 _.
  apply rext_for_peers. intros s2 p. destruct (pr_match p =? last_index (n_p s2)); [apply rext_send_app_ents | leaf].
Qed.

Lemma rext_fold_enter (others : list nid) li : forall (acc : R node) s,
  rext s acc ->
  rext s (fold_left (fun (acc : R node) (m : nid) =>
                       a <- acc ;;
                       let p := mk_peer m (li + 1) 0 false 0 0 in
                       let a1 := set_leader a (l_check a) (peer_set p (l_peers a)) in
                       send_app_ents a1 p) others acc).
Proof.
  induction others as [| m r IH]; intros acc s H; simpl; auto.
  apply IH. apply rext_bind; auto. intros s1 _.
  eapply rext_same_p; [| | apply rext_send_app_ents]; [reflexivity | unfold frame; simpl; auto].
Qed.

Lemma rext_enter_leader s : rext s (enter_leader s).
Proof.
  unfold enter_leader. destruct (n_conf s); simpl; auto.
  apply rext_bind.
  - apply rext_fold_enter. leaf.
  - intros s1 _. destruct (l_peers s1); [apply rext_leader_maybe_commit | leaf].
Qed.

Lemma rext_become_leader s : rext s (become_leader s).
Proof.
  unfold become_leader. eapply rext_same_p; [| | apply rext_enter_leader]; [reflexivity | unfold frame; simpl; auto].
Qed.

Lemma rext_tick_leader s : rext s (tick_leader s).
Proof.
  unfold tick_leader. apply rext_bind.
  - apply rext_for_peers. intros s2 p. destruct (should_send s2 p); [apply rext_send_app_ents | leaf].
  - intros s1 _.
    match goal with |- rext s1 (if ?c then _ else _) => destruct c end; [| leaf].
    apply rext_bind_pure; [apply pure_check_quorum_active|]. intros ok _. destruct ok; leaf.
Qed.

Lemma rext_handle_app_ents_resp s from su ix hi : rext s (handle_app_ents_resp s from su ix hi).
Proof.
  unfold handle_app_ents_resp. destruct (peer_get from (l_peers s)); [| leaf].
  destruct (ix <? pr_match p); [leaf|]. destruct (negb su).
  - eapply rext_same_p; [| | apply rext_send_app_ents]; [reflexivity | unfold frame; simpl; auto].
  - match goal with |- rext s (if ?c then _ else _) => destruct c end; simpl; auto.
    apply rext_bind.
    + match goal with |- rext s (if ?c then _ else _) => destruct c end.
      * eapply rext_same_p; [| | apply rext_send_app_ents]; [reflexivity | unfold frame; simpl; auto].
      * leaf.
    + intros s2 _. apply rext_leader_maybe_commit.
Qed.

Lemma rext_leader_propose s es : rext s (leader_propose s es).
Proof.
  unfold leader_propose. apply rext_bind; [apply rext_log_append|]. intros s1 _.
  apply rext_bind.
  - apply rext_for_peers. intros s3 p.
    match goal with |- rext s3 (if ?c then _ else _) => destruct c end; [apply rext_send_app_ents | leaf].
  - intros s2 _. destruct (l_peers s2); [apply rext_leader_maybe_commit | leaf].
Qed.

Lemma rext2_ret s st s' : n_p s' = n_p s -> frame s s' -> rext2 s (Ret (st, s')).
Proof. intros H F. simpl. rewrite H. split; auto using pext_refl. Qed.

Lemma rext2_of_rext s r st : rext s r -> rext2 s (s1 <- r ;; Ret (st, s1)).
Proof. destruct r; simpl; auto. Qed.

Lemma rext2_same_p s s' r : n_p s' = n_p s -> frame s s' -> rext2 s' r -> rext2 s r.
Proof.
  intros Hp Hf Hr. destruct r as [[st x] | |]; simpl in *; auto.
  - rewrite <- Hp. destruct Hr. split; auto. eapply frame_trans; eauto.
  - rewrite <- Hp. auto.
Qed.

Lemma rext2_leader_add_node s m rnd : rext2 s (leader_add_node s m rnd).
Proof.
  unfold leader_add_node. apply rext2_bind_pure; [apply pure_verify_nop_committed|]. intros _ _.
  destruct (n_conf s); simpl; auto.
  destruct (memb m (mb_members m0)); [apply rext2_ret; [reflexivity | apply frame_refl]|].
  destruct (negb (latest_conf_committed s)); [apply rext2_ret; [reflexivity | apply frame_refl]|].
  eapply rext2_same_p; [| | apply rext2_of_rext; apply rext_leader_propose]; [reflexivity | unfold frame; simpl; auto].
Qed.

Lemma rext2_leader_remove_node s m : rext2 s (leader_remove_node s m).
Proof.
  unfold leader_remove_node. apply rext2_bind_pure; [apply pure_verify_nop_committed|]. intros _ _.
  destruct (n_conf s); simpl; auto.
  destruct (negb (memb m (mb_members m0))); [apply rext2_ret; [reflexivity | apply frame_refl]|].
  destruct (negb (latest_conf_committed s)); [apply rext2_ret; [reflexivity | apply frame_refl]|].
  eapply rext2_same_p; [| | ]; [ | | apply rext2_bind; [apply rext_leader_propose |]].
  - reflexivity.
  - unfold frame; simpl; auto.
  - intros s3 _. apply rext2_of_rext. apply rext_leader_maybe_commit.
Qed.

Lemma rext_handle_leader s m : rext s (handle_leader s m).
Proof.
  unfold handle_leader. destruct (m_body m); try exact I; try apply rext_handle_app_ents_resp; leaf.
Qed.

Lemma rext_check_if_elected s : rext s (check_if_elected s).
Proof.
  unfold check_if_elected. destruct (n_conf s); simpl; auto.
  destruct (quorum m <=? N.of_nat (length (c_votes s))); [apply rext_become_leader | leaf].
Qed.

Lemma fold_send_p (ms : list nid) b : forall s,
  n_p (fold_left (fun a m => if m =? n_id a then a else send a m b) ms s) = n_p s /\
  frame s (fold_left (fun a m => if m =? n_id a then a else send a m b) ms s).
Proof.
  induction ms as [| m r IH]; intros s; simpl; [split; auto using frame_refl|].
  destruct (m =? n_id s); [apply IH|].
  destruct (IH (send s m b)) as [A B]. split; [rewrite A; reflexivity|].
  eapply frame_trans; [| exact B]. unfold frame; simpl; auto.
Qed.

Lemma rext_enter_candidate s : rext s (enter_candidate s).
Proof.
  unfold enter_candidate.
  match goal with |- rext s (if ?c then _ else _) => destruct c end; [leaf|].
  eapply rext_same_p with (s' := set_candidate s (c_timeout s) []); [reflexivity | unfold frame; simpl; auto |].
  apply rext_bind.
  - apply do_mut_save. simpl. lia.
  - intros s1 _.
    set (s2 := if in_latest_conf s1 then set_candidate s1 (c_timeout s1) (set_add (n_id s1) (c_votes s1)) else s1).
    assert (H2 : n_p s2 = n_p s1 /\ frame s1 s2).
    { unfold s2. destruct (in_latest_conf s1); split; auto using frame_refl. unfold frame; simpl; auto. }
    destruct H2 as [H2p H2f].
    eapply rext_same_p; [exact H2p | exact H2f |].
    apply rext_bind_pure; [apply pure_st_term|]. intros [lt ok] _.
    destruct (negb ok); simpl; auto. destruct (n_conf s2); simpl; auto.
    match goal with |- rext s2 (check_if_elected (set_candidate ?x _ _)) =>
      destruct (fold_send_p (mb_members m) (VoteReq (last_index (n_p s2)) lt) s2) as [A B];
      eapply rext_same_p with (s' := set_candidate x (cf_cand_to (n_cfg x)) (c_votes x));
        [simpl; exact A | | apply rext_check_if_elected] end.
    eapply frame_trans; [exact B | unfold frame; simpl; auto].
Qed.

Lemma rext_become_candidate s : rext s (become_candidate s).
Proof.
  unfold become_candidate. eapply rext_same_p; [| | apply rext_enter_candidate]; [reflexivity | unfold frame; simpl; auto].
Qed.

Lemma rext_handle_candidate s m : rext s (handle_candidate s m).
Proof.
  unfold handle_candidate. destruct (m_body m); try exact I; try leaf.
  destruct granted; [| leaf].
  eapply rext_same_p; [| | apply rext_check_if_elected]; [reflexivity | unfold frame; simpl; auto].
Qed.

Lemma rext_follower_maybe_commit s lc mi : rext s (follower_maybe_commit s lc mi).
Proof. unfold follower_maybe_commit. destruct (n_commit s <? N.min mi lc); [apply rext_commit_up_to | leaf]. Qed.

Lemma fold_conf_p (app : list entry) : forall s,
  n_p (fold_left (fun a e => if e_type e =? EntryConf then set_conf a (decode_conf e) else a) app s) = n_p s /\
  frame s (fold_left (fun a e => if e_type e =? EntryConf then set_conf a (decode_conf e) else a) app s).
Proof.
  induction app as [| e r IH]; intros s; simpl; [split; auto using frame_refl|].
  destruct (e_type e =? EntryConf); [| apply IH].
  destruct (IH (set_conf s (decode_conf e))) as [A B]. split; [rewrite A; reflexivity|].
  eapply frame_trans; [| exact B]. unfold frame; simpl; auto.
Qed.

Lemma rext_handle_app_ents s from pi pt cm oes : rext s (handle_app_ents s from pi pt cm oes).
Proof.
  unfold handle_app_ents.
  eapply rext_same_p with (s' := set_follower_contact s); [reflexivity | unfold frame; simpl; auto |].
  set (s0 := set_follower_contact s).
  apply rext_bind_pure; [apply pure_has_entry|]. intros ok _.
  destruct (negb ok); [leaf|].
  destruct oes as [ents |].
  2: { eapply rext_same_p; [| | apply rext_follower_maybe_commit]; [reflexivity | unfold frame; simpl; auto]. }
  apply rext_bind_pure; [apply pure_conflict_index|]. intros [ci any] _.
  apply rext_bind.
  - destruct any; [| leaf]. apply rext_bind; [apply do_mut_keep; exact I|]. intros s' _.
    destruct (n_conf s'); [| leaf]. destruct (ci <=? mb_index m); leaf.
  - intros s1 _.
    destruct (last_ent_index ents <=? last_index (n_p s1)).
    + eapply rext_same_p; [| | apply rext_follower_maybe_commit]; [reflexivity | unfold frame; simpl; auto].
    + destruct ents as [| e0 r]; simpl; auto.
      match goal with |- rext s1 (if ?c then _ else _) => destruct c end; simpl; auto.
      match goal with |- rext s1 (match ?x with _ => _ end) => destruct x as [| a0 ar] eqn:Eapp end; simpl; auto.
      match goal with |- rext s1 (if ?c then _ else _) => destruct c end; simpl; auto.
      match goal with |- rext s1 (bind (log_append ?x _) _) =>
        destruct (fold_conf_p (a0 :: ar) s1) as [A B]; simpl in A, B;
        eapply rext_same_p with (s' := x); [exact A | exact B |] end.
      apply rext_bind; [apply rext_log_append|]. intros s3 _.
      eapply rext_same_p; [| | apply rext_follower_maybe_commit]; [reflexivity | unfold frame; simpl; auto].
Qed.

Lemma rext_handle_snapshot s from li lt c : rext s (handle_snapshot s from li lt c).
Proof.
  unfold handle_snapshot.
  eapply rext_same_p with (s' := set_follower_contact s); [reflexivity | unfold frame; simpl; auto |].
  set (s0 := set_follower_contact s).
  match goal with |- rext s0 (match ?x with _ => _ end) => destruct x end; [leaf|].
  apply rext_bind; [apply do_mut_keep; exact I|]. intros s1 _.
  apply rext_bind_pure; [apply pure_in_log|]. intros il _.
  apply rext_bind.
  - destruct il; [apply rext_trim_log|]. apply rext_bind; [apply do_mut_keep; exact I|]. intros; leaf.
  - intros s2 _. apply rext_bind.
    + destruct (n_commit s2 <? li); [apply rext_commit_up_to | leaf].
    + intros s3 _. leaf.
Qed.

Lemma rext_follower_note_leader s from : rext s (follower_note_leader s from).
Proof.
  unfold follower_note_leader. apply rext_bind.
  - destruct (p_vote (n_p s) =? 0) eqn:E; [| leaf]. apply do_mut_vote. left. apply N.eqb_eq; auto.
  - intros s1 _. destruct (n_leader s1 =? 0); [leaf|]. destruct (negb (n_leader s1 =? from)); simpl; auto.
    split; auto using pext_refl, frame_refl.
Qed.

Lemma rext_handle_follower s m : rext s (handle_follower s m).
Proof.
  unfold handle_follower. destruct (m_body m); try leaf.
  - apply rext_bind; [apply rext_follower_note_leader|]. intros; apply rext_handle_app_ents.
  - apply rext_bind_pure; [apply pure_can_grant_vote|]. intros g Hg.
    apply rext_bind.
    + destruct g; [| leaf]. apply do_mut_vote. eapply can_grant_vote_true; eauto.
    + intros; leaf.
  - apply rext_bind; [apply rext_follower_note_leader|]. intros; apply rext_handle_snapshot.
Qed.

Lemma rext_handle_by_role s m : rext s (handle_by_role s m).
Proof.
  unfold handle_by_role. destruct (n_role s);
    [apply rext_handle_follower | apply rext_handle_candidate | apply rext_handle_leader].
Qed.

Lemma rext_handle_msg s m : rext s (handle_msg s m).
Proof.
  unfold handle_msg.
  match goal with |- rext s (if ?c then _ else _) => destruct c end; [leaf|].
  match goal with |- rext s (if ?c then _ else _) => destruct c end; [leaf|].
  apply rext_bind.
  - match goal with |- rext s (if ?c then _ else _) => destruct c end; [apply do_mut_keep; exact I | leaf].
  - intros s1 _.
    match goal with |- rext s1 (if ?c then _ else _) => destruct c end; [leaf|].
    destruct (m_term m <? p_term (n_p s1)); [leaf|].
    apply rext_bind; [| intros; apply rext_handle_by_role].
    destruct (p_term (n_p s1) <? m_term m) eqn:E; [| leaf].
    apply N.ltb_lt in E.
    destruct (m_body m); simpl; auto;
      (apply rext_bind; [apply do_mut_save; exact E | intros; leaf]).
Qed.

Lemma rext_tick s : rext s (tick s).
Proof.
  unfold tick.
  set (s0 := set_elapsed s ((n_elapsed s + 1) mod 4294967296)).
  eapply rext_same_p with (s' := s0); [reflexivity | unfold frame; simpl; auto |].
  destruct (n_role s0).
  - match goal with |- rext s0 (if ?c then _ else _) => destruct c end; [apply rext_become_candidate | leaf].
  - match goal with |- rext s0 (if ?c then _ else _) => destruct c end; [apply rext_become_candidate | leaf].
  - apply rext_tick_leader.
Qed.

Lemma rext2_propose s es : rext2 s (propose s es).
Proof.
  unfold propose. destruct (n_role s); try (apply rext2_ret; [reflexivity | apply frame_refl]).
  apply rext2_of_rext. apply rext_leader_propose.
Qed.

Lemma rext2_add_node s m rnd : rext2 s (add_node s m rnd).
Proof.
  unfold add_node. destruct (n_role s); try (apply rext2_ret; [reflexivity | apply frame_refl]).
  apply rext2_leader_add_node.
Qed.

Lemma rext2_remove_node s m : rext2 s (remove_node s m).
Proof.
  unfold remove_node. destruct (n_role s); try (apply rext2_ret; [reflexivity | apply frame_refl]).
  apply rext2_leader_remove_node.
Qed.

Lemma is_clean_zero p : is_clean p = true -> p_term p = 0 /\ p_vote p = 0.
Proof.
  unfold is_clean. destruct (p_log p); [| discriminate]. destruct (p_snap p); [discriminate|].
  intro H. apply andb_true_iff in H. destruct H as [A B]. apply N.eqb_eq in A, B. auto.
Qed.

Lemma rext2_propose_initial s ms ep : rext2 s (propose_initial_membership s ms ep).
Proof.
  unfold propose_initial_membership.
  destruct (n_role s); try (apply rext2_ret; [reflexivity | apply frame_refl]).
  destruct (is_clean (n_p s)) eqn:E; [| apply rext2_ret; [reflexivity | apply frame_refl]].
  apply is_clean_zero in E. destruct E as [E1 E2].
  apply rext2_bind; [apply do_mut_save; lia|]. intros s1 _.
  apply rext2_bind; [apply rext_log_append|]. intros s2 _.
  apply rext2_ret; [reflexivity | unfold frame; simpl; auto].
Qed.

Lemma rext_snapshot_done s m : rext s (snapshot_done s m).
Proof.
  unfold snapshot_done.
  match goal with |- rext s (if ?c then _ else _) => destruct c end; [leaf|].
  apply rext_bind; [apply do_mut_keep; exact I | intros; apply rext_trim_log].
Qed.

(* newCore starts from the persistent state alone: relate the outcome to that state *)
Lemma do_mut_budget0 s m : n_budget s = 0 -> pure (do_mut m s).
Proof. intro H. unfold do_mut. rewrite H. simpl. exact I. Qed.

Lemma do_mut_vol s m s1 : do_mut m s = Ret s1 -> n_msgs s1 = n_msgs s /\ n_role s1 = n_role s.
Proof.
  unfold do_mut. destruct (negb (n_budget s =? 0) && (n_budget s =? n_cnt s + 1)); [discriminate|].
  intro E. inversion E. simpl. auto.
Qed.

Lemma commit_up_to_vol s i s1 : commit_up_to s i = Ret s1 -> n_msgs s1 = n_msgs s /\ n_role s1 = n_role s.
Proof.
  unfold commit_up_to.
  match goal with |- (match ?x with _ => _ end) = _ -> _ => destruct x end.
  - destruct (negb (sn_index s0 =? i)); [discriminate|]. intro E. inversion E. simpl. auto.
  - destruct (log_entries (n_p s) (n_commit s + 1) (i + 1)); simpl; try discriminate.
    match goal with |- (if ?c then _ else _) = _ -> _ => destruct c end.
    + match goal with |- (match ?x with _ => _ end) = _ -> _ => destruct x end; [| discriminate].
      intro E. apply do_mut_vol in E. simpl in E. exact E.
    + intro E. inversion E. simpl. auto.
Qed.

Lemma commit_up_to_budget0 s i : n_budget s = 0 -> pure (commit_up_to s i).
Proof.
  intro H. unfold commit_up_to.
  match goal with |- pure (match ?x with _ => _ end) => destruct x end.
  - destruct (negb (sn_index s0 =? i)); simpl; auto.
  - apply pure_bind; [apply pure_log_entries|]. intros ents.
    match goal with |- pure (if ?c then _ else _) => destruct c end; simpl; auto.
    match goal with |- pure (match ?x with _ => _ end) => destruct x end; simpl; auto.
    apply do_mut_budget0. simpl. exact H.
Qed.

Lemma rext_reconcile s : rext s (reconcile s).
Proof.
  unfold reconcile.
  destruct (p_snap (n_p s)); [| leaf]. destruct (log_first (p_log (n_p s))); [| leaf].
  destruct (log_last (p_log (n_p s))); [| leaf].
  match goal with |- rext s (if ?c then _ else _) => destruct c end; [apply do_mut_keep; exact I|].
  match goal with |- rext s (if ?c then _ else _) => destruct c end; [| leaf].
  apply rext_bind_pure; [apply pure_log_term|]. intros t _.
  destruct (negb (t =? sn_term s0)); [apply do_mut_keep; exact I | leaf].
Qed.

Lemma reconcile_budget0 s : n_budget s = 0 -> pure (reconcile s).
Proof.
  intro H. unfold reconcile.
  destruct (p_snap (n_p s)); simpl; auto. destruct (log_first (p_log (n_p s))); simpl; auto.
  destruct (log_last (p_log (n_p s))); simpl; auto.
  match goal with |- pure (if ?c then _ else _) => destruct c end; [apply do_mut_budget0; auto|].
  match goal with |- pure (if ?c then _ else _) => destruct c end; simpl; auto.
  apply pure_bind; [apply pure_log_term|]. intros t.
  destruct (negb (t =? sn_term s0)); [apply do_mut_budget0; auto | simpl; auto].
Qed.

Lemma new_core_pext id cfg p :
  match new_core id cfg p with
  | Ret s' => pext p (n_p s') /\ n_id s' = id /\ n_cfg s' = cfg /\ n_role s' = Follower /\ n_msgs s' = []
  | Fatal _ => True
  | Crashed _ => False
  end.
Proof.
  unfold new_core.
  pose proof (rext_reconcile (blank_node id cfg p)) as Hr.
  pose proof (reconcile_budget0 (blank_node id cfg p) eq_refl) as Hb0.
  destruct (reconcile (blank_node id cfg p)) as [r | c | q]; simpl in *; auto.
  destruct Hr as [Hrp _].
  set (p1 := n_p r) in *.
  set (s0 := set_conf (blank_node id cfg p1) (init_latest_conf p1)).
  destruct (p_snap p1) eqn:Es.
  - pose proof (rext_commit_up_to s0 (sn_index s)) as H.
    pose proof (commit_up_to_budget0 s0 (sn_index s) eq_refl) as Hb.
    pose proof (commit_up_to_vol s0 (sn_index s)) as Hv.
    destruct (commit_up_to s0 (sn_index s)) as [s1 | c | q]; simpl in *; auto.
    destruct H as [Hp [Hi [Hc _]]]. destruct (Hv s1 eq_refl) as [Hm _].
    unfold s0 in *. simpl in *. split; [eapply pext_trans; eauto|]. repeat split; auto.
  - simpl. split; [exact Hrp|]. repeat split; auto.
Qed.

(* ---------------------------------------------------------------- every event, every outcome *)
Theorem run_event_pext s ev :
  match run_event s ev with
  | Ret (_, s') => pext (n_p s) (n_p s') /\ n_id s' = n_id s /\ n_cfg s' = n_cfg s
  | Fatal _ => True
  | Crashed p => pext (n_p s) p
  end.
Proof.
  destruct ev; simpl.
  - pose proof (rext2_propose_initial s members epoch) as H.
    destruct (propose_initial_membership s members epoch) as [[st s'] | |]; simpl in *; auto.
    destruct H as [A [B [C D]]]; auto.
  - unfold wrap0. pose proof (rext_handle_msg s m) as H. destruct (handle_msg s m); simpl in *; auto.
    destruct H as [A [B [C D]]]; auto.
  - unfold wrap0. pose proof (rext_tick s) as H. destruct (tick s); simpl in *; auto.
    destruct H as [A [B [C D]]]; auto.
  - pose proof (rext2_propose s es) as H. destruct (propose s es) as [[st s'] | |]; simpl in *; auto.
    destruct H as [A [B [C D]]]; auto.
  - pose proof (rext2_add_node s member rnd) as H. destruct (add_node s member rnd) as [[st s'] | |]; simpl in *; auto.
    destruct H as [A [B [C D]]]; auto.
  - pose proof (rext2_remove_node s member) as H. destruct (remove_node s member) as [[st s'] | |]; simpl in *; auto.
    destruct H as [A [B [C D]]]; auto.
  - unfold wrap0. pose proof (rext_snapshot_done s m) as H. destruct (snapshot_done s m); simpl in *; auto.
    destruct H as [A [B [C D]]]; auto.
  - unfold wrap0. pose proof (new_core_pext (n_id s) (n_cfg s) (n_p s)) as H.
    destruct (new_core (n_id s) (n_cfg s) (n_p s)); simpl in *; auto.
    + destruct H as [A [B [C D]]]; auto.
    + contradiction.
Qed.

Theorem run_event_crash_pext s ev k :
  match run_event_crash s ev k with
  | Ret (_, _, s') => pext (n_p s) (n_p s') /\ n_id s' = n_id s /\ n_cfg s' = n_cfg s
  | Fatal _ => True
  | Crashed _ => False
  end.
Proof.
  unfold run_event_crash.
  pose proof (run_event_pext (with_budget s k) ev) as H.
  destruct (run_event (with_budget s k) ev) as [[st s'] | c | p]; simpl in *; auto.
  pose proof (new_core_pext (n_id s) (n_cfg s) p) as H2.
  destruct (new_core (n_id s) (n_cfg s) p) as [s2 | c | q]; simpl in *; auto.
  destruct H2 as [A [B [C D]]]. split; [eapply pext_trans; eauto | split; auto].
Qed.
