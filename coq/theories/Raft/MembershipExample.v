(* Raft/MembershipExample.v — a run adding a node (non-vacuity for Raft/MembershipElection.v and Raft/MembershipQuorum.v):
   3 nodes; node 1 bootstraps the membership [1; 2], is elected with node 2's vote, commits an entry of its own term
   (so verifyNopCommitted holds), accepts AddNode 3, replicates the configuration entry to node 2, commits it under the
   NEW configuration [1; 2; 3], and brings node 3 up to date. Every configuration held has 2 or 3 members. *)
From Coq Require Import List NArith ZArith Bool Lia.
From BLB Require Import Lib.LTS Raft.Core Raft.Wire Raft.Election Raft.ElectionExample Raft.LogMatchExample
  Raft.MembershipQuorum Raft.MembershipElection.
Import ListNotations.
Open Scope N_scope.

Definition conf_nearb (k : nat) (s : node) : bool :=
  match n_conf s with
  | Some c => Nat.eqb (length (mb_members c)) (2 * k) || Nat.eqb (length (mb_members c)) (2 * k + 1)
  | None => true
  end.

Lemma conf_nearb_ok k s : conf_nearb k s = true -> conf_near k s.
Proof.
  unfold conf_nearb, conf_near. intros H c Hc. rewrite Hc in H. apply orb_true_iff in H.
  destruct H as [H | H]; apply Nat.eqb_eq in H; auto.
Qed.

Lemma mstep_exec k σ i ev k0 s crashed st s' :
  get_node i (sy_nodes σ) = Some s ->
  (forall m, ev = EDeliver m -> In m (sy_soup σ) /\ m_to m <> 0) ->
  run_event_crash (settle s) ev k0 = Ret (crashed, st, s') ->
  conf_nearb k s' = true ->
  mstep k σ (i, ev, k0) (apply_step σ i ev k0).
Proof.
  intros G D Rn C. unfold apply_step. rewrite G, Rn. eapply MStep; eauto. apply conf_nearb_ok. exact C.
Qed.

Ltac m_plain :=
  eapply mstep_exec;
  [ vm_compute; reflexivity
  | let m := fresh in let Hm := fresh in intros m Hm; discriminate
  | vm_compute; reflexivity
  | vm_compute; reflexivity ].

Ltac m_deliver :=
  eapply mstep_exec;
  [ vm_compute; reflexivity
  | let m := fresh in let Hm := fresh in intros m Hm; inversion Hm; subst; split; [vm_compute; tauto | vm_compute; discriminate]
  | vm_compute; reflexivity
  | vm_compute; reflexivity ].

Definition a0 : sys := {| sy_nodes := [mk_node 1; mk_node 2; mk_node 3]; sy_soup := []; sy_cast := []; sy_hist := [] |}.
Definition a1 := apply_step a0 1 (EBootstrap [1; 2] 5) 0.
Definition a2 := apply_step a1 1 ETick 0.
Definition a3 := apply_step a2 1 ETick 0.
Definition w3 := Eval vm_compute in nthmsg a3 0.
Definition a4 := apply_step a3 2 (EDeliver w3) 0.
Definition w4 := Eval vm_compute in nthmsg a4 1.
Definition a5 := apply_step a4 1 (EDeliver w4) 0.              (* node 1 leader of term 2, members [1; 2] *)
Definition a6 := apply_step a5 1 (EPropose [ex_ent]) 0.
Definition w6 := Eval vm_compute in nthmsg a6 2.
Definition a7 := apply_step a6 2 (EDeliver w6) 0.
Definition w7 := Eval vm_compute in nthmsg a7 3.
Definition a8 := apply_step a7 1 (EDeliver w7) 0.
Definition w8 := Eval vm_compute in nthmsg a8 4.
Definition a9 := apply_step a8 2 (EDeliver w8) 0.
Definition w9 := Eval vm_compute in nthmsg a9 5.
Definition a10 := apply_step a9 1 (EDeliver w9) 0.             (* the term-2 entry is committed *)
Definition a11 := apply_step a10 1 (EAddNode 3 77) 0.          (* accepted: configuration entry at index 3 *)
Definition w11 := Eval vm_compute in nthmsg a11 7.
Definition a12 := apply_step a11 2 (EDeliver w11) 0.
Definition w12 := Eval vm_compute in nthmsg a12 8.
Definition a13 := apply_step a12 1 (EDeliver w12) 0.           (* committed with 2 of the 3 new members *)
Definition a14 := apply_step a13 1 ETick 0.                    (* heartbeat reaches out to node 3 *)
Definition w14 := Eval vm_compute in nthmsg a14 11.
Definition a15 := apply_step a14 3 (EDeliver w14) 0.
Definition w15 := Eval vm_compute in nthmsg a15 12.
Definition a16 := apply_step a15 1 (EDeliver w15) 0.
Definition w16 := Eval vm_compute in nthmsg a16 13.
Definition a17 := apply_step a16 3 (EDeliver w16) 0.           (* node 3 holds the whole log and the new configuration *)

Definition add_sched : list sys_event :=
  [(1, EBootstrap [1; 2] 5, 0); (1, ETick, 0); (1, ETick, 0); (2, EDeliver w3, 0); (1, EDeliver w4, 0);
   (1, EPropose [ex_ent], 0); (2, EDeliver w6, 0); (1, EDeliver w7, 0); (2, EDeliver w8, 0); (1, EDeliver w9, 0);
   (1, EAddNode 3 77, 0); (2, EDeliver w11, 0); (1, EDeliver w12, 0); (1, ETick, 0); (3, EDeliver w14, 0);
   (1, EDeliver w15, 0); (3, EDeliver w16, 0)].

Definition members_of (s : node) : list nid := match n_conf s with Some c => mb_members c | None => [] end.

Example add_node_run :
  minit 1 a0 /\ run sys sys_event (mstep 1) a0 add_sched a17 /\
  In (1, EAddNode 3 77, 0) add_sched /\
  (* the leader accepted the change (status E_NONE) while holding [1; 2], and holds [1; 2; 3] right after *)
  (exists s s', get_node 1 (sy_nodes a10) = Some s /\ members_of s = [1; 2] /\
                run_event_crash (settle s) (EAddNode 3 77) 0 = Ret (false, E_NONE, s') /\ members_of s' = [1; 2; 3]) /\
  (* at the end every node holds the new configuration and the 3-entry log, the leader has committed the change *)
  map members_of (sy_nodes a17) = [[1; 2; 3]; [1; 2; 3]; [1; 2; 3]] /\
  map (fun s => length (p_log (n_p s))) (sy_nodes a17) = [3; 3; 3]%nat /\
  map n_commit (sy_nodes a17) = [3; 2; 3] /\ In (2, 1) (sy_hist a17).
Proof.
  split; [| split; [| split; [| split; [| split; [| split; [| split]]]]]].
  - split; [vm_compute; repeat constructor; simpl; intuition discriminate|]. split; [reflexivity|].
    split; [|auto]. intros s Hs. simpl in Hs.
    destruct Hs as [E | [E | [E | []]]]; subst s; (split; [vm_compute; discriminate|]); (split; [vm_compute; reflexivity|]);
      apply conf_nearb_ok; vm_compute; reflexivity.
  - unfold add_sched.
    apply run_cons with (s1 := a1); [m_plain|].
    apply run_cons with (s1 := a2); [m_plain|].
    apply run_cons with (s1 := a3); [m_plain|].
    apply run_cons with (s1 := a4); [m_deliver|].
    apply run_cons with (s1 := a5); [m_deliver|].
    apply run_cons with (s1 := a6); [m_plain|].
    apply run_cons with (s1 := a7); [m_deliver|].
    apply run_cons with (s1 := a8); [m_deliver|].
    apply run_cons with (s1 := a9); [m_deliver|].
    apply run_cons with (s1 := a10); [m_deliver|].
    apply run_cons with (s1 := a11); [m_plain|].
    apply run_cons with (s1 := a12); [m_deliver|].
    apply run_cons with (s1 := a13); [m_deliver|].
    apply run_cons with (s1 := a14); [m_plain|].
    apply run_cons with (s1 := a15); [m_deliver|].
    apply run_cons with (s1 := a16); [m_deliver|].
    apply run_cons with (s1 := a17); [m_deliver|].
    apply run_nil.
  - unfold add_sched. simpl. tauto.
  - eexists _, _. split; [vm_compute; reflexivity|]. split; [vm_compute; reflexivity|].
    split; [vm_compute; reflexivity|]. vm_compute. reflexivity.
  - vm_compute. reflexivity.
  - vm_compute. reflexivity.
  - vm_compute. reflexivity.
  - vm_compute. tauto.
Qed.

(* the old and the new configuration of this run are adjacent, so any two of their majorities intersect *)
Example add_node_quorums_nonvacuous :
  exists s s' c c', get_node 1 (sy_nodes a10) = Some s /\ get_node 1 (sy_nodes a11) = Some s' /\
    n_conf s = Some c /\ n_conf s' = Some c' /\ mb_members c <> mb_members c' /\
    forall Q1 Q2, NoDup Q1 -> NoDup Q2 -> incl Q1 (mb_members c) -> incl Q2 (mb_members c') ->
      quorum c <= N.of_nat (length Q1) -> quorum c' <= N.of_nat (length Q2) -> exists x, In x Q1 /\ In x Q2.
Proof.
  eexists _, _, _, _. split; [vm_compute; reflexivity|]. split; [vm_compute; reflexivity|].
  split; [vm_compute; reflexivity|]. split; [vm_compute; reflexivity|]. split; [simpl; discriminate|].
  unfold quorum. cbn [mb_members]. intros Q1 Q2 N1 N2 I1 I2 L1 L2.
  apply (adjacent_quorums_intersect [1; 2] [1; 2; 3] Q1 Q2); auto.
  intros x Hx. simpl in *. tauto.
Qed.
