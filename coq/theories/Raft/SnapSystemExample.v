(* Raft/SnapSystemExample.v — non-vacuity for Raft/SnapSystem.v: the InstallSnapshot run of Raft/SnapshotExample.v is a run of the
   alphabet sstepS (fixed membership, legitimate SnapshotDone), extended by a leader
   change: node 3, which installed the snapshot and holds an empty log, times out and is elected leader of term 3 with node 2's vote.
   Node 1's committed entries (indices 1 and 2) are then held by the new leader under its snapshot, not in its log. *)
From Coq Require Import List NArith ZArith Bool Lia.
From BLB Require Import Lib.LTS Raft.Core Raft.Wire Raft.NodeConf Raft.Election Raft.ElectionFixed Raft.ElectionExample Raft.LogMatchExample
  Raft.LogMatch Raft.CompletenessCommit Raft.SnapCommit Raft.Snapshots Raft.SnapSys Raft.SnapshotExample Raft.SnapSystem.
Import ListNotations.
Open Scope N_scope.

Lemma sstepS_exec bm be n σ i ev k s crashed st s' :
  get_node i (sy_nodes σ) = Some s ->
  (forall m, ev = EDeliver m -> In m (sy_soup σ) /\ m_to m <> 0) ->
  evok2 n ev ->
  run_event_crash (settle s) ev k = Ret (crashed, st, s') ->
  evresS bm be s ev crashed ->
  sstepS bm be n σ (i, ev, k) (apply_step σ i ev k).
Proof.
  intros G D E Rn C. unfold apply_step. rewrite G, Rn. eapply SStepS; eauto.
Qed.

Ltac s_plain :=
  eapply sstepS_exec;
  [ vm_compute; reflexivity
  | let m := fresh in let Hm := fresh in intros m Hm; discriminate
  | vm_compute; repeat constructor
  | vm_compute; reflexivity
  | vm_compute; auto ].

Ltac s_deliver :=
  eapply sstepS_exec;
  [ vm_compute; reflexivity
  | let m := fresh in let Hm := fresh in intros m Hm; inversion Hm; subst; split; [vm_compute; tauto | vm_compute; discriminate]
  | vm_compute; exact Logic.I
  | vm_compute; reflexivity
  | vm_compute; auto ].

Definition x15 := apply_step t14 3 ETick 0.
Definition x16 := apply_step x15 3 ETick 0.                   (* node 3 campaigns for term 3 *)
Definition v16 := Eval vm_compute in nthmsg x16 13.
Definition x17 := apply_step x16 2 (EDeliver v16) 0.           (* node 2 grants: last (index, term) = (2, 2) on both sides *)
Definition v17 := Eval vm_compute in nthmsg x17 14.
Definition x18 := apply_step x17 3 (EDeliver v17) 0.           (* node 3 is leader of term 3 with snapshot (2, 2) and an empty log *)

Definition sched_a : list sys_event :=
  [(1, EBootstrap [1; 2; 3] 5, 0); (1, ETick, 0); (1, ETick, 0); (2, EDeliver u3, 0); (1, EDeliver u4, 0);
   (1, EPropose [ex_ent], 0); (2, EDeliver u6, 0); (1, EDeliver u7, 0); (2, EDeliver u8, 0); (1, EDeliver u9, 0)].
Definition sched_b : list sys_event :=
  [(1, ESnapDone snapm, 0); (3, EDeliver u11, 0); (1, EDeliver u12, 0); (3, EDeliver u13, 0);
   (3, ETick, 0); (3, ETick, 0); (2, EDeliver v16, 0); (3, EDeliver v17, 0)].

Lemma cinit_t0 : cinit t0.
Proof.
  split.
  - split.
    + unfold sinit2. split; [| split; [| auto]].
      * simpl. repeat constructor; simpl; intuition discriminate.
      * intros s [H | [H | [H | []]]]; subst s; (split; [vm_compute; discriminate|]; split; [reflexivity|]);
          unfold sok, pok; vm_compute; repeat split; auto.
    + intros s [H | [H | [H | []]]]; subst s; vm_compute; auto.
  - intros s [H | [H | [H | []]]]; subst s; vm_compute; auto.
Qed.

Lemma run_a : run sys sys_event (sstepS [1; 2; 3] 5 3) t0 sched_a t10.
Proof.
  unfold sched_a.
  apply run_cons with (s1 := t1); [s_plain|].
  apply run_cons with (s1 := t2); [s_plain|].
  apply run_cons with (s1 := t3); [s_plain|].
  apply run_cons with (s1 := t4); [s_deliver|].
  apply run_cons with (s1 := t5); [s_deliver|].
  apply run_cons with (s1 := t6); [s_plain|].
  apply run_cons with (s1 := t7); [s_deliver|].
  apply run_cons with (s1 := t8); [s_deliver|].
  apply run_cons with (s1 := t9); [s_deliver|].
  apply run_cons with (s1 := t10); [s_deliver|].
  apply run_nil.
Qed.

Lemma run_b : run sys sys_event (sstepS [1; 2; 3] 5 3) t10 sched_b x18.
Proof.
  unfold sched_b.
  apply run_cons with (s1 := t11).
  { eapply sstepS_exec;
      [ vm_compute; reflexivity | intros m Hm; discriminate | vm_compute; reflexivity | vm_compute; reflexivity |].
    split; [vm_compute; discriminate|]. split; [vm_compute; discriminate|]. intros _.
    exists {| e_term := 2; e_index := 2; e_type := EntryNormal; e_pl := [42%Z] |}. split; [vm_compute; tauto | split; reflexivity]. }
  apply run_cons with (s1 := t12); [s_deliver|].
  apply run_cons with (s1 := t13); [s_deliver|].
  apply run_cons with (s1 := t14); [s_deliver|].
  apply run_cons with (s1 := x15); [s_plain|].
  apply run_cons with (s1 := x16); [s_plain|].
  apply run_cons with (s1 := x17); [s_deliver|].
  apply run_cons with (s1 := x18); [s_deliver|].
  apply run_nil.
Qed.

(* all hypotheses of the four *_with_snapshots theorems hold; a is the old leader at the moment it has committed index 2 (log of two
   entries, no snapshot), b is the leader of term 3 elected after installing the shipped snapshot: b's log is empty, its snapshot
   covers both of a's committed entries; an InstallSnapshot was delivered in between *)
Example with_snapshots_nonvacuous :
  cinit t0 /\ length [1; 2; 3] = length (sy_nodes t0) /\
  run sys sys_event (sstepS [1; 2; 3] 5 (length (sy_nodes t0))) t0 sched_a t10 /\
  run sys sys_event (sstepS [1; 2; 3] 5 (length (sy_nodes t0))) t10 sched_b x18 /\
  (exists li lt c, m_body u13 = InstallSnap li lt c) /\ In (3, EDeliver u13, 0) sched_b /\
  let a := nth 0 (sy_nodes t10) (mk_node 1) in let b := nth 2 (sy_nodes x18) (mk_node 1) in
  In a (sy_nodes t10) /\ In b (sy_nodes x18) /\ n_role b = Leader /\ p_term (n_p a) < p_term (n_p b) /\
  n_commit a = 2 /\ map e_index (p_log (n_p a)) = [1; 2] /\ p_snap (n_p a) = None /\
  p_log (n_p b) = [] /\ p_snap (n_p b) = Some snapm.
Proof.
  split; [exact cinit_t0|]. split; [reflexivity|]. split; [exact run_a|]. split; [exact run_b|].
  split; [eexists _, _, _; reflexivity|]. split; [unfold sched_b; simpl; tauto|].
  cbv zeta. split; [vm_compute; tauto|]. split; [vm_compute; tauto|]. split; [vm_compute; reflexivity|]. split; [vm_compute; reflexivity|].
  split; [vm_compute; reflexivity|]. split; [vm_compute; reflexivity|]. split; [vm_compute; reflexivity|].
  split; vm_compute; reflexivity.
Qed.

(* the same delivery with a crash right after the first durable write of handleSnapshot (the snapshot commit, before the log is
   discarded): it is a step of the alphabet; after newCore's reconciliation node 3 holds the snapshot, an empty log and commit
   index 2, and sent nothing *)
Definition x14c := apply_step t13 3 (EDeliver u13) 1.

Example crash_inside_install_snapshot :
  run sys sys_event (sstepS [1; 2; 3] 5 3) t10 [(1, ESnapDone snapm, 0); (3, EDeliver u11, 0); (1, EDeliver u12, 0); (3, EDeliver u13, 1)] x14c /\
  (exists st s', run_event_crash (settle (nth 2 (sy_nodes t13) (mk_node 1))) (EDeliver u13) 1 = Ret (true, st, s')) /\
  let b := nth 2 (sy_nodes x14c) (mk_node 1) in
  p_snap (n_p b) = Some snapm /\ p_log (n_p b) = [] /\ n_commit b = 2 /\ length (sy_soup x14c) = length (sy_soup t13).
Proof.
  split.
  - apply run_cons with (s1 := t11).
    { eapply sstepS_exec;
        [ vm_compute; reflexivity | intros m Hm; discriminate | vm_compute; reflexivity | vm_compute; reflexivity |].
      split; [vm_compute; discriminate|]. split; [vm_compute; discriminate|]. intros _.
      exists {| e_term := 2; e_index := 2; e_type := EntryNormal; e_pl := [42%Z] |}. split; [vm_compute; tauto | split; reflexivity]. }
    apply run_cons with (s1 := t12); [s_deliver|].
    apply run_cons with (s1 := t13); [s_deliver|].
    apply run_cons with (s1 := x14c); [s_deliver|].
    apply run_nil.
  - split; [eexists _, _; vm_compute; reflexivity|].
    cbv zeta. split; [vm_compute; reflexivity|]. split; [vm_compute; reflexivity|]. split; vm_compute; reflexivity.
Qed.
