(* Raft/LogMatchExample.v — non-vacuity of log_matching_sys: a concrete 2-node run (bootstrap, time-out, election by a real
   VoteReq/VoteResp exchange, a proposal, a rejected consistency check, the retry carrying both entries, delivered with a
   crash right after the follower's durable append, and a duplicate delivery afterwards) meets every hypothesis of the
   theorem and ends with two different nodes holding the replicated entry (index 2, term 2). *)
From Coq Require Import List NArith ZArith Bool Lia.
From BLB Require Import Lib.LTS Raft.Core Raft.Wire Raft.Election Raft.ElectionExample Raft.NodeConf Raft.ElectionFixed
  Raft.LogMatchLists Raft.LogMatchNode Raft.LogMatch.
Import ListNotations.
Open Scope N_scope.

Definition mk_node (id : nid) : node :=
  match new_core id ex_cfg (blank_pstate (7000 + id)) with
  | Ret s => s
  | _ => blank_node id ex_cfg (blank_pstate (7000 + id))
  end.

Definition nomsg : msg :=
  {| m_term := 0; m_from := 0; m_to := 0; m_fromg := 0; m_tog := 0; m_epoch := 0; m_body := VoteResp false |}.
Definition nthmsg (σ : sys) (k : nat) : msg := nth k (sy_soup σ) nomsg.

Definition ex_ent : entry := {| e_term := 0; e_index := 0; e_type := EntryNormal; e_pl := [42%Z] |}.

Definition l0 : sys := {| sy_nodes := [mk_node 1; mk_node 2]; sy_soup := []; sy_cast := []; sy_hist := [] |}.
Definition l1 := apply_step l0 1 (EBootstrap [1; 2] 5) 0.
Definition l2 := apply_step l1 1 ETick 0.
Definition l3 := apply_step l2 1 ETick 0.                              (* node 1 campaigns for term 2 *)
Definition m3 := Eval vm_compute in nthmsg l3 0.                       (* VoteReq *)
Definition l4 := apply_step l3 2 (EDeliver m3) 0.
Definition m4 := Eval vm_compute in nthmsg l4 1.                       (* VoteResp granted *)
Definition l5 := apply_step l4 1 (EDeliver m4) 0.                      (* node 1 leader of term 2, heartbeat prev=(1,1) *)
Definition l6 := apply_step l5 1 (EPropose [ex_ent]) 0.                (* entry (2, 2) *)
Definition m6 := Eval vm_compute in nthmsg l6 2.                       (* the heartbeat *)
Definition l7 := apply_step l6 2 (EDeliver m6) 0.                      (* node 2 has no entry 1: rejects *)
Definition m7 := Eval vm_compute in nthmsg l7 3.
Definition l8 := apply_step l7 1 (EDeliver m7) 0.                      (* leader retries from index 1 with both entries *)
Definition m8 := Eval vm_compute in nthmsg l8 4.
Definition l9 := apply_step l8 2 (EDeliver m8) 1.                      (* crash right after the durable append *)
Definition l10 := apply_step l9 2 (EDeliver m8) 0.                     (* the same AppEnts again: duplicate *)
Definition l11 := apply_step l10 2 (EDeliver m6) 0.                    (* and the stale heartbeat again *)

Definition lm_sched : list sys_event :=
  [(1, EBootstrap [1; 2] 5, 0); (1, ETick, 0); (1, ETick, 0); (2, EDeliver m3, 0); (1, EDeliver m4, 0);
   (1, EPropose [ex_ent], 0); (2, EDeliver m6, 0); (1, EDeliver m7, 0); (2, EDeliver m8, 1); (2, EDeliver m8, 0);
   (2, EDeliver m6, 0)].

Lemma lstep_exec n bm be σ i ev k s crashed st s' :
  get_node i (sy_nodes σ) = Some s ->
  (forall m, ev = EDeliver m -> In m (sy_soup σ) /\ m_to m <> 0) ->
  evok2 n ev -> evres bm be ev ->
  run_event_crash (settle s) ev k = Ret (crashed, st, s') ->
  lstep n bm be σ (i, ev, k) (apply_step σ i ev k).
Proof. intros G D E Rs Rn. split; [eapply sstep2_exec; eauto | exact Rs]. Qed.

Ltac lstep_plain :=
  eapply lstep_exec;
  [ vm_compute; reflexivity
  | intros m Hm; discriminate
  | simpl; auto
  | simpl; auto
  | vm_compute; reflexivity ].

Ltac lstep_deliver :=
  eapply lstep_exec;
  [ vm_compute; reflexivity
  | let m := fresh in let Hm := fresh in intros m Hm; inversion Hm; subst; split; [vm_compute; tauto | vm_compute; discriminate]
  | simpl; auto
  | simpl; auto
  | vm_compute; reflexivity ].

Example log_matching_nonvacuous :
  exists σ0 sched σ a b e,
    linit σ0 /\ run sys sys_event (lstep (length (sy_nodes σ0)) [1; 2] 5) σ0 sched σ /\
    In a (sy_nodes σ) /\ In b (sy_nodes σ) /\ n_id a <> n_id b /\
    nth_error (p_log (n_p a)) 1 = Some e /\ nth_error (p_log (n_p b)) 1 = Some e /\ e_index e = 2 /\ e_term e = 2 /\
    length sched = 11%nat.
Proof.
  exists l0, lm_sched, l11, (nth 0 (sy_nodes l11) (mk_node 1)), (nth 1 (sy_nodes l11) (mk_node 1)),
    {| e_term := 2; e_index := 2; e_type := EntryNormal; e_pl := [42%Z] |}.
  split; [| split].
  - split.
    + unfold sinit2. split; [| split; [| auto]].
      * simpl. constructor; [simpl; intros [H | []]; discriminate | constructor; [simpl; tauto | constructor]].
      * intros s [H | [H | []]]; subst s; (split; [vm_compute; discriminate|]; split; [reflexivity|]);
          unfold sok, pok; vm_compute; repeat split; auto.
    + intros s [H | [H | []]]; subst s; vm_compute; auto.
  - change (length (sy_nodes l0)) with 2%nat. unfold lm_sched.
    apply run_cons with (s1 := l1); [lstep_plain; repeat split; auto|].
    apply run_cons with (s1 := l2); [lstep_plain|].
    apply run_cons with (s1 := l3); [lstep_plain|].
    apply run_cons with (s1 := l4); [lstep_deliver|].
    apply run_cons with (s1 := l5); [lstep_deliver|].
    apply run_cons with (s1 := l6); [lstep_plain; constructor; [unfold eok; vm_compute; exact Logic.I | constructor]|].
    apply run_cons with (s1 := l7); [lstep_deliver|].
    apply run_cons with (s1 := l8); [lstep_deliver|].
    apply run_cons with (s1 := l9); [lstep_deliver|].
    apply run_cons with (s1 := l10); [lstep_deliver|].
    apply run_cons with (s1 := l11); [lstep_deliver|].
    apply run_nil.
  - split; [vm_compute; auto|]. split; [vm_compute; auto|]. split; [vm_compute; discriminate|].
    split; [vm_compute; reflexivity|]. split; [vm_compute; reflexivity|]. repeat split; reflexivity.
Qed.

(* non-vacuity of ack_matches_leader_log_sys: in the run above, the step l9 -> l10 (the duplicate AppEnts delivered to node 2)
   emits a successful AppEntsResp for index 2 in term 2 while node 1 is leader of term 2 *)
From BLB Require Import Raft.Completeness.

Definition lm_sched9 : list sys_event :=
  [(1, EBootstrap [1; 2] 5, 0); (1, ETick, 0); (1, ETick, 0); (2, EDeliver m3, 0); (1, EDeliver m4, 0);
   (1, EPropose [ex_ent], 0); (2, EDeliver m6, 0); (1, EDeliver m7, 0); (2, EDeliver m8, 1)].

Definition m10 := Eval vm_compute in nthmsg l10 5.
Definition soup9 := Eval vm_compute in sy_soup l9.

Example ack_nonvacuous :
  exists σ0 sched σ e σ' m a b,
    linit σ0 /\ run sys sys_event (lstep (length (sy_nodes σ0)) [1; 2] 5) σ0 sched σ /\
    lstep (length (sy_nodes σ0)) [1; 2] 5 σ e σ' /\
    In m (sy_soup σ') /\ ~ In m (sy_soup σ) /\ m_body m = AppEntsResp true 2 0 /\
    In a (sy_nodes σ') /\ n_id a = m_from m /\ In b (sy_nodes σ') /\ n_role b = Leader /\ p_term (n_p b) = m_term m /\
    n_id a <> n_id b.
Proof.
  exists l0, lm_sched9, l9, (2, EDeliver m8, 0), l10, m10,
    (nth 1 (sy_nodes l10) (mk_node 1)), (nth 0 (sy_nodes l10) (mk_node 1)).
  split; [| split; [| split]].
  - split.
    + unfold sinit2. split; [| split; [| auto]].
      * simpl. constructor; [simpl; intros [H | []]; discriminate | constructor; [simpl; tauto | constructor]].
      * intros s [H | [H | []]]; subst s; (split; [vm_compute; discriminate|]; split; [reflexivity|]);
          unfold sok, pok; vm_compute; repeat split; auto.
    + intros s [H | [H | []]]; subst s; vm_compute; auto.
  - change (length (sy_nodes l0)) with 2%nat. unfold lm_sched9.
    apply run_cons with (s1 := l1); [lstep_plain; repeat split; auto|].
    apply run_cons with (s1 := l2); [lstep_plain|].
    apply run_cons with (s1 := l3); [lstep_plain|].
    apply run_cons with (s1 := l4); [lstep_deliver|].
    apply run_cons with (s1 := l5); [lstep_deliver|].
    apply run_cons with (s1 := l6); [lstep_plain; constructor; [unfold eok; vm_compute; exact Logic.I | constructor]|].
    apply run_cons with (s1 := l7); [lstep_deliver|].
    apply run_cons with (s1 := l8); [lstep_deliver|].
    apply run_cons with (s1 := l9); [lstep_deliver|].
    apply run_nil.
  - change (length (sy_nodes l0)) with 2%nat. lstep_deliver.
  - split; [vm_compute; tauto|]. split.
    + assert (E : sy_soup l9 = soup9) by (vm_compute; reflexivity). rewrite E. unfold soup9, m10.
      intro H. simpl in H. repeat (destruct H as [H | H]; [discriminate|]). exact H.
    + split; [vm_compute; reflexivity|]. split; [vm_compute; auto|]. split; [vm_compute; reflexivity|]. split; [vm_compute; auto|].
      split; [vm_compute; reflexivity|]. split; [vm_compute; reflexivity|]. vm_compute. discriminate.
Qed.
