(* Raft/LogMatchLists.v — list facts about index-contiguous logs (no snapshot, no trim): what the storage functions of
   Raft/Core.v (log_entries, st_term, has_entry, mem_truncate, mem_append, conflict_loop) compute on such logs, in terms
   of firstn / skipn / nth_error.  Used by Raft/LogMatchNode.v and Raft/LogMatch.v. *)
From Coq Require Import List NArith ZArith Bool Lia ZifyN ZifyNat ZifyBool.
From BLB Require Import Raft.Core.
Import ListNotations.
Open Scope N_scope.

(* ---------------------------------------------------------------- plain lists *)
Lemma skipn_skipn' {A} (a b : nat) (l : list A) : skipn a (skipn b l) = skipn (b + a) l.
Proof.
  revert l. induction b as [| b IH]; intros l; simpl; auto.
  destruct l; simpl; auto. destruct a; reflexivity.
Qed.

Lemma nth_error_skipn' {A} (p j : nat) (l : list A) : nth_error (skipn p l) j = nth_error l (p + j).
Proof.
  revert l. induction p as [| p IH]; intros l; simpl; auto.
  destruct l; simpl; auto. destruct j; reflexivity.
Qed.

Lemma nth_error_firstn' {A} (n j : nat) (l : list A) :
  nth_error (firstn n l) j = if (j <? n)%nat then nth_error l j else None.
Proof.
  revert j l. induction n as [| n IH]; intros j l; simpl.
  - destruct j; reflexivity.
  - destruct l as [| x r]; simpl.
    + destruct (j <? S n)%nat; destruct j; reflexivity.
    + destruct j; simpl; auto. rewrite IH. reflexivity.
Qed.

Lemma firstn_split {A} (c m : nat) (l : list A) :
  (c <= m)%nat -> firstn m l = firstn c l ++ firstn (m - c) (skipn c l).
Proof.
  revert m l. induction c as [| c IH]; intros m l H; simpl.
  - rewrite Nat.sub_0_r. reflexivity.
  - destruct m as [| m]; [lia|]. destruct l as [| x r]; simpl.
    + destruct (m - c)%nat; reflexivity.
    + rewrite (IH m r) by lia. reflexivity.
Qed.

Lemma firstn_nth_eq {A} (k : nat) (l1 l2 : list A) :
  firstn (S k) l1 = firstn (S k) l2 -> nth_error l1 k = nth_error l2 k.
Proof.
  intro H.
  assert (E : nth_error (firstn (S k) l1) k = nth_error (firstn (S k) l2) k) by (rewrite H; reflexivity).
  rewrite !nth_error_firstn' in E.
  assert (X : (k <? S k)%nat = true) by (apply Nat.ltb_lt; lia). rewrite X in E. exact E.
Qed.

Lemma firstn_eq_le {A} (a b : nat) (l1 l2 : list A) :
  (a <= b)%nat -> firstn b l1 = firstn b l2 -> firstn a l1 = firstn a l2.
Proof.
  intros H E.
  assert (X : firstn a (firstn b l1) = firstn a (firstn b l2)) by (rewrite E; reflexivity).
  rewrite !firstn_firstn in X. rewrite Nat.min_l in X by lia. exact X.
Qed.

Definition pfx {A} (l1 l2 : list A) : Prop := exists x, l2 = l1 ++ x.
Definition comparable {A} (l1 l2 : list A) : Prop := pfx l1 l2 \/ pfx l2 l1.

Lemma pfx_refl {A} (l : list A) : pfx l l.
Proof. exists []. rewrite app_nil_r. reflexivity. Qed.

Lemma pfx_trans {A} (a b c : list A) : pfx a b -> pfx b c -> pfx a c.
Proof. intros [x H] [y K]. subst. exists (x ++ y). rewrite app_assoc. reflexivity. Qed.

Lemma pfx_firstn {A} (c : nat) (l1 l2 : list A) : pfx l1 l2 -> (c <= length l1)%nat -> firstn c l1 = firstn c l2.
Proof.
  intros [x H] Hc. subst. rewrite firstn_app. replace (c - length l1)%nat with 0%nat by lia. simpl. rewrite app_nil_r. reflexivity.
Qed.

Lemma comparable_firstn {A} (c : nat) (l1 l2 : list A) :
  comparable l1 l2 -> (c <= length l1)%nat -> (c <= length l2)%nat -> firstn c l1 = firstn c l2.
Proof. intros [H | H] A1 A2; [apply pfx_firstn; auto | symmetry; apply pfx_firstn; auto]. Qed.

Lemma pfx_comparable {A} (a b c : list A) : pfx a c -> pfx b c -> comparable a b.
Proof.
  intros [x H] [y K]. subst. revert b K. induction a as [| h t IH]; intros b K.
  - left. exists b. reflexivity.
  - destruct b as [| h' t'].
    + right. exists (h :: t). reflexivity.
    + simpl in K. inversion K. subst. destruct (IH t' H1) as [[z Z] | [z Z]].
      * left. exists z. simpl. rewrite Z. reflexivity.
      * right. exists z. simpl. rewrite Z. reflexivity.
Qed.

Lemma firstn_pfx {A} (c : nat) (l : list A) : pfx (firstn c l) l.
Proof. exists (skipn c l). symmetry. apply firstn_skipn. Qed.

Lemma firstn_length_ge {A} (c : nat) (l1 l2 : list A) :
  firstn c l1 = firstn c l2 -> (c <= length l1)%nat -> (c <= length l2)%nat.
Proof.
  intros E H. assert (X : length (firstn c l1) = length (firstn c l2)) by (rewrite E; reflexivity).
  rewrite !firstn_length in X. lia.
Qed.

(* ---------------------------------------------------------------- contiguous logs *)
Fixpoint wf_from (b : N) (l : list entry) : Prop :=
  match l with [] => True | e :: r => e_index e = b /\ wf_from (b + 1) r end.

Lemma wf_from_app b l1 l2 : wf_from b (l1 ++ l2) <-> wf_from b l1 /\ wf_from (b + N.of_nat (length l1)) l2.
Proof.
  revert b. induction l1 as [| e r IH]; intros b; simpl.
  - replace (b + 0) with b by lia. tauto.
  - rewrite IH. replace (b + 1 + N.of_nat (length r)) with (b + N.pos (Pos.of_succ_nat (length r))) by lia. tauto.
Qed.

Lemma wf_from_nth b l k e : wf_from b l -> nth_error l k = Some e -> e_index e = b + N.of_nat k.
Proof.
  revert b k. induction l as [| x r IH]; intros b k H; destruct k; simpl; try discriminate.
  - intro E. inversion E. subst. destruct H. lia.
  - intro E. destruct H as [_ H]. rewrite (IH _ _ H E). lia.
Qed.

Lemma wf_from_firstn b l k : wf_from b l -> wf_from b (firstn k l).
Proof.
  revert b k. induction l as [| x r IH]; intros b k H; destruct k; simpl; auto.
  destruct H. split; auto.
Qed.

Lemma wf_from_skipn b l k : wf_from b l -> wf_from (b + N.of_nat k) (skipn k l).
Proof.
  revert b k. induction l as [| x r IH]; intros b k H; destruct k; simpl; auto.
  - replace (b + 0) with b by lia. exact H.
  - destruct H as [_ H]. replace (b + N.pos (Pos.of_succ_nat k)) with (b + 1 + N.of_nat k) by lia. apply IH. exact H.
Qed.

Lemma log_last_app l e : log_last (l ++ [e]) = Some (e_index e).
Proof. unfold log_last. rewrite rev_app_distr. reflexivity. Qed.

Lemma log_last_wf b l : wf_from b l -> l <> [] -> log_last l = Some (b + N.of_nat (length l) - 1).
Proof.
  intros H Hn. destruct (exists_last Hn) as [l' [a E]]. subst. rewrite log_last_app.
  apply wf_from_app in H. destruct H as [_ H]. simpl in H. destruct H as [H _]. rewrite H.
  rewrite app_length. simpl. f_equal. lia.
Qed.

Lemma log_last_nil l : log_last l = None -> l = [].
Proof.
  destruct l as [| x r]; auto. intro H. exfalso.
  assert (Hn : x :: r <> []) by discriminate. destruct (exists_last Hn) as [l' [a E]]. rewrite E in H.
  rewrite log_last_app in H. discriminate.
Qed.

Lemma last_ent_index_wf b l : wf_from b l -> l <> [] -> last_ent_index l = b + N.of_nat (length l) - 1.
Proof.
  intros H Hn. pose proof (log_last_wf b l H Hn) as X. unfold log_last in X. unfold last_ent_index.
  destruct (rev l); [discriminate|]. inversion X. reflexivity.
Qed.

Lemma log_first_wf b l : wf_from b l -> l <> [] -> log_first l = Some b.
Proof. destruct l; simpl; [congruence|]. intros [H _] _. rewrite H. reflexivity. Qed.

Definition llen (p : pstate) : N := N.of_nat (length (p_log p)).

Lemma last_index_wf p : p_snap p = None -> wf_from 1 (p_log p) -> last_index p = llen p.
Proof.
  intros Hs Hw. unfold last_index, llen. destruct (p_log p) as [| x r] eqn:E.
  - simpl. rewrite Hs. reflexivity.
  - rewrite (log_last_wf 1 (x :: r)); [| exact Hw | discriminate]. simpl length. lia.
Qed.

Lemma drop_while_lt a b l :
  wf_from a l -> a <= b -> drop_while (fun e => e_index e <? b) l = skipn (N.to_nat (b - a)) l.
Proof.
  revert a. induction l as [| e r IH]; intros a H Hab; simpl.
  - destruct (N.to_nat (b - a)); reflexivity.
  - destruct H as [Hi H]. rewrite Hi. destruct (a <? b) eqn:E.
    + apply N.ltb_lt in E. rewrite (IH (a + 1)); auto; [| lia].
      replace (N.to_nat (b - a)) with (S (N.to_nat (b - (a + 1)))) by lia. reflexivity.
    + apply N.ltb_ge in E. replace (N.to_nat (b - a)) with 0%nat by lia. reflexivity.
Qed.

Lemma entries_loop_wf l b e : wf_from b l -> entries_loop l b e = Ret (firstn (N.to_nat (e - b)) l).
Proof.
  revert b. induction l as [| x r IH]; intros b H; simpl.
  - destruct (N.to_nat (e - b)); reflexivity.
  - destruct H as [Hi H]. rewrite Hi, N.eqb_refl. simpl. destruct (e <=? b) eqn:E.
    + apply N.leb_le in E. replace (N.to_nat (e - b)) with 0%nat by lia. reflexivity.
    + apply N.leb_gt in E. rewrite (IH (b + 1) H). simpl.
      replace (N.to_nat (e - b)) with (S (N.to_nat (e - (b + 1)))) by lia. reflexivity.
Qed.

Lemma log_entries_wf p b e :
  wf_from 1 (p_log p) -> 1 <= b ->
  log_entries p b e = Ret (firstn (N.to_nat (e - b)) (skipn (N.to_nat (b - 1)) (p_log p))).
Proof.
  intros H Hb. unfold log_entries. rewrite (drop_while_lt 1 b); auto.
  apply entries_loop_wf. replace b with (1 + N.of_nat (N.to_nat (b - 1))) at 1 by lia. apply wf_from_skipn. exact H.
Qed.

Lemma log_term_wf p i :
  wf_from 1 (p_log p) -> 1 <= i ->
  log_term p i = match nth_error (p_log p) (N.to_nat (i - 1)) with Some e => Ret (e_term e) | None => Fatal F_LOG_TERM_MISSING end.
Proof.
  intros H Hi. unfold log_term. rewrite log_entries_wf; auto. simpl.
  replace (N.to_nat (i + 1 - i)) with 1%nat by lia.
  rewrite <- (Nat.add_0_r (N.to_nat (i - 1))) at 2. rewrite <- nth_error_skipn'.
  destruct (skipn (N.to_nat (i - 1)) (p_log p)); reflexivity.
Qed.

(* st_term, has_entry on a log without snapshot *)
Definition term_at (l : list entry) (i t : N) : Prop :=
  i = 0 \/ exists e, nth_error l (N.to_nat (i - 1)) = Some e /\ e_term e = t.

Lemma st_term_wf p i t ok :
  p_snap p = None -> wf_from 1 (p_log p) -> st_term p i = Ret (t, ok) ->
  ok = true /\ i <= llen p /\ (i = 0 -> t = 0) /\ term_at (p_log p) i t.
Proof.
  intros Hs Hw. unfold st_term. rewrite (last_index_wf p Hs Hw).
  destruct (llen p <? i) eqn:E; [discriminate|]. apply N.ltb_ge in E.
  destruct (i =? 0) eqn:E0.
  - apply N.eqb_eq in E0. intro H. inversion H. subst. repeat split; auto. left. reflexivity.
  - apply N.eqb_neq in E0. rewrite Hs.
    destruct (p_log p) as [| x r] eqn:El.
    + simpl. discriminate.
    + rewrite <- El in *. rewrite (log_first_wf 1 (p_log p)); auto; [| rewrite El; discriminate].
      assert (X : (1 <=? i) = true) by (apply N.leb_le; lia). rewrite X.
      rewrite log_term_wf; auto; [| lia].
      destruct (nth_error (p_log p) (N.to_nat (i - 1))) as [e |] eqn:En; simpl; [| discriminate].
      intro H. inversion H. subst. repeat split; auto; [lia|]. right. exists e. auto.
Qed.

Lemma has_entry_wf p i t :
  p_snap p = None -> wf_from 1 (p_log p) -> has_entry p i t = Ret true ->
  i <= llen p /\ term_at (p_log p) i t.
Proof.
  intros Hs Hw. unfold has_entry. destruct (i =? 0) eqn:E0.
  - apply N.eqb_eq in E0. intros _. subst. split; [lia | left; reflexivity].
  - apply N.eqb_neq in E0. rewrite Hs. unfold in_log.
    destruct (p_log p) as [| x r] eqn:El; [simpl; discriminate|]. rewrite <- El in *.
    assert (Hne : p_log p <> []) by (rewrite El; discriminate).
    rewrite (log_first_wf 1 (p_log p)); auto. rewrite (log_last_wf 1 (p_log p)); auto.
    destruct ((1 <=? i) && (i <=? 1 + N.of_nat (length (p_log p)) - 1)) eqn:Eb; [| discriminate].
    apply andb_true_iff in Eb. destruct Eb as [B1 B2]. apply N.leb_le in B1, B2.
    rewrite log_term_wf; auto.
    destruct (nth_error (p_log p) (N.to_nat (i - 1))) as [e |] eqn:En; simpl; [| discriminate].
    intro H. inversion H. apply N.eqb_eq in H1. split; [unfold llen; lia|]. right. exists e. auto.
Qed.

(* truncate keeps a prefix *)
Lemma drop_while_all {A} (f : A -> bool) a b : Forall (fun x => f x = true) a -> drop_while f (a ++ b) = drop_while f b.
Proof. induction 1; simpl; auto. rewrite H. exact IHForall. Qed.

Lemma drop_while_none {A} (f : A -> bool) l : Forall (fun x => f x = false) l -> drop_while f l = l.
Proof. destruct 1; simpl; auto. rewrite H. reflexivity. Qed.

Lemma mem_truncate_split k l1 l2 :
  Forall (fun e => e_index e <= k) l1 -> Forall (fun e => k < e_index e) l2 -> mem_truncate k (l1 ++ l2) = l1.
Proof.
  intros H1 H2. unfold mem_truncate. rewrite rev_app_distr. rewrite drop_while_all.
  - rewrite drop_while_none; [apply rev_involutive|]. apply Forall_rev.
    eapply Forall_impl; [| exact H1]. intros e He. simpl in He. apply N.ltb_ge. exact He.
  - apply Forall_rev. eapply Forall_impl; [| exact H2]. intros e He. simpl in He. apply N.ltb_lt. exact He.
Qed.

Lemma mem_truncate_wf k l : wf_from 1 l -> mem_truncate k l = firstn (N.to_nat k) l.
Proof.
  intro H. rewrite <- (firstn_skipn (N.to_nat k) l) at 1. apply mem_truncate_split.
  - apply Forall_forall. intros e He. apply In_nth_error in He. destruct He as [j Hj].
    assert (Hlt : (j < N.to_nat k)%nat).
    { assert (X : nth_error (firstn (N.to_nat k) l) j <> None) by congruence. apply nth_error_Some in X.
      rewrite firstn_length in X. lia. }
    rewrite nth_error_firstn' in Hj. apply Nat.ltb_lt in Hlt. rewrite Hlt in Hj. apply Nat.ltb_lt in Hlt.
    rewrite (wf_from_nth 1 l j e H Hj). lia.
  - apply Forall_forall. intros e He. apply In_nth_error in He. destruct He as [j Hj].
    rewrite nth_error_skipn' in Hj. rewrite (wf_from_nth 1 l _ e H Hj). lia.
Qed.

Lemma mem_append_wf l es :
  wf_from 1 l -> wf_from (N.of_nat (length l) + 1) es -> mem_append l es = (l ++ es, true).
Proof.
  revert l. induction es as [| e r IH]; intros l Hl He; simpl.
  - rewrite app_nil_r. reflexivity.
  - destruct He as [Hi He].
    assert (Hl' : wf_from 1 (l ++ [e])).
    { apply wf_from_app. split; auto. cbn [wf_from]. split; auto. lia. }
    assert (Hr : wf_from (N.of_nat (length (l ++ [e])) + 1) r).
    { rewrite app_length. simpl. replace (N.of_nat (length l + 1) + 1) with (N.of_nat (length l) + 1 + 1) by lia. exact He. }
    destruct l as [| x t] eqn:El.
    + simpl log_last. unfold log_last. simpl. rewrite (IH [e] Hl' Hr). reflexivity.
    + rewrite <- El in *. rewrite (log_last_wf 1 l Hl) by (rewrite El; discriminate).
      assert (X : (e_index e =? 1 + N.of_nat (length l) - 1 + 1) = true) by (apply N.eqb_eq; lia). rewrite X.
      rewrite (IH (l ++ [e]) Hl' Hr). rewrite <- app_assoc. reflexivity.
Qed.

Lemma stamp_wf es i t : wf_from i (stamp es i t) /\ Forall (fun e => e_term e = t) (stamp es i t).
Proof.
  revert i. induction es as [| e r IH]; intros i; simpl; [split; auto|].
  destruct (IH (i + 1)) as [A B]. split; [split; auto | constructor; auto].
Qed.

(* the term comparison loop of conflictIndex (offset 0) *)
Lemma conflict_loop_spec cnt idx ents il r :
  conflict_loop cnt idx 0 ents il = Ret r ->
  (r = (0, false) /\ forall j a b, (idx <= j < idx + cnt)%nat -> nth_error ents j = Some a -> nth_error il j = Some b -> e_term a = e_term b) \/
  (exists j a b, (idx <= j < idx + cnt)%nat /\ nth_error ents j = Some a /\ nth_error il j = Some b /\
                 e_term a <> e_term b /\ r = (e_index a, true) /\
                 forall j' a' b', (idx <= j' < j)%nat -> nth_error ents j' = Some a' -> nth_error il j' = Some b' -> e_term a' = e_term b').
Proof.
  revert idx. induction cnt as [| c IH]; intros idx; simpl.
  - intro H. inversion H. left. split; auto. intros. lia.
  - rewrite Nat.add_0_r.
    destruct (nth_error ents idx) as [a |] eqn:Ea; [| discriminate].
    destruct (nth_error il idx) as [b |] eqn:Eb; [| discriminate].
    destruct (e_term a =? e_term b) eqn:Et; simpl.
    + apply N.eqb_eq in Et. intro H. destruct (IH (S idx) H) as [[R A] | [j [a' [b' [Hj [A1 [A2 [A3 [A4 A5]]]]]]]]].
      * left. split; auto. intros j x y Hj Hx Hy. destruct (Nat.eq_dec j idx) as [-> | Hne].
        -- congruence.
        -- apply (A j); auto. lia.
      * right. exists j, a', b'. repeat split; auto; try lia.
        intros j' x y Hj' Hx Hy. destruct (Nat.eq_dec j' idx) as [-> | Hne]; [congruence|]. apply (A5 j'); auto. lia.
    + apply N.eqb_neq in Et. intro H. inversion H. right. exists idx, a, b. repeat split; auto; try lia.
Qed.
