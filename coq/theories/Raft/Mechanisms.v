(* Raft/Mechanisms.v — the five mechanisms named in C02's anchors, as facts about the transcribed handlers
   (each is a direct reading of one branch; together with election safety they are what the safety argument rests on). *)
From Coq Require Import List NArith ZArith Bool Lia.
From BLB Require Import Raft.Core.
Import ListNotations.
Open Scope N_scope.

(* 1. canGrantVote: a vote is granted only to a candidate whose log is at least as up to date as the voter's, and only if
      the voter has not voted for somebody else in this term *)
Lemma grant_implies_up_to_date s from li lt :
  can_grant_vote s from li lt = Ret true ->
  (p_vote (n_p s) = 0 \/ p_vote (n_p s) = from) /\
  exists vt, st_term (n_p s) (last_index (n_p s)) = Ret (vt, true) /\
             (vt < lt \/ (lt = vt /\ last_index (n_p s) <= li)).
Proof.
  unfold can_grant_vote.
  destruct (p_vote (n_p s) =? 0) eqn:E0; destruct (p_vote (n_p s) =? from) eqn:E1; simpl;
    try discriminate;
    (destruct (st_term (n_p s) (last_index (n_p s))) as [[vt ok] | |]; simpl; try discriminate;
     destruct ok; simpl; try discriminate;
     intro H; inversion H as [H1]; split;
     [ first [left; apply N.eqb_eq; assumption | right; apply N.eqb_eq; assumption]
     | exists vt; split; [reflexivity|];
       apply orb_true_iff in H1; destruct H1 as [H1 | H1];
       [left; apply N.ltb_lt; exact H1
       | right; apply andb_true_iff in H1; destruct H1 as [A B]; apply N.eqb_eq in A; apply N.leb_le in B; auto] ]).
Qed.

(* 2. maybeCommit: the leader never advances the commit index to an entry of an earlier term by counting replicas *)
Lemma leader_never_commits_earlier_term_by_counting s mi t :
  find_majority_index s = Ret mi -> n_commit s < mi ->
  st_term (n_p s) mi = Ret (t, true) -> t <> p_term (n_p s) ->
  leader_maybe_commit s = Ret s.
Proof.
  intros Hm Hc Ht Hne. unfold leader_maybe_commit. rewrite Hm. simpl.
  apply N.ltb_lt in Hc. rewrite Hc. rewrite Ht. simpl.
  apply N.eqb_neq in Hne. rewrite Hne. reflexivity.
Qed.

(* 3. consistency check: an AppEnts whose (prevLogIndex, prevLogTerm) is in neither log nor snapshot is rejected without
      touching the log *)
Lemma consistency_check_rejects s from pi pt cm oes :
  has_entry (n_p s) pi pt = Ret false ->
  exists s', handle_app_ents s from pi pt cm oes = Ret s' /\ n_p s' = n_p s /\ n_commit s' = n_commit s /\
             exists hint, n_msgs s' = n_msgs s ++ [{| m_term := p_term (n_p s); m_from := n_id s; m_to := from;
                                                     m_fromg := 0; m_tog := 0; m_epoch := 0;
                                                     m_body := AppEntsResp false pi hint |}].
Proof.
  intro H. unfold handle_app_ents. simpl. rewrite H. simpl.
  eexists. split; [reflexivity|]. simpl. repeat split; auto. eexists. reflexivity.
Qed.

(* 4. membership change: one at a time, and only after an entry of the current term is committed *)
Lemma reconfig_needs_committed_current_term s member rnd t :
  st_term (n_p s) (n_commit s) = Ret (t, true) -> t <> p_term (n_p s) ->
  leader_add_node s member rnd = Fatal F_RECONF_BEFORE_NOP /\ leader_remove_node s member = Fatal F_RECONF_BEFORE_NOP.
Proof.
  intros Ht Hne. unfold leader_add_node, leader_remove_node, verify_nop_committed. rewrite Ht. simpl.
  assert (E : (p_term (n_p s) =? t) = false) by (apply N.eqb_neq; congruence). rewrite E. simpl. auto.
Qed.

Lemma reconfig_one_at_a_time s member rnd conf :
  verify_nop_committed s = Ret tt -> n_conf s = Some conf -> latest_conf_committed s = false ->
  memb member (mb_members conf) = false ->
  leader_add_node s member rnd = Ret (E_TOO_MANY, s).
Proof.
  intros Hv Hc Hl Hm. unfold leader_add_node. rewrite Hv. simpl. rewrite Hc, Hm, Hl. reflexivity.
Qed.

(* 5. HandleMsg: a message with a stale term changes nothing but (possibly) the GUID table, and is never answered *)
Lemma stale_term_ignored s m s' :
  m_term m < p_term (n_p s) -> handle_msg s m = Ret s' ->
  n_msgs s' = n_msgs s /\ n_role s' = n_role s /\ n_commit s' = n_commit s /\
  p_term (n_p s') = p_term (n_p s) /\ p_vote (n_p s') = p_vote (n_p s) /\ p_log (n_p s') = p_log (n_p s) /\
  p_snap (n_p s') = p_snap (n_p s).
Proof.
  intros Hlt. unfold handle_msg.
  match goal with |- (if ?c then _ else _) = _ -> _ => destruct c end.
  { intro H. inversion H. subst. repeat split; auto. }
  match goal with |- (if ?c then _ else _) = _ -> _ => destruct c end.
  { intro H. inversion H. subst. repeat split; auto. }
  assert (H1 : forall s1, (if guid_get (m_from m) (p_guids (n_p s)) =? 0 then do_mut (MSetGuid (m_from m) (m_fromg m)) s else Ret s) = Ret s1 ->
               n_msgs s1 = n_msgs s /\ n_role s1 = n_role s /\ n_commit s1 = n_commit s /\
               p_term (n_p s1) = p_term (n_p s) /\ p_vote (n_p s1) = p_vote (n_p s) /\ p_log (n_p s1) = p_log (n_p s) /\
               p_snap (n_p s1) = p_snap (n_p s) /\ get_epoch s1 = get_epoch s).
  { intros s1. destruct (guid_get (m_from m) (p_guids (n_p s)) =? 0).
    - unfold do_mut. destruct (negb (n_budget s =? 0) && (n_budget s =? n_cnt s + 1)); [discriminate|].
      intro E. inversion E. simpl. repeat split; auto.
    - intro E. inversion E. repeat split; auto. }
  destruct (if guid_get (m_from m) (p_guids (n_p s)) =? 0 then do_mut (MSetGuid (m_from m) (m_fromg m)) s else Ret s) as [s1 | |];
    simpl; try discriminate.
  destruct (H1 s1 eq_refl) as [A [B [C [D [E [F [G Hh]]]]]]].
  match goal with |- (if ?c then _ else _) = _ -> _ => destruct c end.
  { intro H. inversion H. subst. repeat split; auto. }
  assert (Hs : (m_term m <? p_term (n_p s1)) = true) by (apply N.ltb_lt; lia).
  rewrite Hs. intro H. inversion H. subst. repeat split; auto.
Qed.
