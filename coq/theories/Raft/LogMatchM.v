(* Raft/LogMatchM.v — round 7: the log-matching invariant of Raft/LogMatch.v re-based for membership changes.
   ginvM = ginv without the fixed-quorum election invariant and without the configuration-size invariant: what it used
   of them (ids non-empty and distinct, one leader per term in the history) are now fields, and the step lemma takes
   election safety of the post-state as a hypothesis — the caller derives it from the mutual induction
   (Raft/MemberAbstract.v).  The step lemma is generated from LogMatch.ginv_step_abs by text replacement. *)
From Coq Require Import List NArith ZArith Bool Lia ZifyN ZifyNat ZifyBool.
From BLB Require Import Lib.LTS Raft.Core Raft.Wire Raft.NodeProofs Raft.NodeKeep Raft.NodeElect Raft.NodeConf
  Raft.Election Raft.ElectionFixed Raft.LogMatchLists Raft.LogMatchNode Raft.LogMatch Raft.LogMatchNodeM.
Import ListNotations.
Open Scope N_scope.

Lemma nstep_of_run_M s ev k crashed st s' :
  base s -> evokM s ev -> run_event_crash (settle s) ev k = Ret (crashed, st, s') -> nstep s ev k s'.
Proof.
  intros Hb He Hrun. destruct (step_facts _ _ _ _ _ _ Hrun) as [Hid [Hp [Hm Hs]]].
  constructor; auto.
  - intros m Em. subst ev. eapply deliver_term; eauto.
  - eapply run_event_crash_lm_M; eauto.
Qed.

Section InvM.
  Variables (bm : list nid) (be : N).
  Let bootE := boot_entry bm be.

  Record ginvM (σ : sys) (G : list lrec) : Prop := {
    g_nz : forall i s, get_node i (sy_nodes σ) = Some s -> n_id s <> 0;
    g_nd : NoDup (map n_id (sy_nodes σ));
    g_es : forall t a b, In (t, a) (sy_hist σ) -> In (t, b) (sy_hist σ) -> a = b;
    g_base : forall i s, get_node i (sy_nodes σ) = Some s -> base s;
    g_hist_leader : forall i s, get_node i (sy_nodes σ) = Some s -> n_role s = Leader -> In (p_term (n_p s), n_id s) (sy_hist σ);
    g_rec_leader : forall i s, get_node i (sy_nodes σ) = Some s -> n_role s = Leader -> In (p_term (n_p s), n_id s, p_log (n_p s)) G;
    g_rec_hist : forall t i l, In (t, i, l) G -> (i = 0 /\ t = 1 /\ l = [bootE]) \/ (i <> 0 /\ In (t, i) (sy_hist σ) /\ 2 <= t);
    g_rec_node : forall t i l, In (t, i, l) G -> i <> 0 ->
                   exists s, get_node i (sy_nodes σ) = Some s /\ t <= p_term (n_p s) /\
                             (t = p_term (n_p s) -> n_role s <> Candidate /\ (n_role s = Leader -> pfx l (p_log (n_p s))));
    g_cmp : cmp_ok G;
    g_rec_wf : forall t i l, In (t, i, l) G -> wf_from 1 l;
    g_lm_rec : forall t i l, In (t, i, l) G -> lm G l;
    g_lm_node : forall i s, get_node i (sy_nodes σ) = Some s -> lm G (p_log (n_p s));
    g_msgs : forall m, In m (sy_soup σ) -> msg_ok3 G m;
    g_boot : In (1, 0, [bootE]) G;
    g_tb_rec : forall t i l, In (t, i, l) G -> tbound t l /\ tmono l;
    g_tb_node : forall i s, get_node i (sy_nodes σ) = Some s -> tbound (p_term (n_p s)) (p_log (n_p s)) /\ tmono (p_log (n_p s))
  }.

  Lemma ginvM_step_abs σ G i s ev k s' :
    ginvM σ G ->
    get_node i (sy_nodes σ) = Some s -> (forall m, ev = EDeliver m -> In m (sy_soup σ) /\ m_to m <> 0) ->
    evres bm be ev -> nstep s ev k s' ->
    (forall t a b, In (t, a) (sy_hist (step_sys σ s')) -> In (t, b) (sy_hist (step_sys σ s')) -> a = b) ->
    ginvM (step_sys σ s') (G ++ rec_of s s').
  Proof.
    intros GI Gs Hdel Hres NS ESp.
    unfold step_sys in *. simpl in ESp.
    destruct NS as [Hid Hp Hm He Hdt NI].
    destruct (get_node_in _ _ _ Gs) as [Gin Gid].
    assert (Hi : n_id s' = i) by congruence.
    assert (Gs' : get_node i (put_node s' (sy_nodes σ)) = Some s').
    { rewrite <- Hi. eapply get_put_same. rewrite Hi. exact Gs. }
    assert (Go : forall j, j <> i -> get_node j (put_node s' (sy_nodes σ)) = get_node j (sy_nodes σ)).
    { intros j Hj. apply get_put_other. congruence. }
    assert (Gcase : forall j x, get_node j (put_node s' (sy_nodes σ)) = Some x ->
                      (j = i /\ x = s') \/ (j <> i /\ get_node j (sy_nodes σ) = Some x)).
    { intros j x Hx. destruct (N.eq_dec j i) as [E | E].
      - subst j. rewrite Gs' in Hx. inversion Hx. auto.
      - rewrite Go in Hx; auto. }
    assert (Hnz : n_id s <> 0) by (eapply (g_nz σ G GI); eauto).
    set (s0' := with_budget (settle s) k) in NI.
    pose proof (v_snap _ _ _ _ _ _ _ _ _ NI) as N_snap. pose proof (v_wf _ _ _ _ _ _ _ _ _ NI) as N_wf.
    pose proof (v_n1 _ _ _ _ _ _ _ _ _ NI) as N_n1. pose proof (v_n2 _ _ _ _ _ _ _ _ _ NI) as N_n2.
    pose proof (v_tm _ _ _ _ _ _ _ _ _ NI) as N_tm. change (p_term (n_p s0')) with (p_term (n_p s)) in N_tm.
    pose proof (v_rt _ _ _ _ _ _ _ _ _ NI) as N_rt. change (p_term (n_p s0')) with (p_term (n_p s)) in N_rt.
    change (n_role s0') with (n_role s) in N_rt.
    pose proof (v_lr _ _ _ _ _ _ _ _ _ NI) as N_lr. pose proof (v_msgs _ _ _ _ _ _ _ _ _ NI) as N_msgs. pose proof (v_lead _ _ _ _ _ _ _ _ _ NI) as N_lead.
    pose proof (g_base σ G GI i s Gs) as [B_snap [B_wf [B_n1 [B_n2 B_pk]]]].
    set (T' := p_term (n_p s')) in *. set (L' := p_log (n_p s')) in *. set (L0 := p_log (n_p s)) in *.
    set (cond := n_role s' = Leader \/ (n_role s = Leader /\ T' = p_term (n_p s))).
    set (G' := G ++ rec_of s s').
    assert (HG : incl G G') by (intros r Hr; apply in_or_app; left; exact Hr).
    assert (Hrec_in : cond -> In (T', n_id s', L') G').
    { intro Hc. apply in_or_app. right. apply rec_of_in. exact Hc. }
    assert (Hrec_new : forall r, In r (rec_of s s') -> r = (T', n_id s', L') /\ cond).
    { intros r Hr. apply in_rec_of in Hr. exact Hr. }
    assert (Hcond2 : cond -> 2 <= T' /\ In (T', n_id s') (sy_hist σ ++ hist_of s')).
    { intros [Hc | [Hc1 Hc2]].
      - split; [apply N_n2; congruence|]. apply in_or_app. right. unfold hist_of. rewrite Hc. left. reflexivity.
      - split; [rewrite Hc2; apply B_n2; congruence|]. apply in_or_app. left. rewrite Hc2, Hid.
        apply (g_hist_leader σ G GI i s Gs Hc1). }
    assert (Hlead_same : T' = p_term (n_p s) -> n_role s <> Candidate -> n_role s' = Leader -> n_role s = Leader).
    { intros Et Hnc Hl. destruct (N_rt Et) as [X | [X | [X _]]]; congruence. }
    assert (Hext : n_role s = Leader -> T' = p_term (n_p s) -> pfx L0 L').
    { intros Hr Et. destruct (strong_lr _ _ _ _ _ N_lr Hr Et) as [X | [new [X _]]].
      - unfold L', L0. change (p_log (n_p s0')) with (p_log (n_p s)) in X. rewrite X. apply pfx_refl.
      - unfold L', L0. change (p_log (n_p s0')) with (p_log (n_p s)) in X. rewrite X. exists new. reflexivity. }
    assert (Hnewold : forall j l, In (T', j, l) G -> cond -> comparable l L').
    { intros j l Hin Hc. destruct (Hcond2 Hc) as [H2 Hh].
      destruct (g_rec_hist σ G GI _ _ _ Hin) as [[Z1 [Z2 Z3]] | [Jnz [Jh J2]]]; [lia|].
      assert (Ej : j = n_id s').
      { apply (ESp T'); [apply in_or_app; left; exact Jh | exact Hh]. }
      destruct (g_rec_node σ G GI _ _ _ Hin Jnz) as [x [Gx [Le Eq]]].
      rewrite Ej, Hi, Gs in Gx. inversion Gx. subst x.
      assert (Et : T' = p_term (n_p s)) by lia. destruct (Eq Et) as [Hnc Hpf].
      assert (Hr : n_role s = Leader).
      { destruct Hc as [Hc | [Hc _]]; [apply Hlead_same; auto | exact Hc]. }
      left. eapply pfx_trans; [apply Hpf; exact Hr | apply Hext; auto]. }
    (* the new log satisfies LM w.r.t. the extended record set *)
    assert (LMs' : lm G' L').
    { pose proof (g_lm_node σ G GI i s Gs) as LM0. fold L0 in LM0.
      unfold LR in N_lr. cbv zeta in N_lr. change (p_log (n_p s0')) with L0 in N_lr.
      change (p_term (n_p s0')) with (p_term (n_p s)) in N_lr. change (n_role s0') with (n_role s) in N_lr.
      fold L' in N_lr. fold T' in N_lr.
      destruct N_lr as [X | [[_ [_ [a2 [c [_ [_ [X _]]]]]]] | [[_ [_ [b [Xb [X0 X]]]]] | [[Xr [Xt [new [X Xn]]]] | [_ [_ [a [Xa [Xt Xm]]]]]]]]].
      - rewrite X. eapply lm_mono; eauto.
      - rewrite X. apply lm_firstn. eapply lm_mono; eauto.
      - assert (Eb : b = bootE).
        { destruct ev; simpl in Xb; try discriminate. inversion Xb. simpl in Hres. destruct Hres as [-> ->]. reflexivity. }
        rewrite X, Eb. intros k0 e0 Hk. destruct k0; [| destruct k0; discriminate]. simpl in Hk. inversion Hk. subst e0.
        exists 0, [bootE]. split; [apply HG; apply (g_boot σ G GI) | reflexivity].
      - rewrite X. eapply lm_app_leader with (t := T') (i := n_id s'); eauto.
        + rewrite <- X. apply Hrec_in. right. split; auto.
        + rewrite Xt. exact Xn.
      - assert (Hm' : exists m pi pt cm ents, ev = EDeliver m /\ m_body m = AppEnts pi pt cm (Some ents) /\
                         a = {| ai_term := m_term m; ai_pi := pi; ai_pt := pt; ai_ents := ents |}).
        { destruct ev; simpl in Xa; try discriminate. destruct (m_body m) eqn:Eb; try discriminate.
          destruct ents; try discriminate. inversion Xa. eexists _, _, _, _, _. repeat split; eauto. }
        destruct Hm' as [m [pi [pt [cm [ents [Eev [Eb Ea]]]]]]].
        destruct (Hdel m Eev) as [Min _]. pose proof (g_msgs σ G GI m Min) as Mk. unfold msg_ok3 in Mk. rewrite Eb in Mk.
        destruct Mk as [j [l [Rin [Sl _]]]].
        eapply lm_mono; [exact HG|].
        eapply lm_merged with (L0 := L0) (l := l) (a := a); eauto.
        + apply (g_cmp σ G GI).
        + eapply (g_lm_rec σ G GI); eauto.
        + rewrite Ea. simpl. exact Sl. }
    assert (TBs' : tbound T' L' /\ tmono L').
    { destruct (g_tb_node σ G GI i s Gs) as [TB0 TM0]. fold L0 in TB0, TM0.
      assert (TB0' : tbound T' L0) by (eapply tbound_le; [exact N_tm | exact TB0]).
      unfold LR in N_lr. cbv zeta in N_lr. change (p_log (n_p s0')) with L0 in N_lr.
      change (p_term (n_p s0')) with (p_term (n_p s)) in N_lr. change (n_role s0') with (n_role s) in N_lr.
      fold L' in N_lr. fold T' in N_lr.
      destruct N_lr as [X | [[_ [_ [a2 [c [_ [_ [X _]]]]]]] | [[_ [_ [b [Xb [X0 X]]]]] | [[Xr [Xt [new [X Xn]]]] | [_ [_ [a [Xa [Xt Xm]]]]]]]]].
      - rewrite X. auto.
      - rewrite X. split; [apply tbound_firstn | apply tmono_firstn]; auto.
      - assert (Eb : b = bootE).
        { destruct ev; simpl in Xb; try discriminate. inversion Xb. simpl in Hres. destruct Hres as [-> ->]. reflexivity. }
        rewrite X, Eb. split.
        + constructor; [| constructor]. simpl.
          destruct N_n1 as [[Z _] | Z]; [fold L' in Z; rewrite X in Z; discriminate | fold T' in Z; lia].
        + intros k1 k2 e1 e2 Hk H1 H2. destruct k2; [| destruct k2; discriminate]. destruct k1; [| lia]. simpl in H1, H2. inversion H1. inversion H2. subst. apply N.le_refl.
      - rewrite X. split.
        + apply Forall_app. split; auto. eapply Forall_impl; [| exact Xn]. intros e0 He0. simpl in He0. lia.
        + eapply tmono_app_new with (t := p_term (n_p s)); eauto.
      - assert (Hm' : exists m pi pt cm ents, ev = EDeliver m /\ m_body m = AppEnts pi pt cm (Some ents) /\
                         a = {| ai_term := m_term m; ai_pi := pi; ai_pt := pt; ai_ents := ents |}).
        { destruct ev; simpl in Xa; try discriminate. destruct (m_body m) eqn:Eb; try discriminate.
          destruct ents; try discriminate. inversion Xa. eexists _, _, _, _, _. repeat split; eauto. }
        destruct Hm' as [m [pi [pt [cm [ents [Eev [Eb Ea]]]]]]].
        destruct (Hdel m Eev) as [Min _]. pose proof (g_msgs σ G GI m Min) as Mk. unfold msg_ok3 in Mk. rewrite Eb in Mk.
        destruct Mk as [j [l [Rin [Sl _]]]].
        assert (Sl' : slice l (ai_pi a) (ai_pt a) (Some (ai_ents a))) by (rewrite Ea; simpl; exact Sl).
        rewrite (merged_eq G L0 L' l a (g_cmp σ G GI) (g_lm_node σ G GI i s Gs) (g_lm_rec σ G GI _ _ _ Rin) Sl' Xm).
        destruct (g_tb_rec σ G GI _ _ _ Rin) as [TBl TMl].
        split; [apply tbound_firstn | apply tmono_firstn]; auto.
        rewrite Xt, Ea. simpl. exact TBl. }
    constructor; simpl.
    - intros j x Hx. destruct (Gcase j x Hx) as [[_ E] | [_ E]]; [subst x; congruence | eapply (g_nz σ G GI); eauto].
    - rewrite put_node_ids. apply (g_nd σ G GI).
    - exact ESp.
    - intros j x Hx. destruct (Gcase j x Hx) as [[_ E] | [_ E]]; [subst x | eapply (g_base σ G GI); eauto].
      unfold base. split; auto. split; auto. split; auto. split; auto.
      intro Hl. destruct (v_ext _ _ _ _ _ _ _ _ _ NI) as [_ [_ [_ Pk]]]. destruct (Pk Hl) as [P1 [P2 _]]. auto.
    - intros j x Hx Hl. destruct (Gcase j x Hx) as [[_ E] | [_ E]].
      + subst x. apply in_or_app. right. unfold hist_of. rewrite Hl. left. reflexivity.
      + apply in_or_app. left. eapply (g_hist_leader σ G GI); eauto.
    - intros j x Hx Hl. destruct (Gcase j x Hx) as [[_ E] | [_ E]].
      + subst x. apply Hrec_in. left. exact Hl.
      + apply HG. eapply (g_rec_leader σ G GI); eauto.
    - intros t j l Hin. apply in_app_or in Hin. destruct Hin as [Hin | Hin].
      + destruct (g_rec_hist σ G GI _ _ _ Hin) as [Z | [Z1 [Z2 Z3]]]; [left; exact Z | right].
        split; auto. split; auto. apply in_or_app. left. exact Z2.
      + destruct (Hrec_new _ Hin) as [Er Hc]. inversion Er. subst t j l. right. destruct (Hcond2 Hc) as [A B].
        split; [congruence|]. split; auto.
    - intros t j l Hin Jnz. apply in_app_or in Hin. destruct Hin as [Hin | Hin].
      + destruct (g_rec_node σ G GI _ _ _ Hin Jnz) as [x [Gx [Le Eq]]].
        destruct (N.eq_dec j i) as [E | E].
        * subst j. rewrite Gs in Gx. inversion Gx. subst x. exists s'. split; auto. split; [fold T'; lia|].
          fold T'. intro Et. assert (Et' : t = p_term (n_p s)) by lia. destruct (Eq Et') as [Hnc Hpf].
          assert (Ett : T' = p_term (n_p s)) by lia.
          split.
          -- intro Hc. destruct (N_rt Ett) as [X | [X | [X _]]]; congruence.
          -- intro Hl. pose proof (Hlead_same Ett Hnc Hl) as Hr. fold L'. eapply pfx_trans; [apply Hpf; exact Hr | apply Hext; auto].
        * exists x. split; [rewrite Go; auto | auto].
      + destruct (Hrec_new _ Hin) as [Er Hc]. inversion Er. subst t j l. exists s'. rewrite Hi. split; auto.
        split; [fold T'; lia|]. intros _. split; [| intros _; apply pfx_refl].
        destruct Hc as [Hc | [Hc1 Hc2]]; [congruence|].
        destruct (N_rt Hc2) as [X | [X | [X _]]]; congruence.
    - intros t j l j' l' H1 H2. apply in_app_or in H1. apply in_app_or in H2.
      destruct H1 as [H1 | H1]; destruct H2 as [H2 | H2].
      + eapply (g_cmp σ G GI); eauto.
      + destruct (Hrec_new _ H2) as [Er Hc]. inversion Er. subst t j' l'. eapply Hnewold; eauto.
      + destruct (Hrec_new _ H1) as [Er Hc]. inversion Er. subst t j l. apply comparable_sym. eapply Hnewold; eauto.
      + destruct (Hrec_new _ H1) as [Er Hc]. destruct (Hrec_new _ H2) as [Er' _]. inversion Er. inversion Er'. subst. left. apply pfx_refl.
    - intros t j l Hin. apply in_app_or in Hin. destruct Hin as [Hin | Hin].
      + eapply (g_rec_wf σ G GI); eauto.
      + destruct (Hrec_new _ Hin) as [Er _]. inversion Er. exact N_wf.
    - intros t j l Hin. apply in_app_or in Hin. destruct Hin as [Hin | Hin].
      + eapply lm_mono; [exact HG|]. eapply (g_lm_rec σ G GI); eauto.
      + destruct (Hrec_new _ Hin) as [Er _]. inversion Er. exact LMs'.
    - intros j x Hx. destruct (Gcase j x Hx) as [[_ E] | [_ E]].
      + subst x. exact LMs'.
      + eapply lm_mono; [exact HG|]. eapply (g_lm_node σ G GI); eauto.
    - intros m Hin. apply in_app_or in Hin. destruct Hin as [Hin | Hin].
      + eapply msg_ok3_mono; [exact HG|]. apply (g_msgs σ G GI); auto.
      + apply in_out_msgs in Hin. destruct Hin as [m0 [H0 [Et [Ef [Eto Eb]]]]].
        unfold msgs_ok in Hm. rewrite Forall_forall in Hm. destruct (Hm m0 H0) as [X [Y Z]].
        rewrite Forall_forall in N_msgs. pose proof (N_msgs m0 H0) as Mg. unfold mgood in Mg.
        unfold msg_ok3. rewrite Eb. destruct (m_body m0) eqn:Ebody; auto.
        assert (Hc : cond).
        { destruct N_lead as [Na | Ld].
          - unfold no_appents in Na. rewrite Forall_forall in Na. exfalso. apply (Na m0 H0). unfold is_appents. rewrite Ebody. exact Logic.I.
          - unfold leaderish in Ld. change (n_role s0') with (n_role s) in Ld. change (p_term (n_p s0')) with (p_term (n_p s)) in Ld. exact Ld. }
        destruct (Hcond2 Hc) as [H2 _].
        exists (n_id s'), L'. split; [rewrite Et, X; apply Hrec_in; exact Hc|]. split; [exact Mg|]. rewrite Et, X. fold T'. lia.
    - apply HG. apply (g_boot σ G GI).
    - intros t j l Hin. apply in_app_or in Hin. destruct Hin as [Hin | Hin].
      + eapply (g_tb_rec σ G GI); eauto.
      + destruct (Hrec_new _ Hin) as [Er _]. inversion Er. exact TBs'.
    - intros j x Hx. destruct (Gcase j x Hx) as [[_ E] | [_ E]].
      + subst x. exact TBs'.
      + eapply (g_tb_node σ G GI); eauto.
  Qed.


  (* deliveries of this alphabet satisfy the node-level premise evok4 *)
  Lemma ginvM_deliver_ok σ G m :
    ginvM σ G -> In m (sy_soup σ) -> evok4 (EDeliver m).
  Proof.
    intros GI Min. simpl. pose proof (g_msgs σ G GI m Min) as Mk. unfold msg_ok3 in Mk.
    destruct (m_body m); auto. destruct ents as [es |]; auto. destruct Mk as [j [l1 [X [Y Z]]]]. split; auto.
    eapply slice_wf; eauto. eapply (g_rec_wf σ G GI); eauto.
  Qed.
End InvM.
