(* Raft/LogMatchNodeMQ.v — the same as Raft/LogMatchNodeM.v over Raft/LogMatchNodeQ.v (generated).
   Raft/LogMatchNodeM.v — round 7: the node-level log-matching pass (LogMatchNodeQ.inv) for the two events it excluded,
   AddNode and RemoveNode.  At a leader both are "set the configuration, touch the peer table, leader_propose one
   configuration entry" (RemoveNode: followed by one more leader_maybe_commit), so the unchanged record inv is
   re-established from post_leader_propose.  Premises at the touched node: the id to add is not the node itself and is
   not in the peer table (the system supplies both from peers_ok, Raft/MemberPeers.v). *)
From Coq Require Import List NArith ZArith Bool Lia ZifyN ZifyNat ZifyBool.
From BLB Require Import Raft.Core Raft.NodeProofs Raft.NodeKeep Raft.NodeElect Raft.CommitCount Raft.LogMatchLists Raft.LogMatchNodeQ.
Import ListNotations.
Open Scope N_scope.

Section LVM.
  Variable s0 : node.
  Variable inp : option ainp.
  Variable boot : option entry.
  Variable RT : N -> N -> Prop.
  Variable VQ : nid -> list entry -> Prop.
  Variable LQ : list entry -> N -> Prop.
  Hypothesis HLQ : forall t, p_term (n_p s0) < t -> LQ (p_log (n_p s0)) t.
  Variable DC : N -> Prop.
  Variable RSP : nid -> N -> N -> Prop.

  Local Notation inv := (LogMatchNodeQ.inv s0 inp boot RT VQ LQ DC RSP).
  Local Notation post := (LogMatchNodeQ.post s0 inp boot RT VQ LQ DC RSP).
  Local Notation post2 := (LogMatchNodeQ.post2 s0 inp boot RT VQ LQ DC RSP).
  Local Notation postQ := (LogMatchNodeQ.postQ s0 inp boot RT VQ LQ DC RSP).

  Lemma pure_verify_nop s : pure (verify_nop_committed s).
  Proof.
    unfold verify_nop_committed. pose proof (pure_st_term (n_p s) (n_commit s)) as P.
    destruct (st_term (n_p s) (n_commit s)) as [[t ok] | |]; simpl in *; auto.
    destruct (negb ok); simpl; auto. destruct (negb (p_term (n_p s) =? t)); simpl; auto.
  Qed.

  Lemma post2_add_node member rnd :
    base s0 -> n_msgs s0 = [] -> member <> n_id s0 ->
    (n_role s0 = Leader -> forall c, n_conf s0 = Some c -> memb member (mb_members c) = false -> peer_get member (l_peers s0) = None) ->
    post2 (add_node s0 member rnd).
  Proof.
    intros Hb Hm Hne Hpg. pose proof (inv_start s0 inp boot RT VQ LQ DC RSP Hb Hm) as I.
    unfold add_node. destruct (n_role s0) eqn:Er; try (simpl; exact I). specialize (Hpg eq_refl).
    unfold leader_add_node. pose proof (pure_verify_nop s0) as Pv.
    destruct (verify_nop_committed s0) as [[] | |]; simpl in *; auto; [| contradiction].
    destruct (n_conf s0) as [c |] eqn:Ec; [| simpl; auto].
    destruct (memb member (mb_members c)) eqn:Emb; [simpl; exact I|]. specialize (Hpg c eq_refl Emb).
    destruct (negb (latest_conf_committed s0)); [simpl; exact I|].
    cbv zeta.
    match goal with |- post2 (bind (leader_propose (set_leader ?x1 _ (peer_set ?q _)) ?es) _) => set (s1 := x1); set (newp := q) end.
    assert (H2 : 2 <= p_term (n_p s0)) by (apply (v_n2 _ _ _ _ _ _ _ _ _ I); congruence).
    assert (I1 : inv s1).
    { eapply (inv_frame s0 inp boot RT VQ LQ DC RSP s0 s1 I); try reflexivity.
      - left. reflexivity.
      - right. split; [lia | reflexivity].
      - exists []. rewrite app_nil_r. split; [reflexivity|]. split; [constructor|]. split; [left; constructor | constructor]. }
    assert (I2 : inv (set_leader s1 (l_check s1) (peer_set newp (l_peers s1)))).
    { apply (inv_peer_set s0 inp boot RT VQ LQ HLQ DC RSP s1 newp (l_check s1) I1).
      - intros p0 Hp0. simpl in Hp0. rewrite Hpg in Hp0. discriminate.
      - left. left. reflexivity.
      - intros _. simpl. exact Hne. }
    apply (post2_of_post s0 inp boot RT VQ LQ DC RSP).
    apply (post_leader_propose s0 inp boot RT VQ LQ HLQ DC RSP); auto.
    split; [exact Er | reflexivity].
  Qed.

  (* ---------------------------------------------------------------- RemoveNode *)
  Lemma pasc_filter f l : pasc l -> pasc (filter f l).
  Proof.
    induction l as [| p r IH]; simpl; auto. intros [H1 H2]. destruct (f p); simpl; auto. split; auto.
    intros q Hq. apply filter_In in Hq. apply H1. tauto.
  Qed.

  Lemma inv_peer_del s x chk :
    inv s -> n_commit s <= n_commit s0 -> inv (set_leader s chk (peer_del x (l_peers s))).
  Proof.
    intros I Hc. destruct I as [A1 A2 A3 A4 A5 A6 A7 A8 A9 A10]. constructor; simpl; auto.
    destruct A10 as [E1 [E2 [_ E4]]]. unfold ext. simpl. split; [exact E1|]. split; [exact E2|]. split; [left; exact Hc|].
    intro Hr. destruct (E4 Hr) as [P1 [P2 P3]]. unfold pk, peer_del. simpl. split; [apply pasc_filter; exact P1|]. split.
    - intros p Hp. apply filter_In in Hp. apply P2. tauto.
    - intros p Hp. apply filter_In in Hp. destruct Hp as [Hp _]. exact (P3 p Hp).
  Qed.

  Definition sl (x : node) : Prop := strong s0 x /\ n_role x = Leader.

  Lemma postQ_commit_tail_L s mi f :
    inv s -> strong s0 s -> n_role s = Leader -> l_peers s = [] -> n_commit s <= mi -> cjust s0 inp RT DC RSP s mi ->
    in_latest_conf s = true ->
    postQ sl (s1 <- leader_commit_up_to s mi ;; for_peers (peer_ids s1) f s1).
  Proof.
    intros I St Hr Lp Hle J Hic.
    eapply postQ_bindQ with (Q := fun x => sl x /\ l_peers x = []).
    - unfold leader_commit_up_to. cbv zeta.
      eapply postQ_bindQ; [apply postQ_commit_up_to; auto|].
      intros s1 I1 [_ [T1 [R1 [_ [C1 [P1 Id1]]]]]].
      assert (Hic1 : in_latest_conf s1 = true) by (unfold in_latest_conf in *; rewrite C1, Id1; exact Hic).
      rewrite Hic1. cbn [negb andb]. rewrite andb_false_r.
      apply postQ_ret; [exact I1|]. split; [| congruence]. split; [| congruence].
      destruct St as [S1 S2]. split; [exact S1 | congruence].
    - intros s1 I1 [Q1 P1]. unfold peer_ids. rewrite P1. cbn [map for_peers]. apply postQ_ret; auto.
  Qed.

  Lemma postQ_leader_maybe_commit_L s :
    inv s -> strong s0 s -> n_role s = Leader -> l_peers s = [] -> postQ sl (leader_maybe_commit s).
  Proof.
    intros I St Hr Lp. unfold leader_maybe_commit.
    apply postQ_bind_pure; [apply pure_find_majority_index|]. intros mi Hf.
    destruct (n_commit s <? mi) eqn:Ec; [| apply postQ_ret; [exact I | split; auto]]. apply N.ltb_lt in Ec.
    apply postQ_bind_pure; [apply pure_st_term|]. intros [t ok] Hst.
    destruct ok; [| simpl; auto]. cbn [negb].
    destruct (t =? p_term (n_p s)) eqn:Et; cbn [negb]; [| apply postQ_ret; [exact I | split; auto]]. apply N.eqb_eq in Et.
    destruct (leader_cjust s0 inp boot RT VQ LQ DC RSP s mi t I Hr Hf Hst Et) as [J Hic]. specialize (Hic Lp).
    apply postQ_commit_tail_L; auto. lia.
  Qed.

  Lemma postQ_leader_propose_L s es :
    inv s -> strong s0 s -> n_role s = Leader -> p_log (n_p s) = p_log (n_p s0) -> n_msgs s = [] -> n_commit s = n_commit s0 ->
    postQ sl (leader_propose s es).
  Proof.
    intros I St Hrl Hl Hmsg Hcm. unfold leader_propose.
    eapply postQ_bindQ; [apply post_log_append_leader; auto|].
    intros s1 I1 [St1 Rl1].
    eapply postQ_bindQ with (Q := sl).
    - apply post_for_peers; [| exact I1 | split; auto]. intros s3 p I3 [St3 Rl3] Hp.
      match goal with |- LogMatchNodeQ.postQ _ _ _ _ _ _ _ _ _ (if ?c then _ else _) => destruct c end; [| simpl; split; [exact I3 | split; auto]].
      eapply postQ_mono; [| apply postQ_send_app_ents; eauto using strong_leaderish].
      intros x Hx. split; [eapply sameL_strong; eauto | destruct Hx as [_ [_ [Rx _]]]; congruence].
    - intros s2 I2 [St2 Rl2]. destruct (l_peers s2) eqn:Lp; [| simpl; split; [exact I2 | split; auto]].
      apply postQ_leader_maybe_commit_L; auto.
  Qed.

  Lemma post2_remove_node member :
    base s0 -> n_msgs s0 = [] -> post2 (remove_node s0 member).
  Proof.
    intros Hb Hm. pose proof (inv_start s0 inp boot RT VQ LQ DC RSP Hb Hm) as I.
    unfold remove_node. destruct (n_role s0) eqn:Er; try (simpl; exact I).
    unfold leader_remove_node. pose proof (pure_verify_nop s0) as Pv.
    destruct (verify_nop_committed s0) as [[] | |]; simpl in *; auto; [| contradiction].
    destruct (n_conf s0) as [c |] eqn:Ec; [| simpl; auto].
    destruct (negb (memb member (mb_members c))); [simpl; exact I|].
    destruct (negb (latest_conf_committed s0)); [simpl; exact I|].
    cbv zeta.
    match goal with |- post2 (bind (leader_propose (set_conf ?x1 ?cf) ?es) _) => set (s1 := x1); set (ncf := cf) end.
    assert (H2 : 2 <= p_term (n_p s0)) by (apply (v_n2 _ _ _ _ _ _ _ _ _ I); congruence).
    assert (I1 : inv s1) by (apply inv_peer_del; [exact I | apply N.le_refl]).
    assert (I2 : inv (set_conf s1 ncf)).
    { eapply (inv_frame s0 inp boot RT VQ LQ DC RSP s1 (set_conf s1 ncf) I1); try reflexivity.
      - left. reflexivity.
      - right. split; [simpl; lia | reflexivity].
      - exists []. rewrite app_nil_r. split; [reflexivity|]. split; [constructor|]. split; [left; constructor | constructor]. }
    assert (P : postQ sl (leader_propose (set_conf s1 ncf) [conf_entry (match ncf with Some x => x | None => c end)])).
    { apply postQ_leader_propose_L; auto. split; [exact Er | reflexivity]. }
    unfold ncf in P at 2. 
    match goal with |- post2 (bind ?a _) => destruct a as [s3 | |] end; simpl in *; auto.
    destruct P as [I3 [St3 Rl3]].
    pose proof (post_leader_maybe_commit_strong s0 inp boot RT VQ LQ HLQ DC RSP s3 I3 St3 Rl3) as P4.
    destruct (leader_maybe_commit s3) as [s4 | |]; simpl in *; auto. tauto.
  Qed.
End LVM.

(* ---------------------------------------------------------------- the event with a crash point, AddNode / RemoveNode included *)
Definition evokM (s : node) (ev : event) : Prop :=
  match ev with
  | EAddNode x _ => x <> n_id s /\
                    (n_role s = Leader -> forall c, n_conf s = Some c -> memb x (mb_members c) = false -> peer_get x (l_peers s) = None)
  | ERemoveNode _ => True
  | _ => evok4 ev
  end.

Theorem run_event_crash_lm_M s ev k crashed st s' :
  base s -> evokM s ev -> run_event_crash (settle s) ev k = Ret (crashed, st, s') ->
  inv (with_budget (settle s) k) (inp_of ev) (boot_of ev) (rt_of ev) (vq_of ev) (lq_of s) (dc_of ev) (rsp_of ev) s'.
Proof.
  intros Hb He.
  assert (Hgen : post2 (with_budget (settle s) k) (inp_of ev) (boot_of ev) (rt_of ev) (vq_of ev) (lq_of s) (dc_of ev) (rsp_of ev)
                   (run_event (with_budget (settle s) k) ev) ->
                 run_event_crash (settle s) ev k = Ret (crashed, st, s') ->
                 inv (with_budget (settle s) k) (inp_of ev) (boot_of ev) (rt_of ev) (vq_of ev) (lq_of s) (dc_of ev) (rsp_of ev) s').
  { intro P. unfold run_event_crash. set (s0 := with_budget (settle s) k) in *.
    destruct (run_event s0 ev) as [[st0 x] | c | p]; simpl in *; try discriminate.
    - intro H. inversion H. subst. eapply inv_vol; eauto.
    - pose proof (post_new_core s0 (inp_of ev) (boot_of ev) (rt_of ev) (vq_of ev) (lq_of s) (dc_of ev) (rsp_of ev) (n_id s) (n_cfg s) p P) as Q.
      destruct (new_core (n_id s) (n_cfg s) p); simpl in *; try discriminate.
      intro H. inversion H. subst. exact Q. }
  set (s0 := with_budget (settle s) k) in *.
  assert (Hb0 : base s0) by (unfold base in *; simpl; exact Hb).
  assert (Hq : forall t, p_term (n_p s0) < t -> lq_of s (p_log (n_p s0)) t) by (intros t Ht; split; [reflexivity | exact Ht]).
  destruct ev; try (apply run_event_crash_lm; assumption).
  - destruct He as [He1 He2]. apply Hgen. simpl.
    apply (post2_add_node s0 None None _ _ (lq_of s) Hq _ _ member rnd Hb0 eq_refl He1 He2).
  - apply Hgen. simpl. apply (post2_remove_node s0 None None _ _ (lq_of s) Hq _ _ member Hb0 eq_refl).
Qed.
