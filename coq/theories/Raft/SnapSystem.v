(* Raft/SnapSystem.v — round 5: the four clauses for runs WITH snapshots (SnapshotDone, log trim, InstallSnapshot), fixed membership.
   The invariants of Raft/LogMatch.v .. Raft/CompletenessCommit.v are maintained on the virtual system (Raft/SnapVirtual.v)
   through their abstract step lemmas; the node-level inputs are Raft/LogMatchNodeS.v and Raft/SnapEvents.v.  The completeness
   premises those need (a message that the code accepts on the strength of the snapshot, without comparing terms, agrees with
   the receiver's logical log) are derived here from the invariants of the state BEFORE the step - this is where log matching
   and leader completeness depend on each other. *)
From Coq Require Import List NArith ZArith Bool Lia ZifyN ZifyNat ZifyBool.
From BLB Require Import Lib.LTS Raft.Core Raft.Wire Raft.NodeProofs Raft.NodeKeep Raft.NodeElect Raft.NodeConf
  Raft.Election Raft.ElectionFixed Raft.LogMatchLists Raft.CommitCount Raft.LogMatchNode Raft.LogMatch Raft.Completeness
  Raft.CompletenessAck Raft.CompletenessVote Raft.CompletenessCommit Raft.SMSafetyNode Raft.SMSafetyBound Raft.SnapContig Raft.LogMatchNodeS Raft.SnapVirtual Raft.SnapEvents.
Import ListNotations.
Open Scope N_scope.

(* ---------------------------------------------------------------- one more message in the soup *)
Definition sys_inj (σ : sys) (m : msg) : sys :=
  {| sy_nodes := sy_nodes σ; sy_soup := sy_soup σ ++ [m]; sy_cast := sy_cast σ; sy_hist := sy_hist σ |}.

Definition is_ae (m : msg) : Prop := exists pi pt cm oe, m_body m = AppEnts pi pt cm oe.

Lemma el_inject ids σ m : Election.inv ids σ -> is_ae m -> Election.inv ids (sys_inj σ m).
Proof.
  intros I [pi [pt [cm [oe Hb]]]]. destruct I. constructor; simpl; auto.
  intros m0 Hin Hb0 Hto. apply in_app_or in Hin. destruct Hin as [Hin | [E | []]]; [apply i_grant; auto|]. subst m0. congruence.
Qed.

Section Inject.
  Variables (bm : list nid) (be : N).

  Lemma ginv_inject σ G m :
    ginv bm be σ G -> is_ae m -> msg_ok3 G m -> mok (length (sy_nodes σ)) m -> ginv bm be (sys_inj σ m) G.
  Proof.
    intros GI Ha Hk Hm. destruct GI. constructor; simpl; auto.
    - apply el_inject; auto.
    - destruct g_i2 as [X Y]. split; simpl; auto. intros m0 Hin. apply in_app_or in Hin. destruct Hin as [Hin | [E | []]]; [auto | subst; exact Hm].
    - intros m0 Hin. apply in_app_or in Hin. destruct Hin as [Hin | [E | []]]; [auto | subst; exact Hk].
  Qed.

  Lemma ackinv_inject σ G A m :
    ackinv bm be σ G A -> is_ae m -> msg_ok3 G m -> mok (length (sy_nodes σ)) m -> ackinv bm be (sys_inj σ m) G A.
  Proof.
    intros KI Ha Hk Hm. pose proof Ha as [pi [pt [cm [oe Hb]]]]. destruct KI. constructor; simpl; auto.
    - apply ginv_inject; auto.
    - intros m0 idx h Hin Hb0. apply in_app_or in Hin. destruct Hin as [Hin | [E | []]]; [eauto | subst; congruence].
  Qed.

  Lemma voteinv_inject σ G A CL GR m :
    voteinv bm be σ G A CL GR -> is_ae m -> msg_ok3 G m -> mok (length (sy_nodes σ)) m -> voteinv bm be (sys_inj σ m) G A CL GR.
  Proof.
    intros WI Ha Hk Hm. pose proof Ha as [pi [pt [cm [oe Hb]]]]. destruct WI. constructor; simpl; auto.
    - apply ackinv_inject; auto.
    - intros m0 li lt Hin Hb0. apply in_app_or in Hin. destruct Hin as [Hin | [E | []]]; [eauto | subst; congruence].
    - intros m0 Hin Hb0 Hto. apply in_app_or in Hin. destruct Hin as [Hin | [E | []]]; [eauto | subst; congruence].
  Qed.

  Lemma committed_inj σ G A T P m : committed (sys_inj σ m) G A T P <-> committed σ G A T P.
  Proof. unfold committed, qacked. simpl. tauto. Qed.

  Lemma cprefix_inj σ G A t L c m : cprefix (sys_inj σ m) G A t L c <-> cprefix σ G A t L c.
  Proof.
    unfold cprefix. split; intros [Z | [T [P [H1 H2]]]]; auto; right; exists T, P; split; auto; apply (committed_inj σ G A T P m); auto.
  Qed.

  Lemma cminv_inject σ G A CL GR m :
    cminv bm be σ G A CL GR -> is_ae m -> msg_ok3 G m -> mok (length (sy_nodes σ)) m ->
    (forall pi pt cm oe, m_body m = AppEnts pi pt cm oe ->
       exists i l, In (m_term m, i, l) G /\ (N.to_nat cm <= length l)%nat /\ cprefix σ G A (m_term m) l (N.to_nat cm)) ->
    cminv bm be (sys_inj σ m) G A CL GR.
  Proof.
    intros CI Ha Hk Hm Hc. destruct CI. constructor; simpl; auto.
    - apply voteinv_inject; auto.
    - intros m0 pi pt cm oe Hin Hb0. apply in_app_or in Hin. destruct Hin as [Hin | [E | []]].
      + destruct (c_msg m0 pi pt cm oe Hin Hb0) as [i [l [X [Y Z]]]]. exists i, l. split; [exact X|]. split; [exact Y|]. apply cprefix_inj. exact Z.
      + subst m0. destruct (Hc pi pt cm oe Hb0) as [i [l [X [Y Z]]]]. exists i, l. split; [exact X|]. split; [exact Y|]. apply cprefix_inj. exact Z.
  Qed.
End Inject.

(* ---------------------------------------------------------------- the committed prefix of a node and the leader records of later terms *)
Lemma pfx_nth {A} (a b : list A) k x : pfx a b -> nth_error a k = Some x -> nth_error b k = Some x.
Proof. intros [y Hy] H. rewrite Hy. rewrite nth_error_app1; [exact H | apply nth_error_Some; congruence]. Qed.

Lemma pfx_nth_inv {A} (a b : list A) k x : pfx a b -> (k < length a)%nat -> nth_error b k = Some x -> nth_error a k = Some x.
Proof. intros [y Hy] Hk H. rewrite Hy in H. rewrite nth_error_app1 in H; auto. Qed.

Lemma pfx_length {A} (a b : list A) : pfx a b -> (length a <= length b)%nat.
Proof. intros [y Hy]. rewrite Hy, app_length. lia. Qed.

Section Agree.
  Variables (bm : list nid) (be : N).

  (* a record of a term not below the node's term agrees with the node's committed prefix wherever it is defined; and some record
     of that term, comparable with it, is at least as long as the committed prefix *)
  Lemma agree_committed σ G A CL GR i s U j l :
    cminv bm be σ G A CL GR -> get_node i (sy_nodes σ) = Some s -> In (U, j, l) G -> p_term (n_p s) <= U ->
    (forall k e, (k < N.to_nat (n_commit s))%nat -> nth_error l k = Some e -> nth_error (p_log (n_p s)) k = Some e) /\
    (exists j' l', In (U, j', l') G /\ (N.to_nat (n_commit s) <= length l')%nat /\ comparable l l').
  Proof.
    intros CI Gs Hr Ht. pose proof (c_w _ _ _ _ _ _ _ CI) as WI. pose proof (k_g _ _ _ _ _ (w_k _ _ _ _ _ _ _ WI)) as GI.
    destruct (c_node _ _ _ _ _ _ _ CI i s Gs) as [Hcl Hcp]. set (c0 := N.to_nat (n_commit s)) in *. set (L := p_log (n_p s)) in *.
    destruct Hcp as [Z | [T0 [P [Cm [HT Hp]]]]].
    { split; [intros k e Hk; lia|]. exists j, l. split; [exact Hr|]. split; [lia | left; apply pfx_refl]. }
    assert (HPlen : (c0 <= length P)%nat).
    { apply pfx_length in Hp. rewrite firstn_length in Hp. lia. }
    assert (HPL : forall k e, (k < c0)%nat -> nth_error P k = Some e -> nth_error L k = Some e).
    { intros k e Hk He. assert (X : nth_error (firstn c0 L) k = Some e).
      { eapply pfx_nth_inv; [exact Hp | rewrite firstn_length; lia | exact He]. }
      rewrite nth_error_firstn' in X. destruct (k <? c0)%nat; [exact X | discriminate]. }
    pose proof Cm as [iT [lT [eT [C1 [C2 [C3 [C4 [C5 [C6 C7]]]]]]]]].
    destruct (N.eq_dec T0 U) as [E | Ne].
    - rewrite E in C1. pose proof (g_cmp _ _ _ _ GI _ _ _ _ _ Hr C1) as Cmp. split.
      + intros k e Hk He. apply HPL; auto. apply (pfx_nth_inv P lT); [exact C3 | lia|].
        destruct Cmp as [X | X]; [eapply pfx_nth; eauto|]. eapply pfx_nth_inv; [exact X | | exact He].
        apply pfx_length in C3. lia.
      + exists iT, lT. split; [exact C1|]. split; [apply pfx_length in C3; lia | exact Cmp].
    - assert (Hlt : T0 < U) by lia.
      pose proof (committed_kept bm be σ G A CL GR T0 P WI Cm U j l Hr Hlt) as K. unfold keeps in K. split.
      + intros k e Hk He. apply HPL; auto. rewrite <- K. rewrite nth_error_firstn'.
        assert (Hb : (k <? length P)%nat = true) by (apply Nat.ltb_lt; lia). rewrite Hb. exact He.
      + exists j, l. split; [exact Hr|]. split; [| left; apply pfx_refl].
        assert (X : length (firstn (length P) l) = length P) by (rewrite K; reflexivity). rewrite firstn_length in X. lia.
  Qed.
End Agree.

(* ---------------------------------------------------------------- the completeness premises, from the invariants before the step *)
Section Premises.
  Variables (bm : list nid) (be : N).
  Variables (σv : sys) (G : list lrec) (A : list ack) (CL : list cand) (GR : list grant).
  Hypothesis CI : cminv bm be σv G A CL GR.
  Variables (i : nid) (C : list entry) (s : node).
  Hypothesis Gv : get_node i (sy_nodes σv) = Some (vn C s).
  Hypothesis Sh : shape C (n_p s) (n_commit s).

  Let GI : ginv bm be σv G := k_g _ _ _ _ _ (w_k _ _ _ _ _ _ _ (c_w _ _ _ _ _ _ _ CI)).

  Lemma snapi_le_commit : snapi (n_p s) <= n_commit s.
  Proof. unfold snapi. destruct Sh as [_ Sx]. destruct (p_snap (n_p s)); [tauto | lia]. Qed.

  (* a delivered AppEnts of a term not below the receiver's *)
  Lemma derive_premS m pi pt cm oes :
    In m (sy_soup σv) -> m_body m = AppEnts pi pt cm oes -> p_term (n_p s) <= m_term m -> premS C (n_p s) pi pt oes.
  Proof.
    intros Hin Hb Ht. pose proof (g_msgs _ _ _ _ GI m Hin) as Mk. unfold msg_ok3 in Mk. rewrite Hb in Mk.
    destruct Mk as [j [l [Hr [Sl _]]]].
    destruct (agree_committed bm be σv G A CL GR i (vn C s) (m_term m) j l CI Gv Hr Ht) as [Hag _]. simpl in Hag.
    pose proof snapi_le_commit as Hsc. split.
    - intros Hpi. destruct Sl as [_ [Ta _]]. destruct (N.eq_dec pi 0) as [Z0 | Z0]; [left; exact Z0|].
      destruct Ta as [Z | [e [E1 E2]]]; [left; exact Z | right].
      exists e. split; [| exact E2]. apply Hag; [lia | exact E1].
    - destruct oes as [ents |]; [| exact I]. intros k e1 e2 Hk Hpk H1 H2.
      pose proof (slice_nth _ _ _ _ _ _ Sl H2) as Hl. replace (N.to_nat pi + (k - N.to_nat pi))%nat with k in Hl by lia.
      assert (X : nth_error (C ++ p_log (n_p s)) k = Some e2) by (apply Hag; [lia | exact Hl]).
      rewrite H1 in X. inversion X. reflexivity.
  Qed.
  (* the longest common prefix of two lists of entries *)
  Fixpoint lcp (a b : list entry) : nat :=
    match a, b with
    | x :: a', y :: b' => if entry_eq_dec x y then S (lcp a' b') else 0%nat
    | _, _ => 0%nat
    end.

  Lemma lcp_firstn a : forall b, firstn (lcp a b) a = firstn (lcp a b) b.
  Proof.
    induction a as [| x a' IH]; intros b; simpl; [destruct b; reflexivity|].
    destruct b as [| y b']; [reflexivity|]. destruct (entry_eq_dec x y) as [E | E]; [| reflexivity].
    simpl. rewrite E. f_equal. apply IH.
  Qed.

  Lemma lcp_le a : forall b, (lcp a b <= length a)%nat /\ (lcp a b <= length b)%nat.
  Proof.
    induction a as [| x a' IH]; intros b; simpl; [lia|]. destruct b as [| y b']; simpl; [lia|].
    destruct (entry_eq_dec x y); [destruct (IH b'); simpl; lia | lia].
  Qed.

  Lemma lcp_stop a : forall b e1 e2, nth_error a (lcp a b) = Some e1 -> nth_error b (lcp a b) = Some e2 -> e1 <> e2.
  Proof.
    induction a as [| x a' IH]; intros b e1 e2; simpl; [intro H; discriminate|].
    destruct b as [| y b']; [intros _ H; discriminate|]. destruct (entry_eq_dec x y) as [E | E].
    - simpl. apply IH.
    - simpl. intros H1 H2. inversion H1. inversion H2. subst. exact E.
  Qed.

  (* a delivered InstallSnapshot (li, lt) of a term not below the receiver's: its image in the virtual soup is a heartbeat *)
  Lemma derive_premV mi li lt :
    In mi (sy_soup σv) -> m_body mi = AppEnts li lt li None -> p_term (n_p s) <= m_term mi -> 1 <= li ->
    exists j l Cs,
      In (m_term mi, j, l) G /\ Cs = firstn (length Cs) l /\ (N.to_nat li <= length l)%nat /\
      cprefix σv G A (m_term mi) l (N.to_nat li) /\ 1 <= m_term mi /\
      premV C (vn C s) (n_p s) (m_term mi) Cs li lt.
  Proof.
    intros Hin Hb Ht Hli. set (U := m_term mi) in *.
    pose proof (g_msgs _ _ _ _ GI mi Hin) as Mk. unfold msg_ok3 in Mk. rewrite Hb in Mk.
    destruct Mk as [j [l [Hr [[Sl1 [Sl2 _]] HU]]]]. fold U in Hr, HU.
    destruct (c_msg _ _ _ _ _ _ _ CI mi _ _ _ _ Hin Hb) as [j2 [l2 [Hr2 [Hl2 Cp2]]]]. fold U in Hr2, Cp2.
    destruct (agree_committed bm be σv G A CL GR i (vn C s) U j l CI Gv Hr Ht) as [_ [j' [l' [Hr' [Hl' Cmp']]]]]. simpl in Hl'.
    (* the longer of l and l' *)
    assert (Hstar : exists js ls, In (U, js, ls) G /\ (length l <= length ls)%nat /\ (N.to_nat (n_commit s) <= length ls)%nat /\ pfx l ls).
    { destruct Cmp' as [X | X].
      - exists j', l'. split; [exact Hr'|]. split; [apply pfx_length in X; exact X|]. split; [exact Hl' | exact X].
      - exists j, l. split; [exact Hr|]. split; [lia|]. split; [apply pfx_length in X; lia | apply pfx_refl]. }
    destruct Hstar as [js [ls [Hrs [Hls1 [Hls2 Hpls]]]]].
    destruct (agree_committed bm be σv G A CL GR i (vn C s) U js ls CI Gv Hrs Ht) as [Hag _]. simpl in Hag.
    pose proof snapi_le_commit as Hsc.
    set (L := C ++ p_log (n_p s)) in *.
    set (nn := N.to_nat (N.max li (snapi (n_p s)))).
    assert (Hnn : (nn <= length ls)%nat) by (unfold nn; lia).
    set (Cs := firstn nn ls).
    assert (HlenCs : length Cs = nn) by (unfold Cs; rewrite firstn_length; lia).
    assert (HCsn : forall k, (k < nn)%nat -> nth_error Cs k = nth_error ls k).
    { intros k Hk. unfold Cs. rewrite nth_error_firstn'. apply Nat.ltb_lt in Hk. rewrite Hk. reflexivity. }
    assert (Hlt : term_at Cs li lt).
    { destruct Sl2 as [Z | [e [E1 E2]]]; [lia | right]. exists e. split; [| exact E2].
      rewrite HCsn by (unfold nn; lia). eapply pfx_nth; eauto. }
    exists js, ls, Cs. split; [exact Hrs|]. split; [rewrite HlenCs; reflexivity|]. split; [lia|]. split.
    { (* committed up to li in ls *)
      destruct Cp2 as [Z | [T [P [Cm [HT Hp]]]]]; [left; exact Z | right]. exists T, P. split; [exact Cm|]. split; [exact HT|].
      pose proof (g_cmp _ _ _ _ GI _ _ _ _ _ Hrs Hr2) as Cmp. rewrite (comparable_firstn _ _ _ Cmp) by lia. exact Hp. }
    split; [exact HU|].
    pose proof (g_rec_wf _ _ _ _ GI _ _ _ Hrs) as Wls.
    unfold premV. split; [unfold Cs; apply wf_from_firstn; exact Wls|]. split; [exact HU|]. split; [exact Hli|].
    split; [rewrite HlenCs; unfold nn; lia|]. split; [exact Hlt|]. split.
    - (* the receiver's own snapshot position *)
      intros cur Hc Hle. assert (Ecur : snapi (n_p s) = sn_index cur) by (unfold snapi; rewrite Hc; reflexivity).
      assert (Hc1 : 1 <= sn_index cur) by lia.
      destruct (nth_error ls (N.to_nat (sn_index cur - 1))) as [e' |] eqn:E'; [| apply nth_error_None in E'; lia].
      exists e', e'. split; [apply Hag; [lia | exact E']|]. split; [rewrite HCsn by (unfold nn; lia); exact E' | reflexivity].
    - (* the log does not hold (li, lt) *)
      intro Hcase.
      assert (Hnst : snapi (n_p s) < li).
      { destruct (N.lt_ge_cases (snapi (n_p s)) li) as [X | X]; [exact X | exfalso].
        (* li inside the committed prefix: the logical log holds the record's entry, of term lt *)
        destruct Hlt as [Z | [e [E1 E2]]]; [lia|]. rewrite HCsn in E1 by (unfold nn; lia).
        assert (HL : nth_error L (N.to_nat (li - 1)) = Some e) by (apply Hag; [lia | exact E1]).
        destruct Hcase as [Y | [e0 [Y1 Y2]]].
        - assert (Z1 : nth_error L (N.to_nat (li - 1)) <> None) by congruence. apply nth_error_Some in Z1. unfold L in *. lia.
        - unfold L in *. rewrite HL in Y1. assert (Ee : e = e0) by congruence. rewrite <- Ee in Y2. contradiction. }
      assert (HlenCs' : N.of_nat (length Cs) = li) by (rewrite HlenCs; unfold nn; lia).
      split; [exact HlenCs'|].
      pose proof (g_lm_node _ _ _ _ GI i (vn C s) Gv) as LmL. simpl in LmL. fold L in LmL.
      assert (LmCs : lm G Cs) by (unfold Cs; apply lm_firstn; apply (g_lm_rec _ _ _ _ GI _ _ _ Hrs)).
      set (c := lcp L Cs).
      pose proof (lcp_firstn L Cs) as Hf. fold c in Hf. destruct (lcp_le L Cs) as [Hc1 Hc2]. fold c in Hc1, Hc2.
      assert (Hcli : (c < N.to_nat li)%nat).
      { destruct (Nat.lt_ge_cases c (N.to_nat li)) as [X | X]; [exact X | exfalso].
        assert (Ec : c = length Cs) by lia.
        destruct Hlt as [Z | [e [E1 E2]]]; [lia|].
        assert (HL : nth_error L (N.to_nat (li - 1)) = Some e).
        { assert (Y : nth_error (firstn c L) (N.to_nat (li - 1)) = Some e).
          { rewrite Hf. rewrite nth_error_firstn'. assert (Hb' : (N.to_nat (li - 1) <? c)%nat = true) by (apply Nat.ltb_lt; lia). rewrite Hb'. exact E1. }
          rewrite nth_error_firstn' in Y. destruct (N.to_nat (li - 1) <? c)%nat; [exact Y | discriminate]. }
        destruct Hcase as [Y | [e0 [Y1 Y2]]].
        - assert (Z1 : nth_error L (N.to_nat (li - 1)) <> None) by congruence. apply nth_error_Some in Z1. unfold L in *. lia.
        - unfold L in *. rewrite HL in Y1. assert (Ee : e = e0) by congruence. rewrite <- Ee in Y2. contradiction. }
      exists c. split; [| split; [exact Hcli | exact Hf]].
      unfold qtrunc. simpl. fold L. split; [lia|]. split; [| split].
      + intros _. destruct (Nat.eq_dec c 0) as [Z | Z]; [left; exact Z | right]. split; [lia|].
        destruct (nth_error Cs (c - 1)) as [e2 |] eqn:E2; [| apply nth_error_None in E2; lia].
        assert (E1 : nth_error L (c - 1) = Some e2).
        { assert (Y : nth_error (firstn c Cs) (c - 1) = Some e2).
          { rewrite nth_error_firstn'. assert (Hb' : (c - 1 <? c)%nat = true) by (apply Nat.ltb_lt; lia). rewrite Hb'. exact E2. }
          rewrite <- Hf in Y. rewrite nth_error_firstn' in Y. destruct (c - 1 <? c)%nat; [exact Y | discriminate]. }
        exists e2, e2. rewrite Nat.sub_0_r. repeat split; auto. lia.
      + intro X. lia.
      + destruct (Nat.eq_dec c (length L)) as [Z | Z]; [left; exact Z | right].
        unfold conflict_at. simpl. split; [lia|].
        destruct (nth_error L c) as [e1 |] eqn:E1; [| apply nth_error_None in E1; lia].
        destruct (nth_error Cs c) as [e2 |] eqn:E2; [| apply nth_error_None in E2; lia].
        exists e1, e2. rewrite Nat.sub_0_r. split; [reflexivity|]. split; [exact E2|].
        intro Et. pose proof (same_term_prefix G L Cs c e1 e2 (g_cmp _ _ _ _ GI) LmL LmCs E1 E2 Et) as Pf.
        apply (lcp_stop L Cs e1 e2 E1 E2).
        assert (Y : nth_error (firstn (S c) L) c = nth_error (firstn (S c) Cs) c) by (rewrite Pf; reflexivity).
        rewrite !nth_error_firstn' in Y. assert (Hb' : (c <? S c)%nat = true) by (apply Nat.ltb_lt; lia). rewrite Hb' in Y.
        rewrite E1, E2 in Y. inversion Y. reflexivity.
  Qed.
  Lemma derive_IS_basic mi li lt :
    In mi (sy_soup σv) -> m_body mi = AppEnts li lt li None ->
    exists j l, In (m_term mi, j, l) G /\ (N.to_nat li <= length l)%nat /\ cprefix σv G A (m_term mi) l (N.to_nat li) /\ 1 <= m_term mi.
  Proof.
    intros Hin Hb. pose proof (g_msgs _ _ _ _ GI mi Hin) as Mk. unfold msg_ok3 in Mk. rewrite Hb in Mk.
    destruct Mk as [j [l [Hr [[Sl1 _] HU]]]].
    destruct (c_msg _ _ _ _ _ _ _ CI mi _ _ _ _ Hin Hb) as [j2 [l2 [Hr2 [Hl2 Cp2]]]].
    exists j, l. split; [exact Hr|]. split; [lia|]. split; [| exact HU].
    destruct Cp2 as [Z | [T [P [Cm [HT Hp]]]]]; [left; exact Z | right]. exists T, P. split; [exact Cm|]. split; [exact HT|].
    pose proof (g_cmp _ _ _ _ GI _ _ _ _ _ Hr Hr2) as Cmp. rewrite (comparable_firstn _ _ _ Cmp) by lia. exact Hp.
  Qed.

  Lemma derive_IS mi li lt :
    In mi (sy_soup σv) -> m_body mi = AppEnts li lt li None -> 1 <= li ->
    exists j l Cs,
      In (m_term mi, j, l) G /\ Cs = firstn (length Cs) l /\ (N.to_nat li <= length l)%nat /\
      cprefix σv G A (m_term mi) l (N.to_nat li) /\ 1 <= m_term mi /\
      (p_term (n_p s) <= m_term mi -> premV C (vn C s) (n_p s) (m_term mi) Cs li lt).
  Proof.
    intros Hin Hb Hli. destruct (N.le_gt_cases (p_term (n_p s)) (m_term mi)) as [Ht | Ht].
    - destruct (derive_premV mi li lt Hin Hb Ht Hli) as [j [l [Cs [H1 [H2 [H3 [H4 [H5 H6]]]]]]]].
      exists j, l, Cs. split; [exact H1|]. split; [exact H2|]. split; [exact H3|]. split; [exact H4|]. split; [exact H5|]. intros _. exact H6.
    - destruct (derive_IS_basic mi li lt Hin Hb) as [j [l [H1 [H3 [H4 H5]]]]].
      exists j, l, (firstn (N.to_nat li) l). split; [exact H1|]. split; [rewrite firstn_length, Nat.min_l by lia; reflexivity|].
      split; [exact H3|]. split; [exact H4|]. split; [exact H5|]. intro X. lia.
  Qed.

  Lemma derive_legit m :
    1 <= sn_index m -> sn_index m <= n_commit s ->
    (exists e, In e (p_log (n_p s)) /\ e_index e = sn_index m /\ e_term e = sn_term m) -> legitS C s m.
  Proof.
    intros H1 H2 [e [Hin [Ei Et]]]. pose proof Sh as [W _].
    apply In_nth_error in Hin. destruct Hin as [k Hk].
    assert (HL : nth_error (C ++ p_log (n_p s)) (length C + k) = Some e).
    { rewrite nth_error_app2 by lia. replace (length C + k - length C)%nat with k by lia. exact Hk. }
    pose proof (wf_from_nth _ _ _ _ W HL) as Ix.
    assert (Hlen : (length C + k < length (C ++ p_log (n_p s)))%nat) by (apply nth_error_Some; congruence).
    unfold legitS. split; [exact H1|]. split; [exact H2|]. split; [lia|].
    right. exists e. split; [| exact Et]. rewrite <- HL. f_equal. lia.
  Qed.
End Premises.

(* ---------------------------------------------------------------- the alphabet and the system invariant *)
Require Import BLB.Raft.SnapIndexPos.

Section System.
  Variables (bm : list nid) (be : N).

  (* SnapshotDone reports an applied position with its term (ghost-free: when the snapshot is newer than the one held, the
     entry is in the physical log) *)
  Definition snap_ok (s : node) (m : snapmeta) : Prop :=
    1 <= sn_index m /\ sn_index m <= n_commit s /\
    (match p_snap (n_p s) with Some cur => sn_index m <=? sn_index cur | None => false end = false ->
     exists e, In e (p_log (n_p s)) /\ e_index e = sn_index m /\ e_term e = sn_term m).

  Definition evresS (s : node) (ev : event) (crashed : bool) : Prop :=
    match ev with
    | EBootstrap ms ep => ms = bm /\ ep = be
    | ESnapDone m => snap_ok s m
    | _ => True
    end.

  (* fixed membership (sstep2: no AddNode / RemoveNode, configurations of n members); one bootstrap membership; SnapshotDone
     reports applied positions with their term; everything else is free: any message ever sent - InstallSnapshot included -
     delivered to any node any number of times or never, ticks, proposals, restarts, and a crash after any durable mutation of
     any event (also between the durable writes of handleSnapshot and of fsmSnapshotDone) followed by newCore with the
     start-up reconciliation *)
  Inductive sstepS (n : nat) : sys -> sys_event -> sys -> Prop :=
  | SStepS : forall σ i s ev k crashed st s',
      get_node i (sy_nodes σ) = Some s ->
      (forall m, ev = EDeliver m -> In m (sy_soup σ) /\ m_to m <> 0) ->
      evok2 n ev -> evresS s ev crashed ->
      run_event_crash (settle s) ev k = Ret (crashed, st, s') ->
      sstepS n σ (i, ev, k) (step_sys σ s').

  Record SI (n : nat) (σ : sys) (Cf : ghost) (S : list msg) (G : list lrec) (A : list ack) (CL : list cand) (GR : list grant) : Prop := {
    si_cm : cminv bm be (vsys Cf S σ) G A CL GR;
    si_el : Election.inv (map n_id (sy_nodes σ)) σ;
    si_i2 : inv2 n σ;
    si_len : length (sy_nodes σ) = n;
    si_shape : forall i s, get_node i (sy_nodes σ) = Some s -> shape (Cf i) (n_p s) (n_commit s);
    si_ceok : forall j, Forall (eok n) (Cf j);
    si_geok : forall t i l, In (t, i, l) G -> Forall (eok n) l;
    si_soup : forall m, In m (sy_soup σ) -> In (img m) S;
    si_S : forall m', In m' S -> (exists m, In m (sy_soup σ) /\ m' = img m) \/ (is_ae m' /\ mok n m');
    si_is1 : forall m, In m (sy_soup σ) -> isq1 m
  }.

  Lemma vsys_inj Cf S σ m : sys_inj (vsys Cf S σ) m = vsys Cf (S ++ [m]) σ.
  Proof. reflexivity. Qed.

  Lemma SI_inject n σ Cf S G A CL GR m :
    SI n σ Cf S G A CL GR -> is_ae m -> msg_ok3 G m -> mok n m ->
    (forall pi pt cm oe, m_body m = AppEnts pi pt cm oe ->
       exists i l, In (m_term m, i, l) G /\ (N.to_nat cm <= length l)%nat /\ cprefix (vsys Cf S σ) G A (m_term m) l (N.to_nat cm)) ->
    SI n σ Cf (S ++ [m]) G A CL GR.
  Proof.
    intros H Ha Hk Hm Hc. destruct H. constructor; auto.
    - rewrite <- vsys_inj. apply cminv_inject; auto. simpl. rewrite map_length, si_len0. exact Hm.
    - intros m0 H0. apply in_or_app. left. auto.
    - intros m' H'. apply in_app_or in H'. destruct H' as [H' | [E | []]]; [auto | subst; right; auto].
  Qed.

  Lemma get_vsys Cf S σ i s : get_node i (sy_nodes σ) = Some s -> get_node i (sy_nodes (vsys Cf S σ)) = Some (vn (Cf i) s).
  Proof.
    intro G. simpl. rewrite get_node_vsys, G. simpl. unfold vnode. destruct (get_node_in _ _ _ G) as [_ E]. rewrite E. reflexivity.
  Qed.
  Lemma mok_img n m : mok n m -> mok n (img m).
  Proof. unfold mok. simpl. destruct (m_body m); simpl; auto. Qed.

  Lemma gset_same Cf i C' : gset Cf i C' i = C'.
  Proof. unfold gset. rewrite N.eqb_refl. reflexivity. Qed.

  Lemma gset_other Cf i C' j : j <> i -> gset Cf i C' j = Cf j.
  Proof. intro H. unfold gset. destruct (j =? i) eqn:E; [apply N.eqb_eq in E; contradiction | reflexivity]. Qed.

  (* the common tail of every case of the step: the virtual node takes the abstract step, the ghosts are extended *)
  Lemma SI_tail n σ Cf S G A CL GR i s ev' k s' C' :
    SI n σ Cf S G A CL GR ->
    get_node i (sy_nodes σ) = Some s ->
    (forall m, ev' = EDeliver m -> In m S /\ m_to m <> 0) -> evres bm be ev' ->
    nstep (vn (Cf i) s) ev' k (vn C' s') ->
    Election.inv (map n_id (sy_nodes σ)) (step_sys σ s') -> inv2 n (step_sys σ s') ->
    shape C' (n_p s') (n_commit s') -> Forall (eok n) C' -> Forall isq1 (n_msgs s') ->
    exists G' A' CL' GR',
      SI n (step_sys σ s') (gset Cf i C') (S ++ out_msgs (vn C' s')) G' A' CL' GR' /\ incl G G' /\ incl A A' /\
      firstn (N.to_nat (n_commit s)) (C' ++ p_log (n_p s')) = firstn (N.to_nat (n_commit s)) (Cf i ++ p_log (n_p s)).
  Proof.
    intros HS Gs Hdel Hres NS El' I2' Sh' Ce' Hq. destruct HS.
    destruct (get_node_in _ _ _ Gs) as [Gin Gid].
    assert (Hid' : n_id s' = i) by (pose proof (ns_id _ _ _ _ NS) as X; simpl in X; congruence).
    assert (Hnd : NoDup (map n_id (sy_nodes σ))) by (apply (i_nodup _ _ si_el0)).
    pose proof (step_vsys Cf S σ s' C' Hnd) as Ev. rewrite Hid' in Ev.
    pose proof (get_vsys Cf S σ i s Gs) as Gv.
    assert (HlenV : length (sy_nodes (vsys Cf S σ)) = n) by (simpl; rewrite map_length; exact si_len0).
    assert (Hsoup' : forall m', In m' (S ++ out_msgs (vn C' s')) ->
              (exists m, In m (sy_soup (step_sys σ s')) /\ m' = img m) \/ (is_ae m' /\ mok n m')).
    { intros m' H'. apply in_app_or in H'. destruct H' as [H' | H'].
      - destruct (si_S0 m' H') as [[m [X Y]] | X]; [left | right; exact X]. exists m. split; [simpl; apply in_or_app; left; exact X | exact Y].
      - apply out_msgs_vn_in in H'. destruct H' as [m [X Y]]. left. exists m. split; [simpl; apply in_or_app; right; exact X | exact Y]. }
    assert (El0v : Election.inv (map n_id (sy_nodes (vsys Cf S σ))) (step_sys (vsys Cf S σ) (vn C' s'))).
    { rewrite Ev. simpl. rewrite ids_vsys. apply el_vsys; [exact El'|].
      intros m' H' Hb. destruct (Hsoup' m' H') as [[m [X Y]] | [[pi [pt [cm [oe Z]]]] _]]; [| congruence].
      subst m'. assert (Em : img m = m).
      { apply img_nis. unfold nis. simpl in Hb. destruct (m_body m); simpl in *; auto; discriminate. }
      rewrite Em. exact X. }
    assert (I20v : inv2 n (step_sys (vsys Cf S σ) (vn C' s'))).
    { rewrite Ev. apply inv2_vsys; [exact I2' | |].
      - intro j. destruct (N.eq_dec j i) as [E | E]; [subst j; rewrite gset_same; exact Ce' | rewrite gset_other by exact E; apply si_ceok0].
      - intros m' H'. destruct (Hsoup' m' H') as [[m [X Y]] | [_ X]]; [| exact X]. subst m'. apply mok_img. destruct I2' as [_ Z]. apply Z. exact X. }
    pose proof (cminv_step_abs bm be n (vsys Cf S σ) G A CL GR i (vn (Cf i) s) ev' k (vn C' s') HlenV si_cm0 Gv Hdel Hres NS El0v I20v) as CI'.
    pose proof (cs_no_trunc bm be n (vsys Cf S σ) G A CL GR i (vn (Cf i) s) ev' k (vn C' s') HlenV si_cm0 Gv Hdel Hres NS El0v I20v) as Hnt.
    simpl in Hnt.
    rewrite Ev in CI'.
    eexists _, _, _, _. split; [| split; [intros r Hr; apply in_or_app; left; exact Hr | split; [intros r Hr; apply in_or_app; left; exact Hr | exact Hnt]]].
    assert (Gs' : get_node i (sy_nodes (step_sys σ s')) = Some s').
    { simpl. rewrite <- Hid'. eapply get_put_same. rewrite Hid'. exact Gs. }
    assert (Gcase : forall j x, get_node j (sy_nodes (step_sys σ s')) = Some x -> (j = i /\ x = s') \/ (j <> i /\ get_node j (sy_nodes σ) = Some x)).
    { intros j x Hx. destruct (N.eq_dec j i) as [E | E].
      - subst j. rewrite Gs' in Hx. inversion Hx. auto.
      - right. split; [exact E|]. simpl in Hx. rewrite get_put_other in Hx by congruence. exact Hx. }
    constructor.
    - exact CI'.
    - simpl. rewrite put_node_ids. exact El'.
    - exact I2'.
    - simpl. rewrite put_node_length. exact si_len0.
    - intros j x Hx. destruct (Gcase j x Hx) as [[E1 E2] | [E1 E2]].
      + subst. rewrite gset_same. exact Sh'.
      + rewrite gset_other by exact E1. apply si_shape0. exact E2.
    - intro j. destruct (N.eq_dec j i) as [E | E]; [subst j; rewrite gset_same; exact Ce' | rewrite gset_other by exact E; apply si_ceok0].
    - intros t j l Hin. apply in_app_or in Hin. destruct Hin as [Hin | Hin]; [eapply si_geok0; eauto|].
      apply in_rec_of in Hin. destruct Hin as [E _]. inversion E. simpl. apply Forall_app. split; [exact Ce'|].
      destruct I2' as [Z _]. destruct (Z i s' Gs') as [[P1 _] _]. exact P1.
    - intros m Hm. simpl in Hm. apply in_app_or in Hm. apply in_or_app. destruct Hm as [Hm | Hm]; [left; auto | right].
      apply out_msgs_vn_in. exists m. auto.
    - exact Hsoup'.
    - intros m Hm. simpl in Hm. apply in_app_or in Hm. destruct Hm as [Hm | Hm]; [auto|].
      apply in_out_msgs in Hm. destruct Hm as [m0 [H0 [_ [_ [_ Eb]]]]]. rewrite Forall_forall in Hq. specialize (Hq m0 H0).
      unfold isq1 in *. rewrite Eb. exact Hq.
  Qed.
  Lemma in_firstn {A} (x : A) n l : In x (firstn n l) -> In x l.
  Proof. intro H. rewrite <- (firstn_skipn n l). apply in_or_app. left. exact H. Qed.

  Lemma premV_v0 C v0 v0' p T Cs li lt :
    p_log (n_p v0') = p_log (n_p v0) -> premV C v0 p T Cs li lt -> premV C v0' p T Cs li lt.
  Proof.
    intros E [H1 [H2 [H3 [H4 [H5 [H6 H7]]]]]]. unfold premV. repeat (split; [assumption|]).
    intro Hc. destruct (H7 Hc) as [A1 [c [Q [B D]]]]. split; [exact A1|]. exists c. split; [| split; [exact B | exact D]].
    unfold qtrunc, conflict_at in *. simpl in *. rewrite E. exact Q.
  Qed.

  Lemma shape_snap1 C p cm : shape C p cm -> snap1 p.
  Proof. intros [_ Sx] m Hm. rewrite Hm in Sx. tauto. Qed.

  Definition keepsC (σ σ' : sys) (Cf Cf' : ghost) : Prop :=
    forall j a a', get_node j (sy_nodes σ) = Some a -> get_node j (sy_nodes σ') = Some a' ->
      firstn (N.to_nat (n_commit a)) (Cf' j ++ p_log (n_p a')) = firstn (N.to_nat (n_commit a)) (Cf j ++ p_log (n_p a)).

  Lemma SI_step_end n σ Cf S G A CL GR i s ev' k s' C' :
    SI n σ Cf S G A CL GR ->
    get_node i (sy_nodes σ) = Some s ->
    (forall m, ev' = EDeliver m -> In m S /\ m_to m <> 0) -> evres bm be ev' ->
    nstep (vn (Cf i) s) ev' k (vn C' s') ->
    Election.inv (map n_id (sy_nodes σ)) (step_sys σ s') -> inv2 n (step_sys σ s') ->
    shape C' (n_p s') (n_commit s') -> Forall (eok n) C' -> Forall isq1 (n_msgs s') ->
    exists Cf' S' G' A' CL' GR',
      SI n (step_sys σ s') Cf' S' G' A' CL' GR' /\ incl G G' /\ incl A A' /\ keepsC σ (step_sys σ s') Cf Cf'.
  Proof.
    intros HS Gs Hdel Hres NS El' I2' Sh' Ce' Hq.
    destruct (SI_tail n σ Cf S G A CL GR i s ev' k s' C' HS Gs Hdel Hres NS El' I2' Sh' Ce' Hq) as [G' [A' [CL' [GR' [HS' [Hi [Ha Hnt]]]]]]].
    exists (gset Cf i C'), (S ++ out_msgs (vn C' s')), G', A', CL', GR'. split; [exact HS'|]. split; [exact Hi|]. split; [exact Ha|].
    assert (Hid' : n_id s' = i).
    { pose proof (ns_id _ _ _ _ NS) as X. simpl in X. destruct (get_node_in _ _ _ Gs) as [_ Y]. congruence. }
    intros j a a' Ga Ga'. destruct (N.eq_dec j i) as [E | E].
    - subst j. rewrite Gs in Ga. inversion Ga. subst a.
      assert (Gs' : get_node i (sy_nodes (step_sys σ s')) = Some s') by (simpl; rewrite <- Hid'; eapply get_put_same; rewrite Hid'; exact Gs).
      rewrite Gs' in Ga'. inversion Ga'. subst a'. rewrite gset_same. exact Hnt.
    - simpl in Ga'. rewrite get_put_other in Ga' by congruence. rewrite Ga in Ga'. inversion Ga'. subst a'.
      rewrite gset_other by exact E. reflexivity.
  Qed.

  (* ---------------------------------------------------------------- THE STEP *)
  Lemma SI_step n σ Cf S G A CL GR e σ' :
    SI n σ Cf S G A CL GR -> sstepS n σ e σ' ->
    exists Cf' S' G' A' CL' GR', SI n σ' Cf' S' G' A' CL' GR' /\ incl G G' /\ incl A A' /\ keepsC σ σ' Cf Cf'.
  Proof.
    intros HS Hst. destruct Hst as [σ i s ev k crashed st s' Gs Hdel Hev Hres Hrun].
    pose proof (si_len _ _ _ _ _ _ _ _ HS) as Hlen. pose proof (si_i2 _ _ _ _ _ _ _ _ HS) as I2. pose proof (si_el _ _ _ _ _ _ _ _ HS) as El.
    pose proof (si_cm _ _ _ _ _ _ _ _ HS) as CI.
    assert (Hst2 : sstep2 n σ (i, ev, k) (step_sys σ s')) by (eapply SStep2; eauto).
    destruct (sstep2_sstep n _ _ _ Hlen I2 Hst2) as [Hss [I2' Hlen']].
    assert (El' : Election.inv (map n_id (sy_nodes σ)) (step_sys σ s')) by (eapply Election.inv_step; [exact El | exact Hss]).
    pose proof (get_vsys Cf S σ i s Gs) as Gv.
    pose proof (k_g _ _ _ _ _ (w_k _ _ _ _ _ _ _ (c_w _ _ _ _ _ _ _ CI))) as GI.
    pose proof (g_base _ _ _ _ GI i _ Gv) as Hb.
    pose proof (si_shape _ _ _ _ _ _ _ _ HS i s Gs) as Sh.
    destruct (get_node_in _ _ _ Gs) as [Gin Gid].
    assert (Hsok : sok n s) by (destruct I2 as [X _]; eapply X; eauto).
    assert (Hid' : n_id s' = i) by (destruct (step_facts _ _ _ _ _ _ Hrun) as [X _]; congruence).
    assert (Gs' : get_node i (sy_nodes (step_sys σ s')) = Some s').
    { simpl. rewrite <- Hid'. eapply get_put_same. rewrite Hid'. exact Gs. }
    assert (Hsok' : sok n s') by (destruct I2' as [X _]; eapply X; eauto).
    assert (Hq : Forall isq1 (n_msgs s')).
    { eapply emitted_install_snapshot_index_positive; [apply (shape_snap1 _ _ _ Sh) | | | exact Hrun].
      - intros m E. apply (si_is1 _ _ _ _ _ _ _ _ HS). apply (Hdel m E).
      - intros m E. subst ev. simpl in Hres. destruct Hres as [X _]. exact X. }
    assert (Hlog_eok : Forall (eok n) (p_log (n_p s))) by (destruct Hsok as [[X _] _]; exact X).
    destruct ev as [ms ep | m | | es | mem rnd | mem | sm |].
    - (* Bootstrap *)
      destruct (nstep_vn (Cf i) s (EBootstrap ms ep) k crashed st s' Hb Sh Logic.I Logic.I Hrun) as [NS Sh'].
      exact (SI_step_end n σ Cf S G A CL GR i s (EBootstrap ms ep) k s' (Cf i) HS Gs ltac:(intros m0 E; discriminate) Hres NS El' I2' Sh'
                  (si_ceok _ _ _ _ _ _ _ _ HS i) Hq).
    - (* Deliver *)
      destruct (Hdel m eq_refl) as [Min Mto].
      pose proof (si_soup _ _ _ _ _ _ _ _ HS m Min) as MinS.
      destruct (m_body m) as [pi pt cm oes | su ix hi | vli vlt | gr | li lt cf] eqn:Eb.
      5: { (* InstallSnapshot *)
           assert (Hli : 1 <= li) by (pose proof (si_is1 _ _ _ _ _ _ _ _ HS m Min) as X; unfold isq1 in X; rewrite Eb in X; exact X).
           assert (Ebi : m_body (img m) = AppEnts li lt li None) by (simpl; rewrite Eb; reflexivity).
           destruct (derive_IS bm be (vsys Cf S σ) G A CL GR CI i (Cf i) s Gv Sh (img m) li lt MinS Ebi Hli)
             as [j [l [Cs [Hr [HCs [Hll [Cp [HU HpV]]]]]]]]. simpl m_term in *.
           set (ms := vmsg m Cs li).
           assert (Hceok : Forall (eok n) Cs).
           { rewrite HCs. apply Forall_forall. intros x Hx. pose proof (si_geok _ _ _ _ _ _ _ _ HS _ _ _ Hr) as X. rewrite Forall_forall in X.
             apply X. eapply in_firstn; exact Hx. }
           assert (HS1 : SI n σ Cf (S ++ [ms]) G A CL GR).
           { apply SI_inject; [exact HS | | | |].
             - eexists _, _, _, _. reflexivity.
             - unfold msg_ok3. simpl. exists j, l. split; [exact Hr|]. split; [| exact HU].
               unfold slice. split; [lia|]. split; [left; reflexivity|]. simpl. exact HCs.
             - unfold mok. simpl. exact Hceok.
             - intros pi pt cm oe E. simpl in E. inversion E. subst. simpl. exists j, l. auto. }
           assert (HpV' : p_term (n_p s) <= m_term m -> premV (Cf i) (with_budget (settle (vn (Cf i) s)) k) (n_p s) (m_term m) Cs li lt).
           { intro X. eapply premV_v0; [| exact (HpV X)]. reflexivity. }
           destruct (install_nstep (Cf i) s m li lt cf Cs k crashed st s' Hb Sh Eb HpV' Hrun) as [C' [NS [Sh' Hi']]].
           assert (Ce' : Forall (eok n) C').
           { apply Forall_forall. intros x Hx. apply Hi' in Hx. apply in_app_or in Hx.
             pose proof (si_ceok _ _ _ _ _ _ _ _ HS i) as X1. rewrite Forall_forall in X1, Hlog_eok, Hceok.
             destruct Hx as [Hx | Hx]; [auto|]. apply in_app_or in Hx. destruct Hx; auto. }
           assert (HdelI : forall m0, EDeliver ms = EDeliver m0 -> In m0 (S ++ [ms]) /\ m_to m0 <> 0).
           { intros m0 E. inversion E. subst m0. split; [apply in_or_app; right; left; reflexivity | exact Mto]. }
           exact (SI_step_end n σ Cf (S ++ [ms]) G A CL GR i s (EDeliver ms) k s' C' HS1 Gs HdelI Logic.I NS El' I2' Sh' Ce' Hq). }
      all: (* the other messages *)
        assert (Hnis : nis m = true) by (unfold nis; rewrite Eb; reflexivity);
        assert (MinS' : In m S) by (rewrite <- (img_nis m Hnis); exact MinS);
        assert (HdelV : forall m0, EDeliver m = EDeliver m0 -> In m0 (sy_soup (vsys Cf S σ)) /\ m_to m0 <> 0)
          by (intros m0 E; inversion E; subst m0; split; [exact MinS' | exact Mto]);
        assert (HlenV : evok2 (length (sy_nodes (vsys Cf S σ))) (EDeliver m)) by (simpl; exact Logic.I);
        assert (He4 : evok4 (EDeliver m)) by (eapply (ginv_evok4 bm be); [exact GI | exact HdelV | exact HlenV | exact Logic.I]);
        assert (Hp : premE (Cf i) s (EDeliver m))
          by (unfold premE; rewrite Eb; try exact Logic.I; intro Ht; eapply (derive_premS bm be (vsys Cf S σ)); eauto);
        destruct (nstep_vn (Cf i) s (EDeliver m) k crashed st s' Hb Sh He4 Hp Hrun) as [NS Sh'];
        exact (SI_step_end n σ Cf S G A CL GR i s (EDeliver m) k s' (Cf i) HS Gs HdelV Logic.I NS El' I2' Sh'
                    (si_ceok _ _ _ _ _ _ _ _ HS i) Hq).
    - (* Tick *)
      destruct (nstep_vn (Cf i) s ETick k crashed st s' Hb Sh Logic.I Logic.I Hrun) as [NS Sh'].
      exact (SI_step_end n σ Cf S G A CL GR i s ETick k s' (Cf i) HS Gs ltac:(intros m0 E; discriminate) Logic.I NS El' I2' Sh'
                  (si_ceok _ _ _ _ _ _ _ _ HS i) Hq).
    - (* Propose *)
      destruct (nstep_vn (Cf i) s (EPropose es) k crashed st s' Hb Sh Logic.I Logic.I Hrun) as [NS Sh'].
      exact (SI_step_end n σ Cf S G A CL GR i s (EPropose es) k s' (Cf i) HS Gs ltac:(intros m0 E; discriminate) Logic.I NS El' I2' Sh'
                  (si_ceok _ _ _ _ _ _ _ _ HS i) Hq).
    - simpl in Hev. contradiction.
    - simpl in Hev. contradiction.
    - (* SnapshotDone *)
      simpl in Hres. destruct Hres as [R1 [R2 R3]].
      assert (Lg : match p_snap (n_p s) with Some cur => sn_index sm <=? sn_index cur | None => false end = false -> legitS (Cf i) s sm).
      { intro X. apply (derive_legit (Cf i) s Sh sm R1 R2 (R3 X)). }
      destruct (snapdone_nstep (Cf i) s sm k crashed st s' Hb Sh Lg Hrun) as [C' [HL [Sh' NS]]].
      assert (Ce' : Forall (eok n) C').
      { assert (X : Forall (eok n) (C' ++ p_log (n_p s'))).
        { rewrite HL. apply Forall_app. split; [apply (si_ceok _ _ _ _ _ _ _ _ HS i) | exact Hlog_eok]. }
        apply Forall_app in X. tauto. }
      exact (SI_step_end n σ Cf S G A CL GR i s ETick k s' C' HS Gs ltac:(intros m0 E; discriminate) Logic.I NS El' I2' Sh' Ce' Hq).
    - (* Restart *)
      destruct (nstep_vn (Cf i) s ERestart k crashed st s' Hb Sh Logic.I Logic.I Hrun) as [NS Sh'].
      exact (SI_step_end n σ Cf S G A CL GR i s ERestart k s' (Cf i) HS Gs ltac:(intros m0 E; discriminate) Logic.I NS El' I2' Sh'
                  (si_ceok _ _ _ _ _ _ _ _ HS i) Hq).
  Qed.
  (* ---------------------------------------------------------------- initial states and runs *)
  Definition Cf0 : ghost := fun _ => [].

  Lemma SI_init σ0 : cinit σ0 -> length bm = length (sy_nodes σ0) ->
    SI (length (sy_nodes σ0)) σ0 Cf0 [] [(1, 0, [boot_entry bm be])] [] [] [].
  Proof.
    intros [Hinit Hc0] Hbm. pose proof Hinit as [Hi Hl]. pose proof Hi as [Hn [Ha [Hs [Hc Hh]]]].
    pose proof (ginv_init bm be σ0 Hinit) as GI0.
    assert (HlV : linit (vsys Cf0 [] σ0)).
    { split.
      - split; [simpl; rewrite ids_vsys; exact Hn|]. split; [| simpl; auto].
        intros v Hv. simpl in Hv. apply in_map_iff in Hv. destruct Hv as [x [E Hx]]. subst v.
        destruct (Ha x Hx) as [A1 [A2 A3]]. destruct (Hl x Hx) as [L1 [L2 L3]]. split; [exact A1|]. split; [exact A2|].
        simpl. rewrite map_length. destruct A3 as [[P1 P2] [Q M]]. split; [| split].
        + split; simpl; [rewrite L1; constructor | exact I].
        + exact Q.
        + simpl. rewrite Forall_forall in *. intros m Hm. apply in_map_iff in Hm. destruct Hm as [m1 [E H1]]. subst m.
          apply mok_img. apply M. exact H1.
      - intros v Hv. simpl in Hv. apply in_map_iff in Hv. destruct Hv as [x [E Hx]]. subst v.
        destruct (Hl x Hx) as [L1 [L2 L3]]. simpl. rewrite L1. auto. }
    constructor.
    - apply cminv_init; [exact HlV|]. intros v Hv. simpl in Hv. apply in_map_iff in Hv. destruct Hv as [x [E Hx]]. subst v.
      simpl. apply Hc0. exact Hx.
    - apply (g_el _ _ _ _ GI0).
    - apply (g_i2 _ _ _ _ GI0).
    - reflexivity.
    - intros i s G. apply get_node_in in G. destruct G as [G _]. destruct (Hl s G) as [L1 [L2 L3]].
      unfold shape, Cf0. rewrite L1, L2. simpl. auto.
    - intro j. constructor.
    - intros t i l [H | []]. inversion H. subst. constructor; [| constructor]. unfold eok, boot_entry. simpl.
      unfold decode_conf. simpl. unfold cok. simpl. rewrite !map_length. exact Hbm.
    - rewrite Hs. intros m [].
    - intros m' [].
    - rewrite Hs. intros m [].
  Qed.
  Lemma sstepS_ids n σ e σ' : sstepS n σ e σ' -> map n_id (sy_nodes σ') = map n_id (sy_nodes σ).
  Proof. intro H. destruct H. simpl. apply put_node_ids. Qed.

  Lemma SI_run n σ1 sched σ2 Cf1 S1 G1 A1 CL1 GR1 :
    SI n σ1 Cf1 S1 G1 A1 CL1 GR1 -> run sys sys_event (sstepS n) σ1 sched σ2 ->
    exists Cf2 S2 G2 A2 CL2 GR2, SI n σ2 Cf2 S2 G2 A2 CL2 GR2 /\ incl G1 G2 /\ incl A1 A2 /\
                                  map n_id (sy_nodes σ2) = map n_id (sy_nodes σ1).
  Proof.
    intros HS Hrun. revert Cf1 S1 G1 A1 CL1 GR1 HS. induction Hrun as [σ | σ e σ' es σ'' Hst Hr IH]; intros Cf1 S1 G1 A1 CL1 GR1 HS.
    - exists Cf1, S1, G1, A1, CL1, GR1. split; [exact HS|]. split; [apply incl_refl|]. split; [apply incl_refl | reflexivity].
    - destruct (SI_step n σ Cf1 S1 G1 A1 CL1 GR1 e σ' HS Hst) as [Cf' [S' [G' [A' [CL' [GR' [HS' [Hi [Ha _]]]]]]]]].
      destruct (IH Cf' S' G' A' CL' GR' HS') as [Cf2 [S2 [G2 [A2 [CL2 [GR2 [HS2 [Hi2 [Ha2 Hid2]]]]]]]]].
      exists Cf2, S2, G2, A2, CL2, GR2. split; [exact HS2|]. split; [eapply incl_tran; eauto|]. split; [eapply incl_tran; eauto|].
      rewrite Hid2. apply (sstepS_ids n σ e σ' Hst).
  Qed.

  (* ---------------------------------------------------------------- state-level consequences of the invariants *)
  Lemma lc_state σ1 σ2 G1 A1 CL1 GR1 G2 A2 CL2 GR2 :
    cminv bm be σ1 G1 A1 CL1 GR1 -> cminv bm be σ2 G2 A2 CL2 GR2 -> incl G1 G2 -> incl A1 A2 ->
    quorum_of (map n_id (sy_nodes σ2)) = quorum_of (map n_id (sy_nodes σ1)) ->
    forall a b, In a (sy_nodes σ1) -> In b (sy_nodes σ2) -> n_role b = Leader -> p_term (n_p a) < p_term (n_p b) ->
      (N.to_nat (n_commit a) <= length (p_log (n_p a)))%nat /\
      firstn (N.to_nat (n_commit a)) (p_log (n_p b)) = firstn (N.to_nat (n_commit a)) (p_log (n_p a)).
  Proof.
    intros C1 C2 HG HA Hq a b Ha Hb Hlb Htb.
    pose proof (c_w _ _ _ _ _ _ _ C1) as W1. pose proof (c_w _ _ _ _ _ _ _ C2) as W2.
    pose proof (k_g _ _ _ _ _ (w_k _ _ _ _ _ _ _ W1)) as GI1. pose proof (k_g _ _ _ _ _ (w_k _ _ _ _ _ _ _ W2)) as GI2.
    pose proof (in_get_node _ _ (i_nodup _ _ (g_el _ _ _ _ GI1)) Ha) as Ga.
    pose proof (in_get_node _ _ (i_nodup _ _ (g_el _ _ _ _ GI2)) Hb) as Gb.
    destruct (c_node _ _ _ _ _ _ _ C1 _ _ Ga) as [Hcl Hcp]. split; [exact Hcl|].
    destruct Hcp as [Z | [T [P [Cm [HT Hp]]]]]; [rewrite Z; reflexivity|].
    pose proof (committed_mono σ1 σ2 G1 G2 A1 A2 T P Hq HG HA Cm) as Cm2.
    pose proof (g_rec_leader _ _ _ _ GI2 _ _ Gb Hlb) as Rb.
    pose proof (committed_kept bm be σ2 G2 A2 CL2 GR2 T P W2 Cm2 _ _ _ Rb ltac:(lia)) as K.
    set (c := N.to_nat (n_commit a)) in *.
    assert (Hlen : length (firstn c (p_log (n_p a))) = c) by (rewrite firstn_length; lia).
    assert (HcP : (c <= length P)%nat) by (destruct Hp as [x Hx]; rewrite Hx, app_length; lia).
    assert (E1 : firstn c P = firstn c (p_log (n_p a))).
    { destruct Hp as [x Hx]. rewrite Hx. rewrite firstn_app, Hlen, Nat.sub_diag. simpl. rewrite app_nil_r. rewrite firstn_firstn, Nat.min_id. reflexivity. }
    rewrite <- E1. unfold keeps in K. rewrite <- K. rewrite firstn_firstn, Nat.min_l by lia. reflexivity.
  Qed.
  (* ---------------------------------------------------------------- applied entries *)
  Lemma applS_step n σ e σ' : appl_ok σ -> sstepS n σ e σ' -> appl_ok σ'.
  Proof.
    intros AO Hst. destruct Hst as [σ i s ev k crashed st s' Gs Hdel Hev Hres Hrun].
    assert (Hi : n_id s' = i) by (destruct (step_facts _ _ _ _ _ _ Hrun) as [Hid' _]; destruct (get_node_in _ _ _ Gs) as [_ Gid']; congruence).
    intros j x0 Hx. simpl in Hx. destruct (N.eq_dec j i) as [E | E].
    - subst j. rewrite <- Hi in Hx. rewrite (get_put_same s' (sy_nodes σ) s) in Hx by (rewrite Hi; exact Gs). inversion Hx. subst x0.
      intros x Hin. split; [| apply (applied_index_bound s ev k crashed st s' Hrun x Hin)].
      destruct ev as [ms ep | m | | es | mem rnd | mem | sm |]; try (simpl in Hev; contradiction).
      + apply (fun H => applied_in_own_log s _ k crashed st s' H Hrun x Hin); exact Logic.I.
      + destruct (m_body m) as [pi pt cm oes | su ix hi | vli vlt | gr | li lt cf] eqn:Eb.
        5: { apply (applied_in_own_log_snap s (EDeliver m) k crashed st s'); auto. eexists _, _, _; exact Eb. }
        all: apply (applied_in_own_log s (EDeliver m) k crashed st s'); auto; simpl; unfold no_snap_msg; rewrite Eb; exact Logic.I.
      + apply (fun H => applied_in_own_log s _ k crashed st s' H Hrun x Hin); exact Logic.I.
      + apply (fun H => applied_in_own_log s _ k crashed st s' H Hrun x Hin); exact Logic.I.
      + apply (applied_in_own_log_snap s (ESnapDone sm) k crashed st s' Logic.I Hrun x Hin).
      + apply (fun H => applied_in_own_log s _ k crashed st s' H Hrun x Hin); exact Logic.I.
    - rewrite get_put_other in Hx by congruence. apply (AO j x0 Hx).
  Qed.

  Lemma applS_run n σ1 sched σ2 : appl_ok σ1 -> run sys sys_event (sstepS n) σ1 sched σ2 -> appl_ok σ2.
  Proof. intros AO Hr. induction Hr; auto. apply IHHr. eapply applS_step; eauto. Qed.

  Lemma appl_vsys Cf S σ : appl_ok σ -> appl_ok (vsys Cf S σ).
  Proof.
    intros AO i v G. apply get_node_vsys_some in G. destruct G as [s [Gs E]]. subst v. intros x Hx. simpl in Hx.
    destruct (AO i s Gs x Hx) as [A B]. split; [simpl; apply in_or_app; right; exact A | exact B].
  Qed.

  Lemma sms_state σ1 σ2 G1 A1 CL1 GR1 G2 A2 CL2 GR2 :
    cminv bm be σ1 G1 A1 CL1 GR1 -> cminv bm be σ2 G2 A2 CL2 GR2 -> incl G1 G2 -> incl A1 A2 ->
    quorum_of (map n_id (sy_nodes σ2)) = quorum_of (map n_id (sy_nodes σ1)) -> appl_ok σ1 -> appl_ok σ2 ->
    forall a b x y, In a (sy_nodes σ1) -> In b (sy_nodes σ2) -> In x (n_commits a) -> In y (n_commits b) -> e_index x = e_index y -> x = y.
  Proof.
    intros C1 C2 HG HA Hq AO1 AO2 a b x y Ha Hb Hx Hy Ei.
    pose proof (c_w _ _ _ _ _ _ _ C1) as W1. pose proof (c_w _ _ _ _ _ _ _ C2) as W2.
    pose proof (k_g _ _ _ _ _ (w_k _ _ _ _ _ _ _ W1)) as GI1. pose proof (k_g _ _ _ _ _ (w_k _ _ _ _ _ _ _ W2)) as GI2.
    pose proof (in_get_node _ _ (i_nodup _ _ (g_el _ _ _ _ GI1)) Ha) as Ga.
    pose proof (in_get_node _ _ (i_nodup _ _ (g_el _ _ _ _ GI2)) Hb) as Gb.
    assert (Hpos : forall σ G A CL GR (CI : cminv bm be σ G A CL GR) s z,
               get_node (n_id s) (sy_nodes σ) = Some s -> In z (p_log (n_p s)) -> e_index z <= n_commit s ->
               exists T P, committed σ G A T P /\ nth_error P (N.to_nat (e_index z) - 1) = Some z /\ 1 <= e_index z).
    { intros σ G A CL GR CI s z Gz Hz Hb0.
      pose proof (k_g _ _ _ _ _ (w_k _ _ _ _ _ _ _ (c_w _ _ _ _ _ _ _ CI))) as GI.
      destruct (g_base _ _ _ _ GI _ _ Gz) as [_ [Wf _]]. apply In_nth_error in Hz. destruct Hz as [kz Hk].
      pose proof (wf_from_nth _ _ _ _ Wf Hk) as Iz.
      destruct (c_node _ _ _ _ _ _ _ CI _ _ Gz) as [Hcl [Z | [T [P [Cm [_ [w Hw]]]]]]]; [lia|].
      exists T, P. split; [exact Cm|]. split; [| lia].
      replace (N.to_nat (e_index z) - 1)%nat with kz by lia.
      rewrite Hw. rewrite nth_error_app1 by (rewrite firstn_length; lia). rewrite nth_error_firstn'.
      assert (Y : (kz <? N.to_nat (n_commit s))%nat = true) by (apply Nat.ltb_lt; lia). rewrite Y. exact Hk. }
    destruct (AO1 _ _ Ga x Hx) as [Lx Bx]. destruct (AO2 _ _ Gb y Hy) as [Ly By].
    destruct (Hpos _ _ _ _ _ C1 a x Ga Lx Bx) as [Tx [Px [Cx [Nx Ix]]]].
    destruct (Hpos _ _ _ _ _ C2 b y Gb Ly By) as [Ty [Py [Cy [Ny Iy]]]].
    pose proof (committed_mono σ1 σ2 G1 G2 A1 A2 Tx Px Hq HG HA Cx) as Cx2.
    pose proof (committed_comparable bm be σ2 G2 A2 CL2 GR2 _ _ _ _ W2 Cx2 Cy) as Cmp.
    rewrite Ei in Nx.
    assert (H1 : (Datatypes.S (N.to_nat (e_index y) - 1) <= length Px)%nat) by (eapply nth_len; eauto).
    assert (H2 : (Datatypes.S (N.to_nat (e_index y) - 1) <= length Py)%nat) by (eapply nth_len; eauto).
    pose proof (comparable_firstn _ _ _ Cmp H1 H2) as Pf. apply firstn_nth_eq in Pf. congruence.
  Qed.
End System.

(* ================================================================ THE THEOREMS *)
(* logical log of a node under a ghost assignment: the entries its snapshot covers and its log no longer holds, then its log *)
Definition llog (Cf : ghost) (a : node) : list entry := Cf (n_id a) ++ p_log (n_p a).

(* the ghost assignment fits the state: logical logs are index-contiguous from 1, a node without snapshot has an empty ghost
   prefix, a snapshot (i, t) names position i of the logical log, whose entry has term t, and i is at most the commit index *)
Definition ghost_ok (σ : sys) (Cf : ghost) : Prop :=
  forall a, In a (sy_nodes σ) -> shape (Cf (n_id a)) (n_p a) (n_commit a).

Lemma SI_ghost_ok bm be n σ Cf S G A CL GR : SI bm be n σ Cf S G A CL GR -> ghost_ok σ Cf.
Proof.
  intros HS a Ha. apply (si_shape _ _ _ _ _ _ _ _ _ _ HS (n_id a) a).
  apply in_get_node; [apply (i_nodup _ _ (si_el _ _ _ _ _ _ _ _ _ _ HS)) | exact Ha].
Qed.

Lemma vsys_in Cf S σ a : In a (sy_nodes σ) -> In (vnode Cf a) (sy_nodes (vsys Cf S σ)).
Proof. intro H. simpl. apply in_map. exact H. Qed.

(* an entry of the logical log is in the physical log or under the snapshot *)
Lemma covered_or_held C p cm k e :
  shape C p cm -> nth_error (C ++ p_log p) k = Some e ->
  e_index e = N.of_nat (S k) /\ (In e (p_log p) \/ exists m, p_snap p = Some m /\ e_index e <= sn_index m).
Proof.
  intros Sh H. pose proof Sh as [W Sx]. pose proof (wf_from_nth _ _ _ _ W H) as Ix. split; [lia|].
  destruct (Nat.lt_ge_cases k (length C)) as [Hk | Hk].
  - right. destruct (p_snap p) as [m |]; [| subst C; simpl in Hk; lia]. exists m. split; [reflexivity|]. lia.
  - left. rewrite nth_error_app2 in H by exact Hk. eapply nth_error_In; eauto.
Qed.

Lemma phys_pos C p cm e : shape C p cm -> In e (p_log p) -> 1 <= e_index e /\ nth_error (C ++ p_log p) (N.to_nat (e_index e) - 1) = Some e.
Proof.
  intros Sh Hin. pose proof Sh as [W _]. apply In_nth_error in Hin. destruct Hin as [k Hk].
  assert (HL : nth_error (C ++ p_log p) (length C + k) = Some e).
  { rewrite nth_error_app2 by lia. replace (length C + k - length C)%nat with k by lia. exact Hk. }
  pose proof (wf_from_nth _ _ _ _ W HL) as Ix. split; [lia|]. rewrite <- HL. f_equal. lia.
Qed.

Section Theorems.
  Variables (bm : list nid) (be : N).

  Lemma reach σ0 sched σ :
    cinit σ0 -> length bm = length (sy_nodes σ0) -> run sys sys_event (sstepS bm be (length (sy_nodes σ0))) σ0 sched σ ->
    exists Cf S G A CL GR, SI bm be (length (sy_nodes σ0)) σ Cf S G A CL GR.
  Proof.
    intros Hc Hbm Hr. destruct (SI_run bm be _ σ0 sched σ _ _ _ _ _ _ (SI_init bm be σ0 Hc Hbm) Hr) as [Cf [S [G [A [CL [GR [H _]]]]]]].
    eauto 10.
  Qed.

  (* LEADER COMPLETENESS over logical logs *)
  Theorem leader_completeness_with_snapshots_sys σ0 σ1 σ2 sched1 sched2 :
    cinit σ0 -> length bm = length (sy_nodes σ0) ->
    run sys sys_event (sstepS bm be (length (sy_nodes σ0))) σ0 sched1 σ1 ->
    run sys sys_event (sstepS bm be (length (sy_nodes σ0))) σ1 sched2 σ2 ->
    exists Cf1 Cf2, ghost_ok σ1 Cf1 /\ ghost_ok σ2 Cf2 /\
      forall a b, In a (sy_nodes σ1) -> In b (sy_nodes σ2) -> n_role b = Leader -> p_term (n_p a) < p_term (n_p b) ->
        (N.to_nat (n_commit a) <= length (llog Cf1 a))%nat /\
        firstn (N.to_nat (n_commit a)) (llog Cf2 b) = firstn (N.to_nat (n_commit a)) (llog Cf1 a).
  Proof.
    intros Hc Hbm Hr1 Hr2.
    destruct (SI_run bm be _ σ0 sched1 σ1 _ _ _ _ _ _ (SI_init bm be σ0 Hc Hbm) Hr1) as [Cf1 [S1 [G1 [A1 [CL1 [GR1 [H1 _]]]]]]].
    destruct (SI_run bm be _ σ1 sched2 σ2 _ _ _ _ _ _ H1 Hr2) as [Cf2 [S2 [G2 [A2 [CL2 [GR2 [H2 [HG [HA Hid]]]]]]]]].
    exists Cf1, Cf2. split; [eapply SI_ghost_ok; eauto|]. split; [eapply SI_ghost_ok; eauto|].
    intros a b Ha Hb Hl Ht.
    assert (Hq : quorum_of (map n_id (sy_nodes (vsys Cf2 S2 σ2))) = quorum_of (map n_id (sy_nodes (vsys Cf1 S1 σ1)))).
    { simpl. rewrite !ids_vsys, Hid. reflexivity. }
    exact (lc_state bm be _ _ _ _ _ _ _ _ _ _ (si_cm _ _ _ _ _ _ _ _ _ _ H1) (si_cm _ _ _ _ _ _ _ _ _ _ H2) HG HA Hq
             (vnode Cf1 a) (vnode Cf2 b) (vsys_in Cf1 S1 σ1 a Ha) (vsys_in Cf2 S2 σ2 b Hb) Hl Ht).
  Qed.

  (* ghost-free form: a committed entry is never lost - every leader of a later term holds it in its log or has it under its snapshot;
     and the position a snapshot names is held, with the snapshot's term, or covered *)
  Theorem leader_completeness_with_snapshots_entries σ0 σ1 σ2 sched1 sched2 :
    cinit σ0 -> length bm = length (sy_nodes σ0) ->
    run sys sys_event (sstepS bm be (length (sy_nodes σ0))) σ0 sched1 σ1 ->
    run sys sys_event (sstepS bm be (length (sy_nodes σ0))) σ1 sched2 σ2 ->
    forall a b, In a (sy_nodes σ1) -> In b (sy_nodes σ2) -> n_role b = Leader -> p_term (n_p a) < p_term (n_p b) ->
      (forall e, In e (p_log (n_p a)) -> e_index e <= n_commit a ->
         In e (p_log (n_p b)) \/ exists mb, p_snap (n_p b) = Some mb /\ e_index e <= sn_index mb) /\
      (forall ma, p_snap (n_p a) = Some ma ->
         (exists e, In e (p_log (n_p b)) /\ e_index e = sn_index ma /\ e_term e = sn_term ma) \/
         (exists mb, p_snap (n_p b) = Some mb /\ sn_index ma <= sn_index mb)).
  Proof.
    intros Hc Hbm Hr1 Hr2 a b Ha Hb Hl Ht.
    destruct (leader_completeness_with_snapshots_sys σ0 σ1 σ2 sched1 sched2 Hc Hbm Hr1 Hr2) as [Cf1 [Cf2 [G1 [G2 LC]]]].
    destruct (LC a b Ha Hb Hl Ht) as [Hlen Heq]. pose proof (G1 a Ha) as Sa. pose proof (G2 b Hb) as Sb. unfold llog in *.
    set (c := N.to_nat (n_commit a)) in *.
    assert (Hmove : forall k e, (k < c)%nat -> nth_error (Cf1 (n_id a) ++ p_log (n_p a)) k = Some e ->
                      nth_error (Cf2 (n_id b) ++ p_log (n_p b)) k = Some e).
    { intros k e Hk He. assert (X : nth_error (firstn c (Cf2 (n_id b) ++ p_log (n_p b))) k = Some e).
      { rewrite Heq. rewrite nth_error_firstn'. apply Nat.ltb_lt in Hk. rewrite Hk. exact He. }
      rewrite nth_error_firstn' in X. destruct (k <? c)%nat; [exact X | discriminate]. }
    split.
    - intros e Hin Hle. destruct (phys_pos _ _ _ e Sa Hin) as [H1 Hp].
      assert (Hk : (N.to_nat (e_index e) - 1 < c)%nat) by (unfold c; lia).
      destruct (covered_or_held _ _ _ _ e Sb (Hmove _ _ Hk Hp)) as [_ X]. exact X.
    - intros ma Hma. pose proof Sa as [_ Sx]. rewrite Hma in Sx. destruct Sx as [S1 [S2 [S3 [S4 S5]]]].
      destruct S3 as [Z | [e [E1 E2]]]; [lia|].
      assert (Hk : (N.to_nat (sn_index ma - 1) < c)%nat) by (unfold c; lia).
      destruct (covered_or_held _ _ _ _ e Sb (Hmove _ _ Hk E1)) as [Ix [X | [mb [X1 X2]]]].
      + left. exists e. split; [exact X|]. split; [lia | exact E2].
      + right. exists mb. split; [exact X1 | lia].
  Qed.
  (* LOG MATCHING over logical logs *)
  Theorem log_matching_with_snapshots_sys σ0 σ sched :
    cinit σ0 -> length bm = length (sy_nodes σ0) ->
    run sys sys_event (sstepS bm be (length (sy_nodes σ0))) σ0 sched σ ->
    exists Cf, ghost_ok σ Cf /\
      forall a b k k' e e', In a (sy_nodes σ) -> In b (sy_nodes σ) ->
        nth_error (llog Cf a) k = Some e -> nth_error (llog Cf b) k' = Some e' -> e_index e = e_index e' -> e_term e = e_term e' ->
        k = k' /\ firstn (Datatypes.S k) (llog Cf a) = firstn (Datatypes.S k) (llog Cf b).
  Proof.
    intros Hc Hbm Hr. destruct (reach σ0 sched σ Hc Hbm Hr) as [Cf [S [G [A [CL [GR HS]]]]]].
    exists Cf. split; [eapply SI_ghost_ok; eauto|].
    intros a b k k' e e' Ha Hb Hk Hk' Ei Et.
    pose proof (k_g _ _ _ _ _ (w_k _ _ _ _ _ _ _ (c_w _ _ _ _ _ _ _ (si_cm _ _ _ _ _ _ _ _ _ _ HS)))) as GI.
    pose proof (SI_ghost_ok _ _ _ _ _ _ _ _ _ _ HS) as Gk.
    destruct (Gk a Ha) as [Wa _]. destruct (Gk b Hb) as [Wb _]. unfold llog in *.
    pose proof (wf_from_nth _ _ _ _ Wa Hk) as Ia. pose proof (wf_from_nth _ _ _ _ Wb Hk') as Ib.
    assert (Ek : k = k') by lia. subst k'. split; [reflexivity|].
    assert (Hnd : NoDup (map n_id (sy_nodes σ))) by (apply (i_nodup _ _ (si_el _ _ _ _ _ _ _ _ _ _ HS))).
    pose proof (get_vsys Cf S σ _ _ (in_get_node _ _ Hnd Ha)) as Ga. pose proof (get_vsys Cf S σ _ _ (in_get_node _ _ Hnd Hb)) as Gb.
    eapply same_term_prefix; eauto.
    - apply (g_cmp _ _ _ _ GI).
    - apply (g_lm_node _ _ _ _ GI _ _ Ga).
    - apply (g_lm_node _ _ _ _ GI _ _ Gb).
  Qed.

  (* ghost-free form, on the physical logs: entries with the same index and term are equal, and so are all entries of smaller
     index that both logs still hold *)
  Theorem log_matching_with_snapshots_entries σ0 σ sched :
    cinit σ0 -> length bm = length (sy_nodes σ0) ->
    run sys sys_event (sstepS bm be (length (sy_nodes σ0))) σ0 sched σ ->
    forall a b e e', In a (sy_nodes σ) -> In b (sy_nodes σ) -> In e (p_log (n_p a)) -> In e' (p_log (n_p b)) ->
      e_index e = e_index e' -> e_term e = e_term e' ->
      e = e' /\ forall x y, In x (p_log (n_p a)) -> In y (p_log (n_p b)) -> e_index x = e_index y -> e_index x <= e_index e -> x = y.
  Proof.
    intros Hc Hbm Hr a b e e' Ha Hb He He' Ei Et.
    destruct (log_matching_with_snapshots_sys σ0 σ sched Hc Hbm Hr) as [Cf [Gk LM]].
    pose proof (Gk a Ha) as Sa. pose proof (Gk b Hb) as Sb.
    destruct (phys_pos _ _ _ e Sa He) as [H1 Pa]. destruct (phys_pos _ _ _ e' Sb He') as [H1' Pb].
    destruct (LM a b _ _ e e' Ha Hb Pa Pb Ei Et) as [Ek Pf]. unfold llog in *.
    set (k := (N.to_nat (e_index e) - 1)%nat) in *.
    assert (Hsame : forall j x, (j <= k)%nat -> nth_error (Cf (n_id a) ++ p_log (n_p a)) j = Some x ->
                      nth_error (Cf (n_id b) ++ p_log (n_p b)) j = Some x).
    { intros j x Hj Hx. assert (X : nth_error (firstn (Datatypes.S k) (Cf (n_id b) ++ p_log (n_p b))) j = Some x).
      { rewrite <- Pf. rewrite nth_error_firstn'. assert (Y : (j <? Datatypes.S k)%nat = true) by (apply Nat.ltb_lt; lia). rewrite Y. exact Hx. }
      rewrite nth_error_firstn' in X. destruct (j <? Datatypes.S k)%nat; [exact X | discriminate]. }
    split.
    - pose proof (Hsame k e (le_n k) Pa) as X. rewrite <- Ek in Pb. congruence.
    - intros x y Hx Hy Exy Hle. destruct (phys_pos _ _ _ x Sa Hx) as [X1 Px]. destruct (phys_pos _ _ _ y Sb Hy) as [Y1 Py].
      assert (Hj : (N.to_nat (e_index x) - 1 <= k)%nat) by (unfold k; lia).
      pose proof (Hsame _ x Hj Px) as X. rewrite Exy in X. congruence.
  Qed.

  (* A COMMITTED ENTRY IS NEVER TRUNCATED, over logical logs, and ghost-free: after the step the touched node still holds each
     committed entry in its log, or has it under its snapshot *)
  Theorem committed_entry_never_truncated_with_snapshots_sys σ0 σ σ' sched e :
    cinit σ0 -> length bm = length (sy_nodes σ0) ->
    run sys sys_event (sstepS bm be (length (sy_nodes σ0))) σ0 sched σ ->
    sstepS bm be (length (sy_nodes σ0)) σ e σ' ->
    exists Cf Cf', ghost_ok σ Cf /\ ghost_ok σ' Cf' /\
      forall a a', In a (sy_nodes σ) -> In a' (sy_nodes σ') -> n_id a' = n_id a ->
        firstn (N.to_nat (n_commit a)) (llog Cf' a') = firstn (N.to_nat (n_commit a)) (llog Cf a) /\
        forall x, In x (p_log (n_p a)) -> e_index x <= n_commit a ->
          In x (p_log (n_p a')) \/ exists m', p_snap (n_p a') = Some m' /\ e_index x <= sn_index m'.
  Proof.
    intros Hc Hbm Hr Hst. destruct (reach σ0 sched σ Hc Hbm Hr) as [Cf [S [G [A [CL [GR HS]]]]]].
    destruct (SI_step bm be _ σ Cf S G A CL GR e σ' HS Hst) as [Cf' [S' [G' [A' [CL' [GR' [HS' [_ [_ Hk]]]]]]]]].
    exists Cf, Cf'. pose proof (SI_ghost_ok _ _ _ _ _ _ _ _ _ _ HS) as Gk. pose proof (SI_ghost_ok _ _ _ _ _ _ _ _ _ _ HS') as Gk'.
    split; [exact Gk|]. split; [exact Gk'|].
    intros a a' Ha Ha' Hid.
    assert (Hnd : NoDup (map n_id (sy_nodes σ))) by (apply (i_nodup _ _ (si_el _ _ _ _ _ _ _ _ _ _ HS))).
    assert (Hnd' : NoDup (map n_id (sy_nodes σ'))) by (apply (i_nodup _ _ (si_el _ _ _ _ _ _ _ _ _ _ HS'))).
    pose proof (in_get_node _ _ Hnd Ha) as Ga. pose proof (in_get_node _ _ Hnd' Ha') as Ga'. rewrite Hid in Ga'.
    pose proof (Hk _ _ _ Ga Ga') as Keq. unfold llog. rewrite Hid. split; [exact Keq|].
    intros x Hx Hle. pose proof (Gk a Ha) as Sa. pose proof (Gk' a' Ha') as Sa'. rewrite Hid in Sa'.
    destruct (phys_pos _ _ _ x Sa Hx) as [X1 Px].
    assert (Y : nth_error (Cf' (n_id a) ++ p_log (n_p a')) (N.to_nat (e_index x) - 1) = Some x).
    { assert (Z : nth_error (firstn (N.to_nat (n_commit a)) (Cf' (n_id a) ++ p_log (n_p a'))) (N.to_nat (e_index x) - 1) = Some x).
      { rewrite Keq. rewrite nth_error_firstn'. assert (B : (N.to_nat (e_index x) - 1 <? N.to_nat (n_commit a))%nat = true) by (apply Nat.ltb_lt; lia).
        rewrite B. exact Px. }
      rewrite nth_error_firstn' in Z. destruct (N.to_nat (e_index x) - 1 <? N.to_nat (n_commit a))%nat; [exact Z | discriminate]. }
    destruct (covered_or_held _ _ _ _ x Sa' Y) as [_ R]. exact R.
  Qed.
  (* STATE MACHINE SAFETY: entries handed to the state machines of any two nodes at any two moments, with the same index, are equal *)
  Theorem state_machine_safety_with_snapshots_sys σ0 σ1 σ2 sched1 sched2 :
    cinit σ0 -> length bm = length (sy_nodes σ0) ->
    run sys sys_event (sstepS bm be (length (sy_nodes σ0))) σ0 sched1 σ1 ->
    run sys sys_event (sstepS bm be (length (sy_nodes σ0))) σ1 sched2 σ2 ->
    forall a b x y, In a (sy_nodes σ1) -> In b (sy_nodes σ2) -> In x (n_commits a) -> In y (n_commits b) -> e_index x = e_index y -> x = y.
  Proof.
    intros Hc Hbm Hr1 Hr2 a b x y Ha Hb Hx Hy Ei.
    destruct (SI_run bm be _ σ0 sched1 σ1 _ _ _ _ _ _ (SI_init bm be σ0 Hc Hbm) Hr1) as [Cf1 [S1 [G1 [A1 [CL1 [GR1 [H1 _]]]]]]].
    destruct (SI_run bm be _ σ1 sched2 σ2 _ _ _ _ _ _ H1 Hr2) as [Cf2 [S2 [G2 [A2 [CL2 [GR2 [H2 [HG [HA Hid]]]]]]]]].
    assert (AO0 : appl_ok σ0).
    { intros i s G z Hz. apply get_node_in in G. destruct G as [G _]. destruct Hc as [_ Hc0]. destruct (Hc0 s G) as [_ E]. rewrite E in Hz. contradiction. }
    pose proof (applS_run bm be _ σ0 sched1 σ1 AO0 Hr1) as AO1. pose proof (applS_run bm be _ σ1 sched2 σ2 AO1 Hr2) as AO2.
    assert (Hq : quorum_of (map n_id (sy_nodes (vsys Cf2 S2 σ2))) = quorum_of (map n_id (sy_nodes (vsys Cf1 S1 σ1)))).
    { simpl. rewrite !ids_vsys, Hid. reflexivity. }
    exact (sms_state bm be _ _ _ _ _ _ _ _ _ _ (si_cm _ _ _ _ _ _ _ _ _ _ H1) (si_cm _ _ _ _ _ _ _ _ _ _ H2) HG HA Hq
             (appl_vsys Cf1 S1 σ1 AO1) (appl_vsys Cf2 S2 σ2 AO2)
             (vnode Cf1 a) (vnode Cf2 b) x y (vsys_in Cf1 S1 σ1 a Ha) (vsys_in Cf2 S2 σ2 b Hb) Hx Hy Ei).
  Qed.
End Theorems.
