(* Raft/NonMemberPass.v — round 15: a node whose role is not Follower and whose latest configuration is committed is a member of it:
   preserved by every event and crash point (node level).  Skeleton of Raft/SnapIndexPos.v; the role-changing and
   configuration- or commit-changing places are treated by hand: become_candidate (guard of enterCandidate), leader_commit_up_to
   (step-down guard), AddNode / RemoveNode (new configuration is uncommitted), become_leader, the follower handlers
   (Raft/RoleFollowerPass.v), newCore. *)
From Coq Require Import List NArith ZArith Bool Lia ZifyN ZifyNat ZifyBool.
From BLB Require Import Raft.Core Raft.NodeProofs Raft.LogMatchLists Raft.SnapContig Raft.MemberConfTrack Raft.LeaderSuffixS Raft.NonMemberLeader.
From BLB Require Raft.RoleFollowerPass.
Import ListNotations.
Open Scope N_scope.

Definition Qm (s : node) : Prop := in_latest_conf s = true \/ latest_conf_committed s = false.
Definition jq (s : node) : Prop := Qm s \/ n_role s = Follower.

Lemma jq_Jnm s : jq s <-> Jnm s.
Proof.
  unfold jq, Qm, Jnm. split.
  - intros [[H | H] | H] Hr Hc; [exact H | congruence | contradiction].
  - intro H. destruct (n_role s) eqn:Er; [right; reflexivity | |];
      (left; destruct (latest_conf_committed s) eqn:Ec; [left; apply H; [discriminate | reflexivity] | right; reflexivity]).
Qed.

Definition mk (s s' : node) : Prop := jq s -> jq s'.
Lemma mk_refl s : mk s s. Proof. intro H. exact H. Qed.
Lemma mk_trans a b c : mk a b -> mk b c -> mk a c. Proof. intros A B H. apply B. apply A. exact H. Qed.
Lemma Qm_vol s s' : n_conf s' = n_conf s -> n_commit s' = n_commit s -> n_id s' = n_id s -> Qm s -> Qm s'.
Proof. intros A B C H. unfold Qm, in_latest_conf, latest_conf_committed in *. rewrite A, B, C. exact H. Qed.
Lemma mk_vol s s' : n_role s' = n_role s -> n_conf s' = n_conf s -> n_commit s' = n_commit s -> n_id s' = n_id s -> mk s s'.
Proof. intros R A B C [H | H]; [left; eapply Qm_vol; eauto | right; congruence]. Qed.
Lemma mk_fol s s' : n_role s' = Follower -> mk s s'.
Proof. intros R _. right. exact R. Qed.
Definition mx (s : node) (r : R node) : Prop := match r with Ret s' => mk s s' | _ => True end.
Definition mx2 (s : node) (r : R (N * node)) : Prop := match r with Ret (_, s') => mk s s' | _ => True end.

Lemma mx_bind s (a : R node) (f : node -> R node) :
  mx s a -> (forall s1, mx s1 (f s1)) -> mx s (bind a f).
Proof.
  intros Ha Hf. destruct a as [s1 | c | p]; simpl in *; auto.
  specialize (Hf s1). destruct (f s1); simpl in *; auto. eapply mk_trans; eauto.
Qed.

Lemma mx_bind_pure {A} s (a : R A) (f : A -> R node) :
  (forall x, a = Ret x -> mx s (f x)) -> mx s (bind a f).
Proof. intros Hf. destruct a; simpl in *; auto. Qed.

Lemma mx_pre s s' r : mk s s' -> mx s' r -> mx s r.
Proof. intros H K. destruct r; simpl in *; auto. eapply mk_trans; eauto. Qed.

Lemma mx2_bind s (a : R node) (f : node -> R (N * node)) :
  mx s a -> (forall s1, mx2 s1 (f s1)) -> mx2 s (bind a f).
Proof.
  intros Ha Hf. destruct a as [s1 | c | p]; simpl in *; auto.
  specialize (Hf s1). destruct (f s1) as [[st s2] | |]; simpl in *; auto. eapply mk_trans; eauto.
Qed.

Lemma mx2_bind_pure {A} s (a : R A) (f : A -> R (N * node)) :
  (forall x, a = Ret x -> mx2 s (f x)) -> mx2 s (bind a f).
Proof. intros Hf. destruct a; simpl in *; auto. Qed.

Lemma mx2_pre s s' r : mk s s' -> mx2 s' r -> mx2 s r.
Proof. intros H K. destruct r as [[st x] | |]; simpl in *; auto. eapply mk_trans; eauto. Qed.

Lemma mx2_of_mx s r st : mx s r -> mx2 s (s1 <- r ;; Ret (st, s1)).
Proof. destruct r; simpl; auto. Qed.


Ltac mvol := first [apply mk_vol; reflexivity | apply mk_fol; reflexivity].
Ltac mleaf := simpl; solve [mvol].
Ltac msend := mleaf.

Lemma mx_do_mut s m : True -> mx s (do_mut m s).
Proof. intros _. unfold do_mut. destruct (negb (n_budget s =? 0) && (n_budget s =? n_cnt s + 1)); simpl; auto. mvol. Qed.

Lemma mx_log_append s es : mx s (log_append s es).
Proof.
  unfold log_append. apply mx_bind; [apply mx_do_mut; exact I|].
  intros s1. destruct (snd (mem_append (p_log (n_p s)) es)); simpl; auto using mk_refl.
Qed.

Lemma mx_trim_log s i : mx s (trim_log s i).
Proof.
  unfold trim_log. destruct (log_first (p_log (n_p s))); [| mleaf]. destruct (log_last (p_log (n_p s))); [| mleaf].
  destruct (i =? n - 1); [mleaf|]. destruct ((i <? n) || (n0 <? i)); simpl; auto.
  destruct (i - n <? cf_keep (n_cfg s)); [mleaf|]. apply mx_do_mut; exact I.
Qed.

Lemma mx_send_app_ents s p : mx s (send_app_ents s p).
Proof.
  unfold send_app_ents. apply mx_bind_pure. intros ob _. destruct ob as [b |]; [mleaf|].
  destruct (p_snap (n_p s)) as [sm |]; simpl; auto. destruct (sn_conf sm); simpl; auto. mvol.
Qed.

Lemma mx_for_peers ids f s :
  (forall s1 p, mx s1 (f s1 p)) -> mx s (for_peers ids f s).
Proof.
  intro Hf. revert s. induction ids as [| id r IH]; intros s; simpl.
  - apply mk_refl.
  - destruct (peer_get id (l_peers s)); auto. apply mx_bind; auto.
Qed.

Lemma mx_leader_commit_up_to s i : mx s (leader_commit_up_to s i).
Proof.
  pose proof (leader_commit_up_to_guard s i) as K. destruct (leader_commit_up_to s i) as [s' | |]; simpl; auto.
  intro J. apply jq_Jnm. apply K; [apply jq_Jnm; exact J | reflexivity].
Qed.

Lemma mx_leader_maybe_commit s : mx s (leader_maybe_commit s).
Proof.
  unfold leader_maybe_commit. apply mx_bind_pure. intros mi _.
  destruct (n_commit s <? mi) eqn:Ec; [| mleaf]. apply N.ltb_lt in Ec.
  apply mx_bind_pure. intros [t ok] _.
  destruct (negb ok); simpl; auto. destruct (negb (t =? p_term (n_p s))); [mleaf|].
  apply mx_bind; [apply mx_leader_commit_up_to|]. intros s1.
  apply mx_for_peers. intros s2 p. destruct (pr_match p =? last_index (n_p s2)); [apply mx_send_app_ents | mleaf].
Qed.

Lemma mx_fold_enter (others : list nid) li : forall (acc : R node) s,
  mx s acc ->
  mx s (fold_left (fun (acc : R node) (m : nid) =>
                     a <- acc ;;
                     let p := mk_peer m (li + 1) 0 false 0 0 in
                     let a1 := set_leader a (l_check a) (peer_set p (l_peers a)) in
                     send_app_ents a1 p) others acc).
Proof.
  induction others as [| m r IH]; intros acc s H; simpl; auto.
  apply IH. apply mx_bind; auto. intros s1.
  eapply mx_pre; [| apply mx_send_app_ents]. mvol.
Qed.

Lemma mx_enter_leader s : mx s (enter_leader s).
Proof.
  unfold enter_leader. destruct (n_conf s); simpl; auto.
  apply mx_bind.
  - apply mx_fold_enter. mleaf.
  - intros s1. destruct (l_peers s1); [apply mx_leader_maybe_commit | mleaf].
Qed.

Lemma mx_tick_leader s : mx s (tick_leader s).
Proof.
  unfold tick_leader. apply mx_bind.
  - apply mx_for_peers. intros s2 p. destruct (should_send s2 p); [apply mx_send_app_ents | mleaf].
  - intros s1.
    match goal with |- mx s1 (if ?c then _ else _) => destruct c end; [| mleaf].
    apply mx_bind_pure. intros ok _. destruct ok; mleaf.
Qed.

Lemma mx_handle_app_ents_resp s from su ix hi : mx s (handle_app_ents_resp s from su ix hi).
Proof.
  unfold handle_app_ents_resp. destruct (peer_get from (l_peers s)); [| mleaf].
  destruct (ix <? pr_match p); [mleaf|]. destruct (negb su).
  - eapply mx_pre; [| apply mx_send_app_ents]. mvol.
  - match goal with |- mx s (if ?c then _ else _) => destruct c end; simpl; auto.
    apply mx_bind.
    + match goal with |- mx s (if ?c then _ else _) => destruct c end.
      * eapply mx_pre; [| apply mx_send_app_ents]. mvol.
      * mleaf.
    + intros s2. apply mx_leader_maybe_commit.
Qed.

Lemma mx_leader_propose s es : mx s (leader_propose s es).
Proof.
  unfold leader_propose. apply mx_bind; [apply mx_log_append|]. intros s1.
  apply mx_bind.
  - apply mx_for_peers. intros s3 p.
    match goal with |- mx s3 (if ?c then _ else _) => destruct c end; [apply mx_send_app_ents | mleaf].
  - intros s2. destruct (l_peers s2); [apply mx_leader_maybe_commit | mleaf].
Qed.


(* ---------------------------------------------------------------- AddNode / RemoveNode: the new configuration is uncommitted *)
Lemma mx2_leader_add_node s m rnd : mx2 s (leader_add_node s m rnd).
Proof.
  unfold leader_add_node. destruct (verify_nop_committed s) as [[] | |] eqn:Ev; simpl; auto.
  destruct (n_conf s) as [c |] eqn:Ec; simpl; auto.
  destruct (memb m (mb_members c)); [simpl; apply mk_refl|].
  destruct (negb (latest_conf_committed s)); [simpl; apply mk_refl|].
  cbv zeta.
  match goal with |- mx2 s (bind (leader_propose ?x2 ?es) _) =>
    assert (J2 : jq x2) by (left; right; unfold latest_conf_committed; cbn; apply N.leb_gt; pose proof (verify_nop_commit_le s Ev); lia);
    pose proof (mx_leader_propose x2 es) as K; destruct (leader_propose x2 es); simpl in *; auto; intros _; apply K; exact J2 end.
Qed.

Lemma mx2_leader_remove_node s m : mx2 s (leader_remove_node s m).
Proof.
  unfold leader_remove_node. destruct (verify_nop_committed s) as [[] | |] eqn:Ev; simpl; auto.
  destruct (n_conf s) as [c |] eqn:Ec; simpl; auto.
  destruct (negb (memb m (mb_members c))); [simpl; apply mk_refl|].
  destruct (negb (latest_conf_committed s)); [simpl; apply mk_refl|].
  cbv zeta.
  match goal with |- mx2 s (bind (leader_propose ?x2 ?es) _) =>
    assert (J2 : jq x2) by (left; right; unfold latest_conf_committed; cbn; apply N.leb_gt; pose proof (verify_nop_commit_le s Ev); lia);
    pose proof (mx_leader_propose x2 es) as K; destruct (leader_propose x2 es) as [s3 | |]; simpl in *; auto;
    pose proof (mx_leader_maybe_commit s3) as K2; destruct (leader_maybe_commit s3); simpl in *; auto;
    intros _; apply K2; apply K; exact J2 end.
Qed.

Lemma mx_handle_leader s m : mx s (handle_leader s m).
Proof.
  unfold handle_leader. destruct (m_body m).
  - exact I.
  - apply mx_handle_app_ents_resp.
  - mleaf.
  - mleaf.
  - exact I.
Qed.

(* ---------------------------------------------------------------- the candidate path *)
Lemma mx_become_leader s : Qm s \/ n_role s <> Follower -> mx s (become_leader s).
Proof.
  intro H. unfold become_leader. eapply mx_pre; [| apply mx_enter_leader].
  intros J. left. assert (Q : Qm s) by (destruct H as [H | H]; [exact H | destruct J as [J | J]; [exact J | contradiction]]).
  eapply Qm_vol; [| | | exact Q]; reflexivity.
Qed.

Lemma mx_check_if_elected s : Qm s \/ n_role s <> Follower -> mx s (check_if_elected s).
Proof.
  intro H. unfold check_if_elected. destruct (n_conf s); simpl; auto.
  destruct (quorum m <=? N.of_nat (length (c_votes s))); [apply mx_become_leader; exact H | mleaf].
Qed.

Lemma fold_send_same (ms : list nid) li lt : forall s,
  let s' := fold_left (fun a m => if m =? n_id a then a else send a m (VoteReq li lt)) ms s in
  n_conf s' = n_conf s /\ n_commit s' = n_commit s /\ n_id s' = n_id s /\ n_role s' = n_role s.
Proof.
  induction ms as [| m r IH]; intros s; simpl; auto.
  destruct (m =? n_id s); [apply IH|]. destruct (IH (send s m (VoteReq li lt))) as [A [B [C D]]]. simpl in *. auto.
Qed.

Lemma mx_post s r : match r with Ret s' => jq s' | _ => True end -> mx s r.
Proof. destruct r; simpl; auto. intros H _. exact H. Qed.

Lemma mx_become_candidate s : mx s (become_candidate s).
Proof.
  unfold become_candidate, enter_candidate. set (s0 := set_role s Candidate 0 0).
  destruct (negb (in_latest_conf s0) && latest_conf_committed s0) eqn:Eg; [mleaf|].
  assert (Q0 : Qm s0).
  { unfold Qm. destruct (in_latest_conf s0); [left; reflexivity|]. destruct (latest_conf_committed s0); [discriminate | right; reflexivity]. }
  apply mx_post. revert Q0. generalize s0. clear. intros s0 Q0.
  unfold do_mut. destruct (negb _ && _); cbn [bind]; [exact I|].
  match goal with |- match (tk <- st_term (n_p ?y) _ ;; _) with _ => _ end => set (s2 := y) end.
  assert (Q2 : Qm s2).
  { unfold s2. match goal with |- Qm (if ?c then _ else _) => destruct c end; (eapply Qm_vol; [| | | exact Q0]; reflexivity). }
  destruct (st_term (n_p s2) (last_index (n_p s2))) as [[lt ok] | |]; cbn [bind]; auto.
  destruct (negb ok); [exact I|]. destruct (n_conf s2) as [c |] eqn:Ec; [| exact I].
  match goal with |- match check_if_elected (set_candidate ?x ?a ?b) with _ => _ end =>
    pose proof (fold_send_same (mb_members c) (last_index (n_p s2)) lt s2) as F; cbv zeta in F; set (s3 := x) in *;
    assert (Q4 : Qm (set_candidate s3 a b)) end.
  { destruct F as [A [B [C _]]]. eapply Qm_vol with (s := s2); simpl; auto. }
  match goal with |- match check_if_elected ?x4 with _ => _ end =>
    pose proof (mx_check_if_elected x4 (or_introl Q4)) as K; destruct (check_if_elected x4); simpl in *; auto; apply K; left; exact Q4 end.
Qed.

Lemma mx_handle_candidate s m : n_role s = Candidate -> mx s (handle_candidate s m).
Proof.
  intro Hr. unfold handle_candidate. destruct (m_body m); try exact I; try mleaf.
  destruct granted; [| mleaf]. eapply mx_pre; [| apply mx_check_if_elected; right; simpl; congruence]. mvol.
Qed.

Lemma mx_handle_follower s m : n_role s = Follower -> mx s (handle_follower s m).
Proof.
  intro Hr. pose proof (RoleFollowerPass.mx_handle_follower s m) as K. destruct (handle_follower s m); simpl in *; auto.
  intros _. right. apply K. exact Hr.
Qed.

Lemma mx_handle_by_role s m : mx s (handle_by_role s m).
Proof.
  unfold handle_by_role. destruct (n_role s) eqn:Er; [apply mx_handle_follower; exact Er | apply mx_handle_candidate; exact Er | apply mx_handle_leader].
Qed.

Lemma mx_handle_msg s m : mx s (handle_msg s m).
Proof.
  unfold handle_msg.
  match goal with |- mx s (if ?c then _ else _) => destruct c end; [mleaf|].
  match goal with |- mx s (if ?c then _ else _) => destruct c end; [mleaf|].
  apply mx_bind.
  - match goal with |- mx s (if ?c then _ else _) => destruct c end; [apply mx_do_mut; exact I | mleaf].
  - intros s1.
    match goal with |- mx s1 (if ?c then _ else _) => destruct c end; [mleaf|].
    destruct (m_term m <? p_term (n_p s1)); [mleaf|].
    apply mx_bind; [| intros; apply mx_handle_by_role].
    destruct (p_term (n_p s1) <? m_term m); [| mleaf].
    destruct (m_body m); simpl; auto; (apply mx_bind; [apply mx_do_mut; exact I | intros; mleaf]).
Qed.

Lemma mx_tick s : mx s (tick s).
Proof.
  unfold tick.
  set (s0 := set_elapsed s ((n_elapsed s + 1) mod 4294967296)).
  eapply mx_pre with (s' := s0); [mvol|].
  destruct (n_role s0).
  - match goal with |- mx s0 (if ?c then _ else _) => destruct c end; [apply mx_become_candidate | mleaf].
  - match goal with |- mx s0 (if ?c then _ else _) => destruct c end; [apply mx_become_candidate | mleaf].
  - apply mx_tick_leader.
Qed.

Lemma mx2_propose s es : mx2 s (propose s es).
Proof. unfold propose. destruct (n_role s); try (simpl; apply mk_refl). apply mx2_of_mx. apply mx_leader_propose. Qed.
Lemma mx2_add_node s m rnd : mx2 s (add_node s m rnd).
Proof. unfold add_node. destruct (n_role s); try (simpl; apply mk_refl). apply mx2_leader_add_node. Qed.
Lemma mx2_remove_node s m : mx2 s (remove_node s m).
Proof. unfold remove_node. destruct (n_role s); try (simpl; apply mk_refl). apply mx2_leader_remove_node. Qed.

Lemma mx2_propose_initial s ms ep : mx2 s (propose_initial_membership s ms ep).
Proof.
  unfold propose_initial_membership. destruct (n_role s) eqn:Er; try (simpl; apply mk_refl).
  destruct (is_clean (n_p s)); [| simpl; apply mk_refl].
  cbv zeta.
  pose proof (RoleFollowerPass.mx_do_mut s (MSaveState 0 1) I) as K1.
  destruct (do_mut (MSaveState 0 1) s) as [s1 | |]; cbn [bind]; [| exact I | exact I].
  match goal with |- context [log_append s1 ?es] =>
    pose proof (RoleFollowerPass.mx_log_append s1 es) as K2; destruct (log_append s1 es) as [s2 | |]; cbn [bind]; [| exact I | exact I] end.
  simpl. apply mk_fol. simpl. apply K2. apply K1. exact Er.
Qed.

Lemma mx_snapshot_done s m : mx s (snapshot_done s m).
Proof.
  unfold snapshot_done.
  match goal with |- mx s (if ?c then _ else _) => destruct c end; [mleaf|].
  apply mx_bind; [apply mx_do_mut; exact I | intros; apply mx_trim_log].
Qed.

(* ---------------------------------------------------------------- every event, with a crash point *)
Theorem non_member_step s ev k crashed st s' :
  Jnm s -> run_event_crash (settle s) ev k = Ret (crashed, st, s') -> Jnm s'.
Proof.
  intros J0. apply jq_Jnm in J0. intro Hrun. apply jq_Jnm. revert Hrun.
  unfold run_event_crash. set (s0 := with_budget (settle s) k).
  assert (Hs0 : jq s0) by exact J0.
  destruct (run_event s0 ev) as [[st0 y] | c | p] eqn:E; try discriminate.
  - intro H. inversion H. subst.
    assert (Jy : jq y).
    { destruct ev; simpl in E.
      + pose proof (mx2_propose_initial s0 members epoch) as K. rewrite E in K. exact (K Hs0).
      + unfold wrap0 in E. pose proof (mx_handle_msg s0 m) as K. destruct (handle_msg s0 m); simpl in E; try discriminate.
        inversion E. subst. exact (K Hs0).
      + unfold wrap0 in E. pose proof (mx_tick s0) as K. destruct (tick s0); simpl in E; try discriminate.
        inversion E. subst. exact (K Hs0).
      + pose proof (mx2_propose s0 es) as K. rewrite E in K. exact (K Hs0).
      + pose proof (mx2_add_node s0 member rnd) as K. rewrite E in K. exact (K Hs0).
      + pose proof (mx2_remove_node s0 member) as K. rewrite E in K. exact (K Hs0).
      + unfold wrap0 in E. pose proof (mx_snapshot_done s0 m) as K. destruct (snapshot_done s0 m); simpl in E; try discriminate.
        inversion E. subst. exact (K Hs0).
      + unfold wrap0 in E. simpl in E. pose proof (new_core_pext (n_id s) (n_cfg s) (n_p s)) as Np.
        destruct (new_core (n_id s) (n_cfg s) (n_p s)) as [z | |] eqn:En; simpl in E; try discriminate.
        inversion E. subst. destruct Np as [_ [_ [_ [Nr _]]]]. right. exact Nr. }
    destruct Jy as [Q | R]; [left; eapply Qm_vol; [| | | exact Q]; reflexivity | right; exact R].
  - intro H. simpl in H. pose proof (new_core_pext (n_id s) (n_cfg s) p) as Np.
    destruct (new_core (n_id s) (n_cfg s) p) as [z | |] eqn:En; simpl in H; try discriminate.
    inversion H. subst. destruct Np as [_ [_ [_ [Nr _]]]]. right. exact Nr.
Qed.
