(* Raft/SMSafety.v — towards State Machine Safety over the system of Raft/LogMatch.v (same restricted alphabet):

     applied_entries_agree_sys : every entry a node hands to the state machine (n_commits, i.e. TakeNewlyCommitted) is an
       entry of that node's own log at that moment, hence sits in the leader-log record of its term at its index; therefore
       two entries handed out by any two nodes at any two moments of a run that have the same index AND the same term are
       the same entry (same type and payload).

   What is missing for full state-machine safety is exactly "same index => same term" for applied entries, i.e. leader
   completeness plus the commit bookkeeping (see notes/C02.md). *)
From Coq Require Import List NArith ZArith Bool Lia ZifyN ZifyNat ZifyBool.
From BLB Require Import Lib.LTS Raft.Core Raft.Wire Raft.NodeProofs Raft.NodeKeep Raft.NodeElect Raft.NodeConf
  Raft.Election Raft.ElectionFixed Raft.LogMatchLists Raft.LogMatchNode Raft.LogMatch Raft.Completeness Raft.SMSafetyNode.
Import ListNotations.
Open Scope N_scope.

Definition in_record (G : list lrec) (x : entry) : Prop :=
  exists j l, In (e_term x, j, l) G /\ nth_error l (N.to_nat (e_index x) - 1) = Some x /\ 1 <= e_index x.

Definition ainv (bm : list nid) (be : N) (σ : sys) (G : list lrec) : Prop :=
  ginv bm be σ G /\
  forall i s, get_node i (sy_nodes σ) = Some s -> forall x, In x (n_commits s) -> in_record G x /\ In x (p_log (n_p s)).

Lemma in_record_mono G G' x : incl G G' -> in_record G x -> in_record G' x.
Proof. intros H [j [l [A B]]]. exists j, l. split; auto. Qed.

Lemma ainv_step bm be n σ G e σ' :
  length (sy_nodes σ) = n -> ainv bm be σ G -> lstep n bm be σ e σ' -> exists G', ainv bm be σ' G' /\ incl G G'.
Proof.
  intros Hlen [GI AI] Hst.
  destruct (ginv_step bm be n σ G e σ' Hlen GI Hst) as [G' [GI' HG]].
  exists G'. split; [| exact HG]. split; [exact GI'|].
  destruct Hst as [Hst Hres]. destruct Hst as [σ i s ev k crashed st s' Gs Hdel Hev Hrun]. simpl in *.
  destruct (step_facts _ _ _ _ _ _ Hrun) as [Hid _].
  destruct (get_node_in _ _ _ Gs) as [Gin Gid].
  assert (Hi : n_id s' = i) by congruence.
  assert (Gs' : get_node i (put_node s' (sy_nodes σ)) = Some s').
  { rewrite <- Hi. eapply get_put_same. rewrite Hi. exact Gs. }
  intros j x0 Hx. destruct (N.eq_dec j i) as [E | E].
  - subst j. rewrite Gs' in Hx. inversion Hx. subst x0. intros x Hin.
    assert (Hok : ev_applied_ok ev).
    { destruct ev; simpl in *; auto.
      destruct (Hdel m eq_refl) as [Min _]. pose proof (g_msgs _ _ _ _ GI m Min) as Mk. unfold msg_ok3 in Mk.
      unfold no_snap_msg. destruct (m_body m); auto. }
    pose proof (applied_in_own_log s ev k crashed st s' Hok Hrun x Hin) as Hl. split; [| exact Hl].
    apply In_nth_error in Hl. destruct Hl as [k0 Hk].
    destruct (g_lm_node _ _ _ _ GI' i s' Gs' k0 x Hk) as [j [l [Rin Pf]]].
    destruct (g_base _ _ _ _ GI' i s' Gs') as [_ [Wf _]].
    pose proof (wf_from_nth _ _ _ _ Wf Hk) as Ix.
    exists j, l. split; auto. split; [| lia].
    replace (N.to_nat (e_index x) - 1)%nat with k0 by lia.
    rewrite <- (firstn_nth_eq k0 _ _ Pf). exact Hk.
  - rewrite get_put_other in Hx by congruence. intros x Hin. destruct (AI _ _ Hx x Hin) as [A B]. split; auto.
    eapply in_record_mono; [exact HG | exact A].
Qed.

Lemma arun_inv bm be n σ1 sched σ2 G1 :
  length (sy_nodes σ1) = n -> ainv bm be σ1 G1 -> run sys sys_event (lstep n bm be) σ1 sched σ2 ->
  exists G2, ainv bm be σ2 G2 /\ incl G1 G2.
Proof.
  intros Hn AI Hrun. revert G1 AI Hn. induction Hrun as [σ | σ e σ' es σ'' Hst Hr IH]; intros G1 AI Hn.
  - exists G1. split; auto. apply incl_refl.
  - destruct (ainv_step bm be n σ G1 e σ' Hn AI Hst) as [G' [AI' Hinc]].
    assert (Hn' : length (sy_nodes σ') = n).
    { eapply lrun_length; [| exact Hn]. eapply run_cons; [exact Hst | apply run_nil]. }
    destruct (IH G' AI' Hn') as [G2 [AI2 Hinc2]]. exists G2. split; auto. eapply incl_tran; eauto.
Qed.

Lemma ainv_init bm be σ : linit σ -> (forall s, In s (sy_nodes σ) -> n_commits s = []) -> ainv bm be σ [(1, 0, [boot_entry bm be])].
Proof.
  intros Hi Hc. split; [apply ginv_init; exact Hi|].
  intros i s G x Hx. apply get_node_in in G. destruct G as [G _]. rewrite (Hc s G) in Hx. contradiction.
Qed.

Theorem applied_entries_agree_sys :
  forall (bm : list nid) (be : N) (σ0 σ1 σ2 : sys) (sched1 sched2 : list sys_event),
    linit σ0 -> (forall s, In s (sy_nodes σ0) -> n_commits s = []) ->
    run sys sys_event (lstep (length (sy_nodes σ0)) bm be) σ0 sched1 σ1 ->
    run sys sys_event (lstep (length (sy_nodes σ0)) bm be) σ1 sched2 σ2 ->
    forall a b x y,
      In a (sy_nodes σ1) -> In b (sy_nodes σ2) -> In x (n_commits a) -> In y (n_commits b) ->
      (In x (p_log (n_p a)) /\ In y (p_log (n_p b))) /\
      (e_index x = e_index y -> e_term x = e_term y -> x = y).
Proof.
  intros bm be σ0 σ1 σ2 sched1 sched2 Hinit Hc0 Hr1 Hr2 a b x y Ha Hb Hx Hy.
  destruct (arun_inv bm be _ σ0 sched1 σ1 _ eq_refl (ainv_init bm be σ0 Hinit Hc0) Hr1) as [G1 [[GI1 A1] _]].
  assert (Hn1 : length (sy_nodes σ1) = length (sy_nodes σ0)) by (eapply lrun_length; eauto).
  destruct (arun_inv bm be _ σ1 sched2 σ2 G1 Hn1 (conj GI1 A1) Hr2) as [G2 [[GI2 A2] Hinc]].
  pose proof (g_el _ _ _ _ GI1) as El1. pose proof (g_el _ _ _ _ GI2) as El2.
  pose proof (in_get_node _ _ (i_nodup _ _ El1) Ha) as Ga. pose proof (in_get_node _ _ (i_nodup _ _ El2) Hb) as Gb.
  destruct (A1 _ _ Ga x Hx) as [[j [l [Rx [Nx Px]]]] Lx]. destruct (A2 _ _ Gb y Hy) as [[j' [l' [Ry [Ny Py]]]] Ly].
  split; [split; assumption|].
  intros Ei Et. apply Hinc in Rx. rewrite Et in Rx.
  pose proof (g_cmp _ _ _ _ GI2 _ _ _ _ _ Rx Ry) as Cm. rewrite Ei in Nx.
  assert (Hlx : (S (N.to_nat (e_index y) - 1) <= length l)%nat) by (eapply nth_len; eauto).
  assert (Hly : (S (N.to_nat (e_index y) - 1) <= length l')%nat) by (eapply nth_len; eauto).
  pose proof (comparable_firstn _ _ _ Cm Hlx Hly) as Pf. apply firstn_nth_eq in Pf. congruence.
Qed.
