(* Raft/CompletenessVote.v — leader completeness, piece (b): ghost candidacy logs and the vote-time comparison.

   vote_compare (pure): if a voter's log Lv still starts with the first k entries of an acknowledged prefix P of term T
   (entry k of term T), and canGrantVote's test says Lv is not more up-to-date than the candidate log lc of a candidacy in
   term U > T, then lc starts with these k entries too — or some leader-log record of a term strictly between T and U
   does not.  Uses log matching against the leader-log records (lm, cmp_ok), entry terms bounded and monotone. *)
From Coq Require Import List NArith ZArith Bool Lia ZifyN ZifyNat ZifyBool.
From BLB Require Import Lib.LTS Raft.Core Raft.Wire Raft.NodeProofs Raft.NodeKeep Raft.NodeElect Raft.NodeConf
  Raft.Election Raft.ElectionFixed Raft.LogMatchLists Raft.LogMatchNode Raft.LogMatch Raft.Completeness Raft.CompletenessAck.
Import ListNotations.
Open Scope N_scope.

Definition escapes_lt (G : list lrec) (T U : N) (Pk : list entry) : Prop :=
  exists U' i' l', In (U', i', l') G /\ T < U' /\ U' < U /\ ~ keeps l' Pk.

Lemma last_term_nil : last_term [] = 0.
Proof. reflexivity. Qed.

Lemma last_term_nth L : L <> [] -> exists e, nth_error L (length L - 1) = Some e /\ e_term e = last_term L.
Proof.
  intro H. destruct (exists_last H) as [l' [a E]]. subst. exists a. split.
  - rewrite app_length. simpl. rewrite nth_error_app2 by lia. replace (length l' + 1 - 1 - length l')%nat with 0%nat by lia. reflexivity.
  - unfold last_term. rewrite rev_app_distr. reflexivity.
Qed.

Lemma firstn_all_eq {A} (l l2 : list A) : firstn (length l) l = firstn (length l) l2 -> l = firstn (length l) l2.
Proof. intro H. rewrite <- H. symmetry. apply firstn_all. Qed.

Lemma vote_compare G Lv lc T U P kk iT lT :
  cmp_ok G -> lm G Lv -> lm G lc -> tmono Lv ->
  (forall t i l, In (t, i, l) G -> tbound t l) ->
  (forall e, In e lc -> e_term e < U) ->
  In (T, iT, lT) G -> pfx P lT -> tpos T P kk -> T < U ->
  uptodate Lv (N.of_nat (length lc)) (last_term lc) ->
  keeps Lv (firstn kk P) ->
  keeps lc (firstn kk P) \/ escapes_lt G T U (firstn kk P).
Proof.
  intros Cm LmV LmC TmV Tb Bc RT PT Htp HTU Up K.
  pose proof (tpos_len _ _ _ Htp) as Hlk. destruct Htp as [[Hk1 Hk2] [ek [Ek Ekt]]].
  set (Pk := firstn kk P) in *.
  assert (EPk : nth_error Pk (kk - 1) = Some ek).
  { unfold Pk. rewrite nth_error_firstn'. assert (X : (kk - 1 <? kk)%nat = true) by (apply Nat.ltb_lt; lia). rewrite X. exact Ek. }
  pose proof (keeps_nth _ _ _ _ K EPk) as ELv. pose proof (keeps_len _ _ K) as HlenV. rewrite Hlk in HlenV.
  assert (HVne : Lv <> []) by (intro X; rewrite X in HlenV; simpl in HlenV; lia).
  destruct (last_term_nth Lv HVne) as [eL [EL ELt]].
  assert (HTl : T <= last_term Lv).
  { rewrite <- Ekt, <- ELt. apply (TmV (kk - 1)%nat (length Lv - 1)%nat ek eL); auto. lia. }
  destruct Up as [Hlt | [Heq Hle]].
  - (* the candidate's last term is greater *)
    assert (HCne : lc <> []) by (intro X; rewrite X in Hlt; rewrite last_term_nil in Hlt; lia).
    destruct (last_term_nth lc HCne) as [e2 [E2 E2t]].
    destruct (LmC _ _ E2) as [i2 [l2 [R2 F2]]].
    assert (HlenC : (1 <= length lc)%nat) by (destruct lc; [congruence | simpl; lia]).
    replace (S (length lc - 1)) with (length lc) in F2 by lia.
    pose proof (firstn_all_eq _ _ F2) as Elc.
    assert (HltU : last_term lc < U) by (rewrite <- E2t; apply Bc; eapply nth_error_In; eauto).
    destruct (keeps_dec l2 Pk) as [K2 | NK2].
    + left.
      assert (Hge : (kk <= length lc)%nat).
      { destruct (Nat.le_gt_cases kk (length lc)) as [X | X]; [exact X | exfalso].
        assert (El2 : nth_error l2 (length lc - 1) = Some e2).
        { rewrite <- E2. symmetry. apply firstn_nth_eq. replace (S (length lc - 1)) with (length lc) by lia. exact F2. }
        assert (EP2 : nth_error Pk (length lc - 1) = Some e2) by (eapply keeps_nth_inv; eauto; lia).
        unfold Pk in EP2. rewrite nth_error_firstn' in EP2. destruct (length lc - 1 <? kk)%nat; [| discriminate].
        destruct PT as [x Hx]. assert (In e2 lT) by (rewrite Hx; apply in_or_app; left; eapply nth_error_In; eauto).
        pose proof (Tb _ _ _ RT) as TbT. unfold tbound in TbT. rewrite Forall_forall in TbT. specialize (TbT e2 H). cbv beta in TbT.
        rewrite E2t in TbT. lia. }
      unfold keeps. rewrite Hlk. rewrite Elc. rewrite firstn_firstn, Nat.min_l by lia.
      unfold keeps in K2. rewrite Hlk in K2. exact K2.
    + right. exists (e_term e2), i2, l2.
      split; [exact R2 | split; [rewrite E2t; lia | split; [rewrite E2t; exact HltU | exact NK2]]].
  - (* equal last terms, the candidate's log is at least as long *)
    left.
    assert (HleN : (length Lv <= length lc)%nat) by lia.
    assert (HCne : lc <> []) by (intro X; rewrite X in HleN; simpl in HleN; lia).
    destruct (last_term_nth lc HCne) as [e2 [E2 E2t]].
    destruct (LmC _ _ E2) as [i2 [l2 [R2 F2]]]. destruct (LmV _ _ EL) as [i1 [l1 [R1 F1]]].
    replace (S (length lc - 1)) with (length lc) in F2 by lia.
    replace (S (length Lv - 1)) with (length Lv) in F1 by lia.
    rewrite ELt in R1. rewrite E2t, Heq in R2.
    pose proof (Cm _ _ _ _ _ R1 R2) as Cmp.
    assert (H1 : (length Lv <= length l1)%nat) by (eapply firstn_length_ge; [exact F1 | lia]).
    assert (H2 : (length lc <= length l2)%nat) by (eapply firstn_length_ge; [exact F2 | lia]).
    assert (F12 : firstn (length Lv) l1 = firstn (length Lv) l2) by (apply comparable_firstn; auto; lia).
    assert (FC : firstn (length Lv) lc = firstn (length Lv) l2) by (eapply firstn_eq_le; [exact HleN | exact F2]).
    eapply keeps_agree; [| exact K]. rewrite Hlk.
    eapply firstn_eq_le with (b := length Lv); [lia|]. rewrite FC, <- F12, <- F1. reflexivity.
Qed.

(* ---------------------------------------------------------------- ghost candidacy logs and grants *)
Definition cand := (nid * N * list entry)%type.     (* candidate, term, its log when the candidacy began *)
Definition grant := (nid * N * nid)%type.           (* voter, term, candidate *)

Definition has_rec (G : list lrec) (U : N) : bool := existsb (fun r => fst (fst r) =? U) G.
Definition is_votereq (m : msg) : bool := match m_body m with VoteReq _ _ => true | _ => false end.
Definition role_nf (r : role) : bool := match r with Follower => false | _ => true end.

Definition cl_of (s s' : node) : list cand :=
  if p_term (n_p s') =? p_term (n_p s) then []
  else if existsb is_votereq (n_msgs s') || role_nf (n_role s') then [(n_id s', p_term (n_p s'), p_log (n_p s'))] else [].

Definition resp_grants (s' : node) : list grant :=
  flat_map (fun m => match m_body m with VoteResp true => [(n_id s', p_term (n_p s'), m_to m)] | _ => [] end) (n_msgs s').

Definition gr_of (G : list lrec) (s s' : node) : list grant :=
  (match cl_of s s' with [] => [] | _ => [(n_id s', p_term (n_p s'), n_id s')] end) ++
  (if has_rec G (p_term (n_p s')) then [] else resp_grants s').

Lemma has_rec_in G U : has_rec G U = true <-> exists i l, In (U, i, l) G.
Proof.
  unfold has_rec. rewrite existsb_exists. split.
  - intros [[[t i] l] [Hin E]]. simpl in E. apply N.eqb_eq in E. subst. eauto.
  - intros [i [l Hin]]. exists (U, i, l). split; auto. simpl. apply N.eqb_refl.
Qed.

Lemma has_rec_mono G G' U : incl G G' -> has_rec G U = true -> has_rec G' U = true.
Proof. intros Hi H. apply has_rec_in in H. destruct H as [i [l H]]. apply has_rec_in. eauto. Qed.

Lemma in_resp_grants s' g :
  In g (resp_grants s') -> exists m, In m (n_msgs s') /\ m_body m = VoteResp true /\ g = (n_id s', p_term (n_p s'), m_to m).
Proof.
  unfold resp_grants. rewrite in_flat_map. intros [m [Hm Hg]]. destruct (m_body m) eqn:E; try contradiction.
  destruct granted; [| contradiction]. destruct Hg as [Hg | []]. exists m. auto.
Qed.

Lemma resp_grants_in s' m :
  In m (n_msgs s') -> m_body m = VoteResp true -> In (n_id s', p_term (n_p s'), m_to m) (resp_grants s').
Proof. intros Hm Hb. unfold resp_grants. rewrite in_flat_map. exists m. split; auto. rewrite Hb. left. reflexivity. Qed.

Lemma escapes_lt_mono G1 G2 T U Pk : incl G1 G2 -> escapes_lt G1 T U Pk -> escapes_lt G2 T U Pk.
Proof. intros Hi [U' [j [l [A1 A2]]]]. exists U', j, l. split; auto. Qed.

Lemma classic_cond (s s' : node) :
  (n_role s = Leader /\ p_term (n_p s') = p_term (n_p s)) \/ ~ (n_role s = Leader /\ p_term (n_p s') = p_term (n_p s)).
Proof.
  destruct (n_role s); try (right; intros [X _]; discriminate).
  destruct (N.eq_dec (p_term (n_p s')) (p_term (n_p s))); [left; auto | right; intros [_ X]; contradiction].
Qed.

Section VoteInv.
  Variables (bm : list nid) (be : N).

  Definition v1_fact (G : list lrec) (A : list ack) (v : nid) (U : N) (lc : list entry) : Prop :=
    forall T P, In (v, T, P) A -> T < U -> forall kk, tpos T P kk -> keeps lc (firstn kk P) \/ escapes_lt G T U (firstn kk P).

  Record voteinv (σ : sys) (G : list lrec) (A : list ack) (CL : list cand) (GR : list grant) : Prop := {
    w_k : ackinv bm be σ G A;
    w_c0 : forall c U lc, In (c, U, lc) CL -> lm G lc /\ (forall e, In e lc -> e_term e < U);
    w_cterm : forall c U lc, In (c, U, lc) CL -> exists s, get_node c (sy_nodes σ) = Some s /\ U <= p_term (n_p s);
    w_cfun : forall c U l1 l2, In (c, U, l1) CL -> In (c, U, l2) CL -> l1 = l2;
    w_c3 : forall i s, get_node i (sy_nodes σ) = Some s -> n_role s <> Follower ->
             exists lc, In (n_id s, p_term (n_p s), lc) CL /\ pfx lc (p_log (n_p s));
    w_c2 : forall U c l, In (U, c, l) G -> c <> 0 -> exists lc, In (c, U, lc) CL /\ pfx lc l;
    w_vr : forall m li lt, In m (sy_soup σ) -> m_body m = VoteReq li lt ->
             exists lc, In (m_from m, m_term m, lc) CL /\ li = N.of_nat (length lc) /\ lt = last_term lc;
    w_v0 : forall v U c, In (v, U, c) GR -> exists s, get_node v (sy_nodes σ) = Some s /\ U <= p_term (n_p s);
    w_v1 : forall v U c, In (v, U, c) GR -> exists lc, In (c, U, lc) CL /\ v1_fact G A v U lc;
    w_self : forall i s, get_node i (sy_nodes σ) = Some s -> n_role s <> Follower -> In (n_id s, p_term (n_p s), n_id s) GR;
    w_votes : forall i s, get_node i (sy_nodes σ) = Some s -> n_role s <> Follower ->
                forall v, In v (c_votes s) -> In (v, p_term (n_p s), n_id s) GR \/ has_rec G (p_term (n_p s)) = true;
    w_resp : forall m, In m (sy_soup σ) -> m_body m = VoteResp true -> m_to m <> 0 ->
               In (m_from m, m_term m, m_to m) GR \/ has_rec G (m_term m) = true;
    w_quorum : forall U c l, In (U, c, l) G -> c <> 0 ->
                 exists Q, NoDup Q /\ quorum_of (map n_id (sy_nodes σ)) <= N.of_nat (length Q) /\ forall v, In v Q -> In (v, U, c) GR
  }.

  Lemma voteinv_init σ : linit σ -> voteinv σ [(1, 0, [boot_entry bm be])] [] [] [].
  Proof.
    intro Hi. pose proof Hi as [[Hn [Ha [Hs _]]] _].
    assert (Hnode : forall i s, get_node i (sy_nodes σ) = Some s -> n_role s = Follower).
    { intros i s G. apply get_node_in in G. destruct G as [G _]. apply Ha in G. tauto. }
    constructor; try (intros; contradiction).
    - apply ackinv_init. exact Hi.
    - intros i s G R. apply Hnode in G. congruence.
    - intros U c l [H | []]. inversion H. congruence.
    - rewrite Hs. intros m li lt [].
    - intros i s G R. apply Hnode in G. congruence.
    - intros i s G R. apply Hnode in G. congruence.
    - rewrite Hs. intros m [].
    - intros U c l [H | []]. inversion H. congruence.
  Qed.

  Section Step.
    Variables (n : nat) (σ : sys) (G : list lrec) (A : list ack) (CL : list cand) (GR : list grant).
    Variables (i : nid) (s : node) (ev : event) (k : N) (s' : node).
    Hypothesis Hlen : length (sy_nodes σ) = n.
    Hypothesis WI : voteinv σ G A CL GR.
    Hypothesis Gs : get_node i (sy_nodes σ) = Some s.
    Hypothesis Hdel : forall m, ev = EDeliver m -> In m (sy_soup σ) /\ m_to m <> 0.
    Hypothesis Hres : evres bm be ev.
    Hypothesis NS : nstep s ev k s'.
    Hypothesis El0 : Election.inv (map n_id (sy_nodes σ)) (step_sys σ s').
    Hypothesis I20 : inv2 n (step_sys σ s').

    Let σ' := step_sys σ s'.
    Let G' := G ++ rec_of s s'.
    Let A' := A ++ acks_of s' ++ rec_acks (rec_of s s').
    Let CL' := CL ++ cl_of s s'.
    Let GR' := GR ++ gr_of G s s'.
    Let L0 := p_log (n_p s).
    Let L' := p_log (n_p s').
    Let T' := p_term (n_p s').

    Let KI := w_k _ _ _ _ _ WI.
    Let GI := k_g _ _ _ _ _ KI.
    Let KI' : ackinv bm be σ' G' A' := ackinv_step_abs bm be n σ G A i s ev k s' Hlen KI Gs Hdel Hres NS El0 I20.
    Let GI' : ginv bm be σ' G' := k_g _ _ _ _ _ KI'.
    Let NI := st_NI s ev k s' NS.
    Let Hi : n_id s' = i := st_id σ i s ev k s' Gs NS.
    Let Gs' : get_node i (sy_nodes σ') = Some s' := st_Gs' σ i s ev k s' Gs NS.

    Lemma vs_incl : incl G G'. Proof. intros r Hr. apply in_or_app. left. exact Hr. Qed.
    Lemma vs_inclA : incl A A'. Proof. intros r Hr. apply in_or_app. left. exact Hr. Qed.

    Lemma vs_term_le : p_term (n_p s) <= T'.
    Proof. exact (v_tm _ _ _ _ _ _ _ _ _ NI). Qed.

    Lemma vs_rt : T' = p_term (n_p s) -> n_role s' = n_role s \/ n_role s' = Follower \/ (n_role s = Candidate /\ n_role s' = Leader).
    Proof. exact (v_rt _ _ _ _ _ _ _ _ _ NI). Qed.

    (* a non-follower never truncates: its log extends the old one *)
    Lemma vs_nf_ext : n_role s' <> Follower -> pfx L0 L'.
    Proof.
      intro Hr. pose proof (v_lr _ _ _ _ _ _ _ _ _ NI) as N_lr. unfold LR in N_lr. cbv zeta in N_lr.
      change (p_log (n_p (with_budget (settle s) k))) with L0 in N_lr. fold L' in N_lr.
      destruct N_lr as [X | [[X _] | [[X _] | [[_ [_ [new [X _]]]] | [X _]]]]]; try contradiction.
      - rewrite X. apply pfx_refl.
      - rewrite X. exists new. reflexivity.
    Qed.

    Lemma vs_nf_same : n_role s' <> Follower -> T' <> p_term (n_p s) -> L' = L0.
    Proof.
      intros Hr Ht. pose proof (v_lr _ _ _ _ _ _ _ _ _ NI) as N_lr. unfold LR in N_lr. cbv zeta in N_lr.
      change (p_log (n_p (with_budget (settle s) k))) with L0 in N_lr. fold L' in N_lr.
      change (p_term (n_p (with_budget (settle s) k))) with (p_term (n_p s)) in N_lr. fold T' in N_lr.
      destruct N_lr as [X | [[X _] | [[X _] | [[_ [X _]] | [X _]]]]]; try contradiction; auto.
    Qed.

    (* a candidacy starts with the unchanged log, in a strictly higher term *)
    Lemma vs_cl : forall c, In c (cl_of s s') -> c = (n_id s', T', L') /\ L' = L0 /\ p_term (n_p s) < T'.
    Proof.
      intros c. unfold cl_of. fold T'. destruct (T' =? p_term (n_p s)) eqn:Et; [intros []|]. apply N.eqb_neq in Et.
      assert (Hlt : p_term (n_p s) < T') by (pose proof vs_term_le; lia).
      destruct (existsb is_votereq (n_msgs s')) eqn:Ev; simpl.
      - intros [H | []]. split; [auto|]. split; [| exact Hlt].
        apply existsb_exists in Ev. destruct Ev as [m [Hm Hv]]. unfold is_votereq in Hv.
        pose proof (v_msgs _ _ _ _ _ _ _ _ _ NI) as N_msgs. rewrite Forall_forall in N_msgs. pose proof (N_msgs m Hm) as Mg.
        unfold mgood in Mg. destruct (m_body m); try discriminate. destruct Mg as [_ [_ [X _]]]. exact X.
      - destruct (role_nf (n_role s')) eqn:Er; [| intros []]. intros [H | []]. split; [auto|]. split; [| exact Hlt].
        apply vs_nf_same; auto. intro X. rewrite X in Er. discriminate.
    Qed.

    Lemma vs_cl_in : (existsb is_votereq (n_msgs s') = true \/ n_role s' <> Follower) -> T' <> p_term (n_p s) ->
                     In (n_id s', T', L') (cl_of s s').
    Proof.
      intros H Ht. unfold cl_of. fold T'. apply N.eqb_neq in Ht. rewrite Ht.
      destruct H as [H | H]; [rewrite H; left; reflexivity|].
      destruct (n_role s') eqn:Er; try congruence; rewrite orb_true_r; left; reflexivity.
    Qed.

    Lemma vs_ids : n_id s' = n_id s /\ n_id s = i.
    Proof. pose proof (ns_id _ _ _ _ NS) as Hid. destruct (get_node_in _ _ _ Gs) as [_ Gid]. auto. Qed.

    Lemma vs_Go j : j <> i -> get_node j (sy_nodes σ') = get_node j (sy_nodes σ).
    Proof. apply (st_Go σ i s ev k s' Gs NS). Qed.

    Lemma vs_Gcase j x : get_node j (sy_nodes σ') = Some x -> (j = i /\ x = s') \/ (j <> i /\ get_node j (sy_nodes σ) = Some x).
    Proof.
      intro Hx. destruct (N.eq_dec j i) as [E | E].
      - subst j. rewrite Gs' in Hx. inversion Hx. auto.
      - rewrite vs_Go in Hx; auto.
    Qed.

    Lemma vs_nf_old : n_role s' <> Follower -> T' = p_term (n_p s) -> n_role s <> Follower.
    Proof. intros Hr Et. destruct (vs_rt Et) as [X | [X | [X _]]]; congruence. Qed.

    Lemma vs_self : n_role s' <> Follower -> In (n_id s', T', n_id s') GR'.
    Proof.
      intro Hr. destruct vs_ids as [Hid Gid]. destruct (N.eq_dec T' (p_term (n_p s))) as [Et | Et].
      - apply in_or_app. left. rewrite Hid, Et. apply (w_self _ _ _ _ _ WI i s Gs). apply vs_nf_old; auto.
      - apply in_or_app. right. unfold gr_of. apply in_or_app. left.
        pose proof (vs_cl_in (or_intror Hr) Et) as Hc. destruct (cl_of s s'); [contradiction | left; reflexivity].
    Qed.

    Lemma vs_votes_src : n_role s' <> Follower -> forall v, In v (c_votes s') -> In (v, T', n_id s') GR' \/ has_rec G T' = true.
    Proof.
      intros Hr v Hv. destruct vs_ids as [Hid Gid].
      pose proof (ns_esum _ _ _ _ NS) as He. destruct (He Hr) as [S1 _].
      destruct (S1 v Hv) as [[R1 [R2 R3]] | [[R1 R2] | [m [R1 [R2 [R3 [R4 R5]]]]]]].
      - fold T' in R2. destruct (w_votes _ _ _ _ _ WI i s Gs R1 v R3) as [X | X].
        + left. apply in_or_app. left. rewrite Hid, R2. exact X.
        + right. rewrite R2. exact X.
      - left. subst v. rewrite <- Hid. apply vs_self; auto.
      - destruct ev; simpl in R1; try discriminate. inversion R1. subst m0.
        destruct (Hdel m eq_refl) as [Min Mto]. destruct R5 as [R5 | R5]; [| contradiction].
        fold T' in R4. destruct (w_resp _ _ _ _ _ WI m Min R2 Mto) as [X | X].
        + left. apply in_or_app. left. rewrite R3, <- R4, Hid, <- R5. exact X.
        + right. rewrite <- R4. exact X.
    Qed.

    Lemma v1_mono lc v U : v1_fact G A v U lc -> (forall T P, In (v, T, P) A' -> T < U -> In (v, T, P) A) -> v1_fact G' A' v U lc.
    Proof.
      intros H Hold T P Hin Hlt kk Htp. destruct (H T P (Hold T P Hin Hlt) Hlt kk Htp) as [X | X]; [left; exact X | right].
      eapply escapes_lt_mono; [apply vs_incl | exact X].
    Qed.

    (* new acknowledgements of the touched node carry its final term *)
    Lemma vs_new_ack v T P : In (v, T, P) A' -> In (v, T, P) A \/ (v = n_id s' /\ T = T').
    Proof.
      intro Hin. unfold A' in Hin. apply in_app_or in Hin. destruct Hin as [Hin | Hin]; [left; exact Hin | right].
      apply in_app_or in Hin. destruct Hin as [Hin | Hin].
      - apply in_acks_of in Hin. destruct Hin as [m0 [idx [h [_ [_ Ea]]]]]. inversion Ea. auto.
      - apply in_rec_acks in Hin. destruct Hin as [t [j [l [Hr Ea]]]]. inversion Ea. subst v T P.
        apply in_rec_of in Hr. destruct Hr as [Er _]. inversion Er. auto.
    Qed.

    Lemma voteinv_step_abs : voteinv σ' G' A' CL' GR'.
    Proof.
      destruct vs_ids as [Hid Gid].
      pose proof (ns_pext _ _ _ _ NS) as Hp. pose proof (ns_msgs _ _ _ _ NS) as Hm. pose proof (ns_esum _ _ _ _ NS) as He.
      pose proof (g_el _ _ _ _ GI') as El'.
      assert (Hsame_ids : map n_id (sy_nodes σ') = map n_id (sy_nodes σ)) by (simpl; apply put_node_ids).
      constructor.
      - exact KI'.
      - (* candidacy logs satisfy LM and hold only earlier terms *)
        intros c U lc Hin. apply in_app_or in Hin. destruct Hin as [Hin | Hin].
        + destruct (w_c0 _ _ _ _ _ WI _ _ _ Hin) as [X Y]. split; auto. eapply lm_mono; [apply vs_incl | exact X].
        + destruct (vs_cl _ Hin) as [Ec [EL Hlt]]. inversion Ec. subst c U lc. split.
          * apply (g_lm_node _ _ _ _ GI' i s' Gs').
          * intros e He'. fold L' in He'. rewrite EL in He'. destruct (g_tb_node _ _ _ _ GI i s Gs) as [TB _].
            unfold tbound in TB. rewrite Forall_forall in TB. specialize (TB e He'). cbv beta in TB. fold T'. lia.
      - intros c U lc Hin. apply in_app_or in Hin. destruct Hin as [Hin | Hin].
        + destruct (w_cterm _ _ _ _ _ WI _ _ _ Hin) as [x [Gx Le]]. destruct (N.eq_dec c i) as [E | E].
          * subst c. rewrite Gs in Gx. inversion Gx. subst x. exists s'. split; [exact Gs'|]. pose proof vs_term_le. fold T'. lia.
          * exists x. split; [rewrite vs_Go; auto | exact Le].
        + destruct (vs_cl _ Hin) as [Ec _]. inversion Ec. exists s'. rewrite Hi. split; [exact Gs' | apply N.le_refl].
      - intros c U l1 l2 H1 H2. apply in_app_or in H1. apply in_app_or in H2.
        destruct H1 as [H1 | H1]; destruct H2 as [H2 | H2].
        + eapply (w_cfun _ _ _ _ _ WI); eauto.
        + destruct (vs_cl _ H2) as [Ec [_ Hlt]]. inversion Ec. subst c U l2.
          destruct (w_cterm _ _ _ _ _ WI _ _ _ H1) as [x [Gx Le]]. rewrite Hi, Gs in Gx. inversion Gx. subst x. fold T' in Le. lia.
        + destruct (vs_cl _ H1) as [Ec [_ Hlt]]. inversion Ec. subst c U l1.
          destruct (w_cterm _ _ _ _ _ WI _ _ _ H2) as [x [Gx Le]]. rewrite Hi, Gs in Gx. inversion Gx. subst x. fold T' in Le. lia.
        + destruct (vs_cl _ H1) as [E1 _]. destruct (vs_cl _ H2) as [E2 _]. congruence.
      - (* every candidate / leader has a candidacy log that is a prefix of its log *)
        intros j x Hx Hr. destruct (vs_Gcase j x Hx) as [[_ E] | [Hj E]].
        + subst x. destruct (N.eq_dec T' (p_term (n_p s))) as [Et | Et].
          * destruct (w_c3 _ _ _ _ _ WI i s Gs (vs_nf_old Hr Et)) as [lc [X Y]]. exists lc. split.
            -- apply in_or_app. left. rewrite Hid. fold T'. rewrite Et. exact X.
            -- eapply pfx_trans; [exact Y | apply vs_nf_ext; exact Hr].
          * exists L'. split; [apply in_or_app; right; apply vs_cl_in; auto | apply pfx_refl].
        + destruct (w_c3 _ _ _ _ _ WI j x E Hr) as [lc [X Y]]. exists lc. split; auto. apply in_or_app. left. exact X.
      - (* every leader record extends the candidacy log of its leader *)
        intros U c l Hin Hc. apply in_app_or in Hin. destruct Hin as [Hin | Hin].
        + destruct (w_c2 _ _ _ _ _ WI _ _ _ Hin Hc) as [lc [X Y]]. exists lc. split; auto. apply in_or_app. left. exact X.
        + apply in_rec_of in Hin. destruct Hin as [Er Cond]. inversion Er. subst U c l. fold T'. fold L'.
          destruct Cond as [Hl | [Hl Ht]].
          * destruct (N.eq_dec T' (p_term (n_p s))) as [Et | Et].
            -- assert (Hr : n_role s' <> Follower) by congruence.
               destruct (w_c3 _ _ _ _ _ WI i s Gs (vs_nf_old Hr Et)) as [lc [X Y]]. exists lc. split.
               ++ apply in_or_app. left. rewrite Hid. rewrite Et. exact X.
               ++ eapply pfx_trans; [exact Y | apply vs_nf_ext; exact Hr].
            -- exists L'. split; [apply in_or_app; right; apply vs_cl_in; auto; right; congruence | apply pfx_refl].
          * fold T' in Ht. assert (Hr : n_role s <> Follower) by congruence.
            destruct (w_c3 _ _ _ _ _ WI i s Gs Hr) as [lc [X Y]]. exists lc. split.
            -- apply in_or_app. left. rewrite Hid, Ht. exact X.
            -- eapply pfx_trans; [exact Y|].
               pose proof (v_lr _ _ _ _ _ _ _ _ _ NI) as N_lr.
               destruct (strong_lr _ _ _ _ _ N_lr Hl Ht) as [Z | [new [Z _]]]; fold L'; change (p_log (n_p (with_budget (settle s) k))) with L0 in Z.
               ++ fold L' in Z. rewrite Z. apply pfx_refl.
               ++ fold L' in Z. rewrite Z. exists new. reflexivity.
      - (* VoteReq messages carry the candidacy log's last index and term *)
        intros m li lt Hin Hb. simpl in Hin. apply in_app_or in Hin. destruct Hin as [Hin | Hin].
        + destruct (w_vr _ _ _ _ _ WI m li lt Hin Hb) as [lc [X Y]]. exists lc. split; auto. apply in_or_app. left. exact X.
        + apply in_out_msgs in Hin. destruct Hin as [m0 [H0 [Et [Ef [Eto Eb]]]]].
          unfold msgs_ok in Hm. rewrite Forall_forall in Hm. destruct (Hm m0 H0) as [X [Y Z]].
          pose proof (v_msgs _ _ _ _ _ _ _ _ _ NI) as N_msgs. rewrite Forall_forall in N_msgs. pose proof (N_msgs m0 H0) as Mg.
          unfold mgood in Mg. rewrite <- Eb, Hb in Mg. destruct Mg as [M1 [M2 [M3 M4]]].
          exists L'. split; [| split; [exact M1 | exact M2]].
          apply in_or_app. right. rewrite Et, Ef, X, Y. apply vs_cl_in.
          * left. apply existsb_exists. exists m0. split; auto. unfold is_votereq. rewrite <- Eb, Hb. reflexivity.
          * rewrite X in M4. fold T' in M4. lia.
      - intros v U c Hin. apply in_app_or in Hin. destruct Hin as [Hin | Hin].
        + destruct (w_v0 _ _ _ _ _ WI _ _ _ Hin) as [x [Gx Le]]. destruct (N.eq_dec v i) as [E | E].
          * subst v. rewrite Gs in Gx. inversion Gx. subst x. exists s'. split; [exact Gs'|]. pose proof vs_term_le. fold T'. lia.
          * exists x. split; [rewrite vs_Go; auto | exact Le].
        + assert (Hv : v = n_id s' /\ U = T').
          { unfold gr_of in Hin. apply in_app_or in Hin. destruct Hin as [Hin | Hin].
            - destruct (cl_of s s'); [contradiction|]. destruct Hin as [Hin | []]. inversion Hin. auto.
            - destruct (has_rec G (p_term (n_p s'))); [contradiction|]. apply in_resp_grants in Hin.
              destruct Hin as [m [_ [_ Eg]]]. inversion Eg. auto. }
          destruct Hv as [-> ->]. exists s'. rewrite Hi. split; [exact Gs' | apply N.le_refl].
      - (* the vote-time fact *)
        intros v U c Hin. apply in_app_or in Hin. destruct Hin as [Hin | Hin].
        + destruct (w_v1 _ _ _ _ _ WI _ _ _ Hin) as [lc [X Y]]. exists lc. split; [apply in_or_app; left; exact X|].
          apply v1_mono; auto. intros T P HA Hlt. destruct (vs_new_ack _ _ _ HA) as [Old | [Ev ET]]; [exact Old | exfalso].
          destruct (w_v0 _ _ _ _ _ WI _ _ _ Hin) as [x [Gx Le]]. rewrite Ev, Hi, Gs in Gx. inversion Gx. subst x.
          pose proof vs_term_le. subst T. lia.
        + unfold gr_of in Hin. apply in_app_or in Hin. destruct Hin as [Hin | Hin].
          * (* the candidate votes for itself *)
            assert (Hc0 : exists c0, In c0 (cl_of s s')).
            { destruct (cl_of s s') as [| c0 r0]; [contradiction | exists c0; left; reflexivity]. }
            assert (Hin' : (v, U, c) = (n_id s', p_term (n_p s'), n_id s')).
            { destruct (cl_of s s'); [contradiction|]. destruct Hin as [Hin | []]. auto. }
            inversion Hin'. subst v U c. clear Hin Hin'. destruct Hc0 as [c0 Hc0].
            destruct (vs_cl c0 Hc0) as [Ec [EL Hlt]].
            exists L'. split; [apply in_or_app; right; rewrite Ec in Hc0; exact Hc0|].
            intros T P HA HT kk Htp. destruct (vs_new_ack _ _ _ HA) as [Old | [_ ET]]; [| fold T' in HT; lia].
            rewrite Hi in Old. destruct (k_esc _ _ _ _ _ KI _ _ _ Old) as [x [Gx [Le Hk]]]. rewrite Gs in Gx. inversion Gx. subst x.
            destruct (Hk kk Htp) as [K | [U' [j [l [E1 [E2 [E3 E4]]]]]]].
            -- left. rewrite EL. exact K.
            -- right. exists U', j, l. split; [apply vs_incl; exact E1|]. fold T'. repeat split; auto. lia.
          * (* a vote granted to a candidate whose term has no leader yet *)
            destruct (has_rec G (p_term (n_p s'))) eqn:Ehr; [contradiction|]. fold T' in Ehr.
            apply in_resp_grants in Hin. destruct Hin as [m0 [H0 [Hb Eg]]]. inversion Eg. subst v U c. fold T'.
            pose proof (v_msgs _ _ _ _ _ _ _ _ _ NI) as N_msgs. rewrite Forall_forall in N_msgs. pose proof (N_msgs m0 H0) as Mg.
            unfold mgood in Mg. rewrite Hb in Mg. unfold vq_of in Mg.
            destruct ev as [| md | | | | | |]; try contradiction. destruct (m_body md) eqn:Ebd; try contradiction.
            destruct Mg as [Eto Up]. fold L' in Up.
            destruct (Hdel md eq_refl) as [Min _].
            destruct (w_vr _ _ _ _ _ WI md _ _ Min Ebd) as [lc [Xc [Eli Elt]]].
            assert (Htm : m_term md = T').
            { destruct (ns_term _ _ _ _ NS md eq_refl) as [D | D]; [rewrite D in H0; contradiction | unfold T'; congruence]. }
            exists lc. split; [apply in_or_app; left; rewrite Eto, <- Htm; exact Xc|].
            intros T P HA HT kk Htp. destruct (vs_new_ack _ _ _ HA) as [Old | [_ ET]]; [| lia].
            rewrite Hi in Old.
            destruct (st_esc_node bm be n σ G A i s (EDeliver md) k s' Hlen KI Gs Hdel Hres NS I20 T P kk Old Htp) as [Le [K | Es]].
            -- (* the voter still holds the prefix: compare with the candidate's log *)
               destruct (k_rec _ _ _ _ _ KI' _ _ _ HA) as [Pn | [iT [lT [RT PT]]]].
               { subst P. destruct Htp as [[H1 H2] _]. simpl in H2. lia. }
               destruct (w_c0 _ _ _ _ _ WI _ _ _ Xc) as [LmC Bc]. rewrite Htm in Bc.
               eapply (vote_compare G' L' lc T T' P kk iT lT); eauto.
               ++ apply (g_cmp _ _ _ _ GI').
               ++ apply (g_lm_node _ _ _ _ GI' i s' Gs').
               ++ eapply lm_mono; [apply vs_incl | exact LmC].
               ++ apply (g_tb_node _ _ _ _ GI' i s' Gs').
               ++ intros t j l Hr. apply (g_tb_rec _ _ _ _ GI' _ _ _ Hr).
               ++ rewrite <- Eli, <- Elt. exact Up.
            -- right. destruct Es as [U' [j [l [E1 [E2 [E3 E4]]]]]]. exists U', j, l. split; [apply vs_incl; exact E1|].
               repeat split; auto. fold T' in E3. destruct (N.eq_dec U' T') as [Eq | Ne]; [| lia]. exfalso.
               subst U'. assert (has_rec G T' = true) by (apply has_rec_in; eauto). congruence.
      - intros j x Hx Hr. destruct (vs_Gcase j x Hx) as [[_ E] | [Hj E]].
        + subst x. apply vs_self. exact Hr.
        + apply in_or_app. left. apply (w_self _ _ _ _ _ WI j x E Hr).
      - intros j x Hx Hr v Hv. destruct (vs_Gcase j x Hx) as [[_ E] | [Hj E]].
        + subst x. destruct (vs_votes_src Hr v Hv) as [X | X]; [left; exact X | right]. eapply has_rec_mono; [apply vs_incl | exact X].
        + destruct (w_votes _ _ _ _ _ WI j x E Hr v Hv) as [X | X]; [left; apply in_or_app; left; exact X | right].
          eapply has_rec_mono; [apply vs_incl | exact X].
      - intros m Hin Hb Hto. simpl in Hin. apply in_app_or in Hin. destruct Hin as [Hin | Hin].
        + destruct (w_resp _ _ _ _ _ WI m Hin Hb Hto) as [X | X]; [left; apply in_or_app; left; exact X | right].
          eapply has_rec_mono; [apply vs_incl | exact X].
        + apply in_out_msgs in Hin. destruct Hin as [m0 [H0 [Et [Ef [Eto Eb]]]]].
          unfold msgs_ok in Hm. rewrite Forall_forall in Hm. destruct (Hm m0 H0) as [X [Y Z]].
          rewrite Et, Ef, Eto, X, Y. fold T'. destruct (has_rec G T') eqn:Ehr.
          * right. eapply has_rec_mono; [apply vs_incl | exact Ehr].
          * left. apply in_or_app. right. unfold gr_of. apply in_or_app. right. fold T'. rewrite Ehr.
            apply resp_grants_in; auto. congruence.
      - (* every leader record is backed by a quorum of grants *)
        intros U c l Hin Hc. rewrite Hsame_ids. apply in_app_or in Hin. destruct Hin as [Hin | Hin].
        + destruct (w_quorum _ _ _ _ _ WI _ _ _ Hin Hc) as [Q [A1 [A2 A3]]]. exists Q. repeat split; auto.
          intros v Hv. apply in_or_app. left. auto.
        + apply in_rec_of in Hin. destruct Hin as [Er Cond]. inversion Er. subst U c l. fold T'.
          destruct (classic_cond s s') as [Hold | Hnew].
          * (* it was already leader of this term: reuse the quorum of its earlier record *)
            destruct Hold as [Hl Ht]. pose proof (g_rec_leader _ _ _ _ GI i s Gs Hl) as Rold.
            destruct (w_quorum _ _ _ _ _ WI _ _ _ Rold ltac:(rewrite Gid; rewrite <- Hi, Hid in *; eapply (i_nz _ _ (g_el _ _ _ _ GI)); eauto)) as [Q [A1 [A2 A3]]].
            exists Q. repeat split; auto. intros v Hv. apply in_or_app. left. rewrite Hid. fold T' in Ht. rewrite Ht. auto.
          * destruct Cond as [Hl | [Hl Ht]]; [| exfalso; apply Hnew; split; auto].
            assert (Hr : n_role s' <> Follower) by congruence.
            exists (c_votes s'). split; [apply asc_nodup; apply (i_votes _ _ El' i s' Gs' Hr)|]. split.
            -- rewrite <- Hsame_ids. apply (i_leader _ _ El' i s' Gs' Hl).
            -- intros v Hv. destruct (vs_votes_src Hr v Hv) as [X | X]; [exact X | exfalso].
               apply has_rec_in in X. destruct X as [j [l X]].
               destruct (g_rec_hist _ _ _ _ GI _ _ _ X) as [[Z1 [Z2 Z3]] | [Jnz [Jh J2]]].
               { pose proof (g_base _ _ _ _ GI' i s' Gs') as [_ [_ [_ B2]]]. assert (2 <= T') by (apply B2; congruence). lia. }
               assert (Hh : In (T', n_id s') (sy_hist σ')).
               { simpl. apply in_or_app. right. unfold hist_of. rewrite Hl. left. reflexivity. }
               assert (Ej : j = n_id s').
               { eapply (Election.inv_election _ _ El'); [| exact Hh]. simpl. apply in_or_app. left. exact Jh. }
               destruct (g_rec_node _ _ _ _ GI _ _ _ X Jnz) as [x [Gx [Le Eq]]]. rewrite Ej, Hi, Gs in Gx. inversion Gx. subst x.
               pose proof vs_term_le. assert (Et : T' = p_term (n_p s)) by lia. destruct (Eq Et) as [Hnc _].
               apply Hnew. split; [| exact Et]. destruct (vs_rt Et) as [Y | [Y | [Y _]]]; congruence.
    Qed.
  End Step.

  Lemma voteinv_step_rec n σ G A CL GR i s ev k crashed st s' :
    length (sy_nodes σ) = n -> voteinv σ G A CL GR -> get_node i (sy_nodes σ) = Some s ->
    (forall m, ev = EDeliver m -> In m (sy_soup σ) /\ m_to m <> 0) -> evok2 n ev -> evres bm be ev ->
    run_event_crash (settle s) ev k = Ret (crashed, st, s') ->
    voteinv (step_sys σ s') (G ++ rec_of s s') (A ++ acks_of s' ++ rec_acks (rec_of s s')) (CL ++ cl_of s s') (GR ++ gr_of G s s').
  Proof.
    intros Hlen WI Gs Hdel Hev Hres Hrun.
    destruct (abs_of_run bm be n σ G i s ev k crashed st s' Hlen (k_g _ _ _ _ _ (w_k _ _ _ _ _ WI)) Gs Hdel Hev Hres Hrun) as [NS [El0 I20]].
    apply (voteinv_step_abs n σ G A CL GR i s ev k s' Hlen WI Gs Hdel Hres NS El0 I20).
  Qed.

  Lemma voteinv_step n σ G A CL GR e σ' :
    length (sy_nodes σ) = n -> voteinv σ G A CL GR -> lstep n bm be σ e σ' ->
    exists G' A' CL' GR', voteinv σ' G' A' CL' GR' /\ incl G G' /\ incl A A'.
  Proof.
    intros Hlen WI [Hst Hres]. destruct Hst as [σ i s ev k crashed st s' Gs Hdel Hev Hrun]. simpl in Hres.
    exists (G ++ rec_of s s'), (A ++ acks_of s' ++ rec_acks (rec_of s s')), (CL ++ cl_of s s'), (GR ++ gr_of G s s').
    split; [| split; intros r Hr; apply in_or_app; left; exact Hr].
    apply (voteinv_step_rec n σ G A CL GR i s ev k crashed st s' Hlen WI Gs Hdel Hev Hres Hrun).
  Qed.

  Lemma voterun_inv n σ1 sched σ2 G1 A1 CL1 GR1 :
    length (sy_nodes σ1) = n -> voteinv σ1 G1 A1 CL1 GR1 -> run sys sys_event (lstep n bm be) σ1 sched σ2 ->
    exists G2 A2 CL2 GR2, voteinv σ2 G2 A2 CL2 GR2 /\ incl G1 G2 /\ incl A1 A2.
  Proof.
    intros Hn WI Hrun. revert G1 A1 CL1 GR1 WI Hn.
    induction Hrun as [σ | σ e σ' es σ'' Hst Hr IH]; intros G1 A1 CL1 GR1 WI Hn.
    - exists G1, A1, CL1, GR1. split; auto. split; apply incl_refl.
    - destruct (voteinv_step n σ G1 A1 CL1 GR1 e σ' Hn WI Hst) as [G' [A' [CL' [GR' [WI' [Hi1 Hi2]]]]]].
      assert (Hn' : length (sy_nodes σ') = n).
      { eapply lrun_length; [| exact Hn]. eapply run_cons; [exact Hst | apply run_nil]. }
      destruct (IH G' A' CL' GR' WI' Hn') as [G2 [A2 [CL2 [GR2 [WI2 [Hj1 Hj2]]]]]]. exists G2, A2, CL2, GR2. split; auto.
      split; eapply incl_tran; eauto.
  Qed.

  (* ---------------------------------------------------------------- leader completeness for quorum-acknowledged entries *)
  Definition qacked (σ : sys) (A : list ack) (T : N) (mi : nat) : Prop :=
    exists Q, NoDup Q /\ quorum_of (map n_id (sy_nodes σ)) <= N.of_nat (length Q) /\
              forall v, In v Q -> exists P, In (v, T, P) A /\ (mi <= length P)%nat.

  Lemma node_id_in σ v x : get_node v (sy_nodes σ) = Some x -> In v (map n_id (sy_nodes σ)).
  Proof. intro H. apply get_node_in in H. destruct H as [H1 H2]. rewrite <- H2. apply in_map. exact H1. Qed.

  Theorem lc_quorum σ G A CL GR :
    voteinv σ G A CL GR ->
    forall T iT lT mi e,
      In (T, iT, lT) G -> iT <> 0 -> nth_error lT (mi - 1) = Some e -> e_term e = T -> (1 <= mi)%nat -> qacked σ A T mi ->
      forall U c l, In (U, c, l) G -> T < U -> keeps l (firstn mi lT).
  Proof.
    intros WI T iT lT mi e RT HiT He Het Hmi [Q [QN [QL QA]]].
    pose proof (w_k _ _ _ _ _ WI) as KI. pose proof (k_g _ _ _ _ _ KI) as GI. pose proof (g_el _ _ _ _ GI) as El.
    assert (HmiT : (mi <= length lT)%nat) by (apply nth_len in He; lia).
    intro U. induction U as [U IH] using (well_founded_induction N.lt_wf_0). intros c l RU HTU.
    destruct (g_rec_hist _ _ _ _ GI _ _ _ RT) as [[Z _] | [_ [_ T2]]]; [contradiction|].
    destruct (g_rec_hist _ _ _ _ GI _ _ _ RU) as [[_ [Z _]] | [Hc _]]; [lia|].
    destruct (w_c2 _ _ _ _ _ WI _ _ _ RU Hc) as [lc [Xc Pc]].
    destruct (w_quorum _ _ _ _ _ WI _ _ _ RU Hc) as [Q2 [Q2N [Q2L Q2G]]].
    (* a node in both quorums *)
    assert (I1 : incl Q (map n_id (sy_nodes σ))).
    { intros v Hv. destruct (QA v Hv) as [P [HP _]]. destruct (k_esc _ _ _ _ _ KI _ _ _ HP) as [x [Gx _]]. eapply node_id_in; eauto. }
    assert (I2 : incl Q2 (map n_id (sy_nodes σ))).
    { intros v Hv. destruct (w_v0 _ _ _ _ _ WI _ _ _ (Q2G v Hv)) as [x [Gx _]]. eapply node_id_in; eauto. }
    destruct (pigeon Q Q2 _ QN Q2N I1 I2) as [v [V1 V2]].
    { unfold quorum_of in QL, Q2L. apply majority_arith; assumption. }
    destruct (QA v V1) as [P [HP HPl]].
    (* the acknowledged prefix agrees with lT on the first mi entries *)
    destruct (k_rec _ _ _ _ _ KI _ _ _ HP) as [Pn | [iP [lP [RP PP]]]]; [subst P; simpl in HPl; lia|].
    pose proof (g_cmp _ _ _ _ GI _ _ _ _ _ RP RT) as Cm.
    assert (HlP : (mi <= length lP)%nat) by (destruct PP as [x Hx]; rewrite Hx, app_length; lia).
    assert (EP : firstn mi P = firstn mi lT).
    { rewrite (pfx_firstn mi P lP PP HPl). apply comparable_firstn; auto. }
    assert (Htp : tpos T P mi).
    { split; [lia|]. exists e. split; auto.
      assert (X : nth_error (firstn mi P) (mi - 1) = Some e).
      { rewrite EP. rewrite nth_error_firstn'. assert (Y : (mi - 1 <? mi)%nat = true) by (apply Nat.ltb_lt; lia). rewrite Y. exact He. }
      rewrite nth_error_firstn' in X. destruct (mi - 1 <? mi)%nat; [exact X | discriminate]. }
    destruct (w_v1 _ _ _ _ _ WI _ _ _ (Q2G v V2)) as [lc' [Xc' V1f]].
    rewrite (w_cfun _ _ _ _ _ WI _ _ _ _ Xc' Xc) in V1f.
    rewrite <- EP. destruct (V1f T P HP HTU mi Htp) as [K | [U' [j [l' [E1 [E2 [E3 E4]]]]]]].
    - eapply keeps_pfx; eauto.
    - exfalso. apply E4. rewrite EP. apply (IH U' E3 j l' E1 E2).
  Qed.
End VoteInv.

(* ---------------------------------------------------------------- ghost-free statement over two moments of a run *)
Lemma lrun_quorum n bm be σ1 sched σ2 :
  run sys sys_event (lstep n bm be) σ1 sched σ2 -> length (sy_nodes σ1) = n ->
  quorum_of (map n_id (sy_nodes σ2)) = quorum_of (map n_id (sy_nodes σ1)).
Proof.
  intros Hr Hn. unfold quorum_of. rewrite !map_length. rewrite (lrun_length _ _ _ _ _ _ Hr Hn), Hn. reflexivity.
Qed.

Theorem leader_completeness_quorum_sys :
  forall (bm : list nid) (be : N) (σ0 σ1 σ2 : sys) (sched1 sched2 : list sys_event),
    linit σ0 ->
    run sys sys_event (lstep (length (sy_nodes σ0)) bm be) σ0 sched1 σ1 ->
    run sys sys_event (lstep (length (sy_nodes σ0)) bm be) σ1 sched2 σ2 ->
    forall a mi e,
      In a (sy_nodes σ1) -> n_role a = Leader ->
      nth_error (p_log (n_p a)) (mi - 1) = Some e -> e_term e = p_term (n_p a) -> (1 <= mi)%nat ->
      (exists Q, NoDup Q /\ quorum_of (map n_id (sy_nodes σ1)) <= N.of_nat (length Q) /\
                 forall v, In v Q ->
                   v = n_id a \/
                   exists m idx h, In m (sy_soup σ1) /\ m_from m = v /\ m_term m = p_term (n_p a) /\
                                   m_body m = AppEntsResp true idx h /\ (mi <= N.to_nat idx)%nat) ->
      forall b, In b (sy_nodes σ2) -> n_role b = Leader -> p_term (n_p a) < p_term (n_p b) ->
        firstn mi (p_log (n_p b)) = firstn mi (p_log (n_p a)).
Proof.
  intros bm be σ0 σ1 σ2 sched1 sched2 Hinit Hr1 Hr2 a mi e Ha Hla He Het Hmi [Q [QN [QL QA]]] b Hb Hlb Htb.
  destruct (voterun_inv bm be _ σ0 sched1 σ1 _ _ _ _ eq_refl (voteinv_init bm be σ0 Hinit) Hr1) as [G1 [A1 [CL1 [GR1 [W1 _]]]]].
  assert (Hn1 : length (sy_nodes σ1) = length (sy_nodes σ0)) by (eapply lrun_length; eauto).
  destruct (voterun_inv bm be _ σ1 sched2 σ2 G1 A1 CL1 GR1 Hn1 W1 Hr2) as [G2 [A2 [CL2 [GR2 [W2 [HG HA]]]]]].
  pose proof (w_k _ _ _ _ _ _ _ W1) as K1. pose proof (k_g _ _ _ _ _ K1) as GI1.
  pose proof (w_k _ _ _ _ _ _ _ W2) as K2. pose proof (k_g _ _ _ _ _ K2) as GI2.
  pose proof (in_get_node _ _ (i_nodup _ _ (g_el _ _ _ _ GI1)) Ha) as Ga.
  pose proof (in_get_node _ _ (i_nodup _ _ (g_el _ _ _ _ GI2)) Hb) as Gb.
  pose proof (g_rec_leader _ _ _ _ GI1 _ _ Ga Hla) as Ra. pose proof (g_rec_leader _ _ _ _ GI2 _ _ Gb Hlb) as Rb.
  assert (Hnz : n_id a <> 0) by (eapply (i_nz _ _ (g_el _ _ _ _ GI1)); eauto).
  assert (HmiL : (mi <= length (p_log (n_p a)))%nat) by (apply nth_len in He; lia).
  assert (Hq : qacked σ2 A2 (p_term (n_p a)) mi).
  { exists Q. split; auto. split; [rewrite (lrun_quorum _ _ _ _ _ _ Hr2 Hn1); exact QL|].
    intros v Hv. destruct (QA v Hv) as [Ev | [m [idx [h [M1 [M2 [M3 [M4 M5]]]]]]]].
    - subst v. exists (p_log (n_p a)). split; auto. apply HA. apply (k_lead _ _ _ _ _ K1 _ _ _ Ra Hnz).
    - destruct (k_msg _ _ _ _ _ K1 m idx h M1 M4) as [P [X Y]]. exists P. rewrite M2, M3 in X. split; [apply HA; exact X | lia]. }
  pose proof (lc_quorum bm be σ2 G2 A2 CL2 GR2 W2 _ _ _ mi e (HG _ Ra) Hnz He Het Hmi Hq _ _ _ Rb Htb) as K.
  unfold keeps in K. rewrite firstn_length, Nat.min_l in K by lia. exact K.
Qed.
