(* Raft/LogMatchNodeSQ.v — round 10: Raft/LogMatchNodeS.v once more (generated from it) over Raft/LogMatchNodeQ.v, whose commit
   evidence lead_ev counts the leader itself only as a member of its configuration.
   Raft/LogMatchNodeS.v — round 5: the node-level pass of Raft/LogMatchNode.v redone for stores WITH a snapshot.
   A node with snapshot is viewed through its VIRTUAL node [vn C s]: the log is the logical log C ++ physical log, where the
   ghost list C holds the entries the snapshot covers and the log no longer holds; no snapshot; InstallSnapshot messages
   dropped. The record [LogMatchNode.inv] is re-used unchanged on virtual nodes; what is re-done is the walk through the REAL
   handler code, whose reads (lastIndex, term, hasEntry, Entries) are characterised in terms of the logical log. *)
From Coq Require Import List NArith ZArith Bool Lia ZifyN ZifyNat ZifyBool.
From BLB Require Import Raft.Core Raft.NodeProofs Raft.LogMatchLists Raft.CommitCount Raft.LogMatchNodeQ Raft.SnapContig.
Import ListNotations.
Open Scope N_scope.

Definition nis (m : msg) : bool := match m_body m with InstallSnap _ _ _ => false | _ => true end.

(* the virtual image of an InstallSnapshot (li, lt): a heartbeat claiming (li, lt) as previous entry and li as leaderCommit -
   what the snapshot-free invariants say about such a heartbeat is exactly the provenance of the snapshot *)
Definition img_body (b : mbody) : mbody := match b with InstallSnap li lt _ => AppEnts li lt li None | _ => b end.
Definition img (m : msg) : msg :=
  {| m_term := m_term m; m_from := m_from m; m_to := m_to m; m_fromg := m_fromg m; m_tog := m_tog m; m_epoch := m_epoch m;
     m_body := img_body (m_body m) |}.

Lemma img_nis m : nis m = true -> img m = m.
Proof. destruct m as [a b c d e f body]. unfold nis, img. simpl. destruct body; simpl; intros; try reflexivity; discriminate. Qed.

Definition vp (C : list entry) (p : pstate) : pstate :=
  {| p_term := p_term p; p_vote := p_vote p; p_guid := p_guid p; p_guids := p_guids p; p_log := C ++ p_log p; p_snap := None |}.

Definition vn (C : list entry) (s : node) : node :=
  {| n_id := n_id s; n_cfg := n_cfg s; n_p := vp C (n_p s); n_cnt := n_cnt s; n_budget := n_budget s; n_muts := n_muts s;
     n_role := n_role s; n_leader := n_leader s; n_commit := n_commit s; n_restore := n_restore s; n_elapsed := n_elapsed s;
     n_conf := n_conf s; f_contact := f_contact s; f_timeout := f_timeout s; c_timeout := c_timeout s; c_votes := c_votes s;
     l_check := l_check s; l_peers := l_peers s; n_msgs := map img (n_msgs s); n_commits := n_commits s |}.

(* the shape of a store relative to its ghost prefix; cm is the commit index of the node holding it *)
Definition shape (C : list entry) (p : pstate) (cm : N) : Prop :=
  wf_from 1 (C ++ p_log p) /\
  match p_snap p with
  | None => C = []
  | Some m => N.of_nat (length C) <= sn_index m /\ sn_index m <= N.of_nat (length (C ++ p_log p)) /\
              term_at (C ++ p_log p) (sn_index m) (sn_term m) /\ sn_index m <= cm /\ 1 <= sn_index m
  end.

Section Reads.
  Variables (C : list entry) (p : pstate) (cm : N).
  Hypothesis Hsh : shape C p cm.
  Local Notation L := (C ++ p_log p).
  Local Notation c := (N.of_nat (length C)).

  Lemma shape_phys : wf_from 1 C /\ wf_from (1 + c) (p_log p).
  Proof. destruct Hsh as [W _]. apply wf_from_app in W. exact W. Qed.

  Lemma shape_len : N.of_nat (length L) = c + N.of_nat (length (p_log p)).
  Proof. rewrite app_length. lia. Qed.

  Lemma last_index_S : last_index p = N.of_nat (length L).
  Proof.
    destruct shape_phys as [_ W]. rewrite shape_len. unfold last_index. destruct (p_log p) as [| x r] eqn:E.
    - simpl. destruct Hsh as [_ H]. destruct (p_snap p) as [m |].
      + rewrite E, app_nil_r in H. simpl length. lia.
      + subst C. simpl. reflexivity.
    - rewrite (log_last_wf (1 + c) (x :: r)); [| exact W | discriminate]. simpl length. lia.
  Qed.

  Lemma skipn_L k : (length C <= k)%nat -> skipn k L = skipn (k - length C) (p_log p).
  Proof.
    intro H. rewrite skipn_app. rewrite skipn_all2 by lia. reflexivity.
  Qed.

  Lemma nth_L k : (length C <= k)%nat -> nth_error L k = nth_error (p_log p) (k - length C).
  Proof. intro H. apply nth_error_app2. exact H. Qed.

  Lemma log_entries_S b e :
    c + 1 <= b -> log_entries p b e = Ret (firstn (N.to_nat (e - b)) (skipn (N.to_nat (b - 1)) L)).
  Proof.
    intro Hb. destruct shape_phys as [_ W]. unfold log_entries. rewrite (drop_while_lt (1 + c) b); auto; [| lia].
    rewrite skipn_L by lia.
    replace (N.to_nat (b - 1) - length C)%nat with (N.to_nat (b - (1 + c))) by lia.
    apply entries_loop_wf. replace b with (1 + c + N.of_nat (N.to_nat (b - (1 + c)))) at 1 by lia. apply wf_from_skipn. exact W.
  Qed.

  Lemma log_term_S i :
    c + 1 <= i ->
    log_term p i = match nth_error L (N.to_nat (i - 1)) with Some e => Ret (e_term e) | None => Fatal F_LOG_TERM_MISSING end.
  Proof.
    intro Hi. unfold log_term. rewrite log_entries_S; auto. simpl.
    replace (N.to_nat (i + 1 - i)) with 1%nat by lia.
    rewrite <- (Nat.add_0_r (N.to_nat (i - 1))) at 2. rewrite <- nth_error_skipn'.
    destruct (skipn (N.to_nat (i - 1)) L); reflexivity.
  Qed.

  Lemma st_term_S i t ok :
    st_term p i = Ret (t, ok) ->
    (ok = true /\ i <= N.of_nat (length L) /\ (i = 0 -> t = 0) /\ term_at L i t) \/
    (ok = false /\ 1 <= i /\ i <= c /\ exists m, p_snap p = Some m /\ i <> sn_index m).
  Proof.
    unfold st_term. rewrite last_index_S.
    destruct (N.of_nat (length L) <? i) eqn:E; [discriminate|]. apply N.ltb_ge in E.
    destruct (i =? 0) eqn:E0.
    { apply N.eqb_eq in E0. intro H. inversion H. subst. left. repeat split; auto. left. reflexivity. }
    apply N.eqb_neq in E0.
    assert (Hlog : c + 1 <= i -> (t0 <- log_term p i ;; Ret (t0, true)) = Ret (t, ok) ->
                   ok = true /\ i <= N.of_nat (length L) /\ (i = 0 -> t = 0) /\ term_at L i t).
    { intros Hi. rewrite log_term_S by exact Hi.
      destruct (nth_error L (N.to_nat (i - 1))) as [e |] eqn:En; simpl; [| discriminate].
      intro H. inversion H. subst. repeat split; auto; [lia|]. right. exists e. auto. }
    assert (Hsnap : i <= c ->
              match p_snap p with
              | None => Fatal F_NO_SNAPSHOT
              | Some m => if sn_index m =? i then Ret (sn_term m, true) else Ret (0, false)
              end = Ret (t, ok) ->
              (ok = true /\ i <= N.of_nat (length L) /\ (i = 0 -> t = 0) /\ term_at L i t) \/
              (ok = false /\ 1 <= i /\ i <= c /\ exists m, p_snap p = Some m /\ i <> sn_index m)).
    { intro Hi. destruct Hsh as [_ H]. destruct (p_snap p) as [m |]; [| discriminate].
      destruct H as [H1 [H2 [H3 [H4 H5]]]].
      destruct (sn_index m =? i) eqn:Ei.
      - apply N.eqb_eq in Ei. intro X. inversion X. subst. left. repeat split; auto. lia.
      - apply N.eqb_neq in Ei. intro X. inversion X. subst. right. repeat split; auto; [lia|]. exists m. split; auto. }
    destruct shape_phys as [_ W]. pose proof shape_len as SL.
    destruct (p_log p) as [| x r] eqn:El.
    - simpl. apply Hsnap. simpl length in SL. lia.
    - rewrite <- El in *. rewrite (log_first_wf (1 + c) (p_log p)); auto; [| rewrite El; discriminate].
      destruct (1 + c <=? i) eqn:Ef.
      + apply N.leb_le in Ef. apply (fun H => or_introl (Hlog ltac:(lia) H)).
      + apply N.leb_gt in Ef. apply Hsnap. lia.
  Qed.

  Lemma in_log_S i t b :
    in_log p i t = Ret b ->
    if b then c + 1 <= i /\ i <= N.of_nat (length L) /\ term_at L i t
    else i <= c \/ N.of_nat (length L) < i \/ exists e, nth_error L (N.to_nat (i - 1)) = Some e /\ e_term e <> t.
  Proof.
    destruct shape_phys as [_ W]. pose proof shape_len as SL. unfold in_log.
    destruct (p_log p) as [| x r] eqn:El.
    - simpl. intro H. inversion H. simpl length in SL. lia.
    - rewrite <- El in *. assert (Hne : p_log p <> []) by (rewrite El; discriminate).
      rewrite (log_first_wf (1 + c) (p_log p)); auto. rewrite (log_last_wf (1 + c) (p_log p)); auto.
      destruct ((1 + c <=? i) && (i <=? 1 + c + N.of_nat (length (p_log p)) - 1)) eqn:Eb.
      + apply andb_true_iff in Eb. destruct Eb as [B1 B2]. apply N.leb_le in B1, B2.
        rewrite log_term_S by lia.
        destruct (nth_error L (N.to_nat (i - 1))) as [e |] eqn:En; simpl; [| discriminate].
        intro H. inversion H. destruct (t =? e_term e) eqn:Et.
        * apply N.eqb_eq in Et. split; [lia|]. split; [rewrite shape_len; lia|]. right. exists e. auto.
        * apply N.eqb_neq in Et. right. right. exists e. split; auto.
      + intro H. inversion H. apply andb_false_iff in Eb. rewrite shape_len. destruct Eb as [B | B].
        * apply N.leb_gt in B. left. lia.
        * apply N.leb_gt in B. right. left. destruct (p_log p); [congruence | simpl length in *; lia].
  Qed.

  Lemma has_entry_S i t :
    has_entry p i t = Ret true ->
    (i <= N.of_nat (length L) /\ term_at L i t) \/ (exists m, p_snap p = Some m /\ 1 <= i /\ i <= sn_index m).
  Proof.
    unfold has_entry. destruct (i =? 0) eqn:E0.
    - apply N.eqb_eq in E0. intros _. subst. left. split; [lia | left; reflexivity].
    - apply N.eqb_neq in E0.
      destruct (p_snap p) as [m |] eqn:Es.
      + destruct (i <=? sn_index m) eqn:Ei.
        * apply N.leb_le in Ei. intros _. right. exists m. split; auto. split; [lia | exact Ei].
        * intro H. apply in_log_S in H. left. tauto.
      + intro H. apply in_log_S in H. left. tauto.
  Qed.
End Reads.

(* ---------------------------------------------------------------- virtual node: equations *)
Lemma vn_send C s to b : nis {| m_term := 0; m_from := 0; m_to := 0; m_fromg := 0; m_tog := 0; m_epoch := 0; m_body := b |} = true ->
  vn C (send s to b) = send (vn C s) to b.
Proof.
  intro H. unfold vn, send, set_msgs. simpl. rewrite map_app. simpl. unfold img at 2. simpl.
  assert (E : img_body b = b) by (destruct b; simpl in *; try reflexivity; discriminate). rewrite E. reflexivity.
Qed.

Lemma vn_send_is C s to li lt c : vn C (send s to (InstallSnap li lt c)) = send (vn C s) to (AppEnts li lt li None).
Proof. unfold vn, send, set_msgs. simpl. rewrite map_app. reflexivity. Qed.

Lemma shape_ext C p p' cm cm' :
  p_log p' = p_log p -> p_snap p' = p_snap p -> cm <= cm' -> shape C p cm -> shape C p' cm'.
Proof.
  unfold shape. intros A B Hc [W H]. rewrite A, B. split; [exact W|]. destruct (p_snap p); auto.
  destruct H as [H1 [H2 [H3 [H4 H5]]]]. repeat split; auto. lia.
Qed.

(* stores that agree on everything but the log / snapshot split *)
Definition same_pv (p p' : pstate) : Prop :=
  p_term p' = p_term p /\ p_vote p' = p_vote p /\ p_guid p' = p_guid p /\ p_guids p' = p_guids p.

Lemma shape_snap C p cm m :
  shape C p cm -> 1 <= sn_index m -> sn_index m <= cm -> sn_index m <= N.of_nat (length (C ++ p_log p)) ->
  term_at (C ++ p_log p) (sn_index m) (sn_term m) -> N.of_nat (length C) <= sn_index m ->
  shape C (apply_mut p (MSnapCommit m)) cm.
Proof.
  intros [W _] H1 H2 H3 H4 H5. unfold shape. simpl. split; [exact W|]. repeat split; auto.
Qed.

Lemma shape_trim C p cm m u :
  shape C p cm -> p_snap p = Some m -> u <= sn_index m -> N.of_nat (length C) <= u ->
  let n := N.to_nat (u - N.of_nat (length C)) in
  (C ++ firstn n (p_log p)) ++ p_log (apply_mut p (MTrim u)) = C ++ p_log p /\
  shape (C ++ firstn n (p_log p)) (apply_mut p (MTrim u)) cm.
Proof.
  intros Sh Es Hu Hc n. pose proof Sh as [W Sx]. rewrite Es in Sx. destruct Sx as [S1 [S2 [S3 [S4 S5]]]].
  destruct (shape_phys _ _ _ Sh) as [_ Wp].
  assert (Ht : mem_trim u (p_log p) = skipn n (p_log p)).
  { rewrite (mem_trim_from _ _ _ Wp). f_equal. unfold n. lia. }
  assert (Hn : (n <= length (p_log p))%nat) by (unfold n; rewrite app_length in S2; lia).
  assert (HL : (C ++ firstn n (p_log p)) ++ skipn n (p_log p) = C ++ p_log p) by (rewrite <- app_assoc, firstn_skipn; reflexivity).
  change (p_log (apply_mut p (MTrim u))) with (mem_trim u (p_log p)). rewrite Ht. split; [exact HL|].
  unfold shape. change (p_log (apply_mut p (MTrim u))) with (mem_trim u (p_log p)).
  change (p_snap (apply_mut p (MTrim u))) with (p_snap p). rewrite Ht, Es, HL. split; [exact W|].
  rewrite app_length, firstn_length, Nat.min_l by exact Hn. repeat split; auto. unfold n. lia.
Qed.

Definition vols (s0 x : node) : Prop :=
  n_id x = n_id s0 /\ n_cfg x = n_cfg s0 /\ n_role x = n_role s0 /\ n_conf x = n_conf s0 /\ n_commit x = n_commit s0 /\
  l_peers x = l_peers s0 /\ n_msgs x = n_msgs s0.

Lemma same_pv_refl p : same_pv p p.
Proof. unfold same_pv. auto. Qed.

Lemma vols_refl s : vols s s.
Proof. unfold vols. repeat split; reflexivity. Qed.


Lemma do_mut_cases' m s :
  do_mut m s = Crashed (apply_mut (n_p s) m) \/
  do_mut m s = Ret (upd_p s (apply_mut (n_p s) m) (n_cnt s + 1) (n_muts s ++ [m])).
Proof. unfold do_mut. destruct (negb (n_budget s =? 0) && (n_budget s =? n_cnt s + 1)); auto. Qed.

(* TrimLog right after the snapshot m was committed: the logical log is unchanged, the ghost prefix grows *)
Definition tr_out (C : list entry) (s1 : node) (cm : N) (r : R node) : Prop :=
  match r with
  | Ret x => exists C', C' ++ p_log (n_p x) = C ++ p_log (n_p s1) /\ shape C' (n_p x) cm /\ same_pv (n_p s1) (n_p x) /\ vols s1 x /\
                        p_snap (n_p x) = p_snap (n_p s1)
  | Crashed p => exists C', C' ++ p_log p = C ++ p_log (n_p s1) /\ shape C' p cm /\ same_pv (n_p s1) p /\ p_snap p = p_snap (n_p s1)
  | Fatal _ => True
  end.

Lemma trim_log_out C s1 m cm :
  shape C (n_p s1) cm -> p_snap (n_p s1) = Some m -> tr_out C s1 cm (trim_log s1 (sn_index m)).
Proof.
  intros Sh1 Es.
  assert (Hs1 : tr_out C s1 cm (Ret s1)).
  { simpl. exists C. split; [reflexivity|]. split; [exact Sh1|]. split; [apply same_pv_refl|]. split; [apply vols_refl | reflexivity]. }
  pose proof Sh1 as [W Sx]. rewrite Es in Sx. destruct Sx as [S1 [S2 [S3 [S4 S5]]]].
  unfold trim_log. destruct (shape_phys _ _ _ Sh1) as [_ Wp].
  destruct (log_first (p_log (n_p s1))) as [fi |] eqn:Ef; [| exact Hs1].
  destruct (log_last (p_log (n_p s1))) as [li |] eqn:El; [| exact Hs1].
  assert (Hne : p_log (n_p s1) <> []) by (intro X; rewrite X in Ef; discriminate).
  rewrite (log_first_wf _ _ Wp Hne) in Ef. assert (Efi : fi = 1 + N.of_nat (length C)) by congruence. subst fi.
  destruct (sn_index m =? 1 + N.of_nat (length C) - 1); [exact Hs1|].
  destruct ((sn_index m <? 1 + N.of_nat (length C)) || (li <? sn_index m)) eqn:Eo; [exact Logic.I|].
  apply orb_false_iff in Eo. destruct Eo as [Eo1 _]. apply N.ltb_ge in Eo1.
  destruct (sn_index m - (1 + N.of_nat (length C)) <? cf_keep (n_cfg s1)) eqn:Ek; [exact Hs1|]. apply N.ltb_ge in Ek.
  set (u := sn_index m - cf_keep (n_cfg s1)).
  assert (Hu1 : u <= sn_index m) by (unfold u; lia).
  assert (Hu2 : N.of_nat (length C) <= u) by (unfold u; lia).
  destruct (shape_trim C (n_p s1) cm m u Sh1 Es Hu1 Hu2) as [HL Sh2].
  set (n := N.to_nat (u - N.of_nat (length C))) in *.
  assert (Pv2 : same_pv (n_p s1) (apply_mut (n_p s1) (MTrim u))) by (unfold same_pv; simpl; auto).
  destruct (do_mut_cases' (MTrim u) s1) as [E2 | E2]; rewrite E2.
  - simpl. exists (C ++ firstn n (p_log (n_p s1))). split; [exact HL|]. split; [exact Sh2|]. split; [exact Pv2 | reflexivity].
  - simpl. exists (C ++ firstn n (p_log (n_p s1))). split; [exact HL|]. split; [exact Sh2|]. split; [exact Pv2|].
    split; [unfold vols; simpl; repeat split; reflexivity | reflexivity].
Qed.

Lemma shape_cm' C p cm cm' : shape C p cm -> (forall m, p_snap p = Some m -> sn_index m <= cm') -> shape C p cm'.
Proof.
  intros [W Sx] H. split; [exact W|]. destruct (p_snap p) as [m |]; [| exact Sx].
  destruct Sx as [S1 [S2 [S3 [S4 S5]]]]. repeat split; auto.
Qed.

Lemma reconcile_keep C id cfg p cm : shape C p cm -> reconcile (blank_node id cfg p) = Ret (blank_node id cfg p).
Proof.
  intros Sh. unfold reconcile. simpl n_p.
  destruct (p_snap p) as [m |] eqn:Es; [| reflexivity].
  pose proof Sh as [W Sx]. rewrite Es in Sx. destruct Sx as [S1 [S2 [S3 [S4 S5]]]].
  destruct (shape_phys _ _ _ Sh) as [_ Wp].
  destruct (log_first (p_log p)) as [fi |] eqn:Ef; [| reflexivity].
  destruct (log_last (p_log p)) as [li |] eqn:Ell; [| reflexivity].
  assert (Hne : p_log p <> []) by (intro X; rewrite X in Ef; discriminate).
  rewrite (log_first_wf _ _ Wp Hne) in Ef. rewrite (log_last_wf _ _ Wp Hne) in Ell.
  assert (Efi : fi = 1 + N.of_nat (length C)) by congruence.
  assert (Eli : li = N.of_nat (length (C ++ p_log p))) by (rewrite app_length; assert (Y : 1 + N.of_nat (length C) + N.of_nat (length (p_log p)) - 1 = li) by congruence; lia).
  subst fi li.
  assert (X1 : ((N.of_nat (length (C ++ p_log p)) <? sn_index m) || (sn_index m + 1 <? 1 + N.of_nat (length C))) = false).
  { apply orb_false_iff. split; apply N.ltb_ge; lia. }
  rewrite X1.
  destruct (1 + N.of_nat (length C) <=? sn_index m) eqn:X2; [| reflexivity]. apply N.leb_le in X2.
  rewrite (log_term_S _ _ _ Sh) by lia.
  destruct S3 as [Z | [e [Y1 Y2]]]; [lia|]. rewrite Y1. simpl. rewrite Y2, N.eqb_refl. reflexivity.
Qed.

(* a store torn by a crash between the snapshot commit of handleSnapshot and the truncation that discards a log not holding the
   snapshot position: the start-up reconciliation performs the truncation, so newCore sees the same store as after the truncation *)
Lemma new_core_torn C Cs id cfg p cm cm' M :
  shape C p cm -> N.of_nat (length C) < sn_index M ->
  (N.of_nat (length (C ++ p_log p)) < sn_index M \/
   exists e, nth_error (C ++ p_log p) (N.to_nat (sn_index M - 1)) = Some e /\ e_term e <> sn_term M) ->
  shape Cs (apply_mut (apply_mut p (MSnapCommit M)) (MTruncate 0)) cm' ->
  new_core id cfg (apply_mut p (MSnapCommit M)) = new_core id cfg (apply_mut (apply_mut p (MSnapCommit M)) (MTruncate 0)).
Proof.
  intros Sh HC Hcase Sh3. set (p1 := apply_mut p (MSnapCommit M)). set (p3 := apply_mut p1 (MTruncate 0)).
  assert (R3 : reconcile (blank_node id cfg p3) = Ret (blank_node id cfg p3)) by (eapply reconcile_keep; exact Sh3).
  assert (R1 : exists r, reconcile (blank_node id cfg p1) = Ret r /\ n_p r = p3).
  { unfold reconcile. simpl n_p. change (p_snap p1) with (Some M). change (p_log p1) with (p_log p).
    destruct (shape_phys _ _ _ Sh) as [_ Wp].
    destruct (p_log p) as [| x t] eqn:El.
    - simpl. exists (blank_node id cfg p1). split; [reflexivity|]. simpl. unfold p3, p1, apply_mut, set_log, mem_truncate. simpl. rewrite El. reflexivity.
    - rewrite <- El in *. assert (Hne : p_log p <> []) by (rewrite El; discriminate).
      rewrite (log_first_wf _ _ Wp Hne), (log_last_wf _ _ Wp Hne).
      assert (HL : 1 + N.of_nat (length C) + N.of_nat (length (p_log p)) - 1 = N.of_nat (length (C ++ p_log p))) by (rewrite app_length; lia).
      rewrite HL.
      assert (Htr : do_mut (MTruncate 0) (blank_node id cfg p1) = Ret (upd_p (blank_node id cfg p1) p3 (0 + 1) [MTruncate 0])) by reflexivity.
      destruct Hcase as [Hc | [e [E1 E2]]].
      + assert (X : ((N.of_nat (length (C ++ p_log p)) <? sn_index M) || (sn_index M + 1 <? 1 + N.of_nat (length C))) = true).
        { apply orb_true_iff. left. apply N.ltb_lt. exact Hc. }
        rewrite X, Htr. eexists. split; [reflexivity | reflexivity].
      + assert (Hlen : sn_index M <= N.of_nat (length (C ++ p_log p))).
        { assert (Z : nth_error (C ++ p_log p) (N.to_nat (sn_index M - 1)) <> None) by congruence. apply nth_error_Some in Z. lia. }
        assert (X : ((N.of_nat (length (C ++ p_log p)) <? sn_index M) || (sn_index M + 1 <? 1 + N.of_nat (length C))) = false).
        { apply orb_false_iff. split; apply N.ltb_ge; lia. }
        rewrite X.
        assert (X2 : (1 + N.of_nat (length C) <=? sn_index M) = true) by (apply N.leb_le; lia). rewrite X2.
        assert (Elt : log_term p1 (sn_index M) = log_term p (sn_index M)) by reflexivity. simpl n_p. rewrite Elt.
        rewrite (log_term_S _ _ _ Sh) by lia. rewrite E1. simpl.
        assert (X3 : negb (e_term e =? sn_term M) = true) by (apply negb_true_iff; apply N.eqb_neq; exact E2).
        rewrite X3, Htr. eexists. split; reflexivity. }
  destruct R1 as [r [R1 Nr]]. unfold new_core. rewrite R1, R3. simpl. rewrite Nr. reflexivity.
Qed.

Section LVS.
  Variable C : list entry.
  Variable s0r : node.
  Variable inp : option ainp.
  Variable boot : option entry.
  Variable RT : N -> N -> Prop.
  Variable VQ : nid -> list entry -> Prop.
  Variable LQ : list entry -> N -> Prop.
  Local Notation s0 := (vn C s0r).
  Hypothesis HLQ : forall t, p_term (n_p s0) < t -> LQ (p_log (n_p s0)) t.
  Variable DC : N -> Prop.
  Variable RSP : nid -> N -> N -> Prop.
  Local Notation INV := (inv s0 inp boot RT VQ LQ DC RSP).
  Local Notation PINV := (pinv s0 inp boot).

  Definition cmS (s : node) : N := N.min (n_commit s) (n_commit s0r).
  Definition shp (s : node) : Prop := shape C (n_p s) (cmS s).
  Definition iS (s : node) : Prop := INV (vn C s) /\ shp s.
  (* after a crash: the store is what the virtual pass expects, its shape is intact for some commit index the restart will
     re-establish (newCore commits up to the snapshot) *)
  Definition pS (p : pstate) : Prop := PINV (vp C p) /\ exists cm, shape C p cm /\ cm <= n_commit s0r.

  Definition postS (r : R node) : Prop :=
    match r with Ret s' => iS s' | Fatal _ => True | Crashed p => pS p end.
  Definition postS2 (r : R (N * node)) : Prop :=
    match r with Ret (_, s') => iS s' | Fatal _ => True | Crashed p => pS p end.
  Definition postSQ (Q : node -> Prop) (r : R node) : Prop :=
    match r with Ret s' => iS s' /\ Q s' | Fatal _ => True | Crashed p => pS p end.

  Lemma postS_bind (a : R node) (f : node -> R node) :
    postS a -> (forall s1, iS s1 -> postS (f s1)) -> postS (bind a f).
  Proof. intros Ha Hf. destruct a; simpl in *; auto. Qed.

  Lemma postS_bind_pure {A} (a : R A) (f : A -> R node) :
    pure a -> (forall x, a = Ret x -> postS (f x)) -> postS (bind a f).
  Proof. intros Hp Hf. destruct a; simpl in *; auto. contradiction. Qed.

  Lemma postS2_bind (a : R node) (f : node -> R (N * node)) :
    postS a -> (forall s1, iS s1 -> postS2 (f s1)) -> postS2 (bind a f).
  Proof. intros Ha Hf. destruct a; simpl in *; auto. Qed.

  Lemma postS2_of_postS r st : postS r -> postS2 (s1 <- r ;; Ret (st, s1)).
  Proof. destruct r; simpl; auto. Qed.

  Lemma postSQ_bind Q (a : R node) (f : node -> R node) :
    postSQ Q a -> (forall s1, iS s1 -> Q s1 -> postS (f s1)) -> postS (bind a f).
  Proof. intros Ha Hf. destruct a; simpl in *; auto. destruct Ha. auto. Qed.

  Lemma postSQ_bindQ Q Q' (a : R node) (f : node -> R node) :
    postSQ Q a -> (forall s1, iS s1 -> Q s1 -> postSQ Q' (f s1)) -> postSQ Q' (bind a f).
  Proof. intros Ha Hf. destruct a; simpl in *; auto. destruct Ha. auto. Qed.

  Lemma postSQ_postS Q r : postSQ Q r -> postS r.
  Proof. destruct r; simpl; auto. tauto. Qed.

  Lemma postSQ_bind_pure {A} Q (a : R A) (f : A -> R node) :
    pure a -> (forall x, a = Ret x -> postSQ Q (f x)) -> postSQ Q (bind a f).
  Proof. intros Hp Hf. destruct a; simpl in *; auto. contradiction. Qed.

  Lemma postSQ_mono (Q Q' : node -> Prop) r : (forall x, Q x -> Q' x) -> postSQ Q r -> postSQ Q' r.
  Proof. intros H. destruct r; simpl; auto. intros [A B]. auto. Qed.

  Lemma postSQ_ret (Q : node -> Prop) s : iS s -> Q s -> postSQ Q (Ret s).
  Proof. simpl. auto. Qed.

  (* ---------------------------------------------------------------- frames *)
  Lemma iS_vol s s' :
    iS s -> n_p s' = n_p s -> n_role s' = n_role s -> n_conf s' = n_conf s -> n_msgs s' = n_msgs s ->
    n_commit s' = n_commit s -> l_peers s' = l_peers s -> n_id s' = n_id s -> iS s'.
  Proof.
    intros [I Sh] P Rl Cf M Hc Hp Hi. split.
    - eapply inv_vol; [exact I | | | | | | |]; simpl; try rewrite P; try rewrite M; auto.
    - unfold shp, cmS in *. rewrite P, Hc. exact Sh.
  Qed.

  Lemma iS_send s to b :
    iS s -> nis {| m_term := 0; m_from := 0; m_to := 0; m_fromg := 0; m_tog := 0; m_epoch := 0; m_body := b |} = true ->
    mgood RT VQ LQ (C ++ p_log (n_p s)) {| m_term := p_term (n_p s); m_from := 0; m_to := to; m_fromg := 0; m_tog := 0; m_epoch := 0; m_body := b |} ->
    ((match b with AppEnts _ _ cm _ => False | _ => True end) \/ (leaderish s0 (vn C s) /\ match b with AppEnts _ _ cm _ => cm <= n_commit s | _ => True end)) ->
    iS (send s to b).
  Proof.
    intros [I Sh] Hn G Ld. split; [| exact Sh]. rewrite vn_send by exact Hn. apply inv_send; auto.
  Qed.

  Lemma iS_send_is s to m c :
    iS s -> leaderish s0 (vn C s) -> p_snap (n_p s) = Some m -> iS (send s to (InstallSnap (sn_index m) (sn_term m) c)).
  Proof.
    intros [I Sh] Ld Es. split; [| exact Sh]. rewrite vn_send_is.
    pose proof Sh as [_ Sx]. rewrite Es in Sx. destruct Sx as [S1 [S2 [S3 [S4 S5]]]].
    apply inv_send; [exact I | | right; split; [exact Ld|]].
    - unfold mgood. simpl. unfold slice. split; [exact S2|]. split; [exact S3 | exact Logic.I].
    - unfold cmS in S4. simpl. lia.
  Qed.

  Lemma iS_pS s p :
    iS s -> p_log p = p_log (n_p s) -> p_snap p = p_snap (n_p s) -> p_term p = p_term (n_p s) -> pS p.
  Proof.
    intros [I Sh] L S T. split.
    - eapply inv_pinv; [exact I | simpl; rewrite L; reflexivity | reflexivity | simpl; exact T].
    - exists (cmS s). split; [eapply shape_ext; [exact L | exact S | apply N.le_refl | exact Sh] | unfold cmS; lia].
  Qed.

  Definition samevS (s s1 : node) : Prop :=
    p_log (n_p s1) = p_log (n_p s) /\ p_snap (n_p s1) = p_snap (n_p s) /\ p_term (n_p s1) = p_term (n_p s) /\ n_role s1 = n_role s /\
    n_msgs s1 = n_msgs s /\ n_conf s1 = n_conf s /\ l_peers s1 = l_peers s /\ n_id s1 = n_id s /\ n_commit s <= n_commit s1.

  Lemma samevS_trans a b c : samevS a b -> samevS b c -> samevS a c.
  Proof.
    unfold samevS. intros [A1 [A2 [A3 [A4 [A5 [A6 [A7 [A8 A9]]]]]]]] [B1 [B2 [B3 [B4 [B5 [B6 [B7 [B8 B9]]]]]]]].
    repeat split; try congruence. lia.
  Qed.

  Lemma samevS_refl a : samevS a a.
  Proof. unfold samevS. repeat split; try reflexivity. Qed.

  Lemma postSQ_do_mut_light s m : iS s -> light m -> postSQ (fun s1 => samevS s s1 /\ n_commit s1 = n_commit s) (do_mut m s).
  Proof.
    intros IS Hl. pose proof IS as [I Sh]. destruct (do_mut_cases m s) as [E | E]; rewrite E; simpl.
    - eapply iS_pS; eauto; destruct m; simpl in *; try contradiction; reflexivity.
    - pose proof (postQ_do_mut_light s0 inp boot RT VQ LQ DC RSP (vn C s) m I Hl) as Q.
      destruct (do_mut_cases m (vn C s)) as [E' | E']; rewrite E' in Q; simpl in Q.
      + exfalso. unfold do_mut in E, E'. simpl in E'. destruct (negb (n_budget s =? 0) && (n_budget s =? n_cnt s + 1)); discriminate.
      + destruct Q as [Q _]. split; [split|].
        * assert (Ev : vn C (upd_p s (apply_mut (n_p s) m) (n_cnt s + 1) (n_muts s ++ [m])) =
                       upd_p (vn C s) (apply_mut (n_p (vn C s)) m) (n_cnt (vn C s) + 1) (n_muts (vn C s) ++ [m])).
          { destruct m; simpl in Hl; try contradiction; reflexivity. }
          rewrite Ev. exact Q.
        * unfold shp. simpl. eapply shape_ext; [| | apply N.le_refl | exact Sh]; destruct m; simpl in *; try contradiction; reflexivity.
        * unfold samevS. simpl. split; [| reflexivity]. destruct m; simpl in *; try contradiction; repeat split; try reflexivity; lia.
  Qed.

  Lemma postS_do_mut_light s m : iS s -> light m -> postS (do_mut m s).
  Proof. intros. eapply postSQ_postS. apply postSQ_do_mut_light; auto. Qed.

  (* ---------------------------------------------------------------- commit *)
  Lemma iS_commit s i r c : iS s -> n_commit s <= i -> cjust s0 inp RT DC RSP (vn C s) i -> iS (set_commit s i r c).
  Proof.
    intros [I Sh] Hi J. split.
    - change (vn C (set_commit s i r c)) with (set_commit (vn C s) i r c). eapply inv_commit; eauto.
    - unfold shp, cmS in *. simpl. eapply shape_ext; [reflexivity | reflexivity | | exact Sh]. lia.
  Qed.

  Lemma snap_case_none s : shp s ->
    match p_snap (n_p s) with Some m => if n_commit s <? sn_index m then Some m else None | None => None end = None.
  Proof.
    intros [_ H]. destruct (p_snap (n_p s)) as [m |]; auto. destruct H as [_ [_ [_ [H4 _]]]].
    destruct (n_commit s <? sn_index m) eqn:E; auto. apply N.ltb_lt in E. unfold cmS in H4. lia.
  Qed.

  Lemma postSQ_commit_up_to s i : iS s -> n_commit s <= i -> cjust s0 inp RT DC RSP (vn C s) i -> postSQ (samevS s) (commit_up_to s i).
  Proof.
    intros IS Hi J. pose proof IS as [I Sh]. unfold commit_up_to. rewrite (snap_case_none s Sh).
    apply postSQ_bind_pure; [apply pure_log_entries|]. intros ents _.
    match goal with |- postSQ _ (if ?c then _ else _) => destruct c end.
    2: { simpl. split; [apply iS_commit; auto | unfold samevS; simpl; repeat split; auto]. }
    match goal with |- postSQ _ (match ?x with _ => _ end) => destruct x eqn:E end; simpl; auto.
    match goal with |- postSQ _ (do_mut ?m ?x) =>
      assert (Ix : iS x) by (apply iS_commit; auto); pose proof (postSQ_do_mut_light x m Ix Logic.I) as H; destruct (do_mut m x); simpl in *; auto end.
    destruct H as [H1 [H2 H3]]. split; [exact H1|]. unfold samevS in *. simpl in *.
    destruct H2 as [A1 [A2 [A3 [A4 [A5 [A6 [A7 [A8 A9]]]]]]]]. repeat split; auto. lia.
  Qed.

  Lemma postS_commit_up_to s i : iS s -> n_commit s <= i -> cjust s0 inp RT DC RSP (vn C s) i -> postS (commit_up_to s i).
  Proof. intros. eapply postSQ_postS. apply postSQ_commit_up_to; auto. Qed.

  Lemma in_vn_msgs s m0 : In m0 (n_msgs s) -> nis m0 = true -> In m0 (n_msgs (vn C s)).
  Proof. intros H1 H2. simpl. rewrite <- (img_nis _ H2). apply in_map. exact H1. Qed.

  Lemma postS_follower_maybe_commit s lc mi m0 h :
    iS s -> DC lc -> In m0 (n_msgs s) -> m_body m0 = AppEntsResp true mi h ->
    postS (follower_maybe_commit s lc mi).
  Proof.
    intros IS Hdc Hm Hb. unfold follower_maybe_commit. destruct (n_commit s <? N.min mi lc) eqn:E; [| simpl; auto].
    apply N.ltb_lt in E. apply postS_commit_up_to; auto; [lia|].
    intros r c. right. left. exists lc, mi, h, m0. simpl. repeat split; auto; try lia.
    apply in_vn_msgs; [exact Hm | unfold nis; rewrite Hb; reflexivity].
  Qed.

  (* ---------------------------------------------------------------- what a leader sends *)
  Lemma get_app_ents_slice_S s p b :
    shp s -> get_app_ents s p = Ret (Some b) ->
    exists pi pt cm oe, b = AppEnts pi pt cm oe /\ slice (C ++ p_log (n_p s)) pi pt oe /\ cm = n_commit s.
  Proof.
    intros Sh. unfold get_app_ents. destruct (negb (pr_next p =? pr_match p + 1)).
    - destruct (st_term (n_p s) (pr_next p - 1)) as [[pt ok] | |] eqn:E; simpl; try discriminate.
      destruct (st_term_S _ _ _ Sh _ _ _ E) as [[Ok [Le [_ Ta]]] | [Ok _]]; subst ok; simpl; [| discriminate]. intro H. inversion H.
      eexists _, _, _, _. split; [reflexivity|]. split; [| reflexivity]. unfold slice. repeat split; auto.
    - destruct (pr_match p =? last_index (n_p s)).
      + destruct (st_term (n_p s) (pr_match p)) as [[pt ok] | |] eqn:E; simpl; try discriminate.
        destruct (st_term_S _ _ _ Sh _ _ _ E) as [[Ok [Le [_ Ta]]] | [Ok _]]; subst ok; simpl; [| discriminate]. intro H. inversion H.
        eexists _, _, _, _. split; [reflexivity|]. split; [| reflexivity]. unfold slice. repeat split; auto.
      + unfold get_log_entries. replace (pr_match p + 1 - 1) with (pr_match p) by lia.
        destruct (st_term (n_p s) (pr_match p)) as [[pt ok] | |] eqn:E; simpl; try discriminate.
        destruct (st_term_S _ _ _ Sh _ _ _ E) as [[Ok [Le [_ Ta]]] | [Ok _]]; subst ok; simpl; [| discriminate].
        destruct (shape_phys _ _ _ Sh) as [_ W].
        destruct (p_log (n_p s)) as [| x r] eqn:El; [simpl; discriminate|]. rewrite <- El in *.
        assert (Hne : p_log (n_p s) <> []) by (rewrite El; discriminate).
        rewrite (log_first_wf _ _ W Hne), (log_last_wf _ _ W Hne).
        destruct (pr_match p + 1 <? 1 + N.of_nat (length C)) eqn:X; [simpl; discriminate|]. apply N.ltb_ge in X.
        match goal with |- context [if ?c then Fatal _ else _] => destruct c end; [discriminate|].
        rewrite (log_entries_S _ _ _ Sh); [| lia]. simpl. intro H. inversion H.
        eexists _, _, _, _. split; [reflexivity|]. split; [| reflexivity]. unfold slice. repeat split; auto.
        replace (N.to_nat (pr_match p + 1 - 1)) with (N.to_nat (pr_match p)) by lia. apply firstn_length_self.
  Qed.

  Lemma iS_peer_set s q chk :
    iS s ->
    (forall p0, peer_get (pr_id q) (l_peers s) = Some p0 -> pr_match p0 <= pr_match q) ->
    (pjust s0 RSP (vn C s) (pr_id q) (pr_match q) \/
     exists p0, peer_get (pr_id q) (l_peers s) = Some p0 /\ pr_match p0 = pr_match q /\
                (n_role s = Leader \/ pjust s0 RSP (vn C s) (pr_id q) (pr_match p0) \/ True)) ->
    (n_role s = Leader -> pr_id q <> n_id s) ->
    iS (set_leader s chk (peer_set q (l_peers s))).
  Proof.
    intros [I Sh] Hm Hj Hl. split; [| exact Sh].
    change (vn C (set_leader s chk (peer_set q (l_peers s)))) with (set_leader (vn C s) chk (peer_set q (l_peers (vn C s)))).
    eapply inv_peer_set; eauto.
  Qed.

  Lemma postSQ_send_app_ents s p :
    iS s -> leaderish s0 (vn C s) -> (exists p', peer_get (pr_id p) (l_peers s) = Some p' /\ pr_match p' = pr_match p) ->
    postSQ (sameL s) (send_app_ents s p).
  Proof.
    intros IS Ld [p' [Hp' Hm']]. pose proof IS as [I Sh]. unfold send_app_ents.
    apply postSQ_bind_pure; [apply pure_get_app_ents|]. intros ob Hob.
    assert (Hset : forall s1 sn, iS s1 -> l_peers s1 = l_peers s -> n_role s1 = n_role s -> n_id s1 = n_id s ->
                     iS (set_leader s1 (l_check s1) (peer_set (mk_peer (pr_id p) (pr_next p) (pr_match p) sn (n_elapsed s) (pr_recv p)) (l_peers s1)))).
    { intros s1 sn I1 E1 E2 E3. apply iS_peer_set; auto; simpl.
      - intros p0 H0. rewrite E1, Hp' in H0. inversion H0. subst. lia.
      - right. exists p'. rewrite E1. split; [exact Hp' | split; [exact Hm' | right; right; exact Logic.I]].
      - intro Hr. rewrite E2 in Hr. pose proof (v_ext _ _ _ _ _ _ _ _ _ I) as [_ [_ [_ PK]]]. specialize (PK Hr). destruct PK as [P1 [P2 P3]].
        apply peer_get_some in Hp'. destruct Hp' as [Y1 Y2]. rewrite E3, <- Y2. apply P2. exact Y1. }
    assert (HsL : forall x sn, p_log (n_p x) = p_log (n_p s) -> p_term (n_p x) = p_term (n_p s) -> n_role x = n_role s ->
                    n_id x = n_id s -> l_peers x = l_peers s ->
                    sameL s (set_leader x (l_check x) (peer_set (mk_peer (pr_id p) (pr_next p) (pr_match p) sn (n_elapsed s) (pr_recv p)) (l_peers x)))).
    { intros x sn A1 A2 A3 A4 A5. unfold sameL. simpl. split; [exact A1|]. split; [exact A2|]. split; [exact A3|].
      split; [apply peer_set_nonempty|]. split; [exact A4|].
      intros id p1. rewrite peer_get_set. simpl. rewrite A5. destruct (pr_id p =? id) eqn:Eq.
      * apply N.eqb_eq in Eq. subst id. intro X. inversion X. subst p1. simpl. exists p'. auto.
      * intro X. exists p1. auto. }
    destruct ob as [b |].
    - destruct (get_app_ents_slice_S s p b Sh Hob) as [pi [pt [cm [oe [Eb [Sl Ecm]]]]]]. subst b.
      simpl. split.
      + apply (Hset (send s (pr_id p) (AppEnts pi pt cm oe)) (pr_snap p)); try reflexivity.
        apply iS_send; [exact IS | reflexivity | unfold mgood; simpl; exact Sl | right; split; [exact Ld | rewrite Ecm; apply N.le_refl]].
      + apply (HsL (send s (pr_id p) (AppEnts pi pt cm oe)) (pr_snap p)); reflexivity.
    - destruct (p_snap (n_p s)) as [m |] eqn:Esn; simpl; [| exact Logic.I]. destruct (sn_conf m) as [cf |]; simpl; [| exact Logic.I].
      split.
      + apply (Hset (send s (pr_id p) (InstallSnap (sn_index m) (sn_term m) cf)) true); try reflexivity.
        apply iS_send_is; auto.
      + apply (HsL (send s (pr_id p) (InstallSnap (sn_index m) (sn_term m) cf)) true); reflexivity.
  Qed.

  Lemma postS_for_peers (Q : node -> Prop) ids f :
    (forall s1 p, iS s1 -> Q s1 -> peer_get (pr_id p) (l_peers s1) = Some p -> postSQ Q (f s1 p)) ->
    forall s, iS s -> Q s -> postSQ Q (for_peers ids f s).
  Proof.
    intro Hf. induction ids as [| id r IH]; intros s I HQ; simpl; auto.
    destruct (peer_get id (l_peers s)) eqn:E; auto.
    eapply postSQ_bindQ; [apply Hf; auto|].
    - destruct (peer_get_some _ _ _ E) as [_ X]. rewrite X. exact E.
    - intros s1 I1 Q1. apply IH; auto.
  Qed.

  Lemma iS_follower s s' :
    iS s -> n_p s' = n_p s -> n_role s' = Follower -> n_conf s' = n_conf s -> n_msgs s' = n_msgs s ->
    n_commit s' = n_commit s -> l_peers s' = l_peers s -> n_id s' = n_id s ->
    strong s0 (vn C s) \/ (no_appents (n_msgs (vn C s)) /\ n_role s <> Leader) -> iS s'.
  Proof.
    intros [I Sh] P Rl Cf M Hc Hp Hi St. split.
    - eapply inv_follower; [exact I | | | | | | | |]; simpl; try rewrite P; try rewrite M; auto.
    - unfold shp, cmS in *. rewrite P, Hc. exact Sh.
  Qed.

  Lemma leader_cjust_S s mi t :
    iS s -> n_role s = Leader -> find_majority_index s = Ret mi -> st_term (n_p s) mi = Ret (t, true) -> t = p_term (n_p s) ->
    cjust s0 inp RT DC RSP (vn C s) mi /\ (l_peers s = [] -> in_latest_conf s = true).
  Proof.
    intros [I Sh] Hr Hf Hst Ht. pose proof (v_ext _ _ _ _ _ _ _ _ _ I) as [_ [_ [_ PK]]]. destruct (PK Hr) as [P1 [P2 P3]].
    destruct (st_term_S _ _ _ Sh _ _ _ Hst) as [[_ [Hle [_ Ta]]] | [X _]]; [| discriminate].
    assert (Hli : mi <= last_index (n_p s)) by (rewrite (last_index_S _ _ _ Sh); exact Hle).
    destruct (majority_evidence_m s mi Hf P1 P2 Hli) as [c [Q [B1 [B2 [B3 [B4 B5]]]]]]. split; [| exact B5].
    intros r cc. right. right. left. unfold lead_ev. simpl. split; [left; exact Hr|]. split; [exact Hle|]. split; [rewrite <- Ht; exact Ta|].
    exists c, Q. repeat split; auto.
    intros v Hv. destruct (B4 v Hv) as [X | [p [X1 X2]]]; [left; exact X | right]. exists p. split; auto. split; auto.
    destruct (peer_get_some _ _ _ X1) as [Y1 Y2]. rewrite <- Y2. apply P3. exact Y1.
  Qed.

  Local Notation strongS := (strong s0).
  Local Notation leaderishS := (leaderish s0).

  Lemma strong_vn s : strongS (vn C s) <-> strongS s.
  Proof. unfold strong. simpl. tauto. Qed.

  Lemma postSQ_leader_commit_up_to_strong s i :
    iS s -> strongS s -> n_commit s <= i -> cjust s0 inp RT DC RSP (vn C s) i -> postSQ strongS (leader_commit_up_to s i).
  Proof.
    intros I St Hi J. unfold leader_commit_up_to. eapply postSQ_bindQ; [apply postSQ_commit_up_to; auto|].
    intros s1 I1 [_ [_ [T1 _]]].
    assert (St1 : strongS s1) by (unfold strong in *; destruct St; split; congruence).
    match goal with |- postSQ _ (if ?c then _ else _) => destruct c end; simpl; [| auto].
    split; [| unfold strong in *; simpl; exact St1].
    eapply iS_follower; eauto; try reflexivity; try (left; apply strong_vn; exact St1).
  Qed.

  Lemma postSQ_leader_commit_up_to_weak s i :
    iS s -> no_appents (n_msgs (vn C s)) -> l_peers s = [] -> in_latest_conf s = true -> n_commit s <= i -> cjust s0 inp RT DC RSP (vn C s) i ->
    postSQ (fun x => no_appents (n_msgs (vn C x)) /\ l_peers x = []) (leader_commit_up_to s i).
  Proof.
    intros I Na Lp Hic Hi J. unfold leader_commit_up_to. eapply postSQ_bindQ; [apply postSQ_commit_up_to; auto|].
    intros s1 I1 [_ [_ [_ [_ [M1 [C1 [P1 [Id1 _]]]]]]]].
    assert (Na1 : no_appents (n_msgs (vn C s1))) by (simpl in *; rewrite M1; auto).
    assert (Hic1 : in_latest_conf s1 = true) by (unfold in_latest_conf in *; rewrite C1, Id1; exact Hic).
    rewrite Hic1. simpl. rewrite andb_false_r. simpl. split; auto. split; auto. congruence.
  Qed.

  Lemma postS_leader_maybe_commit_strong s : iS s -> strongS s -> n_role s = Leader -> postSQ strongS (leader_maybe_commit s).
  Proof.
    intros I St Hr. unfold leader_maybe_commit. apply postSQ_bind_pure; [apply pure_find_majority_index|]. intros mi Hf.
    destruct (n_commit s <? mi) eqn:Ec; [| apply postSQ_ret; auto]. apply N.ltb_lt in Ec.
    apply postSQ_bind_pure; [apply pure_st_term|]. intros [t ok] Hst.
    destruct ok; simpl; auto. destruct (t =? p_term (n_p s)) eqn:Et; simpl; [| apply postSQ_ret; auto]. apply N.eqb_eq in Et.
    destruct (leader_cjust_S s mi t I Hr Hf Hst Et) as [J _].
    eapply postSQ_bindQ; [apply postSQ_leader_commit_up_to_strong; auto; lia|]. intros s1 I1 St1.
    apply postS_for_peers; auto. intros s2 p I2 St2 Hp.
    destruct (pr_match p =? last_index (n_p s2)); [| apply postSQ_ret; auto].
    eapply postSQ_mono; [| apply postSQ_send_app_ents; eauto]. 
    - intros x. apply sameL_strong; auto.
    - right. apply strong_vn. exact St2.
  Qed.

  Lemma postS_leader_maybe_commit_weak s :
    iS s -> no_appents (n_msgs (vn C s)) -> l_peers s = [] -> n_role s = Leader -> postS (leader_maybe_commit s).
  Proof.
    intros I Na Lp Hr. unfold leader_maybe_commit. apply postS_bind_pure; [apply pure_find_majority_index|]. intros mi Hf.
    destruct (n_commit s <? mi) eqn:Ec; [| simpl; auto]. apply N.ltb_lt in Ec.
    apply postS_bind_pure; [apply pure_st_term|]. intros [t ok] Hst.
    destruct ok; simpl; auto. destruct (t =? p_term (n_p s)) eqn:Et; simpl; [| auto]. apply N.eqb_eq in Et.
    destruct (leader_cjust_S s mi t I Hr Hf Hst Et) as [J Hic].
    eapply postSQ_bind; [apply postSQ_leader_commit_up_to_weak; auto; lia|]. intros s1 I1 [Na1 Lp1].
    unfold peer_ids. rewrite Lp1. simpl. exact I1.
  Qed.

  Definition foldqS (id0 : nid) (x : node) : Prop :=
    n_role x = Leader /\ n_id x = id0 /\ (l_peers x = [] -> no_appents (n_msgs (vn C x))) /\
    (forall id p, peer_get id (l_peers x) = Some p -> pr_match p = 0).

  Lemma postS_fold_enter (others : list nid) li id0 :
    Forall (fun m => m <> id0) others ->
    forall (acc : R node),
    postSQ (foldqS id0) acc ->
    postSQ (foldqS id0) (fold_left (fun (acc : R node) (m : nid) =>
                       a <- acc ;;
                       let p := mk_peer m (li + 1) 0 false 0 0 in
                       let a1 := set_leader a (l_check a) (peer_set p (l_peers a)) in
                       send_app_ents a1 p) others acc).
  Proof.
    induction 1 as [| m r Hm Hr IH]; intros acc H; simpl; auto.
    apply IH. eapply postSQ_bindQ; [exact H|]. intros s1 I1 [R1 [Id1 [_ Z1]]].
    set (p := mk_peer m (li + 1) 0 false 0 0).
    assert (Ia1 : iS (set_leader s1 (l_check s1) (peer_set p (l_peers s1)))).
    { apply iS_peer_set; auto; simpl.
      - intros p0 H0. rewrite (Z1 _ _ H0). lia.
      - left. left. reflexivity.
      - intros _. congruence. }
    eapply postSQ_mono; [| apply postSQ_send_app_ents; [exact Ia1 | left; simpl; exact R1 |]].
    - intros x [_ [_ [Rx [Px [Ix Mx]]]]]. simpl in *. split; [congruence|]. split; [congruence|]. split; [intro; contradiction|].
      intros id q Hq. destruct (Mx id q Hq) as [q0 [Y1 Y2]]. rewrite <- Y2.
      rewrite peer_get_set in Y1. simpl in Y1. destruct (m =? id); [inversion Y1; reflexivity | eapply Z1; eauto].
    - simpl. exists p. split; [rewrite peer_get_set; simpl; rewrite N.eqb_refl; reflexivity | reflexivity].
  Qed.

  Lemma postS_enter_leader s :
    iS (set_leader s (l_check s) []) -> n_role s = Leader -> no_appents (n_msgs (vn C s)) -> postS (enter_leader s).
  Proof.
    intros I Rl Na. unfold enter_leader. destruct (n_conf s); simpl; auto.
    eapply postSQ_bind.
    - apply postS_fold_enter with (id0 := n_id s).
      + apply Forall_forall. intros x Hx. apply filter_In in Hx. destruct Hx as [_ Hx].
        apply negb_true_iff in Hx. apply N.eqb_neq in Hx. exact Hx.
      + simpl. split; [exact I|]. split; [exact Rl|]. split; [reflexivity|]. split; [intros _; exact Na|]. intros id p X. discriminate.
    - intros s1 I1 [R1 [_ [P1 _]]]. destruct (l_peers s1) eqn:El; [| simpl; auto].
      apply postS_leader_maybe_commit_weak; auto.
  Qed.

  Lemma postS_become_leader s : iS s -> n_role s = Candidate -> no_appents (n_msgs (vn C s)) -> postS (become_leader s).
  Proof.
    intros [I Sh] Rl Na. unfold become_leader. apply postS_enter_leader; auto.
    split; [| exact Sh].
    assert (X : inv s0 inp boot RT VQ LQ DC RSP (set_leader (set_role (vn C s) Leader (n_id (vn C s)) 0) (l_check (set_role (vn C s) Leader (n_id (vn C s)) 0)) [])).
    { destruct I. constructor; simpl; auto.
      - intros _. apply v_n2. simpl. congruence.
      - intro E. right. right. split; auto. destruct (v_rt E) as [X | [X | [_ X]]]; simpl in *; congruence.
      - eapply LR_nonfollower; [| exact v_lr]. simpl. congruence.
      - destruct v_ext as [E1 [E2 [E3 E4]]]. unfold ext. simpl. split; [exact E1|]. split; [exact E2|]. split.
        + destruct E3 as [X | [X | [X | X]]]; [left; exact X | right; left; exact X | exfalso | right; right; right; exact X].
          destruct X as [[B1 | [B1 B2]] _]; [simpl in *; congruence|].
          destruct (v_rt B2) as [X | [X | [X _]]]; simpl in *; congruence.
        + intros _. unfold pk. simpl. split; [exact Logic.I|]. split; intros p []. }
    exact X.
  Qed.

  Ltac volS := eapply iS_vol; [eassumption | reflexivity | reflexivity | reflexivity | reflexivity | reflexivity | reflexivity | reflexivity].

  Lemma postS_check_if_elected s : iS s -> n_role s = Candidate -> no_appents (n_msgs (vn C s)) -> postS (check_if_elected s).
  Proof.
    intros I Rl Na. unfold check_if_elected. destruct (n_conf s); simpl; auto.
    destruct (quorum m <=? N.of_nat (length (c_votes s))); [apply postS_become_leader; auto | simpl; auto].
  Qed.

  Lemma postS_tick_leader s : iS s -> strongS s -> postS (tick_leader s).
  Proof.
    intros I St. unfold tick_leader. eapply postSQ_bind.
    - apply postS_for_peers with (Q := strongS); auto. intros s2 p I2 St2 Hp.
      destruct (should_send s2 p); [| apply postSQ_ret; auto].
      eapply postSQ_mono; [| apply postSQ_send_app_ents; [exact I2 | right; apply strong_vn; exact St2 | exists p; auto]].
      intros x. apply sameL_strong; auto.
    - intros s1 I1 St1.
      match goal with |- postS (if ?c then _ else _) => destruct c end; [| simpl; volS].
      apply postS_bind_pure; [apply pure_check_quorum_active|]. intros ok _. destruct ok; simpl; [volS|].
      eapply iS_follower; eauto; try reflexivity; try (left; apply strong_vn; exact St1).
  Qed.

  Lemma postS_handle_app_ents_resp s from su ix hi :
    iS s -> strongS s -> n_role s = Leader -> (su = true -> RSP from ix (p_term (n_p s))) -> postS (handle_app_ents_resp s from su ix hi).
  Proof.
    intros IS St Hr Hrsp. pose proof IS as [I Sh]. unfold handle_app_ents_resp. destruct (peer_get from (l_peers s)) as [p |] eqn:Ep; [| simpl; auto].
    destruct (peer_get_some _ _ _ Ep) as [Hin Hid].
    destruct (ix <? pr_match p) eqn:Elt; [simpl; auto|]. apply N.ltb_ge in Elt.
    pose proof (v_ext _ _ _ _ _ _ _ _ _ I) as [_ [_ [_ PK]]]. destruct (PK Hr) as [P1 [P2 P3]].
    assert (Hset : forall q chk, pr_id q = from -> pr_match p <= pr_match q ->
                     (pr_match q = pr_match p \/ RSP from (pr_match q) (p_term (n_p s))) ->
                     iS (set_leader s chk (peer_set q (l_peers s)))).
    { intros q chk Hq Hm Hj. apply iS_peer_set; auto.
      - intros p0 H0. rewrite Hq, Ep in H0. inversion H0. subst. exact Hm.
      - destruct Hj as [Hj | Hj]; [right; exists p; rewrite Hq; split; [exact Ep | split; [symmetry; exact Hj | left; exact Hr]]
                                  | left; right; right; rewrite Hq; exact Hj].
      - intros _. rewrite Hq, <- Hid. apply P2. exact Hin. }
    destruct su; simpl.
    - match goal with |- postS (if ?c then _ else _) => destruct c end; simpl; auto.
      match goal with |- postS (bind (if _ then send_app_ents ?x ?q else _) _) =>
        assert (I1 : iS x) by (apply Hset; simpl; [exact Hid | exact Elt | right; apply Hrsp; reflexivity]);
        assert (Hq : peer_get (pr_id q) (l_peers x) = Some q) by (simpl; rewrite peer_get_set; simpl; rewrite N.eqb_refl; reflexivity) end.
      eapply postSQ_bind with (Q := fun x => strongS x /\ n_role x = Leader).
      + match goal with |- postSQ _ (if ?c then _ else _) => destruct c end.
        * eapply postSQ_mono; [| apply postSQ_send_app_ents; [exact I1 | right; apply strong_vn; exact St | eexists; split; [exact Hq | reflexivity]]].
          intros x [_ [T [R _]]]. split; [unfold strong in *; simpl in *; destruct St; split; congruence | simpl in R; congruence].
        * apply postSQ_ret; [exact I1 | split; [exact St | exact Hr]].
      + intros s2 I2 [St2 R2]. eapply postSQ_postS. apply postS_leader_maybe_commit_strong; auto.
    - match goal with |- postS (send_app_ents ?x ?q) =>
        assert (I1 : iS x) by (apply Hset; simpl; [exact Hid | apply N.le_refl | left; reflexivity]);
        assert (Hq : peer_get (pr_id q) (l_peers x) = Some q) by (simpl; rewrite peer_get_set; simpl; rewrite N.eqb_refl; reflexivity) end.
      eapply postSQ_postS. apply postSQ_send_app_ents; [exact I1 | right; apply strong_vn; exact St | eexists; split; [exact Hq | reflexivity]].
  Qed.

  Lemma postS_handle_leader s m :
    iS s -> strongS s -> n_role s = Leader ->
    (match m_body m with AppEntsResp true ix _ => RSP (m_from m) ix (p_term (n_p s)) | _ => True end) -> postS (handle_leader s m).
  Proof.
    intros I St Hr Hm. unfold handle_leader. destruct (m_body m); simpl; auto.
    - apply postS_handle_app_ents_resp; auto. intro E. subst success. exact Hm.
    - apply iS_send; [exact I | reflexivity | unfold mgood; simpl; exact Logic.I | left; exact Logic.I].
  Qed.

  (* ---------------------------------------------------------------- conflictIndex on a store with snapshot *)
  Definition snapi (p : pstate) : N := match p_snap p with Some m => sn_index m | None => 0 end.

  (* THE COMPLETENESS PREMISE of a delivered AppEnts (pi, pt, oes) for a store p viewed through C: wherever the code relies on the
     snapshot instead of comparing terms, the message agrees with the logical log *)
  Definition premS (p : pstate) (pi pt : N) (oes : option (list entry)) : Prop :=
    (pi <= snapi p -> term_at (C ++ p_log p) pi pt) /\
    match oes with
    | Some ents => forall k e1 e2, (k < N.to_nat (snapi p))%nat -> (N.to_nat pi <= k)%nat ->
                     nth_error (C ++ p_log p) k = Some e1 -> nth_error ents (k - N.to_nat pi) = Some e2 -> e_term e1 = e_term e2
    | None => True
    end.

  Lemma mem_append_wf_from es : forall f l,
    wf_from f l -> wf_from (f + N.of_nat (length l)) es -> mem_append l es = (l ++ es, true).
  Proof.
    induction es as [| e r IH]; intros f l Hl He; simpl.
    - rewrite app_nil_r. reflexivity.
    - destruct He as [Hi He].
      assert (Hl' : wf_from f (l ++ [e])).
      { apply wf_from_app. split; auto. cbn [wf_from]. split; auto. }
      assert (Hr : wf_from (f + N.of_nat (length (l ++ [e]))) r).
      { rewrite app_length. simpl. replace (f + N.of_nat (length l + 1)) with (f + N.of_nat (length l) + 1) by lia. exact He. }
      destruct l as [| x t] eqn:El.
      + unfold log_last. simpl. rewrite (IH f [e] Hl' Hr). reflexivity.
      + rewrite <- El in *. rewrite (log_last_wf f l Hl) by (rewrite El; discriminate).
        assert (X : (e_index e =? f + N.of_nat (length l) - 1 + 1) = true).
        { apply N.eqb_eq. rewrite El in *. simpl length in *. lia. }
        rewrite X. rewrite (IH f (l ++ [e]) Hl' Hr). rewrite <- app_assoc. reflexivity.
  Qed.

  Lemma conflict_loop_shift cnt : forall idx off ents il,
    conflict_loop cnt idx off ents il = conflict_loop cnt idx 0 (skipn off ents) il.
  Proof.
    induction cnt as [| c IH]; intros idx off ents il; simpl; [reflexivity|].
    rewrite Nat.add_0_r. rewrite nth_error_skipn'. rewrite (Nat.add_comm off idx).
    destruct (nth_error ents (idx + off)); [| reflexivity]. destruct (nth_error il idx); [| reflexivity].
    destruct (negb (e_term e =? e_term e0)); [reflexivity | apply IH].
  Qed.

  Lemma conflict_index_spec_S s ents pi ci any :
    shp s -> wf_from (pi + 1) ents -> pi <= N.of_nat (length (C ++ p_log (n_p s))) ->
    (forall k e1 e2, (k < N.to_nat (snapi (n_p s)))%nat -> (N.to_nat pi <= k)%nat ->
       nth_error (C ++ p_log (n_p s)) k = Some e1 -> nth_error ents (k - N.to_nat pi) = Some e2 -> e_term e1 = e_term e2) ->
    conflict_index s ents = Ret (ci, any) ->
    ents <> [] /\
    if any then exists j, (j < length ents)%nat /\ (N.to_nat pi + j < length (C ++ p_log (n_p s)))%nat /\ ci = pi + N.of_nat j + 1 /\
                          snapi (n_p s) < ci /\
                          (j = 0%nat \/ ((0 < j)%nat /\ agree (C ++ p_log (n_p s)) ents (N.to_nat pi) (N.to_nat pi + j - 1))) /\
                          (exists e1 e2, nth_error (C ++ p_log (n_p s)) (N.to_nat pi + j) = Some e1 /\ nth_error ents j = Some e2 /\
                                         e_term e1 <> e_term e2)
    else (Nat.min (length (C ++ p_log (n_p s)) - N.to_nat pi) (length ents) = 0%nat \/
          ((0 < Nat.min (length (C ++ p_log (n_p s)) - N.to_nat pi) (length ents))%nat /\
           agree (C ++ p_log (n_p s)) ents (N.to_nat pi)
                 (N.to_nat pi + Nat.min (length (C ++ p_log (n_p s)) - N.to_nat pi) (length ents) - 1))).
  Proof.
    intros Sh He Hpi PA.
    destruct (p_snap (n_p s)) as [m |] eqn:Es.
    2: { (* no snapshot: C = [] and the old lemma applies to the real node *)
         pose proof Sh as [W HC]. rewrite Es in HC. revert W Hpi PA. rewrite HC. simpl. intros W Hpi PA.
         intro Hc. destruct (conflict_index_spec s0 RT VQ LQ HLQ DC RSP s ents pi ci any Es W He Hpi Hc) as [Hne Hsp]. split; auto.
         destruct any; auto. destruct Hsp as [j [A1 [A2 [A3 [A4 A5]]]]]. exists j. repeat split; auto.
         unfold snapi. rewrite Es. lia. }
    pose proof Sh as [W Sx]. rewrite Es in Sx. destruct Sx as [S1 [S2 [S3 [S4 S5]]]].
    assert (Ei : snapi (n_p s) = sn_index m) by (unfold snapi; rewrite Es; reflexivity). rewrite Ei in *.
    set (L := C ++ p_log (n_p s)) in *. set (pin := N.to_nat pi) in *. set (i := sn_index m) in *.
    unfold conflict_index.
    destruct ents as [| e0 r] eqn:Ee; [discriminate|]. rewrite <- Ee in *.
    assert (Hne : ents <> []) by (rewrite Ee; discriminate).
    assert (Hi0 : e_index e0 = pi + 1) by (rewrite Ee in He; destruct He; auto).
    assert (Hlen : (0 < length ents)%nat) by (rewrite Ee; simpl; lia).
    rewrite (last_index_S _ _ _ Sh). fold L. rewrite Hi0.
    destruct (pi + 1 =? N.of_nat (length L) + 1) eqn:E1.
    { apply N.eqb_eq in E1. intro H. inversion H. split; auto. left. lia. }
    apply N.eqb_neq in E1.
    destruct (N.of_nat (length L) + 1 <? pi + 1) eqn:E2; [discriminate|]. apply N.ltb_ge in E2.
    rewrite Es. rewrite (last_ent_index_wf (pi + 1) ents He Hne). cbv zeta. fold i.
    assert (Hbelow : forall k, (pin <= k)%nat -> (k < N.to_nat i)%nat -> (k < length L)%nat -> (k - pin < length ents)%nat ->
                       agree L ents pin k).
    { intros k K1 K2 K3 K4. destruct (nth_error_ex L k K3) as [e1 X1]. destruct (nth_error_ex ents (k - pin) K4) as [e2 X2].
      exists e1, e2. repeat split; auto. apply (PA k e1 e2); auto. }
    set (ov := Nat.min (length L - pin) (length ents)).
    assert (Hov : (0 < ov)%nat) by (unfold ov, pin; lia).
    (* the answer "no conflict" is right whenever the last overlapping position is covered by the snapshot or was compared *)
    destruct (pi + 1 + N.of_nat (length ents) - 1 <=? i) eqn:E3.
    { apply N.leb_le in E3. intro H. inversion H. split; auto. right. split; auto.
      apply Hbelow; unfold ov, pin in *; lia. }
    apply N.leb_gt in E3.
    destruct (shape_phys _ _ _ Sh) as [_ Wp].
    destruct (log_last (p_log (n_p s))) as [lli |] eqn:Ell.
    2: { apply log_last_nil in Ell. intro H. inversion H. split; auto. right. split; auto.
         assert (HL : N.of_nat (length L) = i) by (unfold L in *; rewrite Ell, app_nil_r in *; lia).
         apply Hbelow; unfold ov, pin in *; lia. }
    assert (Hnl : p_log (n_p s) <> []) by (intro X; rewrite X in Ell; unfold log_last in Ell; simpl in Ell; discriminate).
    assert (Elli : lli = N.of_nat (length L)).
    { rewrite (log_last_wf (1 + N.of_nat (length C)) _ Wp Hnl) in Ell.
      assert (Y : 1 + N.of_nat (length C) + N.of_nat (length (p_log (n_p s))) - 1 = lli) by congruence.
      unfold L. rewrite app_length. lia. }
    subst lli.
    set (st := N.max (pi + 1) (i + 1)). set (en := N.min (N.of_nat (length L)) (pi + 1 + N.of_nat (length ents) - 1)).
    rewrite (log_entries_S _ _ _ Sh) by (unfold st; lia). fold L. cbv beta iota delta [bind].
    rewrite conflict_loop_shift.
    set (off := N.to_nat (st - (pi + 1))). set (stn := N.to_nat (st - 1)).
    set (cnt := if en <? st then 0%nat else N.to_nat (en - st + 1)).
    set (il := firstn (N.to_nat (en + 1 - st)) (skipn stn L)).
    assert (Hen : N.to_nat en = (pin + ov)%nat) by (unfold en, ov, pin; lia).
    assert (Hstn : stn = (pin + off)%nat) by (unfold stn, off, st, pin; lia).
    assert (Hil : forall j, (j < cnt)%nat -> nth_error il j = nth_error L (stn + j)).
    { intros j Hj. unfold il. rewrite nth_error_firstn'.
      assert (Hb : (j <? N.to_nat (en + 1 - st))%nat = true).
      { apply Nat.ltb_lt. unfold cnt in Hj. destruct (en <? st) eqn:Ex; [lia|]. apply N.ltb_ge in Ex. lia. }
      rewrite Hb. apply nth_error_skipn'. }
    assert (Hsk : forall j, nth_error (skipn off ents) j = nth_error ents (off + j)) by (intro j; apply nth_error_skipn').
    intro H. apply conflict_loop_spec in H. split; auto.
    destruct H as [[R A] | [j [a [b [Hj [A1 [A2 [A3 [A4 A5]]]]]]]]].
    - inversion R. subst ci any. right. split; auto. fold ov.
      destruct (en <? st) eqn:Ex.
      + apply N.ltb_lt in Ex. apply Hbelow; unfold st in Ex; unfold ov, pin in *; lia.
      + apply N.ltb_ge in Ex. unfold cnt in *. try rewrite Ex in *.
        destruct (nth_error_ex L (pin + ov - 1)) as [e1 X1]; [unfold ov; lia|].
        destruct (nth_error_ex ents (ov - 1)) as [e2 X2]; [unfold ov; lia|].
        exists e1, e2. replace (pin + ov - 1 - pin)%nat with (ov - 1)%nat by lia. repeat split; auto; try lia.
        symmetry. apply (A (N.to_nat (en - st))); [lia | |].
        * rewrite Hsk. rewrite <- X2. f_equal. lia.
        * rewrite Hil by lia. rewrite <- X1. f_equal. lia.
    - inversion A4. subst ci any. rewrite Hsk in A1.
      assert (Hjc : (j < cnt)%nat) by lia.
      assert (Hcnt : (stn + cnt <= pin + ov)%nat).
      { unfold cnt in *. destruct (en <? st) eqn:Ex; [lia|]. apply N.ltb_ge in Ex. lia. }
      exists (off + j)%nat.
      assert (Hlt1 : (off + j < length ents)%nat) by (apply nth_error_Some; congruence).
      split; [exact Hlt1|]. split; [unfold ov in *; lia|].
      split; [rewrite (wf_from_nth _ _ _ _ He A1); lia|].
      split; [rewrite (wf_from_nth _ _ _ _ He A1); unfold off, st; lia|].
      split.
      2: { exists b, a. split; [rewrite <- A2; symmetry; rewrite Hil by lia; f_equal; lia|]. split; auto. }
      destruct (Nat.eq_dec (off + j) 0) as [Z | Hj0]; [left; exact Z | right]. split; [lia|].
      destruct (Nat.eq_dec j 0) as [-> | Hjp].
      + (* the position before the first compared one is the snapshot position *)
        apply Hbelow; unfold off, st, ov, pin in *; lia.
      + destruct (nth_error_ex L (pin + (off + j) - 1)) as [e1 X1]; [unfold ov in *; lia|].
        destruct (nth_error_ex ents (off + j - 1)) as [e2 X2]; [lia|].
        exists e1, e2. replace (pin + (off + j) - 1 - pin)%nat with (off + j - 1)%nat by lia. repeat split; auto; try lia.
        symmetry. apply (A5 (j - 1)%nat); auto; [lia | |].
        * rewrite Hsk. rewrite <- X2. f_equal. lia.
        * rewrite Hil by lia. rewrite <- X1. f_equal. lia.
  Qed.

  (* ---------------------------------------------------------------- truncation and append seen through C *)
  Lemma c_le_snapi p cm : shape C p cm -> p_snap p <> None -> N.of_nat (length C) <= snapi p.
  Proof. intros [_ H] Hn. unfold snapi. destruct (p_snap p); [tauto | congruence]. Qed.

  Lemma trunc_L p cm k :
    shape C p cm -> N.of_nat (length C) <= k -> C ++ mem_truncate k (p_log p) = firstn (N.to_nat k) (C ++ p_log p).
  Proof.
    intros Sh Hk. destruct (shape_phys _ _ _ Sh) as [_ Wp].
    rewrite (mem_truncate_from _ _ _ Wp). rewrite firstn_app. rewrite (firstn_all2 C) by lia. f_equal. f_equal. lia.
  Qed.

  Lemma shape_trunc p cm k :
    shape C p cm -> N.of_nat (length C) <= k -> snapi p <= k -> shape C (apply_mut p (MTruncate k)) cm.
  Proof.
    intros Sh Hk Hi. pose proof Sh as [W Sx]. unfold shape. simpl. rewrite (trunc_L p cm k Sh Hk).
    split; [apply wf_from_firstn; exact W|].
    unfold snapi in Hi. destruct (p_snap p) as [m |]; [| exact Sx]. destruct Sx as [S1 [S2 [S3 [S4 S5]]]].
    split; [exact S1|]. split; [rewrite firstn_length; lia|]. split; [| auto].
    destruct S3 as [Z | [e [X1 X2]]]; [left; exact Z | right]. exists e. split; auto.
    rewrite nth_error_firstn'. assert (Hb : (N.to_nat (sn_index m - 1) <? N.to_nat k)%nat = true) by (apply Nat.ltb_lt; lia).
    rewrite Hb. exact X1.
  Qed.

  Lemma shape_append p cm es :
    shape C p cm -> wf_from (1 + N.of_nat (length (C ++ p_log p))) es ->
    mem_append (p_log p) es = (p_log p ++ es, true) /\ shape C (apply_mut p (MAppend es)) cm.
  Proof.
    intros Sh He. pose proof Sh as [W Sx]. destruct (shape_phys _ _ _ Sh) as [_ Wp].
    assert (Hma : mem_append (p_log p) es = (p_log p ++ es, true)).
    { apply (mem_append_wf_from es (1 + N.of_nat (length C))); auto.
      rewrite app_length in He. replace (1 + N.of_nat (length C) + N.of_nat (length (p_log p))) with (1 + N.of_nat (length C + length (p_log p))) by lia.
      exact He. }
    split; [exact Hma|]. unfold shape. simpl. rewrite Hma. simpl. rewrite app_assoc.
    split; [apply wf_from_app; split; [exact W | exact He]|].
    destruct (p_snap p) as [m |]; [| exact Sx]. destruct Sx as [S1 [S2 [S3 [S4 S5]]]].
    split; [exact S1|]. split; [rewrite app_length; lia|]. split; [apply term_at_app; exact S3 | auto].
  Qed.

  Lemma iS_resp s to su ix hi :
    iS s -> (su = true -> resp_ok RT (C ++ p_log (n_p s)) ix) -> iS (send s to (AppEntsResp su ix hi)).
  Proof.
    intros I H. apply iS_send; [exact I | reflexivity | | left; exact Logic.I].
    unfold mgood. simpl. destruct su; auto.
  Qed.

  Lemma fold_conf_commit (app : list entry) : forall y,
    n_commit (fold_left (fun a e => if e_type e =? EntryConf then set_conf a (decode_conf e) else a) app y) = n_commit y.
  Proof.
    induction app as [| e l IH]; intros y; simpl; auto. destruct (e_type e =? EntryConf); rewrite IH; reflexivity.
  Qed.

  Lemma postS_handle_app_ents s from pi pt cm oes :
    iS s -> n_msgs s = [] -> n_role s = Follower -> p_log (n_p s) = p_log (n_p s0r) -> in_ok inp RT (vn C s) pi pt oes -> ~ strongS s ->
    DC cm -> premS (n_p s) pi pt oes -> n_commit s = n_commit s0r ->
    postS (handle_app_ents s from pi pt cm oes).
  Proof.
    intros IS Hm Hr Hl [[Hrt0 Hrt] Hin] Hns Hdc [PT PA] Hcm0. pose proof IS as [I Sh]. unfold handle_app_ents.
    assert (Hfmc : forall x mi, iS x -> resp_ok RT (C ++ p_log (n_p x)) mi ->
                     postS (follower_maybe_commit (send x from (AppEntsResp true mi 0)) cm mi)).
    { intros x mi Ix Hok. eapply postS_follower_maybe_commit with (h := 0); [apply iS_resp; auto | exact Hdc | | ].
      - simpl. apply in_or_app. right. left. reflexivity.
      - reflexivity. }
    set (sc := set_follower_contact s).
    assert (Ic : iS sc) by (unfold sc; volS).
    pose proof (pure_has_entry (n_p sc) pi pt) as Pu.
    destruct (has_entry (n_p sc) pi pt) as [ok | |] eqn:Eh; [| exact Logic.I | contradiction].
    cbv beta iota delta [bind]. destruct ok; cbn [negb].
    2: { apply iS_resp; auto. discriminate. }
    assert (Hpt : pi <= N.of_nat (length (C ++ p_log (n_p s))) /\ term_at (C ++ p_log (n_p s)) pi pt).
    { destruct (has_entry_S C (n_p sc) (cmS sc) (proj2 Ic) pi pt Eh) as [[A B] | [m [Es [A B]]]]; [split; auto|].
      change (n_p sc) with (n_p s) in Es. split.
      - destruct Sh as [_ Sx]. rewrite Es in Sx. lia.
      - apply PT. unfold snapi. rewrite Es. exact B. }
    destruct Hpt as [Hpi Hta].
    destruct oes as [ents |].
    2: { apply Hfmc; auto.
         destruct Hta as [Z | [e [X1 X2]]]; [left; exact Z | right]. exists e. split; auto. rewrite X2. exact Hrt0. }
    destruct Hin as [Einp [Hwe Ht1]]. simpl in Einp, Ht1.
    pose proof (pure_conflict_index sc ents) as Pc.
    destruct (conflict_index sc ents) as [[ci any] | |] eqn:Ec; [| exact Logic.I | contradiction].
    apply (conflict_index_spec_S sc ents pi ci any (proj2 Ic) Hwe Hpi PA) in Ec.
    destruct Ec as [Hne Hspec].
    cbv beta iota delta [bind].
    assert (Hl' : C ++ p_log (n_p s) = C ++ p_log (n_p s0r)) by (rewrite Hl; reflexivity).
    assert (HwL : wf_from 1 (C ++ p_log (n_p s0r))) by (rewrite <- Hl'; apply (proj1 Sh)).
    change (p_log (n_p sc)) with (p_log (n_p s)) in *. change (n_p sc) with (n_p s) in *. rewrite Hl' in *.
    set (L0 := C ++ p_log (n_p s0r)) in *. set (pin := N.to_nat pi) in *.
    assert (HmV : n_msgs (vn C s) = []) by (simpl; rewrite Hm; reflexivity).
    assert (HlV : p_log (n_p (vn C s)) = p_log (n_p s0)) by (simpl; exact Hl').
    assert (HnsV : ~ strong s0 (vn C s)) by (intro X; apply Hns; apply strong_vn; exact X).
    assert (Hcm0V : n_commit (vn C s) = n_commit s0) by (simpl; exact Hcm0).
    eapply postSQ_bind with (Q := fun y => n_msgs y = [] /\ n_role y = Follower /\ p_term (n_p y) = p_term (n_p s) /\
                                          n_commit y = n_commit s /\
                                          exists c, C ++ p_log (n_p y) = firstn c L0 /\ qtrunc s0 (vn C s) pi pt ents c).
    - destruct any.
      + destruct Hspec as [j [Hj1 [Hj2 [Hci [Hsn [Hag Hmis]]]]]].
        assert (Hcf : conflict_at L0 {| ai_term := p_term (n_p s); ai_pi := pi; ai_pt := pt; ai_ents := ents |} (pin + j)).
        { unfold conflict_at. simpl. fold pin. split; [lia|]. destruct Hmis as [e1 [e2 [X1 [X2 X3]]]].
          exists e1, e2. replace (pin + j - pin)%nat with j by lia. auto. }
        assert (Hq : qtrunc s0 (vn C s) pi pt ents (pin + j)).
        { unfold qtrunc. simpl. fold L0. fold pin.
          split; [lia|]. split; [| split; [intro; lia | right; exact Hcf]]. intros _.
          destruct Hag as [-> | [Hj0 Hag]]; [left; lia | right]. split; [lia | exact Hag]. }
        assert (HcC : N.of_nat (length C) <= ci - 1).
        { destruct (p_snap (n_p s)) eqn:Es.
          - pose proof (c_le_snapi (n_p s) (cmS s) Sh) as X. rewrite Es in X. specialize (X ltac:(discriminate)). lia.
          - destruct Sh as [_ Sx]. rewrite Es in Sx. rewrite Sx. simpl. lia. }
        assert (Htr : C ++ mem_truncate (ci - 1) (p_log (n_p s)) = firstn (pin + j) L0).
        { rewrite (trunc_L (n_p s) (cmS s) (ci - 1) Sh HcC). rewrite Hl'. fold L0. f_equal. unfold pin. lia. }
        assert (Hsht : shape C (apply_mut (n_p s) (MTruncate (ci - 1))) (cmS s)).
        { apply shape_trunc; auto. lia. }
        destruct (do_mut_cases (MTruncate (ci - 1)) sc) as [E | E]; rewrite E; cbv beta iota delta [bind].
        * split; [| exists (cmS s); split; [exact Hsht | unfold cmS; lia]].
          eapply pinv_trunc with (s := vn C s) (c := (pin + j)%nat); eauto.
        * match goal with |- postSQ _ (match n_conf ?x with _ => _ end) => set (x1 := x) end.
          assert (Hy : forall y, n_p y = n_p x1 -> n_role y = Follower -> n_msgs y = [] -> n_commit y = n_commit s ->
                         iS y /\ (n_msgs y = [] /\ n_role y = Follower /\ p_term (n_p y) = p_term (n_p s) /\
                                    n_commit y = n_commit s /\
                                    exists c, C ++ p_log (n_p y) = firstn c L0 /\ qtrunc s0 (vn C s) pi pt ents c)).
          { intros y Py Ry My Cy. split; [split|].
            - eapply inv_trunc with (s := vn C s) (c := (pin + j)%nat); try eassumption; simpl;
                try (rewrite Py; first [exact Htr | reflexivity]); try (rewrite My; reflexivity); try (fold L0; lia); auto.
            - unfold shp, cmS in *. rewrite Py, Cy. exact Hsht.
            - repeat split; auto; [rewrite Py; reflexivity|]. exists (pin + j)%nat. split; [rewrite Py; exact Htr | exact Hq]. }
          destruct (n_conf x1) as [c0 |]; [destruct (ci <=? mb_index c0)|]; apply Hy; auto.
      + simpl. split; [exact Ic|]. repeat split; auto. exists (length L0). split; [rewrite firstn_all; exact Hl'|].
        unfold qtrunc. simpl. fold L0. fold pin.
        split; [lia|]. split; [| split; [| left; reflexivity]].
        * intro Hlt.
          assert (Hov : Nat.min (length L0 - pin) (length ents) = (length L0 - pin)%nat) by lia. rewrite Hov in Hspec.
          destruct Hspec as [Z | [Z Ag]]; [left; lia | right].
          split; [lia|]. replace (length L0 - 1)%nat with (pin + (length L0 - pin) - 1)%nat by lia. exact Ag.
        * intro Hge.
          assert (Hlen0 : (0 < length ents)%nat) by (destruct ents; [congruence | simpl; lia]).
          assert (Hov : Nat.min (length L0 - pin) (length ents) = length ents) by lia. rewrite Hov in Hspec.
          destruct Hspec as [Z | [Z Ag]]; [lia | exact Ag].
    - intros y ISy [My [Ry [Ty [Cy [c [Ly Qc]]]]]]. pose proof ISy as [Iy Shy].
      assert (Hc : (pin <= c <= length L0)%nat) by (destruct Qc as [B _]; exact B).
      rewrite (last_index_S _ _ _ Shy). rewrite Ly.
      rewrite firstn_length, Nat.min_l by lia.
      rewrite (last_ent_index_wf (pi + 1) ents Hwe Hne).
      assert (Hlen0 : (0 < length ents)%nat) by (destruct ents; [congruence | simpl; lia]).
      assert (HrtL : forall e2, nth_error ents (length ents - 1) = Some e2 -> RT (pi + 1 + N.of_nat (length ents) - 1) (e_term e2)).
      { intros e2 X2.
        replace (pi + 1 + N.of_nat (length ents) - 1) with (pi + N.of_nat (length ents - 1) + 1) by lia. apply (Hrt _ _ X2). }
      destruct (pi + 1 + N.of_nat (length ents) - 1 <=? N.of_nat c) eqn:E.
      { apply Hfmc; auto. right.
        apply N.leb_le in E. destruct Qc as [_ [_ [Q3 _]]].
        destruct (Q3 ltac:(unfold pin; lia)) as [e1 [e2 [X1 [X2 [X3 X4]]]]].
        exists e1. split.
        - rewrite Ly. rewrite nth_error_firstn'.
          assert (Hb : (N.to_nat (pi + 1 + N.of_nat (length ents) - 1 - 1) <? c)%nat = true) by (apply Nat.ltb_lt; lia).
          rewrite Hb. rewrite <- X1. f_equal. unfold pin. lia.
        - rewrite X4. apply HrtL. rewrite <- X2. f_equal. lia. }
      apply N.leb_gt in E.
      assert (Hlt : (c < pin + length ents)%nat) by (unfold pin; lia).
      destruct ents as [| e0 r] eqn:Ee; [congruence|]. rewrite <- Ee in *.
      assert (Hi0 : e_index e0 = pi + 1) by (rewrite Ee in Hwe; destruct Hwe; auto).
      rewrite Hi0.
      destruct (N.of_nat (length ents) <? N.of_nat c + 1 - (pi + 1)); [exact Logic.I|].
      replace (N.to_nat (N.of_nat c + 1 - (pi + 1))) with (c - pin)%nat by (unfold pin; lia).
      destruct (skipn (c - pin) ents) as [| a0 ar] eqn:Eapp; [exact Logic.I|].
      destruct (negb (e_index a0 =? N.of_nat c + 1)); [exact Logic.I|].
      match goal with |- context [log_append ?x _] => set (s2 := x) end.
      destruct (fold_conf_same (a0 :: ar) y) as [P2 [R2 M2]]. fold s2 in P2, R2, M2.
      assert (Hc2 : n_commit s2 = n_commit y) by (unfold s2; apply fold_conf_commit).
      assert (Hwa : wf_from (1 + N.of_nat (length (C ++ p_log (n_p y)))) (a0 :: ar)).
      { rewrite Ly, <- Eapp. rewrite firstn_length, Nat.min_l by lia.
        replace (1 + N.of_nat c) with (pi + 1 + N.of_nat (c - pin)) by (unfold pin; lia). apply wf_from_skipn. exact Hwe. }
      destruct (shape_append (n_p y) (cmS y) (a0 :: ar) Shy Hwa) as [Hma Sha].
      assert (HLa : C ++ (p_log (n_p y) ++ a0 :: ar) = firstn c L0 ++ skipn (c - pin) ents).
      { rewrite app_assoc, Ly, Eapp. reflexivity. }
      unfold log_append. rewrite P2, Hma. cbv beta iota delta [snd].
      destruct (do_mut_cases (MAppend (a0 :: ar)) s2) as [E2 | E2]; rewrite E2; cbv beta iota delta [bind].
      + split; [| exists (cmS y); split; [rewrite P2; exact Sha | unfold cmS; lia]].
        eapply pinv_merged with (s := vn C s) (c := c); eauto.
        * change (C ++ fst (mem_append (p_log (n_p s2)) (a0 :: ar)) = firstn c L0 ++ skipn (c - pin) ents).
          rewrite P2, Hma. exact HLa.
        * simpl. rewrite P2. exact Ty.
      + apply Hfmc.
        * split.
          -- eapply inv_merged with (s := vn C s) (c := c); eauto.
             ++ simpl. rewrite Hc2. exact Cy.
             ++ change (C ++ fst (mem_append (p_log (n_p s2)) (a0 :: ar)) = firstn c L0 ++ skipn (c - pin) ents).
                rewrite P2, Hma. exact HLa.
             ++ simpl. rewrite P2. exact Ty.
             ++ simpl. rewrite R2. exact Ry.
             ++ simpl. rewrite M2, My. reflexivity.
          -- unfold shp, cmS in *. simpl. rewrite P2, Hc2. exact Sha.
        * right.
          destruct (nth_error_ex ents (length ents - 1)) as [e2 X2]; [lia|].
          exists e2. split; [| apply HrtL; exact X2].
          match goal with |- nth_error ?l _ = _ => change l with (C ++ fst (mem_append (p_log (n_p s2)) (a0 :: ar))) end.
          rewrite P2, Hma. cbv beta iota delta [fst]. rewrite HLa.
          rewrite nth_error_app2 by (rewrite firstn_length; lia).
          rewrite firstn_length, Nat.min_l by lia. rewrite nth_error_skipn'. rewrite <- X2. f_equal. unfold pin. lia.
  Qed.

  (* ---------------------------------------------------------------- follower *)
  Lemma postSQ_follower_note_leader s from :
    iS s -> postSQ (fun s1 => samevS s s1 /\ n_commit s1 = n_commit s) (follower_note_leader s from).
  Proof.
    intro I. unfold follower_note_leader.
    eapply postSQ_bindQ with (Q := fun s1 => samevS s s1 /\ n_commit s1 = n_commit s).
    - destruct (p_vote (n_p s) =? 0).
      + apply postSQ_do_mut_light; auto; exact Logic.I.
      + apply postSQ_ret; auto using samevS_refl.
    - intros s1 I1 [S1 C1]. destruct (n_leader s1 =? 0).
      + apply postSQ_ret; [volS|]. split; [| simpl; exact C1].
        eapply samevS_trans; [exact S1|]. unfold samevS; simpl; repeat split; try reflexivity; try lia.
      + destruct (negb (n_leader s1 =? from)); [exact Logic.I | apply postSQ_ret; auto].
  Qed.

  Definition mcondS (s : node) (m : msg) : Prop :=
    mcond inp RT VQ DC RSP (vn C s) m /\
    match m_body m with AppEnts pi pt _ oes => premS (n_p s) pi pt oes | _ => True end.

  Lemma can_grant_uptodate_S s from li lt :
    shp s -> can_grant_vote s from li lt = Ret true -> uptodate (C ++ p_log (n_p s)) li lt.
  Proof.
    intros Sh. unfold can_grant_vote.
    destruct (negb (p_vote (n_p s) =? 0) && negb (p_vote (n_p s) =? from)); [discriminate|].
    rewrite (last_index_S _ _ _ Sh).
    destruct (st_term (n_p s) (N.of_nat (length (C ++ p_log (n_p s))))) as [[ltv ok] | |] eqn:E; simpl; try discriminate.
    destruct (st_term_S _ _ _ Sh _ _ _ E) as [[Ok [_ [Z Ta]]] | [Ok [X1 [X2 [m [Es X3]]]]]].
    2: { exfalso. destruct Sh as [_ Sx]. rewrite Es in Sx. rewrite app_length in *. lia. }
    subst ok. simpl.
    assert (El : ltv = last_term (C ++ p_log (n_p s))).
    { apply last_term_at; [exact Ta|]. intro X. apply Z. rewrite X. reflexivity. }
    intro H. inversion H as [H1]. unfold uptodate. rewrite <- El.
    apply orb_true_iff in H1. destruct H1 as [H1 | H1].
    - left. apply N.ltb_lt. exact H1.
    - right. apply andb_true_iff in H1. destruct H1 as [A B]. apply N.eqb_eq in A. apply N.leb_le in B. auto.
  Qed.

  Lemma postS_handle_follower s m :
    iS s -> n_msgs s = [] -> n_role s = Follower -> p_log (n_p s) = p_log (n_p s0r) -> mcondS s m -> ~ strongS s ->
    n_commit s = n_commit s0r ->
    postS (handle_follower s m).
  Proof.
    intros IS Hm Hr Hl [Hc Hp] Hns Hcm0. pose proof IS as [I Sh]. unfold handle_follower. unfold mcond in Hc.
    destruct (m_body m) as [pi pt cm0 ents | su ix hi | lidx ltrm | granted | sli slt scf].
    - destruct Hc as [Hdc Hc]. eapply postSQ_bind; [apply postSQ_follower_note_leader; auto|].
      intros s1 I1 [[A1 [A0 [A2 [A3 [A4 [A5 [A6 [A7 A8]]]]]]]] Ac1]. apply postS_handle_app_ents; auto; try congruence.
      + unfold in_ok in *. destruct Hc as [Hc0 Hc]. split; auto. destruct ents; auto. simpl in *. rewrite A2. exact Hc.
      + unfold strong in *. rewrite A2. exact Hns.
      + unfold premS, snapi in *. rewrite A1, A0. exact Hp.
    - simpl. exact IS.
    - apply postS_bind_pure; [apply pure_can_grant_vote|]. intros g Hg.
      eapply postSQ_bind with (Q := samevS s).
      + destruct g.
        * eapply postSQ_mono; [| apply postSQ_do_mut_light; auto; exact Logic.I]. intros x [X _]. exact X.
        * apply postSQ_ret; auto using samevS_refl.
      + intros s1 I1 [S1 _]. simpl. apply iS_send; [exact I1 | reflexivity | | left; exact Logic.I].
        unfold mgood. simpl. destruct g; [| exact Logic.I]. rewrite S1. apply Hc.
        apply (can_grant_uptodate_S s (m_from m) lidx ltrm Sh Hg).
    - simpl. exact IS.
    - contradiction.
  Qed.

  (* ---------------------------------------------------------------- candidate *)
  Lemma fold_send_iS (ms : list nid) li lt : forall s,
    iS s -> no_appents (n_msgs (vn C s)) -> li = N.of_nat (length (C ++ p_log (n_p s))) -> lt = last_term (C ++ p_log (n_p s)) ->
    LQ (C ++ p_log (n_p s)) (p_term (n_p s)) ->
    let s' := fold_left (fun a m => if m =? n_id a then a else send a m (VoteReq li lt)) ms s in
    iS s' /\ no_appents (n_msgs (vn C s')) /\ n_role s' = n_role s.
  Proof.
    induction ms as [| m r IH]; intros s I Na Hli Hlt Hlq; simpl; auto.
    destruct (m =? n_id s); [apply IH; auto|].
    destruct (IH (send s m (VoteReq li lt))) as [A [B D]]; auto.
    - apply iS_send; [exact I | reflexivity | unfold mgood; simpl; auto | left; exact Logic.I].
    - rewrite vn_send by reflexivity. simpl. apply no_appents_app. split; auto. constructor; [| constructor]. unfold is_appents. simpl. auto.
  Qed.

  Lemma postS_become_candidate s :
    iS s -> n_msgs s = [] -> p_log (n_p s) = p_log (n_p s0r) -> n_role s <> Leader -> n_commit s = n_commit s0r ->
    postS (become_candidate s).
  Proof.
    intros IS Hm Hl Hnl Hcm. pose proof IS as [I Sh]. unfold become_candidate, enter_candidate.
    set (sr := set_role s Candidate 0 0).
    destruct (negb (in_latest_conf sr) && latest_conf_committed sr) eqn:Econd.
    { simpl. eapply iS_follower with (s := s); eauto; try reflexivity. right. split; [simpl; rewrite Hm; constructor | exact Hnl]. }
    assert (Hconf : n_conf s <> None).
    { intro X. unfold in_latest_conf, latest_conf_committed in Econd. simpl in Econd. rewrite X in Econd. discriminate. }
    assert (Ht1 : 1 <= p_term (n_p s)).
    { destruct (v_n1 _ _ _ _ _ _ _ _ _ I) as [[_ X] | X]; [contradiction | exact X]. }
    assert (HlV : C ++ p_log (n_p s) = C ++ p_log (n_p s0r)) by (rewrite Hl; reflexivity).
    set (sc := set_candidate sr (c_timeout sr) []).
    destruct (do_mut_cases (MSaveState (n_id sc) (p_term (n_p sc) + 1)) sc) as [E | E]; rewrite E; cbv beta iota delta [bind].
    - split.
      + destruct I. constructor; simpl; auto.
        * right. lia.
        * simpl in *. lia.
        * unfold LR. cbv zeta. left. simpl. exact HlV.
      + exists (cmS s). split; [eapply shape_ext; [| | apply N.le_refl | exact Sh]; reflexivity | unfold cmS; lia].
    - match goal with |- context [in_latest_conf ?x] => set (x1 := x) end.
      assert (I1 : iS x1).
      { split.
        - destruct I. constructor; simpl; auto.
          + right. lia.
          + intros _. simpl in *. lia.
          + simpl in *. lia.
          + intro X. simpl in *. lia.
          + unfold LR. cbv zeta. left. simpl. exact HlV.
          + left. rewrite Hm. constructor.
          + apply ext_reset; simpl; auto; [rewrite Hm; reflexivity | discriminate].
        - unfold shp. simpl. eapply shape_ext; [| | apply N.le_refl | exact Sh]; reflexivity. }
      set (s2 := if in_latest_conf x1 then set_candidate x1 (c_timeout x1) (set_add (n_id x1) (c_votes x1)) else x1).
      assert (I2 : iS s2 /\ n_msgs s2 = [] /\ n_role s2 = Candidate).
      { unfold s2. destruct (in_latest_conf x1); (split; [first [exact I1 | volS] | split; [exact Hm | reflexivity]]). }
      destruct I2 as [I2 [M2 R2]]. pose proof I2 as [I2v Sh2].
      apply postS_bind_pure; [apply pure_st_term|]. intros [lt ok] Hst.
      assert (Hli : last_index (n_p s2) = N.of_nat (length (C ++ p_log (n_p s2)))) by (apply (last_index_S _ _ _ Sh2)).
      assert (Hokl : ok = true /\ lt = last_term (C ++ p_log (n_p s2))).
      { rewrite Hli in Hst. destruct (st_term_S _ _ _ Sh2 _ _ _ Hst) as [[Ok [_ [Z Ta]]] | [Ok [X1 [X2 [m [Es X3]]]]]].
        - split; auto. apply last_term_at; [exact Ta|]. intro X. apply Z. rewrite X. reflexivity.
        - exfalso. destruct Sh2 as [_ Sx]. rewrite Es in Sx. rewrite app_length in *. lia. }
      destruct Hokl as [Hok Hlt]. subst ok.
      assert (Hlq2 : LQ (C ++ p_log (n_p s2)) (p_term (n_p s2))).
      { assert (E1 : C ++ p_log (n_p s2) = C ++ p_log (n_p s0r)) by (unfold s2; destruct (in_latest_conf x1); exact HlV).
        assert (E2 : p_term (n_p s2) = p_term (n_p s) + 1) by (unfold s2; destruct (in_latest_conf x1); reflexivity).
        rewrite E1, E2. apply HLQ. pose proof (v_tm _ _ _ _ _ _ _ _ _ I). simpl in *. lia. }
      cbn [negb]. destruct (n_conf s2); [| exact Logic.I].
      match goal with |- postS (check_if_elected (set_candidate ?x _ _)) =>
        destruct (fold_send_iS (mb_members m) (last_index (n_p s2)) lt s2 I2) as [A [B D]];
          [simpl; rewrite M2; constructor | exact Hli | exact Hlt | exact Hlq2 |];
        apply postS_check_if_elected; [eapply iS_vol with (s := x); auto | simpl; congruence | exact B] end.
  Qed.

  Lemma postS_handle_candidate s m :
    iS s -> n_msgs s = [] -> n_role s = Candidate -> postS (handle_candidate s m).
  Proof.
    intros I Hm Hr. unfold handle_candidate.
    assert (Na : no_appents (n_msgs (vn C s))) by (simpl; rewrite Hm; constructor).
    assert (Hnl : n_role s <> Leader) by congruence.
    destruct (m_body m); simpl; auto.
    - eapply iS_follower with (s := s); eauto.
    - apply iS_send; [exact I | reflexivity | exact Logic.I | left; exact Logic.I].
    - destruct granted; [| simpl; auto]. apply postS_check_if_elected; auto. volS.
    - eapply iS_follower with (s := s); eauto.
  Qed.

  Lemma postS_handle_by_role s m :
    iS s -> n_msgs s = [] -> p_log (n_p s) = p_log (n_p s0r) -> mcondS s m -> (n_role s = Leader -> strongS s) ->
    (n_role s = n_role s0r \/ p_term (n_p s) <> p_term (n_p s0r)) -> n_commit s = n_commit s0r ->
    postS (handle_by_role s m).
  Proof.
    intros I Hm Hl Hc Hs Hd Hcm0. unfold handle_by_role. destruct (n_role s) eqn:Er.
    - apply postS_handle_follower; auto. intros [X Y]. simpl in *. destruct Hd; congruence.
    - apply postS_handle_candidate; auto.
    - apply postS_handle_leader; auto. destruct Hc as [Hc _]. unfold mcond in Hc. destruct (m_body m); auto.
  Qed.

  (* ---------------------------------------------------------------- HandleMsg *)
  Definition mok3S (m : msg) : Prop :=
    mok3 inp RT VQ DC RSP m /\
    match m_body m with AppEnts pi pt _ oes => p_term (n_p s0r) <= m_term m -> premS (n_p s0r) pi pt oes | _ => True end.

  Lemma premS_ext p p' pi pt oes : p_log p' = p_log p -> p_snap p' = p_snap p -> premS p pi pt oes -> premS p' pi pt oes.
  Proof. unfold premS, snapi. intros A B. rewrite A, B. auto. Qed.

  Lemma postS_handle_msg s m :
    iS s -> n_msgs s = [] -> p_log (n_p s) = p_log (n_p s0r) -> p_snap (n_p s) = p_snap (n_p s0r) ->
    n_role s = n_role s0r -> p_term (n_p s) = p_term (n_p s0r) -> n_commit s = n_commit s0r ->
    mok3S m -> postS (handle_msg s m).
  Proof.
    intros IS Hm Hl Hsn Hr Ht Hcm [Hk Hpr]. unfold handle_msg.
    match goal with |- postS (if ?c then _ else _) => destruct c end; [simpl; auto|].
    match goal with |- postS (if ?c then _ else _) => destruct c end; [simpl; auto|].
    eapply postSQ_bind with (Q := fun s1 => samevS s s1 /\ n_commit s1 = n_commit s).
    - match goal with |- postSQ _ (if ?c then _ else _) => destruct c end;
        [apply postSQ_do_mut_light; auto; exact Logic.I | apply postSQ_ret; auto using samevS_refl].
    - intros s1 IS1 [[A1 [A0 [A2 [A3 [A4 [A5 [A6 [A7 A8]]]]]]]] Ac]. pose proof IS1 as [I1 Sh1].
      assert (Hc1 : mcondS s1 m -> True) by auto.
      assert (Hprem1 : forall x, p_term (n_p s0r) <= m_term m -> p_log (n_p x) = p_log (n_p s1) -> p_snap (n_p x) = p_snap (n_p s1) ->
                        match m_body m with AppEnts pi pt _ oes => premS (n_p x) pi pt oes | _ => True end).
      { intros x X0 X1 X2. destruct (m_body m); auto. eapply premS_ext; [| | exact (Hpr X0)]; congruence. }
      match goal with |- postS (if ?c then _ else _) => destruct c end; [simpl; auto|].
      destruct (m_term m <? p_term (n_p s1)) eqn:Elt; [simpl; auto|]. apply N.ltb_ge in Elt.
      destruct (p_term (n_p s1) <? m_term m) eqn:Egt.
      + apply N.ltb_lt in Egt.
        assert (Hsave : forall v l,
                  postS (s2 <- (s' <- do_mut (MSaveState v (m_term m)) s1 ;; Ret (become_follower s' l)) ;; handle_by_role s2 m)).
        { intros v l.
          destruct (do_mut_cases (MSaveState v (m_term m)) s1) as [E | E]; rewrite E; cbv beta iota delta [bind].
          - split.
            + destruct I1. constructor; simpl; auto.
              * right. simpl in *. lia.
              * simpl in *. lia.
              * unfold LR. cbv zeta. left. simpl. congruence.
            + exists (cmS s1). split; [eapply shape_ext; [| | apply N.le_refl | exact Sh1]; reflexivity | unfold cmS; lia].
          - apply postS_handle_by_role.
            + split.
              * destruct I1. constructor; simpl; auto.
                -- right. simpl in *. lia.
                -- intro X. congruence.
                -- simpl in *. lia.
                -- unfold LR. cbv zeta. left. simpl. congruence.
                -- left. rewrite A4, Hm. constructor.
                -- apply ext_reset; simpl; [congruence | rewrite A4, Hm; reflexivity | discriminate].
              * unfold shp. simpl. eapply shape_ext; [| | apply N.le_refl | exact Sh1]; reflexivity.
            + simpl. congruence.
            + simpl. congruence.
            + split; [apply mok3_mcond; auto | apply Hprem1; [lia | reflexivity | reflexivity]].
            + simpl. discriminate.
            + right. simpl. lia.
            + simpl. congruence. }
        destruct (m_body m); try exact Logic.I; apply Hsave.
      + apply N.ltb_ge in Egt. cbv beta iota delta [bind].
        apply postS_handle_by_role; auto; try congruence.
        * split; [apply mok3_mcond; auto; simpl; lia | apply Hprem1; [lia | reflexivity | reflexivity]].
        * intro X. split; simpl; congruence.
        * left. congruence.
  Qed.

  (* ---------------------------------------------------------------- Tick, Propose, Bootstrap *)
  Lemma postS_tick s :
    iS s -> n_msgs s = [] -> p_log (n_p s) = p_log (n_p s0r) -> n_role s = n_role s0r -> p_term (n_p s) = p_term (n_p s0r) ->
    n_commit s = n_commit s0r ->
    postS (tick s).
  Proof.
    intros I Hm Hl Hr Ht Hcm. unfold tick.
    set (s1 := set_elapsed s ((n_elapsed s + 1) mod 4294967296)).
    assert (I1 : iS s1) by (unfold s1; volS).
    destruct (n_role s1) eqn:Er.
    - match goal with |- postS (if ?c then _ else _) => destruct c end; [apply postS_become_candidate; auto; congruence | simpl; auto].
    - match goal with |- postS (if ?c then _ else _) => destruct c end; [apply postS_become_candidate; auto; congruence | simpl; auto].
    - apply postS_tick_leader; auto. split; [simpl in *; congruence | exact Ht].
  Qed.

  Lemma postS_log_append_leader s es :
    iS s -> strongS s -> n_role s = Leader -> p_log (n_p s) = p_log (n_p s0r) -> n_msgs s = [] -> n_commit s = n_commit s0r ->
    postSQ (fun x => strongS x /\ n_role x = Leader) (log_append s (stamp es (last_index (n_p s) + 1) (p_term (n_p s)))).
  Proof.
    intros IS St Hrl Hl Hmsg Hcm. pose proof IS as [I Sh]. unfold log_append.
    rewrite (last_index_S _ _ _ Sh).
    set (Lv := C ++ p_log (n_p s)) in *.
    destruct (stamp_wf es (N.of_nat (length Lv) + 1) (p_term (n_p s))) as [Ws Ts].
    set (new := stamp es (N.of_nat (length Lv) + 1) (p_term (n_p s))) in *.
    assert (Ws' : wf_from (1 + N.of_nat (length Lv)) new) by (rewrite N.add_comm; exact Ws).
    destruct (shape_append (n_p s) (cmS s) new Sh Ws') as [Hma Sha]. rewrite Hma. cbv beta iota delta [snd].
    assert (HlV : Lv = C ++ p_log (n_p s0r)) by (unfold Lv; rewrite Hl; reflexivity).
    assert (HLR : forall p r, p_log p = Lv ++ new -> p_term p = p_term (n_p s) -> LR s0 inp boot p r).
    { intros p r Lp Tp. unfold LR. cbv zeta. right. right. right. left. destruct St as [S1 S2]. simpl in *.
      split; auto. split; [congruence|]. exists new. split; [congruence|]. rewrite <- S2. exact Ts. }
    assert (Hw' : wf_from 1 (Lv ++ new)).
    { apply wf_from_app. split; [apply (proj1 Sh) | exact Ws']. }
    assert (Ht1 : 1 <= p_term (n_p s)).
    { assert (2 <= p_term (n_p s)) by (apply (v_n2 _ _ _ _ _ _ _ _ _ I); simpl; congruence). lia. }
    assert (HLa : C ++ fst (mem_append (p_log (n_p s)) new) = Lv ++ new).
    { rewrite Hma. simpl. unfold Lv. rewrite app_assoc. reflexivity. }
    destruct (do_mut_cases (MAppend new) s) as [E | E]; rewrite E; cbv beta iota delta [bind].
    - split; [| exists (cmS s); split; [exact Sha | unfold cmS; lia]].
      destruct I. constructor.
      + reflexivity.
      + change (wf_from 1 (C ++ fst (mem_append (p_log (n_p s)) new))). rewrite HLa. exact Hw'.
      + right. exact Ht1.
      + exact v_tm.
      + apply HLR; [exact HLa | reflexivity].
    - split; [| split; [unfold strong in *; simpl; exact St | simpl; exact Hrl]].
      split; [| unfold shp, cmS in *; simpl; exact Sha].
      destruct I. constructor.
      + reflexivity.
      + change (wf_from 1 (C ++ fst (mem_append (p_log (n_p s)) new))). rewrite HLa. exact Hw'.
      + right. exact Ht1.
      + exact v_n2.
      + exact v_tm.
      + exact v_rt.
      + apply HLR; [exact HLa | reflexivity].
      + simpl. rewrite Hmsg. constructor.
      + left. simpl. rewrite Hmsg. constructor.
      + destruct v_ext as [E1 [E2 [E3 E4]]]. unfold ext. simpl. split; [rewrite Hmsg; constructor|]. split; [exact E2|].
        split; [left; rewrite Hcm; apply N.le_refl | exact E4].
  Qed.

  Lemma postS_leader_propose s es :
    iS s -> strongS s -> n_role s = Leader -> p_log (n_p s) = p_log (n_p s0r) -> n_msgs s = [] -> n_commit s = n_commit s0r ->
    postS (leader_propose s es).
  Proof.
    intros I St Hrl Hl Hmsg Hcm. unfold leader_propose.
    eapply postSQ_bind; [apply postS_log_append_leader; auto|]. intros s1 I1 [St1 Rl1].
    eapply postSQ_bind with (Q := fun x => strongS x /\ n_role x = Leader).
    - apply postS_for_peers; auto. intros s3 p I3 [St3 Rl3] Hp.
      match goal with |- postSQ _ (if ?c then _ else _) => destruct c end; [| apply postSQ_ret; auto].
      eapply postSQ_mono; [| apply postSQ_send_app_ents; [exact I3 | right; apply strong_vn; exact St3 | exists p; auto]].
      intros x Hx. split; [eapply sameL_strong; eauto | destruct Hx as [_ [_ [Rx _]]]; congruence].
    - intros s2 I2 [St2 Rl2]. destruct (l_peers s2); [| simpl; auto].
      eapply postSQ_postS. apply postS_leader_maybe_commit_strong; auto.
  Qed.

  Lemma postS2_propose s es :
    iS s -> p_log (n_p s) = p_log (n_p s0r) -> n_role s = n_role s0r -> p_term (n_p s) = p_term (n_p s0r) -> n_msgs s = [] ->
    n_commit s = n_commit s0r ->
    postS2 (propose s es).
  Proof.
    intros I Hl Hr Ht Hmsg Hcm. unfold propose. destruct (n_role s) eqn:Er; simpl; auto.
    apply postS2_of_postS. apply postS_leader_propose; auto. split; simpl; congruence.
  Qed.

  Lemma postS2_bootstrap s ms ep :
    iS s -> n_msgs s = [] -> p_log (n_p s) = p_log (n_p s0r) -> n_role s = n_role s0r -> n_commit s = n_commit s0r ->
    boot = Some (boot_entry ms ep) ->
    postS2 (propose_initial_membership s ms ep).
  Proof.
    intros IS Hm Hl Hrr Hcm Hb. pose proof IS as [I Sh]. unfold propose_initial_membership.
    destruct (n_role s) eqn:Er; try (simpl; exact IS).
    destruct (is_clean (n_p s)) eqn:Ec; [| simpl; exact IS].
    assert (Hlog : p_log (n_p s) = []).
    { unfold is_clean in Ec. destruct (p_log (n_p s)); [reflexivity | discriminate]. }
    assert (Hsnap : p_snap (n_p s) = None).
    { unfold is_clean in Ec. rewrite Hlog in Ec. destruct (p_snap (n_p s)); [discriminate | reflexivity]. }
    assert (HC : C = []) by (destruct Sh as [_ Sx]; rewrite Hsnap in Sx; exact Sx).
    destruct (is_clean_zero _ Ec) as [Z1 Z2].
    fold (boot_entry ms ep). set (e := boot_entry ms ep) in *.
    assert (HL0 : C ++ p_log (n_p s0r) = []) by (rewrite <- Hl, Hlog, HC; reflexivity).
    assert (HLs : C ++ p_log (n_p s) = []) by (rewrite Hlog, HC; reflexivity).
    assert (Hwe : wf_from 1 [e]) by (simpl; auto).
    destruct (do_mut_cases (MSaveState 0 1) s) as [E | E]; rewrite E; cbv beta iota delta [bind].
    - split.
      + destruct I. constructor; simpl; auto.
        * simpl in *. lia.
        * unfold LR. cbv zeta. left. simpl. rewrite Hl. reflexivity.
      + exists (cmS s). split; [eapply shape_ext; [| | apply N.le_refl | exact Sh]; reflexivity | unfold cmS; lia].
    - match goal with |- context [log_append ?x _] => set (x1 := x) end.
      unfold log_append.
      assert (Hma : mem_append (p_log (n_p x1)) [e] = ([e], true)).
      { change (p_log (n_p x1)) with (p_log (n_p s)). rewrite Hlog. reflexivity. }
      rewrite Hma. cbv beta iota delta [snd].
      assert (HLR : forall p, p_log p = [e] -> LR s0 inp boot p Follower).
      { intros p Lp. unfold LR. cbv zeta. right. right. left. split; auto. split; [intros [X _]; simpl in X; congruence|].
        exists e. repeat split; auto. }
      assert (HLa : C ++ fst (mem_append (p_log (n_p x1)) [e]) = [e]) by (rewrite Hma, HC; reflexivity).
      assert (Hsha : forall cm, shape C (apply_mut (n_p x1) (MAppend [e])) cm).
      { intro cm. unfold shape. simpl p_snap. rewrite Hsnap. split; [| exact HC].
        change (wf_from 1 (C ++ fst (mem_append (p_log (n_p x1)) [e]))). rewrite HLa. exact Hwe. }
      destruct (do_mut_cases (MAppend [e]) x1) as [E2 | E2]; rewrite E2; cbv beta iota delta [bind].
      + split; [| exists (cmS s); split; [apply Hsha | unfold cmS; lia]].
        destruct I. constructor.
        * reflexivity.
        * change (wf_from 1 (C ++ fst (mem_append (p_log (n_p x1)) [e]))). rewrite HLa. exact Hwe.
        * right. simpl. lia.
        * simpl in *. lia.
        * apply HLR. exact HLa.
      + cbv beta iota delta [postS2]. split; [| unfold shp; apply Hsha].
        destruct I. constructor.
        * reflexivity.
        * change (wf_from 1 (C ++ fst (mem_append (p_log (n_p x1)) [e]))). rewrite HLa. exact Hwe.
        * right. simpl. lia.
        * simpl. intro X. congruence.
        * simpl in *. lia.
        * simpl. intros _. right. left. exact Er.
        * change (LR s0 inp boot (vp C (apply_mut (n_p x1) (MAppend [e]))) (n_role s)). rewrite Er. apply HLR. exact HLa.
        * simpl. rewrite Hm. constructor.
        * left. simpl. rewrite Hm. constructor.
        * apply ext_reset; simpl; [exact Hcm | rewrite Hm; reflexivity | congruence].
  Qed.

  (* ---------------------------------------------------------------- newCore on a store with snapshot *)
  Lemma reconcile_shape id cfg p cm : shape C p cm -> reconcile (blank_node id cfg p) = Ret (blank_node id cfg p).
  Proof.
    intros Sh. unfold reconcile. simpl n_p.
    destruct (p_snap p) as [m |] eqn:Es; [| reflexivity].
    pose proof Sh as [W Sx]. rewrite Es in Sx. destruct Sx as [S1 [S2 [S3 [S4 S5]]]].
    destruct (shape_phys _ _ _ Sh) as [_ Wp].
    destruct (log_first (p_log p)) as [fi |] eqn:Ef; [| reflexivity].
    destruct (log_last (p_log p)) as [li |] eqn:Ell; [| reflexivity].
    assert (Hne : p_log p <> []) by (intro X; rewrite X in Ef; discriminate).
    rewrite (log_first_wf _ _ Wp Hne) in Ef. rewrite (log_last_wf _ _ Wp Hne) in Ell.
    assert (Efi : fi = 1 + N.of_nat (length C)) by congruence.
    assert (Eli : li = N.of_nat (length (C ++ p_log p))) by (rewrite app_length; assert (Y : 1 + N.of_nat (length C) + N.of_nat (length (p_log p)) - 1 = li) by congruence; lia).
    subst fi li.
    assert (X1 : ((N.of_nat (length (C ++ p_log p)) <? sn_index m) || (sn_index m + 1 <? 1 + N.of_nat (length C))) = false).
    { apply orb_false_iff. split; apply N.ltb_ge; lia. }
    rewrite X1.
    destruct (1 + N.of_nat (length C) <=? sn_index m) eqn:X2; [| reflexivity]. apply N.leb_le in X2.
    rewrite (log_term_S _ _ _ Sh) by lia.
    destruct S3 as [Z | [e [Y1 Y2]]]; [lia|]. rewrite Y1. simpl. rewrite Y2, N.eqb_refl. reflexivity.
  Qed.

  Lemma shape_cm p cm cm' : shape C p cm -> (forall m, p_snap p = Some m -> sn_index m <= cm') -> shape C p cm'.
  Proof.
    intros [W Sx] H. split; [exact W|]. destruct (p_snap p) as [m |]; [| exact Sx].
    destruct Sx as [S1 [S2 [S3 [S4 S5]]]]. repeat split; auto.
  Qed.

  Lemma postS_new_core id cfg p : pS p -> postS (new_core id cfg p).
  Proof.
    intros [P [cm [Sh Hcm]]]. unfold new_core. rewrite (reconcile_shape id cfg p cm Sh). cbv beta iota delta [bind]. simpl n_p.
    set (sb := set_conf (blank_node id cfg p) (init_latest_conf p)).
    assert (Hfresh : forall cmt rst, cmt <= n_commit s0r -> (forall m, p_snap p = Some m -> sn_index m <= cmt) ->
                       iS (become_follower (set_commit sb cmt rst []) 0)).
    { intros cmt rst H1 H2. split.
      - destruct P as [A B Cc D E]. constructor; simpl; auto.
        + destruct Cc as [Cc | Cc]; [left | right; exact Cc]. split; auto. simpl in Cc.
          apply app_eq_nil in Cc. destruct Cc as [C1 C2].
          destruct (p_snap p) as [m |] eqn:Es.
          * exfalso. destruct Sh as [_ Sx]. rewrite Es in Sx. rewrite C1, C2 in Sx. simpl in Sx. lia.
          * apply init_latest_conf_nil; auto.
        + intro X. congruence.
        + left. constructor.
        + unfold ext. simpl. split; [constructor|]. split; [exact Logic.I|]. split; [left; exact H1 | intro X; discriminate].
      - unfold shp, cmS. simpl. apply (shape_cm p cm); auto. intros m Hm. specialize (H2 m Hm).
        destruct Sh as [_ Sx]. rewrite Hm in Sx. lia. }
    destruct (p_snap p) as [m |] eqn:Es.
    - unfold commit_up_to. simpl p_snap. rewrite Es. simpl n_commit.
      assert (Hi : 1 <= sn_index m /\ sn_index m <= cm) by (destruct Sh as [_ Sx]; rewrite Es in Sx; tauto).
      assert (X : (0 <? sn_index m) = true) by (apply N.ltb_lt; lia). rewrite X. rewrite N.eqb_refl. simpl.
      apply Hfresh; [lia|]. intros m' Hm'. inversion Hm'. apply N.le_refl.
    - simpl. change (become_follower sb 0) with (become_follower (set_commit sb 0 false []) 0).
      apply Hfresh; [lia | intros m' Hm'; discriminate].
  Qed.

  Definition evok3S (ev : event) : Prop :=
    match ev with
    | EBootstrap ms ep => boot = Some (boot_entry ms ep)
    | EDeliver m => mok3S m
    | EAddNode _ _ | ERemoveNode _ | ESnapDone _ => False
    | _ => True
    end.

  Lemma iS_start : base s0 -> shp s0r -> n_msgs s0r = [] -> iS s0r.
  Proof.
    intros B Sh M. split; [| exact Sh]. apply inv_start; [exact B | simpl; rewrite M; reflexivity].
  Qed.

  Lemma postS2_run_event ev : base s0 -> shp s0r -> n_msgs s0r = [] -> evok3S ev -> postS2 (run_event s0r ev).
  Proof.
    intros Hb Sh Hm He. pose proof (iS_start Hb Sh Hm) as I. destruct ev; simpl in *; try contradiction.
    - apply postS2_bootstrap; auto.
    - unfold wrap0. apply postS2_of_postS. apply postS_handle_msg; auto.
    - unfold wrap0. apply postS2_of_postS. apply postS_tick; auto.
    - apply postS2_propose; auto.
    - unfold wrap0. apply postS2_of_postS. apply postS_new_core. eapply iS_pS; eauto.
  Qed.
  (* ---------------------------------------------------------------- InstallSnapshot delivered (completed without a crash) *)
  (* the virtual input is an AppEnts with prevIndex 0 whose entries Cs are the sender's committed prefix; the result may have a
     different ghost prefix C' *)
  Variable XI : list entry.     (* where the entries of the new ghost prefix come from *)
  Hypothesis HXI : incl (C ++ p_log (n_p s0r)) XI.

  (* what justifies, after a crash inside handleSnapshot, the commit index newCore restores from the snapshot *)
  Definition icj (C' : list entry) (p : pstate) : Prop :=
    exists m a, p_snap p = Some m /\ DC (sn_index m) /\ inp = Some a /\ p_term p = ai_term a /\
                resp_ok RT (C' ++ p_log p) (sn_index m).

  Definition pI (p : pstate) : Prop :=
    exists C' cm, PINV (vp C' p) /\ shape C' p cm /\ incl C' XI /\ (cm <= n_commit s0r \/ icj C' p).

  Definition postI (r : R node) : Prop :=
    match r with
    | Ret x => exists C', INV (vn C' x) /\ shape C' (n_p x) (n_commit x) /\ incl C' XI
    | Crashed p => exists p', (forall id cfg, new_core id cfg p = new_core id cfg p') /\ pI p'
    | Fatal _ => True
    end.

  Lemma pI_of_pS p : pS p -> pI p.
  Proof.
    intros [P [cm [Sh Hc]]]. exists C, cm. split; [exact P|]. split; [exact Sh|]. split; [| left; exact Hc].
    intros x Hx. apply HXI. apply in_or_app. left. exact Hx.
  Qed.

  Lemma postI_of_postS r : postS r -> postI r.
  Proof.
    destruct r; simpl; auto.
    - intros [I Sh]. exists C. split; [exact I|]. split.
      + apply (shape_cm (n_p a) (cmS a)); [exact Sh|]. intros m Hm. destruct Sh as [_ S2]. rewrite Hm in S2. unfold cmS in S2. lia.
      + intros x Hx. apply HXI. apply in_or_app. left. exact Hx.
    - intro H. exists p. split; [reflexivity | apply pI_of_pS; exact H].
  Qed.

  Lemma postI_bind (a : R node) (f : node -> R node) :
    postS a -> (forall s1, iS s1 -> postI (f s1)) -> postI (bind a f).
  Proof. intros Ha Hf. destruct a; simpl in *; auto. exists p. split; [reflexivity | apply pI_of_pS; exact Ha]. Qed.

  (* newCore on a store that crashed inside the delivery *)
  Lemma postI_new_core id cfg p z :
    pI p -> new_core id cfg p = Ret z -> exists C', INV (vn C' z) /\ shape C' (n_p z) (n_commit z) /\ incl C' XI.
  Proof.
    intros [C' [cm [P [Sh [Hi J]]]]]. unfold new_core. rewrite (reconcile_keep C' id cfg p cm Sh). cbv beta iota delta [bind]. simpl n_p.
    set (sb := set_conf (blank_node id cfg p) (init_latest_conf p)).
    assert (Hfresh : forall cmt rst,
              (cmt <= n_commit s0r \/ exists cm0 a, DC cm0 /\ inp = Some a /\ p_term p = ai_term a /\ cmt <= cm0 /\ resp_ok RT (C' ++ p_log p) cmt) ->
              (forall m, p_snap p = Some m -> sn_index m <= cmt) ->
              INV (vn C' (become_follower (set_commit sb cmt rst []) 0)) /\ shape C' p cmt).
    { intros cmt rst H1 H2. split.
      - destruct P as [A B Cc D E]. constructor; simpl; auto.
        + destruct Cc as [Cc | Cc]; [left | right; exact Cc]. split; auto. simpl in Cc.
          apply app_eq_nil in Cc. destruct Cc as [C1 C2].
          destruct (p_snap p) as [m |] eqn:Es.
          * exfalso. destruct Sh as [_ Sx]. rewrite Es in Sx. rewrite C1, C2 in Sx. simpl in Sx. lia.
          * apply init_latest_conf_nil; auto.
        + intro X. congruence.
        + left. constructor.
        + unfold ext. simpl. split; [constructor|]. split; [exact Logic.I|]. split; [| intro X; discriminate].
          destruct H1 as [H1 | [cm0 [a [K1 [K2 [K3 [K4 K5]]]]]]]; [left; exact H1 | right; right; right].
          exists cm0, a. simpl. auto.
      - apply (shape_cm' C' p cm); auto. }
    destruct (p_snap p) as [m |] eqn:Es.
    - unfold commit_up_to. simpl p_snap. rewrite Es. simpl n_commit.
      assert (Hm1 : 1 <= sn_index m /\ sn_index m <= cm) by (destruct Sh as [_ Sx]; rewrite Es in Sx; tauto).
      assert (X : (0 <? sn_index m) = true) by (apply N.ltb_lt; lia). rewrite X. rewrite N.eqb_refl. simpl.
      intro H. inversion H. subst z.
      destruct (Hfresh (sn_index m) true) as [Iz Sz].
      + destruct J as [J | [m' [a [K1 [K2 [K3 [K4 K5]]]]]]]; [left; lia | right].
        rewrite Es in K1. inversion K1. subst m'. exists (sn_index m), a. repeat split; auto. lia.
      + intros m' Hm'. inversion Hm'. apply N.le_refl.
      + exists C'. split; [exact Iz|]. split; [simpl; exact Sz | exact Hi].
    - simpl. intro H. inversion H. subst z.
      change (become_follower sb 0) with (become_follower (set_commit sb 0 false []) 0).
      destruct (Hfresh 0 false) as [Iz Sz]; [left; lia | intros m' Hm'; discriminate|].
      exists C'. split; [exact Iz|]. split; [simpl; exact Sz | exact Hi].
  Qed.

  Section Install.
    Variables (Cs : list entry) (li lt : N) (cf : membership).
    Hypothesis HXIs : incl Cs XI.

    Definition premI (s : node) : Prop :=
      inp = Some {| ai_term := p_term (n_p s); ai_pi := 0; ai_pt := 0; ai_ents := Cs |} /\
      (forall j e, nth_error Cs j = Some e -> RT (0 + N.of_nat j + 1) (e_term e)) /\
      wf_from 1 Cs /\ 1 <= p_term (n_p s) /\ DC li /\ 1 <= li /\ li <= N.of_nat (length Cs) /\ term_at Cs li lt /\
      (forall cur, p_snap (n_p s) = Some cur -> li <= sn_index cur -> resp_ok RT (C ++ p_log (n_p s)) (sn_index cur)) /\
      ((N.of_nat (length (C ++ p_log (n_p s))) < li \/ exists e, nth_error (C ++ p_log (n_p s)) (N.to_nat (li - 1)) = Some e /\ e_term e <> lt) ->
       N.of_nat (length Cs) = li /\
       exists c, qtrunc s0 (vn C s) 0 0 Cs c /\ (c < N.to_nat li)%nat /\ firstn c (C ++ p_log (n_p s)) = firstn c Cs).

    Lemma rt_last : (forall j e, nth_error Cs j = Some e -> RT (0 + N.of_nat j + 1) (e_term e)) -> 1 <= li -> term_at Cs li lt -> RT li lt.
    Proof.
      intros H H1 [Z | [e [E1 E2]]]; [lia|]. specialize (H _ _ E1). rewrite E2 in H.
      replace (0 + N.of_nat (N.to_nat (li - 1)) + 1) with li in H by lia. exact H.
    Qed.

    Lemma in_log_total p cm i t : shape C p cm -> exists b, in_log p i t = Ret b.
    Proof.
      intro Sh. destruct (shape_phys _ _ _ Sh) as [_ W]. unfold in_log.
      destruct (p_log p) as [| x r] eqn:El; [simpl; eauto|].
      rewrite <- El in *. assert (Hne : p_log p <> []) by (rewrite El; discriminate).
      rewrite (log_first_wf _ _ W Hne), (log_last_wf _ _ W Hne).
      destruct ((1 + N.of_nat (length C) <=? i) && (i <=? 1 + N.of_nat (length C) + N.of_nat (length (p_log p)) - 1)) eqn:Eb; [| eauto].
      apply andb_true_iff in Eb. destruct Eb as [B1 B2]. apply N.leb_le in B1, B2.
      rewrite (log_term_S _ _ _ Sh) by lia.
      destruct (nth_error (C ++ p_log p) (N.to_nat (i - 1))) as [e |] eqn:En; simpl; [eauto|].
      apply nth_error_None in En. rewrite app_length in En. lia.
    Qed.

    Lemma postI_handle_snapshot s from :
      iS s -> n_msgs s = [] -> n_role s = Follower -> p_log (n_p s) = p_log (n_p s0r) -> ~ strongS s -> premI s ->
      n_commit s = n_commit s0r ->
      postI (handle_snapshot s from li lt cf).
    Proof.
      intros IS Hm Hr Hl Hns [Hinp [Hrt [Hwe [Ht1 [Hdc [Hli [Hlen [Hlt [Pst Pdisc]]]]]]]]] Hcm0. pose proof IS as [I Sh].
      unfold handle_snapshot. set (sc := set_follower_contact s).
      assert (Ic : iS sc) by (unfold sc; volS). pose proof Ic as [Icv Shc].
      assert (Hrtl : RT li lt) by (apply rt_last; auto).
      destruct (match p_snap (n_p sc) with Some m => if li <=? sn_index m then Some (sn_index m) else None | None => None end) as [cur |] eqn:Est.
      { (* stale *)
        apply postI_of_postS. simpl. apply iS_resp; [exact Ic|]. intros _.
        change (p_snap (n_p sc)) with (p_snap (n_p s)) in Est. destruct (p_snap (n_p s)) as [mc |] eqn:Es; [| discriminate].
        destruct (li <=? sn_index mc) eqn:El; [| discriminate]. apply N.leb_le in El. inversion Est. subst cur.
        apply (Pst mc eq_refl El). }
      set (M := {| sn_index := li; sn_term := lt; sn_conf := Some cf |}).
      assert (HCli : N.of_nat (length C) < li).
      { change (p_snap (n_p sc)) with (p_snap (n_p s)) in Est. pose proof Sh as [_ Sx]. destruct (p_snap (n_p s)) as [mc |].
        - destruct (li <=? sn_index mc) eqn:El; [discriminate|]. apply N.leb_gt in El. lia.
        - rewrite Sx. simpl. lia. }
      assert (Shc' : shape C (n_p sc) (cmS sc)) by exact Shc.
      assert (ShcM : forall cm, shape C (n_p sc) cm -> True) by auto.
      assert (Shbase : shape C (n_p s) (N.max (n_commit s) li)).
      { apply (shape_cm (n_p sc) (cmS sc)); [exact Shc|].
        intros m0 Hm0. destruct Shc as [_ S2]. rewrite Hm0 in S2. unfold cmS in S2. simpl in S2. lia. }
      assert (HmV : n_msgs (vn C sc) = []) by (simpl; rewrite Hm; reflexivity).
      assert (HnsV : ~ strong s0 (vn C sc)) by (intro X; apply Hns; apply strong_vn; exact X).
      assert (HlV : p_log (n_p (vn C sc)) = p_log (n_p s0)) by (simpl; rewrite Hl; reflexivity).
      assert (Hcm0V : n_commit (vn C sc) = n_commit s0) by (simpl; exact Hcm0).
      assert (Hta0 : term_at (p_log (n_p s0)) 0 0) by (left; reflexivity).
      (* stores whose logical log is unchanged *)
      assert (Ksame : forall C' p, C' ++ p_log p = C ++ p_log (n_p s) -> p_term p = p_term (n_p s) -> PINV (vp C' p)).
      { intros C' p HL HT. eapply inv_pinv; [exact Icv | simpl; exact HL | reflexivity | simpl; exact HT]. }
      (* the tail: raise the commit index to li if needed, respond *)
      assert (Hfin : forall C' y, INV (vn C' y) -> n_msgs y = [] -> shape C' (n_p y) (N.max (n_commit y) li) -> incl C' XI ->
                       resp_ok RT (C' ++ p_log (n_p y)) li -> p_snap (n_p y) = Some M ->
                       postI (s3 <- (if n_commit y <? li then commit_up_to y li else Ret y) ;; Ret (send s3 from (AppEntsResp true li 0)))).
      { intros C' y Iy My Shy HinclC Ry Sy.
        assert (Isend : INV (send (vn C' y) from (AppEntsResp true li 0))).
        { apply inv_resp; [exact Iy | intros _; exact Ry]. }
        assert (Evs : forall z, n_msgs z = [] -> vn C' (send z from (AppEntsResp true li 0)) = send (vn C' z) from (AppEntsResp true li 0)).
        { intros z Mz. apply vn_send. reflexivity. }
        destruct (n_commit y <? li) eqn:Ec.
        - apply N.ltb_lt in Ec. unfold commit_up_to. rewrite Sy. simpl sn_index.
          assert (X : (n_commit y <? li) = true) by (apply N.ltb_lt; exact Ec). rewrite X. rewrite N.eqb_refl. simpl.
          exists C'. split.
          + rewrite Evs by exact My.
            change (send (vn C' (set_commit y li true (n_commits y))) from (AppEntsResp true li 0))
              with (set_commit (send (vn C' y) from (AppEntsResp true li 0)) li true (n_commits y)).
            eapply inv_commit; eauto; [simpl; lia|].
            intros r c. right. left. eexists li, li, 0, _. simpl. split; [exact Hdc|]. split; [lia|].
            split; [apply in_or_app; right; left; reflexivity|]. split; [reflexivity | lia].
          + split; [| exact HinclC]. simpl. replace (N.max (n_commit y) li) with li in Shy by lia. exact Shy.
        - apply N.ltb_ge in Ec. simpl. exists C'. split.
          + rewrite Evs by exact My. exact Isend.
          + split; [| exact HinclC]. simpl. replace (N.max (n_commit y) li) with (n_commit y) in Shy by lia. exact Shy. }
      set (p1 := apply_mut (n_p sc) (MSnapCommit M)).
      destruct (in_log_total (n_p sc) (cmS sc) li lt Shc) as [il Eil].
      pose proof Eil as Hil. apply (in_log_S C (n_p sc) (cmS sc) Shc) in Hil. change (p_log (n_p sc)) with (p_log (n_p s)) in Hil.
      assert (Hinp1 : forall p, p_term p = p_term (n_p s) -> exists a, inp = Some a /\ p_term p = ai_term a).
      { intros p HT. eexists. split; [exact Hinp | simpl; exact HT]. }
      destruct il.
      - (* the log holds (li, lt): trim only *)
        destruct Hil as [H1 [H2 H3]].
        assert (Shm : shape C p1 (N.max (n_commit s) li)) by (apply shape_snap; [exact Shbase | exact Hli | simpl; lia | exact H2 | exact H3 | simpl; lia]).
        assert (Rk : resp_ok RT (C ++ p_log (n_p s)) li).
        { destruct H3 as [Z | [e [X1 X2]]]; [lia|]. right. exists e. split; [exact X1|]. rewrite X2. exact Hrtl. }
        assert (Jsame : forall C' p, C' ++ p_log p = C ++ p_log (n_p s) -> p_snap p = Some M -> p_term p = p_term (n_p s) -> icj C' p).
        { intros C' p HL HS HT. destruct (Hinp1 p HT) as [a [A1 A2]]. exists M, a. split; [exact HS|]. split; [exact Hdc|]. split; [exact A1|]. split; [exact A2|].
          simpl sn_index. rewrite HL. exact Rk. }
        destruct (do_mut_cases' (MSnapCommit M) sc) as [E1 | E1]; rewrite E1.
        { simpl. exists p1. split; [reflexivity|]. exists C, (N.max (n_commit s) li). split; [apply Ksame; reflexivity|]. split; [exact Shm|].
          split; [intros x Hx; apply HXI; apply in_or_app; left; exact Hx|]. right. apply Jsame; reflexivity. }
        rewrite bind_ret.
        match goal with |- postI (bind (in_log (n_p ?x) _ _) _) => set (s1 := x) end.
        assert (Ein : in_log (n_p s1) li lt = in_log (n_p sc) li lt) by reflexivity. rewrite Ein, Eil, bind_ret.
        pose proof (trim_log_out C s1 M (N.max (n_commit s) li) Shm eq_refl) as Out. simpl sn_index in Out.
        destruct (trim_log s1 li) as [y | |].
        + rewrite bind_ret. simpl in Out. destruct Out as [C' [HL [Shy [[P1 [P2 [P3 P4]]] [[V1 [V2 [V3 [V4 [V5 [V6 V7]]]]]] Sy]]]]].
          change (p_log (n_p s1)) with (p_log (n_p s)) in HL.
          apply (Hfin C' y).
          * eapply inv_frame with (s := vn C sc); [exact Icv | | | | | | | | |].
            -- simpl. exact HL.
            -- reflexivity.
            -- simpl. exact P1.
            -- left. simpl. exact V3.
            -- left. simpl. exact V4.
            -- simpl. exact V5.
            -- simpl. exact V6.
            -- simpl. exact V1.
            -- exists []. simpl. rewrite V7. simpl. rewrite Hm. split; [reflexivity|]. split; [constructor|]. split; [left; constructor | constructor].
          * rewrite V7. simpl. exact Hm.
          * rewrite V5. simpl. exact Shy.
          * intros x Hx. apply HXI. rewrite <- Hl, <- HL. apply in_or_app. left. exact Hx.
          * rewrite HL. exact Rk.
          * rewrite Sy. reflexivity.
        + exact Logic.I.
        + simpl in Out. destruct Out as [C' [HL [Shy [[P1 _] Sy]]]]. change (p_log (n_p s1)) with (p_log (n_p s)) in HL.
          simpl. exists p. split; [reflexivity|]. exists C', (N.max (n_commit s) li). split; [apply Ksame; [exact HL | exact P1]|]. split; [exact Shy|].
          split; [intros x Hx; apply HXI; rewrite <- Hl, <- HL; apply in_or_app; left; exact Hx|].
          right. apply Jsame; [exact HL | rewrite Sy; reflexivity | exact P1].
      - (* the log does not hold (li, lt): discard it, the snapshot is the store *)
        assert (Hcase : N.of_nat (length (C ++ p_log (n_p s))) < li \/
                        exists e, nth_error (C ++ p_log (n_p s)) (N.to_nat (li - 1)) = Some e /\ e_term e <> lt).
        { destruct Hil as [X | [X | X]]; [lia | left; exact X | right; exact X]. }
        destruct (Pdisc Hcase) as [HlenCs [c [Qc [Hc Hfc]]]].
        destruct (shape_phys _ _ _ Sh) as [_ Wp].
        set (p3 := apply_mut p1 (MTruncate 0)).
        assert (Elp3 : p_log p3 = []).
        { unfold p3, p1. simpl. change (p_log (n_p sc)) with (p_log (n_p s)). rewrite (mem_truncate_from _ _ _ Wp).
          replace (N.to_nat (0 + 1 - (1 + N.of_nat (length C)))) with 0%nat by lia. reflexivity. }
        assert (Sp3 : p_snap p3 = Some M) by reflexivity.
        assert (Sh3 : shape Cs p3 (N.max (n_commit s) li)).
        { unfold shape. rewrite Elp3, app_nil_r, Sp3. split; [exact Hwe|]. simpl sn_index. simpl sn_term.
          split; [lia|]. split; [exact Hlen|]. split; [exact Hlt|]. split; [lia | exact Hli]. }
        assert (Hlt0 : (c < N.to_nat 0 + length Cs)%nat) by (simpl; lia).
        assert (HL3 : Cs ++ p_log p3 = firstn c (p_log (n_p s0)) ++ skipn (c - N.to_nat 0) Cs).
        { rewrite Elp3, app_nil_r. simpl N.to_nat. rewrite Nat.sub_0_r. rewrite <- HlV. simpl p_log. rewrite Hfc. symmetry. apply firstn_skipn. }
        assert (P3v : PINV (vp Cs p3)).
        { exact (pinv_merged s0 inp boot RT VQ LQ HLQ DC RSP (vn C sc) 0 0 Cs Icv HlV Hinp Hwe Ht1 Hta0 HnsV Hcm0V c (vp Cs p3) Qc Hlt0 HL3 eq_refl eq_refl). }
        assert (Rk3 : resp_ok RT (Cs ++ p_log p3) li).
        { rewrite Elp3, app_nil_r. destruct Hlt as [Z | [e [X1 X2]]]; [lia|]. right. exists e. split; [exact X1|]. rewrite X2. exact Hrtl. }
        assert (PI3 : pI p3).
        { exists Cs, (N.max (n_commit s) li). split; [exact P3v|]. split; [exact Sh3|]. split; [exact HXIs|]. right.
          destruct (Hinp1 p3 eq_refl) as [a [A1 A2]]. exists M, a. split; [exact Sp3|]. split; [exact Hdc|]. split; [exact A1|]. split; [exact A2 | exact Rk3]. }
        destruct (do_mut_cases' (MSnapCommit M) sc) as [E1 | E1]; rewrite E1.
        { simpl. exists p3. split; [| exact PI3]. intros id cfg.
          exact (new_core_torn C Cs id cfg (n_p sc) (N.max (n_commit s) li) (N.max (n_commit s) li) M Shbase HCli Hcase Sh3). }
        rewrite bind_ret.
        match goal with |- postI (bind (in_log (n_p ?x) _ _) _) => set (s1 := x) end.
        assert (Ein : in_log (n_p s1) li lt = in_log (n_p sc) li lt) by reflexivity. rewrite Ein, Eil, bind_ret.
        destruct (do_mut_cases' (MTruncate 0) s1) as [E2 | E2]; rewrite E2.
        { simpl. exists p3. split; [reflexivity | exact PI3]. }
        rewrite !bind_ret.
        match goal with |- postI (bind (if n_commit ?x <? _ then _ else _) _) => set (y := x) end.
        assert (Ely : p_log (n_p y) = []) by exact Elp3.
        apply (Hfin Cs y).
        + assert (MyV : n_msgs (vn Cs y) = []) by (simpl; rewrite Hm; reflexivity).
          assert (HLy : Cs ++ p_log (n_p y) = firstn c (p_log (n_p s0)) ++ skipn (c - N.to_nat 0) Cs) by exact HL3.
          exact (inv_merged s0 inp boot RT VQ LQ HLQ DC RSP (vn C sc) 0 0 Cs Icv HlV Hinp Hwe Ht1 Hta0 HnsV Hcm0V c (vn Cs y)
                   eq_refl Qc Hlt0 HLy eq_refl eq_refl Hr MyV).
        + simpl. exact Hm.
        + exact Sh3.
        + exact HXIs.
        + exact Rk3.
        + reflexivity.
    Qed.

    Lemma postI_bindQ Q (a : R node) (f : node -> R node) :
      postSQ Q a -> (forall s1, iS s1 -> Q s1 -> postI (f s1)) -> postI (bind a f).
    Proof.
      intros Ha Hf. destruct a; simpl in *; auto.
      - destruct Ha. auto.
      - exists p. split; [reflexivity | apply pI_of_pS; exact Ha].
    Qed.

    Definition premIx (s : node) : Prop :=
      forall x, p_log (n_p x) = p_log (n_p s) -> p_snap (n_p x) = p_snap (n_p s) -> p_term (n_p x) = p_term (n_p s) -> premI x.

    Lemma postI_handle_follower s m :
      iS s -> n_msgs s = [] -> n_role s = Follower -> p_log (n_p s) = p_log (n_p s0r) -> m_body m = InstallSnap li lt cf ->
      premIx s -> ~ strongS s -> n_commit s = n_commit s0r -> postI (handle_follower s m).
    Proof.
      intros IS Hm Hr Hl Hb Hp Hns Hcm0. unfold handle_follower. rewrite Hb.
      eapply postI_bindQ; [apply postSQ_follower_note_leader; exact IS|].
      intros s1 I1 [[A1 [A0 [A2 [A3 [A4 [A5 [A6 [A7 A8]]]]]]]] Ac1]. apply postI_handle_snapshot; auto; try congruence.
      unfold strong in *. rewrite A2. exact Hns.
    Qed.

    Lemma postI_handle_by_role s m :
      iS s -> n_msgs s = [] -> p_log (n_p s) = p_log (n_p s0r) -> m_body m = InstallSnap li lt cf -> premIx s ->
      (n_role s = Leader -> strongS s) -> (n_role s = n_role s0r \/ p_term (n_p s) <> p_term (n_p s0r)) ->
      n_commit s = n_commit s0r ->
      postI (handle_by_role s m).
    Proof.
      intros I Hm Hl Hb Hp Hs Hd Hcm0. unfold handle_by_role. destruct (n_role s) eqn:Er.
      - apply postI_handle_follower; auto. intros [X Y]. simpl in *. destruct Hd; congruence.
      - apply postI_of_postS. apply postS_handle_candidate; auto.
      - apply postI_of_postS. apply postS_handle_leader; auto. rewrite Hb. exact Logic.I.
    Qed.

    Lemma postI_handle_msg s m :
      iS s -> n_msgs s = [] -> p_log (n_p s) = p_log (n_p s0r) -> p_snap (n_p s) = p_snap (n_p s0r) ->
      n_role s = n_role s0r -> p_term (n_p s) = p_term (n_p s0r) -> n_commit s = n_commit s0r ->
      m_body m = InstallSnap li lt cf ->
      (p_term (n_p s0r) <= m_term m ->
       forall x, p_log (n_p x) = p_log (n_p s0r) -> p_snap (n_p x) = p_snap (n_p s0r) -> p_term (n_p x) = m_term m -> premI x) ->
      postI (handle_msg s m).
    Proof.
      intros IS Hm Hl Hsn Hr Ht Hcm Hb Hpr. unfold handle_msg.
      match goal with |- postI (if ?c then _ else _) => destruct c end; [apply postI_of_postS; simpl; auto|].
      match goal with |- postI (if ?c then _ else _) => destruct c end; [apply postI_of_postS; simpl; auto|].
      eapply postI_bindQ with (Q := fun s1 => samevS s s1 /\ n_commit s1 = n_commit s).
      - match goal with |- postSQ _ (if ?c then _ else _) => destruct c end;
          [apply postSQ_do_mut_light; auto; exact Logic.I | apply postSQ_ret; auto using samevS_refl].
      - intros s1 IS1 [[A1 [A0 [A2 [A3 [A4 [A5 [A6 [A7 A8]]]]]]]] Ac]. pose proof IS1 as [I1 Sh1].
        match goal with |- postI (if ?c then _ else _) => destruct c end; [apply postI_of_postS; simpl; auto|].
        destruct (m_term m <? p_term (n_p s1)) eqn:Elt; [apply postI_of_postS; simpl; auto|]. apply N.ltb_ge in Elt.
        destruct (p_term (n_p s1) <? m_term m) eqn:Egt.
        + apply N.ltb_lt in Egt. rewrite Hb.
          destruct (do_mut_cases' (MSaveState (m_from m) (m_term m)) s1) as [E | E]; rewrite E; [| rewrite !bind_ret].
          { simpl. exists (apply_mut (n_p s1) (MSaveState (m_from m) (m_term m))). split; [reflexivity|]. apply pI_of_pS. split.
            - destruct I1. constructor; simpl; auto.
              + right. simpl in *. lia.
              + simpl in *. lia.
              + unfold LR. cbv zeta. left. simpl. congruence.
            - exists (cmS s1). split; [eapply shape_ext; [| | apply N.le_refl | exact Sh1]; reflexivity | unfold cmS; lia]. }
          apply postI_handle_by_role.
          * split.
            -- destruct I1. constructor; simpl; auto.
               ++ right. simpl in *. lia.
               ++ intro X. congruence.
               ++ simpl in *. lia.
               ++ unfold LR. cbv zeta. left. simpl. congruence.
               ++ left. rewrite A4, Hm. constructor.
               ++ apply ext_reset; simpl; [congruence | rewrite A4, Hm; reflexivity | discriminate].
            -- unfold shp. simpl. eapply shape_ext; [| | apply N.le_refl | exact Sh1]; reflexivity.
          * simpl. congruence.
          * simpl. congruence.
          * exact Hb.
          * intros x X1 X2 X3. apply Hpr; simpl in *; try congruence; try lia.
          * simpl. discriminate.
          * right. simpl. lia.
          * simpl. congruence.
        + apply N.ltb_ge in Egt. rewrite bind_ret.
          apply postI_handle_by_role; auto; try congruence.
          * intros x X1 X2 X3. apply Hpr; try congruence; try lia.
          * intro X. split; simpl; congruence.
          * left. congruence.
    Qed.
  End Install.
End LVS.

(* ---------------------------------------------------------------- the event with a crash point, store with snapshot *)
Definition premE (C : list entry) (s : node) (ev : event) : Prop :=
  match ev with
  | EDeliver m => match m_body m with AppEnts pi pt _ oes => p_term (n_p s) <= m_term m -> premS C (n_p s) pi pt oes | _ => True end
  | _ => True
  end.

Lemma evok4_evok3S C s0r ev : evok4 ev -> premE C s0r ev ->
  evok3S C s0r (inp_of ev) (boot_of ev) (rt_of ev) (vq_of ev) (dc_of ev) (rsp_of ev) ev.
Proof.
  intros He Hp. pose proof (evok4_evok3 ev He) as H3. destruct ev; simpl in *; auto.
  unfold mok3S. split; [exact H3|]. exact Hp.
Qed.

(* all events except SnapshotDone, AddNode, RemoveNode and the delivery of InstallSnapshot (evok4); under the completeness
   premise premE for a delivered AppEnts: the step seen through the ghost prefix C satisfies the snapshot-free step summary *)
Theorem run_event_crash_lm_S C s ev k crashed st s' :
  base (vn C s) -> shape C (n_p s) (n_commit s) -> evok4 ev -> premE C s ev ->
  run_event_crash (settle s) ev k = Ret (crashed, st, s') ->
  inv (with_budget (settle (vn C s)) k) (inp_of ev) (boot_of ev) (rt_of ev) (vq_of ev) (lq_of (vn C s)) (dc_of ev) (rsp_of ev) (vn C s') /\
  shape C (n_p s') (n_commit s').
Proof.
  intros Hb Hsh He Hp. unfold run_event_crash.
  set (s0 := with_budget (settle s) k).
  assert (Hb0 : base (vn C s0)) by (unfold base in *; simpl; exact Hb).
  assert (Hsh0 : shp C s0 s0).
  { unfold shp, cmS. simpl. rewrite N.min_id. exact Hsh. }
  assert (Hq : forall t, p_term (n_p (vn C s0)) < t -> lq_of (vn C s) (p_log (n_p (vn C s0))) t) by (intros t Ht; split; [reflexivity | exact Ht]).
  assert (Hp0 : premE C s0 ev) by exact Hp.
  pose proof (postS2_run_event C s0 (inp_of ev) (boot_of ev) (rt_of ev) (vq_of ev) (lq_of (vn C s)) Hq (dc_of ev) (rsp_of ev) ev Hb0 Hsh0 eq_refl
                (evok4_evok3S C s0 ev He Hp0)) as P.
  assert (Hfin : forall x, iS C s0 (inp_of ev) (boot_of ev) (rt_of ev) (vq_of ev) (lq_of (vn C s)) (dc_of ev) (rsp_of ev) x ->
            inv (with_budget (settle (vn C s)) k) (inp_of ev) (boot_of ev) (rt_of ev) (vq_of ev) (lq_of (vn C s)) (dc_of ev) (rsp_of ev) (vn C x) /\
            shape C (n_p x) (n_commit x)).
  { intros x [Ix Sx]. split.
    - exact Ix.
    - apply (shape_cm C (n_p x) (cmS s0 x)); [exact Sx|]. intros m Hm. destruct Sx as [_ S2]. rewrite Hm in S2. unfold cmS in S2. lia. }
  destruct (run_event s0 ev) as [[st0 x] | c | p]; simpl in *; try discriminate.
  - intro H. inversion H. subst. apply (Hfin (with_budget x 0)).
    eapply iS_vol; [exact P | | | | | | |]; reflexivity.
  - pose proof (postS_new_core C s0 (inp_of ev) (boot_of ev) (rt_of ev) (vq_of ev) (lq_of (vn C s)) Hq (dc_of ev) (rsp_of ev) (n_id s) (n_cfg s) p P) as Q.
    destruct (new_core (n_id s) (n_cfg s) p) as [z | |]; simpl in *; try discriminate.
    intro H. inversion H. subst. exact (Hfin _ Q).
Qed.

(* ---------------------------------------------------------------- delivery of an InstallSnapshot, with a crash after any durable mutation *)
(* the stand-in: an AppEnts of the same sender and term with prevIndex 0, the entries Cs and leaderCommit li *)
Definition vmsg (m : msg) (Cs : list entry) (li : N) : msg :=
  {| m_term := m_term m; m_from := m_from m; m_to := m_to m; m_fromg := m_fromg m; m_tog := m_tog m; m_epoch := m_epoch m;
     m_body := AppEnts 0 0 li (Some Cs) |}.

(* what the system level has to supply about Cs (the sender's committed prefix) and the receiver's logical log *)
Definition premV (C : list entry) (v0 : node) (p : pstate) (T : N) (Cs : list entry) (li lt : N) : Prop :=
  wf_from 1 Cs /\ 1 <= T /\ 1 <= li /\ li <= N.of_nat (length Cs) /\ term_at Cs li lt /\
  (forall cur, p_snap p = Some cur -> li <= sn_index cur ->
     exists e e', nth_error (C ++ p_log p) (N.to_nat (sn_index cur - 1)) = Some e /\ nth_error Cs (N.to_nat (sn_index cur - 1)) = Some e' /\
                  e_term e = e_term e') /\
  ((N.of_nat (length (C ++ p_log p)) < li \/ exists e, nth_error (C ++ p_log p) (N.to_nat (li - 1)) = Some e /\ e_term e <> lt) ->
   N.of_nat (length Cs) = li /\
   exists c, qtrunc v0 v0 0 0 Cs c /\ (c < N.to_nat li)%nat /\ firstn c (C ++ p_log p) = firstn c Cs).

Lemma qtrunc_any v0 sA sB ents c : qtrunc v0 sA 0 0 ents c -> qtrunc v0 sB 0 0 ents c.
Proof. unfold qtrunc, conflict_at. simpl. auto. Qed.

Theorem install_snapshot_lm_S C s m li lt cf Cs k crashed st s' :
  base (vn C s) -> shape C (n_p s) (n_commit s) -> m_body m = InstallSnap li lt cf ->
  (p_term (n_p s) <= m_term m -> premV C (with_budget (settle (vn C s)) k) (n_p s) (m_term m) Cs li lt) ->
  run_event_crash (settle s) (EDeliver m) k = Ret (crashed, st, s') ->
  exists C',
    inv (with_budget (settle (vn C s)) k) (inp_of (EDeliver (vmsg m Cs li))) (boot_of (EDeliver (vmsg m Cs li)))
        (rt_of (EDeliver (vmsg m Cs li))) (vq_of (EDeliver (vmsg m Cs li))) (lq_of (vn C s))
        (dc_of (EDeliver (vmsg m Cs li))) (rsp_of (EDeliver (vmsg m Cs li))) (vn C' s') /\
    shape C' (n_p s') (n_commit s') /\ incl C' (C ++ p_log (n_p s) ++ Cs).
Proof.
  intros Hb Hsh Hbody HpV. unfold run_event_crash.
  set (s0 := with_budget (settle s) k). set (ev := EDeliver (vmsg m Cs li)).
  assert (Hb0 : base (vn C s0)) by (unfold base in *; simpl; exact Hb).
  assert (Hsh0 : shp C s0 s0) by (unfold shp, cmS; simpl; rewrite N.min_id; exact Hsh).
  assert (Hq : forall t, p_term (n_p (vn C s0)) < t -> lq_of (vn C s) (p_log (n_p (vn C s0))) t) by (intros t Ht; split; [reflexivity | exact Ht]).
  pose proof (iS_start C s0 (inp_of ev) (boot_of ev) (rt_of ev) (vq_of ev) (lq_of (vn C s)) (dc_of ev) (rsp_of ev) Hb0 Hsh0 eq_refl) as I0.
  assert (Hpr : p_term (n_p s0) <= m_term m -> forall x, p_log (n_p x) = p_log (n_p s0) -> p_snap (n_p x) = p_snap (n_p s0) -> p_term (n_p x) = m_term m ->
                  premI C s0 (inp_of ev) (rt_of ev) (dc_of ev) Cs li lt x).
  { intros X0 x X1 X2 X3. destruct (HpV X0) as [Hwe [HT [Hli [Hlen [Hlt [Pst Pdisc]]]]]]. unfold premI. simpl p_log in X1. simpl p_snap in X2. rewrite X1, X2, X3.
    split; [reflexivity|]. split.
    { intros j e Hj. unfold rt_of, ev, vmsg. simpl. right. exists Cs, j, e. auto. }
    split; [exact Hwe|]. split; [exact HT|]. split; [reflexivity|]. split; [exact Hli|]. split; [exact Hlen|]. split; [exact Hlt|].
    split.
    - intros cur Hc Hle. destruct (Pst cur Hc Hle) as [e [e' [E1 [E2 E3]]]]. right. exists e. split; [exact E1|].
      rewrite E3. unfold rt_of, ev, vmsg. simpl. right. exists Cs, (N.to_nat (sn_index cur - 1)), e'. repeat split; auto.
      pose proof (shape_phys _ _ _ Hsh). destruct Hsh as [_ Sx]. rewrite Hc in Sx. lia.
    - intro Hcase. destruct (Pdisc Hcase) as [A [c [Q [B D]]]]. split; [exact A|]. exists c. split; [| split; [exact B | exact D]].
      eapply qtrunc_any. exact Q. }
  assert (HX1 : incl (C ++ p_log (n_p s0)) (C ++ p_log (n_p s) ++ Cs)).
  { intros x Hx. simpl in Hx. rewrite app_assoc. apply in_or_app. left. exact Hx. }
  assert (HX2 : incl Cs (C ++ p_log (n_p s) ++ Cs)).
  { intros x Hx. rewrite app_assoc. apply in_or_app. right. exact Hx. }
  pose proof (postI_handle_msg C s0 (inp_of ev) (boot_of ev) (rt_of ev) (vq_of ev) (lq_of (vn C s)) Hq (dc_of ev) (rsp_of ev)
                (C ++ p_log (n_p s) ++ Cs) HX1 Cs li lt cf HX2
                s0 m I0 eq_refl eq_refl eq_refl eq_refl eq_refl eq_refl Hbody Hpr) as P.
  simpl run_event. unfold wrap0.
  destruct (handle_msg s0 m) as [x | c | p]; simpl in *; try discriminate.
  - intro H. inversion H. subst. destruct P as [C' [Ix [Sx Hix]]]. exists C'. split; [| split; [exact Sx | exact Hix]].
    eapply inv_vol; [exact Ix | | | | | | |]; reflexivity.
  - destruct P as [p' [Heq PI]].
    destruct (new_core (n_id s) (n_cfg s) p) as [z | |] eqn:En; simpl; try discriminate.
    intro H. inversion H. subst. rewrite (Heq (n_id s) (n_cfg s)) in En.
    destruct (postI_new_core C s0 (inp_of ev) (boot_of ev) (rt_of ev) (vq_of ev) (lq_of (vn C s)) Hq (dc_of ev) (rsp_of ev)
                (C ++ p_log (n_p s) ++ Cs) (n_id s) (n_cfg s) p' s' PI En) as [C' [Iz [Sz Hiz]]].
    exists C'. split; [exact Iz | split; [exact Sz | exact Hiz]].
Qed.
