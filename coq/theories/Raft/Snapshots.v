(* Raft/Snapshots.v — round 4 (A), first rungs: what the snapshot code paths do, and why a snapshot of a committed prefix is
   harmless for the later leaders.

   snap_legit a m : the metadata fsmSnapshotDone may hand over for node a (as raft.go does): an APPLIED position of a's
   log (index <= commit index, (index, term) is an entry of the log).  Same condition as Raft/Legit.v, as a Prop. *)
From Coq Require Import List NArith ZArith Bool Lia ZifyN ZifyNat ZifyBool.
From BLB Require Import Lib.LTS Raft.Core Raft.Wire Raft.NodeProofs Raft.Election Raft.ElectionFixed
  Raft.LogMatchLists Raft.LogMatchNode Raft.LogMatch Raft.CompletenessCommit.
Import ListNotations.
Open Scope N_scope.

Definition snap_legit (a : node) (m : snapmeta) : Prop :=
  1 <= sn_index m /\ sn_index m <= n_commit a /\
  exists e, nth_error (p_log (n_p a)) (N.to_nat (sn_index m) - 1) = Some e /\ e_index e = sn_index m /\ e_term e = sn_term m.

(* hasEntry answers yes inside the snapshot without comparing terms *)
Lemma has_entry_inside_snapshot p m i t :
  p_snap p = Some m -> i <= sn_index m -> has_entry p i t = Ret true.
Proof.
  intros Hs Hi. unfold has_entry. destruct (i =? 0); [reflexivity|]. rewrite Hs.
  assert (X : (i <=? sn_index m) = true) by (apply N.leb_le; exact Hi). rewrite X. reflexivity.
Qed.

(* the leader ships exactly its own snapshot when it cannot produce the entries (nextIndex behind its first index) *)
Lemma install_snapshot_is_own_snapshot s p s' :
  get_app_ents s p = Ret None -> send_app_ents s p = Ret s' ->
  exists m c, p_snap (n_p s) = Some m /\ sn_conf m = Some c /\
              n_msgs s' = n_msgs s ++ [{| m_term := p_term (n_p s); m_from := n_id s; m_to := pr_id p; m_fromg := 0; m_tog := 0;
                                          m_epoch := 0; m_body := InstallSnap (sn_index m) (sn_term m) c |}].
Proof.
  intros Hg. unfold send_app_ents. rewrite Hg. simpl.
  destruct (p_snap (n_p s)) as [m |]; [| discriminate]. destruct (sn_conf m) as [c |] eqn:Ec; [| discriminate].
  intro H. inversion H. exists m, c. simpl. auto.
Qed.

(* THE FIRST SNAPSHOT OF A RUN: a legitimate snapshot covers only committed entries, hence (leader completeness) the entry at the
   snapshot index is in the log of every leader of a later term, with the snapshot's term *)
Theorem snapshot_of_committed_prefix_kept_by_later_leaders :
  forall (bm : list nid) (be : N) (σ0 σ1 σ2 : sys) (sched1 sched2 : list sys_event),
    cinit σ0 ->
    run sys sys_event (lstep (length (sy_nodes σ0)) bm be) σ0 sched1 σ1 ->
    run sys sys_event (lstep (length (sy_nodes σ0)) bm be) σ1 sched2 σ2 ->
    forall a m, In a (sy_nodes σ1) -> snap_legit a m ->
    forall b, In b (sy_nodes σ2) -> n_role b = Leader -> p_term (n_p a) < p_term (n_p b) ->
      exists e, nth_error (p_log (n_p b)) (N.to_nat (sn_index m) - 1) = Some e /\ e_index e = sn_index m /\ e_term e = sn_term m.
Proof.
  intros bm be σ0 σ1 σ2 sched1 sched2 Hc Hr1 Hr2 a m Ha [H1 [H2 [e [He [Hi Ht]]]]] b Hb Hl Hlt.
  destruct (leader_completeness_sys bm be σ0 σ1 σ2 sched1 sched2 Hc Hr1 Hr2 a b Ha Hb Hl Hlt) as [Hlen Hpre].
  exists e. split; [| auto].
  assert (Hk : (N.to_nat (sn_index m) - 1 < N.to_nat (n_commit a))%nat) by lia.
  assert (X : nth_error (firstn (N.to_nat (n_commit a)) (p_log (n_p b))) (N.to_nat (sn_index m) - 1) = Some e).
  { rewrite Hpre. rewrite nth_error_firstn'. apply Nat.ltb_lt in Hk. rewrite Hk. exact He. }
  rewrite nth_error_firstn' in X. apply Nat.ltb_lt in Hk. rewrite Hk in X. exact X.
Qed.
