(* Raft/NodeKeepV.v — round 6.  The pass of NodeKeep.v once more (generated from it by renaming), with a stronger
   message clause: the "keep" handlers (everything a leader does incl. AddNode / RemoveNode, log replication and snapshot
   installation at a follower, commit, trim) emit neither a granted vote NOR A VOTE REQUEST.  So vote requests come from
   enterCandidate only (MemberNode.v). *)
From Coq Require Import List NArith ZArith Bool Lia.
From BLB Require Import Raft.Core Raft.NodeProofs Raft.NodeKeep.
Import ListNotations.
Open Scope N_scope.

Definition nvq (b : mbody) : Prop := b <> VoteResp true /\ forall li lt, b <> VoteReq li lt.

Definition okmsgV (s : node) (m : msg) : Prop :=
  m_term m = p_term (n_p s) /\ m_from m = n_id s /\ nvq (m_body m).

Definition keepV (s s' : node) : Prop :=
  p_term (n_p s') = p_term (n_p s) /\ p_vote (n_p s') = p_vote (n_p s) /\ n_id s' = n_id s /\
  c_votes s' = c_votes s /\ (n_role s' = n_role s \/ n_role s' = Follower) /\
  exists new, n_msgs s' = n_msgs s ++ new /\ Forall (okmsgV s) new.

Lemma okmsgV_same s s' m :
  p_term (n_p s') = p_term (n_p s) -> n_id s' = n_id s -> okmsgV s' m -> okmsgV s m.
Proof. unfold okmsgV. intros A B [C [D E]]. rewrite <- A, <- B. auto. Qed.

Lemma keepV_refl s : keepV s s.
Proof. unfold keepV. repeat split; auto. exists []. rewrite app_nil_r. auto. Qed.

Lemma keepV_trans a b c : keepV a b -> keepV b c -> keepV a c.
Proof.
  unfold keepV. intros [A1 [A2 [A3 [A4 [A5 [n1 [A6 A7]]]]]]] [B1 [B2 [B3 [B4 [B5 [n2 [B6 B7]]]]]]].
  repeat split; try congruence.
  - destruct B5 as [B5 | B5]; [rewrite B5; exact A5 | right; exact B5].
  - exists (n1 ++ n2). split; [rewrite B6, A6, app_assoc; reflexivity|].
    apply Forall_app. split; auto. eapply Forall_impl; [| exact B7]. intros m Hm. eapply okmsgV_same; eauto.
Qed.

Lemma keepV_vol s s' :
  n_p s' = n_p s -> n_id s' = n_id s -> c_votes s' = c_votes s ->
  (n_role s' = n_role s \/ n_role s' = Follower) -> n_msgs s' = n_msgs s -> keepV s s'.
Proof.
  intros A B C D E. unfold keepV. rewrite A. repeat split; auto. exists []. rewrite app_nil_r. auto.
Qed.

Lemma keepV_send s to b : nvq b -> keepV s (send s to b).
Proof.
  intro H. unfold keepV, send. simpl. repeat split; auto. eexists. split; [reflexivity|].
  constructor; [| constructor]. unfold okmsgV. simpl. auto.
Qed.

Lemma keepV_send_vol s s' to b :
  n_msgs s' = n_msgs (send s to b) -> nvq b ->
  n_p s' = n_p s -> n_id s' = n_id s -> c_votes s' = c_votes s ->
  (n_role s' = n_role s \/ n_role s' = Follower) -> keepV s s'.
Proof.
  intros M H A B C D. eapply keepV_trans; [apply (keepV_send s to b H)|].
  apply keepV_vol; auto.
Qed.

Definition kxV (s : node) (r : R node) : Prop := match r with Ret s' => keepV s s' | _ => True end.
Definition kxV2 (s : node) (r : R (N * node)) : Prop := match r with Ret (_, s') => keepV s s' | _ => True end.

Lemma kxV_bind s (a : R node) (f : node -> R node) :
  kxV s a -> (forall s1, kxV s1 (f s1)) -> kxV s (bind a f).
Proof.
  intros Ha Hf. destruct a as [s1 | c | p]; simpl in *; auto.
  specialize (Hf s1). destruct (f s1); simpl in *; auto. eapply keepV_trans; eauto.
Qed.

Lemma kxV_bind_pure {A} s (a : R A) (f : A -> R node) :
  (forall x, a = Ret x -> kxV s (f x)) -> kxV s (bind a f).
Proof. intros Hf. destruct a; simpl in *; auto. Qed.

Lemma kxV_pre s s' r : keepV s s' -> kxV s' r -> kxV s r.
Proof. intros H K. destruct r; simpl in *; auto. eapply keepV_trans; eauto. Qed.

Lemma kxV2_bind s (a : R node) (f : node -> R (N * node)) :
  kxV s a -> (forall s1, kxV2 s1 (f s1)) -> kxV2 s (bind a f).
Proof.
  intros Ha Hf. destruct a as [s1 | c | p]; simpl in *; auto.
  specialize (Hf s1). destruct (f s1) as [[st s2] | |]; simpl in *; auto. eapply keepV_trans; eauto.
Qed.

Lemma kxV2_bind_pure {A} s (a : R A) (f : A -> R (N * node)) :
  (forall x, a = Ret x -> kxV2 s (f x)) -> kxV2 s (bind a f).
Proof. intros Hf. destruct a; simpl in *; auto. Qed.

Lemma kxV2_pre s s' r : keepV s s' -> kxV2 s' r -> kxV2 s r.
Proof. intros H K. destruct r as [[st x] | |]; simpl in *; auto. eapply keepV_trans; eauto. Qed.

Lemma kxV2_of_kx s r st : kxV s r -> kxV2 s (s1 <- r ;; Ret (st, s1)).
Proof. destruct r; simpl; auto. Qed.

Ltac kvolV := apply keepV_vol; simpl; auto.
Ltac ksendV := eapply keepV_send_vol; [simpl; reflexivity | first [solve [split; [discriminate | intros; discriminate]] | eassumption] | simpl; auto ..].
Ltac kleafV := simpl; first [ solve [kvolV] | solve [ksendV] ].

Lemma kxV_do_mut s m :
  match m with MSaveState _ _ | MSetVote _ => False | _ => True end -> kxV s (do_mut m s).
Proof.
  intro H. unfold do_mut. destruct (negb (n_budget s =? 0) && (n_budget s =? n_cnt s + 1)); simpl; auto.
  unfold keepV. simpl. destruct m; try contradiction; simpl; repeat split; auto; exists []; rewrite app_nil_r; auto.
Qed.

(* ---------------------------------------------------------------- handlers *)
Lemma kxV_log_append s es : kxV s (log_append s es).
Proof.
  unfold log_append. apply kxV_bind; [apply kxV_do_mut; exact I|].
  intros s1. destruct (snd (mem_append (p_log (n_p s)) es)); simpl; auto using keepV_refl.
Qed.

Lemma kxV_commit_up_to s i : kxV s (commit_up_to s i).
Proof.
  unfold commit_up_to.
  match goal with |- kxV s (match ?x with _ => _ end) => destruct x end.
  - destruct (negb (sn_index s0 =? i)); simpl; auto. kvolV.
  - apply kxV_bind_pure. intros ents _.
    match goal with |- kxV s (if ?c then _ else _) => destruct c end; [| kleafV].
    match goal with |- kxV s (match ?x with _ => _ end) => destruct x eqn:E end; simpl; auto.
    eapply kxV_pre; [| apply kxV_do_mut; exact I]. kvolV.
Qed.

Lemma kxV_trim_log s i : kxV s (trim_log s i).
Proof.
  unfold trim_log. destruct (log_first (p_log (n_p s))); [| kleafV]. destruct (log_last (p_log (n_p s))); [| kleafV].
  destruct (i =? n - 1); [kleafV|]. destruct ((i <? n) || (n0 <? i)); simpl; auto.
  destruct (i - n <? cf_keep (n_cfg s)); [kleafV|]. apply kxV_do_mut; exact I.
Qed.

Lemma get_app_ents_bodyV s p b : get_app_ents s p = Ret (Some b) -> nvq b.
Proof.
  unfold get_app_ents. destruct (negb (pr_next p =? pr_match p + 1)).
  - destruct (st_term (n_p s) (pr_next p - 1)) as [[pt ok] | |]; simpl; try discriminate.
    destruct (negb ok); intro E; inversion E; (split; [discriminate | intros; discriminate]).
  - destruct (pr_match p =? last_index (n_p s)).
    + destruct (st_term (n_p s) (pr_match p)) as [[pt ok] | |]; simpl; try discriminate.
      destruct (negb ok); intro E; inversion E; (split; [discriminate | intros; discriminate]).
    + destruct (get_log_entries (n_p s) (pr_match p + 1)
                  (N.min (last_index (n_p s) + 1) (pr_match p + 1 + cf_max_ents (n_cfg s)))) as [[[pt es] ok] | |];
        simpl; try discriminate.
      destruct (negb ok); intro E; inversion E; (split; [discriminate | intros; discriminate]).
Qed.

Lemma kxV_send_app_ents s p : kxV s (send_app_ents s p).
Proof.
  unfold send_app_ents. apply kxV_bind_pure. intros ob Hob.
  destruct ob as [b |].
  - apply get_app_ents_bodyV in Hob. simpl. ksendV.
  - destruct (p_snap (n_p s)); simpl; auto. destruct (sn_conf s0); simpl; auto. ksendV.
Qed.

Lemma kxV_for_peers ids f s :
  (forall s1 p, kxV s1 (f s1 p)) -> kxV s (for_peers ids f s).
Proof.
  intro Hf. revert s. induction ids as [| id r IH]; intros s; simpl.
  - apply keepV_refl.
  - destruct (peer_get id (l_peers s)); auto. apply kxV_bind; auto.
Qed.

Lemma kxV_leader_commit_up_to s i : kxV s (leader_commit_up_to s i).
Proof.
  unfold leader_commit_up_to. apply kxV_bind; [apply kxV_commit_up_to|]. intros s1.
  match goal with |- kxV s1 (if ?c then _ else _) => destruct c end; kleafV.
Qed.

Lemma kxV_leader_maybe_commit s : kxV s (leader_maybe_commit s).
Proof.
  unfold leader_maybe_commit. apply kxV_bind_pure. intros mi _.
  destruct (n_commit s <? mi); [| kleafV].
  apply kxV_bind_pure. intros [t ok] _.
  destruct (negb ok); simpl; auto. destruct (negb (t =? p_term (n_p s))); [kleafV|].
  apply kxV_bind; [apply kxV_leader_commit_up_to|]. intros s1.
  apply kxV_for_peers. intros s2 p. destruct (pr_match p =? last_index (n_p s2)); [apply kxV_send_app_ents | kleafV].
Qed.

Lemma kxV_fold_enter (others : list nid) li : forall (acc : R node) s,
  kxV s acc ->
  kxV s (fold_left (fun (acc : R node) (m : nid) =>
                     a <- acc ;;
                     let p := mk_peer m (li + 1) 0 false 0 0 in
                     let a1 := set_leader a (l_check a) (peer_set p (l_peers a)) in
                     send_app_ents a1 p) others acc).
Proof.
  induction others as [| m r IH]; intros acc s H; simpl; auto.
  apply IH. apply kxV_bind; auto. intros s1.
  eapply kxV_pre; [| apply kxV_send_app_ents]. kvolV.
Qed.

Lemma kxV_enter_leader s : kxV s (enter_leader s).
Proof.
  unfold enter_leader. destruct (n_conf s); simpl; auto.
  apply kxV_bind.
  - apply kxV_fold_enter. kleafV.
  - intros s1. destruct (l_peers s1); [apply kxV_leader_maybe_commit | kleafV].
Qed.

Lemma kxV_tick_leader s : kxV s (tick_leader s).
Proof.
  unfold tick_leader. apply kxV_bind.
  - apply kxV_for_peers. intros s2 p. destruct (should_send s2 p); [apply kxV_send_app_ents | kleafV].
  - intros s1.
    match goal with |- kxV s1 (if ?c then _ else _) => destruct c end; [| kleafV].
    apply kxV_bind_pure. intros ok _. destruct ok; kleafV.
Qed.

Lemma kxV_handle_app_ents_resp s from su ix hi : kxV s (handle_app_ents_resp s from su ix hi).
Proof.
  unfold handle_app_ents_resp. destruct (peer_get from (l_peers s)); [| kleafV].
  destruct (ix <? pr_match p); [kleafV|]. destruct (negb su).
  - eapply kxV_pre; [| apply kxV_send_app_ents]. kvolV.
  - match goal with |- kxV s (if ?c then _ else _) => destruct c end; simpl; auto.
    apply kxV_bind.
    + match goal with |- kxV s (if ?c then _ else _) => destruct c end.
      * eapply kxV_pre; [| apply kxV_send_app_ents]. kvolV.
      * kleafV.
    + intros s2. apply kxV_leader_maybe_commit.
Qed.

Lemma kxV_leader_propose s es : kxV s (leader_propose s es).
Proof.
  unfold leader_propose. apply kxV_bind; [apply kxV_log_append|]. intros s1.
  apply kxV_bind.
  - apply kxV_for_peers. intros s3 p.
    match goal with |- kxV s3 (if ?c then _ else _) => destruct c end; [apply kxV_send_app_ents | kleafV].
  - intros s2. destruct (l_peers s2); [apply kxV_leader_maybe_commit | kleafV].
Qed.

Lemma kxV2_leader_add_node s m rnd : kxV2 s (leader_add_node s m rnd).
Proof.
  unfold leader_add_node. apply kxV2_bind_pure. intros _ _.
  destruct (n_conf s); simpl; auto.
  destruct (memb m (mb_members m0)); [simpl; apply keepV_refl|].
  destruct (negb (latest_conf_committed s)); [simpl; apply keepV_refl|].
  eapply kxV2_pre; [| apply kxV2_of_kx; apply kxV_leader_propose]. kvolV.
Qed.

Lemma kxV2_leader_remove_node s m : kxV2 s (leader_remove_node s m).
Proof.
  unfold leader_remove_node. apply kxV2_bind_pure. intros _ _.
  destruct (n_conf s); simpl; auto.
  destruct (negb (memb m (mb_members m0))); [simpl; apply keepV_refl|].
  destruct (negb (latest_conf_committed s)); [simpl; apply keepV_refl|].
  eapply kxV2_pre; [| apply kxV2_bind; [apply kxV_leader_propose |]].
  - kvolV.
  - intros s3. apply kxV2_of_kx. apply kxV_leader_maybe_commit.
Qed.

Lemma kxV_handle_leader s m : kxV s (handle_leader s m).
Proof.
  unfold handle_leader. destruct (m_body m).
  - exact I.
  - apply kxV_handle_app_ents_resp.
  - kleafV.
  - kleafV.
  - exact I.
Qed.

Lemma kxV_follower_maybe_commit s lc mi : kxV s (follower_maybe_commit s lc mi).
Proof. unfold follower_maybe_commit. destruct (n_commit s <? N.min mi lc); [apply kxV_commit_up_to | kleafV]. Qed.

Lemma fold_conf_keepV (app : list entry) : forall s,
  keepV s (fold_left (fun a e => if e_type e =? EntryConf then set_conf a (decode_conf e) else a) app s).
Proof.
  induction app as [| e r IH]; intros s; simpl; [apply keepV_refl|].
  destruct (e_type e =? EntryConf); [| apply IH].
  eapply keepV_trans; [| apply IH]. kvolV.
Qed.

Lemma kxV_handle_app_ents s from pi pt cm oes : kxV s (handle_app_ents s from pi pt cm oes).
Proof.
  unfold handle_app_ents.
  eapply kxV_pre with (s' := set_follower_contact s); [kvolV|].
  set (s0 := set_follower_contact s).
  apply kxV_bind_pure. intros ok _.
  destruct (negb ok); [kleafV|].
  destruct oes as [ents |].
  2: { eapply kxV_pre; [| apply kxV_follower_maybe_commit]. ksendV. }
  apply kxV_bind_pure. intros [ci any] _.
  apply kxV_bind.
  - destruct any; [| kleafV]. apply kxV_bind; [apply kxV_do_mut; exact I|]. intros s'.
    destruct (n_conf s'); [| kleafV]. destruct (ci <=? mb_index m); kleafV.
  - intros s1.
    destruct (last_ent_index ents <=? last_index (n_p s1)).
    + eapply kxV_pre; [| apply kxV_follower_maybe_commit]. ksendV.
    + destruct ents as [| e0 r]; simpl; auto.
      match goal with |- kxV s1 (if ?c then _ else _) => destruct c end; simpl; auto.
      match goal with |- kxV s1 (match ?x with _ => _ end) => destruct x as [| a0 ar] eqn:Eapp end; simpl; auto.
      match goal with |- kxV s1 (if ?c then _ else _) => destruct c end; simpl; auto.
      match goal with |- kxV s1 (bind (log_append ?x _) _) =>
        eapply kxV_pre with (s' := x); [apply (fold_conf_keepV (a0 :: ar) s1) |] end.
      apply kxV_bind; [apply kxV_log_append|]. intros s3.
      eapply kxV_pre; [| apply kxV_follower_maybe_commit]. ksendV.
Qed.

Lemma kxV_handle_snapshot s from li lt c : kxV s (handle_snapshot s from li lt c).
Proof.
  unfold handle_snapshot.
  eapply kxV_pre with (s' := set_follower_contact s); [kvolV|].
  set (s0 := set_follower_contact s).
  match goal with |- kxV s0 (match ?x with _ => _ end) => destruct x end; [kleafV|].
  apply kxV_bind; [apply kxV_do_mut; exact I|]. intros s1.
  apply kxV_bind_pure. intros il _.
  apply kxV_bind.
  - destruct il; [apply kxV_trim_log|]. apply kxV_bind; [apply kxV_do_mut; exact I|]. intros; kleafV.
  - intros s2. apply kxV_bind.
    + destruct (n_commit s2 <? li); [apply kxV_commit_up_to | kleafV].
    + intros s3. kleafV.
Qed.

Lemma kxV_snapshot_done s m : kxV s (snapshot_done s m).
Proof.
  unfold snapshot_done.
  match goal with |- kxV s (if ?c then _ else _) => destruct c end; [kleafV|].
  apply kxV_bind; [apply kxV_do_mut; exact I | intros; apply kxV_trim_log].
Qed.

Lemma kxV2_propose s es : kxV2 s (propose s es).
Proof.
  unfold propose. destruct (n_role s); try (simpl; apply keepV_refl).
  apply kxV2_of_kx. apply kxV_leader_propose.
Qed.

Lemma kxV2_add_node s m rnd : kxV2 s (add_node s m rnd).
Proof. unfold add_node. destruct (n_role s); try (simpl; apply keepV_refl). apply kxV2_leader_add_node. Qed.

Lemma kxV2_remove_node s m : kxV2 s (remove_node s m).
Proof. unfold remove_node. destruct (n_role s); try (simpl; apply keepV_refl). apply kxV2_leader_remove_node. Qed.
