(* Raft/ElectionExample.v — non-vacuity of election_safety_sys: a concrete run of the system (one node that bootstraps a
   one-member group, times out and elects itself) satisfies every hypothesis and ends with a leader in the history.
   (Multi-node elections with real message traffic are exercised on every run by the Go simulation, whose every step
   is compared with the same Core.run_event.) *)
From Coq Require Import List NArith ZArith Bool Lia.
From BLB Require Import Lib.LTS Raft.Core Raft.Wire Raft.Election.
Import ListNotations.
Open Scope N_scope.

Definition apply_step (σ : sys) (i : nid) (ev : event) (k : N) : sys :=
  match get_node i (sy_nodes σ) with
  | Some s => match run_event_crash (settle s) ev k with
              | Ret (_, _, s') => {| sy_nodes := put_node s' (sy_nodes σ); sy_soup := sy_soup σ ++ out_msgs s';
                                     sy_cast := sy_cast σ ++ cast_of s'; sy_hist := sy_hist σ ++ hist_of s' |}
              | _ => σ
              end
  | None => σ
  end.

Lemma sstep_exec q σ i ev k s crashed st s' :
  get_node i (sy_nodes σ) = Some s ->
  (forall m, ev = EDeliver m -> In m (sy_soup σ) /\ m_to m <> 0) ->
  run_event_crash (settle s) ev k = Ret (crashed, st, s') ->
  conf_okq q s' ->
  sstep q σ (i, ev, k) (apply_step σ i ev k).
Proof.
  intros G D Rn C. unfold apply_step. rewrite G, Rn. eapply SStep; eauto.
Qed.

Definition ex_cfg : config :=
  {| cf_follower_to := 2; cf_cand_to := 2; cf_hb_to := 1; cf_stepdown_to := 0; cf_snap_to := 4; cf_max_ents := 10; cf_keep := 0 |}.

Definition ex_node : node :=
  match new_core 1 ex_cfg (blank_pstate 7001) with Ret s => s | _ => blank_node 1 ex_cfg (blank_pstate 7001) end.

Definition ex0 : sys := {| sy_nodes := [ex_node]; sy_soup := []; sy_cast := []; sy_hist := [] |}.
Definition ex1 := apply_step ex0 1 (EBootstrap [1] 5) 0.
Definition ex2 := apply_step ex1 1 ETick 0.
Definition ex3 := apply_step ex2 1 ETick 0.
Definition ex4 := apply_step ex3 1 ERestart 0.
Definition ex5 := apply_step ex4 1 ETick 2.   (* crash right after the second durable mutation of this tick, if it has one *)

Ltac one_step :=
  eapply sstep_exec;
  [ vm_compute; reflexivity
  | intros m Hm; discriminate
  | vm_compute; reflexivity
  | let c := fresh in let H := fresh in intros c H; vm_compute in H; inversion H; vm_compute; reflexivity ].

Example election_safety_nonvacuous :
  exists σ0 sched σ t a,
    sinit (quorum_of (map n_id (sy_nodes σ0))) σ0 /\
    run sys sys_event (sstep (quorum_of (map n_id (sy_nodes σ0)))) σ0 sched σ /\
    In (t, a) (sy_hist σ) /\ length sched = 5%nat.
Proof.
  exists ex0, [(1, EBootstrap [1] 5, 0); (1, ETick, 0); (1, ETick, 0); (1, ERestart, 0); (1, ETick, 2)], ex5, 2, 1.
  split; [| split; [| split]].
  - unfold sinit. split; [| split; [| auto]].
    + simpl. constructor; [simpl; tauto | constructor].
    + intros s [H | []]. subst s. split; [vm_compute; discriminate|]. split; [reflexivity|].
      intros c Hc. vm_compute in Hc. discriminate.
  - change (quorum_of (map n_id (sy_nodes ex0))) with 1.
    apply run_cons with (s1 := ex1); [one_step|].
    apply run_cons with (s1 := ex2); [one_step|].
    apply run_cons with (s1 := ex3); [one_step|].
    apply run_cons with (s1 := ex4); [one_step|].
    apply run_cons with (s1 := ex5); [one_step|].
    apply run_nil.
  - vm_compute. auto.
  - reflexivity.
Qed.

(* the same run satisfies the schedule-level hypotheses of election_safety_fixed_membership *)
From BLB Require Import Raft.NodeConf Raft.ElectionFixed.

Lemma sstep2_exec n σ i ev k s crashed st s' :
  get_node i (sy_nodes σ) = Some s ->
  (forall m, ev = EDeliver m -> In m (sy_soup σ) /\ m_to m <> 0) ->
  evok2 n ev ->
  run_event_crash (settle s) ev k = Ret (crashed, st, s') ->
  sstep2 n σ (i, ev, k) (apply_step σ i ev k).
Proof.
  intros G D E Rn. unfold apply_step. rewrite G, Rn. eapply SStep2; eauto.
Qed.

Ltac one_step2 :=
  eapply sstep2_exec;
  [ vm_compute; reflexivity
  | intros m Hm; discriminate
  | simpl; auto
  | vm_compute; reflexivity ].

Example election_fixed_nonvacuous :
  exists σ0 sched σ t a,
    sinit2 σ0 /\ run sys sys_event (sstep2 (length (sy_nodes σ0))) σ0 sched σ /\ In (t, a) (sy_hist σ).
Proof.
  exists ex0, [(1, EBootstrap [1] 5, 0); (1, ETick, 0); (1, ETick, 0); (1, ERestart, 0); (1, ETick, 2)], ex5, 2, 1.
  split; [| split].
  - unfold sinit2. split; [| split; [| auto]].
    + simpl. constructor; [simpl; tauto | constructor].
    + intros s [H | []]. subst s. split; [vm_compute; discriminate|]. split; [reflexivity|].
      unfold sok, pok. vm_compute. repeat split; auto.
  - change (length (sy_nodes ex0)) with 1%nat.
    apply run_cons with (s1 := ex1); [one_step2|].
    apply run_cons with (s1 := ex2); [one_step2|].
    apply run_cons with (s1 := ex3); [one_step2|].
    apply run_cons with (s1 := ex4); [one_step2|].
    apply run_cons with (s1 := ex5); [one_step2|].
    apply run_nil.
  - vm_compute. auto.
Qed.
