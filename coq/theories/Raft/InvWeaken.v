(* Raft/InvWeaken.v — round 10: the node summary of Raft/LogMatchNodeQ.v (commit evidence counts the leader only as a member)
   implies the node summary of Raft/LogMatchNode.v. *)
From Coq Require Import List NArith ZArith Bool Lia ZifyN ZifyNat ZifyBool.
From BLB Require Import Raft.Core Raft.NodeProofs Raft.LogMatchLists Raft.LogMatchNode Raft.LogMatchNodeQ.
Import ListNotations.
Open Scope N_scope.

Definition cv (a : LogMatchNodeQ.ainp) : LogMatchNode.ainp :=
  {| LogMatchNode.ai_term := LogMatchNodeQ.ai_term a; LogMatchNode.ai_pi := LogMatchNodeQ.ai_pi a;
     LogMatchNode.ai_pt := LogMatchNodeQ.ai_pt a; LogMatchNode.ai_ents := LogMatchNodeQ.ai_ents a |}.

Lemma inp_of_cv ev : LogMatchNode.inp_of ev = option_map cv (LogMatchNodeQ.inp_of ev).
Proof. destruct ev; simpl; auto. destruct (m_body m); simpl; auto. destruct ents; reflexivity. Qed.

Lemma invQ_inv s0 inp boot RT VQ LQ DC RSP s :
  LogMatchNodeQ.inv s0 inp boot RT VQ LQ DC RSP s -> LogMatchNode.inv s0 (option_map cv inp) boot RT VQ LQ DC RSP s.
Proof.
  intros [A1 A2 A3 A4 A5 A6 A7 A8 A9 A10]. constructor; try assumption.
  - (* LR *)
    unfold LogMatchNodeQ.LR in A7. unfold LogMatchNode.LR. cbv zeta in *.
    destruct A7 as [X | [[X1 [X2 [a [c [Xa [Xt [X Xc]]]]]]] | [X | [X | [X1 [X2 [a [Xa [Xt Xm]]]]]]]]].
    + left. exact X.
    + right. left. split; [exact X1|]. split; [exact X2|]. exists (cv a), c. split; [rewrite Xa; reflexivity|].
      split; [exact Xt|]. split; [exact X | exact Xc].
    + right. right. left. exact X.
    + right. right. right. left. exact X.
    + right. right. right. right. split; [exact X1|]. split; [exact X2|]. exists (cv a). split; [rewrite Xa; reflexivity|].
      split; [exact Xt | exact Xm].
  - (* ext *)
    destruct A10 as [E1 [E2 [E3 E4]]]. split; [exact E1|]. split; [exact E2|]. split; [| exact E4].
    destruct E3 as [X | [X | [X | X]]]; [left; exact X | right; left; exact X | right; right; left | right; right; right].
    + destruct X as [B1 [B2 [B3 [c [Q [B4 [B5 [B6 B7]]]]]]]]. split; [exact B1|]. split; [exact B2|]. split; [exact B3|].
      exists c, Q. split; [exact B4|]. split; [exact B5|]. split; [exact B6|].
      intros v Hv. destruct (B7 v Hv) as [[Y _] | Y]; [left; exact Y | right; exact Y].
    + destruct X as [cm [a [D1 [D2 [D3 [D4 D5]]]]]]. exists cm, (cv a). split; [exact D1|]. split; [rewrite D2; reflexivity|].
      split; [exact D3|]. split; [exact D4 | exact D5].
Qed.

Lemma invQ_inv_ev s0 ev LQ s :
  LogMatchNodeQ.inv s0 (LogMatchNodeQ.inp_of ev) (LogMatchNodeQ.boot_of ev) (LogMatchNodeQ.rt_of ev) (LogMatchNodeQ.vq_of ev) LQ
    (LogMatchNodeQ.dc_of ev) (LogMatchNodeQ.rsp_of ev) s ->
  LogMatchNode.inv s0 (LogMatchNode.inp_of ev) (LogMatchNode.boot_of ev) (LogMatchNode.rt_of ev) (LogMatchNode.vq_of ev) LQ
    (LogMatchNode.dc_of ev) (LogMatchNode.rsp_of ev) s.
Proof. intro H. rewrite inp_of_cv. exact (invQ_inv _ _ _ _ _ _ _ _ _ H). Qed.
