(* Raft/SnapEventsQ.v — round 10: SnapshotDone seen on the virtual node, as in Raft/SnapEvents.v, with the node summary of
   Raft/LogMatchNodeQ.v as conclusion (generated from Raft/SnapEvents.v). *)
From Coq Require Import List NArith ZArith Bool Lia ZifyN ZifyNat ZifyBool.
From BLB Require Import Lib.LTS Raft.Core Raft.Wire Raft.NodeProofs Raft.NodeKeep Raft.NodeElect Raft.NodeConf Raft.Election Raft.ElectionFixed
  Raft.LogMatchLists Raft.CommitCount Raft.LogMatchNodeQ Raft.LogMatch Raft.SMSafetyNode Raft.SnapContig Raft.LogMatchNodeSQ Raft.SnapVirtualQ.
Import ListNotations.
Open Scope N_scope.

(* the metadata names an applied position of the logical log *)
Definition legitS (C : list entry) (s : node) (m : snapmeta) : Prop :=
  1 <= sn_index m /\ sn_index m <= n_commit s /\ sn_index m <= N.of_nat (length (C ++ p_log (n_p s))) /\
  term_at (C ++ p_log (n_p s)) (sn_index m) (sn_term m).

Definition sd_out (C : list entry) (s0 : node) (r : R node) : Prop :=
  match r with
  | Ret x => exists C', C' ++ p_log (n_p x) = C ++ p_log (n_p s0) /\ shape C' (n_p x) (n_commit s0) /\
                        same_pv (n_p s0) (n_p x) /\ vols s0 x
  | Crashed p => exists C', C' ++ p_log p = C ++ p_log (n_p s0) /\ shape C' p (n_commit s0) /\ same_pv (n_p s0) p
  | Fatal _ => True
  end.

Lemma snapshot_done_out C s0 m :
  shape C (n_p s0) (n_commit s0) ->
  (match p_snap (n_p s0) with Some cur => sn_index m <=? sn_index cur | None => false end = false -> legitS C s0 m) ->
  sd_out C s0 (snapshot_done s0 m).
Proof.
  intros Sh Lg. unfold snapshot_done.
  destruct (match p_snap (n_p s0) with Some cur => sn_index m <=? sn_index cur | None => false end) eqn:En.
  { simpl. exists C. split; [reflexivity|]. split; [exact Sh|]. split; [apply same_pv_refl | apply vols_refl]. }
  destruct (Lg eq_refl) as [L1 [L2 [L3 L4]]].
  assert (HC : N.of_nat (length C) <= sn_index m).
  { pose proof Sh as [_ Sx]. destruct (p_snap (n_p s0)) as [cur |].
    - apply N.leb_gt in En. lia.
    - rewrite Sx. simpl. lia. }
  set (p1 := apply_mut (n_p s0) (MSnapCommit m)).
  assert (Sh1 : shape C p1 (n_commit s0)) by (apply shape_snap; auto).
  assert (Pv1 : same_pv (n_p s0) p1) by (unfold same_pv, p1; simpl; auto).
  destruct (do_mut_cases (MSnapCommit m) s0) as [E | E]; rewrite E; cbv beta iota delta [bind].
  { simpl. exists C. split; [reflexivity|]. split; [exact Sh1 | exact Pv1]. }
  match goal with |- context [trim_log ?x _] => set (s1 := x) end.
  assert (Hs1 : sd_out C s0 (Ret s1)).
  { simpl. exists C. split; [reflexivity|]. split; [exact Sh1|]. split; [exact Pv1 | unfold vols; simpl; repeat split; reflexivity]. }
  unfold trim_log. change (p_log (n_p s1)) with (p_log (n_p s0)).
  destruct (shape_phys _ _ _ Sh) as [_ Wp].
  destruct (log_first (p_log (n_p s0))) as [fi |] eqn:Ef; [| exact Hs1].
  destruct (log_last (p_log (n_p s0))) as [li |] eqn:El; [| exact Hs1].
  assert (Hne : p_log (n_p s0) <> []) by (intro X; rewrite X in Ef; discriminate).
  rewrite (log_first_wf _ _ Wp Hne) in Ef. assert (Efi : fi = 1 + N.of_nat (length C)) by congruence. subst fi.
  destruct (sn_index m =? 1 + N.of_nat (length C) - 1); [exact Hs1|].
  destruct ((sn_index m <? 1 + N.of_nat (length C)) || (li <? sn_index m)) eqn:Eo; [exact Logic.I|].
  apply orb_false_iff in Eo. destruct Eo as [Eo1 _]. apply N.ltb_ge in Eo1.
  destruct (sn_index m - (1 + N.of_nat (length C)) <? cf_keep (n_cfg s1)) eqn:Ek; [exact Hs1|]. apply N.ltb_ge in Ek.
  set (u := sn_index m - cf_keep (n_cfg s1)).
  assert (Hu1 : u <= sn_index m) by (unfold u; lia).
  assert (Hu2 : N.of_nat (length C) <= u) by (unfold u; lia).
  destruct (shape_trim C p1 (n_commit s0) m u Sh1 eq_refl Hu1 Hu2) as [HL Sh2].
  set (n := N.to_nat (u - N.of_nat (length C))) in *.
  change (p_log p1) with (p_log (n_p s0)) in HL, Sh2.
  assert (Pv2 : same_pv (n_p s0) (apply_mut p1 (MTrim u))) by (unfold same_pv; simpl; auto).
  destruct (do_mut_cases (MTrim u) s1) as [E2 | E2]; rewrite E2.
  - simpl. exists (C ++ firstn n (p_log (n_p s0))). split; [exact HL|]. split; [exact Sh2 | exact Pv2].
  - simpl. exists (C ++ firstn n (p_log (n_p s0))). split; [exact HL|]. split; [exact Sh2|]. split; [exact Pv2 | unfold vols; simpl; repeat split; reflexivity].
Qed.

Lemma commit_up_to_log s i s1 : commit_up_to s i = Ret s1 -> p_log (n_p s1) = p_log (n_p s).
Proof.
  unfold commit_up_to.
  match goal with |- (match ?x with _ => _ end) = _ -> _ => destruct x as [m |] end.
  - destruct (negb (sn_index m =? i)); [discriminate|]. intro H. inversion H. reflexivity.
  - destruct (log_entries (n_p s) (n_commit s + 1) (i + 1)) as [ents | |]; simpl; try discriminate.
    match goal with |- (if ?c then _ else _) = _ -> _ => destruct c end.
    + match goal with |- (match ?x with _ => _ end) = _ -> _ => destruct x end; [| discriminate].
      unfold do_mut. match goal with |- (if ?c then _ else _) = _ -> _ => destruct c end; [discriminate|].
      intro H. inversion H. reflexivity.
    + intro H. inversion H. reflexivity.
Qed.

Lemma new_core_log C' id cfg p cm z : shape C' p cm -> new_core id cfg p = Ret z -> p_log (n_p z) = p_log p.
Proof.
  intros Sh. unfold new_core. rewrite (reconcile_keep C' id cfg p cm Sh). cbv beta iota delta [bind]. simpl n_p.
  destruct (p_snap p) as [mm |].
  - destruct (commit_up_to _ (sn_index mm)) as [y | |] eqn:Ey; simpl; try discriminate.
    apply commit_up_to_log in Ey. intro H. inversion H. simpl. rewrite Ey. reflexivity.
  - simpl. intro H. inversion H. reflexivity.
Qed.

(* ---------------------------------------------------------------- SnapshotDone as an abstract step of the virtual node *)
Definition rtF (idx t : N) : Prop := False.

Lemma fake_initial C C' s0 lg' :
  C' ++ lg' = C ++ p_log (n_p s0) ->
  vn C' (upd_p s0 (set_log (n_p s0) lg') (n_cnt s0) (n_muts s0)) = vn C s0.
Proof. intro H. unfold vn, vp, upd_p, set_log. simpl. rewrite H. reflexivity. Qed.

Theorem snapdone_invQ C s m k crashed st s' :
  base (vn C s) -> shape C (n_p s) (n_commit s) ->
  (match p_snap (n_p s) with Some cur => sn_index m <=? sn_index cur | None => false end = false -> legitS C s m) ->
  run_event_crash (settle s) (ESnapDone m) k = Ret (crashed, st, s') ->
  exists C', C' ++ p_log (n_p s') = C ++ p_log (n_p s) /\ shape C' (n_p s') (n_commit s') /\
             inv (with_budget (settle (vn C s)) k) (inp_of ETick) (boot_of ETick) (rt_of ETick) (vq_of ETick)
                 (lq_of (vn C s)) (dc_of ETick) (rsp_of ETick) (vn C' s').
Proof.
  intros Hb Sh Lg Hrun.
  destruct (step_facts _ _ _ _ _ _ Hrun) as [Hid [Hpx [Hm Hs]]].
  assert (Hrest : forall C', inv (with_budget (settle (vn C s)) k) (inp_of ETick) (boot_of ETick) (rt_of ETick) (vq_of ETick)
                               (lq_of (vn C s)) (dc_of ETick) (rsp_of ETick) (vn C' s') -> inv (with_budget (settle (vn C s)) k) (inp_of ETick) (boot_of ETick) (rt_of ETick) (vq_of ETick)
                 (lq_of (vn C s)) (dc_of ETick) (rsp_of ETick) (vn C' s')).
  { intros C' NI. exact NI. }
  revert Hrun. unfold run_event_crash. set (s0 := with_budget (settle s) k).
  assert (Sh0 : shape C (n_p s0) (n_commit s0)) by exact Sh.
  assert (Lg0 : match p_snap (n_p s0) with Some cur => sn_index m <=? sn_index cur | None => false end = false -> legitS C s0 m) by exact Lg.
  pose proof (snapshot_done_out C s0 m Sh0 Lg0) as Out.
  simpl run_event. unfold wrap0.
  set (v0 := with_budget (settle (vn C s)) k).
  assert (Hb0 : base v0) by (unfold base in *; simpl; exact Hb).
  assert (I0 : inv v0 None None (rt_of ETick) (vq_of ETick) (lq_of (vn C s)) (dc_of ETick) (rsp_of ETick) v0).
  { apply inv_start; [exact Hb0 | reflexivity]. }
  destruct (snapshot_done s0 m) as [x | c | p]; simpl in Out |- *; try discriminate.
  - destruct Out as [C' [HL [Sh' [Pv [V1 [V2 [V3 [V4 [V5 [V6 V7]]]]]]]]]].
    intro H. inversion H. subst. exists C'. split; [exact HL|]. split; [simpl; rewrite V5; exact Sh'|].
    apply Hrest. simpl inp_of. simpl boot_of.
    destruct Pv as [P1 [P2 [P3 P4]]].
    eapply inv_frame with (s := v0); [exact I0 | | | | | | | | |].
    + simpl. exact HL.
    + reflexivity.
    + simpl. exact P1.
    + left. simpl. exact V3.
    + left. simpl. exact V4.
    + simpl. exact V5.
    + simpl. exact V6.
    + simpl. exact V1.
    + exists []. simpl. rewrite V7. split; [reflexivity|]. split; [constructor|]. split; [left; constructor | constructor].
  - destruct Out as [C' [HL [Sh' [P1 [P2 [P3 P4]]]]]].
    set (f0 := upd_p s0 (set_log (n_p s0) (p_log p)) (n_cnt s0) (n_muts s0)).
    assert (Hf : vn C' f0 = vn C s0) by (apply fake_initial; exact HL).
    assert (Hq : forall t, p_term (n_p (vn C' f0)) < t -> lq_of (vn C s) (p_log (n_p (vn C' f0))) t).
    { rewrite Hf. intros t Ht. split; [reflexivity | exact Ht]. }
    assert (PS : pS C' f0 None None p).
    { split.
      - pose proof Hb as [_ [_ [Bn1 _]]]. constructor.
        + reflexivity.
        + apply (proj1 Sh').
        + simpl. rewrite HL. destruct Bn1 as [[X _] | X]; [left; exact X | right; rewrite P1; exact X].
        + simpl. rewrite P1. apply N.le_refl.
        + unfold LR. cbv zeta. left. reflexivity.
      - exists (n_commit s0). split; [exact Sh' | apply N.le_refl]. }
    pose proof (postS_new_core C' f0 None None (rt_of ETick) (vq_of ETick) (lq_of (vn C s)) Hq (dc_of ETick) (rsp_of ETick)
                  (n_id s) (n_cfg s) p PS) as Q.
    destruct (new_core (n_id s) (n_cfg s) p) as [z | |] eqn:En; simpl in *; try discriminate.
    intro H. inversion H. subst. destruct Q as [Iz Sz].
    assert (HLz : C' ++ p_log (n_p s') = C ++ p_log (n_p s)).
    { rewrite (new_core_log C' (n_id s) (n_cfg s) p (n_commit s0) s' Sh' En). exact HL. }
    exists C'. split; [exact HLz|]. split.
    + apply (shape_cm C' (n_p s') (cmS f0 s')); [exact Sz|]. intros mm Hmm. destruct Sz as [_ S2]. rewrite Hmm in S2. unfold cmS in S2. lia.
    + apply Hrest. rewrite Hf in Iz. exact Iz.
Qed.

