(* Raft/SnapContig.v — round 4 (A): log + snapshot is index-contiguous, node level, ALL events and all crash points.
   [contig p]: the physical log has consecutive indices starting at 1 or above; without a snapshot it is empty or starts at 1;
   with a snapshot (index i) it is empty or starts at most at i + 1 and reaches at least i (so the logical log - positions up
   to i covered by the snapshot, then the physical log - has no hole and no position twice with different meaning).
   [pcontig p] is what survives a crash between the two durable writes of handleSnapshot / fsmSnapshotDone; newCore's
   start-up reconciliation (fix F10) turns every pcontig store into a contig one.
   The only assumption on the input: the entries of a delivered AppEnts have consecutive indices - every AppEnts a node emits
   has (Raft/SnapContigMsgs.v). *)
From Coq Require Import List NArith ZArith Bool Lia ZifyN ZifyNat ZifyBool.
From BLB Require Import Raft.Core Raft.NodeProofs Raft.LogMatchLists.
Import ListNotations.
Open Scope N_scope.

(* ---------------------------------------------------------------- lists *)
Lemma mem_truncate_from f k l : wf_from f l -> mem_truncate k l = firstn (N.to_nat (k + 1 - f)) l.
Proof.
  intro H. set (n := N.to_nat (k + 1 - f)). rewrite <- (firstn_skipn n l) at 1. apply mem_truncate_split.
  - apply Forall_forall. intros e He. apply In_nth_error in He. destruct He as [j Hj].
    assert (Hlt : (j < n)%nat).
    { assert (X : nth_error (firstn n l) j <> None) by congruence. apply nth_error_Some in X.
      rewrite firstn_length in X. lia. }
    rewrite nth_error_firstn' in Hj. apply Nat.ltb_lt in Hlt. rewrite Hlt in Hj. apply Nat.ltb_lt in Hlt.
    rewrite (wf_from_nth f l j e H Hj). unfold n in Hlt. lia.
  - apply Forall_forall. intros e He. apply In_nth_error in He. destruct He as [j Hj].
    rewrite nth_error_skipn' in Hj. rewrite (wf_from_nth f l _ e H Hj). unfold n. lia.
Qed.

Lemma mem_trim_from f u l : wf_from f l -> mem_trim u l = skipn (N.to_nat (u + 1 - f)) l.
Proof.
  unfold mem_trim. revert f. induction l as [| e r IH]; intros f H; simpl.
  - destruct (N.to_nat (u + 1 - f)); reflexivity.
  - destruct H as [Hi H]. rewrite Hi. destruct (f <=? u) eqn:E.
    + apply N.leb_le in E. rewrite (IH (f + 1) H).
      replace (N.to_nat (u + 1 - f)) with (S (N.to_nat (u + 1 - (f + 1)))) by lia. reflexivity.
    + apply N.leb_gt in E. replace (N.to_nat (u + 1 - f)) with 0%nat by lia. reflexivity.
Qed.

Lemma mem_append_from f es : forall l, l <> [] -> wf_from f l ->
  wf_from f (fst (mem_append l es)) /\ exists x, fst (mem_append l es) = l ++ x.
Proof.
  induction es as [| e r IH]; intros l Hn Hl; simpl.
  - split; [exact Hl | exists []; rewrite app_nil_r; reflexivity].
  - rewrite (log_last_wf f l Hl Hn).
    destruct (e_index e =? f + N.of_nat (length l) - 1 + 1) eqn:E.
    + apply N.eqb_eq in E.
      assert (Hl' : wf_from f (l ++ [e])).
      { apply wf_from_app. split; auto. cbn [wf_from]. split; auto. destruct l; [congruence|]. simpl length in *. lia. }
      destruct (IH (l ++ [e]) ltac:(destruct l; discriminate) Hl') as [A [x B]].
      split; [exact A|]. exists (e :: x). rewrite B, <- app_assoc. reflexivity.
    + simpl. split; [exact Hl | exists []; rewrite app_nil_r; reflexivity].
Qed.

Lemma mem_append_nil e r :
  wf_from (e_index e) (fst (mem_append [] (e :: r))) /\ exists x, fst (mem_append [] (e :: r)) = e :: x.
Proof.
  simpl. unfold log_last. simpl.
  destruct (mem_append_from (e_index e) r [e] ltac:(discriminate)) as [A [x B]].
  - cbn [wf_from]. auto.
  - split; [exact A | exists x; exact B].
Qed.

Lemma entries_loop_out l : forall b e es, entries_loop l b e = Ret es -> wf_from b es.
Proof.
  induction l as [| x r IH]; intros b e es; simpl.
  - intro H. inversion H. exact I.
  - destruct (e_index x =? b) eqn:E; simpl; [| discriminate]. apply N.eqb_eq in E.
    destruct (e <=? e_index x); [intro H; inversion H; exact I|].
    destruct (entries_loop r (b + 1) e) as [y | |] eqn:Ey; simpl; try discriminate.
    intro H. inversion H. subst es. cbn [wf_from]. split; [exact E | eapply IH; eauto].
Qed.

(* ---------------------------------------------------------------- the invariant *)
Definition lwf (l : list entry) : Prop := match l with [] => True | e :: _ => 1 <= e_index e /\ wf_from (e_index e) l end.

Definition contig (p : pstate) : Prop :=
  lwf (p_log p) /\
  match p_log p, p_snap p with
  | [], _ => True
  | e :: _, None => e_index e = 1
  | e :: _, Some m => e_index e <= sn_index m + 1 /\ sn_index m + 1 <= e_index e + N.of_nat (length (p_log p))
  end.

Definition pcontig (p : pstate) : Prop :=
  lwf (p_log p) /\ match p_log p, p_snap p with e :: _, None => e_index e = 1 | _, _ => True end.

Lemma contig_pcontig p : contig p -> pcontig p.
Proof.
  unfold contig, pcontig. intros [A B]. split; [exact A|]. destruct (p_log p); auto. destruct (p_snap p); auto.
Qed.

Lemma contig_ext p p' : p_log p' = p_log p -> p_snap p' = p_snap p -> contig p -> contig p'.
Proof. unfold contig. intros A B. rewrite A, B. auto. Qed.

Lemma pcontig_ext p p' : p_log p' = p_log p -> p_snap p' = p_snap p -> pcontig p -> pcontig p'.
Proof. unfold pcontig. intros A B. rewrite A, B. auto. Qed.

Lemma last_index_contig p e r :
  p_log p = e :: r -> wf_from (e_index e) (p_log p) -> last_index p = e_index e + N.of_nat (length (p_log p)) - 1.
Proof.
  intros E H. unfold last_index. rewrite (log_last_wf (e_index e) (p_log p) H); [reflexivity | rewrite E; discriminate].
Qed.

(* append: the first new entry continues the last index (of the log, or of the snapshot when the log is empty) *)
Definition continues (p : pstate) (es : list entry) : Prop :=
  match es with [] => True | e :: _ => e_index e = last_index p + 1 end.

Lemma append_contig p es : contig p -> continues p es -> contig (set_log p (fst (mem_append (p_log p) es))).
Proof.
  intros [A B] C. unfold contig. simpl.
  destruct (p_log p) as [| x t] eqn:El.
  - destruct es as [| e r]; simpl; [split; exact I|].
    unfold continues, last_index in C. rewrite El in C. simpl in C.
    destruct (mem_append_nil e r) as [W [y Y]]. simpl in Y, W. unfold log_last in *. simpl in *. rewrite Y in *.
    split; [simpl; split; [lia | exact W]|].
    destruct (p_snap p) as [m |]; simpl length; lia.
  - destruct A as [A1 A2].
    destruct (mem_append_from (e_index x) es (x :: t) ltac:(discriminate) A2) as [W [y Y]].
    rewrite Y in *. simpl. split; [split; [exact A1 | exact W]|].
    destruct (p_snap p) as [m |]; [| exact B]. rewrite app_length. simpl length in *. lia.
Qed.

Lemma trunc_pcontig p k : pcontig p -> pcontig (set_log p (mem_truncate k (p_log p))).
Proof.
  intros [A B]. unfold pcontig. simpl.
  destruct (p_log p) as [| x t] eqn:El; [unfold mem_truncate; simpl; auto|].
  destruct A as [A1 A2]. rewrite (mem_truncate_from (e_index x) k (x :: t) A2).
  destruct (N.to_nat (k + 1 - e_index x)) as [| n]; [simpl; auto|]. simpl firstn.
  split; [split; [exact A1|] | exact B].
  apply (wf_from_firstn (e_index x) (x :: t) (S n) A2).
Qed.

Lemma trunc_contig p k :
  contig p -> (forall m, p_snap p = Some m -> sn_index m <= k) -> contig (set_log p (mem_truncate k (p_log p))).
Proof.
  intros [A B] C. unfold contig. simpl.
  destruct (p_log p) as [| x t] eqn:El; [unfold mem_truncate; simpl; auto|].
  destruct A as [A1 A2]. rewrite (mem_truncate_from (e_index x) k (x :: t) A2).
  destruct (N.to_nat (k + 1 - e_index x)) as [| n] eqn:En; [simpl; auto|]. simpl firstn.
  split; [split; [exact A1 | apply (wf_from_firstn (e_index x) (x :: t) (S n) A2)]|].
  destruct (p_snap p) as [m |]; [| exact B]. specialize (C m eq_refl).
  simpl length in *. rewrite firstn_length. lia.
Qed.

Lemma trunc0_contig p : pcontig p -> contig (set_log p (mem_truncate 0 (p_log p))).
Proof.
  intros [A B]. unfold contig. simpl.
  destruct (p_log p) as [| x t] eqn:El; [unfold mem_truncate; simpl; auto|].
  destruct A as [A1 A2]. rewrite (mem_truncate_from (e_index x) 0 (x :: t) A2).
  replace (N.to_nat (0 + 1 - e_index x)) with 0%nat by lia. simpl. auto.
Qed.

(* ---------------------------------------------------------------- relational pass *)
Definition ck (s s' : node) : Prop := contig (n_p s) -> contig (n_p s').

Lemma ck_refl s : ck s s.
Proof. intro H. exact H. Qed.

Lemma ck_trans a b c : ck a b -> ck b c -> ck a c.
Proof. intros A B H. apply B. apply A. exact H. Qed.

Lemma ck_vol s s' : p_log (n_p s') = p_log (n_p s) -> p_snap (n_p s') = p_snap (n_p s) -> ck s s'.
Proof. intros A B H. eapply contig_ext; eauto. Qed.

Definition cx (s : node) (r : R node) : Prop :=
  match r with Ret s' => ck s s' | Crashed p => contig (n_p s) -> pcontig p | Fatal _ => True end.
Definition cx2 (s : node) (r : R (N * node)) : Prop :=
  match r with Ret (_, s') => ck s s' | Crashed p => contig (n_p s) -> pcontig p | Fatal _ => True end.

Lemma cx_bind s (a : R node) (f : node -> R node) :
  cx s a -> (forall s1, cx s1 (f s1)) -> cx s (bind a f).
Proof.
  intros Ha Hf. destruct a as [s1 | c | p]; simpl in *; auto.
  specialize (Hf s1). destruct (f s1); simpl in *; auto.
  all: try solve [eapply ck_trans; eauto]; try solve [intro X0; apply Hf; apply Ha; exact X0].
Qed.

Lemma cx_bind_pure {A} s (a : R A) (f : A -> R node) :
  pure a -> (forall x, a = Ret x -> cx s (f x)) -> cx s (bind a f).
Proof. intros Hp Hf. destruct a; simpl in *; auto. contradiction. Qed.

Lemma cx_pre s s' r : ck s s' -> cx s' r -> cx s r.
Proof.
  intros H K. destruct r; simpl in *; auto.
  all: try solve [eapply ck_trans; eauto]; try solve [intro X0; apply K; apply H; exact X0].
Qed.

Lemma cx2_bind s (a : R node) (f : node -> R (N * node)) :
  cx s a -> (forall s1, cx2 s1 (f s1)) -> cx2 s (bind a f).
Proof.
  intros Ha Hf. destruct a as [s1 | c | p]; simpl in *; auto.
  specialize (Hf s1). destruct (f s1) as [[st s2] | |]; simpl in *; auto.
  all: try solve [eapply ck_trans; eauto]; try solve [intro X0; apply Hf; apply Ha; exact X0].
Qed.

Lemma cx2_bind_pure {A} s (a : R A) (f : A -> R (N * node)) :
  pure a -> (forall x, a = Ret x -> cx2 s (f x)) -> cx2 s (bind a f).
Proof. intros Hp Hf. destruct a; simpl in *; auto. contradiction. Qed.

Lemma cx2_pre s s' r : ck s s' -> cx2 s' r -> cx2 s r.
Proof.
  intros H K. destruct r as [[st x] | |]; simpl in *; auto.
  all: try solve [eapply ck_trans; eauto]; try solve [intro X0; apply K; apply H; exact X0].
Qed.

Lemma cx2_of_cx s r st : cx s r -> cx2 s (s1 <- r ;; Ret (st, s1)).
Proof. destruct r; simpl; auto. Qed.

Ltac cvol := apply ck_vol; simpl; reflexivity.
Ltac cleaf := simpl; solve [cvol].
Ltac csend := cleaf.

Definition keeps_ls (m : mut) : Prop :=
  match m with MAppend _ | MTruncate _ | MTrim _ | MSnapCommit _ => False | _ => True end.

Lemma keeps_ls_eq p m : keeps_ls m -> p_log (apply_mut p m) = p_log p /\ p_snap (apply_mut p m) = p_snap p.
Proof. destruct m; simpl; intro H; try contradiction; auto. Qed.

Lemma cx_do_mut s m : keeps_ls m -> cx s (do_mut m s).
Proof.
  intro H. destruct (keeps_ls_eq (n_p s) m H) as [A B]. unfold do_mut.
  destruct (negb (n_budget s =? 0) && (n_budget s =? n_cnt s + 1)); simpl.
  - intro C. apply contig_pcontig. eapply contig_ext; eauto.
  - apply ck_vol; simpl; auto.
Qed.

Lemma cx_do_mut_gen s m :
  (contig (n_p s) -> contig (apply_mut (n_p s) m)) -> cx s (do_mut m s).
Proof.
  intro H. unfold do_mut.
  destruct (negb (n_budget s =? 0) && (n_budget s =? n_cnt s + 1)); simpl.
  - intro C. apply contig_pcontig. auto.
  - intro C. simpl. auto.
Qed.

Lemma do_mut_ret m s s1 : do_mut m s = Ret s1 -> n_commit s1 = n_commit s /\ n_p s1 = apply_mut (n_p s) m /\ n_cfg s1 = n_cfg s.
Proof.
  unfold do_mut. destruct (negb (n_budget s =? 0) && (n_budget s =? n_cnt s + 1)); [discriminate|].
  intro H. inversion H. simpl. auto.
Qed.

Lemma do_mut_crashed m s p : do_mut m s = Crashed p -> p = apply_mut (n_p s) m.
Proof.
  unfold do_mut. destruct (negb (n_budget s =? 0) && (n_budget s =? n_cnt s + 1)); [| discriminate].
  intro H. inversion H. reflexivity.
Qed.

(* ---------------------------------------------------------------- handlers *)
Lemma cx_log_append s es : continues (n_p s) es -> cx s (log_append s es).
Proof.
  intro Hc. unfold log_append. apply cx_bind.
  - apply cx_do_mut_gen. intro C. simpl. apply append_contig; auto.
  - intros s1. destruct (snd (mem_append (p_log (n_p s)) es)); simpl; auto using ck_refl.
Qed.

Lemma cx_commit_up_to s i : cx s (commit_up_to s i).
Proof.
  unfold commit_up_to.
  destruct (p_snap (n_p s)) as [m |].
  - destruct (n_commit s <? sn_index m) eqn:E.
    + destruct (negb (sn_index m =? i)) eqn:E3; simpl; auto. cvol.
    + apply cx_bind_pure; [apply pure_log_entries|]. intros ents _.
      match goal with |- cx s (if ?c then _ else _) => destruct c end; [| cleaf].
      match goal with |- cx s (match ?x with _ => _ end) => destruct x eqn:E2 end; simpl; auto.
      eapply cx_pre; [| apply cx_do_mut; exact I]. cvol.
  - apply cx_bind_pure; [apply pure_log_entries|]. intros ents _.
    match goal with |- cx s (if ?c then _ else _) => destruct c end; [| cleaf].
    match goal with |- cx s (match ?x with _ => _ end) => destruct x eqn:E2 end; simpl; auto.
    eapply cx_pre; [| apply cx_do_mut; exact I]. cvol.
Qed.

Lemma cx_send_app_ents s p : cx s (send_app_ents s p).
Proof.
  unfold send_app_ents. apply cx_bind_pure; [apply pure_get_app_ents|]. intros ob Hob.
  destruct ob as [b |].
  - cleaf.
  - destruct (p_snap (n_p s)); simpl; auto. destruct (sn_conf s0); simpl; auto. cvol.
Qed.

Lemma cx_for_peers ids f s :
  (forall s1 p, cx s1 (f s1 p)) -> cx s (for_peers ids f s).
Proof.
  intro Hf. revert s. induction ids as [| id r IH]; intros s; simpl.
  - apply ck_refl.
  - destruct (peer_get id (l_peers s)); auto. apply cx_bind; auto.
Qed.

Lemma cx_leader_commit_up_to s i : cx s (leader_commit_up_to s i).
Proof.
  unfold leader_commit_up_to. apply cx_bind; [apply cx_commit_up_to|]. intros s1.
  match goal with |- cx s1 (if ?c then _ else _) => destruct c end; cleaf.
Qed.

Lemma cx_leader_maybe_commit s : cx s (leader_maybe_commit s).
Proof.
  unfold leader_maybe_commit. apply cx_bind_pure; [apply pure_find_majority_index|]. intros mi _.
  destruct (n_commit s <? mi) eqn:Ec; [| cleaf]. apply N.ltb_lt in Ec.
  apply cx_bind_pure; [apply pure_st_term|]. intros [t ok] _.
  destruct (negb ok); simpl; auto. destruct (negb (t =? p_term (n_p s))); [cleaf|].
  apply cx_bind; [apply cx_leader_commit_up_to|]. intros s1.
  apply cx_for_peers. intros s2 p. destruct (pr_match p =? last_index (n_p s2)); [apply cx_send_app_ents | cleaf].
Qed.

Lemma cx_fold_enter (others : list nid) li : forall (acc : R node) s,
  cx s acc ->
  cx s (fold_left (fun (acc : R node) (m : nid) =>
                     a <- acc ;;
                     let p := mk_peer m (li + 1) 0 false 0 0 in
                     let a1 := set_leader a (l_check a) (peer_set p (l_peers a)) in
                     send_app_ents a1 p) others acc).
Proof.
  induction others as [| m r IH]; intros acc s H; simpl; auto.
  apply IH. apply cx_bind; auto. intros s1.
  eapply cx_pre; [| apply cx_send_app_ents]. cvol.
Qed.

Lemma cx_enter_leader s : cx s (enter_leader s).
Proof.
  unfold enter_leader. destruct (n_conf s); simpl; auto.
  apply cx_bind.
  - apply cx_fold_enter. cleaf.
  - intros s1. destruct (l_peers s1); [apply cx_leader_maybe_commit | cleaf].
Qed.

Lemma cx_tick_leader s : cx s (tick_leader s).
Proof.
  unfold tick_leader. apply cx_bind.
  - apply cx_for_peers. intros s2 p. destruct (should_send s2 p); [apply cx_send_app_ents | cleaf].
  - intros s1.
    match goal with |- cx s1 (if ?c then _ else _) => destruct c end; [| cleaf].
    apply cx_bind_pure; [apply pure_check_quorum_active|]. intros ok _. destruct ok; cleaf.
Qed.

Lemma cx_handle_app_ents_resp s from su ix hi : cx s (handle_app_ents_resp s from su ix hi).
Proof.
  unfold handle_app_ents_resp. destruct (peer_get from (l_peers s)); [| cleaf].
  destruct (ix <? pr_match p); [cleaf|]. destruct (negb su).
  - eapply cx_pre; [| apply cx_send_app_ents]. cvol.
  - match goal with |- cx s (if ?c then _ else _) => destruct c end; simpl; auto.
    apply cx_bind.
    + match goal with |- cx s (if ?c then _ else _) => destruct c end.
      * eapply cx_pre; [| apply cx_send_app_ents]. cvol.
      * cleaf.
    + intros s2. apply cx_leader_maybe_commit.
Qed.

Lemma cx_leader_propose s es : cx s (leader_propose s es).
Proof.
  unfold leader_propose. apply cx_bind.
  { apply cx_log_append. destruct es; simpl; auto. }
  intros s1.
  apply cx_bind.
  - apply cx_for_peers. intros s3 p.
    match goal with |- cx s3 (if ?c then _ else _) => destruct c end; [apply cx_send_app_ents | cleaf].
  - intros s2. destruct (l_peers s2); [apply cx_leader_maybe_commit | cleaf].
Qed.

Lemma cx2_leader_add_node s m rnd : cx2 s (leader_add_node s m rnd).
Proof.
  unfold leader_add_node. apply cx2_bind_pure; [apply pure_verify_nop_committed|]. intros _ _.
  destruct (n_conf s); simpl; auto.
  destruct (memb m (mb_members m0)); [simpl; apply ck_refl|].
  destruct (negb (latest_conf_committed s)); [simpl; apply ck_refl|].
  eapply cx2_pre; [| apply cx2_of_cx; apply cx_leader_propose]. cvol.
Qed.

Lemma cx2_leader_remove_node s m : cx2 s (leader_remove_node s m).
Proof.
  unfold leader_remove_node. apply cx2_bind_pure; [apply pure_verify_nop_committed|]. intros _ _.
  destruct (n_conf s); simpl; auto.
  destruct (negb (memb m (mb_members m0))); [simpl; apply ck_refl|].
  destruct (negb (latest_conf_committed s)); [simpl; apply ck_refl|].
  eapply cx2_pre; [| apply cx2_bind; [apply cx_leader_propose |]].
  - cvol.
  - intros s3. apply cx2_of_cx. apply cx_leader_maybe_commit.
Qed.

Lemma cx_handle_leader s m : cx s (handle_leader s m).
Proof.
  unfold handle_leader. destruct (m_body m).
  - exact I.
  - apply cx_handle_app_ents_resp.
  - cleaf.
  - cleaf.
  - exact I.
Qed.

Lemma cx_follower_maybe_commit s lc mi : cx s (follower_maybe_commit s lc mi).
Proof.
  unfold follower_maybe_commit. destruct (n_commit s <? N.min mi lc) eqn:E; [| cleaf].
  apply cx_commit_up_to.
Qed.

Lemma fold_conf_np (app : list entry) : forall s,
  n_p (fold_left (fun a e => if e_type e =? EntryConf then set_conf a (decode_conf e) else a) app s) = n_p s.
Proof.
  induction app as [| e r IH]; intros s; simpl; [reflexivity|].
  destruct (e_type e =? EntryConf); rewrite IH; reflexivity.
Qed.

(* ---------------------------------------------------------------- AppEnts: the truncation point is above the snapshot *)
Definition ents_wf (es : list entry) : Prop := match es with [] => True | e :: _ => wf_from (e_index e) es end.

Definition mwf (m : msg) : Prop :=
  match m_body m with AppEnts _ _ _ (Some es) => ents_wf es | _ => True end.

Lemma conflict_loop_src cnt : forall idx off ents il ci,
  conflict_loop cnt idx off ents il = Ret (ci, true) ->
  exists j a, (idx + off <= j)%nat /\ nth_error ents j = Some a /\ ci = e_index a.
Proof.
  induction cnt as [| c IH]; intros idx off ents il ci; simpl; [discriminate|].
  destruct (nth_error ents (idx + off)) as [a |] eqn:Ea; [| discriminate].
  destruct (nth_error il idx) as [b |]; [| discriminate].
  destruct (negb (e_term a =? e_term b)).
  - intro H. inversion H. exists (idx + off)%nat, a. auto.
  - intro H. destruct (IH _ _ _ _ _ H) as [j [x [A [B C]]]]. exists j, x. split; [lia | auto].
Qed.

Lemma conflict_index_above s ents ci m :
  ents_wf ents -> conflict_index s ents = Ret (ci, true) -> p_snap (n_p s) = Some m -> sn_index m + 1 <= ci.
Proof.
  unfold conflict_index, ents_wf. destruct ents as [| e0 r]; [discriminate|]. intros W H Hs. rewrite Hs in H.
  destruct (e_index e0 =? last_index (n_p s) + 1); [discriminate|].
  destruct (last_index (n_p s) + 1 <? e_index e0); [discriminate|].
  destruct (last_ent_index (e0 :: r) <=? sn_index m); [discriminate|].
  destruct (log_last (p_log (n_p s))) as [lli |]; [| discriminate].
  match type of H with bind ?x _ = _ => destruct x as [il | |]; try discriminate end.
  cbv beta iota delta [bind] in H.
  apply conflict_loop_src in H. destruct H as [j [a [Hj [Ha Hc]]]].
  rewrite (wf_from_nth _ _ _ _ W Ha) in Hc. lia.
Qed.

Lemma cx_handle_app_ents s from pi pt cm oes :
  match oes with Some es => ents_wf es | None => True end -> cx s (handle_app_ents s from pi pt cm oes).
Proof.
  intro W. unfold handle_app_ents.
  eapply cx_pre with (s' := set_follower_contact s); [cvol|].
  set (s0 := set_follower_contact s).
  apply cx_bind_pure; [apply pure_has_entry|]. intros ok _.
  destruct (negb ok); [cleaf|].
  destruct oes as [ents |].
  2: { eapply cx_pre; [| apply cx_follower_maybe_commit]. csend. }
  apply cx_bind_pure; [apply pure_conflict_index|]. intros [ci any] Hci.
  apply cx_bind.
  - destruct any; [| cleaf]. apply cx_bind.
    + apply cx_do_mut_gen. intro C. simpl. apply trunc_contig; [exact C|].
      intros m Hm. pose proof (conflict_index_above s0 ents ci m W Hci Hm). lia.
    + intros s'. destruct (n_conf s'); [| cleaf]. destruct (ci <=? mb_index m); cleaf.
  - intros s1.
    destruct (last_ent_index ents <=? last_index (n_p s1)).
    + eapply cx_pre; [| apply cx_follower_maybe_commit]. csend.
    + destruct ents as [| e0 r]; simpl; auto.
      match goal with |- cx s1 (if ?c then _ else _) => destruct c end; simpl; auto.
      match goal with |- cx s1 (match ?x with _ => _ end) => destruct x as [| a0 ar] eqn:Eapp end; simpl; auto.
      match goal with |- cx s1 (if ?c then _ else _) => destruct c eqn:Ea0 end; simpl; auto.
      apply negb_false_iff in Ea0. apply N.eqb_eq in Ea0.
      match goal with |- cx s1 (bind (log_append ?x _) _) =>
        assert (Hx : n_p x = n_p s1) by (rewrite fold_conf_np; destruct (e_type a0 =? EntryConf); reflexivity);
        eapply cx_pre with (s' := x); [apply ck_vol; rewrite Hx; reflexivity |] end.
      apply cx_bind.
      * apply cx_log_append. unfold continues. rewrite Hx. exact Ea0.
      * intros s3. eapply cx_pre; [| apply cx_follower_maybe_commit]. csend.
Qed.

(* ---------------------------------------------------------------- snapshot writes: outcome-style lemmas *)
Definition ox (r : R node) : Prop :=
  match r with Ret s' => contig (n_p s') | Crashed p => pcontig p | Fatal _ => True end.

Lemma cx_of_ox s r : (contig (n_p s) -> ox r) -> cx s r.
Proof. intro H. destruct r; simpl in *; auto. Qed.

Lemma ox_bind (a : R node) (f : node -> R node) : ox a -> (forall s1, cx s1 (f s1)) -> ox (bind a f).
Proof.
  intros Ha Hf. destruct a as [s1 | c | p]; simpl in *; auto.
  specialize (Hf s1). destruct (f s1); simpl in *; auto.
Qed.

Lemma snapcommit_pcontig p M : pcontig p -> pcontig (apply_mut p (MSnapCommit M)).
Proof. unfold pcontig. simpl. intros [A B]. split; [exact A|]. destruct (p_log p); auto. Qed.

Lemma skipn_contig p m f n :
  p_snap p = Some m -> 1 <= f -> wf_from f (p_log p) ->
  f + N.of_nat n <= sn_index m + 1 -> sn_index m + 1 <= f + N.of_nat (length (p_log p)) ->
  contig (set_log p (skipn n (p_log p))).
Proof.
  intros Hs H1 W A B. unfold contig. simpl. rewrite Hs.
  pose proof (wf_from_skipn f (p_log p) n W) as W'. pose proof (skipn_length n (p_log p)) as L.
  destruct (skipn n (p_log p)) as [| y t'] eqn:Es; [auto|].
  cbn [wf_from] in W'. destruct W' as [Hy W'].
  split.
  - simpl. split; [lia|]. rewrite Hy. cbn [wf_from]. split; [reflexivity | exact W'].
  - simpl length in *. lia.
Qed.

Lemma trim_log_ox s i m : pcontig (n_p s) -> p_snap (n_p s) = Some m -> sn_index m = i -> ox (trim_log s i).
Proof.
  intros [A B] Hs Hi. unfold trim_log.
  destruct (p_log (n_p s)) as [| x t] eqn:El.
  - simpl. unfold contig. rewrite El. simpl. auto.
  - destruct A as [A1 A2]. rewrite <- El in A2.
    assert (K : forall (X : e_index x <= i + 1) (Y : i + 1 <= e_index x + N.of_nat (length (p_log (n_p s)))), contig (n_p s)).
    { intros X Y. unfold contig. rewrite El, Hs. rewrite El in A2, Y. split; [split; auto|]. lia. }
    rewrite <- El. rewrite (log_first_wf _ _ A2) by (rewrite El; discriminate).
    rewrite (log_last_wf _ _ A2) by (rewrite El; discriminate).
    assert (Ln : (1 <= length (p_log (n_p s)))%nat) by (rewrite El; simpl; lia).
    destruct (i =? e_index x - 1) eqn:E1.
    { apply N.eqb_eq in E1. simpl. apply K; lia. }
    destruct ((i <? e_index x) || (e_index x + N.of_nat (length (p_log (n_p s))) - 1 <? i)) eqn:E2; [exact I|].
    apply orb_false_iff in E2. destruct E2 as [E2 E3]. apply N.ltb_ge in E2. apply N.ltb_ge in E3.
    destruct (i - e_index x <? cf_keep (n_cfg s)) eqn:E4.
    { simpl. apply K; lia. }
    apply N.ltb_ge in E4.
    assert (C : contig (apply_mut (n_p s) (MTrim (i - cf_keep (n_cfg s))))).
    { simpl. rewrite (mem_trim_from _ _ _ A2).
      apply (skipn_contig (n_p s) m (e_index x)); auto; lia. }
    unfold do_mut. destruct (negb (n_budget s =? 0) && (n_budget s =? n_cnt s + 1)); simpl.
    + apply contig_pcontig. exact C.
    + exact C.
Qed.

Lemma trunc0_ox s : pcontig (n_p s) -> ox (do_mut (MTruncate 0) s).
Proof.
  intro H. unfold do_mut. destruct (negb (n_budget s =? 0) && (n_budget s =? n_cnt s + 1)); simpl.
  - apply contig_pcontig. apply trunc0_contig. exact H.
  - apply trunc0_contig. exact H.
Qed.

Lemma cx_handle_snapshot s from li lt c : cx s (handle_snapshot s from li lt c).
Proof.
  unfold handle_snapshot.
  eapply cx_pre with (s' := set_follower_contact s); [cvol|].
  set (s0 := set_follower_contact s).
  match goal with |- cx s0 (match ?x with _ => _ end) => destruct x end; [cleaf|].
  set (M := {| sn_index := li; sn_term := lt; sn_conf := Some c |}).
  apply cx_of_ox. intro C. apply contig_pcontig in C.
  destruct (do_mut (MSnapCommit M) s0) as [s1 | |p] eqn:E1; simpl; auto.
  2: { apply do_mut_crashed in E1. subst p. apply snapcommit_pcontig. exact C. }
  apply do_mut_ret in E1. destruct E1 as [C1 [P1 _]].
  assert (Q1 : pcontig (n_p s1)) by (rewrite P1; apply snapcommit_pcontig; exact C).
  assert (S1 : p_snap (n_p s1) = Some M) by (rewrite P1; reflexivity).
  pose proof (pure_in_log (n_p s1) li lt) as Pu.
  destruct (in_log (n_p s1) li lt) as [il | |]; simpl in *; auto; [| contradiction].
  apply ox_bind.
  - destruct il.
    + apply (trim_log_ox s1 li M); auto.
    + pose proof (trunc0_ox s1 Q1) as T. destruct (do_mut (MTruncate 0) s1); simpl in *; auto.
  - intros s2. apply cx_bind.
    + destruct (n_commit s2 <? li); [apply cx_commit_up_to | cleaf].
    + intros s3. cleaf.
Qed.

Lemma cx_snapshot_done s m : cx s (snapshot_done s m).
Proof.
  unfold snapshot_done.
  match goal with |- cx s (if ?c then _ else _) => destruct c end; [cleaf|].
  apply cx_of_ox. intro C. apply contig_pcontig in C.
  destruct (do_mut (MSnapCommit m) s) as [s1 | |p] eqn:E1; simpl; auto.
  2: { apply do_mut_crashed in E1. subst p. apply snapcommit_pcontig. exact C. }
  apply do_mut_ret in E1. destruct E1 as [C1 [P1 _]].
  apply (trim_log_ox s1 (sn_index m) m); auto; rewrite P1; [apply snapcommit_pcontig; exact C | reflexivity].
Qed.

Lemma cx2_propose s es : cx2 s (propose s es).
Proof.
  unfold propose. destruct (n_role s); try (simpl; apply ck_refl).
  apply cx2_of_cx. apply cx_leader_propose.
Qed.

Lemma cx2_add_node s m rnd : cx2 s (add_node s m rnd).
Proof. unfold add_node. destruct (n_role s); try (simpl; apply ck_refl). apply cx2_leader_add_node. Qed.

Lemma cx2_remove_node s m : cx2 s (remove_node s m).
Proof. unfold remove_node. destruct (n_role s); try (simpl; apply ck_refl). apply cx2_leader_remove_node. Qed.

(* ---------------------------------------------------------------- the remaining handlers *)
Lemma cx_become_leader s : cx s (become_leader s).
Proof. unfold become_leader. eapply cx_pre; [| apply cx_enter_leader]. cvol. Qed.

Lemma cx_check_if_elected s : cx s (check_if_elected s).
Proof.
  unfold check_if_elected. destruct (n_conf s); simpl; auto.
  destruct (quorum m <=? N.of_nat (length (c_votes s))); [apply cx_become_leader | cleaf].
Qed.

Lemma fold_send_sk (ms : list nid) b : forall s,
  ck s (fold_left (fun a m => if m =? n_id a then a else send a m b) ms s).
Proof.
  induction ms as [| m r IH]; intros s; simpl; [apply ck_refl|].
  destruct (m =? n_id s); [apply IH|]. eapply ck_trans; [| apply IH]. cvol.
Qed.

Lemma cx_enter_candidate s : cx s (enter_candidate s).
Proof.
  unfold enter_candidate.
  match goal with |- cx s (if ?c then _ else _) => destruct c end; [cleaf|].
  eapply cx_pre with (s' := set_candidate s (c_timeout s) []); [cvol|].
  apply cx_bind; [apply cx_do_mut; exact I|]. intros s1.
  set (s2 := if in_latest_conf s1 then set_candidate s1 (c_timeout s1) (set_add (n_id s1) (c_votes s1)) else s1).
  assert (H2 : ck s1 s2) by (unfold s2; destruct (in_latest_conf s1); [cvol | apply ck_refl]).
  eapply cx_pre; [exact H2|].
  apply cx_bind_pure; [apply pure_st_term|]. intros [lt ok] _.
  destruct (negb ok); simpl; auto. destruct (n_conf s2); simpl; auto.
  match goal with |- cx s2 (check_if_elected (set_candidate ?x _ _)) =>
    eapply cx_pre with (s' := x); [apply fold_send_sk|];
    eapply cx_pre; [| apply cx_check_if_elected]; cvol end.
Qed.

Lemma cx_become_candidate s : cx s (become_candidate s).
Proof. unfold become_candidate. eapply cx_pre; [| apply cx_enter_candidate]. cvol. Qed.

Lemma cx_handle_candidate s m : cx s (handle_candidate s m).
Proof.
  unfold handle_candidate. destruct (m_body m); try exact I; try cleaf.
  destruct granted; [| cleaf]. eapply cx_pre; [| apply cx_check_if_elected]. cvol.
Qed.

Lemma cx_follower_note_leader s from : cx s (follower_note_leader s from).
Proof.
  unfold follower_note_leader. apply cx_bind.
  - destruct (p_vote (n_p s) =? 0); [apply cx_do_mut; exact I | cleaf].
  - intros s1. destruct (n_leader s1 =? 0); [cleaf|]. destruct (negb (n_leader s1 =? from)); simpl; auto using ck_refl.
Qed.

Lemma cx_handle_follower s m : mwf m -> cx s (handle_follower s m).
Proof.
  unfold mwf, handle_follower. intro W. destruct (m_body m); try cleaf.
  - apply cx_bind; [apply cx_follower_note_leader|]. intros; apply cx_handle_app_ents; exact W.
  - apply cx_bind_pure; [apply pure_can_grant_vote|]. intros g _. apply cx_bind.
    + destruct g; [apply cx_do_mut; exact I | cleaf].
    + intros; cleaf.
  - apply cx_bind; [apply cx_follower_note_leader|]. intros; apply cx_handle_snapshot.
Qed.

Lemma cx_handle_by_role s m : mwf m -> cx s (handle_by_role s m).
Proof.
  intro W. unfold handle_by_role. destruct (n_role s); [apply cx_handle_follower; exact W | apply cx_handle_candidate | apply cx_handle_leader].
Qed.

Lemma cx_handle_msg s m : mwf m -> cx s (handle_msg s m).
Proof.
  intro W. unfold handle_msg.
  match goal with |- cx s (if ?c then _ else _) => destruct c end; [cleaf|].
  match goal with |- cx s (if ?c then _ else _) => destruct c end; [cleaf|].
  apply cx_bind.
  - match goal with |- cx s (if ?c then _ else _) => destruct c end; [apply cx_do_mut; exact I | cleaf].
  - intros s1.
    match goal with |- cx s1 (if ?c then _ else _) => destruct c end; [cleaf|].
    destruct (m_term m <? p_term (n_p s1)); [cleaf|].
    apply cx_bind; [| intros; apply cx_handle_by_role; exact W].
    destruct (p_term (n_p s1) <? m_term m); [| cleaf].
    destruct (m_body m); simpl; auto; (apply cx_bind; [apply cx_do_mut; exact I | intros; cleaf]).
Qed.

Lemma cx_tick s : cx s (tick s).
Proof.
  unfold tick.
  set (s0 := set_elapsed s ((n_elapsed s + 1) mod 4294967296)).
  eapply cx_pre with (s' := s0); [cvol|].
  destruct (n_role s0).
  - match goal with |- cx s0 (if ?c then _ else _) => destruct c end; [apply cx_become_candidate | cleaf].
  - match goal with |- cx s0 (if ?c then _ else _) => destruct c end; [apply cx_become_candidate | cleaf].
  - apply cx_tick_leader.
Qed.

Lemma bind_ret {A B} (x : A) (f : A -> R B) : bind (Ret x) f = f x.
Proof. reflexivity. Qed.

Lemma cx2_propose_initial s ms ep : cx2 s (propose_initial_membership s ms ep).
Proof.
  unfold propose_initial_membership.
  destruct (n_role s); try (simpl; apply ck_refl).
  destruct (is_clean (n_p s)) eqn:Ec; [| simpl; apply ck_refl].
  unfold is_clean in Ec. destruct (p_log (n_p s)) eqn:El; [| discriminate]. destruct (p_snap (n_p s)) eqn:Es; [discriminate|].
  destruct (do_mut (MSaveState 0 1) s) as [s1 | | p] eqn:E1.
  - apply do_mut_ret in E1. destruct E1 as [_ [P1 _]]. rewrite bind_ret.
    eapply cx2_pre with (s' := s1); [apply ck_vol; rewrite P1; reflexivity|].
    apply cx2_bind.
    + apply cx_log_append. unfold continues, last_index. rewrite P1. simpl p_log. simpl p_snap. rewrite El, Es.
      unfold log_last. simpl. reflexivity.
    + intros s2. simpl. cvol.
  - simpl. exact I.
  - simpl. apply do_mut_crashed in E1. subst p. intro C. apply contig_pcontig.
    eapply contig_ext; [| | exact C]; reflexivity.
Qed.

(* ---------------------------------------------------------------- newCore: the start-up reconciliation *)
Lemma reconcile_ox s : pcontig (n_p s) -> ox (reconcile s).
Proof.
  intros Q. pose proof Q as [A B]. unfold reconcile.
  destruct (p_snap (n_p s)) as [m |] eqn:Es.
  2: { simpl. unfold contig. rewrite Es. split; [exact A|]. destruct (p_log (n_p s)); auto. }
  destruct (p_log (n_p s)) as [| x t] eqn:El.
  { simpl. unfold contig. rewrite El. simpl. auto. }
  destruct A as [A1 A2]. rewrite <- El in A2. rewrite <- El.
  rewrite (log_first_wf _ _ A2) by (rewrite El; discriminate).
  rewrite (log_last_wf _ _ A2) by (rewrite El; discriminate).
  assert (Ln : (1 <= length (p_log (n_p s)))%nat) by (rewrite El; simpl; lia).
  assert (K : e_index x <= sn_index m + 1 -> sn_index m + 1 <= e_index x + N.of_nat (length (p_log (n_p s))) -> contig (n_p s)).
  { intros X Y. unfold contig. rewrite El, Es. rewrite El in A2, Y. split; [split; auto|]. lia. }
  destruct ((e_index x + N.of_nat (length (p_log (n_p s))) - 1 <? sn_index m) || (sn_index m + 1 <? e_index x)) eqn:E1.
  { apply trunc0_ox. exact Q. }
  apply orb_false_iff in E1. destruct E1 as [E1 E2]. apply N.ltb_ge in E1. apply N.ltb_ge in E2.
  destruct (e_index x <=? sn_index m) eqn:E3.
  - pose proof (pure_log_term (n_p s) (sn_index m)) as Pu.
    destruct (log_term (n_p s) (sn_index m)) as [tm | |]; simpl in *; auto; [| contradiction].
    destruct (negb (tm =? sn_term m)); [apply trunc0_ox; exact Q|]. simpl. apply K; lia.
  - simpl. apply K; lia.
Qed.

Lemma new_core_contig id cfg p s' : pcontig p -> new_core id cfg p = Ret s' -> contig (n_p s').
Proof.
  intros Q. unfold new_core.
  pose proof (reconcile_ox (blank_node id cfg p) Q) as Hr.
  destruct (reconcile (blank_node id cfg p)) as [r | |]; simpl in *; try discriminate.
  set (s0 := set_conf (blank_node id cfg (n_p r)) (init_latest_conf (n_p r))).
  assert (C0 : contig (n_p s0)) by exact Hr.
  destruct (p_snap (n_p r)) as [m |] eqn:Es.
  - pose proof (cx_commit_up_to s0 (sn_index m)) as K.
    destruct (commit_up_to s0 (sn_index m)) as [s1 | |]; simpl in *; try discriminate.
    intro H. inversion H. subst. simpl. exact (K C0).
  - simpl. intro H. inversion H. subst. simpl. exact C0.
Qed.

(* ---------------------------------------------------------------- every event, with a crash point *)
Theorem contiguous_step s ev k crashed st s' :
  contig (n_p s) -> (forall m, ev = EDeliver m -> mwf m) ->
  run_event_crash (settle s) ev k = Ret (crashed, st, s') -> contig (n_p s').
Proof.
  intros Hs Hev. unfold run_event_crash. set (s0 := with_budget (settle s) k).
  assert (Hs0 : contig (n_p s0)) by exact Hs.
  destruct (run_event s0 ev) as [[st0 y] | c | p] eqn:E; try discriminate.
  - intro H. inversion H. subst.
    destruct ev; simpl in E.
    + pose proof (cx2_propose_initial s0 members epoch) as K. rewrite E in K. exact (K Hs0).
    + unfold wrap0 in E. pose proof (cx_handle_msg s0 m (Hev m eq_refl)) as K. destruct (handle_msg s0 m); simpl in E; try discriminate.
      inversion E. subst. exact (K Hs0).
    + unfold wrap0 in E. pose proof (cx_tick s0) as K. destruct (tick s0); simpl in E; try discriminate.
      inversion E. subst. exact (K Hs0).
    + pose proof (cx2_propose s0 es) as K. rewrite E in K. exact (K Hs0).
    + pose proof (cx2_add_node s0 member rnd) as K. rewrite E in K. exact (K Hs0).
    + pose proof (cx2_remove_node s0 member) as K. rewrite E in K. exact (K Hs0).
    + unfold wrap0 in E. pose proof (cx_snapshot_done s0 m) as K. destruct (snapshot_done s0 m); simpl in E; try discriminate.
      inversion E. subst. exact (K Hs0).
    + unfold wrap0 in E. simpl in E.
      destruct (new_core (n_id s) (n_cfg s) (n_p s)) as [z | |] eqn:En; simpl in E; try discriminate.
      inversion E. subst. simpl. eapply new_core_contig; [| exact En]. apply contig_pcontig. exact Hs.
  - intro H. simpl in H.
    assert (Qp : pcontig p).
    { destruct ev; simpl in E.
      + pose proof (cx2_propose_initial s0 members epoch) as K. rewrite E in K. exact (K Hs0).
      + unfold wrap0 in E. pose proof (cx_handle_msg s0 m (Hev m eq_refl)) as K. destruct (handle_msg s0 m); simpl in E; try discriminate.
        inversion E. subst. exact (K Hs0).
      + unfold wrap0 in E. pose proof (cx_tick s0) as K. destruct (tick s0); simpl in E; try discriminate.
        inversion E. subst. exact (K Hs0).
      + pose proof (cx2_propose s0 es) as K. rewrite E in K. exact (K Hs0).
      + pose proof (cx2_add_node s0 member rnd) as K. rewrite E in K. exact (K Hs0).
      + pose proof (cx2_remove_node s0 member) as K. rewrite E in K. exact (K Hs0).
      + unfold wrap0 in E. pose proof (cx_snapshot_done s0 m) as K. destruct (snapshot_done s0 m); simpl in E; try discriminate.
        inversion E. subst. exact (K Hs0).
      + unfold wrap0 in E. simpl in E. pose proof (new_core_pext (n_id s) (n_cfg s) (n_p s)) as Np.
        destruct (new_core (n_id s) (n_cfg s) (n_p s)) as [z | |] eqn:En; simpl in E; try discriminate. contradiction. }
    destruct (new_core (n_id s) (n_cfg s) p) as [z | |] eqn:En; simpl in H; try discriminate.
    inversion H. subst. simpl. eapply new_core_contig; eauto.
Qed.
