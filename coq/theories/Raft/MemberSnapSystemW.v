(* Raft/MemberSnapSystemW.v — round 13: the side condition "no node is asked to add itself" of the combined alphabet weakened to what
   core_leader.go needs: AddNode of the node's OWN id is allowed whenever the core refuses it - the node is not leader
   (ErrNodeNotLeader), or it is a member of its latest configuration (ErrNodeExists), or its latest configuration is not yet
   committed (ErrTooManyPendingReqs).  A refused request changes nothing, so the
   step is also a step of cstep (the same post-state is reached by a refused RemoveNode of a non-member), and the four
   theorems carry over.  Raft/MemberSnapSystemU.v and Raft/MemberSnapSMS.v are not edited. *)
From Coq Require Import List NArith ZArith Bool Lia ZifyN ZifyNat ZifyBool.
From BLB Require Import Lib.LTS Raft.Core Raft.Wire Raft.NodeProofs Raft.Election Raft.LogMatch Raft.MemberNode Raft.MemberVotes
  Raft.MemberConfStep Raft.MemberRun Raft.MemberSnapSystemU Raft.MemberSnapSMS.
Import ListNotations.
Open Scope N_scope.

(* an id outside a list *)
Definition fresh (l : list nid) : nid := 1 + fold_right N.max 0 l.
Lemma fresh_bound l x : In x l -> x < fresh l.
Proof.
  unfold fresh. induction l as [| y r IH]; [intros []|]. cbn [fold_right In]. set (mx := fold_right N.max 0 r) in *.
  intros [E | H]; [subst; lia | specialize (IH H); lia].
Qed.
Lemma memb_fresh l : memb (fresh l) l = false.
Proof.
  destruct (memb (fresh l) l) eqn:E; [| reflexivity]. apply memb_In in E. apply fresh_bound in E. lia.
Qed.

(* core_leader.go addNode / core.go AddNode: the request for the node's own id is refused and nothing changes *)
Lemma add_self_refused s rnd :
  n_role s <> Leader \/ in_latest_conf s = true \/ latest_conf_committed s = false ->
  match add_node s (n_id s) rnd with
  | Ret (code, x) => x = s /\ (code = E_NOT_LEADER \/ code = E_NODE_EXISTS \/ code = E_TOO_MANY)
  | Crashed _ => False
  | Fatal _ => True
  end.
Proof.
  intros H. unfold add_node. destruct (n_role s) eqn:Er; try (simpl; auto).
  destruct H as [H | H]; [congruence|]. unfold leader_add_node.
  pose proof (pure_verify_nop_committed s) as Pv.
  destruct (verify_nop_committed s) as [[] | |]; simpl in *; auto.
  destruct (n_conf s) as [c |] eqn:Ec; [| simpl; auto].
  destruct (memb (n_id s) (mb_members c)) eqn:Em; [simpl; auto|].
  destruct H as [H | H].
  - unfold in_latest_conf in H. rewrite Ec, Em in H. discriminate.
  - rewrite H. simpl. auto.
Qed.

(* the same post-state by a refused RemoveNode of a non-member *)
Lemma add_self_as_remove s rnd k crashed st s' :
  n_role s <> Leader \/ in_latest_conf s = true \/ latest_conf_committed s = false ->
  run_event_crash (settle s) (EAddNode (n_id s) rnd) k = Ret (crashed, st, s') ->
  exists z st', run_event_crash (settle s) (ERemoveNode z) k = Ret (crashed, st', s').
Proof.
  intros H. unfold run_event_crash. cbn [run_event]. set (s0 := with_budget (settle s) k).
  assert (H0 : n_role s0 <> Leader \/ in_latest_conf s0 = true \/ latest_conf_committed s0 = false) by exact H.
  pose proof (add_self_refused s0 rnd H0) as K. change (n_id s0) with (n_id s) in K.
  destruct (add_node s0 (n_id s) rnd) as [[code x] | |] eqn:Ea; try discriminate; [| contradiction].
  destruct K as [Ex _]. subst x. intro E. inversion E. subst.
  unfold remove_node. destruct (n_role s0) eqn:Er.
  - exists 0. eexists. reflexivity.
  - exists 0. eexists. reflexivity.
  - unfold leader_remove_node.
    unfold add_node in Ea. rewrite Er in Ea. unfold leader_add_node in Ea.
    destruct (verify_nop_committed s0) as [[] | |] eqn:Ev; cbn [bind] in Ea; try discriminate Ea.
    destruct (n_conf s0) as [c |] eqn:Ec; [| discriminate Ea].
    cbn [bind]. exists (fresh (mb_members c)). rewrite memb_fresh. cbn [negb]. eexists. reflexivity.
Qed.

Section W.
  Variables (bm : list nid) (be : N).
  Hypothesis Hbm : NoDup bm.

  Definition evresW (s : node) (ev : event) : Prop :=
    match ev with
    | EAddNode x _ => x = n_id s -> n_role s <> Leader \/ in_latest_conf s = true \/ latest_conf_committed s = false
    | _ => evresC bm be s ev
    end.

  (* the combined alphabet with AddNode of the own id allowed whenever the core refuses it *)
  Inductive wstep : asys -> sys_event -> asys -> Prop :=
  | WStep : forall σ EC i s ev k crashed st s',
      get_node i (sy_nodes σ) = Some s ->
      (forall m, ev = EDeliver m -> In m (sy_soup σ) /\ m_to m <> 0) ->
      evresW s ev ->
      run_event_crash (settle s) ev k = Ret (crashed, st, s') ->
      wstep (σ, EC) (i, ev, k) (step_sys σ s', EC ++ ec_of s s').

  Lemma cstep_wstep a e a' : cstep bm be a e a' -> wstep a e a'.
  Proof.
    intro H. destruct H as [σ EC i s ev k crashed st s' G D He Rn]. eapply WStep; eauto.
    destruct ev; simpl in *; auto; try (intro E; exfalso; apply He; exact E).
  Qed.

  Lemma wstep_cstep a e a' : wstep a e a' -> exists e', cstep bm be a e' a'.
  Proof.
    intro H. destruct H as [σ EC i s ev k crashed st s' G D He Rn].
    assert (Gen : evresC bm be s ev -> exists e', cstep bm be (σ, EC) e' (step_sys σ s', EC ++ ec_of s s')).
    { intro X. exists (i, ev, k). eapply CStep; eauto. }
    destruct ev; try (apply Gen; exact He).
    simpl in He. destruct (N.eq_dec member (n_id s)) as [E | E].
    - subst member. destruct (add_self_as_remove s rnd k crashed st s' (He eq_refl) Rn) as [z [st' Rz]].
      exists (i, ERemoveNode z, k). eapply CStep; eauto; [intros m0 X; discriminate | exact I].
    - apply Gen. simpl. exact E.
  Qed.

  Lemma wrun_crun a sched a' : run asys sys_event wstep a sched a' -> exists sched', run asys sys_event (cstep bm be) a sched' a'.
  Proof.
    intro H. induction H as [a | a e a1 es a2 Hst Hr IH]; [exists []; apply run_nil|].
    destruct IH as [sch IH]. destruct (wstep_cstep _ _ _ Hst) as [e' He']. exists (e' :: sch). eapply run_cons; eauto.
  Qed.

  (* ---------------------------------------------------------------- the four clauses over wstep *)
  Theorem election_safety_combined_w a0 a sched :
    minitS a0 -> run asys sys_event wstep a0 sched a ->
    forall t x y, In (t, x) (sy_hist (fst a)) -> In (t, y) (sy_hist (fst a)) -> x = y.
  Proof. intros Hi Hr. destruct (wrun_crun _ _ _ Hr) as [sch Hc]. exact (election_safety_combined_sys bm be Hbm a0 a sch Hi Hc). Qed.

  Theorem log_matching_combined_w a0 a sched :
    minitS a0 -> run asys sys_event wstep a0 sched a ->
    exists Cf, fitsC a Cf /\
      forall x y k k' e e',
        In x (sy_nodes (fst a)) -> In y (sy_nodes (fst a)) ->
        nth_error (llogC Cf x) k = Some e -> nth_error (llogC Cf y) k' = Some e' ->
        e_index e = e_index e' -> e_term e = e_term e' ->
        k = k' /\ firstn (Datatypes.S k) (llogC Cf x) = firstn (Datatypes.S k) (llogC Cf y).
  Proof. intros Hi Hr. destruct (wrun_crun _ _ _ Hr) as [sch Hc]. exact (log_matching_combined_sys bm be Hbm a0 a sch Hi Hc). Qed.

  Theorem leader_completeness_combined_w a0 a1 a2 sched1 sched2 :
    minitS a0 -> run asys sys_event wstep a0 sched1 a1 -> run asys sys_event wstep a1 sched2 a2 ->
    exists Cf1 Cf2, fitsC a1 Cf1 /\ fitsC a2 Cf2 /\
      forall x b,
        In x (sy_nodes (fst a1)) -> In b (sy_nodes (fst a2)) -> n_role b = Leader -> p_term (n_p x) < p_term (n_p b) ->
        (N.to_nat (n_commit x) <= length (llogC Cf1 x))%nat /\
        firstn (N.to_nat (n_commit x)) (llogC Cf2 b) = firstn (N.to_nat (n_commit x)) (llogC Cf1 x).
  Proof.
    intros Hi H1 H2. destruct (wrun_crun _ _ _ H1) as [s1 C1]. destruct (wrun_crun _ _ _ H2) as [s2 C2].
    exact (leader_completeness_combined_sys bm be Hbm a0 a1 a2 s1 s2 Hi C1 C2).
  Qed.

  Theorem state_machine_safety_combined_w a0 a1 a2 sched1 sched2 :
    minitS a0 -> run asys sys_event wstep a0 sched1 a1 -> run asys sys_event wstep a1 sched2 a2 ->
    forall n1 n2 x y,
      In n1 (sy_nodes (fst a1)) -> In n2 (sy_nodes (fst a2)) -> In x (n_commits n1) -> In y (n_commits n2) ->
      e_index x = e_index y -> x = y.
  Proof.
    intros Hi H1 H2. destruct (wrun_crun _ _ _ H1) as [s1 C1]. destruct (wrun_crun _ _ _ H2) as [s2 C2].
    exact (state_machine_safety_combined_sys bm be Hbm a0 a1 a2 s1 s2 Hi C1 C2).
  Qed.
End W.
