(* Raft/Legit.v — a decidable check that a schedule in wire form is made of legitimate events only:
   every Deliver hands over a message that some node emitted earlier in the same run (soup membership; loss,
   duplication, reordering and delay are therefore allowed), every SnapshotDone carries metadata of a committed log
   position of that node with the configuration applied at that position, crashes (op 10) are events, what-if lines,
   AddNode/RemoveNode are not accepted (not needed by the witnesses that use this check). *)
From Coq Require Import List NArith ZArith Bool.
From BLB Require Import Raft.Core Raft.Wire.
Import ListNotations.
Open Scope N_scope.

Fixpoint list_eqb (a b : list Z) : bool :=
  match a, b with
  | [], [] => true
  | x :: r, y :: q => Z.eqb x y && list_eqb r q
  | _, _ => false
  end.

Definition emitted (st : option cluster) (id : N) : list (list Z) :=
  match st with
  | Some c => match get_node id c with Some s => map enc_msg (out_msgs s) | None => [] end
  | None => []
  end.

Fixpoint applied_conf_log (l : list entry) (upto : N) (acc : option membership) : option membership :=
  match l with
  | [] => acc
  | e :: r => if e_index e <=? upto then applied_conf_log r upto (if e_type e =? EntryConf then decode_conf e else acc) else acc
  end.

Definition applied_conf (p : pstate) (upto : N) : option membership :=
  applied_conf_log (p_log p) upto (match p_snap p with Some m => sn_conf m | None => None end).

Definition mptr_eqb (a b : option membership) : bool := list_eqb (enc_mptr a) (enc_mptr b).

Definition snap_legit (st : option cluster) (id : N) (m : snapmeta) : bool :=
  match st with
  | Some c =>
      match get_node id c with
      | Some s =>
          (sn_index m <=? n_commit s) &&
          match in_log (n_p s) (sn_index m) (sn_term m) with Ret true => true | _ => false end &&
          mptr_eqb (sn_conf m) (applied_conf (n_p s) (sn_index m))
      | None => false
      end
  | None => false
  end.

Definition event_legit (st : option cluster) (soup : list (list Z)) (op : list Z) : bool :=
  match op with
  | 2%Z :: _ :: menc => existsb (list_eqb menc) soup
  | 5%Z :: _ => false
  | 6%Z :: _ => false
  | 7%Z :: _ => match parse_event op with
                | Some (id, ESnapDone m) => snap_legit st id m
                | _ => false
                end
  | _ => true
  end.

Fixpoint legit_run (st : option cluster) (soup : list (list Z)) (ops : list (list Z)) : bool :=
  match ops with
  | [] => true
  | op :: r =>
      let ok := match op with
                | 9%Z :: _ => false
                | 10%Z :: _ :: _ :: inner => event_legit st soup inner
                | _ => event_legit st soup op
                end in
      if ok then
        let '(st', _) := step_wire st op in
        let id := match op with _ :: nd :: _ => zn nd | _ => 0 end in
        legit_run st' (soup ++ emitted st' id) r
      else false
  end.

Definition legit_schedule (ops : list (list Z)) : bool := legit_run None [] ops.

Definition observes (line : list Z) (ops : list (list Z)) : bool := existsb (list_eqb line) (run_case ops).

(* the cluster state at the end of a schedule *)
Fixpoint run_state (st : option cluster) (ops : list (list Z)) : option cluster :=
  match ops with
  | [] => st
  | op :: r => run_state (fst (step_wire st op)) r
  end.

Definition final_state (ops : list (list Z)) : option cluster := run_state None ops.
