(* Raft/SnapMetaPass.v — round 11: every InstallSnapshot a node emits in an event carries the snapshot metadata the node held
   at the start of the event (index, term, membership), and the snapshot metadata of the node changes only through
   SnapshotDone and through the delivery of an InstallSnapshot, to the metadata named by that event.  Node level, all events,
   all crash points.  Skeleton of Raft/SnapIndexPos.v (generated from it, with a crash clause). *)
From Coq Require Import List NArith ZArith Bool Lia.
From BLB Require Import Raft.Core Raft.NodeProofs Raft.LogMatchLists Raft.SnapContig Raft.MemberConfTrack.
Import ListNotations.
Open Scope N_scope.

Ltac ppure2 := first [ppure | apply pure_in_log].

Section Pass.
Variable sn0 : option snapmeta.      (* the snapshot metadata at the start of the event *)
Variable alt : option snapmeta.      (* what the event may replace it by *)

Definition isqc (m : msg) : Prop :=
  match m_body m with
  | InstallSnap li lt cf => exists sm, sn0 = Some sm /\ li = sn_index sm /\ lt = sn_term sm /\ sn_conf sm = Some cf
  | _ => True
  end.
Definition jq (s : node) : Prop := p_snap (n_p s) = sn0 /\ Forall isqc (n_msgs s).
Definition jw (s : node) : Prop := (p_snap (n_p s) = sn0 \/ p_snap (n_p s) = alt) /\ Forall isqc (n_msgs s).

Definition mk (s s' : node) : Prop := jq s -> jq s'.

Lemma mk_refl s : mk s s.
Proof. intro H. exact H. Qed.

Lemma mk_trans a b c : mk a b -> mk b c -> mk a c.
Proof. intros A B H. apply B. apply A. exact H. Qed.

Lemma mk_vol s s' : n_msgs s' = n_msgs s -> p_snap (n_p s') = p_snap (n_p s) -> mk s s'.
Proof. intros A B [H1 H2]. split; [rewrite B; exact H1 | rewrite A; exact H2]. Qed.

Definition mx (s : node) (r : R node) : Prop :=
  match r with Ret s' => mk s s' | Crashed p => jq s -> p_snap p = sn0 | Fatal _ => True end.
Definition mx2 (s : node) (r : R (N * node)) : Prop :=
  match r with Ret (_, s') => mk s s' | Crashed p => jq s -> p_snap p = sn0 | Fatal _ => True end.

Lemma mx_bind s (a : R node) (f : node -> R node) :
  mx s a -> (forall s1, mx s1 (f s1)) -> mx s (bind a f).
Proof.
  intros Ha Hf. destruct a as [s1 | c | p]; simpl in *; auto.
  specialize (Hf s1). destruct (f s1); simpl in *; auto. eapply mk_trans; eauto.
Qed.

Lemma mx_bind_pure {A} s (a : R A) (f : A -> R node) :
  pure a -> (forall x, a = Ret x -> mx s (f x)) -> mx s (bind a f).
Proof. intros Hp Hf. destruct a; simpl in *; auto. contradiction. Qed.

Lemma mx_pre s s' r : mk s s' -> mx s' r -> mx s r.
Proof. intros H K. destruct r; simpl in *; auto. eapply mk_trans; eauto. Qed.

Lemma mx2_bind s (a : R node) (f : node -> R (N * node)) :
  mx s a -> (forall s1, mx2 s1 (f s1)) -> mx2 s (bind a f).
Proof.
  intros Ha Hf. destruct a as [s1 | c | p]; simpl in *; auto.
  specialize (Hf s1). destruct (f s1) as [[st s2] | |]; simpl in *; auto. eapply mk_trans; eauto.
Qed.

Lemma mx2_bind_pure {A} s (a : R A) (f : A -> R (N * node)) :
  pure a -> (forall x, a = Ret x -> mx2 s (f x)) -> mx2 s (bind a f).
Proof. intros Hp Hf. destruct a; simpl in *; auto. contradiction. Qed.

Lemma mx2_pre s s' r : mk s s' -> mx2 s' r -> mx2 s r.
Proof. intros H K. destruct r as [[st x] | |]; simpl in *; auto. eapply mk_trans; eauto. Qed.

Lemma mx2_of_mx s r st : mx s r -> mx2 s (s1 <- r ;; Ret (st, s1)).
Proof. destruct r; simpl; auto. Qed.

Ltac mfa H := first [exact H | apply Forall_app; split; [mfa H | constructor; [exact I | constructor]]].
Ltac mvol := first [apply mk_vol; reflexivity | let H1 := fresh "H" in let H2 := fresh "H" in intros [H1 H2]; split; [exact H1 | simpl; mfa H2]].
Ltac mleaf := simpl; solve [mvol].
Ltac msend := mleaf.

Lemma mx_do_mut s m : match m with MSnapCommit _ => False | _ => True end -> mx s (do_mut m s).
Proof.
  intro Hm. unfold do_mut. destruct (negb (n_budget s =? 0) && (n_budget s =? n_cnt s + 1)); simpl.
  - intros [H1 _]. destruct m; simpl; auto; contradiction.
  - intros [H1 H2]. split; [| exact H2]. destruct m; simpl; auto; contradiction.
Qed.


(* ---------------------------------------------------------------- handlers *)
Lemma mx_log_append s es : mx s (log_append s es).
Proof.
  unfold log_append. apply mx_bind; [apply mx_do_mut; exact I|].
  intros s1. destruct (snd (mem_append (p_log (n_p s)) es)); simpl; auto using mk_refl.
Qed.

Lemma mx_commit_up_to s i : mx s (commit_up_to s i).
Proof.
  unfold commit_up_to.
  destruct (p_snap (n_p s)) as [m |].
  - destruct (n_commit s <? sn_index m) eqn:E.
    + destruct (negb (sn_index m =? i)) eqn:E3; simpl; auto. mvol.
    + apply mx_bind_pure; [ppure2 |]. intros ents _.
      match goal with |- mx s (if ?c then _ else _) => destruct c end; [| mleaf].
      match goal with |- mx s (match ?x with _ => _ end) => destruct x eqn:E2 end; simpl; auto.
      eapply mx_pre; [| apply mx_do_mut; exact I]. mvol.
  - apply mx_bind_pure; [ppure2 |]. intros ents _.
    match goal with |- mx s (if ?c then _ else _) => destruct c end; [| mleaf].
    match goal with |- mx s (match ?x with _ => _ end) => destruct x eqn:E2 end; simpl; auto.
    eapply mx_pre; [| apply mx_do_mut; exact I]. mvol.
Qed.

Lemma mx_trim_log s i : mx s (trim_log s i).
Proof.
  unfold trim_log. destruct (log_first (p_log (n_p s))); [| mleaf]. destruct (log_last (p_log (n_p s))); [| mleaf].
  destruct (i =? n - 1); [mleaf|]. destruct ((i <? n) || (n0 <? i)); simpl; auto.
  destruct (i - n <? cf_keep (n_cfg s)); [mleaf|]. apply mx_do_mut; exact I.
Qed.

Lemma mx_send_app_ents s p : mx s (send_app_ents s p).
Proof.
  unfold send_app_ents. apply mx_bind_pure; [ppure2 |]. intros ob Hob.
  destruct ob as [b |].
  - assert (Hb : forall m0, m_body m0 = b -> isqc m0).
    { intros m0 E. unfold isqc. rewrite E. clear E. unfold get_app_ents in Hob.
      destruct (negb (pr_next p =? pr_match p + 1)).
      - destruct (st_term (n_p s) (pr_next p - 1)) as [[t o] | |]; simpl in Hob; try discriminate. destruct (negb o); inversion Hob. exact I.
      - destruct (pr_match p =? last_index (n_p s)).
        + destruct (st_term (n_p s) (pr_match p)) as [[t o] | |]; simpl in Hob; try discriminate. destruct (negb o); inversion Hob. exact I.
        + match type of Hob with bind ?x _ = _ => destruct x as [[[pt es] ok] | |]; simpl in Hob; try discriminate end.
          destruct (negb ok); inversion Hob. exact I. }
    simpl. intros [H1 H2]. split; [exact H1|]. simpl. apply Forall_app. split; [exact H2|]. constructor; [| constructor]. apply Hb. reflexivity.
  - destruct (p_snap (n_p s)) as [sm |] eqn:Es; simpl; auto. destruct (sn_conf sm) eqn:Ec; simpl; auto.
    intros [H1 H2]. split; [exact H1|]. simpl. apply Forall_app. split; [exact H2|]. constructor; [| constructor].
    unfold isqc. simpl. exists sm. rewrite <- H1. auto.
Qed.


Lemma mx_for_peers ids f s :
  (forall s1 p, mx s1 (f s1 p)) -> mx s (for_peers ids f s).
Proof.
  intro Hf. revert s. induction ids as [| id r IH]; intros s; simpl.
  - apply mk_refl.
  - destruct (peer_get id (l_peers s)); auto. apply mx_bind; auto.
Qed.

Lemma mx_leader_commit_up_to s i : mx s (leader_commit_up_to s i).
Proof.
  unfold leader_commit_up_to. apply mx_bind; [apply mx_commit_up_to|]. intros s1.
  match goal with |- mx s1 (if ?c then _ else _) => destruct c end; mleaf.
Qed.

Lemma mx_leader_maybe_commit s : mx s (leader_maybe_commit s).
Proof.
  unfold leader_maybe_commit. apply mx_bind_pure; [ppure2 |]. intros mi _.
  destruct (n_commit s <? mi) eqn:Ec; [| mleaf]. apply N.ltb_lt in Ec.
  apply mx_bind_pure; [ppure2 |]. intros [t ok] _.
  destruct (negb ok); simpl; auto. destruct (negb (t =? p_term (n_p s))); [mleaf|].
  apply mx_bind; [apply mx_leader_commit_up_to|]. intros s1.
  apply mx_for_peers. intros s2 p. destruct (pr_match p =? last_index (n_p s2)); [apply mx_send_app_ents | mleaf].
Qed.

Lemma mx_fold_enter (others : list nid) li : forall (acc : R node) s,
  mx s acc ->
  mx s (fold_left (fun (acc : R node) (m : nid) =>
                     a <- acc ;;
                     let p := mk_peer m (li + 1) 0 false 0 0 in
                     let a1 := set_leader a (l_check a) (peer_set p (l_peers a)) in
                     send_app_ents a1 p) others acc).
Proof.
  induction others as [| m r IH]; intros acc s H; simpl; auto.
  apply IH. apply mx_bind; auto. intros s1.
  eapply mx_pre; [| apply mx_send_app_ents]. mvol.
Qed.

Lemma mx_enter_leader s : mx s (enter_leader s).
Proof.
  unfold enter_leader. destruct (n_conf s); simpl; auto.
  apply mx_bind.
  - apply mx_fold_enter. mleaf.
  - intros s1. destruct (l_peers s1); [apply mx_leader_maybe_commit | mleaf].
Qed.

Lemma mx_tick_leader s : mx s (tick_leader s).
Proof.
  unfold tick_leader. apply mx_bind.
  - apply mx_for_peers. intros s2 p. destruct (should_send s2 p); [apply mx_send_app_ents | mleaf].
  - intros s1.
    match goal with |- mx s1 (if ?c then _ else _) => destruct c end; [| mleaf].
    apply mx_bind_pure; [ppure2 |]. intros ok _. destruct ok; mleaf.
Qed.

Lemma mx_handle_app_ents_resp s from su ix hi : mx s (handle_app_ents_resp s from su ix hi).
Proof.
  unfold handle_app_ents_resp. destruct (peer_get from (l_peers s)); [| mleaf].
  destruct (ix <? pr_match p); [mleaf|]. destruct (negb su).
  - eapply mx_pre; [| apply mx_send_app_ents]. mvol.
  - match goal with |- mx s (if ?c then _ else _) => destruct c end; simpl; auto.
    apply mx_bind.
    + match goal with |- mx s (if ?c then _ else _) => destruct c end.
      * eapply mx_pre; [| apply mx_send_app_ents]. mvol.
      * mleaf.
    + intros s2. apply mx_leader_maybe_commit.
Qed.

Lemma mx_leader_propose s es : mx s (leader_propose s es).
Proof.
  unfold leader_propose. apply mx_bind; [apply mx_log_append|]. intros s1.
  apply mx_bind.
  - apply mx_for_peers. intros s3 p.
    match goal with |- mx s3 (if ?c then _ else _) => destruct c end; [apply mx_send_app_ents | mleaf].
  - intros s2. destruct (l_peers s2); [apply mx_leader_maybe_commit | mleaf].
Qed.

Lemma mx2_leader_add_node s m rnd : mx2 s (leader_add_node s m rnd).
Proof.
  unfold leader_add_node. apply mx2_bind_pure; [ppure2 |]. intros _ _.
  destruct (n_conf s); simpl; auto.
  destruct (memb m (mb_members m0)); [simpl; apply mk_refl|].
  destruct (negb (latest_conf_committed s)); [simpl; apply mk_refl|].
  eapply mx2_pre; [| apply mx2_of_mx; apply mx_leader_propose]. mvol.
Qed.

Lemma mx2_leader_remove_node s m : mx2 s (leader_remove_node s m).
Proof.
  unfold leader_remove_node. apply mx2_bind_pure; [ppure2 |]. intros _ _.
  destruct (n_conf s); simpl; auto.
  destruct (negb (memb m (mb_members m0))); [simpl; apply mk_refl|].
  destruct (negb (latest_conf_committed s)); [simpl; apply mk_refl|].
  eapply mx2_pre; [| apply mx2_bind; [apply mx_leader_propose |]].
  - mvol.
  - intros s3. apply mx2_of_mx. apply mx_leader_maybe_commit.
Qed.

Lemma mx_handle_leader s m : mx s (handle_leader s m).
Proof.
  unfold handle_leader. destruct (m_body m).
  - exact I.
  - apply mx_handle_app_ents_resp.
  - mleaf.
  - mleaf.
  - exact I.
Qed.

Lemma mx_follower_maybe_commit s lc mi : mx s (follower_maybe_commit s lc mi).
Proof.
  unfold follower_maybe_commit. destruct (n_commit s <? N.min mi lc) eqn:E; [| mleaf].
  apply mx_commit_up_to.
Qed.

Lemma fold_conf_sk (app : list entry) : forall s,
  mk s (fold_left (fun a e => if e_type e =? EntryConf then set_conf a (decode_conf e) else a) app s).
Proof.
  induction app as [| e r IH]; intros s; simpl; [apply mk_refl|].
  destruct (e_type e =? EntryConf); [| apply IH].
  eapply mk_trans; [| apply IH]. mvol.
Qed.

Lemma mx_handle_app_ents s from pi pt cm oes : mx s (handle_app_ents s from pi pt cm oes).
Proof.
  unfold handle_app_ents.
  eapply mx_pre with (s' := set_follower_contact s); [mvol|].
  set (s0 := set_follower_contact s).
  apply mx_bind_pure; [ppure2 |]. intros ok _.
  destruct (negb ok); [mleaf|].
  destruct oes as [ents |].
  2: { eapply mx_pre; [| apply mx_follower_maybe_commit]. msend. }
  apply mx_bind_pure; [ppure2 |]. intros [ci any] _.
  apply mx_bind.
  - destruct any; [| mleaf]. apply mx_bind; [apply mx_do_mut; exact I|]. intros s'.
    destruct (n_conf s'); [| mleaf]. destruct (ci <=? mb_index m); mleaf.
  - intros s1.
    destruct (last_ent_index ents <=? last_index (n_p s1)).
    + eapply mx_pre; [| apply mx_follower_maybe_commit]. msend.
    + destruct ents as [| e0 r]; simpl; auto.
      match goal with |- mx s1 (if ?c then _ else _) => destruct c end; simpl; auto.
      match goal with |- mx s1 (match ?x with _ => _ end) => destruct x as [| a0 ar] eqn:Eapp end; simpl; auto.
      match goal with |- mx s1 (if ?c then _ else _) => destruct c end; simpl; auto.
      match goal with |- mx s1 (bind (log_append ?x _) _) =>
        eapply mx_pre with (s' := x); [apply (fold_conf_sk (a0 :: ar) s1) |] end.
      apply mx_bind; [apply mx_log_append|]. intros s3.
      eapply mx_pre; [| apply mx_follower_maybe_commit]. msend.
Qed.

(* the two handlers that replace the snapshot metadata: the weaker post-condition *)
Definition wx (s : node) (r : R node) : Prop :=
  match r with Ret s' => jq s -> jw s' | Crashed p => jq s -> p_snap p = sn0 \/ p_snap p = alt | Fatal _ => True end.

Lemma wx_of_mx s r : mx s r -> wx s r.
Proof. destruct r; simpl; auto. intros H J. destruct (H J) as [A B]. split; auto. Qed.

Lemma wx_bind s (a : R node) (f : node -> R node) : mx s a -> (forall s1, wx s1 (f s1)) -> wx s (bind a f).
Proof.
  intros Ha Hf. destruct a as [s1 | c | p]; simpl in *; auto.
  specialize (Hf s1). destruct (f s1); simpl in *; auto.
Qed.

Lemma wx_pre s s' r : mk s s' -> wx s' r -> wx s r.
Proof. intros H K. destruct r; simpl in *; auto. Qed.

(* after the snapshot has been replaced: nothing but an AppEntsResp is sent *)
Definition jw2 (s : node) : Prop := p_snap (n_p s) = alt /\ Forall isqc (n_msgs s).
Definition wk (s s' : node) : Prop := jw2 s -> jw2 s'.
Definition wy (s : node) (r : R node) : Prop :=
  match r with Ret s' => wk s s' | Crashed p => jw2 s -> p_snap p = alt | Fatal _ => True end.
Lemma wy_bind s (a : R node) (f : node -> R node) : wy s a -> (forall s1, wy s1 (f s1)) -> wy s (bind a f).
Proof.
  intros Ha Hf. destruct a as [s1 | c | p]; simpl in *; auto.
  specialize (Hf s1). destruct (f s1); simpl in *; auto; intro J; apply Hf; apply Ha; exact J.
Qed.
Lemma wy_do_mut s m : match m with MSnapCommit _ => False | _ => True end -> wy s (do_mut m s).
Proof.
  intro Hm. unfold do_mut. destruct (negb (n_budget s =? 0) && (n_budget s =? n_cnt s + 1)); simpl.
  - intros [H1 _]. destruct m; simpl; auto; contradiction.
  - intros [H1 H2]. split; [| exact H2]. destruct m; simpl; auto; contradiction.
Qed.
Lemma wk_vol s s' : n_msgs s' = n_msgs s -> p_snap (n_p s') = p_snap (n_p s) -> wk s s'.
Proof. intros A B [H1 H2]. split; [rewrite B; exact H1 | rewrite A; exact H2]. Qed.
Lemma wy_trim_log s i : wy s (trim_log s i).
Proof.
  unfold trim_log. destruct (log_first (p_log (n_p s))); [| simpl; apply wk_vol; reflexivity]. destruct (log_last (p_log (n_p s))); [| simpl; apply wk_vol; reflexivity].
  destruct (i =? n - 1); [simpl; apply wk_vol; reflexivity|]. destruct ((i <? n) || (n0 <? i)); simpl; auto.
  destruct (i - n <? cf_keep (n_cfg s)); [simpl; apply wk_vol; reflexivity|]. apply wy_do_mut; exact I.
Qed.
Lemma wy_commit_up_to s i : wy s (commit_up_to s i).
Proof.
  unfold commit_up_to.
  assert (Common : forall ents, wy s (let s1 := set_commit s i (n_restore s) (n_commits s ++ ents) in
               if negb (latest_conf_committed s) && latest_conf_committed s1
               then match n_conf s1 with Some c => do_mut (MFilterGuids (mb_members c)) s1 | None => Fatal F_PANIC end
               else Ret s1)).
  { intros ents. cbv zeta. match goal with |- wy s (if ?c then _ else _) => destruct c end; [| simpl; apply wk_vol; reflexivity].
    match goal with |- wy s (match ?x with _ => _ end) => destruct x eqn:E2 end; simpl; auto.
    pose proof (wy_do_mut (set_commit s i (n_restore s) (n_commits s ++ ents)) (MFilterGuids (mb_members m)) I) as K.
    destruct (do_mut (MFilterGuids (mb_members m)) (set_commit s i (n_restore s) (n_commits s ++ ents))); simpl in *; auto. }
  destruct (p_snap (n_p s)) as [m |].
  - destruct (n_commit s <? sn_index m) eqn:E.
    + destruct (negb (sn_index m =? i)) eqn:E3; simpl; auto. apply wk_vol; reflexivity.
    + destruct (log_entries (n_p s) (n_commit s + 1) (i + 1)) as [ents | |] eqn:El; simpl; auto.
      * apply Common.
      * pose proof (pure_log_entries (n_p s) (n_commit s + 1) (i + 1)) as P. rewrite El in P. contradiction.
  - destruct (log_entries (n_p s) (n_commit s + 1) (i + 1)) as [ents | |] eqn:El; simpl; auto.
    + apply Common.
    + pose proof (pure_log_entries (n_p s) (n_commit s + 1) (i + 1)) as P. rewrite El in P. contradiction.
Qed.

Lemma wx_handle_snapshot s from li lt c :
  alt = Some {| sn_index := li; sn_term := lt; sn_conf := Some c |} -> wx s (handle_snapshot s from li lt c).
Proof.
  intro Ha. unfold handle_snapshot.
  eapply wx_pre with (s' := set_follower_contact s); [mvol|].
  set (s0 := set_follower_contact s).
  match goal with |- wx s0 (match ?x with _ => _ end) => destruct x end; [apply wx_of_mx; mleaf|].
  (* from here on the snapshot is the new one *)
  assert (T : forall s1, jw2 s1 -> wy s1 (il <- in_log (n_p s1) li lt ;;
               s2 <- (if il then trim_log s1 li else s' <- do_mut (MTruncate 0) s1 ;; Ret (set_conf s' (Some c))) ;;
               s3 <- (if n_commit s2 <? li then commit_up_to s2 li else Ret s2) ;;
               Ret (send s3 from (AppEntsResp true li 0)))).
  { intros s1 _. pose proof (pure_in_log (n_p s1) li lt) as P. destruct (in_log (n_p s1) li lt) as [il | |]; simpl in *; auto; [| contradiction].
    apply wy_bind.
    - destruct il; [apply wy_trim_log|]. apply wy_bind; [apply wy_do_mut; exact I|]. intros s'. simpl. apply wk_vol; reflexivity.
    - intros s2. apply wy_bind.
      + destruct (n_commit s2 <? li); [apply wy_commit_up_to | simpl; apply wk_vol; reflexivity].
      + intros s3. simpl. intros [H1 H2]. split; [exact H1|]. simpl. apply Forall_app. split; [exact H2|]. constructor; [exact I | constructor]. }
  unfold do_mut at 1. destruct (negb (n_budget s0 =? 0) && (n_budget s0 =? n_cnt s0 + 1)); cbn [bind].
  - simpl. intros _. right. rewrite Ha. reflexivity.
  - match goal with |- wx s0 (bind (in_log (n_p ?x) li lt) _) => set (s1 := x) end.
    assert (J1 : jq s0 -> jw2 s1) by (intros [H1 H2]; split; [simpl; rewrite Ha; reflexivity | exact H2]).
    specialize (T s1).
    match goal with |- wx s0 ?r => change (wx s0 r); destruct r as [z | |] end; simpl in *; auto.
    intros J. destruct (T (J1 J) (J1 J)) as [A B]. split; [right; exact A | exact B].
Qed.

Lemma wx_snapshot_done s m : alt = Some m -> wx s (snapshot_done s m).
Proof.
  intro Ha. unfold snapshot_done.
  match goal with |- wx s (if ?c then _ else _) => destruct c end; [apply wx_of_mx; mleaf|].
  unfold do_mut. destruct (negb (n_budget s =? 0) && (n_budget s =? n_cnt s + 1)); cbn [bind].
  - simpl. intros _. right. rewrite Ha. reflexivity.
  - match goal with |- wx s (trim_log ?x _) => set (s1 := x) end.
    assert (J1 : jq s -> jw2 s1) by (intros [H1 H2]; split; [simpl; rewrite Ha; reflexivity | exact H2]).
    pose proof (wy_trim_log s1 (sn_index m)) as T.
    destruct (trim_log s1 (sn_index m)) as [z | |]; simpl in *; auto.
    intros J. destruct (T (J1 J)) as [A B]. split; [right; exact A | exact B].
Qed.


Lemma mx2_propose s es : mx2 s (propose s es).
Proof.
  unfold propose. destruct (n_role s); try (simpl; apply mk_refl).
  apply mx2_of_mx. apply mx_leader_propose.
Qed.

Lemma mx2_add_node s m rnd : mx2 s (add_node s m rnd).
Proof. unfold add_node. destruct (n_role s); try (simpl; apply mk_refl). apply mx2_leader_add_node. Qed.

Lemma mx2_remove_node s m : mx2 s (remove_node s m).
Proof. unfold remove_node. destruct (n_role s); try (simpl; apply mk_refl). apply mx2_leader_remove_node. Qed.

(* ---------------------------------------------------------------- the remaining handlers *)
Lemma mx_become_leader s : mx s (become_leader s).
Proof. unfold become_leader. eapply mx_pre; [| apply mx_enter_leader]. mvol. Qed.

Lemma mx_check_if_elected s : mx s (check_if_elected s).
Proof.
  unfold check_if_elected. destruct (n_conf s); simpl; auto.
  destruct (quorum m <=? N.of_nat (length (c_votes s))); [apply mx_become_leader | mleaf].
Qed.

Lemma fold_send_sk (ms : list nid) li lt : forall s,
  mk s (fold_left (fun a m => if m =? n_id a then a else send a m (VoteReq li lt)) ms s).
Proof.
  induction ms as [| m r IH]; intros s; simpl; [apply mk_refl|].
  destruct (m =? n_id s); [apply IH|]. eapply mk_trans; [| apply IH]. mvol.
Qed.

Lemma mx_enter_candidate s : mx s (enter_candidate s).
Proof.
  unfold enter_candidate.
  match goal with |- mx s (if ?c then _ else _) => destruct c end; [mleaf|].
  eapply mx_pre with (s' := set_candidate s (c_timeout s) []); [mvol|].
  apply mx_bind; [apply mx_do_mut; exact I|]. intros s1.
  set (s2 := if in_latest_conf s1 then set_candidate s1 (c_timeout s1) (set_add (n_id s1) (c_votes s1)) else s1).
  assert (H2 : mk s1 s2) by (unfold s2; destruct (in_latest_conf s1); [mvol | apply mk_refl]).
  eapply mx_pre; [exact H2|].
  apply mx_bind_pure; [ppure2 |]. intros [lt ok] _.
  destruct (negb ok); simpl; auto. destruct (n_conf s2); simpl; auto.
  match goal with |- mx s2 (check_if_elected (set_candidate ?x _ _)) =>
    eapply mx_pre with (s' := x); [apply fold_send_sk|];
    eapply mx_pre; [| apply mx_check_if_elected]; mvol end.
Qed.

Lemma mx_become_candidate s : mx s (become_candidate s).
Proof. unfold become_candidate. eapply mx_pre; [| apply mx_enter_candidate]. mvol. Qed.

Lemma mx_handle_candidate s m : mx s (handle_candidate s m).
Proof.
  unfold handle_candidate. destruct (m_body m); try exact I; try mleaf.
  destruct granted; [| mleaf]. eapply mx_pre; [| apply mx_check_if_elected]. mvol.
Qed.

Lemma mx_follower_note_leader s from : mx s (follower_note_leader s from).
Proof.
  unfold follower_note_leader. apply mx_bind.
  - destruct (p_vote (n_p s) =? 0); [apply mx_do_mut; exact I | mleaf].
  - intros s1. destruct (n_leader s1 =? 0); [mleaf|]. destruct (negb (n_leader s1 =? from)); simpl; auto using mk_refl.
Qed.

Definition alt_ok (m : msg) : Prop :=
  match m_body m with InstallSnap li lt c => alt = Some {| sn_index := li; sn_term := lt; sn_conf := Some c |} | _ => True end.

Lemma wx_handle_follower s m : alt_ok m -> wx s (handle_follower s m).
Proof.
  unfold alt_ok, handle_follower. intro Hq. destruct (m_body m); try (apply wx_of_mx; mleaf).
  - apply wx_of_mx. apply mx_bind; [apply mx_follower_note_leader|]. intros; apply mx_handle_app_ents.
  - apply wx_of_mx. apply mx_bind_pure; [ppure2 |]. intros g _. apply mx_bind.
    + destruct g; [apply mx_do_mut; exact I | mleaf].
    + intros; mleaf.
  - apply wx_bind; [apply mx_follower_note_leader|]. intros; apply wx_handle_snapshot; exact Hq.
Qed.

Lemma wx_handle_by_role s m : alt_ok m -> wx s (handle_by_role s m).
Proof.
  intro Hq. unfold handle_by_role. destruct (n_role s); [apply wx_handle_follower; exact Hq | apply wx_of_mx; apply mx_handle_candidate | apply wx_of_mx; apply mx_handle_leader].
Qed.

Lemma wx_handle_msg s m : alt_ok m -> wx s (handle_msg s m).
Proof.
  intro Hq. unfold handle_msg.
  match goal with |- wx s (if ?c then _ else _) => destruct c end; [apply wx_of_mx; mleaf|].
  match goal with |- wx s (if ?c then _ else _) => destruct c end; [apply wx_of_mx; mleaf|].
  apply wx_bind.
  - match goal with |- mx s (if ?c then _ else _) => destruct c end; [apply mx_do_mut; exact I | mleaf].
  - intros s1.
    match goal with |- wx s1 (if ?c then _ else _) => destruct c end; [apply wx_of_mx; mleaf|].
    destruct (m_term m <? p_term (n_p s1)); [apply wx_of_mx; mleaf|].
    apply wx_bind; [| intros; apply wx_handle_by_role; exact Hq].
    destruct (p_term (n_p s1) <? m_term m); [| mleaf].
    destruct (m_body m); simpl; auto; try (intros [? _]; assumption); (apply mx_bind; [apply mx_do_mut; exact I | intros; mleaf]).
Qed.


Lemma mx_tick s : mx s (tick s).
Proof.
  unfold tick.
  set (s0 := set_elapsed s ((n_elapsed s + 1) mod 4294967296)).
  eapply mx_pre with (s' := s0); [mvol|].
  destruct (n_role s0).
  - match goal with |- mx s0 (if ?c then _ else _) => destruct c end; [apply mx_become_candidate | mleaf].
  - match goal with |- mx s0 (if ?c then _ else _) => destruct c end; [apply mx_become_candidate | mleaf].
  - apply mx_tick_leader.
Qed.

Lemma mx2_propose_initial s ms ep : mx2 s (propose_initial_membership s ms ep).
Proof.
  unfold propose_initial_membership.
  destruct (n_role s); try (simpl; apply mk_refl).
  destruct (is_clean (n_p s)); [| simpl; apply mk_refl].
  apply mx2_bind; [apply mx_do_mut; exact I|]. intros s1.
  apply mx2_bind; [apply mx_log_append|]. intros s2. simpl. mvol.
Qed.




End Pass.

(* ---------------------------------------------------------------- every event, with a crash point *)
Definition alt_of (sn0 : option snapmeta) (ev : event) : option snapmeta :=
  match ev with
  | ESnapDone m => Some m
  | EDeliver m => match m_body m with
                  | InstallSnap li lt c => Some {| sn_index := li; sn_term := lt; sn_conf := Some c |}
                  | _ => sn0
                  end
  | _ => sn0
  end.

Lemma new_core_snap id cfg p z : new_core id cfg p = Ret z -> p_snap (n_p z) = p_snap p /\ n_msgs z = [].
Proof.
  intro H. pose proof (new_core_pext id cfg p) as Np. rewrite H in Np. destruct Np as [_ [_ [_ [_ Nm]]]]. split; [| exact Nm].
  revert H. unfold new_core.
  assert (R : forall r, reconcile (blank_node id cfg p) = Ret r -> p_snap (n_p r) = p_snap p).
  { intros r. unfold reconcile. simpl.
    destruct (p_snap p) as [m |] eqn:Es; [| intro H; inversion H; simpl; auto].
    destruct (log_first (p_log p)) as [fi |]; [| intro H; inversion H; simpl; auto].
    destruct (log_last (p_log p)) as [li |]; [| intro H; inversion H; simpl; auto].
    assert (T : forall r0, do_mut (MTruncate 0) (blank_node id cfg p) = Ret r0 -> p_snap (n_p r0) = Some m).
    { intros r0. unfold do_mut. simpl. intro H. inversion H. simpl. exact Es. }
    destruct ((li <? sn_index m) || (sn_index m + 1 <? fi)); [intro H; exact (T _ H)|].
    destruct (fi <=? sn_index m); [| intro H; inversion H; simpl; auto].
    destruct (log_term p (sn_index m)) as [t | |]; simpl; try discriminate.
    destruct (negb (t =? sn_term m)); [intro H; exact (T _ H) | intro H; inversion H; simpl; auto]. }
  destruct (reconcile (blank_node id cfg p)) as [r | |] eqn:Er; simpl; try discriminate.
  specialize (R r eq_refl).
  destruct (p_snap (n_p r)) as [mm |] eqn:Esr.
  - set (x := set_conf (blank_node id cfg (n_p r)) (init_latest_conf (n_p r))).
    pose proof (mx_commit_up_to (p_snap p) x (sn_index mm)) as K.
    destruct (commit_up_to x (sn_index mm)) as [s1 | |]; simpl; try discriminate.
    intro H. inversion H. subst. simpl.
    assert (J : jq (p_snap p) x) by (split; [simpl; rewrite Esr; exact R | simpl; constructor]).
    exact (proj1 (K J)).
  - simpl. intro H. inversion H. subst. simpl. rewrite Esr. exact R.
Qed.

Theorem snapshot_meta_step s ev k crashed st s' :
  run_event_crash (settle s) ev k = Ret (crashed, st, s') ->
  Forall (isqc (p_snap (n_p s))) (n_msgs s') /\
  (p_snap (n_p s') = p_snap (n_p s) \/ p_snap (n_p s') = alt_of (p_snap (n_p s)) ev).
Proof.
  unfold run_event_crash. set (s0 := with_budget (settle s) k). set (sn0 := p_snap (n_p s)). set (alt := alt_of sn0 ev).
  assert (Hs0 : jq sn0 s0) by (split; [reflexivity | simpl; constructor]).
  assert (Fin : forall r, (match r with Ret (_, y) => jw sn0 alt y | Crashed p => p_snap p = sn0 \/ p_snap p = alt | Fatal _ => True end) ->
            match r with
            | Ret (st0, y) => Ret (false, st0, with_budget y 0)
            | Fatal c => Fatal c
            | Crashed p => s'0 <- new_core (n_id s) (n_cfg s) p ;; Ret (true, 0, s'0)
            end = Ret (crashed, st, s') ->
            Forall (isqc sn0) (n_msgs s') /\ (p_snap (n_p s') = sn0 \/ p_snap (n_p s') = alt)).
  { intros r Hr. destruct r as [[st0 y] | c | p]; try discriminate.
    - intro H. inversion H. subst. simpl. destruct Hr as [A B]. split; [exact B | exact A].
    - simpl. destruct (new_core (n_id s) (n_cfg s) p) as [z | |] eqn:En; simpl; try discriminate.
      intro H. inversion H. subst. destruct (new_core_snap _ _ _ _ En) as [A B]. rewrite B, A. split; [constructor | exact Hr]. }
  assert (W2 : forall r, mx2 sn0 s0 r -> match r with Ret (_, y) => jw sn0 alt y | Crashed p => p_snap p = sn0 \/ p_snap p = alt | Fatal _ => True end).
  { intros r K. destruct r as [[st0 y] | |]; simpl in *; auto. destruct (K Hs0) as [A B]. split; auto. }
  assert (W1 : forall (r : R node) (st0 : N), wx sn0 alt s0 r ->
            match (s1 <- r ;; Ret (st0, s1)) : R (N * node) with Ret (_, y) => jw sn0 alt y | Crashed p => p_snap p = sn0 \/ p_snap p = alt | Fatal _ => True end).
  { intros r st0 K. destruct r; simpl in *; auto. }
  apply Fin. destruct ev; simpl.
  - apply W2. apply mx2_propose_initial.
  - unfold wrap0. apply W1. apply wx_handle_msg. unfold alt_ok, alt, alt_of. destruct (m_body m); auto.
  - unfold wrap0. apply W1. apply wx_of_mx. apply mx_tick.
  - apply W2. apply mx2_propose.
  - apply W2. apply mx2_add_node.
  - apply W2. apply mx2_remove_node.
  - unfold wrap0. apply W1. apply wx_snapshot_done. reflexivity.
  - unfold wrap0. pose proof (new_core_pext (n_id s) (n_cfg s) (n_p s)) as Np.
    destruct (new_core (n_id s) (n_cfg s) (n_p s)) as [z | |] eqn:En; simpl; auto; [| contradiction].
    destruct (new_core_snap _ _ _ _ En) as [A B]. unfold jw. split; [left; exact A | rewrite B; constructor].
Qed.
