(* Raft/LeaderInstall.v — round 12: a node that is leader when an InstallSnapshot is delivered to it and that ends the event in
   the same term has neither changed its log nor its snapshot metadata (the message was dropped or stale; a message of the
   leader's own term is fatal, one of a higher term raises the term).  Node level, any crash point. *)
From Coq Require Import List NArith ZArith Bool Lia ZifyN ZifyNat ZifyBool.
From BLB Require Import Raft.Core Raft.NodeProofs Raft.LogMatchLists Raft.SnapContig Raft.LogMatchNodeSQ Raft.SnapEventsQ Raft.SnapMetaPass.
Import ListNotations.
Open Scope N_scope.

Definition same2 (p p' : pstate) : Prop := p_log p' = p_log p /\ p_snap p' = p_snap p.

Lemma leader_is_handle s m li lt cf :
  n_role s = Leader -> m_body m = InstallSnap li lt cf ->
  match handle_msg s m with
  | Ret x => p_term (n_p x) = p_term (n_p s) -> same2 (n_p s) (n_p x)
  | Crashed p => p_term p = p_term (n_p s) -> same2 (n_p s) p
  | Fatal _ => True
  end.
Proof.
  intros Hr Eb. unfold handle_msg.
  match goal with |- match (if ?c then _ else _) with _ => _ end => destruct c end; [intros _; split; reflexivity|].
  match goal with |- match (if ?c then _ else _) with _ => _ end => destruct c end; [intros _; split; reflexivity|].
  assert (HG : match (if guid_get (m_from m) (p_guids (n_p s)) =? 0 then do_mut (MSetGuid (m_from m) (m_fromg m)) s else Ret s) with
               | Ret s1 => same2 (n_p s) (n_p s1) /\ n_role s1 = Leader /\ p_term (n_p s1) = p_term (n_p s)
               | Crashed p => same2 (n_p s) p
               | Fatal _ => True end).
  { destruct (guid_get (m_from m) (p_guids (n_p s)) =? 0).
    - unfold do_mut. destruct (negb (n_budget s =? 0) && (n_budget s =? n_cnt s + 1)); simpl; [split; reflexivity|].
      split; [split; reflexivity | auto].
    - split; [split; reflexivity | auto]. }
  destruct (if guid_get (m_from m) (p_guids (n_p s)) =? 0 then do_mut (MSetGuid (m_from m) (m_fromg m)) s else Ret s) as [s1 | |];
    cbn [bind]; auto.
  destruct HG as [S1 [R1 T1]].
  match goal with |- match (if ?c then _ else _) with _ => _ end => destruct c end; [intros _; exact S1|].
  destruct (m_term m <? p_term (n_p s1)); [intros _; exact S1|].
  destruct (p_term (n_p s1) <? m_term m) eqn:Egt.
  - apply N.ltb_lt in Egt. rewrite Eb.
    unfold do_mut. destruct (negb (n_budget s1 =? 0) && (n_budget s1 =? n_cnt s1 + 1)); cbn [bind].
    + simpl. intro X. lia.
    + match goal with |- match handle_by_role ?x m with _ => _ end => set (s2 := x) end.
      pose proof (rext_handle_by_role s2 m) as P.
      assert (T2 : p_term (n_p s2) = m_term m) by reflexivity.
      unfold rext in P. destruct (handle_by_role s2 m) as [x | |]; auto.
      * destruct P as [[P _] _]. intro X. lia.
      * destruct P as [P _]. intro X. lia.
  - cbn [bind]. unfold handle_by_role. rewrite R1. unfold handle_leader. rewrite Eb. exact I.
Qed.

Lemma shape_len_eq C C' p cm cm' : shape C p cm -> shape C' p cm' -> length C' = length C.
Proof.
  intros [W S1] [W' S1']. destruct (p_snap p) as [sm |] eqn:Es.
  - destruct (p_log p) as [| e r] eqn:El.
    + rewrite app_nil_r in *. simpl in *. lia.
    + assert (H1 : nth_error (C ++ e :: r) (length C) = Some e) by (rewrite nth_error_app2 by lia; rewrite Nat.sub_diag; reflexivity).
      assert (H2 : nth_error (C' ++ e :: r) (length C') = Some e) by (rewrite nth_error_app2 by lia; rewrite Nat.sub_diag; reflexivity).
      pose proof (wf_from_nth _ _ _ _ W H1). pose proof (wf_from_nth _ _ _ _ W' H2). lia.
  - subst. reflexivity.
Qed.

Theorem leader_install_unchanged C s m li lt cf k crashed st s' :
  shape C (n_p s) (n_commit s) -> n_role s = Leader -> m_body m = InstallSnap li lt cf ->
  run_event_crash (settle s) (EDeliver m) k = Ret (crashed, st, s') -> p_term (n_p s') = p_term (n_p s) ->
  same2 (n_p s) (n_p s').
Proof.
  intros Sh Hr Eb. unfold run_event_crash. simpl. unfold wrap0. set (s0 := with_budget (settle s) k).
  pose proof (leader_is_handle s0 m li lt cf Hr Eb) as K.
  destruct (handle_msg s0 m) as [x | c | p] eqn:E; simpl; try discriminate.
  - intro H. inversion H. subst. simpl. intro Ht. exact (K Ht).
  - pose proof (new_core_pext (n_id s) (n_cfg s) p) as Np.
    destruct (new_core (n_id s) (n_cfg s) p) as [z | |] eqn:En; simpl; try discriminate.
    intro H. inversion H. subst. intro Ht.
    assert (Tp : p_term p = p_term (n_p s)).
    { pose proof (rext_handle_msg s0 m) as X1. rewrite E in X1. simpl in X1. destruct X1 as [X1 _].
      destruct Np as [[X2 _] _]. simpl in X1. lia. }
    destruct (K Tp) as [K1 K2].
    assert (Shp : shape C p (n_commit s)) by (apply (shape_ext C (n_p s) p _ _ K1 K2 (N.le_refl _) Sh)).
    split.
    + rewrite (new_core_log C (n_id s) (n_cfg s) p (n_commit s) s' Shp En). exact K1.
    + destruct (new_core_snap _ _ _ _ En) as [A _]. rewrite A. exact K2.
Qed.
