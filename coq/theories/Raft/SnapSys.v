(* Raft/SnapSys.v — the node-level invariant of Raft/SnapCommit.v lifted to the system of Raft/Election.v:
   under every schedule of sstep (all events: deliveries of any message ever sent incl. InstallSnapshot, ticks, proposals,
   AddNode, RemoveNode, restarts, crashes after any durable mutation) in which SnapshotDone reports a snapshot of an
   applied position (index <= commit index of the node that took it), every snapshot any node holds is within that node's
   commit index. *)
From Coq Require Import List NArith ZArith Bool Lia.
From BLB Require Import Lib.LTS Raft.Core Raft.Wire Raft.Election Raft.SnapCommit.
Import ListNotations.
Open Scope N_scope.

Definition snap_applied (σ : sys) (e : sys_event) : Prop :=
  forall m s, snd (fst e) = ESnapDone m -> get_node (fst (fst e)) (sy_nodes σ) = Some s -> sn_index m <= n_commit s.

Definition snstep (q : N) (σ : sys) (e : sys_event) (σ' : sys) : Prop := sstep q σ e σ' /\ snap_applied σ e.

Lemma in_put_node x c s : In s (put_node x c) -> s = x \/ In s c.
Proof.
  induction c as [| y r IH]; simpl; [tauto|].
  destruct (n_id y =? n_id x); simpl; intros [H | H]; auto. destruct (IH H); auto.
Qed.

Lemma snle_settle s : snle s -> snle (settle s).
Proof. unfold snle, settle. simpl. auto. Qed.

Lemma snstep_snle q σ e σ' :
  (forall s, In s (sy_nodes σ) -> snle s) -> snstep q σ e σ' -> forall s, In s (sy_nodes σ') -> snle s.
Proof.
  intros H [Hs Ha]. destruct Hs as [σ i s ev k crashed st s' G D Rn C]. simpl. intros x Hx.
  apply in_put_node in Hx. destruct Hx as [Hx | Hx]; [subst x | auto].
  destruct (get_node_in _ _ _ G) as [Hin Hid].
  apply (snapshot_within_commit s ev k crashed st s'); [apply H; exact Hin | | exact Rn].
  intros m Hm. apply (Ha m s); simpl; auto.
Qed.

Theorem snapshot_within_commit_sys q σ0 sched σ :
  (forall s, In s (sy_nodes σ0) -> snle s) -> run sys sys_event (snstep q) σ0 sched σ ->
  forall s m, In s (sy_nodes σ) -> p_snap (n_p s) = Some m -> sn_index m <= n_commit s.
Proof.
  intros H0 Hrun. assert (H : forall s, In s (sy_nodes σ) -> snle s).
  { induction Hrun; auto. apply IHHrun. eapply snstep_snle; eauto. }
  intros s m Hs Hm. exact (H s Hs m Hm).
Qed.
