(* Raft/CombinedExample.v — round 9, non-vacuity for the combined alphabet: one run of the annotated system
   (astep, every step also satisfying the side conditions evK of Raft/SnapConfTrack.v) that contains
   AddNode 3, a SnapshotDone on the leader that trims its whole log, an InstallSnap accepted by the
   lagging follower 3 (whose log does not hold the snapshot's last entry), and RemoveNode 2 committed
   with the new quorum {1, 3} on top of the snapshot. *)
From Coq Require Import List NArith ZArith Bool Lia.
From BLB Require Import Lib.LTS Raft.Core Raft.Wire Raft.Election Raft.ElectionExample Raft.LogMatchExample
  Raft.MembershipQuorum Raft.MembershipElection Raft.MembershipExample Raft.MemberNode Raft.MemberVotes
  Raft.MemberVotesExample Raft.SnapContig Raft.MemberConfTrack Raft.MemberPeers Raft.SnapConfTrack Raft.SnapConfRun.
Import ListNotations.
Open Scope N_scope.

Lemma kstep_exec a i ev k s crashed st s' :
  get_node i (sy_nodes (fst a)) = Some s ->
  (forall m, ev = EDeliver m -> In m (sy_soup (fst a)) /\ m_to m <> 0) ->
  run_event_crash (settle s) ev k = Ret (crashed, st, s') ->
  evK s ev ->
  kstep a (i, ev, k) (aapply a i ev k).
Proof.
  intros G D Rn He. split; [eapply astep_exec; eauto|].
  intros s2 G2. cbn [fst snd] in G2. rewrite G in G2. inversion G2. subst. exact He.
Qed.

Lemma run_kstep_astep a sched a' : run asys sys_event kstep a sched a' -> run asys sys_event astep a sched a'.
Proof. intro H. induction H; [apply run_nil | eapply run_cons; [| eassumption]]. destruct H. assumption. Qed.

Ltac k_side :=
  first [ exact I
        | solve [vm_compute; repeat constructor]
        | split; [vm_compute; repeat split
                 | vm_compute; first [exact I | intros _; reflexivity | let H := fresh in intro H; discriminate H]] ].

Ltac k_plain :=
  eapply kstep_exec;
  [ vm_compute; reflexivity
  | let m := fresh in let Hm := fresh in intros m Hm; discriminate
  | vm_compute; reflexivity
  | k_side ].

Ltac k_deliver :=
  eapply kstep_exec;
  [ vm_compute; reflexivity
  | let m := fresh in let Hm := fresh in intros m Hm; inversion Hm; subst; split; [vm_compute; tauto | vm_compute; discriminate]
  | vm_compute; reflexivity
  | k_side ].

(* the configuration [1; 2; 3] the leader holds after AddNode 3 is committed (state A13 of run A) *)
Definition blank_mb : membership := {| mb_members := []; mb_epoch := 0; mb_index := 0; mb_term := 0 |}.
Definition c123 : membership := Eval vm_compute in
  match get_node 1 (sy_nodes (fst A13)) with
  | Some s => match n_conf s with Some c => c | None => blank_mb end
  | None => blank_mb
  end.
(* the state machine of node 1 reports a snapshot through index 3 (term 2) carrying that configuration *)
Definition sm3 : snapmeta := {| sn_index := 3; sn_term := 2; sn_conf := Some c123 |}.

Definition C14 := aapply A13 1 (ESnapDone sm3) 0.         (* leader log trimmed to [], snapshot (3, 2, [1; 2; 3]) *)
Definition C15 := aapply C14 1 ETick 0.                   (* heartbeat: node 3 is behind the trimmed log -> InstallSnap *)
Definition q15 := Eval vm_compute in nthmsg (fst C15) 11. (* InstallSnap 1 -> 3 *)
Definition C16 := aapply C15 3 (EDeliver q15) 0.          (* node 3 installs it; configuration [1; 2; 3] from the snapshot *)
Definition q16 := Eval vm_compute in nthmsg (fst C16) 12. (* AppEntsResp 3 -> 1 *)
Definition C17 := aapply C16 1 (EDeliver q16) 0.
Definition C18 := aapply C17 1 (ERemoveNode 2) 0.         (* entry 4: configuration [1; 3] *)
Definition q18 := Eval vm_compute in nthmsg (fst C18) 13. (* AppEnts 1 -> 3 carrying entry 4 *)
Definition C19 := aapply C18 3 (EDeliver q18) 0.
Definition q19 := Eval vm_compute in nthmsg (fst C19) 14. (* AppEntsResp 3 -> 1 *)
Definition C20 := aapply C19 1 (EDeliver q19) 0.          (* entry 4 committed by the quorum {1, 3} *)

Definition snap_view (s : node) : option (N * N * list nid) :=
  match p_snap (n_p s) with
  | Some m => Some (sn_index m, sn_term m, match sn_conf m with Some c => mb_members c | None => [] end)
  | None => None
  end.
Definition cview (a : asys) :=
  map (fun s => (n_id s, n_role s, p_term (n_p s), members_of s, n_commit s,
                 map (fun e => (e_index e, e_term e)) (p_log (n_p s)), snap_view s)) (sy_nodes (fst a)).
Definition body_kind (m : msg) : N :=
  match m_body m with VoteReq _ _ => 1 | VoteResp _ => 2 | AppEnts _ _ _ _ => 3 | AppEntsResp _ _ _ => 4 | InstallSnap _ _ _ => 5 end.

Definition schedC : list sys_event :=
  sched10 ++
  [(1, EAddNode 3 77, 0); (2, EDeliver w11, 0); (1, EDeliver w12, 0);
   (1, ESnapDone sm3, 0); (1, ETick, 0); (3, EDeliver q15, 0); (1, EDeliver q16, 0);
   (1, ERemoveNode 2, 0); (3, EDeliver q18, 0); (1, EDeliver q19, 0)].

Lemma conf_logical_A0 : all_conf_logical A0.
Proof.
  intros i s G. apply get_node_in in G. destruct G as [Hs _]. simpl in Hs.
  destruct Hs as [E | [E | [E | []]]]; subst s; (split; [vm_compute; repeat split | vm_compute; reflexivity]).
Qed.

Lemma krun_A10 : run asys sys_event kstep A0 sched10 A10.
Proof.
  unfold sched10.
  apply run_cons with (s1 := A1); [k_plain|].
  apply run_cons with (s1 := A2); [k_plain|].
  apply run_cons with (s1 := A3); [k_plain|].
  apply run_cons with (s1 := A4); [k_deliver|].
  apply run_cons with (s1 := A5); [k_deliver|].
  apply run_cons with (s1 := A6); [k_plain|].
  apply run_cons with (s1 := A7); [k_deliver|].
  apply run_cons with (s1 := A8); [k_deliver|].
  apply run_cons with (s1 := A9); [k_deliver|].
  apply run_cons with (s1 := A10); [k_deliver|].
  apply run_nil.
Qed.

Lemma krun_C20 : run asys sys_event kstep A0 schedC C20.
Proof.
  unfold schedC. apply (run_app _ _ _ A0 sched10 A10); [exact krun_A10|].
  apply run_cons with (s1 := A11); [k_plain|].
  apply run_cons with (s1 := A12); [k_deliver|].
  apply run_cons with (s1 := A13); [k_deliver|].
  apply run_cons with (s1 := C14); [k_plain|].
  apply run_cons with (s1 := C15); [k_plain|].
  apply run_cons with (s1 := C16); [k_deliver|].
  apply run_cons with (s1 := C17); [k_deliver|].
  apply run_cons with (s1 := C18); [k_plain|].
  apply run_cons with (s1 := C19); [k_deliver|].
  apply run_cons with (s1 := C20); [k_deliver|].
  apply run_nil.
Qed.

Lemma run_C20 : run asys sys_event astep A0 schedC C20.
Proof. exact (run_kstep_astep _ _ _ krun_C20). Qed.

(* before the install node 3 has an empty log and no snapshot; the message is an InstallSnap from 1 to 3 *)
Lemma V15 : cview C15 =
  [(1, Leader, 2, [1; 2; 3], 3, [], Some (3, 2, [1; 2; 3]));
   (2, Follower, 2, [1; 2; 3], 2, [(1, 1); (2, 2); (3, 2)], None);
   (3, Follower, 0, [], 0, [], None)].
Proof. vm_compute. reflexivity. Qed.
Lemma Q15 : (body_kind q15, m_from q15, m_to q15) = (5, 1, 3).
Proof. vm_compute. reflexivity. Qed.
Lemma V16 : cview C16 =
  [(1, Leader, 2, [1; 2; 3], 3, [], Some (3, 2, [1; 2; 3]));
   (2, Follower, 2, [1; 2; 3], 2, [(1, 1); (2, 2); (3, 2)], None);
   (3, Follower, 2, [1; 2; 3], 3, [], Some (3, 2, [1; 2; 3]))].
Proof. vm_compute. reflexivity. Qed.
Lemma V20 : cview C20 =
  [(1, Leader, 2, [1; 3], 4, [(4, 2)], Some (3, 2, [1; 2; 3]));
   (2, Follower, 2, [1; 2; 3], 2, [(1, 1); (2, 2); (3, 2)], None);
   (3, Follower, 2, [1; 3], 3, [(4, 2)], Some (3, 2, [1; 2; 3]))].
Proof. vm_compute. reflexivity. Qed.

(* the entry above the snapshot is the same on nodes 1 and 3 *)
Lemma LM_C20 :
  map (fun s => p_log (n_p s)) (filter (fun s => n_id s =? 1) (sy_nodes (fst C20))) =
  map (fun s => p_log (n_p s)) (filter (fun s => n_id s =? 3) (sy_nodes (fst C20))).
Proof. vm_compute. reflexivity. Qed.

Lemma EC_C20 : ec_view (snd C20) = [(2, 1, [1; 2])].
Proof. vm_compute. reflexivity. Qed.
Lemma ADJ_C20 : adjP (snd C20).
Proof. apply adjPb_ok. vm_compute. reflexivity. Qed.
Lemma ES_C20 : forall t x y, In (t, x) (sy_hist (fst C20)) -> In (t, y) (sy_hist (fst C20)) -> x = y.
Proof. exact (election_safety_given_adjacent_sys A0 C20 schedC ainit_A0 run_C20 ADJ_C20). Qed.

Lemma noself_C : Forall noself_ev schedC.
Proof.
  unfold schedC, sched10. simpl app.
  repeat (constructor; [intros x rnd H; cbn [fst snd] in H; try discriminate H; inversion H; subst; discriminate|]).
  constructor.
Qed.

Lemma PEERS_C20 : forall i s, get_node i (sy_nodes (fst C20)) = Some s -> n_role s = Leader ->
  forall id, In id (peer_ids s) <-> (memb_of s id /\ id <> n_id s).
Proof. exact (leader_acks_come_from_members_sys A0 C20 schedC ainit_A0 run_C20 noself_C). Qed.

Lemma CONF_C20 : forall i s, get_node i (sy_nodes (fst C20)) = Some s ->
  contig (n_p s) /\ n_conf s = init_latest_conf (n_p s).
Proof. exact (conf_tracks_logical_sys A0 C20 schedC conf_logical_A0 krun_C20). Qed.

Example combined_run_add_snapshot_remove :
  ainit A0 /\ all_conf_logical A0 /\ run asys sys_event kstep A0 schedC C20 /\
  In (1, EAddNode 3 77, 0) schedC /\ In (1, ESnapDone sm3, 0) schedC /\ In (3, EDeliver q15, 0) schedC /\
  In (1, ERemoveNode 2, 0) schedC /\
  (body_kind q15, m_from q15, m_to q15) = (5, 1, 3) /\
  cview C15 =
    [(1, Leader, 2, [1; 2; 3], 3, [], Some (3, 2, [1; 2; 3]));
     (2, Follower, 2, [1; 2; 3], 2, [(1, 1); (2, 2); (3, 2)], None);
     (3, Follower, 0, [], 0, [], None)] /\
  cview C16 =
    [(1, Leader, 2, [1; 2; 3], 3, [], Some (3, 2, [1; 2; 3]));
     (2, Follower, 2, [1; 2; 3], 2, [(1, 1); (2, 2); (3, 2)], None);
     (3, Follower, 2, [1; 2; 3], 3, [], Some (3, 2, [1; 2; 3]))] /\
  cview C20 =
    [(1, Leader, 2, [1; 3], 4, [(4, 2)], Some (3, 2, [1; 2; 3]));
     (2, Follower, 2, [1; 2; 3], 2, [(1, 1); (2, 2); (3, 2)], None);
     (3, Follower, 2, [1; 3], 3, [(4, 2)], Some (3, 2, [1; 2; 3]))] /\
  ec_view (snd C20) = [(2, 1, [1; 2])] /\ adjP (snd C20) /\
  (forall t x y, In (t, x) (sy_hist (fst C20)) -> In (t, y) (sy_hist (fst C20)) -> x = y) /\
  (forall i s, get_node i (sy_nodes (fst C20)) = Some s -> n_role s = Leader ->
     forall id, In id (peer_ids s) <-> (memb_of s id /\ id <> n_id s)) /\
  (forall i s, get_node i (sy_nodes (fst C20)) = Some s ->
     contig (n_p s) /\ n_conf s = init_latest_conf (n_p s)).
Proof.
  refine (conj ainit_A0 (conj conf_logical_A0 (conj krun_C20 (conj _ (conj _ (conj _ (conj _
    (conj Q15 (conj V15 (conj V16 (conj V20 (conj EC_C20 (conj ADJ_C20 (conj ES_C20 (conj PEERS_C20 CONF_C20)))))))))))))));
    unfold schedC; apply in_or_app; right; simpl; tauto.
Qed.
