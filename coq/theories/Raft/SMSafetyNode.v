(* Raft/SMSafetyNode.v — node-level pass for state-machine safety: the entries an event hands to the state machine
   ([n_commits], filled only by commitUpTo) are entries of the node's own log at the end of the event.  Relation [ar]:
   every newly committed entry is in the final log, and once something has been committed in the event the log only grows
   (the only truncation, handleAppEnts, happens before the event's commit).  Snapshot installation / trim are outside
   (handle_snapshot, snapshot_done, trim_log are not covered). *)
From Coq Require Import List NArith ZArith Bool Lia.
From BLB Require Import Raft.Core Raft.NodeProofs Raft.NodeLeader.
Import ListNotations.
Open Scope N_scope.

Definition ar (s s' : node) : Prop :=
  (forall x, In x (n_commits s') -> In x (n_commits s) \/ In x (p_log (n_p s'))) /\
  (n_commits s <> [] -> incl (p_log (n_p s)) (p_log (n_p s')) /\ incl (n_commits s) (n_commits s')).

Lemma ar_refl s : ar s s.
Proof. split; [auto | intros _; split; apply incl_refl]. Qed.

Lemma ar_trans a b c : ar a b -> ar b c -> ar a c.
Proof.
  intros [A1 A2] [B1 B2]. split.
  - intros x Hx. destruct (B1 x Hx) as [Hb | Hc]; [| auto].
    assert (Hne : n_commits b <> []) by (intro E; rewrite E in Hb; contradiction).
    destruct (B2 Hne) as [Il _]. destruct (A1 x Hb) as [Ha | Hl]; auto.
  - intro Hne. destruct (A2 Hne) as [Il Ic].
    assert (Hnb : n_commits b <> []).
    { destruct (n_commits a) as [| y r] eqn:E; [congruence|]. intro Eb. assert (In y (n_commits b)) by (apply Ic; left; reflexivity). rewrite Eb in H. contradiction. }
    destruct (B2 Hnb) as [Il2 Ic2]. split; eapply incl_tran; eauto.
Qed.

Lemma ar_vol s s' : n_commits s' = n_commits s -> p_log (n_p s') = p_log (n_p s) -> ar s s'.
Proof. intros A B. unfold ar. rewrite A, B. split; [auto | intros _; split; apply incl_refl]. Qed.

Definition ax (s : node) (r : R node) : Prop := match r with Ret s' => ar s s' | _ => True end.
Definition ax2 (s : node) (r : R (N * node)) : Prop := match r with Ret (_, s') => ar s s' | _ => True end.

Lemma ax_bind s (a : R node) (f : node -> R node) :
  ax s a -> (forall s1, ax s1 (f s1)) -> ax s (bind a f).
Proof.
  intros Ha Hf. destruct a as [s1 | c | p]; simpl in *; auto.
  specialize (Hf s1). destruct (f s1); simpl in *; auto. eapply ar_trans; eauto.
Qed.

Lemma ax_bind_pure {A} s (a : R A) (f : A -> R node) :
  (forall x, a = Ret x -> ax s (f x)) -> ax s (bind a f).
Proof. intros Hf. destruct a; simpl in *; auto. Qed.

Lemma ax_pre s s' r : ar s s' -> ax s' r -> ax s r.
Proof. intros H K. destruct r; simpl in *; auto. eapply ar_trans; eauto. Qed.

Lemma ax2_bind s (a : R node) (f : node -> R (N * node)) :
  ax s a -> (forall s1, ax2 s1 (f s1)) -> ax2 s (bind a f).
Proof.
  intros Ha Hf. destruct a as [s1 | c | p]; simpl in *; auto.
  specialize (Hf s1). destruct (f s1) as [[st s2] | |]; simpl in *; auto. eapply ar_trans; eauto.
Qed.

Lemma ax2_bind_pure {A} s (a : R A) (f : A -> R (N * node)) :
  (forall x, a = Ret x -> ax2 s (f x)) -> ax2 s (bind a f).
Proof. intros Hf. destruct a; simpl in *; auto. Qed.

Lemma ax2_pre s s' r : ar s s' -> ax2 s' r -> ax2 s r.
Proof. intros H K. destruct r as [[st x] | |]; simpl in *; auto. eapply ar_trans; eauto. Qed.

Lemma ax2_of_ax s r st : ax s r -> ax2 s (s1 <- r ;; Ret (st, s1)).
Proof. destruct r; simpl; auto. Qed.

Ltac kvol := apply ar_vol; reflexivity.
Ltac kleaf := simpl; solve [kvol].
Ltac ksend := kleaf.

Definition keeps_log (m : mut) : Prop := match m with MTruncate _ | MTrim _ => False | _ => True end.

Lemma ax_do_mut s m : keeps_log m -> ax s (do_mut m s).
Proof.
  intro H. unfold do_mut. destruct (negb (n_budget s =? 0) && (n_budget s =? n_cnt s + 1)); simpl; auto.
  unfold ar. simpl. split; [auto|]. intros _. split; [| apply incl_refl].
  destruct m; simpl in *; try apply incl_refl; try contradiction.
  destruct (mem_append_ext (p_log (n_p s)) es) as [new E]. rewrite E. apply incl_appl. apply incl_refl.
Qed.

Lemma ax_do_mut_nocommit s m : n_commits s = [] -> ax s (do_mut m s).
Proof.
  intro H. unfold do_mut. destruct (negb (n_budget s =? 0) && (n_budget s =? n_cnt s + 1)); simpl; auto.
  unfold ar. simpl. rewrite H. split; [intros x []| intro X; congruence].
Qed.

Lemma entries_loop_incl l b e es : entries_loop l b e = Ret es -> incl es l.
Proof.
  revert b es. induction l as [| x r IH]; intros b es; simpl.
  - intro H. inversion H. apply incl_refl.
  - destruct (negb (e_index x =? b)); [discriminate|]. destruct (e <=? e_index x); [intro H; inversion H; intros y Hy; destruct Hy|].
    destruct (entries_loop r (b + 1) e) eqn:E; simpl; try discriminate.
    intro H. inversion H. subst. intros y [Hy | Hy]; [left; auto | right; eapply IH; eauto].
Qed.

Lemma drop_while_incl {A} (f : A -> bool) l : incl (drop_while f l) l.
Proof. induction l as [| x r IH]; simpl; [apply incl_refl|]. destruct (f x); [apply incl_tl; exact IH | apply incl_refl]. Qed.

Lemma log_entries_incl p b e es : log_entries p b e = Ret es -> incl es (p_log p).
Proof. unfold log_entries. intro H. apply entries_loop_incl in H. eapply incl_tran; [exact H | apply drop_while_incl]. Qed.

(* ---------------------------------------------------------------- handlers *)
Lemma ax_log_append s es : ax s (log_append s es).
Proof.
  unfold log_append. apply ax_bind; [apply ax_do_mut; exact I|].
  intros s1. destruct (snd (mem_append (p_log (n_p s)) es)); simpl; auto using ar_refl.
Qed.

Lemma ar_commit s idx r ents :
  incl ents (p_log (n_p s)) -> ar s (set_commit s idx r (n_commits s ++ ents)).
Proof.
  intro Hi. unfold ar. simpl. split.
  - intros x Hx. apply in_app_or in Hx. destruct Hx; auto.
  - intros _. split; [apply incl_refl | apply incl_appl; apply incl_refl].
Qed.

Lemma ax_commit_up_to s i : ax s (commit_up_to s i).
Proof.
  unfold commit_up_to.
  match goal with |- ax s (match ?x with _ => _ end) => destruct x end.
  - destruct (negb (sn_index s0 =? i)); simpl; auto. kvol.
  - apply ax_bind_pure. intros ents He. apply log_entries_incl in He.
    match goal with |- ax s (if ?c then _ else _) => destruct c end; [| simpl; apply ar_commit; auto].
    match goal with |- ax s (match ?x with _ => _ end) => destruct x eqn:E2 end; simpl; auto.
    eapply ax_pre; [apply ar_commit; exact He | apply ax_do_mut; exact I].
Qed.


Lemma ax_send_app_ents s p : ax s (send_app_ents s p).
Proof.
  unfold send_app_ents. apply ax_bind_pure. intros ob Hob.
  destruct ob as [b |].
  - kleaf.
  - destruct (p_snap (n_p s)); simpl; auto. destruct (sn_conf s0); simpl; auto. kvol.
Qed.

Lemma ax_for_peers ids f s :
  (forall s1 p, ax s1 (f s1 p)) -> ax s (for_peers ids f s).
Proof.
  intro Hf. revert s. induction ids as [| id r IH]; intros s; simpl.
  - apply ar_refl.
  - destruct (peer_get id (l_peers s)); auto. apply ax_bind; auto.
Qed.

Lemma ax_leader_commit_up_to s i : ax s (leader_commit_up_to s i).
Proof.
  unfold leader_commit_up_to. apply ax_bind; [apply ax_commit_up_to|]. intros s1.
  match goal with |- ax s1 (if ?c then _ else _) => destruct c end; kleaf.
Qed.

Lemma ax_leader_maybe_commit s : ax s (leader_maybe_commit s).
Proof.
  unfold leader_maybe_commit. apply ax_bind_pure. intros mi _.
  destruct (n_commit s <? mi) eqn:Ec; [| kleaf]. apply N.ltb_lt in Ec.
  apply ax_bind_pure. intros [t ok] _.
  destruct (negb ok); simpl; auto. destruct (negb (t =? p_term (n_p s))); [kleaf|].
  apply ax_bind; [apply ax_leader_commit_up_to|]. intros s1.
  apply ax_for_peers. intros s2 p. destruct (pr_match p =? last_index (n_p s2)); [apply ax_send_app_ents | kleaf].
Qed.

Lemma ax_fold_enter (others : list nid) li : forall (acc : R node) s,
  ax s acc ->
  ax s (fold_left (fun (acc : R node) (m : nid) =>
                     a <- acc ;;
                     let p := mk_peer m (li + 1) 0 false 0 0 in
                     let a1 := set_leader a (l_check a) (peer_set p (l_peers a)) in
                     send_app_ents a1 p) others acc).
Proof.
  induction others as [| m r IH]; intros acc s H; simpl; auto.
  apply IH. apply ax_bind; auto. intros s1.
  eapply ax_pre; [| apply ax_send_app_ents]. kvol.
Qed.

Lemma ax_enter_leader s : ax s (enter_leader s).
Proof.
  unfold enter_leader. destruct (n_conf s); simpl; auto.
  apply ax_bind.
  - apply ax_fold_enter. kleaf.
  - intros s1. destruct (l_peers s1); [apply ax_leader_maybe_commit | kleaf].
Qed.

Lemma ax_tick_leader s : ax s (tick_leader s).
Proof.
  unfold tick_leader. apply ax_bind.
  - apply ax_for_peers. intros s2 p. destruct (should_send s2 p); [apply ax_send_app_ents | kleaf].
  - intros s1.
    match goal with |- ax s1 (if ?c then _ else _) => destruct c end; [| kleaf].
    apply ax_bind_pure. intros ok _. destruct ok; kleaf.
Qed.

Lemma ax_handle_app_ents_resp s from su ix hi : ax s (handle_app_ents_resp s from su ix hi).
Proof.
  unfold handle_app_ents_resp. destruct (peer_get from (l_peers s)); [| kleaf].
  destruct (ix <? pr_match p); [kleaf|]. destruct (negb su).
  - eapply ax_pre; [| apply ax_send_app_ents]. kvol.
  - match goal with |- ax s (if ?c then _ else _) => destruct c end; simpl; auto.
    apply ax_bind.
    + match goal with |- ax s (if ?c then _ else _) => destruct c end.
      * eapply ax_pre; [| apply ax_send_app_ents]. kvol.
      * kleaf.
    + intros s2. apply ax_leader_maybe_commit.
Qed.

Lemma ax_leader_propose s es : ax s (leader_propose s es).
Proof.
  unfold leader_propose. apply ax_bind; [apply ax_log_append|]. intros s1.
  apply ax_bind.
  - apply ax_for_peers. intros s3 p.
    match goal with |- ax s3 (if ?c then _ else _) => destruct c end; [apply ax_send_app_ents | kleaf].
  - intros s2. destruct (l_peers s2); [apply ax_leader_maybe_commit | kleaf].
Qed.

Lemma ax2_leader_add_node s m rnd : ax2 s (leader_add_node s m rnd).
Proof.
  unfold leader_add_node. apply ax2_bind_pure. intros _ _.
  destruct (n_conf s); simpl; auto.
  destruct (memb m (mb_members m0)); [simpl; apply ar_refl|].
  destruct (negb (latest_conf_committed s)); [simpl; apply ar_refl|].
  eapply ax2_pre; [| apply ax2_of_ax; apply ax_leader_propose]. kvol.
Qed.

Lemma ax2_leader_remove_node s m : ax2 s (leader_remove_node s m).
Proof.
  unfold leader_remove_node. apply ax2_bind_pure. intros _ _.
  destruct (n_conf s); simpl; auto.
  destruct (negb (memb m (mb_members m0))); [simpl; apply ar_refl|].
  destruct (negb (latest_conf_committed s)); [simpl; apply ar_refl|].
  eapply ax2_pre; [| apply ax2_bind; [apply ax_leader_propose |]].
  - kvol.
  - intros s3. apply ax2_of_ax. apply ax_leader_maybe_commit.
Qed.

Lemma ax_handle_leader s m : ax s (handle_leader s m).
Proof.
  unfold handle_leader. destruct (m_body m).
  - exact I.
  - apply ax_handle_app_ents_resp.
  - kleaf.
  - kleaf.
  - exact I.
Qed.

Lemma ax_follower_maybe_commit s lc mi : ax s (follower_maybe_commit s lc mi).
Proof.
  unfold follower_maybe_commit. destruct (n_commit s <? N.min mi lc) eqn:E; [| kleaf].
  apply N.ltb_lt in E. apply ax_commit_up_to.
Qed.

Lemma fold_conf_ar (app : list entry) : forall s,
  ar s (fold_left (fun a e => if e_type e =? EntryConf then set_conf a (decode_conf e) else a) app s).
Proof.
  induction app as [| e r IH]; intros s; simpl; [apply ar_refl|].
  destruct (e_type e =? EntryConf); [| apply IH].
  eapply ar_trans; [| apply IH]. kvol.
Qed.

Lemma do_mut_commits m s s1 : do_mut m s = Ret s1 -> n_commits s1 = n_commits s.
Proof.
  unfold do_mut. destruct (negb (n_budget s =? 0) && (n_budget s =? n_cnt s + 1)); [discriminate|].
  intro E. inversion E. reflexivity.
Qed.

Lemma ax_handle_app_ents s from pi pt cm oes : n_commits s = [] -> ax s (handle_app_ents s from pi pt cm oes).
Proof.
  intro Hnc. unfold handle_app_ents.
  eapply ax_pre with (s' := set_follower_contact s); [kvol|].
  set (s0 := set_follower_contact s).
  apply ax_bind_pure. intros ok _.
  destruct (negb ok); [kleaf|].
  destruct oes as [ents |].
  2: { eapply ax_pre; [| apply ax_follower_maybe_commit]. ksend. }
  apply ax_bind_pure. intros [ci any] _.
  apply ax_bind.
  - destruct any; [| kleaf]. apply ax_bind; [apply ax_do_mut_nocommit; exact Hnc|]. intros s'.
    destruct (n_conf s'); [| kleaf]. destruct (ci <=? mb_index m); kleaf.
  - intros s1.
    destruct (last_ent_index ents <=? last_index (n_p s1)).
    + eapply ax_pre; [| apply ax_follower_maybe_commit]. ksend.
    + destruct ents as [| e0 r]; simpl; auto.
      match goal with |- ax s1 (if ?c then _ else _) => destruct c end; simpl; auto.
      match goal with |- ax s1 (match ?x with _ => _ end) => destruct x as [| a0 ar] eqn:Eapp end; simpl; auto.
      match goal with |- ax s1 (if ?c then _ else _) => destruct c end; simpl; auto.
      match goal with |- ax s1 (bind (log_append ?x _) _) =>
        eapply ax_pre with (s' := x); [apply (fold_conf_ar (a0 :: ar) s1) |] end.
      apply ax_bind; [apply ax_log_append|]. intros s3.
      eapply ax_pre; [| apply ax_follower_maybe_commit]. ksend.
Qed.



Lemma ax2_propose s es : ax2 s (propose s es).
Proof.
  unfold propose. destruct (n_role s); try (simpl; apply ar_refl).
  apply ax2_of_ax. apply ax_leader_propose.
Qed.

Lemma ax2_add_node s m rnd : ax2 s (add_node s m rnd).
Proof. unfold add_node. destruct (n_role s); try (simpl; apply ar_refl). apply ax2_leader_add_node. Qed.

Lemma ax2_remove_node s m : ax2 s (remove_node s m).
Proof. unfold remove_node. destruct (n_role s); try (simpl; apply ar_refl). apply ax2_leader_remove_node. Qed.

(* ---------------------------------------------------------------- the remaining handlers *)
Lemma ax_become_leader s : ax s (become_leader s).
Proof. unfold become_leader. eapply ax_pre; [| apply ax_enter_leader]. kvol. Qed.

Lemma ax_check_if_elected s : ax s (check_if_elected s).
Proof.
  unfold check_if_elected. destruct (n_conf s); simpl; auto.
  destruct (quorum m <=? N.of_nat (length (c_votes s))); [apply ax_become_leader | kleaf].
Qed.

Lemma fold_send_ar (ms : list nid) b : forall s,
  ar s (fold_left (fun a m => if m =? n_id a then a else send a m b) ms s).
Proof.
  induction ms as [| m r IH]; intros s; simpl; [apply ar_refl|].
  destruct (m =? n_id s); [apply IH|]. eapply ar_trans; [| apply IH]. kvol.
Qed.

Lemma ax_enter_candidate s : ax s (enter_candidate s).
Proof.
  unfold enter_candidate.
  match goal with |- ax s (if ?c then _ else _) => destruct c end; [kleaf|].
  eapply ax_pre with (s' := set_candidate s (c_timeout s) []); [kvol|].
  apply ax_bind; [apply ax_do_mut; exact I|]. intros s1.
  set (s2 := if in_latest_conf s1 then set_candidate s1 (c_timeout s1) (set_add (n_id s1) (c_votes s1)) else s1).
  assert (H2 : ar s1 s2) by (unfold s2; destruct (in_latest_conf s1); [kvol | apply ar_refl]).
  eapply ax_pre; [exact H2|].
  apply ax_bind_pure. intros [lt ok] _.
  destruct (negb ok); simpl; auto. destruct (n_conf s2); simpl; auto.
  match goal with |- ax s2 (check_if_elected (set_candidate ?x _ _)) =>
    eapply ax_pre with (s' := x); [apply fold_send_ar|];
    eapply ax_pre; [| apply ax_check_if_elected]; kvol end.
Qed.

Lemma ax_become_candidate s : ax s (become_candidate s).
Proof. unfold become_candidate. eapply ax_pre; [| apply ax_enter_candidate]. kvol. Qed.

Lemma ax_handle_candidate s m : ax s (handle_candidate s m).
Proof.
  unfold handle_candidate. destruct (m_body m); try exact I; try kleaf.
  destruct granted; [| kleaf]. eapply ax_pre; [| apply ax_check_if_elected]. kvol.
Qed.

Lemma ax_follower_note_leader s from : ax s (follower_note_leader s from).
Proof.
  unfold follower_note_leader. apply ax_bind.
  - destruct (p_vote (n_p s) =? 0); [apply ax_do_mut; exact I | kleaf].
  - intros s1. destruct (n_leader s1 =? 0); [kleaf|]. destruct (negb (n_leader s1 =? from)); simpl; auto using ar_refl.
Qed.

Lemma follower_note_leader_commits s from s1 : follower_note_leader s from = Ret s1 -> n_commits s1 = n_commits s.
Proof.
  unfold follower_note_leader.
  destruct (if p_vote (n_p s) =? 0 then do_mut (MSetVote from) s else Ret s) as [x | |] eqn:E; simpl; try discriminate.
  assert (Hx : n_commits x = n_commits s).
  { destruct (p_vote (n_p s) =? 0); [eapply do_mut_commits; eauto | inversion E; reflexivity]. }
  destruct (n_leader x =? 0); [intro H; inversion H; simpl; exact Hx|].
  destruct (negb (n_leader x =? from)); [discriminate|]. intro H. inversion H. subst. exact Hx.
Qed.

Definition no_snap_msg (m : msg) : Prop := match m_body m with InstallSnap _ _ _ => False | _ => True end.

Lemma ax_handle_follower s m : n_commits s = [] -> no_snap_msg m -> ax s (handle_follower s m).
Proof.
  intros Hnc Hns. unfold handle_follower. unfold no_snap_msg in Hns. destruct (m_body m); try kleaf; try contradiction.
  - pose proof (ax_follower_note_leader s (m_from m)) as A.
    destruct (follower_note_leader s (m_from m)) as [s1 | |] eqn:E; simpl; auto.
    eapply ax_pre; [exact A|]. apply ax_handle_app_ents. rewrite (follower_note_leader_commits _ _ _ E). exact Hnc.
  - apply ax_bind_pure. intros g _. apply ax_bind.
    + destruct g; [apply ax_do_mut; exact I | kleaf].
    + intros; kleaf.
Qed.

Lemma ax_handle_by_role s m : n_commits s = [] -> no_snap_msg m -> ax s (handle_by_role s m).
Proof.
  intros Hnc Hns. unfold handle_by_role. destruct (n_role s);
    [apply ax_handle_follower; auto | apply ax_handle_candidate | apply ax_handle_leader].
Qed.

Lemma ax_handle_msg s m : n_commits s = [] -> no_snap_msg m -> ax s (handle_msg s m).
Proof.
  intros Hnc Hns. unfold handle_msg.
  match goal with |- ax s (if ?c then _ else _) => destruct c end; [kleaf|].
  match goal with |- ax s (if ?c then _ else _) => destruct c end; [kleaf|].
  match goal with |- ax s (bind ?a _) => destruct a as [s1 | |] eqn:E1 end; [| exact I | exact I].
  cbv beta iota delta [bind].
  assert (A1 : ar s s1 /\ n_commits s1 = []).
  { destruct (guid_get (m_from m) (p_guids (n_p s)) =? 0).
    - split; [pose proof (ax_do_mut s (MSetGuid (m_from m) (m_fromg m)) I) as K; rewrite E1 in K; exact K|].
      rewrite (do_mut_commits _ _ _ E1). exact Hnc.
    - inversion E1. subst. split; [apply ar_refl | exact Hnc]. }
  destruct A1 as [A1 C1]. eapply ax_pre; [exact A1|].
  match goal with |- ax s1 (if ?c then _ else _) => destruct c end; [kleaf|].
  destruct (m_term m <? p_term (n_p s1)); [kleaf|].
  destruct (p_term (n_p s1) <? m_term m).
  - assert (Hsave : forall v l, ax s1 (s2 <- (s' <- do_mut (MSaveState v (m_term m)) s1 ;; Ret (become_follower s' l)) ;; handle_by_role s2 m)).
    { intros v l. destruct (do_mut (MSaveState v (m_term m)) s1) as [x | |] eqn:E2; simpl; auto.
      pose proof (ax_do_mut s1 (MSaveState v (m_term m)) I) as K. rewrite E2 in K. simpl in K.
      eapply ax_pre; [exact K|]. eapply ax_pre with (s' := become_follower x l); [kvol|].
      apply ax_handle_by_role; auto. simpl. rewrite (do_mut_commits _ _ _ E2). exact C1. }
    destruct (m_body m); simpl; auto; apply Hsave.
  - cbv beta iota delta [bind]. apply ax_handle_by_role; auto.
Qed.

Lemma ax_tick s : ax s (tick s).
Proof.
  unfold tick.
  set (s0 := set_elapsed s ((n_elapsed s + 1) mod 4294967296)).
  eapply ax_pre with (s' := s0); [kvol|].
  destruct (n_role s0).
  - match goal with |- ax s0 (if ?c then _ else _) => destruct c end; [apply ax_become_candidate | kleaf].
  - match goal with |- ax s0 (if ?c then _ else _) => destruct c end; [apply ax_become_candidate | kleaf].
  - apply ax_tick_leader.
Qed.

Lemma ax2_propose_initial s ms ep : ax2 s (propose_initial_membership s ms ep).
Proof.
  unfold propose_initial_membership.
  destruct (n_role s); try (simpl; apply ar_refl).
  destruct (is_clean (n_p s)); [| simpl; apply ar_refl].
  apply ax2_bind; [apply ax_do_mut; exact I|]. intros s1.
  apply ax2_bind; [apply ax_log_append|]. intros s2. simpl. kvol.
Qed.


(* ---------------------------------------------------------------- every event, with a crash point *)
Lemma new_core_commits id cfg p s' :
  new_core id cfg p = Ret s' -> forall x, In x (n_commits s') -> In x (p_log (n_p s')).
Proof.
  unfold new_core.
  destruct (reconcile (blank_node id cfg p)) as [r | |]; simpl; try discriminate.
  set (s0 := set_conf (blank_node id cfg (n_p r)) (init_latest_conf (n_p r))).
  destruct (p_snap (n_p r)) as [m |].
  - pose proof (ax_commit_up_to s0 (sn_index m)) as A.
    destruct (commit_up_to s0 (sn_index m)) as [s1 | |]; simpl in *; try discriminate.
    intro H. inversion H. subst. simpl. intros x Hx. destruct A as [A _]. destruct (A x Hx) as [[] | Hl]. exact Hl.
  - simpl. intro H. inversion H. subst. simpl. intros x [].
Qed.

Definition ev_applied_ok (ev : event) : Prop :=
  match ev with
  | EDeliver m => no_snap_msg m
  | ESnapDone _ => False
  | _ => True
  end.

Theorem applied_in_own_log s ev k crashed st s' :
  ev_applied_ok ev -> run_event_crash (settle s) ev k = Ret (crashed, st, s') ->
  forall x, In x (n_commits s') -> In x (p_log (n_p s')).
Proof.
  intro Hev. unfold run_event_crash. set (s0 := with_budget (settle s) k).
  assert (Hc0 : n_commits s0 = []) by reflexivity.
  destruct (run_event s0 ev) as [[st0 y] | c | p] eqn:E; try discriminate.
  - intro H. inversion H. subst. simpl.
    assert (A : ar s0 y \/ (forall x, In x (n_commits y) -> In x (p_log (n_p y)))).
    { destruct ev; simpl in E, Hev.
      - left. pose proof (ax2_propose_initial s0 members epoch) as K. rewrite E in K. exact K.
      - left. unfold wrap0 in E. pose proof (ax_handle_msg s0 m Hc0 Hev) as K.
        destruct (handle_msg s0 m); simpl in E; try discriminate. inversion E. subst. exact K.
      - left. unfold wrap0 in E. pose proof (ax_tick s0) as K.
        destruct (tick s0); simpl in E; try discriminate. inversion E. subst. exact K.
      - left. pose proof (ax2_propose s0 es) as K. rewrite E in K. exact K.
      - left. pose proof (ax2_add_node s0 member rnd) as K. rewrite E in K. exact K.
      - left. pose proof (ax2_remove_node s0 member) as K. rewrite E in K. exact K.
      - contradiction.
      - right. unfold wrap0 in E. simpl in E.
        destruct (new_core (n_id s) (n_cfg s) (n_p s)) as [z | |] eqn:En; simpl in E; try discriminate.
        inversion E. subst. eapply new_core_commits; eauto. }
    destruct A as [[A _] | A]; [| exact A].
    intros x Hx. destruct (A x Hx) as [Hy | Hy]; [rewrite Hc0 in Hy; contradiction | exact Hy].
  - intro H. simpl in H.
    destruct (new_core (n_id s) (n_cfg s) p) as [z | |] eqn:En; simpl in H; try discriminate.
    inversion H. subst. eapply new_core_commits; eauto.
Qed.
