(* Raft/SnapContigSys.v — log + snapshot index-contiguity lifted to the system of Raft/Election.v: under EVERY schedule of sstep
   (deliveries of any message ever sent incl. InstallSnapshot, to any node, any number of times or never; ticks; proposals;
   AddNode; RemoveNode; SnapshotDone with any metadata the core accepts; restarts; crashes after any durable mutation, in
   particular between the two durable writes of handleSnapshot and of fsmSnapshotDone, followed by newCore with the
   start-up reconciliation) every node's store is contiguous (Raft/SnapContig.v: contig) and every AppEnts in the soup
   carries entries with consecutive indices. No side condition on the schedule. *)
From Coq Require Import List NArith ZArith Bool Lia.
From BLB Require Import Lib.LTS Raft.Core Raft.Wire Raft.Election Raft.SnapSys Raft.SnapContig Raft.SnapContigMsgs.
Import ListNotations.
Open Scope N_scope.

Definition cinv (σ : sys) : Prop :=
  (forall s, In s (sy_nodes σ) -> contig (n_p s)) /\ (forall m, In m (sy_soup σ) -> mwf m).

Lemma out_msgs_mwf s m : Forall mwf (n_msgs s) -> In m (out_msgs s) -> mwf m.
Proof.
  intros H Hin. unfold out_msgs in Hin. rewrite in_sort_by_to in Hin. rewrite in_map_iff in Hin.
  destruct Hin as [m0 [E H0]]. rewrite Forall_forall in H. specialize (H m0 H0). subst m. unfold mwf in *. simpl. exact H.
Qed.

Lemma cinv_step q σ e σ' : cinv σ -> sstep q σ e σ' -> cinv σ'.
Proof.
  intros [Hn Hm] Hs. destruct Hs as [σ i s ev k crashed st s' G D Rn C].
  destruct (get_node_in _ _ _ G) as [Hin Hid].
  split; simpl.
  - intros x Hx. apply in_put_node in Hx. destruct Hx as [Hx | Hx]; [subst x | auto].
    apply (contiguous_step s ev k crashed st s'); [apply Hn; exact Hin | | exact Rn].
    intros m Hev. apply Hm. apply (D m Hev).
  - intros m Hx. apply in_app_or in Hx. destruct Hx as [Hx | Hx]; [auto|].
    eapply out_msgs_mwf; [| exact Hx]. eapply emitted_app_ents_contiguous; eauto.
Qed.

Theorem log_snapshot_contiguous_sys q σ0 sched σ :
  cinv σ0 -> run sys sys_event (sstep q) σ0 sched σ -> cinv σ.
Proof.
  intros H0 Hrun. induction Hrun; auto. apply IHHrun. eapply cinv_step; eauto.
Qed.

(* what contig says, spelled out: no hole between the snapshot and the log, consecutive indices, and the last index of the
   store is at least the snapshot index *)
Lemma contig_spelled p :
  contig p ->
  (forall j a b, nth_error (p_log p) j = Some a -> nth_error (p_log p) (S j) = Some b -> e_index b = e_index a + 1) /\
  (forall a, nth_error (p_log p) 0 = Some a ->
     1 <= e_index a /\ match p_snap p with None => e_index a = 1 | Some m => e_index a <= sn_index m + 1 end) /\
  (forall m, p_snap p = Some m -> sn_index m <= last_index p).
Proof.
  intros [A B]. destruct (p_log p) as [| x t] eqn:El.
  - split; [intros j a b Ha; destruct j; discriminate|]. split; [intros a Ha; discriminate|].
    intros m Hm. unfold last_index. rewrite El. unfold log_last. simpl. rewrite Hm. lia.
  - destruct A as [A1 A2]. split; [| split].
    + intros j a b Ha Hb. rewrite (LogMatchLists.wf_from_nth _ _ _ _ A2 Ha), (LogMatchLists.wf_from_nth _ _ _ _ A2 Hb). lia.
    + intros a Ha. simpl in Ha. inversion Ha. subst a. split; [exact A1|]. destruct (p_snap p); [tauto | exact B].
    + intros m Hm. rewrite Hm in B. rewrite <- El in A2.
      rewrite (last_index_contig p x t El A2). rewrite El in *. simpl length in *. lia.
Qed.
