(* Raft/LogMatchNodeQ.v — round 7: Raft/LogMatchNode.v once more (generated from it) with ONE strengthening: in the leader's
   commit evidence lead_ev the leader itself is counted only if it is a member of its configuration (in_latest_conf),
   as findMajorityIndex does.  Needed for per-configuration quorums. *)
(* Raft/LogMatchNode.v — node-level summary of one event for the log-matching argument, for nodes WITHOUT snapshot
   (no snapshot is ever taken or installed, the log is never trimmed) and events other than AddNode / RemoveNode /
   SnapshotDone / delivery of InstallSnap.  For every such event on a settled node, completed or crashed after any
   durable mutation followed by newCore:
     - the log stays index-contiguous from 1 and there is still no snapshot;
     - the log is unchanged, or a prefix of the old one (a follower crashed right after the truncation), or the bootstrap
       entry was added to an empty log, or a leader appended entries of its own term, or a follower merged the delivered
       AppEnts: new = old[..c) ++ ents[c - prev ..) where c is the first term conflict (or the end of the old log) and
       the entry before c (if it is in the overlap) has equal terms in both;
     - every AppEnts in the outbox is a slice of the FINAL log preceded by a matching (prevIndex, prevTerm), and was sent by
       a node that is leader at the end of the event or was leader of the same term at its start;
     - no InstallSnap is emitted;
     - role / term bookkeeping: a candidate or leader has term >= 2; within a term a follower never becomes candidate or
       leader again and a leader never becomes candidate. *)
From Coq Require Import List NArith ZArith Bool Lia ZifyN ZifyNat ZifyBool.
From BLB Require Import Raft.Core Raft.NodeProofs Raft.LogMatchLists Raft.CommitCount.
Import ListNotations.
Open Scope N_scope.

(* majority_evidence of CommitCount.v with the missing fact kept: the leader counts itself only as a member *)
Lemma majority_evidence_m s mi :
  find_majority_index s = Ret mi -> pasc (l_peers s) -> (forall p, In p (l_peers s) -> pr_id p <> n_id s) ->
  mi <= last_index (n_p s) ->
  exists c Q, n_conf s = Some c /\ NoDup Q /\ quorum c <= N.of_nat (length Q) /\
              (forall v, In v Q -> (v = n_id s /\ in_latest_conf s = true) \/ exists p, peer_get v (l_peers s) = Some p /\ mi <= pr_match p) /\
              (l_peers s = [] -> in_latest_conf s = true).
Proof.
  intros Hf Hp Hs Hle. pose proof Hf as Hf0. revert Hf.
  unfold find_majority_index. destruct (n_conf s) as [c |] eqn:Ec; [| discriminate].
  set (own := if in_latest_conf s then [last_index (n_p s)] else []).
  destruct (nth_error (sort_desc (own ++ map pr_match (l_peers s))) (N.to_nat (quorum c - 1))) as [ci |] eqn:En; [| discriminate].
  intros H. inversion H. subst ci. clear H.
  apply majority_count in En. rewrite cnt_ge_app, cnt_ge_map in En.
  set (Qp := map pr_id (filter (fun p => mi <=? pr_match p) (l_peers s))) in *.
  exists c, ((if in_latest_conf s then [n_id s] else []) ++ Qp). split; [reflexivity|]. split; [| split; [| split]].
  - apply NoDup_app_intro.
    + destruct (in_latest_conf s); constructor; [intros [] | constructor].
    + apply pasc_filter_nodup. exact Hp.
    + intros v H1 H2. destruct (in_latest_conf s); [| contradiction]. destruct H1 as [H1 | []]. subst v.
      unfold Qp in H2. apply in_map_iff in H2. destruct H2 as [q [E Hq]]. apply filter_In in Hq. destruct Hq as [Hq _].
      apply (Hs q Hq). exact E.
  - rewrite app_length. unfold Qp. rewrite map_length.
    assert (Hown : (cnt_ge mi own <= length (if in_latest_conf s then [n_id s] else []))%nat).
    { unfold own, cnt_ge. destruct (in_latest_conf s); simpl; [| lia]. destruct (mi <=? last_index (n_p s)); simpl; lia. }
    unfold quorum in *. lia.
  - intros v Hv. apply in_app_or in Hv. destruct Hv as [Hv | Hv].
    + destruct (in_latest_conf s) eqn:Ei; [| contradiction]. destruct Hv as [Hv | []]. left. auto.
    + right. unfold Qp in Hv. apply in_map_iff in Hv. destruct Hv as [q [E Hq]]. apply filter_In in Hq. destruct Hq as [Hq Hm].
      exists q. split; [rewrite <- E; apply peer_get_in; auto | apply N.leb_le; exact Hm].
  - intro Hnil. rewrite Hnil in En. simpl in En. unfold own in En. destruct (in_latest_conf s); [reflexivity|]. simpl in En. lia.
Qed.

Definition slice (L : list entry) (pi pt : N) (oe : option (list entry)) : Prop :=
  pi <= N.of_nat (length L) /\ term_at L pi pt /\
  match oe with Some ents => ents = firstn (length ents) (skipn (N.to_nat pi) L) | None => True end.

Definition is_appents (m : msg) : Prop := match m_body m with AppEnts _ _ _ _ => True | _ => False end.
Definition no_appents (l : list msg) : Prop := Forall (fun m => ~ is_appents m) l.

(* a successful AppEntsResp for index idx: the entry at idx has the term the delivered AppEnts claims for it (RT) *)
Definition resp_ok (RT : N -> N -> Prop) (L : list entry) (idx : N) : Prop :=
  idx = 0 \/ exists e, nth_error L (N.to_nat (idx - 1)) = Some e /\ RT idx (e_term e).

Definition last_term (L : list entry) : N := match rev L with e :: _ => e_term e | [] => 0 end.

(* canGrantVote's comparison: the log L is not more up-to-date than a candidate log with last index li and last term lt *)
Definition uptodate (L : list entry) (li lt : N) : Prop :=
  last_term L < lt \/ (lt = last_term L /\ N.of_nat (length L) <= li).

Definition mgood (RT : N -> N -> Prop) (VQ : nid -> list entry -> Prop) (LQ : list entry -> N -> Prop)
  (L : list entry) (m : msg) : Prop :=
  match m_body m with
  | AppEnts pi pt _ oe => slice L pi pt oe
  | AppEntsResp true idx _ => resp_ok RT L idx
  | VoteReq li lt => li = N.of_nat (length L) /\ lt = last_term L /\ LQ L (m_term m)
  | VoteResp true => VQ (m_to m) L
  | InstallSnap _ _ _ => False
  | _ => True
  end.

Lemma last_term_at L t :
  term_at L (N.of_nat (length L)) t -> (length L = 0%nat -> t = 0) -> t = last_term L.
Proof.
  intros Ta Z. unfold last_term. destruct L as [| x r] using rev_ind; [simpl; auto|].
  rewrite rev_app_distr. simpl. destruct Ta as [E | [e [E1 E2]]].
  - rewrite app_length in E. simpl in E. lia.
  - rewrite app_length in E1. simpl in E1. rewrite nth_error_app2 in E1 by lia.
    replace (N.to_nat (N.of_nat (length r + 1) - 1) - length r)%nat with 0%nat in E1 by lia. simpl in E1. inversion E1. subst. auto.
Qed.

Lemma resp_ok_app RT L x idx : resp_ok RT L idx -> resp_ok RT (L ++ x) idx.
Proof.
  intros [H | [e [H1 H2]]]; [left; auto|]. right. exists e. split; auto.
  rewrite nth_error_app1; auto. apply nth_error_Some. congruence.
Qed.

Lemma term_at_app L x pi pt : term_at L pi pt -> term_at (L ++ x) pi pt.
Proof.
  intros [H | [e [H1 H2]]]; [left; auto|]. right. exists e. split; auto.
  rewrite nth_error_app1; auto. apply nth_error_Some. congruence.
Qed.

Lemma slice_app L x pi pt oe : slice L pi pt oe -> slice (L ++ x) pi pt oe.
Proof.
  intros [A [B C]]. split; [rewrite app_length; lia|]. split; [apply term_at_app; auto|].
  destruct oe as [ents |]; auto.
  rewrite skipn_app, firstn_app.
  assert (Hl : (length ents <= length (skipn (N.to_nat pi) L))%nat).
  { rewrite C at 1. rewrite firstn_length. lia. }
  replace (length ents - length (skipn (N.to_nat pi) L))%nat with 0%nat by lia. simpl. rewrite app_nil_r. exact C.
Qed.


Record ainp := { ai_term : N; ai_pi : N; ai_pt : N; ai_ents : list entry }.

Definition boot_entry (ms : list nid) (ep : N) : entry :=
  {| e_term := 1; e_index := 1; e_type := EntryConf;
     e_pl := encode_conf {| mb_members := ms; mb_epoch := ep; mb_index := 1; mb_term := 1 |} |}.

Definition base (s : node) : Prop :=
  p_snap (n_p s) = None /\ wf_from 1 (p_log (n_p s)) /\
  ((p_log (n_p s) = [] /\ n_conf s = None) \/ 1 <= p_term (n_p s)) /\
  (n_role s <> Follower -> 2 <= p_term (n_p s)) /\
  (n_role s = Leader -> pasc (l_peers s) /\ forall p, In p (l_peers s) -> pr_id p <> n_id s).

Lemma new_core_nosnap id cfg p :
  p_snap p = None -> new_core id cfg p = Ret (become_follower (set_conf (blank_node id cfg p) (init_latest_conf p)) 0).
Proof.
  intro H. unfold new_core, reconcile. simpl. rewrite H. simpl. rewrite H. reflexivity.
Qed.

Section LV.
  Variable s0 : node.
  Variable inp : option ainp.
  Variable boot : option entry.
  Variable RT : N -> N -> Prop.
  Variable VQ : nid -> list entry -> Prop.
  Variable LQ : list entry -> N -> Prop.
  Hypothesis HLQ : forall t, p_term (n_p s0) < t -> LQ (p_log (n_p s0)) t.
  Variable DC : N -> Prop.            (* "cm is the leaderCommit of the delivered AppEnts" *)
  Variable RSP : nid -> N -> N -> Prop.    (* "a successful AppEntsResp for this index from this node, of this term, was delivered" *)

  (* the old log and the delivered entries disagree (different terms) at position c *)
  Definition conflict_at (L0 : list entry) (a : ainp) (c : nat) : Prop :=
    (N.to_nat (ai_pi a) <= c)%nat /\
    exists e1 e2, nth_error L0 c = Some e1 /\ nth_error (ai_ents a) (c - N.to_nat (ai_pi a)) = Some e2 /\ e_term e1 <> e_term e2.

  Definition merged (L0 L : list entry) (a : ainp) : Prop :=
    exists c : nat,
      let pi := N.to_nat (ai_pi a) in
      L = firstn c L0 ++ skipn (c - pi) (ai_ents a) /\ (pi <= c <= length L0)%nat /\ (c <= pi + length (ai_ents a))%nat /\
      term_at L0 (ai_pi a) (ai_pt a) /\
      (c = pi \/ exists e1 e2, nth_error L0 (c - 1) = Some e1 /\ nth_error (ai_ents a) (c - 1 - pi) = Some e2 /\
                               (pi < c)%nat /\ e_term e1 = e_term e2) /\
      (c = length L0 \/ conflict_at L0 a c).

  Definition LR (p : pstate) (r : role) : Prop :=
    let L0 := p_log (n_p s0) in
    let L := p_log p in
    let ns := ~ (n_role s0 = Leader /\ p_term p = p_term (n_p s0)) in
    L = L0 \/
    (r = Follower /\ ns /\ exists a c, inp = Some a /\ p_term p = ai_term a /\ L = firstn c L0 /\ conflict_at L0 a c) \/
    (r = Follower /\ ns /\ exists b, boot = Some b /\ L0 = [] /\ L = [b]) \/
    (n_role s0 = Leader /\ p_term p = p_term (n_p s0) /\
     exists new, L = L0 ++ new /\ Forall (fun e => e_term e = p_term (n_p s0)) new) \/
    (r = Follower /\ ns /\ exists a, inp = Some a /\ p_term p = ai_term a /\ merged L0 L a).

  Lemma LR_follower p r : LR p r -> LR p Follower.
  Proof.
    unfold LR. cbv zeta. intros [H | [[_ H] | [[_ H] | [H | [_ H]]]]].
    - left. exact H.
    - right. left. auto.
    - right. right. left. auto.
    - right. right. right. left. exact H.
    - right. right. right. right. auto.
  Qed.

  Lemma LR_same p p' r : p_log p' = p_log p -> p_term p' = p_term p -> LR p r -> LR p' r.
  Proof. unfold LR. cbv zeta. intros A B. rewrite A, B. auto. Qed.

  Definition leaderish (s : node) : Prop :=
    n_role s = Leader \/ (n_role s0 = Leader /\ p_term (n_p s) = p_term (n_p s0)).
  Definition strong (s : node) : Prop := n_role s0 = Leader /\ p_term (n_p s) = p_term (n_p s0).

  (* commit-index and peers-table bookkeeping *)
  Definition cm_msg (c : N) (m : msg) : Prop := match m_body m with AppEnts _ _ cm _ => cm <= c | _ => True end.

  (* the justification of a peers-table entry depends only on its id and match index *)
  Definition pjust (s : node) (id m : N) : Prop :=
    m = 0 \/ (strong s /\ exists p0, peer_get id (l_peers s0) = Some p0 /\ pr_match p0 = m) \/ RSP id m (p_term (n_p s)).

  Definition fc_ev (s : node) : Prop :=
    exists cm idx h m0, DC cm /\ n_commit s <= cm /\ In m0 (n_msgs s) /\ m_body m0 = AppEntsResp true idx h /\ n_commit s <= idx.

  Definition lead_ev (s : node) : Prop :=
    (n_role s = Leader \/ strong s) /\ n_commit s <= llen (n_p s) /\
    term_at (p_log (n_p s)) (n_commit s) (p_term (n_p s)) /\
    exists c Q, n_conf s = Some c /\ NoDup Q /\ quorum c <= N.of_nat (length Q) /\
                forall v, In v Q -> (v = n_id s /\ in_latest_conf s = true) \/
                                   exists p, peer_get v (l_peers s) = Some p /\ n_commit s <= pr_match p /\ pjust s v (pr_match p).

  (* the commit index was raised to a position at which the log agrees in term with the delivered entries (an installed snapshot
     whose acknowledgement was lost in a crash) *)
  Definition ic_ev (s : node) : Prop :=
    exists cm a, DC cm /\ inp = Some a /\ p_term (n_p s) = ai_term a /\ n_commit s <= cm /\ resp_ok RT (p_log (n_p s)) (n_commit s).

  Definition pk (s : node) : Prop :=
    pasc (l_peers s) /\ (forall p, In p (l_peers s) -> pr_id p <> n_id s) /\
    forall p, In p (l_peers s) -> pjust s (pr_id p) (pr_match p).

  Definition ext (s : node) : Prop :=
    Forall (cm_msg (n_commit s)) (n_msgs s) /\
    True /\ (n_commit s <= n_commit s0 \/ fc_ev s \/ lead_ev s \/ ic_ev s) /\
    (n_role s = Leader -> pk s).

  Record inv (s : node) : Prop := mk_inv {
    v_snap : p_snap (n_p s) = None;
    v_wf : wf_from 1 (p_log (n_p s));
    v_n1 : (p_log (n_p s) = [] /\ n_conf s = None) \/ 1 <= p_term (n_p s);
    v_n2 : n_role s <> Follower -> 2 <= p_term (n_p s);
    v_tm : p_term (n_p s0) <= p_term (n_p s);
    v_rt : p_term (n_p s) = p_term (n_p s0) ->
           n_role s = n_role s0 \/ n_role s = Follower \/ (n_role s0 = Candidate /\ n_role s = Leader);
    v_lr : LR (n_p s) (n_role s);
    v_msgs : Forall (mgood RT VQ LQ (p_log (n_p s))) (n_msgs s);
    v_lead : no_appents (n_msgs s) \/ leaderish s;
    v_ext : ext s
  }.

  Record pinv (p : pstate) : Prop := mk_pinv {
    q_snap : p_snap p = None;
    q_wf : wf_from 1 (p_log p);
    q_n1 : p_log p = [] \/ 1 <= p_term p;
    q_tm : p_term (n_p s0) <= p_term p;
    q_lr : LR p Follower
  }.

  Definition post (r : R node) : Prop :=
    match r with Ret s' => inv s' | Fatal _ => True | Crashed p => pinv p end.
  Definition post2 (r : R (N * node)) : Prop :=
    match r with Ret (_, s') => inv s' | Fatal _ => True | Crashed p => pinv p end.

  Lemma post_bind (a : R node) (f : node -> R node) :
    post a -> (forall s1, inv s1 -> post (f s1)) -> post (bind a f).
  Proof. intros Ha Hf. destruct a; simpl in *; auto. Qed.

  Lemma post_bind_pure {A} (a : R A) (f : A -> R node) :
    pure a -> (forall x, a = Ret x -> post (f x)) -> post (bind a f).
  Proof. intros Hp Hf. destruct a; simpl in *; auto. contradiction. Qed.

  Lemma post2_bind (a : R node) (f : node -> R (N * node)) :
    post a -> (forall s1, inv s1 -> post2 (f s1)) -> post2 (bind a f).
  Proof. intros Ha Hf. destruct a; simpl in *; auto. Qed.

  Lemma post2_of_post r st : post r -> post2 (s1 <- r ;; Ret (st, s1)).
  Proof. destruct r; simpl; auto. Qed.

  (* a stronger bind: the continuation may use an extra fact established by the first part *)
  Definition postQ (Q : node -> Prop) (r : R node) : Prop :=
    match r with Ret s' => inv s' /\ Q s' | Fatal _ => True | Crashed p => pinv p end.

  Lemma postQ_bind Q (a : R node) (f : node -> R node) :
    postQ Q a -> (forall s1, inv s1 -> Q s1 -> post (f s1)) -> post (bind a f).
  Proof. intros Ha Hf. destruct a; simpl in *; auto. destruct Ha. auto. Qed.

  Lemma postQ_bindQ Q Q' (a : R node) (f : node -> R node) :
    postQ Q a -> (forall s1, inv s1 -> Q s1 -> postQ Q' (f s1)) -> postQ Q' (bind a f).
  Proof. intros Ha Hf. destruct a; simpl in *; auto. destruct Ha. auto. Qed.

  Lemma postQ_post Q r : postQ Q r -> post r.
  Proof. destruct r; simpl; auto. tauto. Qed.

  Lemma postQ_bind_pure {A} Q (a : R A) (f : A -> R node) :
    pure a -> (forall x, a = Ret x -> postQ Q (f x)) -> postQ Q (bind a f).
  Proof. intros Hp Hf. destruct a; simpl in *; auto. contradiction. Qed.

  (* ---------------------------------------------------------------- frames *)
  Lemma no_appents_app a b : no_appents (a ++ b) <-> no_appents a /\ no_appents b.
  Proof. unfold no_appents. apply Forall_app. Qed.

  Lemma ext_frame s s' new :
    ext s ->
    n_commit s' = n_commit s -> l_peers s' = l_peers s -> n_id s' = n_id s ->
    p_log (n_p s') = p_log (n_p s) -> p_term (n_p s') = p_term (n_p s) ->
    (n_conf s' = n_conf s \/ n_commit s = n_commit s0) ->
    (n_role s' = n_role s \/ (n_role s' = Follower /\ (strong s \/ n_role s <> Leader))) ->
    n_msgs s' = n_msgs s ++ new -> Forall (cm_msg (n_commit s)) new ->
    ext s'.
  Proof.
    intros [E1 [E2 [E3 E4]]] Hc Hp Hi Hl Ht Hcf Hr Hm Hn. unfold ext. rewrite Hc.
    split; [rewrite Hm; apply Forall_app; auto|]. split; [exact E2|]. split.
    - destruct E3 as [X | [X | [X | X]]]; [left; exact X | right; left | | right; right; right].
      + destruct X as [cm [idx [h [m0 [A1 [A2 [A3 [A4 A5]]]]]]]]. exists cm, idx, h, m0. rewrite Hc, Hm. repeat split; auto.
        apply in_or_app. left. exact A3.
      + destruct Hcf as [Hcf | Hcf]; [right; right; left | left; rewrite Hcf; apply N.le_refl].
        destruct X as [B1 [B2 [B3 [c [Q [B4 B5]]]]]]. unfold lead_ev, pjust, strong, llen, in_latest_conf in *. rewrite Hc, Hl, Ht, Hcf, Hp, Hi.
        split; [| split; [exact B2 | split; [exact B3 | exists c, Q; split; [exact B4 | exact B5]]]].
        destruct Hr as [Hr | [Hr [St | Nl]]].
        * rewrite Hr. exact B1.
        * right. exact St.
        * destruct B1 as [B1 | B1]; [contradiction | right; exact B1].
      + destruct X as [cm [a [C1 [C2 [C3 [C4 C5]]]]]]. exists cm, a. rewrite Hc, Hl, Ht. auto.
    - intro Hl'. destruct Hr as [Hr | [Hr _]]; [| congruence]. rewrite Hr in Hl'. specialize (E4 Hl').
      unfold pk, pjust, strong in *. rewrite Hp, Hi, Ht. exact E4.
  Qed.

  Lemma inv_frame s s' :
    inv s ->
    p_log (n_p s') = p_log (n_p s) -> p_snap (n_p s') = p_snap (n_p s) -> p_term (n_p s') = p_term (n_p s) ->
    (n_role s' = n_role s \/ (n_role s' = Follower /\ (strong s \/ (no_appents (n_msgs s') /\ n_role s <> Leader)))) ->
    (n_conf s' = n_conf s \/ (1 <= p_term (n_p s) /\ n_commit s = n_commit s0)) ->
    n_commit s' = n_commit s -> l_peers s' = l_peers s -> n_id s' = n_id s ->
    (exists new, n_msgs s' = n_msgs s ++ new /\ Forall (mgood RT VQ LQ (p_log (n_p s))) new /\ (no_appents new \/ leaderish s') /\
                 Forall (cm_msg (n_commit s)) new) ->
    inv s'.
  Proof.
    intros I L S T Rl C Hc Hp Hi [new [M [G [Ld Cm]]]]. destruct I.
    constructor.
    - rewrite S. auto.
    - rewrite L. auto.
    - rewrite L, T. destruct C as [C | [C _]]; [rewrite C; auto | auto].
    - rewrite T. destruct Rl as [Rl | [Rl _]]; rewrite Rl; auto; try congruence.
    - rewrite T. auto.
    - rewrite T. intro E. destruct Rl as [Rl | [Rl _]]; rewrite Rl; auto.
    - destruct Rl as [Rl | [Rl _]]; rewrite Rl.
      + eapply LR_same; eauto.
      + eapply LR_same; eauto. eapply LR_follower; eauto.
    - rewrite M, L. apply Forall_app. auto.
    - destruct Ld as [Ld | Ld]; [| right; exact Ld].
      destruct Rl as [Rl | [Rl [St | [Na _]]]].
      + destruct v_lead0 as [V | V].
        * left. rewrite M. apply no_appents_app. auto.
        * right. unfold leaderish in *. rewrite Rl, T. exact V.
      + right. right. unfold strong in St. rewrite T. exact St.
      + left. exact Na.
    - eapply ext_frame with (s := s) (new := new); eauto.
      + destruct C as [C | [_ C]]; auto.
      + destruct Rl as [Rl | [Rl [St | [_ Nl]]]]; auto.
  Qed.

  Lemma inv_vol s s' :
    inv s -> n_p s' = n_p s -> n_role s' = n_role s -> n_conf s' = n_conf s -> n_msgs s' = n_msgs s ->
    n_commit s' = n_commit s -> l_peers s' = l_peers s -> n_id s' = n_id s -> inv s'.
  Proof.
    intros I P Rl C M Hc Hp Hi.
    eapply inv_frame; [exact I | rewrite P; reflexivity | rewrite P; reflexivity | rewrite P; reflexivity | left; exact Rl | left; exact C
                       | exact Hc | exact Hp | exact Hi |].
    exists []. rewrite app_nil_r. split; auto. split; [constructor | split; [left; constructor | constructor]].
  Qed.

  Lemma inv_send s to b :
    inv s -> mgood RT VQ LQ (p_log (n_p s)) {| m_term := p_term (n_p s); m_from := 0; m_to := to; m_fromg := 0; m_tog := 0; m_epoch := 0; m_body := b |} ->
    ((match b with AppEnts _ _ cm _ => False | _ => True end) \/ (leaderish s /\ match b with AppEnts _ _ cm _ => cm <= n_commit s | _ => True end)) ->
    inv (send s to b).
  Proof.
    intros I G Ld.
    eapply inv_frame; [exact I | reflexivity | reflexivity | reflexivity | left; reflexivity | left; reflexivity
                       | reflexivity | reflexivity | reflexivity |].
    eexists. split; [reflexivity|]. split; [| split].
    - constructor; [| constructor]. unfold mgood in *. simpl in *. exact G.
    - destruct Ld as [Ld | [Ld _]]; [left | right].
      + constructor; [| constructor]. unfold is_appents. simpl. destruct b; auto.
      + unfold leaderish in *. simpl. exact Ld.
    - constructor; [| constructor]. unfold cm_msg. simpl. destruct Ld as [Ld | [_ Ld]]; destruct b; auto; contradiction.
  Qed.

  Lemma inv_pinv s p :
    inv s -> p_log p = p_log (n_p s) -> p_snap p = p_snap (n_p s) -> p_term p = p_term (n_p s) -> pinv p.
  Proof.
    intros I L S T. destruct I. constructor; try rewrite L; try rewrite S; try rewrite T; auto.
    - destruct v_n3 as [[A _] | A]; auto.
    - eapply LR_same; eauto. eapply LR_follower; eauto.
  Qed.

  Lemma do_mut_cases m s :
    do_mut m s = Crashed (apply_mut (n_p s) m) \/
    do_mut m s = Ret (upd_p s (apply_mut (n_p s) m) (n_cnt s + 1) (n_muts s ++ [m])).
  Proof. unfold do_mut. destruct (negb (n_budget s =? 0) && (n_budget s =? n_cnt s + 1)); auto. Qed.

  Definition light (m : mut) : Prop :=
    match m with MSetVote _ | MSetGuid _ _ | MFilterGuids _ => True | _ => False end.

  Definition samev (s s1 : node) : Prop :=
    p_log (n_p s1) = p_log (n_p s) /\ p_term (n_p s1) = p_term (n_p s) /\ n_role s1 = n_role s /\
    n_msgs s1 = n_msgs s /\ n_conf s1 = n_conf s /\ l_peers s1 = l_peers s /\ n_id s1 = n_id s.

  Lemma postQ_do_mut_light s m : inv s -> light m -> postQ (samev s) (do_mut m s).
  Proof.
    intros I Hl. destruct (do_mut_cases m s) as [E | E]; rewrite E; simpl.
    - eapply inv_pinv; eauto; destruct m; simpl in *; try contradiction; reflexivity.
    - split.
      + eapply inv_frame; [exact I | | | | left; reflexivity | left; reflexivity | reflexivity | reflexivity | reflexivity |];
          try (destruct m; simpl in *; try contradiction; reflexivity).
        exists []. simpl. rewrite app_nil_r. split; auto. split; [constructor | split; [left; constructor | constructor]].
      + unfold samev. simpl. destruct m; simpl in *; try contradiction; repeat split; reflexivity.
  Qed.

  Lemma postQ_do_mut_light_c s m : inv s -> light m -> postQ (fun s1 => samev s s1 /\ n_commit s1 = n_commit s) (do_mut m s).
  Proof.
    intros I Hl. pose proof (postQ_do_mut_light s m I Hl) as H. destruct (do_mut_cases m s) as [E | E]; rewrite E in *; simpl in *; auto.
    destruct H as [A B]. split; auto.
  Qed.

  Lemma post_do_mut_light s m : inv s -> light m -> post (do_mut m s).
  Proof. intros. eapply postQ_post. apply postQ_do_mut_light; auto. Qed.

  Ltac vol := eapply inv_vol; [eassumption | reflexivity | reflexivity | reflexivity | reflexivity | reflexivity | reflexivity | reflexivity].

  (* ---------------------------------------------------------------- commit *)
  Definition cjust (s : node) (i : N) : Prop :=
    forall r c, i <= n_commit s0 \/ fc_ev (set_commit s i r c) \/ lead_ev (set_commit s i r c) \/ ic_ev (set_commit s i r c).

  Lemma inv_commit s i r c : inv s -> n_commit s <= i -> cjust s i -> inv (set_commit s i r c).
  Proof.
    intros I Hi J. destruct I. constructor; simpl; auto.
    destruct v_ext0 as [E1 [E2 [E3 E4]]]. unfold ext. simpl. split; [| split; [exact Logic.I | split; [exact (J r c) | exact E4]]].
    eapply Forall_impl; [| exact E1]. intros m. unfold cm_msg. destruct (m_body m); auto. intro; lia.
  Qed.

  Lemma postQ_commit_up_to s i : inv s -> n_commit s <= i -> cjust s i -> postQ (samev s) (commit_up_to s i).
  Proof.
    intros I Hi J. unfold commit_up_to. rewrite (v_snap s I).
    apply postQ_bind_pure; [apply pure_log_entries|]. intros ents _.
    match goal with |- postQ _ (if ?c then _ else _) => destruct c end.
    2: { simpl. split; [apply inv_commit; auto | unfold samev; simpl; repeat split; reflexivity]. }
    match goal with |- postQ _ (match ?x with _ => _ end) => destruct x eqn:E end; simpl; auto.
    match goal with |- postQ _ (do_mut ?m ?x) =>
      assert (Ix : inv x) by (apply inv_commit; auto); pose proof (postQ_do_mut_light x m Ix Logic.I) as H; destruct (do_mut m x); simpl in *; auto end.
  Qed.

  Lemma post_commit_up_to s i : inv s -> n_commit s <= i -> cjust s i -> post (commit_up_to s i).
  Proof. intros. eapply postQ_post. apply postQ_commit_up_to; auto. Qed.

  Lemma postQ_mono (Q Q' : node -> Prop) r : (forall x, Q x -> Q' x) -> postQ Q r -> postQ Q' r.
  Proof. intros H. destruct r; simpl; auto. intros [A B]. auto. Qed.

  Lemma samev_trans a b c : samev a b -> samev b c -> samev a c.
  Proof. unfold samev. intros [A1 [A2 [A3 [A4 [A5 [A6 A7]]]]]] [B1 [B2 [B3 [B4 [B5 [B6 B7]]]]]]. repeat split; congruence. Qed.

  Lemma samev_refl a : samev a a.
  Proof. unfold samev. repeat split; reflexivity. Qed.

  (* the follower's commit: never beyond the leader's commit index nor beyond the index it has just acknowledged *)
  Lemma post_follower_maybe_commit s lc mi m0 h :
    inv s -> DC lc -> In m0 (n_msgs s) -> m_body m0 = AppEntsResp true mi h ->
    post (follower_maybe_commit s lc mi).
  Proof.
    intros I Hdc Hm Hb. unfold follower_maybe_commit. destruct (n_commit s <? N.min mi lc) eqn:E; [| simpl; auto].
    apply N.ltb_lt in E. apply post_commit_up_to; auto; [lia|].
    intros r c. right. left. exists lc, mi, h, m0. simpl. repeat split; auto; lia.
  Qed.

  (* ---------------------------------------------------------------- what a leader sends *)
  Lemma firstn_length_self {A} k (l : list A) : firstn k l = firstn (length (firstn k l)) l.
  Proof.
    rewrite firstn_length. destruct (Nat.le_ge_cases k (length l)) as [H | H].
    - rewrite Nat.min_l by lia. reflexivity.
    - rewrite Nat.min_r by lia. rewrite firstn_all. apply firstn_all2. lia.
  Qed.

  Lemma get_app_ents_slice s p b :
    p_snap (n_p s) = None -> wf_from 1 (p_log (n_p s)) -> get_app_ents s p = Ret (Some b) ->
    exists pi pt cm oe, b = AppEnts pi pt cm oe /\ slice (p_log (n_p s)) pi pt oe /\ cm = n_commit s.
  Proof.
    intros Hs Hw. unfold get_app_ents. destruct (negb (pr_next p =? pr_match p + 1)).
    - destruct (st_term (n_p s) (pr_next p - 1)) as [[pt ok] | |] eqn:E; simpl; try discriminate.
      destruct (st_term_wf _ _ _ _ Hs Hw E) as [Ok [Le [_ Ta]]]. subst ok. simpl. intro H. inversion H.
      eexists _, _, _, _. split; [reflexivity|]. split; [| reflexivity]. unfold slice. unfold llen in Le. repeat split; auto.
    - destruct (pr_match p =? last_index (n_p s)).
      + destruct (st_term (n_p s) (pr_match p)) as [[pt ok] | |] eqn:E; simpl; try discriminate.
        destruct (st_term_wf _ _ _ _ Hs Hw E) as [Ok [Le [_ Ta]]]. subst ok. simpl. intro H. inversion H.
        eexists _, _, _, _. split; [reflexivity|]. split; [| reflexivity]. unfold slice. unfold llen in Le. repeat split; auto.
      + unfold get_log_entries. replace (pr_match p + 1 - 1) with (pr_match p) by lia.
        destruct (st_term (n_p s) (pr_match p)) as [[pt ok] | |] eqn:E; simpl; try discriminate.
        destruct (st_term_wf _ _ _ _ Hs Hw E) as [Ok [Le [_ Ta]]]. subst ok. simpl.
        destruct (p_log (n_p s)) as [| x r] eqn:El; [simpl; discriminate|]. rewrite <- El in *.
        assert (Hne : p_log (n_p s) <> []) by (rewrite El; discriminate).
        rewrite (log_first_wf 1 _ Hw Hne), (log_last_wf 1 _ Hw Hne).
        assert (X : (pr_match p + 1 <? 1) = false) by (apply N.ltb_ge; lia). rewrite X.
        match goal with |- context [if ?c then Fatal _ else _] => destruct c end; [discriminate|].
        rewrite log_entries_wf; auto; [| lia]. simpl. intro H. inversion H.
        eexists _, _, _, _. split; [reflexivity|]. split; [| reflexivity]. unfold slice. unfold llen in Le. repeat split; auto.
        replace (N.to_nat (pr_match p + 1 - 1)) with (N.to_nat (pr_match p)) by lia. apply firstn_length_self.
  Qed.

  Lemma peer_set_nonempty q l : peer_set q l <> [].
  Proof. destruct l as [| p r]; simpl; [discriminate|]. destruct (pr_id q =? pr_id p); [discriminate|]. destruct (pr_id q <? pr_id p); discriminate. Qed.

  Definition sameL (s s1 : node) : Prop :=
    p_log (n_p s1) = p_log (n_p s) /\ p_term (n_p s1) = p_term (n_p s) /\ n_role s1 = n_role s /\ l_peers s1 <> [] /\
    n_id s1 = n_id s /\
    (forall id p1, peer_get id (l_peers s1) = Some p1 -> exists p0, peer_get id (l_peers s) = Some p0 /\ pr_match p0 = pr_match p1).

  Lemma peer_get_set id q l : peer_get id (peer_set q l) = if pr_id q =? id then Some q else peer_get id l.
  Proof.
    induction l as [| p r IH]; simpl.
    - destruct (pr_id q =? id); reflexivity.
    - destruct (pr_id q =? pr_id p) eqn:E.
      + apply N.eqb_eq in E. simpl. rewrite <- E. destruct (pr_id q =? id); reflexivity.
      + destruct (pr_id q <? pr_id p); simpl.
        * destruct (pr_id q =? id); reflexivity.
        * rewrite IH. destruct (pr_id p =? id) eqn:E2; [| reflexivity].
          apply N.eqb_eq in E2. subst id. rewrite E. reflexivity.
  Qed.

  (* replace / insert one peers-table entry: match indices never decrease, the entry is justified *)
  Lemma inv_peer_set s q chk :
    inv s ->
    (forall p0, peer_get (pr_id q) (l_peers s) = Some p0 -> pr_match p0 <= pr_match q) ->
    (pjust s (pr_id q) (pr_match q) \/
     exists p0, peer_get (pr_id q) (l_peers s) = Some p0 /\ pr_match p0 = pr_match q /\
                (n_role s = Leader \/ pjust s (pr_id q) (pr_match p0) \/ True)) ->
    (n_role s = Leader -> pr_id q <> n_id s) ->
    inv (set_leader s chk (peer_set q (l_peers s))).
  Proof.
    intros I Hmono Hj Hl. destruct I. constructor; simpl; auto.
    destruct v_ext0 as [E1 [E2 [E3 E4]]]. unfold ext. simpl. split; [exact E1|]. split; [exact E2|]. split.
    - destruct E3 as [X | [X | [X | X]]]; [left; exact X | right; left; exact X | right; right; left | right; right; right; exact X].
      destruct X as [B1 [B2 [B3 [c [Q [B4 [B5 [B6 B7]]]]]]]]. unfold lead_ev. simpl.
      split; [exact B1|]. split; [exact B2|]. split; [exact B3|]. exists c, Q. repeat split; auto.
      intros v Hv. destruct (B7 v Hv) as [Y | [p [Y1 [Y2 Y3]]]]; [left; exact Y | right].
      rewrite peer_get_set. destruct (pr_id q =? v) eqn:Eq.
      + apply N.eqb_eq in Eq. subst v. exists q. split; auto. specialize (Hmono p Y1). split; [lia|].
        destruct Hj as [Hj | [p0 [Z1 [Z2 _]]]]; [exact Hj|]. rewrite Y1 in Z1. inversion Z1. subst p0. rewrite <- Z2. exact Y3.
      + exists p. auto.
    - intro Hr. specialize (E4 Hr). specialize (Hl Hr). destruct E4 as [P1 [P2 P3]]. unfold pk. simpl.
      split; [apply pasc_peer_set; exact P1|]. split.
      + intros p Hp. destruct (in_peer_set p q _ P1 Hp) as [X | [X _]]; [subst; exact Hl | apply P2; exact X].
      + intros p Hp. destruct (in_peer_set p q _ P1 Hp) as [X | [X _]]; [| apply P3; exact X]. subst p.
        destruct Hj as [Hj | [p0 [Y1 [Y2 _]]]]; [exact Hj|].
        apply peer_get_some in Y1. destruct Y1 as [Y1 Y3]. specialize (P3 p0 Y1). rewrite Y3, Y2 in P3. exact P3.
  Qed.

  Lemma postQ_send_app_ents s p :
    inv s -> leaderish s -> (exists p', peer_get (pr_id p) (l_peers s) = Some p' /\ pr_match p' = pr_match p) ->
    postQ (sameL s) (send_app_ents s p).
  Proof.
    intros I Ld [p' [Hp' Hm']]. unfold send_app_ents. apply postQ_bind_pure; [apply pure_get_app_ents|]. intros ob Hob.
    assert (Hset : forall s1 sn, inv s1 -> l_peers s1 = l_peers s -> n_role s1 = n_role s -> n_id s1 = n_id s ->
                     (strong s1 <-> strong s) ->
                     inv (set_leader s1 (l_check s1) (peer_set (mk_peer (pr_id p) (pr_next p) (pr_match p) sn (n_elapsed s) (pr_recv p)) (l_peers s1)))).
    { intros s1 sn I1 E1 E2 E3 E4. apply inv_peer_set; auto; simpl.
      - intros p0 H0. rewrite E1, Hp' in H0. inversion H0. subst. lia.
      - right. exists p'. rewrite E1. split; [exact Hp' | split; [exact Hm' | right; right; exact Logic.I]].
      - intro Hr. rewrite E2 in Hr. pose proof (v_ext s I) as [_ [_ [_ PK]]]. specialize (PK Hr). destruct PK as [P1 [P2 P3]].
        apply peer_get_some in Hp'. destruct Hp' as [Y1 Y2]. rewrite E3, <- Y2. apply P2. exact Y1. }
    destruct ob as [b |].
    - destruct (get_app_ents_slice s p b (v_snap s I) (v_wf s I) Hob) as [pi [pt [cm [oe [Eb [Sl Ecm]]]]]]. subst b.
      simpl. split.
      + apply (Hset (send s (pr_id p) (AppEnts pi pt cm oe)) (pr_snap p)); try reflexivity.
        apply inv_send; [exact I | unfold mgood; simpl; exact Sl | right; split; [exact Ld | rewrite Ecm; apply N.le_refl]].
      + unfold sameL. simpl. split; [reflexivity|]. split; [reflexivity|]. split; [reflexivity|].
        split; [apply peer_set_nonempty|]. split; [reflexivity|].
        intros id p1. rewrite peer_get_set. simpl. destruct (pr_id p =? id) eqn:Eq.
        * apply N.eqb_eq in Eq. subst id. intro X. inversion X. subst p1. simpl. exists p'. auto.
        * intro X. exists p1. auto.
    - rewrite (v_snap s I). simpl. exact Logic.I.
  Qed.

  Lemma strong_leaderish s : strong s -> leaderish s.
  Proof. intro H. right. exact H. Qed.

  Lemma sameL_strong s s1 : strong s -> sameL s s1 -> strong s1.
  Proof. unfold strong, sameL. intros [A B] [_ [C _]]. split; congruence. Qed.

  Lemma post_for_peers (Q : node -> Prop) ids f :
    (forall s1 p, inv s1 -> Q s1 -> peer_get (pr_id p) (l_peers s1) = Some p -> postQ Q (f s1 p)) ->
    forall s, inv s -> Q s -> postQ Q (for_peers ids f s).
  Proof.
    intro Hf. induction ids as [| id r IH]; intros s I HQ; simpl; auto.
    destruct (peer_get id (l_peers s)) eqn:E; auto.
    eapply postQ_bindQ; [apply Hf; auto|].
    - destruct (peer_get_some _ _ _ E) as [_ X]. rewrite X. exact E.
    - intros s1 I1 Q1. apply IH; auto.
  Qed.

  Lemma postQ_ret (Q : node -> Prop) s : inv s -> Q s -> postQ Q (Ret s).
  Proof. simpl. auto. Qed.

  Lemma inv_follower s s' :
    inv s -> n_p s' = n_p s -> n_role s' = Follower -> n_conf s' = n_conf s -> n_msgs s' = n_msgs s ->
    n_commit s' = n_commit s -> l_peers s' = l_peers s -> n_id s' = n_id s ->
    strong s \/ (no_appents (n_msgs s) /\ n_role s <> Leader) -> inv s'.
  Proof.
    intros I P Rl C M Hc Hp Hi St.
    eapply inv_frame; [exact I | rewrite P; reflexivity | rewrite P; reflexivity | rewrite P; reflexivity | | left; exact C
                       | exact Hc | exact Hp | exact Hi |].
    - right. split; auto. rewrite M. exact St.
    - exists []. rewrite app_nil_r. split; auto. split; [constructor | split; [left; constructor | constructor]].
  Qed.

  (* the evidence for a leader's commit by counting, read off findMajorityIndex *)
  Lemma leader_cjust s mi t :
    inv s -> n_role s = Leader -> find_majority_index s = Ret mi -> st_term (n_p s) mi = Ret (t, true) -> t = p_term (n_p s) ->
    cjust s mi /\ (l_peers s = [] -> in_latest_conf s = true).
  Proof.
    intros I Hr Hf Hst Ht. pose proof (v_ext s I) as [_ [_ [_ PK]]]. destruct (PK Hr) as [P1 [P2 P3]].
    destruct (st_term_wf _ _ _ _ (v_snap s I) (v_wf s I) Hst) as [_ [Hle [_ Ta]]].
    assert (Hli : mi <= last_index (n_p s)) by (rewrite (last_index_wf _ (v_snap s I) (v_wf s I)); exact Hle).
    destruct (majority_evidence_m s mi Hf P1 P2 Hli) as [c [Q [B1 [B2 [B3 [B4 B5]]]]]]. split; [| exact B5].
    intros r cc. right. right. left. unfold lead_ev. simpl. split; [left; exact Hr|]. split; [exact Hle|]. split; [rewrite <- Ht; exact Ta|].
    exists c, Q. repeat split; auto.
    intros v Hv. destruct (B4 v Hv) as [X | [p [X1 X2]]]; [left; exact X | right]. exists p. split; auto. split; auto.
    destruct (peer_get_some _ _ _ X1) as [Y1 Y2]. rewrite <- Y2. apply P3. exact Y1.
  Qed.

  Lemma postQ_leader_commit_up_to_strong s i :
    inv s -> strong s -> n_commit s <= i -> cjust s i -> postQ strong (leader_commit_up_to s i).
  Proof.
    intros I St Hi J. unfold leader_commit_up_to. eapply postQ_bindQ; [apply postQ_commit_up_to; auto|].
    intros s1 I1 [_ [T1 _]].
    assert (St1 : strong s1) by (unfold strong in *; destruct St; split; congruence).
    match goal with |- postQ _ (if ?c then _ else _) => destruct c end; simpl; [| auto].
    split; [| unfold strong in *; simpl; exact St1].
    eapply inv_follower; eauto; reflexivity.
  Qed.

  Lemma postQ_leader_commit_up_to_weak s i :
    inv s -> no_appents (n_msgs s) -> l_peers s = [] -> in_latest_conf s = true -> n_commit s <= i -> cjust s i ->
    postQ (fun x => no_appents (n_msgs x) /\ l_peers x = []) (leader_commit_up_to s i).
  Proof.
    intros I Na Lp Hic Hi J. unfold leader_commit_up_to. eapply postQ_bindQ; [apply postQ_commit_up_to; auto|].
    intros s1 I1 [_ [_ [_ [M1 [C1 [P1 Id1]]]]]].
    assert (Na1 : no_appents (n_msgs s1)) by (rewrite M1; auto).
    assert (Hic1 : in_latest_conf s1 = true) by (unfold in_latest_conf in *; rewrite C1, Id1; exact Hic).
    rewrite Hic1. simpl. rewrite andb_false_r. simpl. split; auto. split; auto. congruence.
  Qed.

  Lemma post_leader_maybe_commit_strong s : inv s -> strong s -> n_role s = Leader -> postQ strong (leader_maybe_commit s).
  Proof.
    intros I St Hr. unfold leader_maybe_commit. apply postQ_bind_pure; [apply pure_find_majority_index|]. intros mi Hf.
    destruct (n_commit s <? mi) eqn:Ec; [| apply postQ_ret; auto]. apply N.ltb_lt in Ec.
    apply postQ_bind_pure; [apply pure_st_term|]. intros [t ok] Hst.
    destruct ok; simpl; auto. destruct (t =? p_term (n_p s)) eqn:Et; simpl; [| apply postQ_ret; auto]. apply N.eqb_eq in Et.
    destruct (leader_cjust s mi t I Hr Hf Hst Et) as [J _].
    eapply postQ_bindQ; [apply postQ_leader_commit_up_to_strong; auto; lia|]. intros s1 I1 St1.
    apply post_for_peers; auto. intros s2 p I2 St2 Hp.
    destruct (pr_match p =? last_index (n_p s2)); [| apply postQ_ret; auto].
    eapply postQ_mono; [| apply postQ_send_app_ents; eauto using strong_leaderish]. intros x. apply sameL_strong; auto.
  Qed.

  Lemma post_leader_maybe_commit_weak s :
    inv s -> no_appents (n_msgs s) -> l_peers s = [] -> n_role s = Leader -> post (leader_maybe_commit s).
  Proof.
    intros I Na Lp Hr. unfold leader_maybe_commit. apply post_bind_pure; [apply pure_find_majority_index|]. intros mi Hf.
    destruct (n_commit s <? mi) eqn:Ec; [| simpl; auto]. apply N.ltb_lt in Ec.
    apply post_bind_pure; [apply pure_st_term|]. intros [t ok] Hst.
    destruct ok; simpl; auto. destruct (t =? p_term (n_p s)) eqn:Et; simpl; [| auto]. apply N.eqb_eq in Et.
    destruct (leader_cjust s mi t I Hr Hf Hst Et) as [J Hic].
    eapply postQ_bind; [apply postQ_leader_commit_up_to_weak; auto; lia|]. intros s1 I1 [Na1 Lp1].
    unfold peer_ids. rewrite Lp1. simpl. exact I1.
  Qed.

  Lemma LR_nonfollower p r r' : r <> Follower -> LR p r -> LR p r'.
  Proof.
    unfold LR. cbv zeta. intros Hr [H | [[E _] | [[E _] | [H | [E _]]]]]; try contradiction.
    - left. exact H.
    - right. right. right. left. exact H.
  Qed.

  Definition foldq (id0 : nid) (x : node) : Prop :=
    n_role x = Leader /\ n_id x = id0 /\ (l_peers x = [] -> no_appents (n_msgs x)) /\
    (forall id p, peer_get id (l_peers x) = Some p -> pr_match p = 0).

  Lemma post_fold_enter (others : list nid) li id0 :
    Forall (fun m => m <> id0) others ->
    forall (acc : R node),
    postQ (foldq id0) acc ->
    postQ (foldq id0) (fold_left (fun (acc : R node) (m : nid) =>
                       a <- acc ;;
                       let p := mk_peer m (li + 1) 0 false 0 0 in
                       let a1 := set_leader a (l_check a) (peer_set p (l_peers a)) in
                       send_app_ents a1 p) others acc).
  Proof.
    induction 1 as [| m r Hm Hr IH]; intros acc H; simpl; auto.
    apply IH. eapply postQ_bindQ; [exact H|]. intros s1 I1 [R1 [Id1 [_ Z1]]].
    set (p := mk_peer m (li + 1) 0 false 0 0).
    assert (Ia1 : inv (set_leader s1 (l_check s1) (peer_set p (l_peers s1)))).
    { apply inv_peer_set; auto; simpl.
      - intros p0 H0. rewrite (Z1 _ _ H0). lia.
      - left. left. reflexivity.
      - intros _. congruence. }
    eapply postQ_mono; [| apply postQ_send_app_ents; [exact Ia1 | left; simpl; exact R1 |]].
    - intros x [_ [_ [Rx [Px [Ix Mx]]]]]. simpl in *. split; [congruence|]. split; [congruence|]. split; [intro; contradiction|].
      intros id q Hq. destruct (Mx id q Hq) as [q0 [Y1 Y2]]. rewrite <- Y2.
      rewrite peer_get_set in Y1. simpl in Y1. destruct (m =? id); [inversion Y1; reflexivity | eapply Z1; eauto].
    - simpl. exists p. split; [rewrite peer_get_set; simpl; rewrite N.eqb_refl; reflexivity | reflexivity].
  Qed.

  Lemma post_enter_leader s :
    inv (set_leader s (l_check s) []) -> n_role s = Leader -> no_appents (n_msgs s) -> post (enter_leader s).
  Proof.
    intros I Rl Na. unfold enter_leader. destruct (n_conf s); simpl; auto.
    eapply postQ_bind.
    - apply post_fold_enter with (id0 := n_id s).
      + apply Forall_forall. intros x Hx. apply filter_In in Hx. destruct Hx as [_ Hx].
        apply negb_true_iff in Hx. apply N.eqb_neq in Hx. exact Hx.
      + simpl. split; [exact I|]. split; [exact Rl|]. split; [reflexivity|]. split; [intros _; exact Na|]. intros id p X. discriminate.
    - intros s1 I1 [R1 [_ [P1 _]]]. destruct (l_peers s1) eqn:El; [| simpl; auto].
      apply post_leader_maybe_commit_weak; auto.
  Qed.

  Lemma post_become_leader s : inv s -> n_role s = Candidate -> no_appents (n_msgs s) -> post (become_leader s).
  Proof.
    intros I Rl Na. unfold become_leader. apply post_enter_leader; auto.
    destruct I. constructor; simpl; auto.
    - intros _. apply v_n4. congruence.
    - intro E. right. right. split; auto. destruct (v_rt0 E) as [X | [X | [_ X]]]; congruence.
    - eapply LR_nonfollower; [| exact v_lr0]. congruence.
    - destruct v_ext0 as [E1 [E2 [E3 E4]]]. unfold ext. simpl. split; [exact E1|]. split; [exact E2|]. split.
      + destruct E3 as [X | [X | [X | X]]]; [left; exact X | right; left; exact X | exfalso | right; right; right; exact X].
        destruct X as [[B1 | [B1 B2]] _]; [congruence|].
        destruct (v_rt0 B2) as [X | [X | [X _]]]; congruence.
      + intros _. unfold pk. simpl. split; [exact Logic.I|]. split; intros p [].
  Qed.

  Lemma post_check_if_elected s : inv s -> n_role s = Candidate -> no_appents (n_msgs s) -> post (check_if_elected s).
  Proof.
    intros I Rl Na. unfold check_if_elected. destruct (n_conf s); simpl; auto.
    destruct (quorum m <=? N.of_nat (length (c_votes s))); [apply post_become_leader; auto | simpl; auto].
  Qed.

  Lemma post_tick_leader s : inv s -> strong s -> post (tick_leader s).
  Proof.
    intros I St. unfold tick_leader. eapply postQ_bind.
    - apply post_for_peers with (Q := strong); auto. intros s2 p I2 St2 Hp.
      destruct (should_send s2 p); [| apply postQ_ret; auto].
      eapply postQ_mono; [| apply postQ_send_app_ents; [exact I2 | apply strong_leaderish; exact St2 | exists p; auto]].
      intros x. apply sameL_strong; auto.
    - intros s1 I1 St1.
      match goal with |- post (if ?c then _ else _) => destruct c end; [| simpl; vol].
      apply post_bind_pure; [apply pure_check_quorum_active|]. intros ok _. destruct ok; simpl; [vol|].
      eapply inv_follower; eauto; reflexivity.
  Qed.

  Lemma post_handle_app_ents_resp s from su ix hi :
    inv s -> strong s -> n_role s = Leader -> (su = true -> RSP from ix (p_term (n_p s))) -> post (handle_app_ents_resp s from su ix hi).
  Proof.
    intros I St Hr Hrsp. unfold handle_app_ents_resp. destruct (peer_get from (l_peers s)) as [p |] eqn:Ep; [| simpl; auto].
    destruct (peer_get_some _ _ _ Ep) as [Hin Hid].
    destruct (ix <? pr_match p) eqn:Elt; [simpl; auto|]. apply N.ltb_ge in Elt.
    pose proof (v_ext s I) as [_ [_ [_ PK]]]. destruct (PK Hr) as [P1 [P2 P3]].
    assert (Hset : forall q chk, pr_id q = from -> pr_match p <= pr_match q ->
                     (pr_match q = pr_match p \/ RSP from (pr_match q) (p_term (n_p s))) ->
                     inv (set_leader s chk (peer_set q (l_peers s)))).
    { intros q chk Hq Hm Hj. apply inv_peer_set; auto.
      - intros p0 H0. rewrite Hq, Ep in H0. inversion H0. subst. exact Hm.
      - destruct Hj as [Hj | Hj]; [right; exists p; rewrite Hq; split; [exact Ep | split; [symmetry; exact Hj | left; exact Hr]]
                                  | left; right; right; rewrite Hq; exact Hj].
      - intros _. rewrite Hq, <- Hid. apply P2. exact Hin. }
    destruct su; simpl.
    - match goal with |- post (if ?c then _ else _) => destruct c end; simpl; auto.
      match goal with |- post (bind (if _ then send_app_ents ?x ?q else _) _) =>
        assert (I1 : inv x) by (apply Hset; simpl; [exact Hid | exact Elt | right; apply Hrsp; reflexivity]);
        assert (Hq : peer_get (pr_id q) (l_peers x) = Some q) by (simpl; rewrite peer_get_set; simpl; rewrite N.eqb_refl; reflexivity) end.
      eapply postQ_bind with (Q := fun x => strong x /\ n_role x = Leader).
      + match goal with |- postQ _ (if ?c then _ else _) => destruct c end.
        * eapply postQ_mono; [| apply postQ_send_app_ents; [exact I1 | apply strong_leaderish; exact St | eexists; split; [exact Hq | reflexivity]]].
          intros x [_ [T [R _]]]. split; [unfold strong in *; simpl in *; destruct St; split; congruence | simpl in R; congruence].
        * apply postQ_ret; [exact I1 | split; [exact St | exact Hr]].
      + intros s2 I2 [St2 R2]. eapply postQ_post. apply post_leader_maybe_commit_strong; auto.
    - match goal with |- post (send_app_ents ?x ?q) =>
        assert (I1 : inv x) by (apply Hset; simpl; [exact Hid | apply N.le_refl | left; reflexivity]);
        assert (Hq : peer_get (pr_id q) (l_peers x) = Some q) by (simpl; rewrite peer_get_set; simpl; rewrite N.eqb_refl; reflexivity) end.
      eapply postQ_post. apply postQ_send_app_ents; [exact I1 | apply strong_leaderish; exact St | eexists; split; [exact Hq | reflexivity]].
  Qed.

  Lemma post_handle_leader s m :
    inv s -> strong s -> n_role s = Leader ->
    (match m_body m with AppEntsResp true ix _ => RSP (m_from m) ix (p_term (n_p s)) | _ => True end) -> post (handle_leader s m).
  Proof.
    intros I St Hr Hm. unfold handle_leader. destruct (m_body m); simpl; auto.
    - apply post_handle_app_ents_resp; auto. intro E. subst success. exact Hm.
    - apply inv_send; [exact I | unfold mgood; simpl; exact Logic.I | left; exact Logic.I].
  Qed.

  (* ---------------------------------------------------------------- conflictIndex on a log without snapshot *)
  Definition agree (L ents : list entry) (pi k : nat) : Prop :=
    exists e1 e2, nth_error L k = Some e1 /\ nth_error ents (k - pi) = Some e2 /\ (pi <= k)%nat /\ e_term e1 = e_term e2.

  Lemma nth_error_ex {A} (l : list A) k : (k < length l)%nat -> exists x, nth_error l k = Some x.
  Proof. intro H. destruct (nth_error l k) eqn:E; [eauto|]. apply nth_error_None in E. lia. Qed.

  Lemma conflict_index_spec s ents pi ci any :
    p_snap (n_p s) = None -> wf_from 1 (p_log (n_p s)) -> wf_from (pi + 1) ents -> pi <= llen (n_p s) ->
    conflict_index s ents = Ret (ci, any) ->
    ents <> [] /\
    if any then exists j, (j < length ents)%nat /\ (N.to_nat pi + j < length (p_log (n_p s)))%nat /\ ci = pi + N.of_nat j + 1 /\
                          (j = 0%nat \/ ((0 < j)%nat /\ agree (p_log (n_p s)) ents (N.to_nat pi) (N.to_nat pi + j - 1))) /\
                          (exists e1 e2, nth_error (p_log (n_p s)) (N.to_nat pi + j) = Some e1 /\ nth_error ents j = Some e2 /\
                                         e_term e1 <> e_term e2)
    else (Nat.min (length (p_log (n_p s)) - N.to_nat pi) (length ents) = 0%nat \/
          ((0 < Nat.min (length (p_log (n_p s)) - N.to_nat pi) (length ents))%nat /\
           agree (p_log (n_p s)) ents (N.to_nat pi)
                 (N.to_nat pi + Nat.min (length (p_log (n_p s)) - N.to_nat pi) (length ents) - 1))).
  Proof.
    intros Hs Hw He Hpi. unfold conflict_index.
    destruct ents as [| e0 r] eqn:Ee; [discriminate|]. rewrite <- Ee in *.
    assert (Hne : ents <> []) by (rewrite Ee; discriminate).
    assert (Hi0 : e_index e0 = pi + 1) by (rewrite Ee in He; destruct He; auto).
    assert (Hlen : (0 < length ents)%nat) by (rewrite Ee; simpl; lia).
    rewrite (last_index_wf _ Hs Hw). unfold llen in *. rewrite Hi0.
    destruct (pi + 1 =? N.of_nat (length (p_log (n_p s))) + 1) eqn:E1.
    { apply N.eqb_eq in E1. intro H. inversion H. split; auto. left. lia. }
    apply N.eqb_neq in E1.
    destruct (N.of_nat (length (p_log (n_p s))) + 1 <? pi + 1) eqn:E2; [discriminate|]. apply N.ltb_ge in E2.
    rewrite Hs.
    assert (HL : p_log (n_p s) <> []) by (intro X; rewrite X in *; simpl in *; lia).
    rewrite (log_last_wf 1 _ Hw HL). rewrite (last_ent_index_wf (pi + 1) ents He Hne).
    rewrite log_entries_wf; auto; [| lia]. cbv beta iota delta [bind].
    set (L := p_log (n_p s)) in *. set (pin := N.to_nat pi).
    set (ov := Nat.min (length L - pin) (length ents)).
    match goal with |- conflict_loop ?c _ ?o _ ?il = _ -> _ =>
      replace c with ov; [replace o with 0%nat by lia; replace il with (firstn ov (skipn pin L))|] end.
    2: { f_equal; [unfold ov, pin; lia | f_equal; unfold pin; lia]. }
    2: { unfold ov, pin. destruct (N.min (1 + N.of_nat (length L) - 1) (pi + 1 + N.of_nat (length ents) - 1) <? pi + 1) eqn:E3.
         - apply N.ltb_lt in E3. lia.
         - apply N.ltb_ge in E3. lia. }
    assert (Hil : forall j, (j < ov)%nat -> nth_error (firstn ov (skipn pin L)) j = nth_error L (pin + j)).
    { intros j Hj. rewrite nth_error_firstn'. apply Nat.ltb_lt in Hj. rewrite Hj. apply nth_error_skipn'. }
    assert (Hov : (0 < ov)%nat) by (unfold ov, pin; lia).
    intro H. apply conflict_loop_spec in H. split; auto.
    destruct H as [[R A] | [j [a [b [Hj [A1 [A2 [A3 [A4 A5]]]]]]]]].
    - inversion R. subst ci any. right. split; auto.
      destruct (nth_error_ex L (pin + ov - 1)) as [e1 X1]; [unfold ov; lia|].
      destruct (nth_error_ex ents (ov - 1)) as [e2 X2]; [unfold ov; lia|].
      exists e1, e2. replace (pin + ov - 1 - pin)%nat with (ov - 1)%nat by lia. repeat split; auto; try lia.
      symmetry. apply (A (ov - 1)%nat); auto; [lia|]. rewrite Hil by lia. rewrite <- X1. f_equal. lia.
    - inversion A4. subst ci any.
      exists j. split; [unfold ov in Hj; lia|]. split; [unfold ov in Hj; lia|].
      split; [rewrite (wf_from_nth _ _ _ _ He A1); lia|].
      split.
      2: { exists b, a. split; [rewrite <- A2; symmetry; apply Hil; lia|]. split; auto. }
      destruct (Nat.eq_dec j 0) as [-> | Hj0]; [left; reflexivity | right]. split; [lia|].
      destruct (nth_error_ex L (pin + j - 1)) as [e1 X1]; [unfold ov in Hj; lia|].
      destruct (nth_error_ex ents (j - 1)) as [e2 X2]; [unfold ov in Hj; lia|].
      exists e1, e2. replace (pin + j - 1 - pin)%nat with (j - 1)%nat by lia. repeat split; auto; try lia.
      symmetry. apply (A5 (j - 1)%nat); auto; [lia|]. rewrite Hil by lia. rewrite <- X1. f_equal. lia.
  Qed.

  (* ---------------------------------------------------------------- the follower merges an AppEnts *)
  Definition rt_ok (pi pt : N) (oes : option (list entry)) : Prop :=
    RT pi pt /\
    match oes with
    | Some ents => forall j e, nth_error ents j = Some e -> RT (pi + N.of_nat j + 1) (e_term e)
    | None => True
    end.

  Definition in_ok (s : node) (pi pt : N) (oes : option (list entry)) : Prop :=
    rt_ok pi pt oes /\
    match oes with
    | Some ents => inp = Some {| ai_term := p_term (n_p s); ai_pi := pi; ai_pt := pt; ai_ents := ents |} /\
                   wf_from (pi + 1) ents /\ 1 <= p_term (n_p s)
    | None => True
    end.

  Lemma fold_conf_same (app : list entry) : forall s,
    let s' := fold_left (fun a e => if e_type e =? EntryConf then set_conf a (decode_conf e) else a) app s in
    n_p s' = n_p s /\ n_role s' = n_role s /\ n_msgs s' = n_msgs s.
  Proof.
    induction app as [| e r IH]; intros s; simpl; auto.
    destruct (e_type e =? EntryConf); [| apply IH].
    destruct (IH (set_conf s (decode_conf e))) as [A [B C]]. simpl in *. auto.
  Qed.

  Section Merge.
    Variables (s : node) (pi pt : N) (ents : list entry).
    Hypothesis I : inv s.
    Hypothesis Hm : n_msgs s = [].
    Hypothesis Hr : n_role s = Follower.
    Hypothesis Hl : p_log (n_p s) = p_log (n_p s0).
    Hypothesis Hin : inp = Some {| ai_term := p_term (n_p s); ai_pi := pi; ai_pt := pt; ai_ents := ents |}.
    Hypothesis Hwe : wf_from (pi + 1) ents.
    Hypothesis Ht1 : 1 <= p_term (n_p s).
    Hypothesis Hta : term_at (p_log (n_p s0)) pi pt.
    Hypothesis Hns : ~ strong s.
    Hypothesis Hcm0 : n_commit s = n_commit s0.

    Let L0 := p_log (n_p s0).
    Let pin := N.to_nat pi.

    Let ain := {| ai_term := p_term (n_p s); ai_pi := pi; ai_pt := pt; ai_ents := ents |}.

    Definition qtrunc (c : nat) : Prop :=
      (pin <= c <= length L0)%nat /\
      ((c < pin + length ents)%nat -> c = pin \/ ((pin < c)%nat /\ agree L0 ents pin (c - 1))) /\
      ((pin + length ents <= c)%nat -> agree L0 ents pin (pin + length ents - 1)) /\
      (c = length L0 \/ conflict_at L0 ain c).

    Lemma ext_quiet y : n_commit y = n_commit s -> n_role y = Follower -> n_msgs y = [] -> ext y.
    Proof.
      intros Hc Ry My. destruct (v_ext s I) as [E1 [E2 [E3 E4]]]. unfold ext. rewrite Hc, My, Ry.
      split; [constructor|]. split; [exact E2|]. split; [| intro X; discriminate].
      left. rewrite Hcm0. apply N.le_refl.
    Qed.

    Lemma inv_trunc c y :
      n_commit y = n_commit s ->
      conflict_at L0 ain c ->
      (c <= length L0)%nat -> p_log (n_p y) = firstn c L0 -> p_snap (n_p y) = None -> p_term (n_p y) = p_term (n_p s) ->
      n_role y = Follower -> n_msgs y = [] -> inv y.
    Proof.
      intros Hcm Hcf Hc Ly Sy Ty Ry My. pose proof (ext_quiet y Hcm Ry My) as Ex. destruct I. constructor.
      - exact Sy.
      - rewrite Ly. apply wf_from_firstn. unfold L0. rewrite <- Hl. auto.
      - right. rewrite Ty. exact Ht1.
      - intro X. congruence.
      - rewrite Ty. auto.
      - intros E. right. left. exact Ry.
      - rewrite Ry. unfold LR. cbv zeta. right. left. split; auto. split; [rewrite Ty; exact Hns|].
        exists ain, c. split; [exact Hin|]. split; [exact Ty|]. split; [exact Ly | exact Hcf].
      - rewrite My. constructor.
      - left. rewrite My. constructor.
      - exact Ex.
    Qed.

    Lemma pinv_trunc c p :
      conflict_at L0 ain c ->
      p_log p = firstn c L0 -> p_snap p = None -> p_term p = p_term (n_p s) -> pinv p.
    Proof.
      intros Hcf Lp Sp Tp. destruct I. constructor.
      - exact Sp.
      - rewrite Lp. apply wf_from_firstn. unfold L0. rewrite <- Hl. auto.
      - right. rewrite Tp. exact Ht1.
      - rewrite Tp. auto.
      - unfold LR. cbv zeta. right. left. split; auto. split; [rewrite Tp; exact Hns|].
        exists ain, c. split; [exact Hin|]. split; [exact Tp|]. split; [exact Lp | exact Hcf].
    Qed.

    Lemma merged_ok c :
      qtrunc c -> (c < pin + length ents)%nat ->
      merged L0 (firstn c L0 ++ skipn (c - pin) ents) {| ai_term := p_term (n_p s); ai_pi := pi; ai_pt := pt; ai_ents := ents |}.
    Proof.
      intros [B [A [_ Cf]]] Hlt. exists c. simpl. fold pin. split; auto. split; auto. split; [lia|]. split; auto.
      split; [| exact Cf].
      destruct (A Hlt) as [E | [Hp [e1 [e2 [X1 [X2 [X3 X4]]]]]]]; [left; exact E | right].
      exists e1, e2. auto.
    Qed.

    Lemma wf_merged c : qtrunc c -> wf_from 1 (firstn c L0 ++ skipn (c - pin) ents).
    Proof.
      intros [B _]. apply wf_from_app. split.
      - apply wf_from_firstn. unfold L0. rewrite <- Hl. apply (v_wf s I).
      - rewrite firstn_length. rewrite Nat.min_l by lia.
        replace (1 + N.of_nat c) with (pi + 1 + N.of_nat (c - pin)) by (unfold pin in *; lia).
        apply wf_from_skipn. exact Hwe.
    Qed.

    Lemma inv_merged c y :
      n_commit y = n_commit s ->
      qtrunc c -> (c < pin + length ents)%nat ->
      p_log (n_p y) = firstn c L0 ++ skipn (c - pin) ents -> p_snap (n_p y) = None -> p_term (n_p y) = p_term (n_p s) ->
      n_role y = Follower -> n_msgs y = [] -> inv y.
    Proof.
      intros Hcm Q Hlt Ly Sy Ty Ry My. pose proof (merged_ok c Q Hlt) as Mg. pose proof (wf_merged c Q) as Wm.
      pose proof (ext_quiet y Hcm Ry My) as Ex. destruct I. constructor.
      - exact Sy.
      - rewrite Ly. exact Wm.
      - right. rewrite Ty. exact Ht1.
      - intro X. congruence.
      - rewrite Ty. auto.
      - intros E. right. left. exact Ry.
      - rewrite Ry. unfold LR. cbv zeta. right. right. right. right. split; auto. split; [rewrite Ty; exact Hns|].
        eexists. split; [exact Hin|]. simpl. rewrite Ly. split; auto.
      - rewrite My. constructor.
      - left. rewrite My. constructor.
      - exact Ex.
    Qed.

    Lemma pinv_merged c p :
      qtrunc c -> (c < pin + length ents)%nat ->
      p_log p = firstn c L0 ++ skipn (c - pin) ents -> p_snap p = None -> p_term p = p_term (n_p s) -> pinv p.
    Proof.
      intros Q Hlt Lp Sp Tp. pose proof (merged_ok c Q Hlt) as Mg. pose proof (wf_merged c Q) as Wm.
      destruct I. constructor.
      - exact Sp.
      - rewrite Lp. exact Wm.
      - right. rewrite Tp. exact Ht1.
      - rewrite Tp. auto.
      - unfold LR. cbv zeta. right. right. right. right. split; auto. split; [rewrite Tp; exact Hns|].
        eexists. split; [exact Hin|]. simpl. rewrite Lp. split; auto.
    Qed.
  End Merge.

  Lemma inv_resp s to su ix hi :
    inv s -> (su = true -> resp_ok RT (p_log (n_p s)) ix) -> inv (send s to (AppEntsResp su ix hi)).
  Proof.
    intros I H. apply inv_send; [exact I | | left; exact Logic.I].
    unfold mgood. simpl. destruct su; auto.
  Qed.

  Lemma post_handle_app_ents s from pi pt cm oes :
    inv s -> n_msgs s = [] -> n_role s = Follower -> p_log (n_p s) = p_log (n_p s0) -> in_ok s pi pt oes -> ~ strong s ->
    DC cm -> n_commit s = n_commit s0 ->
    post (handle_app_ents s from pi pt cm oes).
  Proof.
    intros I Hm Hr Hl [[Hrt0 Hrt] Hin] Hns Hdc Hcm0. unfold handle_app_ents.
    assert (Hfmc : forall x mi, inv x -> resp_ok RT (p_log (n_p x)) mi ->
                     post (follower_maybe_commit (send x from (AppEntsResp true mi 0)) cm mi)).
    { intros x mi Ix Hok. eapply post_follower_maybe_commit with (h := 0); [apply inv_resp; auto | exact Hdc | | ].
      - simpl. apply in_or_app. right. left. reflexivity.
      - reflexivity. }
    set (sc := set_follower_contact s).
    assert (Ic : inv sc) by (unfold sc; vol).
    pose proof (pure_has_entry (n_p sc) pi pt) as Pu.
    destruct (has_entry (n_p sc) pi pt) as [ok | |] eqn:Eh; [| exact Logic.I | contradiction].
    cbv beta iota delta [bind]. destruct ok; cbn [negb].
    2: { apply inv_resp; auto. discriminate. }
    destruct (has_entry_wf _ _ _ (v_snap sc Ic) (v_wf sc Ic) Eh) as [Hpi Hta].
    unfold llen in Hpi. change (p_log (n_p sc)) with (p_log (n_p s)) in Hpi.
    destruct oes as [ents |].
    2: { apply Hfmc; auto.
         destruct Hta as [Z | [e [X1 X2]]]; [left; exact Z | right]. exists e. split; auto. rewrite X2. exact Hrt0. }
    destruct Hin as [Einp [Hwe Ht1]].
    pose proof (pure_conflict_index sc ents) as Pc.
    destruct (conflict_index sc ents) as [[ci any] | |] eqn:Ec; [| exact Logic.I | contradiction].
    apply (conflict_index_spec sc ents pi) in Ec; auto; [| apply (v_snap sc Ic) | apply (v_wf sc Ic)].
    destruct Ec as [Hne Hspec].
    cbv beta iota delta [bind].
    assert (HwL : wf_from 1 (p_log (n_p s0))) by (rewrite <- Hl; apply (v_wf s I)).
    change (p_log (n_p sc)) with (p_log (n_p s)) in *. rewrite Hl in *.
    set (L0 := p_log (n_p s0)) in *. set (pin := N.to_nat pi) in *.
    eapply postQ_bind with (Q := fun y => n_msgs y = [] /\ n_role y = Follower /\ p_term (n_p y) = p_term (n_p s) /\
                                          n_commit y = n_commit s /\
                                          exists c, p_log (n_p y) = firstn c L0 /\ qtrunc s pi pt ents c).
    - destruct any.
      + destruct Hspec as [j [Hj1 [Hj2 [Hci [Hag Hmis]]]]].
        assert (Hcf : conflict_at L0 {| ai_term := p_term (n_p s); ai_pi := pi; ai_pt := pt; ai_ents := ents |} (pin + j)).
        { unfold conflict_at. simpl. fold pin. split; [lia|]. destruct Hmis as [e1 [e2 [X1 [X2 X3]]]].
          exists e1, e2. replace (pin + j - pin)%nat with j by lia. auto. }
        assert (Hq : qtrunc s pi pt ents (pin + j)).
        { split; [fold L0; fold pin; lia|]. split; [| split; [fold pin; intro; lia | right; exact Hcf]]. intros _. fold pin. fold L0.
          destruct Hag as [-> | [Hj0 Hag]]; [left; lia | right]. split; [lia | exact Hag]. }
        assert (Htr : mem_truncate (ci - 1) (p_log (n_p s)) = firstn (pin + j) L0).
        { rewrite mem_truncate_wf by (rewrite Hl; exact HwL). rewrite Hl. fold L0. f_equal. unfold pin. lia. }
        destruct (do_mut_cases (MTruncate (ci - 1)) sc) as [E | E]; rewrite E; cbv beta iota delta [bind].
        * eapply pinv_trunc with (s := s) (c := (pin + j)%nat); eauto. apply (v_snap s I).
        * match goal with |- postQ _ (match n_conf ?x with _ => _ end) => set (x1 := x) end.
          assert (Hy : forall y, n_p y = n_p x1 -> n_role y = Follower -> n_msgs y = [] -> n_commit y = n_commit s ->
                         inv y /\ (n_msgs y = [] /\ n_role y = Follower /\ p_term (n_p y) = p_term (n_p s) /\
                                    n_commit y = n_commit s /\
                                    exists c, p_log (n_p y) = firstn c L0 /\ qtrunc s pi pt ents c)).
          { intros y Py Ry My Cy. split.
            - eapply inv_trunc with (s := s) (c := (pin + j)%nat); try eassumption;
                try (rewrite Py; first [exact Htr | apply (v_snap s I) | reflexivity]); try (fold L0; lia).
            - repeat split; auto; [rewrite Py; reflexivity|]. exists (pin + j)%nat. split; [rewrite Py; exact Htr | exact Hq]. }
          destruct (n_conf x1) as [c0 |]; [destruct (ci <=? mb_index c0)|]; apply Hy; auto.
      + simpl. split; [exact Ic|]. repeat split; auto. exists (length L0). split; [rewrite firstn_all; exact Hl|].
        fold pin in Hspec. fold L0 in Hspec.
        split; [fold pin; fold L0; lia|]. split; [| split; [| left; reflexivity]].
        * intro Hlt. fold pin. fold L0. fold pin in Hlt.
          assert (Hov : Nat.min (length L0 - pin) (length ents) = (length L0 - pin)%nat) by lia. rewrite Hov in Hspec.
          destruct Hspec as [Z | [Z Ag]]; [left; lia | right].
          split; [lia|]. replace (length L0 - 1)%nat with (pin + (length L0 - pin) - 1)%nat by lia. exact Ag.
        * fold pin. fold L0. intro Hge.
          assert (Hlen0 : (0 < length ents)%nat) by (destruct ents; [congruence | simpl; lia]).
          assert (Hov : Nat.min (length L0 - pin) (length ents) = length ents) by lia. rewrite Hov in Hspec.
          destruct Hspec as [Z | [Z Ag]]; [lia | exact Ag].
    - intros y Iy [My [Ry [Ty [Cy [c [Ly Qc]]]]]].
      assert (Hc : (pin <= c <= length L0)%nat) by (destruct Qc as [B _]; exact B).
      rewrite (last_index_wf (n_p y) (v_snap y Iy) (v_wf y Iy)). unfold llen. rewrite Ly.
      rewrite firstn_length, Nat.min_l by lia.
      rewrite (last_ent_index_wf (pi + 1) ents Hwe Hne).
      assert (Hlen0 : (0 < length ents)%nat) by (destruct ents; [congruence | simpl; lia]).
      assert (HrtL : forall e2, nth_error ents (length ents - 1) = Some e2 -> RT (pi + 1 + N.of_nat (length ents) - 1) (e_term e2)).
      { intros e2 X2.
        replace (pi + 1 + N.of_nat (length ents) - 1) with (pi + N.of_nat (length ents - 1) + 1) by lia. apply (Hrt _ _ X2). }
      destruct (pi + 1 + N.of_nat (length ents) - 1 <=? N.of_nat c) eqn:E.
      { apply Hfmc; auto. right.
        apply N.leb_le in E. destruct Qc as [_ [_ [Q3 _]]].
        destruct (Q3 ltac:(unfold pin; lia)) as [e1 [e2 [X1 [X2 [X3 X4]]]]].
        exists e1. split.
        - rewrite Ly. rewrite nth_error_firstn'.
          assert (Hb : (N.to_nat (pi + 1 + N.of_nat (length ents) - 1 - 1) <? c)%nat = true) by (apply Nat.ltb_lt; lia).
          rewrite Hb. rewrite <- X1. f_equal. unfold pin. lia.
        - rewrite X4. apply HrtL. rewrite <- X2. f_equal. lia. }
      apply N.leb_gt in E.
      assert (Hlt : (c < pin + length ents)%nat) by (unfold pin; lia).
      destruct ents as [| e0 r] eqn:Ee; [congruence|]. rewrite <- Ee in *.
      assert (Hi0 : e_index e0 = pi + 1) by (rewrite Ee in Hwe; destruct Hwe; auto).
      rewrite Hi0.
      destruct (N.of_nat (length ents) <? N.of_nat c + 1 - (pi + 1)); [exact Logic.I|].
      replace (N.to_nat (N.of_nat c + 1 - (pi + 1))) with (c - pin)%nat by (unfold pin; lia).
      destruct (skipn (c - pin) ents) as [| a0 ar] eqn:Eapp; [exact Logic.I|].
      destruct (negb (e_index a0 =? N.of_nat c + 1)); [exact Logic.I|].
      match goal with |- context [log_append ?x _] => set (s2 := x) end.
      destruct (fold_conf_same (a0 :: ar) y) as [P2 [R2 M2]]. fold s2 in P2, R2, M2.
      assert (Hma : mem_append (p_log (n_p s2)) (a0 :: ar) = (firstn c L0 ++ skipn (c - pin) ents, true)).
      { rewrite P2, Ly, <- Eapp. apply mem_append_wf.
        - apply wf_from_firstn. exact HwL.
        - rewrite firstn_length, Nat.min_l by lia.
          replace (N.of_nat c + 1) with (pi + 1 + N.of_nat (c - pin)) by (unfold pin; lia). apply wf_from_skipn. exact Hwe. }
      unfold log_append. rewrite Hma. cbv beta iota delta [snd].
      destruct (do_mut_cases (MAppend (a0 :: ar)) s2) as [E2 | E2]; rewrite E2; cbv beta iota delta [bind].
      + eapply pinv_merged with (s := s) (c := c); eauto.
        * change (fst (mem_append (p_log (n_p s2)) (a0 :: ar)) = firstn c L0 ++ skipn (c - pin) ents). rewrite Hma. reflexivity.
        * simpl. rewrite P2. apply (v_snap y Iy).
        * simpl. rewrite P2. exact Ty.
      + assert (Hc2 : n_commit s2 = n_commit y).
        { unfold s2. clear. generalize (a0 :: ar). intro l. revert y. induction l as [| e l IH]; intros y; simpl; auto.
          destruct (e_type e =? EntryConf); rewrite IH; reflexivity. }
        apply Hfmc.
        * eapply inv_merged with (s := s) (c := c); eauto.
          -- simpl. rewrite Hc2. exact Cy.
          -- change (fst (mem_append (p_log (n_p s2)) (a0 :: ar)) = firstn c L0 ++ skipn (c - pin) ents). rewrite Hma. reflexivity.
          -- simpl. rewrite P2. apply (v_snap y Iy).
          -- simpl. rewrite P2. exact Ty.
          -- simpl. rewrite R2. exact Ry.
          -- simpl. rewrite M2. exact My.
        * right.
          destruct (nth_error_ex ents (length ents - 1)) as [e2 X2]; [lia|].
          exists e2. split; [| apply HrtL; exact X2].
          match goal with |- nth_error (p_log (n_p ?x)) _ = _ =>
            change (p_log (n_p x)) with (fst (mem_append (p_log (n_p s2)) (a0 :: ar))) end.
          rewrite Hma. cbv beta iota delta [fst].
          rewrite nth_error_app2 by (rewrite firstn_length; lia).
          rewrite firstn_length, Nat.min_l by lia. rewrite nth_error_skipn'. rewrite <- X2. f_equal. unfold pin. lia.
  Qed.

  (* ---------------------------------------------------------------- follower *)
  Lemma postQ_follower_note_leader s from :
    inv s -> postQ (fun s1 => samev s s1 /\ n_commit s1 = n_commit s) (follower_note_leader s from).
  Proof.
    intro I. unfold follower_note_leader.
    eapply postQ_bindQ with (Q := fun s1 => samev s s1 /\ n_commit s1 = n_commit s).
    - destruct (p_vote (n_p s) =? 0); [apply postQ_do_mut_light_c; auto; exact Logic.I | apply postQ_ret; auto using samev_refl].
    - intros s1 I1 [S1 C1]. destruct (n_leader s1 =? 0).
      + apply postQ_ret; [vol|]. split; [| simpl; exact C1]. eapply samev_trans; [exact S1|]. unfold samev; simpl; repeat split; reflexivity.
      + destruct (negb (n_leader s1 =? from)); [exact Logic.I | apply postQ_ret; auto].
  Qed.

  Definition mcond (s : node) (m : msg) : Prop :=
    match m_body m with
    | AppEnts pi pt cm oes => DC cm /\ in_ok s pi pt oes
    | AppEntsResp true ix _ => RSP (m_from m) ix (p_term (n_p s))
    | VoteReq li lt => forall L, uptodate L li lt -> VQ (m_from m) L
    | InstallSnap _ _ _ => False
    | _ => True
    end.

  Lemma can_grant_uptodate s from li lt :
    p_snap (n_p s) = None -> wf_from 1 (p_log (n_p s)) -> can_grant_vote s from li lt = Ret true ->
    uptodate (p_log (n_p s)) li lt.
  Proof.
    intros Hs Hw. unfold can_grant_vote.
    destruct (negb (p_vote (n_p s) =? 0) && negb (p_vote (n_p s) =? from)); [discriminate|].
    rewrite (last_index_wf _ Hs Hw).
    destruct (st_term (n_p s) (llen (n_p s))) as [[ltv ok] | |] eqn:E; simpl; try discriminate.
    destruct (st_term_wf _ _ _ _ Hs Hw E) as [Ok [_ [Z Ta]]]. subst ok. simpl.
    assert (El : ltv = last_term (p_log (n_p s))).
    { apply last_term_at; [exact Ta|]. intro X. apply Z. unfold llen. rewrite X. reflexivity. }
    intro H. inversion H as [H1]. unfold uptodate. rewrite <- El. unfold llen in H1.
    apply orb_true_iff in H1. destruct H1 as [H1 | H1].
    - left. apply N.ltb_lt. exact H1.
    - right. apply andb_true_iff in H1. destruct H1 as [A B]. apply N.eqb_eq in A. apply N.leb_le in B. auto.
  Qed.

  Lemma post_handle_follower s m :
    inv s -> n_msgs s = [] -> n_role s = Follower -> p_log (n_p s) = p_log (n_p s0) -> mcond s m -> ~ strong s ->
    n_commit s = n_commit s0 ->
    post (handle_follower s m).
  Proof.
    intros I Hm Hr Hl Hc Hns Hcm0. unfold handle_follower. unfold mcond in Hc. destruct (m_body m).
    - destruct Hc as [Hdc Hc]. eapply postQ_bind; [apply postQ_follower_note_leader; auto|].
      intros s1 I1 [[A1 [A2 [A3 [A4 [A5 [A6 A7]]]]]] Ac1]. apply post_handle_app_ents; auto; try congruence.
      + unfold in_ok in *. destruct Hc as [Hc0 Hc]. split; auto. destruct ents; auto. rewrite A2. exact Hc.
      + unfold strong in *. rewrite A2. exact Hns.
    - simpl. exact I.
    - apply post_bind_pure; [apply pure_can_grant_vote|]. intros g Hg.
      eapply postQ_bind with (Q := samev s).
      + destruct g; [apply postQ_do_mut_light; auto; exact Logic.I | apply postQ_ret; auto using samev_refl].
      + intros s1 I1 [S1 _]. simpl. apply inv_send; [exact I1 | | left; exact Logic.I].
        unfold mgood. simpl. destruct g; [| exact Logic.I]. rewrite S1. apply Hc.
        apply (can_grant_uptodate s (m_from m) last_idx last_term0 (v_snap s I) (v_wf s I) Hg).
    - simpl. exact I.
    - contradiction.
  Qed.

  (* ---------------------------------------------------------------- candidate *)
  Lemma fold_send_inv (ms : list nid) li lt : forall s,
    inv s -> no_appents (n_msgs s) -> li = N.of_nat (length (p_log (n_p s))) -> lt = last_term (p_log (n_p s)) ->
    LQ (p_log (n_p s)) (p_term (n_p s)) ->
    let s' := fold_left (fun a m => if m =? n_id a then a else send a m (VoteReq li lt)) ms s in
    inv s' /\ no_appents (n_msgs s') /\ n_role s' = n_role s.
  Proof.
    induction ms as [| m r IH]; intros s I Na Hli Hlt Hlq; simpl; auto.
    destruct (m =? n_id s); [apply IH; auto|].
    destruct (IH (send s m (VoteReq li lt))) as [A [B C]]; auto.
    - apply inv_send; [exact I | unfold mgood; simpl; auto | left; exact Logic.I].
    - simpl. apply no_appents_app. split; auto. constructor; [| constructor]. unfold is_appents. simpl. auto.
  Qed.

  Lemma ext_reset y : n_commit y = n_commit s0 -> n_msgs y = [] -> n_role y <> Leader -> ext y.
  Proof.
    intros Hc Hm Hr. unfold ext. rewrite Hc, Hm. split; [constructor|]. split; [exact Logic.I|]. split; [left; apply N.le_refl|].
    intro X. contradiction.
  Qed.

  Lemma post_become_candidate s :
    inv s -> n_msgs s = [] -> p_log (n_p s) = p_log (n_p s0) -> n_role s <> Leader -> n_commit s = n_commit s0 ->
    post (become_candidate s).
  Proof.
    intros I Hm Hl Hnl Hcm. unfold become_candidate, enter_candidate.
    set (sr := set_role s Candidate 0 0).
    destruct (negb (in_latest_conf sr) && latest_conf_committed sr) eqn:Econd.
    { simpl. eapply inv_follower with (s := s); eauto; try reflexivity. right. split; [rewrite Hm; constructor | exact Hnl]. }
    assert (Hconf : n_conf s <> None).
    { intro X. unfold in_latest_conf, latest_conf_committed in Econd. simpl in Econd. rewrite X in Econd. discriminate. }
    assert (Ht1 : 1 <= p_term (n_p s)).
    { destruct (v_n1 s I) as [[_ X] | X]; [contradiction | exact X]. }
    set (sc := set_candidate sr (c_timeout sr) []).
    destruct (do_mut_cases (MSaveState (n_id sc) (p_term (n_p sc) + 1)) sc) as [E | E]; rewrite E; cbv beta iota delta [bind].
    - destruct I. constructor; simpl; auto.
      + right. lia.
      + lia.
      + unfold LR. cbv zeta. left. simpl. exact Hl.
    - match goal with |- context [in_latest_conf ?x] => set (x1 := x) end.
      assert (I1 : inv x1).
      { destruct I. constructor; simpl; auto.
        - right. lia.
        - intros _. lia.
        - lia.
        - intro X. lia.
        - unfold LR. cbv zeta. left. simpl. exact Hl.
        - left. rewrite Hm. constructor.
        - apply ext_reset; simpl; auto. discriminate. }
      set (s2 := if in_latest_conf x1 then set_candidate x1 (c_timeout x1) (set_add (n_id x1) (c_votes x1)) else x1).
      assert (I2 : inv s2 /\ n_msgs s2 = [] /\ n_role s2 = Candidate).
      { unfold s2. destruct (in_latest_conf x1); (split; [first [exact I1 | vol] | split; [exact Hm | reflexivity]]). }
      destruct I2 as [I2 [M2 R2]].
      apply post_bind_pure; [apply pure_st_term|]. intros [lt ok] Hst.
      assert (Hli : last_index (n_p s2) = N.of_nat (length (p_log (n_p s2)))) by (apply (last_index_wf _ (v_snap s2 I2) (v_wf s2 I2))).
      assert (Hlt : lt = last_term (p_log (n_p s2))).
      { rewrite Hli in Hst. destruct (st_term_wf _ _ _ _ (v_snap s2 I2) (v_wf s2 I2) Hst) as [_ [_ [Z Ta]]].
        apply last_term_at; [exact Ta|]. intro X. apply Z. rewrite X. reflexivity. }
      assert (Hlq2 : LQ (p_log (n_p s2)) (p_term (n_p s2))).
      { assert (E1 : p_log (n_p s2) = p_log (n_p s0)) by (unfold s2; destruct (in_latest_conf x1); exact Hl).
        assert (E2 : p_term (n_p s2) = p_term (n_p s) + 1) by (unfold s2; destruct (in_latest_conf x1); reflexivity).
        rewrite E1, E2. apply HLQ. pose proof (v_tm s I). lia. }
      destruct (negb ok); [exact Logic.I|]. destruct (n_conf s2); [| exact Logic.I].
      match goal with |- post (check_if_elected (set_candidate ?x _ _)) =>
        destruct (fold_send_inv (mb_members m) (last_index (n_p s2)) lt s2 I2) as [A [B C]]; [rewrite M2; constructor | exact Hli | exact Hlt | exact Hlq2 |];
        apply post_check_if_elected; [eapply inv_vol with (s := x); auto | simpl; congruence | simpl; exact B] end.
  Qed.

  Lemma post_handle_candidate s m :
    inv s -> n_msgs s = [] -> n_role s = Candidate -> post (handle_candidate s m).
  Proof.
    intros I Hm Hr. unfold handle_candidate.
    assert (Na : no_appents (n_msgs s)) by (rewrite Hm; constructor).
    assert (Hnl : n_role s <> Leader) by congruence.
    destruct (m_body m); simpl; auto.
    - eapply inv_follower with (s := s); eauto.
    - apply inv_send; [exact I | exact Logic.I | left; exact Logic.I].
    - destruct granted; [| simpl; auto]. apply post_check_if_elected; auto. vol.
    - eapply inv_follower with (s := s); eauto.
  Qed.

  Lemma post_handle_by_role s m :
    inv s -> n_msgs s = [] -> p_log (n_p s) = p_log (n_p s0) -> mcond s m -> (n_role s = Leader -> strong s) ->
    (n_role s = n_role s0 \/ p_term (n_p s) <> p_term (n_p s0)) -> n_commit s = n_commit s0 ->
    post (handle_by_role s m).
  Proof.
    intros I Hm Hl Hc Hs Hd Hcm0. unfold handle_by_role. destruct (n_role s) eqn:Er.
    - apply post_handle_follower; auto. intros [X Y]. destruct Hd; congruence.
    - apply post_handle_candidate; auto.
    - apply post_handle_leader; auto. unfold mcond in Hc. destruct (m_body m); auto.
  Qed.

  (* ---------------------------------------------------------------- HandleMsg *)
  Definition mok3 (m : msg) : Prop :=
    match m_body m with
    | AppEnts pi pt cm oes =>
        DC cm /\ rt_ok pi pt oes /\
        match oes with
        | Some ents => inp = Some {| ai_term := m_term m; ai_pi := pi; ai_pt := pt; ai_ents := ents |} /\ wf_from (pi + 1) ents /\ 1 <= m_term m
        | None => True
        end
    | AppEntsResp true ix _ => RSP (m_from m) ix (m_term m)
    | VoteReq li lt => forall L, uptodate L li lt -> VQ (m_from m) L
    | InstallSnap _ _ _ => False
    | _ => True
    end.

  Lemma mok3_mcond s m : mok3 m -> p_term (n_p s) = m_term m -> mcond s m.
  Proof.
    unfold mok3, mcond, in_ok. intros H E. destruct (m_body m); auto.
    - destruct H as [Hd [H0 H]]. split; auto. split; auto. destruct ents; auto. rewrite E. exact H.
    - destruct success; auto. rewrite E. exact H.
  Qed.


  Lemma post_handle_msg s m :
    inv s -> n_msgs s = [] -> p_log (n_p s) = p_log (n_p s0) -> n_role s = n_role s0 -> p_term (n_p s) = p_term (n_p s0) ->
    n_commit s = n_commit s0 ->
    mok3 m -> post (handle_msg s m).
  Proof.
    intros I Hm Hl Hr Ht Hcm Hk. unfold handle_msg.
    match goal with |- post (if ?c then _ else _) => destruct c end; [simpl; auto|].
    match goal with |- post (if ?c then _ else _) => destruct c end; [simpl; auto|].
    eapply postQ_bind with (Q := fun s1 => samev s s1 /\ n_commit s1 = n_commit s).
    - match goal with |- postQ _ (if ?c then _ else _) => destruct c end;
        [apply postQ_do_mut_light_c; auto; exact Logic.I | apply postQ_ret; auto using samev_refl].
    - intros s1 I1 [[A1 [A2 [A3 [A4 [A5 [A6 A7]]]]]] Ac].
      match goal with |- post (if ?c then _ else _) => destruct c end; [simpl; auto|].
      destruct (m_term m <? p_term (n_p s1)) eqn:Elt; [simpl; auto|]. apply N.ltb_ge in Elt.
      destruct (p_term (n_p s1) <? m_term m) eqn:Egt.
      + apply N.ltb_lt in Egt.
        assert (Hsave : forall v l,
                  post (s2 <- (s' <- do_mut (MSaveState v (m_term m)) s1 ;; Ret (become_follower s' l)) ;; handle_by_role s2 m)).
        { intros v l.
          destruct (do_mut_cases (MSaveState v (m_term m)) s1) as [E | E]; rewrite E; cbv beta iota delta [bind].
          - destruct I1. constructor; simpl; auto.
            + right. lia.
            + lia.
            + unfold LR. cbv zeta. left. simpl. congruence.
          - apply post_handle_by_role.
            + destruct I1. constructor; simpl; auto.
              * right. lia.
              * intro X. congruence.
              * lia.
              * unfold LR. cbv zeta. left. simpl. congruence.
              * left. rewrite A4, Hm. constructor.
              * apply ext_reset; simpl; [congruence | congruence | discriminate].
            + simpl. congruence.
            + simpl. congruence.
            + apply mok3_mcond; auto.
            + simpl. discriminate.
            + right. simpl. lia.
            + simpl. congruence. }
        destruct (m_body m); try exact Logic.I; apply Hsave.
      + apply N.ltb_ge in Egt. cbv beta iota delta [bind].
        apply post_handle_by_role; auto; try congruence.
        * apply mok3_mcond; auto. lia.
        * intro X. split; congruence.
        * left. congruence.
  Qed.

  (* ---------------------------------------------------------------- Tick, Propose, Bootstrap *)
  Lemma post_tick s :
    inv s -> n_msgs s = [] -> p_log (n_p s) = p_log (n_p s0) -> n_role s = n_role s0 -> p_term (n_p s) = p_term (n_p s0) ->
    n_commit s = n_commit s0 ->
    post (tick s).
  Proof.
    intros I Hm Hl Hr Ht Hcm. unfold tick.
    set (s1 := set_elapsed s ((n_elapsed s + 1) mod 4294967296)).
    assert (I1 : inv s1) by (unfold s1; vol).
    destruct (n_role s1) eqn:Er.
    - match goal with |- post (if ?c then _ else _) => destruct c end; [apply post_become_candidate; auto; congruence | simpl; auto].
    - match goal with |- post (if ?c then _ else _) => destruct c end; [apply post_become_candidate; auto; congruence | simpl; auto].
    - apply post_tick_leader; auto. split; [simpl in Er; congruence | exact Ht].
  Qed.

  Lemma post_log_append_leader s es :
    inv s -> strong s -> n_role s = Leader -> p_log (n_p s) = p_log (n_p s0) -> n_msgs s = [] -> n_commit s = n_commit s0 ->
    postQ (fun x => strong x /\ n_role x = Leader) (log_append s (stamp es (last_index (n_p s) + 1) (p_term (n_p s)))).
  Proof.
    intros I St Hrl Hl Hmsg Hcm. unfold log_append.
    rewrite (last_index_wf _ (v_snap s I) (v_wf s I)). unfold llen.
    destruct (stamp_wf es (N.of_nat (length (p_log (n_p s))) + 1) (p_term (n_p s))) as [Ws Ts].
    set (new := stamp es (N.of_nat (length (p_log (n_p s))) + 1) (p_term (n_p s))) in *.
    pose proof (mem_append_wf (p_log (n_p s)) new (v_wf s I) Ws) as Hma. rewrite Hma. cbv beta iota delta [snd].
    assert (HLR : forall p r, p_log p = p_log (n_p s) ++ new -> p_term p = p_term (n_p s) -> LR p r).
    { intros p r Lp Tp. unfold LR. cbv zeta. right. right. right. left. destruct St as [S1 S2].
      split; auto. split; [congruence|]. exists new. split; [congruence|]. rewrite <- S2. exact Ts. }
    assert (Hw' : wf_from 1 (p_log (n_p s) ++ new)).
    { apply wf_from_app. split; [apply (v_wf s I)|]. replace (1 + N.of_nat (length (p_log (n_p s)))) with (N.of_nat (length (p_log (n_p s))) + 1) by lia. exact Ws. }
    assert (Ht1 : 1 <= p_term (n_p s)).
    { assert (2 <= p_term (n_p s)) by (apply (v_n2 s I); congruence). lia. }
    destruct (do_mut_cases (MAppend new) s) as [E | E]; rewrite E; cbv beta iota delta [bind].
    - destruct I. constructor; simpl; try rewrite Hma; simpl; auto.
    - split; [| split; [unfold strong in *; simpl; exact St | simpl; exact Hrl]].
      destruct I. constructor; simpl; try rewrite Hma; simpl; auto.
      + rewrite Hmsg. constructor.
      + destruct v_ext0 as [E1 [E2 [E3 E4]]]. unfold ext. simpl. split; [rewrite Hmsg; constructor|]. split; [exact E2|].
        split; [left; rewrite Hcm; apply N.le_refl | exact E4].
  Qed.

  Lemma post_leader_propose s es :
    inv s -> strong s -> n_role s = Leader -> p_log (n_p s) = p_log (n_p s0) -> n_msgs s = [] -> n_commit s = n_commit s0 ->
    post (leader_propose s es).
  Proof.
    intros I St Hrl Hl Hmsg Hcm. unfold leader_propose.
    eapply postQ_bind; [apply post_log_append_leader; auto|]. intros s1 I1 [St1 Rl1].
    eapply postQ_bind with (Q := fun x => strong x /\ n_role x = Leader).
    - apply post_for_peers; auto. intros s3 p I3 [St3 Rl3] Hp.
      match goal with |- postQ _ (if ?c then _ else _) => destruct c end; [| apply postQ_ret; auto].
      eapply postQ_mono; [| apply postQ_send_app_ents; [exact I3 | apply strong_leaderish; exact St3 | exists p; auto]].
      intros x Hx. split; [eapply sameL_strong; eauto | destruct Hx as [_ [_ [Rx _]]]; congruence].
    - intros s2 I2 [St2 Rl2]. destruct (l_peers s2); [| simpl; auto].
      eapply postQ_post. apply post_leader_maybe_commit_strong; auto.
  Qed.

  Lemma post2_propose s es :
    inv s -> p_log (n_p s) = p_log (n_p s0) -> n_role s = n_role s0 -> p_term (n_p s) = p_term (n_p s0) -> n_msgs s = [] ->
    n_commit s = n_commit s0 ->
    post2 (propose s es).
  Proof.
    intros I Hl Hr Ht Hmsg Hcm. unfold propose. destruct (n_role s) eqn:Er; simpl; auto.
    apply post2_of_post. apply post_leader_propose; auto. split; congruence.
  Qed.

  Lemma post2_bootstrap s ms ep :
    inv s -> n_msgs s = [] -> p_log (n_p s) = p_log (n_p s0) -> n_role s = n_role s0 -> n_commit s = n_commit s0 ->
    boot = Some (boot_entry ms ep) ->
    post2 (propose_initial_membership s ms ep).
  Proof.
    intros I Hm Hl Hrr Hcm Hb. unfold propose_initial_membership.
    destruct (n_role s) eqn:Er; try (simpl; exact I).
    destruct (is_clean (n_p s)) eqn:Ec; [| simpl; exact I].
    assert (Hlog : p_log (n_p s) = []).
    { unfold is_clean in Ec. destruct (p_log (n_p s)); [reflexivity | discriminate]. }
    destruct (is_clean_zero _ Ec) as [Z1 Z2].
    fold (boot_entry ms ep). set (e := boot_entry ms ep) in *.
    destruct (do_mut_cases (MSaveState 0 1) s) as [E | E]; rewrite E; cbv beta iota delta [bind].
    - destruct I. constructor; simpl; auto.
      + lia.
      + unfold LR. cbv zeta. left. simpl. exact Hl.
    - match goal with |- context [log_append ?x _] => set (x1 := x) end.
      unfold log_append.
      assert (Hma : mem_append (p_log (n_p x1)) [e] = ([e], true)).
      { change (p_log (n_p x1)) with (p_log (n_p s)). rewrite Hlog. reflexivity. }
      rewrite Hma. cbv beta iota delta [snd].
      assert (HLR : forall p, p_log p = [e] -> LR p Follower).
      { intros p Lp. unfold LR. cbv zeta. right. right. left. split; auto. split; [intros [X _]; congruence|].
        exists e. repeat split; auto. congruence. }
      assert (Hwe : wf_from 1 [e]) by (simpl; auto).
      destruct (do_mut_cases (MAppend [e]) x1) as [E2 | E2]; rewrite E2; cbv beta iota delta [bind].
      + destruct I. constructor.
        * exact v_snap0.
        * change (wf_from 1 (fst (mem_append (p_log (n_p x1)) [e]))). rewrite Hma. exact Hwe.
        * right. simpl. lia.
        * simpl. lia.
        * apply HLR. change (fst (mem_append (p_log (n_p x1)) [e]) = [e]). rewrite Hma. reflexivity.
      + cbv beta iota delta [post2]. destruct I. constructor.
        * exact v_snap0.
        * change (wf_from 1 (fst (mem_append (p_log (n_p x1)) [e]))). rewrite Hma. exact Hwe.
        * right. simpl. lia.
        * simpl. intro X. congruence.
        * simpl. lia.
        * simpl. intros _. right. left. exact Er.
        * change (LR (apply_mut (n_p x1) (MAppend [e])) (n_role s)). rewrite Er. apply HLR.
          change (fst (mem_append (p_log (n_p x1)) [e]) = [e]). rewrite Hma. reflexivity.
        * simpl. rewrite Hm. constructor.
        * left. simpl. rewrite Hm. constructor.
        * apply ext_reset; simpl; [exact Hcm | exact Hm | congruence].
  Qed.

  Lemma init_latest_conf_nil p : p_snap p = None -> p_log p = [] -> init_latest_conf p = None.
  Proof. intros A B. unfold init_latest_conf. rewrite A, B. reflexivity. Qed.

  Lemma inv_new_core id cfg p :
    pinv p -> inv (become_follower (set_conf (blank_node id cfg p) (init_latest_conf p)) 0).
  Proof.
    intros [A B C D E]. constructor; simpl; auto.
    - destruct C as [C | C]; [left | right; exact C]. split; auto. apply init_latest_conf_nil; auto.
    - intro X. congruence.
    - left. constructor.
    - unfold ext. simpl. split; [constructor|]. split; [exact Logic.I|]. split; [left; apply N.le_0_l | intro X; discriminate].
  Qed.

  Lemma post_new_core id cfg p : pinv p -> post (new_core id cfg p).
  Proof. intro P. rewrite new_core_nosnap by (destruct P; auto). simpl. apply inv_new_core. exact P. Qed.

  Definition evok3 (ev : event) : Prop :=
    match ev with
    | EBootstrap ms ep => boot = Some (boot_entry ms ep)
    | EDeliver m => mok3 m
    | EAddNode _ _ | ERemoveNode _ | ESnapDone _ => False
    | _ => True
    end.

  Lemma inv_start : base s0 -> n_msgs s0 = [] -> inv s0.
  Proof.
    intros [A [B [C [D Pk]]]] M. constructor; auto.
    - lia.
    - unfold LR. cbv zeta. left. reflexivity.
    - rewrite M. constructor.
    - left. rewrite M. constructor.
    - unfold ext. rewrite M. split; [constructor|]. split; [exact Logic.I|]. split; [left; apply N.le_refl|].
      intro Hr. destruct (Pk Hr) as [P1 P2]. unfold pk. split; [exact P1|]. split; [exact P2|].
      intros p Hp. right. left. split; [split; auto|]. exists p. split; [apply peer_get_in; auto | reflexivity].
  Qed.

  Lemma post2_run_event ev : base s0 -> n_msgs s0 = [] -> evok3 ev -> post2 (run_event s0 ev).
  Proof.
    intros Hb Hm He. pose proof (inv_start Hb Hm) as I. destruct ev; simpl in *; try contradiction.
    - apply post2_bootstrap; auto.
    - unfold wrap0. apply post2_of_post. apply post_handle_msg; auto.
    - unfold wrap0. apply post2_of_post. apply post_tick; auto.
    - apply post2_propose; auto.
    - unfold wrap0. apply post2_of_post. apply post_new_core. eapply inv_pinv; eauto.
  Qed.
End LV.

(* ---------------------------------------------------------------- the event with a crash point *)
Definition inp_of (ev : event) : option ainp :=
  match ev with
  | EDeliver m => match m_body m with
                  | AppEnts pi pt _ (Some ents) => Some {| ai_term := m_term m; ai_pi := pi; ai_pt := pt; ai_ents := ents |}
                  | _ => None
                  end
  | _ => None
  end.

Definition boot_of (ev : event) : option entry :=
  match ev with EBootstrap ms ep => Some (boot_entry ms ep) | _ => None end.

(* the restricted alphabet: no reconfiguration, no snapshot; delivered AppEnts carry index-contiguous entries and a term >= 1 *)
Definition evok4 (ev : event) : Prop :=
  match ev with
  | EDeliver m => match m_body m with
                  | AppEnts pi _ _ (Some ents) => wf_from (pi + 1) ents /\ 1 <= m_term m
                  | InstallSnap _ _ _ => False
                  | _ => True
                  end
  | EAddNode _ _ | ERemoveNode _ | ESnapDone _ => False
  | _ => True
  end.

(* what the delivered AppEnts claims about the leader's log: the term of the entry at an index *)
Definition rt_of (ev : event) (idx t : N) : Prop :=
  match ev with
  | EDeliver m => match m_body m with
                  | AppEnts pi pt _ oe =>
                      (idx = pi /\ t = pt) \/
                      (exists ents j e, oe = Some ents /\ nth_error ents j = Some e /\ idx = pi + N.of_nat j + 1 /\ t = e_term e)
                  | _ => False
                  end
  | _ => False
  end.

(* a granted vote: the delivered message is a VoteReq from the node the vote goes to, and the voter's log is not more up-to-date *)
Definition vq_of (ev : event) (to : nid) (L : list entry) : Prop :=
  match ev with
  | EDeliver m => match m_body m with
                  | VoteReq li lt => to = m_from m /\ uptodate L li lt
                  | _ => False
                  end
  | _ => False
  end.

(* the leaderCommit of the delivered AppEnts; a delivered successful AppEntsResp *)
Definition dc_of (ev : event) (cm : N) : Prop :=
  match ev with
  | EDeliver m => match m_body m with AppEnts _ _ c _ => cm = c | _ => False end
  | _ => False
  end.

Definition rsp_of (ev : event) (id ix t : N) : Prop :=
  match ev with
  | EDeliver m => match m_body m with AppEntsResp true i _ => id = m_from m /\ ix = i /\ t = m_term m | _ => False end
  | _ => False
  end.

Lemma evok4_evok3 ev : evok4 ev -> evok3 (inp_of ev) (boot_of ev) (rt_of ev) (vq_of ev) (dc_of ev) (rsp_of ev) ev.
Proof.
  destruct ev; simpl; auto. unfold mok3, rt_ok. destruct (m_body m) eqn:Eb; auto.
  - intro H. unfold rt_of, dc_of. rewrite Eb. split; [reflexivity|]. split.
    + split; [left; auto|]. destruct ents as [es |]; auto. intros j e Hj. right. exists es, j, e. auto.
    + destruct ents; auto.
  - intros _. destruct success; auto. unfold rsp_of. rewrite Eb. auto.
  - intros _ L HL. unfold vq_of. rewrite Eb. auto.
Qed.

(* a VoteReq is sent with the log the event started with, right after the term was raised *)
Definition lq_of (s : node) (L : list entry) (t : N) : Prop := L = p_log (n_p s) /\ p_term (n_p s) < t.

Theorem run_event_crash_lm s ev k crashed st s' :
  base s -> evok4 ev -> run_event_crash (settle s) ev k = Ret (crashed, st, s') ->
  inv (with_budget (settle s) k) (inp_of ev) (boot_of ev) (rt_of ev) (vq_of ev) (lq_of s) (dc_of ev) (rsp_of ev) s'.
Proof.
  intros Hb He. unfold run_event_crash.
  set (s0 := with_budget (settle s) k).
  assert (Hb0 : base s0) by (unfold base in *; simpl; exact Hb).
  assert (Hq : forall t, p_term (n_p s0) < t -> lq_of s (p_log (n_p s0)) t) by (intros t Ht; split; [reflexivity | exact Ht]).
  pose proof (post2_run_event s0 (inp_of ev) (boot_of ev) (rt_of ev) (vq_of ev) (lq_of s) Hq (dc_of ev) (rsp_of ev) ev Hb0 eq_refl (evok4_evok3 ev He)) as P.
  destruct (run_event s0 ev) as [[st0 x] | c | p]; simpl in *; try discriminate.
  - intro H. inversion H. subst. eapply inv_vol; eauto.
  - pose proof (post_new_core s0 (inp_of ev) (boot_of ev) (rt_of ev) (vq_of ev) (lq_of s) (dc_of ev) (rsp_of ev) (n_id s) (n_cfg s) p P) as Q.
    destruct (new_core (n_id s) (n_cfg s) p); simpl in *; try discriminate.
    intro H. inversion H. subst. exact Q.
Qed.
