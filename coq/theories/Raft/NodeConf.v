(* Raft/NodeConf.v — where configurations come from.  For a fixed number n of members: if every configuration entry in a
   node's log, its snapshot's configuration, its latest configuration and every configuration carried by the messages in
   its outbox have n members, and the event is not AddNode/RemoveNode and only brings in such configurations (delivered
   message, proposed entries, snapshot metadata, bootstrap membership), then the same holds after the event — completed
   or crashed after any durable mutation.  This turns the fixed-membership side condition of Raft/Election.v into a
   condition on the schedule. *)
From Coq Require Import List NArith ZArith Bool Lia.
From BLB Require Import Raft.Core Raft.NodeProofs.
Import ListNotations.
Open Scope N_scope.

Section Conf.
  Variable n : nat.

  Definition cok (c : membership) : Prop := length (mb_members c) = n.
  Definition ocok (o : option membership) : Prop := match o with Some c => cok c | None => True end.
  Definition eok (e : entry) : Prop := ocok (decode_conf e).
  Definition pok (p : pstate) : Prop :=
    Forall eok (p_log p) /\ match p_snap p with Some m => ocok (sn_conf m) | None => True end.
  Definition mok (m : msg) : Prop :=
    match m_body m with
    | AppEnts _ _ _ (Some es) => Forall eok es
    | InstallSnap _ _ c => cok c
    | _ => True
    end.
  Definition sok (s : node) : Prop := pok (n_p s) /\ ocok (n_conf s) /\ Forall mok (n_msgs s).

  Definition post (r : R node) : Prop :=
    match r with Ret s' => sok s' | Fatal _ => True | Crashed p => pok p end.
  Definition post2 (r : R (N * node)) : Prop :=
    match r with Ret (_, s') => sok s' | Fatal _ => True | Crashed p => pok p end.

  Lemma post_bind (a : R node) (f : node -> R node) :
    post a -> (forall s1, sok s1 -> post (f s1)) -> post (bind a f).
  Proof. intros Ha Hf. destruct a; simpl in *; auto. Qed.

  Lemma post_bind_pure {A} (a : R A) (f : A -> R node) :
    pure a -> (forall x, a = Ret x -> post (f x)) -> post (bind a f).
  Proof. intros Hp Hf. destruct a; simpl in *; auto. contradiction. Qed.

  Lemma post2_bind (a : R node) (f : node -> R (N * node)) :
    post a -> (forall s1, sok s1 -> post2 (f s1)) -> post2 (bind a f).
  Proof. intros Ha Hf. destruct a; simpl in *; auto. Qed.

  Lemma post2_bind_pure {A} (a : R A) (f : A -> R (N * node)) :
    pure a -> (forall x, a = Ret x -> post2 (f x)) -> post2 (bind a f).
  Proof. intros Hp Hf. destruct a; simpl in *; auto. contradiction. Qed.

  Lemma post2_of_post r st : post r -> post2 (s1 <- r ;; Ret (st, s1)).
  Proof. destruct r; simpl; auto. Qed.

  (* ---------------------------------------------------------------- list facts *)
  Lemma drop_while_forall {A} (P : A -> Prop) f l : Forall P l -> Forall P (drop_while f l).
  Proof. induction 1; simpl; auto. destruct (f x); auto. Qed.

  Lemma mem_append_ok l es : Forall eok l -> Forall eok es -> Forall eok (fst (mem_append l es)).
  Proof.
    revert l. induction es as [| e r IH]; intros l Hl He; simpl; auto.
    inversion He; subst.
    assert (Hle : Forall eok (l ++ [e])) by (apply Forall_app; auto).
    destruct (log_last l); [destruct (e_index e =? n0 + 1); auto|]; apply IH; auto.
  Qed.

  Lemma mem_truncate_ok k l : Forall eok l -> Forall eok (mem_truncate k l).
  Proof. intro H. unfold mem_truncate. apply Forall_rev. apply drop_while_forall. apply Forall_rev. exact H. Qed.

  Lemma mem_trim_ok k l : Forall eok l -> Forall eok (mem_trim k l).
  Proof. intro H. unfold mem_trim. apply drop_while_forall. exact H. Qed.

  Lemma entries_loop_ok l e k es : Forall eok l -> entries_loop l e k = Ret es -> Forall eok es.
  Proof.
    revert e es. induction l as [| x r IH]; intros e es Hl; simpl.
    - intro H. inversion H. constructor.
    - inversion Hl; subst. destruct (negb (e_index x =? e)); [discriminate|].
      destruct (k <=? e_index x); [intro H; inversion H; constructor|].
      destruct (entries_loop r (e + 1) k) eqn:E; simpl; try discriminate.
      intro H. inversion H. subst. constructor; auto. eapply IH; eauto.
  Qed.

  Lemma log_entries_ok p b e es : pok p -> log_entries p b e = Ret es -> Forall eok es.
  Proof. intros [Hl _]. unfold log_entries. apply entries_loop_ok. apply drop_while_forall. exact Hl. Qed.

  Lemma last_conf_entry_ok l acc e :
    Forall eok l -> (forall a, acc = Some a -> eok a) -> last_conf_entry l acc = Some e -> eok e.
  Proof.
    revert acc. induction l as [| x r IH]; intros acc Hl Ha; simpl.
    - intro H. apply Ha. exact H.
    - inversion Hl; subst. apply IH; auto. intros a. destruct (e_type x =? EntryConf); auto.
      intro H. inversion H. subst. auto.
  Qed.

  Lemma init_latest_conf_ok p : pok p -> ocok (init_latest_conf p).
  Proof.
    intros [Hl Hs]. unfold init_latest_conf.
    assert (H0 : ocok (match p_snap p with Some m => sn_conf m | None => None end)).
    { destruct (p_snap p); simpl; auto. }
    destruct (p_log p) eqn:El; auto. rewrite <- El.
    destruct (last_conf_entry (drop_while (fun e => e_index e <? (match p_snap p with Some m => sn_index m | None => 0 end) + 1) (p_log p)) None) as [ce |] eqn:E; auto.
    destruct (e_index ce =? 0); auto.
    apply last_conf_entry_ok in E; auto.
    - apply drop_while_forall. rewrite El. exact Hl.
    - intros a Ha. discriminate.
  Qed.

  Lemma stamp_ok es i t : Forall eok es -> Forall eok (stamp es i t).
  Proof.
    revert i. induction es as [| e r IH]; intros i H; simpl; constructor.
    - inversion H; subst. unfold eok, decode_conf in *. simpl. destruct (e_type e =? EntryConf); auto.
      destruct (e_pl e); simpl in *; auto.
    - inversion H; subst. apply IH; auto.
  Qed.

  (* ---------------------------------------------------------------- the gate *)
  Definition mut_ok (m : mut) : Prop :=
    match m with
    | MAppend es => Forall eok es
    | MSnapCommit sm => ocok (sn_conf sm)
    | _ => True
    end.

  Lemma apply_mut_ok p m : pok p -> mut_ok m -> pok (apply_mut p m).
  Proof.
    intros [Hl Hs] Hm. destruct m; simpl in *; unfold pok; simpl; auto.
    - split; auto. apply mem_append_ok; auto.
    - split; auto. apply mem_truncate_ok; auto.
    - split; auto. apply mem_trim_ok; auto.
  Qed.

  Lemma post_do_mut s m : sok s -> mut_ok m -> post (do_mut m s).
  Proof.
    intros [Hp [Hc Hm]] Hk. unfold do_mut.
    destruct (negb (n_budget s =? 0) && (n_budget s =? n_cnt s + 1)); simpl.
    - apply apply_mut_ok; auto.
    - unfold sok. simpl. split; [apply apply_mut_ok; auto | auto].
  Qed.

  (* states that differ from s only in fields sok does not read *)
  Lemma sok_vol s s' : n_p s' = n_p s -> n_conf s' = n_conf s -> n_msgs s' = n_msgs s -> sok s -> sok s'.
  Proof. intros A B C [Hp [Hc Hm]]. unfold sok. rewrite A, B, C. auto. Qed.

  Lemma sok_send s to b :
    sok s -> (match b with AppEnts _ _ _ (Some es) => Forall eok es | InstallSnap _ _ c => cok c | _ => True end) ->
    sok (send s to b).
  Proof.
    intros [Hp [Hc Hm]] Hb. unfold sok, send. simpl. split; auto. split; auto.
    apply Forall_app. split; auto.
  Qed.

  Lemma sok_conf s c : sok s -> ocok c -> sok (set_conf s c).
  Proof. intros [Hp [Hc Hm]] H. unfold sok. simpl. auto. Qed.

  Ltac vol := eapply sok_vol; [reflexivity | reflexivity | reflexivity | eassumption].

  (* ---------------------------------------------------------------- handlers *)
  Lemma post_log_append s es : sok s -> Forall eok es -> post (log_append s es).
  Proof.
    intros Hs He. unfold log_append. apply post_bind; [apply post_do_mut; auto|].
    intros s1 H1. destruct (snd (mem_append (p_log (n_p s)) es)); simpl; auto.
  Qed.

  Lemma post_commit_up_to s i : sok s -> post (commit_up_to s i).
  Proof.
    intro Hs. unfold commit_up_to.
    match goal with |- post (match ?x with _ => _ end) => destruct x end.
    - destruct (negb (sn_index s0 =? i)); simpl; auto; try vol.
    - apply post_bind_pure; [apply pure_log_entries|]. intros ents _.
      match goal with |- post (if ?c then _ else _) => destruct c end; [| simpl; auto; try vol].
      match goal with |- post (match ?x with _ => _ end) => destruct x eqn:E end; simpl; auto.
      apply post_do_mut; [vol | exact I].
  Qed.

  Lemma post_trim_log s i : sok s -> post (trim_log s i).
  Proof.
    intro Hs. unfold trim_log. destruct (log_first (p_log (n_p s))); [| simpl; auto]. destruct (log_last (p_log (n_p s))); [| simpl; auto].
    destruct (i =? n0 - 1); [simpl; auto|]. destruct ((i <? n0) || (n1 <? i)); simpl; auto.
    destruct (i - n0 <? cf_keep (n_cfg s)); [simpl; auto|]. apply post_do_mut; auto. exact I.
  Qed.

  Lemma get_app_ents_ok s p b :
    sok s -> get_app_ents s p = Ret (Some b) ->
    match b with AppEnts _ _ _ (Some es) => Forall eok es | InstallSnap _ _ c => cok c | _ => True end.
  Proof.
    intros [Hp _]. unfold get_app_ents. destruct (negb (pr_next p =? pr_match p + 1)).
    - destruct (st_term (n_p s) (pr_next p - 1)) as [[pt ok] | |]; simpl; try discriminate.
      destruct (negb ok); intro E; inversion E; exact I.
    - destruct (pr_match p =? last_index (n_p s)).
      + destruct (st_term (n_p s) (pr_match p)) as [[pt ok] | |]; simpl; try discriminate.
        destruct (negb ok); intro E; inversion E; exact I.
      + unfold get_log_entries.
        destruct (st_term (n_p s) (pr_match p + 1 - 1)) as [[pt ok] | |]; simpl; try discriminate.
        destruct (negb ok); simpl; [intro E; inversion E|].
        destruct (log_first (p_log (n_p s))); [| simpl; intro E; inversion E].
        destruct (log_last (p_log (n_p s))); [| simpl; intro E; inversion E].
        destruct (pr_match p + 1 <? n0); [simpl; intro E; inversion E|].
        match goal with |- context [if ?c then Fatal _ else _] => destruct c end; [discriminate|].
        destruct (log_entries (n_p s) (pr_match p + 1)
                    (N.min (last_index (n_p s) + 1) (pr_match p + 1 + cf_max_ents (n_cfg s)))) as [es | |] eqn:El;
          simpl; try discriminate.
        intro E. inversion E. subst. eapply log_entries_ok; eauto.
  Qed.

  Lemma post_send_app_ents s p : sok s -> post (send_app_ents s p).
  Proof.
    intro Hs. unfold send_app_ents. apply post_bind_pure; [apply pure_get_app_ents|]. intros ob Hob.
    destruct ob as [b |].
    - simpl. eapply sok_vol; [reflexivity | reflexivity | reflexivity |]. apply sok_send; auto.
      eapply get_app_ents_ok; eauto.
    - destruct (p_snap (n_p s)) eqn:Es; simpl; auto. destruct (sn_conf s0) eqn:Ec; simpl; auto.
      eapply sok_vol; [reflexivity | reflexivity | reflexivity |]. apply sok_send; auto.
      destruct Hs as [[_ Hsn] _]. rewrite Es in Hsn. rewrite Ec in Hsn. exact Hsn.
  Qed.

  Lemma post_for_peers ids f s :
    (forall s1 p, sok s1 -> post (f s1 p)) -> sok s -> post (for_peers ids f s).
  Proof.
    intro Hf. revert s. induction ids as [| id r IH]; intros s Hs; simpl; auto.
    destruct (peer_get id (l_peers s)); auto. apply post_bind; auto.
  Qed.

  Lemma post_leader_commit_up_to s i : sok s -> post (leader_commit_up_to s i).
  Proof.
    intro Hs. unfold leader_commit_up_to. apply post_bind; [apply post_commit_up_to; auto|]. intros s1 H1.
    match goal with |- post (if ?c then _ else _) => destruct c end; simpl; auto; try vol.
  Qed.

  Lemma post_leader_maybe_commit s : sok s -> post (leader_maybe_commit s).
  Proof.
    intro Hs. unfold leader_maybe_commit. apply post_bind_pure; [apply pure_find_majority_index|]. intros mi _.
    destruct (n_commit s <? mi); [| simpl; auto].
    apply post_bind_pure; [apply pure_st_term|]. intros [t ok] _.
    destruct (negb ok); simpl; auto. destruct (negb (t =? p_term (n_p s))); [simpl; auto|].
    apply post_bind; [apply post_leader_commit_up_to; auto|]. intros s1 H1.
    apply post_for_peers; auto. intros s2 p H2. destruct (pr_match p =? last_index (n_p s2)); [apply post_send_app_ents; auto | simpl; auto].
  Qed.

  Lemma post_fold_enter (others : list nid) li : forall (acc : R node),
    post acc ->
    post (fold_left (fun (acc : R node) (m : nid) =>
                       a <- acc ;;
                       let p := mk_peer m (li + 1) 0 false 0 0 in
                       let a1 := set_leader a (l_check a) (peer_set p (l_peers a)) in
                       send_app_ents a1 p) others acc).
  Proof.
    induction others as [| m r IH]; intros acc H; simpl; auto.
    apply IH. apply post_bind; auto. intros s1 H1. apply post_send_app_ents. vol.
  Qed.

  Lemma post_enter_leader s : sok s -> post (enter_leader s).
  Proof.
    intro Hs. unfold enter_leader. destruct (n_conf s); simpl; auto.
    apply post_bind.
    - apply post_fold_enter. simpl. vol.
    - intros s1 H1. destruct (l_peers s1); [apply post_leader_maybe_commit; auto | simpl; auto].
  Qed.

  Lemma post_become_leader s : sok s -> post (become_leader s).
  Proof. intro Hs. unfold become_leader. apply post_enter_leader. vol. Qed.

  Lemma post_tick_leader s : sok s -> post (tick_leader s).
  Proof.
    intro Hs. unfold tick_leader. apply post_bind.
    - apply post_for_peers; auto. intros s2 p H2. destruct (should_send s2 p); [apply post_send_app_ents; auto | simpl; auto].
    - intros s1 H1.
      match goal with |- post (if ?c then _ else _) => destruct c end; [| simpl; auto; try vol].
      apply post_bind_pure; [apply pure_check_quorum_active|]. intros ok _. destruct ok; simpl; auto; try vol.
  Qed.

  Lemma post_handle_app_ents_resp s from su ix hi : sok s -> post (handle_app_ents_resp s from su ix hi).
  Proof.
    intro Hs. unfold handle_app_ents_resp. destruct (peer_get from (l_peers s)); [| simpl; auto].
    destruct (ix <? pr_match p); [simpl; auto|]. destruct (negb su).
    - apply post_send_app_ents. vol.
    - match goal with |- post (if ?c then _ else _) => destruct c end; simpl; auto.
      apply post_bind.
      + match goal with |- post (if ?c then _ else _) => destruct c end; [apply post_send_app_ents; vol | simpl; auto; try vol].
      + intros s2 H2. apply post_leader_maybe_commit; auto.
  Qed.

  Lemma post_leader_propose s es : sok s -> Forall eok es -> post (leader_propose s es).
  Proof.
    intros Hs He. unfold leader_propose. apply post_bind; [apply post_log_append; auto; apply stamp_ok; auto|]. intros s1 H1.
    apply post_bind.
    - apply post_for_peers; auto. intros s3 p H3.
      match goal with |- post (if ?c then _ else _) => destruct c end; [apply post_send_app_ents; auto | simpl; auto].
    - intros s2 H2. destruct (l_peers s2); [apply post_leader_maybe_commit; auto | simpl; auto].
  Qed.

  Lemma post_handle_leader s m : sok s -> post (handle_leader s m).
  Proof.
    intro Hs. unfold handle_leader.
    destruct (m_body m); simpl; auto; try (apply post_handle_app_ents_resp; auto; fail); try (apply sok_send; auto; fail).
  Qed.

  Lemma post_check_if_elected s : sok s -> post (check_if_elected s).
  Proof.
    intro Hs. unfold check_if_elected. destruct (n_conf s); simpl; auto.
    destruct (quorum m <=? N.of_nat (length (c_votes s))); [apply post_become_leader; auto | simpl; auto].
  Qed.

  Lemma fold_send_sok (ms : list nid) b :
    (match b with AppEnts _ _ _ (Some es) => Forall eok es | InstallSnap _ _ c => cok c | _ => True end) ->
    forall s, sok s -> sok (fold_left (fun a m => if m =? n_id a then a else send a m b) ms s).
  Proof.
    intro Hb. induction ms as [| m r IH]; intros s Hs; simpl; auto.
    destruct (m =? n_id s); [apply IH; auto|]. apply IH. apply sok_send; auto.
  Qed.

  Lemma post_enter_candidate s : sok s -> post (enter_candidate s).
  Proof.
    intro Hs. unfold enter_candidate.
    match goal with |- post (if ?c then _ else _) => destruct c end; [simpl; auto; try vol|].
    apply post_bind; [apply post_do_mut; [vol | exact I]|]. intros s1 H1.
    set (s2 := if in_latest_conf s1 then set_candidate s1 (c_timeout s1) (set_add (n_id s1) (c_votes s1)) else s1).
    assert (H2 : sok s2) by (unfold s2; destruct (in_latest_conf s1); [vol | auto]).
    apply post_bind_pure; [apply pure_st_term|]. intros [lt ok] _.
    destruct (negb ok); simpl; auto. destruct (n_conf s2); simpl; auto.
    apply post_check_if_elected.
    eapply sok_vol; [reflexivity | reflexivity | reflexivity |]. apply fold_send_sok; auto.
  Qed.

  Lemma post_become_candidate s : sok s -> post (become_candidate s).
  Proof. intro Hs. unfold become_candidate. apply post_enter_candidate. vol. Qed.

  Lemma post_handle_candidate s m : sok s -> post (handle_candidate s m).
  Proof.
    intro Hs. unfold handle_candidate.
    destruct (m_body m) as [? ? ? ? | ? ? ? | ? ? | g | ? ? ?]; simpl; auto; try vol; try (apply sok_send; auto; fail).
    destruct g; [apply post_check_if_elected; vol | simpl; auto].
  Qed.

  Lemma post_follower_maybe_commit s lc mi : sok s -> post (follower_maybe_commit s lc mi).
  Proof. intro Hs. unfold follower_maybe_commit. destruct (n_commit s <? N.min mi lc); [apply post_commit_up_to; auto | simpl; auto]. Qed.

  Lemma fold_conf_sok (app : list entry) : Forall eok app -> forall s, sok s ->
    sok (fold_left (fun a e => if e_type e =? EntryConf then set_conf a (decode_conf e) else a) app s).
  Proof.
    induction 1 as [| e r He Hr IH]; intros s Hs; simpl; auto.
    destruct (e_type e =? EntryConf); [| apply IH; auto]. apply IH. apply sok_conf; auto.
  Qed.

  Lemma skipn_forall {A} (P : A -> Prop) k l : Forall P l -> Forall P (skipn k l).
  Proof. revert l. induction k; intros l H; simpl; auto. destruct l; auto. inversion H; auto. Qed.

  Lemma post_handle_app_ents s from pi pt cm oes :
    sok s -> match oes with Some es => Forall eok es | None => True end ->
    post (handle_app_ents s from pi pt cm oes).
  Proof.
    intros Hs He. unfold handle_app_ents.
    assert (H0 : sok (set_follower_contact s)) by vol.
    set (s0 := set_follower_contact s) in *.
    apply post_bind_pure; [apply pure_has_entry|]. intros ok _.
    destruct (negb ok); [simpl; apply sok_send; auto|].
    destruct oes as [ents |].
    2: { apply post_follower_maybe_commit. apply sok_send; auto. }
    apply post_bind_pure; [apply pure_conflict_index|]. intros [ci any] _.
    apply post_bind.
    - destruct any; [| simpl; auto]. apply post_bind; [apply post_do_mut; auto; exact I|]. intros s' H'.
      destruct (n_conf s'); [| simpl; auto]. destruct (ci <=? mb_index m); simpl; auto.
      apply sok_conf; auto. apply init_latest_conf_ok. destruct H' as [Hp _]. exact Hp.
    - intros s1 H1.
      destruct (last_ent_index ents <=? last_index (n_p s1)).
      + apply post_follower_maybe_commit. apply sok_send; auto.
      + destruct ents as [| e0 r]; simpl; auto.
        match goal with |- post (if ?c then _ else _) => destruct c end; simpl; auto.
        match goal with |- post (match ?x with _ => _ end) => destruct x as [| a0 ar] eqn:Eapp end; simpl; auto.
        match goal with |- post (if ?c then _ else _) => destruct c end; simpl; auto.
        assert (Happ : Forall eok (a0 :: ar)).
        { rewrite <- Eapp. apply skipn_forall. exact He. }
        apply post_bind.
        * apply post_log_append; auto. apply (fold_conf_sok (a0 :: ar) Happ s1 H1).
        * intros s3 H3. apply post_follower_maybe_commit. apply sok_send; auto.
  Qed.

  Lemma post_handle_snapshot s from li lt c : sok s -> cok c -> post (handle_snapshot s from li lt c).
  Proof.
    intros Hs Hc. unfold handle_snapshot.
    assert (H0 : sok (set_follower_contact s)) by vol.
    set (s0 := set_follower_contact s) in *.
    match goal with |- post (match ?x with _ => _ end) => destruct x end; [simpl; apply sok_send; auto|].
    apply post_bind; [apply post_do_mut; auto; simpl; exact Hc|]. intros s1 H1.
    apply post_bind_pure; [apply pure_in_log|]. intros il _.
    apply post_bind.
    - destruct il; [apply post_trim_log; auto|]. apply post_bind; [apply post_do_mut; auto; exact I|].
      intros s' H'. simpl. apply sok_conf; auto.
    - intros s2 H2. apply post_bind.
      + destruct (n_commit s2 <? li); [apply post_commit_up_to; auto | simpl; auto].
      + intros s3 H3. simpl. apply sok_send; auto.
  Qed.

  Lemma post_follower_note_leader s from : sok s -> post (follower_note_leader s from).
  Proof.
    intro Hs. unfold follower_note_leader. apply post_bind.
    - destruct (p_vote (n_p s) =? 0); [apply post_do_mut; auto; exact I | simpl; auto].
    - intros s1 H1. destruct (n_leader s1 =? 0); [simpl; auto; try vol|]. destruct (negb (n_leader s1 =? from)); simpl; auto.
  Qed.

  Lemma post_handle_follower s m : sok s -> mok m -> post (handle_follower s m).
  Proof.
    intros Hs Hm. unfold handle_follower. unfold mok in Hm. destruct (m_body m); simpl; auto.
    - apply post_bind; [apply post_follower_note_leader; auto|]. intros s1 H1. apply post_handle_app_ents; auto.
    - apply post_bind_pure; [apply pure_can_grant_vote|]. intros g _. apply post_bind.
      + destruct g; [apply post_do_mut; auto; exact I | simpl; auto].
      + intros s1 H1. simpl. apply sok_send; auto.
    - apply post_bind; [apply post_follower_note_leader; auto|]. intros s1 H1. apply post_handle_snapshot; auto.
  Qed.

  Lemma post_handle_by_role s m : sok s -> mok m -> post (handle_by_role s m).
  Proof.
    intros Hs Hm. unfold handle_by_role. destruct (n_role s);
      [apply post_handle_follower; auto | apply post_handle_candidate; auto | apply post_handle_leader; auto].
  Qed.

  Lemma post_handle_msg s m : sok s -> mok m -> post (handle_msg s m).
  Proof.
    intros Hs Hm. unfold handle_msg.
    match goal with |- post (if ?c then _ else _) => destruct c end; [simpl; auto|].
    match goal with |- post (if ?c then _ else _) => destruct c end; [simpl; auto|].
    apply post_bind.
    - match goal with |- post (if ?c then _ else _) => destruct c end; [apply post_do_mut; auto; exact I | simpl; auto].
    - intros s1 H1.
      match goal with |- post (if ?c then _ else _) => destruct c end; [simpl; auto|].
      destruct (m_term m <? p_term (n_p s1)); [simpl; auto|].
      apply post_bind; [| intros; apply post_handle_by_role; auto].
      destruct (p_term (n_p s1) <? m_term m); [| simpl; auto].
      destruct (m_body m); simpl; auto;
        (apply post_bind; [apply post_do_mut; auto; exact I | intros s' H'; simpl; auto; try vol]).
  Qed.

  Lemma post_tick s : sok s -> post (tick s).
  Proof.
    intro Hs. unfold tick.
    assert (H0 : sok (set_elapsed s ((n_elapsed s + 1) mod 4294967296))) by vol.
    set (s0 := set_elapsed s ((n_elapsed s + 1) mod 4294967296)) in *.
    destruct (n_role s0).
    - match goal with |- post (if ?c then _ else _) => destruct c end; [apply post_become_candidate; auto | simpl; auto].
    - match goal with |- post (if ?c then _ else _) => destruct c end; [apply post_become_candidate; auto | simpl; auto].
    - apply post_tick_leader; auto.
  Qed.

  Lemma post2_propose s es : sok s -> Forall eok es -> post2 (propose s es).
  Proof.
    intros Hs He. unfold propose. destruct (n_role s); simpl; auto.
    apply post2_of_post. apply post_leader_propose; auto.
  Qed.

  Lemma encode_decode_cok ms ep e :
    length ms = n -> e = {| e_term := 1; e_index := 1; e_type := EntryConf;
                            e_pl := encode_conf {| mb_members := ms; mb_epoch := ep; mb_index := 1; mb_term := 1 |} |} ->
    eok e.
  Proof.
    intros H E. subst e. unfold eok, decode_conf. simpl. try rewrite N.eqb_refl. simpl. unfold cok. simpl.
    rewrite map_length, map_length. exact H.
  Qed.

  Lemma post2_propose_initial s ms ep : sok s -> length ms = n -> post2 (propose_initial_membership s ms ep).
  Proof.
    intros Hs Hl. unfold propose_initial_membership.
    destruct (n_role s); try (simpl; exact Hs).
    destruct (is_clean (n_p s)); [| simpl; exact Hs].
    assert (He : eok {| e_term := 1; e_index := 1; e_type := EntryConf;
                        e_pl := encode_conf {| mb_members := ms; mb_epoch := ep; mb_index := 1; mb_term := 1 |} |})
      by (eapply encode_decode_cok; [exact Hl | reflexivity]).
    apply post2_bind; [apply post_do_mut; auto; exact I|]. intros s1 H1.
    apply post2_bind; [apply post_log_append; auto|]. intros s2 H2.
    simpl. apply sok_conf; auto.
  Qed.

  Lemma post_snapshot_done s m : sok s -> ocok (sn_conf m) -> post (snapshot_done s m).
  Proof.
    intros Hs Hm. unfold snapshot_done.
    match goal with |- post (if ?c then _ else _) => destruct c end; [simpl; auto|].
    apply post_bind; [apply post_do_mut; auto | intros; apply post_trim_log; auto].
  Qed.

  Lemma post_reconcile s : sok s -> post (reconcile s).
  Proof.
    intro Hs. unfold reconcile.
    destruct (p_snap (n_p s)); simpl; auto. destruct (log_first (p_log (n_p s))); simpl; auto.
    destruct (log_last (p_log (n_p s))); simpl; auto.
    match goal with |- post (if ?c then _ else _) => destruct c end; [apply post_do_mut; auto; exact I|].
    match goal with |- post (if ?c then _ else _) => destruct c end; simpl; auto.
    apply post_bind_pure; [apply pure_log_term|]. intros t _.
    destruct (negb (t =? sn_term s0)); [apply post_do_mut; auto; exact I | simpl; auto].
  Qed.

  Lemma post_new_core id cfg p : pok p -> post (new_core id cfg p).
  Proof.
    intro Hp. unfold new_core.
    assert (Hb : sok (blank_node id cfg p)).
    { unfold sok. simpl. split; auto. }
    apply post_bind; [apply post_reconcile; exact Hb|]. intros r Hr.
    assert (Hp1 : pok (n_p r)) by (destruct Hr; auto).
    assert (H0 : sok (set_conf (blank_node id cfg (n_p r)) (init_latest_conf (n_p r)))).
    { unfold sok. simpl. split; auto. split; [apply init_latest_conf_ok; auto | constructor]. }
    apply post_bind.
    - destruct (p_snap (n_p r)); [apply post_commit_up_to; auto | simpl; auto].
    - intros s1 H1. simpl. vol.
  Qed.

  (* ---------------------------------------------------------------- events *)
  Definition evok (ev : event) : Prop :=
    match ev with
    | EBootstrap ms _ => length ms = n
    | EDeliver m => mok m
    | EPropose es => Forall eok es
    | EAddNode _ _ => False
    | ERemoveNode _ => False
    | ESnapDone m => ocok (sn_conf m)
    | _ => True
    end.

  Lemma sok_settle s : sok s -> sok (settle s).
  Proof. intros [Hp [Hc Hm]]. unfold sok. simpl. auto. Qed.

  Lemma sok_budget s k : sok s -> sok (with_budget s k).
  Proof. intros [Hp [Hc Hm]]. unfold sok. simpl. auto. Qed.

  Theorem run_event_conf s ev : sok s -> evok ev -> post2 (run_event s ev).
  Proof.
    intros Hs He. destruct ev; simpl in *; try contradiction.
    - apply post2_propose_initial; auto.
    - unfold wrap0. apply post2_of_post. apply post_handle_msg; auto.
    - unfold wrap0. apply post2_of_post. apply post_tick; auto.
    - apply post2_propose; auto.
    - unfold wrap0. apply post2_of_post. apply post_snapshot_done; auto.
    - unfold wrap0. apply post2_of_post. apply post_new_core. destruct Hs; auto.
  Qed.

  Theorem run_event_crash_conf s ev k crashed st s' :
    sok s -> evok ev -> run_event_crash (settle s) ev k = Ret (crashed, st, s') -> sok s'.
  Proof.
    intros Hs He. unfold run_event_crash.
    pose proof (run_event_conf (with_budget (settle s) k) ev (sok_budget _ _ (sok_settle _ Hs)) He) as P.
    destruct (run_event (with_budget (settle s) k) ev) as [[st0 x] | c | p]; simpl in *; try discriminate.
    - intro H. inversion H. subst. apply sok_budget. exact P.
    - intro H. simpl in H. pose proof (post_new_core (n_id s) (n_cfg s) p P) as Q.
      destruct (new_core (n_id s) (n_cfg s) p); simpl in *; try discriminate.
      inversion H. subst. exact Q.
  Qed.
End Conf.
