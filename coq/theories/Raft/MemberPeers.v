(* Raft/MemberPeers.v — round 7 (d): the acks a leader counts come from members of its current configuration.

   find_majority_index counts the leader's own last index (only if it is a member of its configuration) and pr_match of
   the peers in l_peers.  Here: the ids of l_peers of a leader are exactly the members of n_conf minus the leader itself
   (peers_ok) — established by enterLeader, preserved by every leader handler (they only overwrite existing peers),
   moved together with n_conf by an accepted AddNode (peer added) / RemoveNode (peer deleted); all events, crash variants. *)
From Coq Require Import List NArith ZArith Bool Lia ZifyN ZifyNat ZifyBool.
From BLB Require Import Raft.Core Raft.NodeProofs Raft.NodeKeep Raft.NodeKeepV Raft.NodeElect Raft.MembershipQuorum
  Raft.MemberNode Raft.MemberConfStep.
Import ListNotations.
Open Scope N_scope.

Definition pf (s s' : node) : Prop := forall id, In id (peer_ids s') <-> In id (peer_ids s).
Lemma pf_refl s : pf s s. Proof. intro id. tauto. Qed.
Lemma pf_trans a b c : pf a b -> pf b c -> pf a c.
Proof. intros H1 H2 id. rewrite (H2 id). apply H1. Qed.

Definition ptx (s : node) (r : R node) : Prop := match r with Ret s' => pf s s' | _ => True end.

Lemma ptx_bind s (a : R node) (f : node -> R node) :
  ptx s a -> (forall s1, ptx s1 (f s1)) -> ptx s (bind a f).
Proof.
  intros Ha Hf. destruct a as [s1 | c | p]; simpl in *; auto.
  specialize (Hf s1). destruct (f s1); simpl in *; auto. eapply pf_trans; eauto.
Qed.

Lemma ptx_bind_pure {A} s (a : R A) (f : A -> R node) :
  (forall x, a = Ret x -> ptx s (f x)) -> ptx s (bind a f).
Proof. intros Hf. destruct a; simpl in *; auto. Qed.

Lemma ptx_pre s s' r : pf s s' -> ptx s' r -> ptx s r.
Proof. intros H K. destruct r; simpl in *; auto. eapply pf_trans; eauto. Qed.

Ltac pleaf := simpl; unfold pf, peer_ids; simpl; intros; tauto.

(* ---------------------------------------------------------------- the peer table *)
Lemma peer_set_ids q l id : In id (map pr_id (peer_set q l)) <-> id = pr_id q \/ In id (map pr_id l).
Proof.
  induction l as [| p r IH]; simpl; [intuition|].
  destruct (pr_id q =? pr_id p) eqn:E; simpl.
  - apply N.eqb_eq in E. rewrite E. intuition.
  - destruct (pr_id q <? pr_id p); simpl; [intuition|]. rewrite IH. intuition.
Qed.

Lemma peer_get_some id l p : peer_get id l = Some p -> pr_id p = id /\ In id (map pr_id l).
Proof.
  induction l as [| x r IH]; simpl; [discriminate|].
  destruct (pr_id x =? id) eqn:E.
  - intro H. inversion H. subst. apply N.eqb_eq in E. auto.
  - intro H. destruct (IH H). auto.
Qed.

Lemma peer_del_ids x l id : In id (map pr_id (peer_del x l)) <-> In id (map pr_id l) /\ id <> x.
Proof.
  unfold peer_del. rewrite !in_map_iff. split.
  - intros [p [E H]]. apply filter_In in H. destruct H as [H1 H2]. apply negb_true_iff, N.eqb_neq in H2.
    split; [exists p; auto | congruence].
  - intros [[p [E H]] Hn]. exists p. split; [exact E|]. apply filter_In. split; [exact H|].
    apply negb_true_iff, N.eqb_neq. congruence.
Qed.

Lemma pf_overwrite s s' q :
  l_peers s' = peer_set q (l_peers s) -> In (pr_id q) (peer_ids s) -> pf s s'.
Proof.
  intros E Hin id. unfold peer_ids in *. rewrite E, peer_set_ids. split; [| auto]. intros [H | H]; [subst; auto | auto].
Qed.

(* ---------------------------------------------------------------- handlers that keep the id set *)
Lemma ptx_do_mut s m : ptx s (do_mut m s).
Proof. unfold do_mut. destruct (negb (n_budget s =? 0) && (n_budget s =? n_cnt s + 1)); simpl; auto. pleaf. Qed.

Lemma ptx_log_append s es : ptx s (log_append s es).
Proof.
  unfold log_append. apply ptx_bind; [apply ptx_do_mut|].
  intros s1. destruct (snd (mem_append (p_log (n_p s)) es)); simpl; auto using pf_refl.
Qed.

Lemma ptx_commit_up_to s i : ptx s (commit_up_to s i).
Proof.
  unfold commit_up_to.
  match goal with |- ptx s (match ?x with _ => _ end) => destruct x end.
  - destruct (negb (sn_index s0 =? i)); simpl; auto. pleaf.
  - apply ptx_bind_pure. intros ents _.
    match goal with |- ptx s (if ?c then _ else _) => destruct c end; [| pleaf].
    match goal with |- ptx s (match ?x with _ => _ end) => destruct x eqn:E end; simpl; auto.
    eapply ptx_pre; [| apply ptx_do_mut]. pleaf.
Qed.

Lemma ptx_send_app_ents s p : In (pr_id p) (peer_ids s) -> ptx s (send_app_ents s p).
Proof.
  intro Hin. unfold send_app_ents. apply ptx_bind_pure. intros ob _.
  destruct ob as [b |].
  - simpl. eapply pf_overwrite; [simpl; reflexivity | exact Hin].
  - destruct (p_snap (n_p s)); simpl; auto. destruct (sn_conf s0); simpl; auto.
    eapply pf_overwrite; [simpl; reflexivity | exact Hin].
Qed.

Lemma ptx_for_peers ids f s :
  (forall s1 p, In (pr_id p) (peer_ids s1) -> ptx s1 (f s1 p)) -> ptx s (for_peers ids f s).
Proof.
  intro Hf. revert s. induction ids as [| id r IH]; intros s; simpl.
  - apply pf_refl.
  - destruct (peer_get id (l_peers s)) as [p |] eqn:E; auto. apply ptx_bind; auto.
    apply Hf. apply peer_get_some in E. destruct E as [E1 E2]. rewrite E1. exact E2.
Qed.

Lemma ptx_leader_commit_up_to s i : ptx s (leader_commit_up_to s i).
Proof.
  unfold leader_commit_up_to. apply ptx_bind; [apply ptx_commit_up_to|]. intros s1.
  match goal with |- ptx s1 (if ?c then _ else _) => destruct c end; pleaf.
Qed.

Lemma ptx_leader_maybe_commit s : ptx s (leader_maybe_commit s).
Proof.
  unfold leader_maybe_commit. apply ptx_bind_pure. intros mi _.
  destruct (n_commit s <? mi); [| pleaf].
  apply ptx_bind_pure. intros [t ok] _.
  destruct (negb ok); simpl; auto. destruct (negb (t =? p_term (n_p s))); [pleaf|].
  apply ptx_bind; [apply ptx_leader_commit_up_to|]. intros s1.
  apply ptx_for_peers. intros s2 p Hp. destruct (pr_match p =? last_index (n_p s2)); [apply ptx_send_app_ents; exact Hp | pleaf].
Qed.

Lemma ptx_tick_leader s : ptx s (tick_leader s).
Proof.
  unfold tick_leader. apply ptx_bind.
  - apply ptx_for_peers. intros s2 p Hp. destruct (should_send s2 p); [apply ptx_send_app_ents; exact Hp | pleaf].
  - intros s1.
    match goal with |- ptx s1 (if ?c then _ else _) => destruct c end; [| pleaf].
    apply ptx_bind_pure. intros ok _. destruct ok; pleaf.
Qed.

Lemma ptx_handle_app_ents_resp s from su ix hi : ptx s (handle_app_ents_resp s from su ix hi).
Proof.
  unfold handle_app_ents_resp. destruct (peer_get from (l_peers s)) as [p |] eqn:E; [| pleaf].
  apply peer_get_some in E. destruct E as [E1 E2]. fold (peer_ids s) in E2.
  destruct (ix <? pr_match p); [pleaf|]. destruct (negb su).
  - eapply ptx_pre; [| apply ptx_send_app_ents].
    + eapply pf_overwrite; [simpl; reflexivity | simpl; rewrite E1; exact E2].
    + unfold peer_ids. simpl. apply peer_set_ids. left. reflexivity.
  - match goal with |- ptx s (if ?c then _ else _) => destruct c end; simpl; auto.
    match goal with |- ptx s (bind (if _ then send_app_ents ?x ?q else _) _) =>
      assert (P1 : pf s x) by (eapply pf_overwrite; [simpl; reflexivity | simpl; rewrite E1; exact E2]);
      assert (Q1 : In (pr_id q) (peer_ids x)) by (unfold peer_ids; simpl; apply peer_set_ids; left; reflexivity) end.
    apply ptx_bind.
    + match goal with |- ptx s (if ?c then _ else _) => destruct c end.
      * eapply ptx_pre; [exact P1 | apply ptx_send_app_ents; exact Q1].
      * exact P1.
    + intros s2. apply ptx_leader_maybe_commit.
Qed.

Lemma ptx_leader_propose s es : ptx s (leader_propose s es).
Proof.
  unfold leader_propose. apply ptx_bind; [apply ptx_log_append|]. intros s1.
  apply ptx_bind.
  - apply ptx_for_peers. intros s3 p Hp.
    match goal with |- ptx s3 (if ?c then _ else _) => destruct c end; [apply ptx_send_app_ents; exact Hp | pleaf].
  - intros s2. destruct (l_peers s2); [apply ptx_leader_maybe_commit | pleaf].
Qed.

(* ---------------------------------------------------------------- enterLeader builds the table from the configuration *)
Definition ids_ok (s : node) : Prop := forall id, In id (peer_ids s) <-> (memb_of s id /\ id <> n_id s).

Definition idsR (r : R node) (P : nid -> Prop) : Prop :=
  match r with Ret s => forall id, In id (peer_ids s) <-> P id | _ => True end.

Lemma fold_enter_ids li (others : list nid) : forall (acc : R node) (P : nid -> Prop), idsR acc P ->
  idsR (fold_left (fun (acc : R node) (m : nid) =>
                     a <- acc ;;
                     let p := mk_peer m (li + 1) 0 false 0 0 in
                     let a1 := set_leader a (l_check a) (peer_set p (l_peers a)) in
                     send_app_ents a1 p) others acc) (fun id => P id \/ In id others).
Proof.
  induction others as [| m r IH]; intros acc P H; simpl.
  - destruct acc; simpl in *; auto. intro id. rewrite H. tauto.
  - match goal with |- idsR (fold_left _ r ?acc1) _ =>
      assert (H1 : idsR acc1 (fun id => P id \/ id = m)) end.
    { destruct acc as [a | |]; simpl in *; auto.
      match goal with |- idsR (send_app_ents ?a1 ?p) _ =>
        pose proof (ptx_send_app_ents a1 p) as K; destruct (send_app_ents a1 p) as [a2 | |]; simpl in *; auto end.
      assert (Hin : In m (peer_ids (set_leader a (l_check a) (peer_set (mk_peer m (li + 1) 0 false 0 0) (l_peers a))))).
      { unfold peer_ids. simpl. apply peer_set_ids. left. reflexivity. }
      intro id. rewrite (K Hin id). unfold peer_ids. simpl. rewrite peer_set_ids. simpl.
      fold (peer_ids a). rewrite (H id). split; intros [X | X]; auto. }
    specialize (IH _ _ H1). destruct (fold_left _ r _); simpl in *; auto.
    intro id. rewrite (IH id). intuition congruence.
Qed.

Lemma enter_leader_ids s s' : enter_leader s = Ret s' ->
  exists c, n_conf s = Some c /\ forall id, In id (peer_ids s') <-> (In id (mb_members c) /\ id <> n_id s).
Proof.
  unfold enter_leader. destruct (n_conf s) as [c |]; [| discriminate]. cbv zeta.
  match goal with |- bind (fold_left ?f ?others (Ret ?s0)) _ = _ -> _ =>
    pose proof (fold_enter_ids (last_index (n_p s)) others (Ret s0) (fun _ => False)) as K;
    destruct (fold_left f others (Ret s0)) as [s1 | |]; simpl; try discriminate end.
  assert (K1 : forall id, In id (peer_ids s1) <-> (In id (mb_members c) /\ id <> n_id s)).
  { simpl in K. intro id. rewrite (K ltac:(intro x; unfold peer_ids; simpl; tauto) id).
    rewrite filter_In, negb_true_iff, N.eqb_neq. tauto. }
  intro H. exists c. split; [reflexivity|].
  destruct (l_peers s1) eqn:El.
  - pose proof (ptx_leader_maybe_commit s1) as K2. rewrite H in K2. simpl in K2. intro id. rewrite (K2 id). apply K1.
  - inversion H. subst. exact K1.
Qed.

Lemma check_if_elected_P x s' : check_if_elected x = Ret s' -> s' = x \/ ids_ok s'.
Proof.
  unfold check_if_elected. destruct (n_conf x) as [c |] eqn:Ec; [| discriminate].
  destruct (quorum c <=? N.of_nat (length (c_votes x))).
  - unfold become_leader. intro H. right.
    pose proof (kx_enter_leader (set_role x Leader (n_id x) 0)) as K. rewrite H in K. simpl in K.
    pose proof (cfx_enter_leader (set_role x Leader (n_id x) 0)) as C. rewrite H in C. simpl in C. unfold cf in C. simpl in C.
    destruct (enter_leader_ids _ _ H) as [c0 [E0 I0]]. simpl in E0, I0.
    destruct K as [_ [_ [Hid _]]]. simpl in Hid.
    intro id. rewrite (I0 id). rewrite Hid. unfold memb_of. rewrite C. split.
    + intros [A B]. split; [exists c0; auto | exact B].
    + intros [[c1 [A1 A2]] B]. split; [congruence | exact B].
  - intro H. inversion H. auto.
Qed.

(* ---------------------------------------------------------------- the shape of HandleMsg *)
Definition n_p_term_same (s s1 : node) : Prop := p_term (n_p s1) = p_term (n_p s) /\ p_log (n_p s1) = p_log (n_p s).
Definition lsame (s s1 : node) : Prop :=
  l_peers s1 = l_peers s /\ n_role s1 = n_role s /\ n_conf s1 = n_conf s /\ n_id s1 = n_id s /\ n_msgs s1 = n_msgs s /\
  n_commit s1 = n_commit s /\ n_p_term_same s s1.

Lemma handle_msg_shape s m s' :
  n_msgs s = [] -> handle_msg s m = Ret s' ->
  lsame s s' \/ (n_role s' = Follower /\ (p_term (n_p s) < p_term (n_p s') \/ n_role s = Follower)) \/
  (exists s1, lsame s s1 /\ n_role s1 = Candidate /\ handle_candidate s1 m = Ret s') \/
  (exists s1, lsame s s1 /\ n_role s1 = Leader /\ handle_leader s1 m = Ret s').
Proof.
  intros Hm. unfold handle_msg.
  destruct ((negb (m_to m =? 0) && negb (m_to m =? n_id s)) || (negb (m_tog m =? 0) && negb (m_tog m =? p_guid (n_p s)))).
  { intro H. inversion H. left. unfold lsame, n_p_term_same. repeat split; reflexivity. }
  destruct (negb (guid_get (m_from m) (p_guids (n_p s)) =? 0) && negb (guid_get (m_from m) (p_guids (n_p s)) =? m_fromg m)).
  { intro H. inversion H. left. unfold lsame, n_p_term_same. repeat split; reflexivity. }
  assert (H1 : forall s1, (if guid_get (m_from m) (p_guids (n_p s)) =? 0 then do_mut (MSetGuid (m_from m) (m_fromg m)) s else Ret s) = Ret s1 ->
               lsame s s1).
  { intros s1. destruct (guid_get (m_from m) (p_guids (n_p s)) =? 0).
    - unfold do_mut. destruct (negb (n_budget s =? 0) && (n_budget s =? n_cnt s + 1)); [discriminate|].
      intro E. inversion E. unfold lsame, n_p_term_same. simpl. repeat split; reflexivity.
    - intro E. inversion E. subst. unfold lsame, n_p_term_same. repeat split; reflexivity. }
  destruct (if guid_get (m_from m) (p_guids (n_p s)) =? 0 then do_mut (MSetGuid (m_from m) (m_fromg m)) s else Ret s) as [s1 | |];
    simpl; try discriminate.
  pose proof (H1 s1 eq_refl) as L1.
  match goal with |- (if ?c then _ else _) = _ -> _ => destruct c end.
  { intro H. inversion H. subst. left. exact L1. }
  destruct (m_term m <? p_term (n_p s1)).
  { intro H. inversion H. subst. left. exact L1. }
  assert (M1 : n_msgs s1 = []) by (destruct L1 as [_ [_ [_ [_ [X _]]]]]; congruence).
  destruct (p_term (n_p s1) <? m_term m) eqn:Ehi.
  - apply N.ltb_lt in Ehi. assert (H2 : forall s2,
               (match m_body m with
                | AppEnts _ _ _ _ | InstallSnap _ _ _ =>
                    s'0 <- do_mut (MSaveState (m_from m) (m_term m)) s1 ;; Ret (become_follower s'0 (m_from m))
                | VoteReq _ _ => s'0 <- do_mut (MSaveState 0 (m_term m)) s1 ;; Ret (become_follower s'0 0)
                | _ => Fatal F_RESP_HIGHER_TERM
                end) = Ret s2 -> n_msgs s2 = [] /\ n_role s2 = Follower /\ p_term (n_p s2) = m_term m).
    { intros s2. destruct (m_body m); try discriminate;
        unfold do_mut; destruct (negb (n_budget s1 =? 0) && (n_budget s1 =? n_cnt s1 + 1)); simpl; try discriminate;
        intro X; inversion X; simpl; repeat split; congruence. }
    match goal with |- bind ?a _ = _ -> _ => destruct a as [s2 | |] end; simpl; try discriminate.
    destruct (H2 s2 eq_refl) as [M2 [R2 T2]].
    unfold handle_by_role. rewrite R2. intro H. apply handle_follower_sum in H; auto.
    destruct H as [_ [Ht [_ [T _]]]]. right. left. split; [destruct T; congruence|]. left.
    destruct L1 as [_ [_ [_ [_ [_ [_ [X _]]]]]]]. rewrite Ht, T2, <- X. exact Ehi.
  - simpl. unfold handle_by_role. destruct (n_role s1) eqn:Er.
    + intro H. apply handle_follower_sum in H; auto.
      destruct H as [_ [_ [_ [T _]]]]. right. left. split; [destruct T; congruence|]. right.
      destruct L1 as [_ [X _]]. congruence.
    + intro H. right. right. left. exists s1. auto.
    + intro H. right. right. right. exists s1. auto.
Qed.

Lemma handle_msg_leader_pf s m s' :
  n_msgs s = [] -> handle_msg s m = Ret s' -> n_role s = Leader -> n_role s' = Leader -> pf s s'.
Proof.
  intros Hm H Hr Hr'. destruct (handle_msg_shape s m s' Hm H) as [L | [[F _] | [[s1 [L [R _]]] | [s1 [L [R Hl]]]]]].
  - destruct L as [L _]. intro id. unfold peer_ids. rewrite L. tauto.
  - congruence.
  - destruct L as [_ [L _]]. congruence.
  - assert (P1 : pf s s1) by (destruct L as [L _]; intro id; unfold peer_ids; rewrite L; tauto).
    apply (pf_trans _ _ _ P1). revert Hl. unfold handle_leader. destruct (m_body m).
    + discriminate.
    + intro X. pose proof (ptx_handle_app_ents_resp s1 (m_from m) success index hint) as K. rewrite X in K. exact K.
    + intro X. inversion X. subst. pleaf.
    + intro X. inversion X. subst. apply pf_refl.
    + discriminate.
Qed.

Lemma handle_msg_elected s m s' :
  n_msgs s = [] -> handle_msg s m = Ret s' -> n_role s <> Leader -> n_role s' = Leader -> ids_ok s'.
Proof.
  intros Hm H Hr Hr'. destruct (handle_msg_shape s m s' Hm H) as [L | [[F _] | [[s1 [L [R Hc]]] | [s1 [L [R Hl]]]]]].
  - destruct L as [_ [L _]]. congruence.
  - congruence.
  - revert Hc. unfold handle_candidate. destruct (m_body m).
    + intro X. inversion X. subst. simpl in Hr'. discriminate.
    + discriminate.
    + intro X. inversion X. subst. simpl in Hr'. congruence.
    + destruct granted.
      * intro X. apply check_if_elected_P in X. destruct X as [X | X]; [| exact X].
        subst s'. simpl in Hr'. congruence.
      * intro X. inversion X. subst. congruence.
    + intro X. inversion X. subst. simpl in Hr'. discriminate.
  - destruct L as [_ [L _]]. congruence.
Qed.

(* ---------------------------------------------------------------- Tick: a candidacy that wins at once *)
Lemma enter_candidate_P x s' :
  enter_candidate x = Ret s' -> n_role x <> Leader -> n_role s' = Leader -> ids_ok s'.
Proof.
  intros H Hr Hr'. revert H. unfold enter_candidate.
  destruct (negb (in_latest_conf x) && latest_conf_committed x).
  { intro H. inversion H. subst. simpl in Hr'. discriminate. }
  unfold do_mut at 1. simpl.
  destruct (negb (n_budget x =? 0) && (n_budget x =? n_cnt x + 1)); simpl; [discriminate|].
  match goal with |- context [bind (st_term (n_p ?s2) _) _] => set (x2 := s2) end.
  assert (R2 : n_role x2 = n_role x).
  { unfold x2. match goal with |- context [if ?c then _ else _] => destruct c end; reflexivity. }
  destruct (st_term (n_p x2) (last_index (n_p x2))) as [[lt ok] | |]; simpl; try discriminate.
  destruct (negb ok); [discriminate|].
  destruct (n_conf x2) as [c |] eqn:Ec; [| discriminate].
  intro H. apply check_if_elected_P in H. destruct H as [H | H]; [| exact H].
  exfalso. subst s'. simpl in Hr'.
  destruct (fold_send_keep (mb_members c) (VoteReq (last_index (n_p x2)) lt) ltac:(discriminate) x2) as [K3 _].
  destruct K3 as [_ [_ [_ [_ [R3 _]]]]]. destruct R3 as [R3 | R3]; congruence.
Qed.

Lemma tick_elected s s' : tick s = Ret s' -> n_role s <> Leader -> n_role s' = Leader -> ids_ok s'.
Proof.
  intros H Hr Hr'. revert H. unfold tick.
  set (s0 := set_elapsed s ((n_elapsed s + 1) mod 4294967296)).
  assert (R0 : n_role s0 = n_role s) by reflexivity.
  destruct (n_role s0) eqn:Er.
  - destruct (f_timeout s0 <=? sub32 (n_elapsed s0) (f_contact s0)).
    + unfold become_candidate. intro H. eapply enter_candidate_P; eauto. simpl. discriminate.
    + intro H. inversion H. subst. congruence.
  - destruct (c_timeout s0 <=? n_elapsed s0).
    + unfold become_candidate. intro H. eapply enter_candidate_P; eauto. simpl. discriminate.
    + intro H. inversion H. subst. congruence.
  - congruence.
Qed.

(* ---------------------------------------------------------------- AddNode / RemoveNode move the table with the configuration *)
Lemma add_node_ids s member rnd s' :
  leader_add_node s member rnd = Ret (E_NONE, s') ->
  forall id, In id (peer_ids s') <-> (id = member \/ In id (peer_ids s)).
Proof.
  unfold leader_add_node. destruct (verify_nop_committed s) as [[] | |]; simpl; try discriminate.
  destruct (n_conf s) as [c |]; [| discriminate].
  destruct (memb member (mb_members c)); [discriminate|].
  destruct (latest_conf_committed s); simpl; [| discriminate].
  cbv zeta.
  match goal with |- bind (leader_propose ?x ?es) _ = _ -> _ =>
    pose proof (ptx_leader_propose x es) as K; destruct (leader_propose x es) as [s3 | |]; simpl; try discriminate end.
  intro H. inversion H. subst. simpl in K. intro id. rewrite (K id). unfold peer_ids. simpl.
  rewrite peer_set_ids. simpl. tauto.
Qed.

Lemma remove_node_ids s member s' :
  leader_remove_node s member = Ret (E_NONE, s') ->
  forall id, In id (peer_ids s') <-> (In id (peer_ids s) /\ id <> member).
Proof.
  unfold leader_remove_node. destruct (verify_nop_committed s) as [[] | |]; simpl; try discriminate.
  destruct (n_conf s) as [c |]; [| discriminate].
  destruct (memb member (mb_members c)); simpl; [| discriminate].
  destruct (latest_conf_committed s); simpl; [| discriminate].
  cbv zeta.
  match goal with |- bind (leader_propose ?x ?es) _ = _ -> _ =>
    pose proof (ptx_leader_propose x es) as K; destruct (leader_propose x es) as [s3 | |]; simpl; try discriminate end.
  pose proof (ptx_leader_maybe_commit s3) as K2. destruct (leader_maybe_commit s3) as [s4 | |]; simpl; try discriminate.
  intro H. inversion H. subst. simpl in K, K2. intro id. rewrite (K2 id), (K id). unfold peer_ids. simpl.
  apply peer_del_ids.
Qed.

(* ---------------------------------------------------------------- all events *)
Definition peers_ok (s : node) : Prop := n_role s = Leader -> ids_ok s.
(* the one side condition: nobody asks a node to add ITSELF (raft.go answers E_NODE_EXISTS for a member; a leader that is
   not a member of a committed configuration has stepped down) *)
Definition noself (s : node) (ev : event) : Prop := forall x rnd, ev = EAddNode x rnd -> x <> n_id s.

Lemma ids_ok_same s s' : pf s s' -> n_conf s' = n_conf s -> n_id s' = n_id s -> ids_ok s -> ids_ok s'.
Proof.
  intros P C I H id. rewrite (P id), (H id), I. unfold memb_of. rewrite C. tauto.
Qed.

Lemma ptx_trim_log s i : ptx s (trim_log s i).
Proof.
  unfold trim_log. destruct (log_first (p_log (n_p s))); [| pleaf]. destruct (log_last (p_log (n_p s))); [| pleaf].
  destruct (i =? n - 1); [pleaf|]. destruct ((i <? n) || (n0 <? i)); simpl; auto.
  destruct (i - n <? cf_keep (n_cfg s)); [pleaf|]. apply ptx_do_mut.
Qed.

Lemma run_event_elected s ev st s' :
  n_msgs s = [] -> run_event s ev = Ret (st, s') -> n_role s <> Leader -> n_role s' = Leader -> ids_ok s'.
Proof.
  intros Hm H Hr Hr'. revert H. destruct ev; simpl.
  - unfold propose_initial_membership. destruct (n_role s) eqn:Er.
    2,3: intro H; inversion H; subst; congruence.
    destruct (is_clean (n_p s)).
    2: intro H; inversion H; subst; congruence.
    unfold do_mut at 1. destruct (negb (n_budget s =? 0) && (n_budget s =? n_cnt s + 1)); simpl; [discriminate|].
    unfold log_append. unfold do_mut. simpl.
    match goal with |- context [if ?c then _ else _] => destruct c end; simpl; [discriminate|].
    match goal with |- context [if ?c then _ else _] => destruct c end; simpl; [| discriminate].
    intro H. inversion H. subst. simpl in Hr'. congruence.
  - unfold wrap0. destruct (handle_msg s m) as [x | |] eqn:E; simpl; try discriminate.
    intro H. inversion H. subst. eapply handle_msg_elected; eauto.
  - unfold wrap0. destruct (tick s) as [x | |] eqn:E; simpl; try discriminate.
    intro H. inversion H. subst. eapply tick_elected; eauto.
  - intro H. pose proof (kx2_propose s es) as K. rewrite H in K. destruct K as [_ [_ [_ [_ [K _]]]]]. destruct K; congruence.
  - intro H. pose proof (kx2_add_node s member rnd) as K. rewrite H in K. destruct K as [_ [_ [_ [_ [K _]]]]]. destruct K; congruence.
  - intro H. pose proof (kx2_remove_node s member) as K. rewrite H in K. destruct K as [_ [_ [_ [_ [K _]]]]]. destruct K; congruence.
  - unfold wrap0. destruct (snapshot_done s m) as [x | |] eqn:E; simpl; try discriminate.
    intro H. inversion H. subst. pose proof (kx_snapshot_done s m) as K. rewrite E in K.
    destruct K as [_ [_ [_ [_ [K _]]]]]. destruct K; congruence.
  - unfold wrap0. pose proof (new_core_pext (n_id s) (n_cfg s) (n_p s)) as P.
    destruct (new_core (n_id s) (n_cfg s) (n_p s)) as [x | |]; simpl; try discriminate.
    intro H. inversion H. subst. destruct P as [_ [_ [_ [Rl _]]]]. congruence.
Qed.

Lemma run_event_leader_peers s ev st s' :
  n_msgs s = [] -> run_event s ev = Ret (st, s') -> n_role s = Leader -> n_role s' = Leader ->
  noself s ev -> ids_ok s -> ids_ok s'.
Proof.
  intros Hm H Hr Hr' Hn Hp.
  pose proof (run_event_sum s ev st s' Hm H) as [Hid _].
  pose proof (run_event_leader_conf s ev st s' Hm H Hr Hr') as HC.
  revert H HC. destruct ev; simpl.
  - unfold propose_initial_membership. rewrite Hr. intro H. inversion H. subst. auto.
  - unfold wrap0. destruct (handle_msg s m) as [x | |] eqn:E; simpl; try discriminate.
    intros H HC. inversion H. subst. apply (ids_ok_same s s'); auto.
    + eapply handle_msg_leader_pf; eauto.
    + eapply handle_msg_leader_conf; eauto.
  - unfold wrap0. destruct (tick s) as [x | |] eqn:E; simpl; try discriminate.
    intros H HC. inversion H. subst. destruct HC as [HC | [_ [_ [[y [r [X _]]] | [y [X _]]]]]]; try discriminate.
    apply (ids_ok_same s s'); auto.
    revert E. unfold tick. simpl. rewrite Hr. intro E.
    match type of E with tick_leader ?x = _ => pose proof (ptx_tick_leader x) as K end. rewrite E in K.
    simpl in K. intro id. rewrite (K id). unfold peer_ids. simpl. tauto.
  - unfold propose. rewrite Hr. pose proof (ptx_leader_propose s es) as K.
    destruct (leader_propose s es) as [x | |]; simpl; try discriminate. intros H HC. inversion H. subst.
    destruct HC as [HC | [_ [_ [[y [r [X _]]] | [y [X _]]]]]]; try discriminate.
    apply (ids_ok_same s s'); auto.
  - unfold add_node. rewrite Hr. intros H _. pose proof H as H0. apply add_node_conf in H0.
    destruct H0 as [[_ E] | [E1 [_ [[c [c' [A1 [A2 [A3 A4]]]]] _]]]]; [subst; exact Hp|]. subst st.
    pose proof (add_node_ids s member rnd s' H) as K.
    assert (Hne : member <> n_id s) by (apply (Hn member rnd); reflexivity).
    intro id. rewrite (K id), (Hp id), Hid. unfold memb_of. rewrite A1, A2. split.
    + intros [X | [[c0 [Y1 Y2]] X]].
      * subst id. split; [| exact Hne]. exists c'. split; [reflexivity|]. rewrite A3. apply in_or_app. right. simpl. auto.
      * split; [| exact X]. exists c'. split; [reflexivity|]. rewrite A3. apply in_or_app. left. congruence.
    + intros [[c0 [Y1 Y2]] X]. assert (c0 = c') by congruence. subst c0. rewrite A3 in Y2.
      apply in_app_or in Y2. destruct Y2 as [Y2 | [Y2 | []]]; [right | left; auto].
      split; [| exact X]. exists c. auto.
  - unfold remove_node. rewrite Hr. intros H _. pose proof H as H0. apply remove_node_conf in H0.
    destruct H0 as [[_ E] | [E1 [_ [[c [c' [A1 [A2 [A3 A4]]]]] _]]]]; [subst; exact Hp|]. subst st.
    pose proof (remove_node_ids s member s' H) as K.
    intro id. rewrite (K id), (Hp id), Hid. unfold memb_of. rewrite A1, A2. split.
    + intros [[[c0 [Y1 Y2]] X] Z]. split; [| exact X]. exists c'. split; [reflexivity|]. rewrite A3.
      assert (c0 = c) by congruence. subst c0.
      apply filter_In. split; [exact Y2|]. apply negb_true_iff, N.eqb_neq. exact Z.
    + intros [[c0 [Y1 Y2]] X]. assert (c0 = c') by congruence. subst c0. rewrite A3 in Y2.
      apply filter_In in Y2. destruct Y2 as [Y2 Y3]. apply negb_true_iff, N.eqb_neq in Y3.
      split; [| exact Y3]. split; [| exact X]. exists c. auto.
  - unfold wrap0. destruct (snapshot_done s m) as [x | |] eqn:E; simpl; try discriminate.
    intros H HC. inversion H. subst. apply (ids_ok_same s s'); auto.
    + revert E. unfold snapshot_done.
      match goal with |- (if ?c then _ else _) = _ -> _ => destruct c end; [intro E; inversion E; apply pf_refl|].
      pose proof (ptx_do_mut s (MSnapCommit m)) as K1.
      destruct (do_mut (MSnapCommit m) s) as [s1 | |]; simpl; try discriminate.
      intro E. pose proof (ptx_trim_log s1 (sn_index m)) as K2. rewrite E in K2. simpl in K1, K2.
      eapply pf_trans; eauto.
    + apply snapshot_done_conf in E. exact E.
  - unfold wrap0. pose proof (new_core_pext (n_id s) (n_cfg s) (n_p s)) as P.
    destruct (new_core (n_id s) (n_cfg s) (n_p s)) as [x | |]; simpl; try discriminate.
    intros H. inversion H. subst. destruct P as [_ [_ [_ [Rl _]]]]. congruence.
Qed.

Theorem peers_ok_step s ev k crashed st s' :
  run_event_crash (settle s) ev k = Ret (crashed, st, s') -> noself s ev -> peers_ok s -> peers_ok s'.
Proof.
  unfold run_event_crash.
  destruct (run_event (with_budget (settle s) k) ev) as [[st0 x] | c | p] eqn:E; try discriminate.
  - intro H. inversion H. subst. intros Hn Hp Hl. simpl in Hl.
    assert (X : ids_ok x).
    { destruct (n_role s) eqn:Er.
      - apply (run_event_elected (with_budget (settle s) k) ev st x eq_refl E); [simpl; congruence | exact Hl].
      - apply (run_event_elected (with_budget (settle s) k) ev st x eq_refl E); [simpl; congruence | exact Hl].
      - apply (run_event_leader_peers (with_budget (settle s) k) ev st x eq_refl E); [exact Er | exact Hl | exact Hn | exact (Hp Er)]. }
    exact X.
  - pose proof (new_core_pext (n_id (settle s)) (n_cfg (settle s)) p) as Q.
    destruct (new_core (n_id (settle s)) (n_cfg (settle s)) p) as [s2 | c | q]; simpl; try discriminate.
    intro H. inversion H. subst. destruct Q as [_ [_ [_ [Rl _]]]]. intros _ _ X. congruence.
Qed.

(* ---------------------------------------------------------------- system level, alphabet astep *)
From BLB Require Import Lib.LTS Raft.Wire Raft.Election Raft.MemberVotes.

Definition noself_ev (e : sys_event) : Prop := forall x rnd, snd (fst e) = EAddNode x rnd -> x <> fst (fst e).

Definition all_peers_ok (a : asys) : Prop :=
  forall i s, get_node i (sy_nodes (fst a)) = Some s -> peers_ok s.

Lemma all_peers_ok_step a e a' : all_peers_ok a -> astep a e a' -> noself_ev e -> all_peers_ok a'.
Proof.
  intros I Hst Hn. inversion Hst as [σ EC i s ev k crashed st s' G Hdel Hrun]. subst. clear Hst.
  unfold all_peers_ok in *. cbn [fst snd sy_nodes] in *.
  destruct (step_facts _ _ _ _ _ _ Hrun) as [Hid _].
  destruct (get_node_in _ _ _ G) as [_ Gid].
  intros j x Hx. destruct (N.eq_dec j i) as [E | E].
  - subst j. assert (Gs' : get_node i (put_node s' (sy_nodes σ)) = Some s').
    { assert (Hi : n_id s' = i) by congruence. rewrite <- Hi. eapply get_put_same. rewrite Hi. exact G. }
    rewrite Gs' in Hx. inversion Hx. subst x.
    apply (peers_ok_step s ev k crashed st s' Hrun); [| exact (I i s G)].
    intros y rnd Hy. rewrite Gid. apply (Hn y rnd). exact Hy.
  - rewrite get_put_other in Hx; [| congruence]. exact (I j x Hx).
Qed.

(* for every reachable leader: the ids in its peer table are exactly the members of the configuration it holds, minus
   itself; so find_majority_index counts pr_match of members only, and its own index only if it is a member *)
Theorem leader_acks_come_from_members_sys a0 a sched :
  ainit a0 -> run asys sys_event astep a0 sched a -> Forall noself_ev sched ->
  forall i s, get_node i (sy_nodes (fst a)) = Some s -> n_role s = Leader ->
    forall id, In id (peer_ids s) <-> (memb_of s id /\ id <> n_id s).
Proof.
  intros Hi Hrun Hn.
  assert (I0 : all_peers_ok a0).
  { intros i s G Hl. destruct Hi as [_ [Ha _]]. apply get_node_in in G. destruct G as [G _].
    destruct (Ha s G) as [_ R]. congruence. }
  assert (I : all_peers_ok a).
  { clear Hi. induction Hrun; auto. inversion Hn; subst. apply IHHrun; auto. eapply all_peers_ok_step; eauto. }
  intros i s G Hl. exact (I i s G Hl).
Qed.
