(* Raft/NodeLeader.v — what a leader does to its own log and to its peers table (everything a node does while it is and
   stays leader of a term):
     leader_appends_only  : the new log is the old one minus a compacted prefix plus appended entries — a leader never
                            truncates or overwrites an entry of its log;
     match_index_monotone : matchIndex of a peer that stays in the table never decreases. *)
From Coq Require Import List NArith ZArith Bool Lia.
From BLB Require Import Raft.Core Raft.NodeProofs.
Import ListNotations.
Open Scope N_scope.

Definition log_ext (l l' : list entry) : Prop := exists pre mid new, l = pre ++ mid /\ l' = mid ++ new.

Lemma log_ext_refl l : log_ext l l.
Proof. exists [], l, []. rewrite app_nil_r. auto. Qed.

Lemma app_eq_app_split {A} (a b c d : list A) :
  a ++ b = c ++ d -> (exists x, a = c ++ x /\ d = x ++ b) \/ (exists x, c = a ++ x /\ b = x ++ d).
Proof.
  revert c. induction a as [| h t IH]; intros c H; simpl in *.
  - right. exists c. auto.
  - destruct c as [| h' t']; simpl in *.
    + left. exists (h :: t). auto.
    + inversion H. subst. destruct (IH t' H2) as [[x [E1 E2]] | [x [E1 E2]]].
      * left. exists x. subst. auto.
      * right. exists x. subst. auto.
Qed.

Lemma log_ext_trans a b c : log_ext a b -> log_ext b c -> log_ext a c.
Proof.
  intros [p1 [m1 [n1 [A1 B1]]]] [p2 [m2 [n2 [A2 B2]]]]. subst.
  destruct (app_eq_app_split _ _ _ _ A2) as [[x [E1 E2]] | [x [E1 E2]]].
  - (* m1 = p2 ++ x, m2 = x ++ n1 *)
    subst. exists (p1 ++ p2), x, (n1 ++ n2). rewrite <- !app_assoc. auto.
  - (* p2 = m1 ++ x, n1 = x ++ m2 : the compaction ate into the appended part *)
    subst. exists (p1 ++ m1), [], (m2 ++ n2). rewrite app_nil_r. auto.
Qed.

Lemma peer_get_set id q l :
  peer_get id (peer_set q l) = if pr_id q =? id then Some q else peer_get id l.
Proof.
  induction l as [| p r IH]; simpl.
  - destruct (pr_id q =? id); reflexivity.
  - destruct (pr_id q =? pr_id p) eqn:E.
    + apply N.eqb_eq in E. simpl. rewrite <- E. destruct (pr_id q =? id); reflexivity.
    + destruct (pr_id q <? pr_id p); simpl.
      * destruct (pr_id q =? id); reflexivity.
      * rewrite IH. destruct (pr_id p =? id) eqn:E2; [| reflexivity].
        apply N.eqb_eq in E2. subst id. rewrite E. reflexivity.
Qed.

Definition peers_mono (l l' : list peer) : Prop :=
  forall id p, peer_get id l = Some p -> exists p', peer_get id l' = Some p' /\ pr_match p <= pr_match p'.

Lemma peers_mono_refl l : peers_mono l l.
Proof. intros id p H. exists p. split; auto. lia. Qed.

Lemma peers_mono_trans a b c : peers_mono a b -> peers_mono b c -> peers_mono a c.
Proof.
  intros H1 H2 id p Hp. destruct (H1 id p Hp) as [p1 [A B]]. destruct (H2 id p1 A) as [p2 [C D]].
  exists p2. split; auto. lia.
Qed.

Lemma peers_mono_set q l :
  (forall p, peer_get (pr_id q) l = Some p -> pr_match p <= pr_match q) -> peers_mono l (peer_set q l).
Proof.
  intros H id p Hp. rewrite peer_get_set. destruct (pr_id q =? id) eqn:E.
  - apply N.eqb_eq in E. subst id. exists q. split; auto.
  - exists p. split; auto. lia.
Qed.

Definition lk (s s' : node) : Prop :=
  log_ext (p_log (n_p s)) (p_log (n_p s')) /\ peers_mono (l_peers s) (l_peers s').

Lemma lk_refl s : lk s s.
Proof. split; [apply log_ext_refl | apply peers_mono_refl]. Qed.

Lemma lk_trans a b c : lk a b -> lk b c -> lk a c.
Proof. intros [A1 A2] [B1 B2]. split; [eapply log_ext_trans; eauto | eapply peers_mono_trans; eauto]. Qed.

Lemma lk_vol s s' : n_p s' = n_p s -> l_peers s' = l_peers s -> lk s s'.
Proof. intros A B. unfold lk. rewrite A, B. split; [apply log_ext_refl | apply peers_mono_refl]. Qed.

Definition lx (s : node) (r : R node) : Prop := match r with Ret s' => lk s s' | _ => True end.
Definition lx2 (s : node) (r : R (N * node)) : Prop := match r with Ret (_, s') => lk s s' | _ => True end.

Lemma lx_bind s (a : R node) (f : node -> R node) :
  lx s a -> (forall s1, lx s1 (f s1)) -> lx s (bind a f).
Proof.
  intros Ha Hf. destruct a as [s1 | c | p]; simpl in *; auto.
  specialize (Hf s1). destruct (f s1); simpl in *; auto. eapply lk_trans; eauto.
Qed.

Lemma lx_bind_pure {A} s (a : R A) (f : A -> R node) :
  (forall x, a = Ret x -> lx s (f x)) -> lx s (bind a f).
Proof. intros Hf. destruct a; simpl in *; auto. Qed.

Lemma lx_pre s s' r : lk s s' -> lx s' r -> lx s r.
Proof. intros H K. destruct r; simpl in *; auto. eapply lk_trans; eauto. Qed.

Lemma lx2_bind s (a : R node) (f : node -> R (N * node)) :
  lx s a -> (forall s1, lx2 s1 (f s1)) -> lx2 s (bind a f).
Proof.
  intros Ha Hf. destruct a as [s1 | c | p]; simpl in *; auto.
  specialize (Hf s1). destruct (f s1) as [[st s2] | |]; simpl in *; auto. eapply lk_trans; eauto.
Qed.

Lemma lx2_bind_pure {A} s (a : R A) (f : A -> R (N * node)) :
  (forall x, a = Ret x -> lx2 s (f x)) -> lx2 s (bind a f).
Proof. intros Hf. destruct a; simpl in *; auto. Qed.

Lemma lx2_pre s s' r : lk s s' -> lx2 s' r -> lx2 s r.
Proof. intros H K. destruct r as [[st x] | |]; simpl in *; auto. eapply lk_trans; eauto. Qed.

Lemma lx2_of_lx s r st : lx s r -> lx2 s (s1 <- r ;; Ret (st, s1)).
Proof. destruct r; simpl; auto. Qed.

Ltac lvol := apply lk_vol; reflexivity.
Ltac lleaf := simpl; solve [lvol].

(* mutations a leader performs *)
Lemma mem_append_ext l es : exists new, fst (mem_append l es) = l ++ new.
Proof.
  revert l. induction es as [| e r IH]; intros l; simpl.
  - exists []. rewrite app_nil_r. reflexivity.
  - destruct (log_last l).
    + destruct (e_index e =? n + 1).
      * destruct (IH (l ++ [e])) as [new H]. exists (e :: new). rewrite H. rewrite <- app_assoc. reflexivity.
      * exists []. rewrite app_nil_r. reflexivity.
    + destruct (IH (l ++ [e])) as [new H]. exists (e :: new). rewrite H. rewrite <- app_assoc. reflexivity.
Qed.

Lemma drop_while_suffix {A} (f : A -> bool) l : exists pre, l = pre ++ drop_while f l.
Proof.
  induction l as [| x r IH]; simpl.
  - exists []. reflexivity.
  - destruct (f x).
    + destruct IH as [pre H]. exists (x :: pre). simpl. rewrite <- H. reflexivity.
    + exists []. reflexivity.
Qed.

Definition leader_mut (m : mut) : Prop :=
  match m with MTruncate _ => False | _ => True end.

Lemma lx_do_mut s m : leader_mut m -> lx s (do_mut m s).
Proof.
  intro H. unfold do_mut. destruct (negb (n_budget s =? 0) && (n_budget s =? n_cnt s + 1)); simpl; auto.
  split; simpl; [| apply peers_mono_refl].
  destruct m; simpl; try apply log_ext_refl; try contradiction.
  - destruct (mem_append_ext (p_log (n_p s)) es) as [new E]. rewrite E.
    exists [], (p_log (n_p s)), new. auto.
  - unfold mem_trim. destruct (drop_while_suffix (fun e => e_index e <=? i) (p_log (n_p s))) as [pre E].
    exists pre, (drop_while (fun e => e_index e <=? i) (p_log (n_p s))), []. rewrite app_nil_r. auto.
Qed.

(* ---------------------------------------------------------------- leader handlers *)
Lemma lx_log_append s es : lx s (log_append s es).
Proof.
  unfold log_append. apply lx_bind; [apply lx_do_mut; exact I|].
  intros s1. destruct (snd (mem_append (p_log (n_p s)) es)); simpl; auto using lk_refl.
Qed.

Lemma lx_commit_up_to s i : lx s (commit_up_to s i).
Proof.
  unfold commit_up_to.
  match goal with |- lx s (match ?x with _ => _ end) => destruct x end.
  - destruct (negb (sn_index s0 =? i)); simpl; auto. lvol.
  - apply lx_bind_pure. intros ents _.
    match goal with |- lx s (if ?c then _ else _) => destruct c end; [| lleaf].
    match goal with |- lx s (match ?x with _ => _ end) => destruct x eqn:E end; simpl; auto.
    eapply lx_pre; [| apply lx_do_mut; exact I]. lvol.
Qed.

Lemma lx_trim_log s i : lx s (trim_log s i).
Proof.
  unfold trim_log. destruct (log_first (p_log (n_p s))); [| simpl; apply lk_refl]. destruct (log_last (p_log (n_p s))); [| simpl; apply lk_refl].
  destruct (i =? n - 1); [simpl; apply lk_refl|]. destruct ((i <? n) || (n0 <? i)); simpl; auto.
  destruct (i - n <? cf_keep (n_cfg s)); [simpl; apply lk_refl|]. apply lx_do_mut; exact I.
Qed.

Lemma lx_send_app_ents s p : peer_get (pr_id p) (l_peers s) = Some p -> lx s (send_app_ents s p).
Proof.
  intro Hp. unfold send_app_ents. apply lx_bind_pure. intros ob _.
  destruct ob as [b |].
  - simpl. split; simpl; [apply log_ext_refl|]. apply peers_mono_set. simpl. intros q Hq. rewrite Hp in Hq. inversion Hq. lia.
  - destruct (p_snap (n_p s)); simpl; auto. destruct (sn_conf s0); simpl; auto.
    split; simpl; [apply log_ext_refl|]. apply peers_mono_set. simpl. intros q Hq. rewrite Hp in Hq. inversion Hq. lia.
Qed.

Lemma peer_get_id id l p : peer_get id l = Some p -> pr_id p = id.
Proof.
  induction l as [| x r IH]; simpl; [discriminate|].
  destruct (pr_id x =? id) eqn:E; [intro H; inversion H; subst; apply N.eqb_eq; exact E | auto].
Qed.

Lemma lx_for_peers ids f s :
  (forall s1 p, peer_get (pr_id p) (l_peers s1) = Some p -> lx s1 (f s1 p)) -> lx s (for_peers ids f s).
Proof.
  intro Hf. revert s. induction ids as [| id r IH]; intros s; simpl.
  - apply lk_refl.
  - destruct (peer_get id (l_peers s)) eqn:E; auto. apply lx_bind; auto. apply Hf.
    rewrite (peer_get_id _ _ _ E). exact E.
Qed.

Lemma lx_leader_commit_up_to s i : lx s (leader_commit_up_to s i).
Proof.
  unfold leader_commit_up_to. apply lx_bind; [apply lx_commit_up_to|]. intros s1.
  match goal with |- lx s1 (if ?c then _ else _) => destruct c end; [lleaf | simpl; apply lk_refl].
Qed.

Lemma lx_leader_maybe_commit s : lx s (leader_maybe_commit s).
Proof.
  unfold leader_maybe_commit. apply lx_bind_pure. intros mi _.
  destruct (n_commit s <? mi); [| simpl; apply lk_refl].
  apply lx_bind_pure. intros [t ok] _.
  destruct (negb ok); simpl; auto. destruct (negb (t =? p_term (n_p s))); [simpl; apply lk_refl|].
  apply lx_bind; [apply lx_leader_commit_up_to|]. intros s1.
  apply lx_for_peers. intros s2 p Hp. destruct (pr_match p =? last_index (n_p s2)); [apply lx_send_app_ents; auto | simpl; apply lk_refl].
Qed.

Lemma lx_tick_leader s : lx s (tick_leader s).
Proof.
  unfold tick_leader. apply lx_bind.
  - apply lx_for_peers. intros s2 p Hp. destruct (should_send s2 p); [apply lx_send_app_ents; auto | simpl; apply lk_refl].
  - intros s1.
    match goal with |- lx s1 (if ?c then _ else _) => destruct c end; [| lleaf].
    apply lx_bind_pure. intros ok _. destruct ok; lleaf.
Qed.

Lemma lx_handle_app_ents_resp s from su ix hi : lx s (handle_app_ents_resp s from su ix hi).
Proof.
  unfold handle_app_ents_resp. destruct (peer_get from (l_peers s)) as [p |] eqn:Ep; [| simpl; apply lk_refl].
  pose proof (peer_get_id _ _ _ Ep) as Hid.
  destruct (ix <? pr_match p) eqn:Elt; [simpl; apply lk_refl|]. apply N.ltb_ge in Elt.
  destruct (negb su).
  - match goal with |- lx s (send_app_ents ?s1 ?p2) =>
      eapply lx_pre with (s' := s1); [| apply lx_send_app_ents] end.
    + split; simpl; [apply log_ext_refl|]. apply peers_mono_set. simpl. intros q Hq. rewrite Hid, Ep in Hq. inversion Hq. lia.
    + simpl. rewrite peer_get_set. simpl. rewrite N.eqb_refl. reflexivity.
  - match goal with |- lx s (if ?c then _ else _) => destruct c end; simpl; auto.
    match goal with |- lx s (bind (if _ then send_app_ents ?s1 ?p2 else _) _) =>
      assert (K1 : lk s s1);
      [ split; simpl; [apply log_ext_refl|]; apply peers_mono_set; simpl; intros q Hq; rewrite Hid, Ep in Hq; inversion Hq; subst; simpl; exact Elt
      | eapply lx_pre; [exact K1|] ] end.
    apply lx_bind.
    + match goal with |- lx _ (if ?c then _ else _) => destruct c end; [| simpl; apply lk_refl].
      apply lx_send_app_ents. simpl. rewrite peer_get_set. simpl. rewrite N.eqb_refl. reflexivity.
    + intros s2. apply lx_leader_maybe_commit.
Qed.

Lemma lx_leader_propose s es : lx s (leader_propose s es).
Proof.
  unfold leader_propose. apply lx_bind; [apply lx_log_append|]. intros s1.
  apply lx_bind.
  - apply lx_for_peers. intros s3 p Hp.
    match goal with |- lx s3 (if ?c then _ else _) => destruct c end; [apply lx_send_app_ents; auto | simpl; apply lk_refl].
  - intros s2. destruct (l_peers s2); [apply lx_leader_maybe_commit | simpl; apply lk_refl].
Qed.

Lemma lx_handle_leader s m : lx s (handle_leader s m).
Proof.
  unfold handle_leader. destruct (m_body m); try exact I; try apply lx_handle_app_ents_resp; lleaf.
Qed.

Lemma lx_snapshot_done s m : lx s (snapshot_done s m).
Proof.
  unfold snapshot_done.
  match goal with |- lx s (if ?c then _ else _) => destruct c end; [simpl; apply lk_refl|].
  apply lx_bind; [apply lx_do_mut; exact I | intros; apply lx_trim_log].
Qed.

(* AddNode: the new member must not already be in the peers table (raft.go only adds nodes that are not members) *)
Lemma lx2_leader_add_node s m rnd : peer_get m (l_peers s) = None -> lx2 s (leader_add_node s m rnd).
Proof.
  intro Hn. unfold leader_add_node. apply lx2_bind_pure. intros _ _.
  destruct (n_conf s) as [conf |] eqn:Ec; simpl; auto.
  destruct (memb m (mb_members conf)); [simpl; apply lk_refl|].
  destruct (negb (latest_conf_committed s)); [simpl; apply lk_refl|].
  match goal with |- lx2 s (bind (leader_propose ?s2 _) _) =>
    eapply lx2_pre with (s' := s2); [| apply lx2_of_lx; apply lx_leader_propose] end.
  split; simpl; [apply log_ext_refl|].
  apply peers_mono_set. simpl. intros q Hq. rewrite Hn in Hq. discriminate.
Qed.

(* ---------------------------------------------------------------- the theorem *)
Theorem leader_step s ev st s' :
  n_role s = Leader -> p_term (n_p s') = p_term (n_p s) ->
  match ev with
  | ERestart | ERemoveNode _ => False
  | EAddNode m _ => peer_get m (l_peers s) = None
  | _ => True
  end ->
  run_event s ev = Ret (st, s') ->
  log_ext (p_log (n_p s)) (p_log (n_p s')) /\ peers_mono (l_peers s) (l_peers s').
Proof.
  intros Hr Ht Hev. destruct ev; simpl; try contradiction.
  - unfold propose_initial_membership. rewrite Hr. intro H. inversion H. subst. apply lk_refl.
  - (* Deliver *)
    unfold wrap0. destruct (handle_msg s m) as [x | |] eqn:E; simpl; try discriminate.
    intro H. inversion H. subst x. clear H. revert E. unfold handle_msg.
    match goal with |- (if ?c then _ else _) = _ -> _ => destruct c end; [intro H; inversion H; subst; apply lk_refl|].
    match goal with |- (if ?c then _ else _) = _ -> _ => destruct c end; [intro H; inversion H; subst; apply lk_refl|].
    assert (HG : forall s1, (if guid_get (m_from m) (p_guids (n_p s)) =? 0 then do_mut (MSetGuid (m_from m) (m_fromg m)) s else Ret s) = Ret s1 ->
                 lk s s1 /\ n_role s1 = n_role s /\ p_term (n_p s1) = p_term (n_p s)).
    { intros s1. destruct (guid_get (m_from m) (p_guids (n_p s)) =? 0).
      - unfold do_mut. destruct (negb (n_budget s =? 0) && (n_budget s =? n_cnt s + 1)); [discriminate|].
        intro E. inversion E. simpl. split; [| auto]. split; simpl; [apply log_ext_refl | apply peers_mono_refl].
      - intro E. inversion E. split; [apply lk_refl | auto]. }
    destruct (if guid_get (m_from m) (p_guids (n_p s)) =? 0 then do_mut (MSetGuid (m_from m) (m_fromg m)) s else Ret s) as [s1 | |];
      simpl; try discriminate.
    destruct (HG s1 eq_refl) as [K1 [R1 T1]].
    match goal with |- (if ?c then _ else _) = _ -> _ => destruct c end; [intro H; inversion H; subst; exact K1|].
    destruct (m_term m <? p_term (n_p s1)); [intro H; inversion H; subst; exact K1|].
    destruct (p_term (n_p s1) <? m_term m) eqn:Egt.
    + (* a higher term would change the durable term for good *)
      apply N.ltb_lt in Egt. intro H. exfalso.
      assert (Hge : m_term m <= p_term (n_p s')).
      { revert H.
        match goal with |- bind ?a _ = _ -> _ => destruct a as [s2 | |] eqn:E2 end; simpl; try discriminate.
        intro H. pose proof (rext_handle_by_role s2 m) as P. rewrite H in P. destruct P as [[P _] _].
        assert (m_term m = p_term (n_p s2)).
        { revert E2. destruct (m_body m); try discriminate;
            unfold do_mut; destruct (negb (n_budget s1 =? 0) && (n_budget s1 =? n_cnt s1 + 1)); simpl; try discriminate;
            intro X; inversion X; reflexivity. }
        lia. }
      lia.
    + simpl. unfold handle_by_role. rewrite R1, Hr. intro H.
      pose proof (lx_handle_leader s1 m) as K. rewrite H in K. simpl in K. eapply lk_trans; eauto.
  - unfold wrap0. destruct (tick s) as [x | |] eqn:E; simpl; try discriminate.
    intro H. inversion H. subst x. revert E. unfold tick. simpl. rewrite Hr. intro E.
    pose proof (lx_tick_leader (set_elapsed s ((n_elapsed s + 1) mod 4294967296))) as K. rewrite E in K. simpl in K.
    eapply lk_trans; [| exact K]. apply lk_vol; reflexivity.
  - unfold propose. rewrite Hr. intro H.
    pose proof (lx_leader_propose s es) as K. destruct (leader_propose s es); simpl in *; try discriminate.
    inversion H. subst. exact K.
  - unfold add_node. rewrite Hr. intro H. pose proof (lx2_leader_add_node s member rnd Hev) as K. rewrite H in K. exact K.
  - unfold wrap0. destruct (snapshot_done s m) as [x | |] eqn:E; simpl; try discriminate.
    intro H. inversion H. subst x. pose proof (lx_snapshot_done s m) as K. rewrite E in K. exact K.
Qed.
