(* Raft/CombinedRunU.v — round 12: every run of the restricted alphabet of Raft/MemberSnapSystem.v is a run of the unrestricted
   combined alphabet of Raft/MemberSnapSystemU.v; the 20-step combined run and the instances of the three theorems over the
   unrestricted alphabet. *)
From Coq Require Import List NArith ZArith Bool Lia.
From BLB Require Import Lib.LTS Raft.Core Raft.Wire Raft.Election Raft.MemberVotes Raft.MemberVotesExample Raft.MemberRun Raft.MemberRunExample
  Raft.CombinedExample Raft.CombinedRunC.
From BLB Require Raft.MemberSnapSystem Raft.MemberSnapSystemU.
Import ListNotations.
Open Scope N_scope.

Lemma cstep_U bm be a e a' : MemberSnapSystem.cstep bm be a e a' -> MemberSnapSystemU.cstep bm be a e a'.
Proof.
  intro H. destruct H as [σ EC i s ev k crashed st s' G D He Rn]. eapply MemberSnapSystemU.CStep; eauto.
  destruct ev; simpl in *; auto.
Qed.

Lemma run_U bm be a sched a' :
  run asys sys_event (MemberSnapSystem.cstep bm be) a sched a' -> run asys sys_event (MemberSnapSystemU.cstep bm be) a sched a'.
Proof. intro H. induction H; [apply run_nil | eapply run_cons; [apply cstep_U; eassumption | assumption]]. Qed.

Definition urun_all := run_U _ _ _ _ _ crun_all.
Definition urun_to_A13 := run_U _ _ _ _ _ crun_to_A13.
Definition urun_C20 := run_U _ _ _ _ _ crun_C20.

Import MemberSnapSystemU.

Example combined_run_nonvacuous_U :
  minitS A0 /\ NoDup [1; 2] /\ run asys sys_event (cstep [1; 2] 5) A0 schedC C20 /\
  (In (1, EAddNode 3 77, 0) schedC /\ In (1, ESnapDone sm3, 0) schedC /\ In (3, EDeliver q15, 0) schedC /\ In (1, ERemoveNode 2, 0) schedC) /\
  (body_kind q15, m_from q15, m_to q15) = (5, 1, 3) /\
  cview C16 =
    [(1, Leader, 2, [1; 2; 3], 3, [], Some (3, 2, [1; 2; 3]));
     (2, Follower, 2, [1; 2; 3], 2, [(1, 1); (2, 2); (3, 2)], None);
     (3, Follower, 2, [1; 2; 3], 3, [], Some (3, 2, [1; 2; 3]))] /\
  cview C20 =
    [(1, Leader, 2, [1; 3], 4, [(4, 2)], Some (3, 2, [1; 2; 3]));
     (2, Follower, 2, [1; 2; 3], 2, [(1, 1); (2, 2); (3, 2)], None);
     (3, Follower, 2, [1; 3], 3, [(4, 2)], Some (3, 2, [1; 2; 3]))] /\
  (forall t x y, In (t, x) (sy_hist (fst C20)) -> In (t, y) (sy_hist (fst C20)) -> x = y) /\
  (exists Cf, fitsC C20 Cf /\
     forall x y k k' e e',
       In x (sy_nodes (fst C20)) -> In y (sy_nodes (fst C20)) ->
       nth_error (llogC Cf x) k = Some e -> nth_error (llogC Cf y) k' = Some e' ->
       e_index e = e_index e' -> e_term e = e_term e' ->
       k = k' /\ firstn (Datatypes.S k) (llogC Cf x) = firstn (Datatypes.S k) (llogC Cf y)) /\
  (exists Cf1 Cf2, fitsC A13 Cf1 /\ fitsC C20 Cf2 /\
     forall x b,
       In x (sy_nodes (fst A13)) -> In b (sy_nodes (fst C20)) -> n_role b = Leader -> p_term (n_p x) < p_term (n_p b) ->
       (N.to_nat (n_commit x) <= length (llogC Cf1 x))%nat /\
       firstn (N.to_nat (n_commit x)) (llogC Cf2 b) = firstn (N.to_nat (n_commit x)) (llogC Cf1 x)).
Proof.
  exact (conj minitS_A0 (conj Hn12 (conj urun_all (conj events_c (conj Q15 (conj V16 (conj V20
    (conj (election_safety_combined_sys [1; 2] 5 Hn12 A0 C20 schedC minitS_A0 urun_all)
    (conj (log_matching_combined_sys [1; 2] 5 Hn12 A0 C20 schedC minitS_A0 urun_all)
          (leader_completeness_combined_sys [1; 2] 5 Hn12 A0 A13 C20 (sched10 ++ sched13) schedT minitS_A0 urun_to_A13 urun_C20)))))))))).
Qed.
