(* C02 round 9: invariant (a) with snapshots, over runs of the system with the combined alphabet
   (AddNode, RemoveNode, SnapshotDone, InstallSnap, restarts, crash points). *)
From Coq Require Import List NArith ZArith Bool Lia ZifyN ZifyNat ZifyBool.
From BLB Require Import Raft.Core Raft.NodeProofs Raft.NodeKeep Raft.NodeElect Raft.SnapContig
  Raft.MemberConfTrack Raft.SnapConfTrack Raft.MemberPeers.
From BLB Require Import Lib.LTS Raft.Wire Raft.Election Raft.MemberVotes.
Import ListNotations.
Open Scope N_scope.

(* a step of the annotated system whose event satisfies the node-level side conditions at the node it runs on *)
Definition kstep (a : asys) (e : sys_event) (a' : asys) : Prop :=
  astep a e a' /\
  forall s, get_node (fst (fst e)) (sy_nodes (fst a)) = Some s -> evK s (snd (fst e)).

Definition all_conf_logical (a : asys) : Prop :=
  forall i s, get_node i (sy_nodes (fst a)) = Some s -> conf_logical s.

Lemma all_conf_logical_step a e a' : all_conf_logical a -> kstep a e a' -> all_conf_logical a'.
Proof.
  intros I [Hst Hev]. inversion Hst as [σ EC i s ev k crashed st s' G Hdel Hrun]. subst. clear Hst.
  unfold all_conf_logical in *. cbn [fst snd sy_nodes] in *.
  destruct (step_facts _ _ _ _ _ _ Hrun) as [Hid _].
  destruct (get_node_in _ _ _ G) as [_ Gid].
  intros j x Hx. destruct (N.eq_dec j i) as [E | E].
  - subst j. assert (Gs' : get_node i (put_node s' (sy_nodes σ)) = Some s').
    { assert (Hi : n_id s' = i) by congruence. rewrite <- Hi. eapply get_put_same. rewrite Hi. exact G. }
    rewrite Gs' in Hx. inversion Hx. subst x.
    apply (conf_tracks_logical_step s ev k crashed st s'); [exact (I i s G) | exact (Hev s G) | exact Hrun].
  - rewrite get_put_other in Hx; [| congruence]. exact (I j x Hx).
Qed.

Theorem conf_tracks_logical_sys a0 a sched :
  all_conf_logical a0 -> run asys sys_event kstep a0 sched a ->
  forall i s, get_node i (sy_nodes (fst a)) = Some s ->
    contig (n_p s) /\ n_conf s = init_latest_conf (n_p s).
Proof.
  intros I0 Hrun.
  assert (I : all_conf_logical a) by (induction Hrun; auto; apply IHHrun; eapply all_conf_logical_step; eauto).
  exact I.
Qed.
