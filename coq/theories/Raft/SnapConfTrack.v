(* Raft/SnapConfTrack.v — round 9: invariant (a) WITH snapshots.  The configuration a node holds is a function of its logical log:
   n_conf s = init_latest_conf (n_p s) = the decoded latest configuration entry among the log entries above the snapshot index,
   or the snapshot's membership if there is none.  Node level, every event (AddNode / RemoveNode, SnapshotDone, delivered
   InstallSnap, restart) and every crash point, from a contiguous store.  Premises: a snapshot (taken or installed) whose
   metadata carries the configuration of the prefix it covers (snap_conf_ok — raft.go takes the membership of the applied
   prefix); a follower never truncates at or below its snapshot index (conflict_above — a consequence of leader
   completeness); proposals carry no configuration entries. *)
From Coq Require Import List NArith ZArith Bool Lia ZifyN ZifyNat ZifyBool.
From BLB Require Import Raft.Core Raft.NodeProofs Raft.NodeKeep Raft.NodeKeepV Raft.NodeElect Raft.LogMatchLists
  Raft.SnapContig Raft.MemberConfTrack.
Import ListNotations.
Open Scope N_scope.

Definition sidx (p : pstate) : N := match p_snap p with Some m => sn_index m | None => 0 end.
Definition slat (p : pstate) : option membership := match p_snap p with Some m => sn_conf m | None => None end.
Definition dropf (p : pstate) (e : entry) : bool := e_index e <? sidx p + 1.
Definition dlat (lat : option membership) (o : option entry) : option membership :=
  match o with Some e => decode_conf e | None => lat end.
Definition iconf (p : pstate) : option membership :=
  dlat (slat p) (last_conf_entry (drop_while (dropf p) (p_log p)) None).

Lemma lce_in l : forall acc e, last_conf_entry l acc = Some e -> In e l \/ acc = Some e.
Proof.
  induction l as [| x l IH]; intros acc e H; simpl in H; [auto|].
  destruct (IH _ _ H) as [X | X]; [left; right; exact X|].
  destruct (e_type x =? EntryConf); [inversion X; left; left; reflexivity | auto].
Qed.

Lemma drop_while_incl {A} (f : A -> bool) l x : In x (drop_while f l) -> In x l.
Proof. induction l as [| y l IH]; simpl; auto. destruct (f y); auto. Qed.

Lemma init_iconf_gen L latest sx : ipos L ->
  match last_conf_entry (drop_while (fun e => e_index e <? sx + 1) L) None with
  | Some e => if e_index e =? 0 then latest else decode_conf e
  | None => latest
  end = dlat latest (last_conf_entry (drop_while (fun e => e_index e <? sx + 1) L) None).
Proof.
  intro Hi. destruct (last_conf_entry (drop_while (fun e => e_index e <? sx + 1) L) None) as [e |] eqn:E; [| reflexivity].
  apply lce_in in E. destruct E as [E | E]; [| discriminate]. apply drop_while_incl in E.
  unfold ipos in Hi. rewrite Forall_forall in Hi. specialize (Hi e E). simpl in Hi.
  assert (X : (e_index e =? 0) = false) by (apply N.eqb_neq; lia). rewrite X. reflexivity.
Qed.

Lemma init_iconf p : ipos (p_log p) -> init_latest_conf p = iconf p.
Proof.
  intro Hi. unfold init_latest_conf, iconf, slat, dropf, sidx.
  destruct (p_log p) as [| x l] eqn:El.
  - destruct (p_snap p); reflexivity.
  - destruct (p_snap p) as [m |]; apply init_iconf_gen; exact Hi.
Qed.

Lemma drop_while_app_keep {A} (f : A -> bool) l es : Forall (fun e => f e = false) es -> drop_while f (l ++ es) = drop_while f l ++ es.
Proof.
  intro H. induction l as [| x l IH]; simpl.
  - destruct es as [| e r]; [reflexivity|]. simpl. inversion H; subst. rewrite H2. reflexivity.
  - destruct (f x); [exact IH | reflexivity].
Qed.

Lemma drop_while_app_cases {A} (f : A -> bool) a b :
  drop_while f (a ++ b) = drop_while f a ++ b \/ (drop_while f a = [] /\ drop_while f (a ++ b) = drop_while f b).
Proof.
  induction a as [| x a IH]; simpl; [right; auto|]. destruct (f x); [exact IH | left; reflexivity].
Qed.

Lemma drop_while_drop_while {A} (f g : A -> bool) l : (forall x, g x = true -> f x = true) -> drop_while f (drop_while g l) = drop_while f l.
Proof.
  intro H. induction l as [| x l IH]; simpl; [reflexivity|]. destruct (g x) eqn:Eg.
  - rewrite (H x Eg). exact IH.
  - reflexivity.
Qed.

Lemma dlat_fold lat es : forall acc,
  dlat lat (last_conf_entry es acc) = fold_left cstep es (dlat lat acc).
Proof.
  induction es as [| x r IH]; intros acc; simpl; auto. fold (isconfb x). rewrite IH. f_equal. unfold cstep. destruct (isconfb x); reflexivity.
Qed.

(* appending entries above the snapshot index *)
Lemma iconf_app p es :
  Forall (fun e => sidx p < e_index e) es -> iconf (set_log p (p_log p ++ es)) = fold_left cstep es (iconf p).
Proof.
  intro H. unfold iconf. simpl. change (slat (set_log p (p_log p ++ es))) with (slat p).
  change (dropf (set_log p (p_log p ++ es))) with (dropf p).
  rewrite drop_while_app_keep.
  - rewrite lce_app. apply dlat_fold.
  - eapply Forall_impl; [| exact H]. intros e He. simpl in He. unfold dropf. apply N.ltb_ge. lia.
Qed.

(* cutting off a tail of larger indices below which the configuration lies *)
Lemma iconf_cut p res tail keep :
  p_log p = res ++ tail -> Forall (fun e => keep < e_index e) tail ->
  (iconf p = None \/ exists c, iconf p = Some c /\ mb_index c <= keep) ->
  iconf (set_log p res) = iconf p.
Proof.
  intros El Ht Hc. unfold iconf in *. simpl. change (slat (set_log p res)) with (slat p). change (dropf (set_log p res)) with (dropf p).
  rewrite El in Hc |- *.
  assert (Htail : forall acc, (exists e, last_conf_entry tail acc = Some e /\ In e tail /\ isconfb e = true) \/ last_conf_entry tail acc = acc).
  { intros acc. destruct (lce_cases tail acc) as [[e X] | [X _]]; [left; exists e; exact X | right; exact X]. }
  assert (Hbad : forall e, In e tail -> isconfb e = true -> dlat (slat p) (Some e) = None \/ (exists c, dlat (slat p) (Some e) = Some c /\ mb_index c <= keep) -> False).
  { intros e Hin Hce [X | [c [X Y]]]; simpl in X; destruct (decode_conf_some e Hce) as [c' [D [E _]]]; rewrite D in X; [discriminate|].
    inversion X. subst c'. rewrite Forall_forall in Ht. specialize (Ht e Hin). simpl in Ht. lia. }
  destruct (drop_while_app_cases (dropf p) res tail) as [E | [E1 E2]].
  - rewrite E in *. rewrite lce_app in *. destruct (Htail (last_conf_entry (drop_while (dropf p) res) None)) as [[e [X [Y Z]]] | X].
    + exfalso. rewrite X in Hc. exact (Hbad e Y Z Hc).
    + rewrite X. reflexivity.
  - rewrite E1, E2 in *. simpl.
    destruct (last_conf_entry (drop_while (dropf p) tail) None) as [e |] eqn:El2; [| reflexivity].
    exfalso. destruct (lce_cases (drop_while (dropf p) tail) None) as [[e' [X [Y Z]]] | [X _]]; [| congruence].
    rewrite El2 in X. inversion X. subst e'. exact (Hbad e (drop_while_incl _ _ _ Y) Z Hc).
Qed.

(* trimming below the snapshot index *)
Lemma iconf_trim p u : u <= sidx p -> iconf (set_log p (mem_trim u (p_log p))) = iconf p.
Proof.
  intro Hu. unfold iconf. simpl. change (slat (set_log p (mem_trim u (p_log p)))) with (slat p).
  change (dropf (set_log p (mem_trim u (p_log p)))) with (dropf p). unfold mem_trim.
  rewrite drop_while_drop_while; [reflexivity|]. intros x Hx. apply N.leb_le in Hx. unfold dropf. apply N.ltb_lt. lia.
Qed.

(* ---------------------------------------------------------------- contiguity facts *)
Lemma wf_from_ge b l : wf_from b l -> Forall (fun e => b <= e_index e) l.
Proof.
  revert b. induction l as [| x r IH]; intros b H; constructor.
  - destruct H as [H _]. lia.
  - destruct H as [_ H]. eapply Forall_impl; [| apply (IH _ H)]. intros e He. simpl in He. lia.
Qed.

Lemma contig_ipos p : contig p -> ipos (p_log p).
Proof.
  intros [A _]. unfold lwf in A. destruct (p_log p) as [| x r]; [constructor|]. destruct A as [A1 A2].
  eapply Forall_impl; [| apply (wf_from_ge _ _ A2)]. intros e He. simpl in He. lia.
Qed.

Lemma contig_B p : contig p -> sidx p <= last_index p.
Proof.
  intros [A B]. unfold sidx, last_index. destruct (p_log p) as [| x r] eqn:El.
  - unfold log_last. simpl. destruct (p_snap p); lia.
  - destruct A as [A1 A2]. rewrite (log_last_wf _ _ A2 ltac:(discriminate)). destruct (p_snap p) as [m |]; [| lia].
    destruct B as [B1 B2]. simpl length in *. lia.
Qed.

Lemma iconf_ext p p' : p_log p' = p_log p -> p_snap p' = p_snap p -> iconf p' = iconf p.
Proof. intros A B. unfold iconf, slat, dropf, sidx. rewrite A, B. reflexivity. Qed.

(* ---------------------------------------------------------------- the pass *)
Definition K0 (s : node) : Prop := n_conf s = iconf (n_p s).
Definition K (s : node) : Prop := contig (n_p s) /\ K0 s.
Definition kx (r : R node) : Prop := match r with Ret s' => K s' | _ => True end.
Definition k0x (r : R node) : Prop := match r with Ret s' => K0 s' | _ => True end.
Definition k0x2 (r : R (N * node)) : Prop := match r with Ret (_, s') => K0 s' | _ => True end.

Lemma kx_k0x r : kx r -> k0x r.
Proof. destruct r; simpl; auto. intros [_ X]. exact X. Qed.

Lemma kx_bind (a : R node) (f : node -> R node) : kx a -> (forall s1, K s1 -> kx (f s1)) -> kx (bind a f).
Proof. intros Ha Hf. destruct a; simpl in *; auto. Qed.
Lemma k0x_bind (a : R node) (f : node -> R node) : k0x a -> (forall s1, K0 s1 -> k0x (f s1)) -> k0x (bind a f).
Proof. intros Ha Hf. destruct a; simpl in *; auto. Qed.
Lemma kx_bind0 (a : R node) (f : node -> R node) : kx a -> (forall s1, K s1 -> k0x (f s1)) -> k0x (bind a f).
Proof. intros Ha Hf. destruct a; simpl in *; auto. Qed.
Lemma kx_bind_pure {A} (a : R A) (f : A -> R node) : (forall x, a = Ret x -> kx (f x)) -> kx (bind a f).
Proof. intros Hf. destruct a; simpl in *; auto. Qed.
Lemma k0x_bind_pure {A} (a : R A) (f : A -> R node) : (forall x, a = Ret x -> k0x (f x)) -> k0x (bind a f).
Proof. intros Hf. destruct a; simpl in *; auto. Qed.
Lemma k0x2_of r st : k0x r -> k0x2 (s1 <- r ;; Ret (st, s1)).
Proof. destruct r; simpl; auto. Qed.
Lemma k0x2_bind (a : R node) (f : node -> R (N * node)) : k0x a -> (forall s1, K0 s1 -> k0x2 (f s1)) -> k0x2 (bind a f).
Proof. intros Ha Hf. destruct a; simpl in *; auto. Qed.

Lemma sr_K s s' : sr s s' -> K s -> K s'.
Proof.
  intros [A [B [C _]]] [X Y]. split; [eapply contig_ext; eauto|]. unfold K0 in *. rewrite C, Y. symmetry. apply iconf_ext; auto.
Qed.
Lemma sr_K0 s s' : sr s s' -> K0 s -> K0 s'.
Proof. intros [A [B [C _]]] Y. unfold K0 in *. rewrite C, Y. symmetry. apply iconf_ext; auto. Qed.
Lemma srx_kx s r : K s -> srx s r -> kx r.
Proof. intros H X. destruct r; simpl in *; auto. eapply sr_K; eauto. Qed.
Lemma srx_k0x s r : K0 s -> srx s r -> k0x r.
Proof. intros H X. destruct r; simpl in *; auto. eapply sr_K0; eauto. Qed.
Lemma K_vol s s' : n_p s' = n_p s -> n_conf s' = n_conf s -> K s -> K s'.
Proof. intros A B [X Y]. unfold K, K0 in *. rewrite A, B. auto. Qed.
Lemma K0_vol s s' : n_p s' = n_p s -> n_conf s' = n_conf s -> K0 s -> K0 s'.
Proof. intros A B Y. unfold K0 in *. rewrite A, B. auto. Qed.

(* appending a batch that continues the log; the configuration was advanced over the batch *)
Lemma kx_log_append s es :
  contig (n_p s) -> continues (n_p s) es -> n_conf s = fold_left cstep es (iconf (n_p s)) -> kx (log_append s es).
Proof.
  intros Hc Hcont Hn. unfold log_append, do_mut.
  destruct (negb (n_budget s =? 0) && (n_budget s =? n_cnt s + 1)); simpl; auto.
  destruct (snd (mem_append (p_log (n_p s)) es)) eqn:Eok; simpl; auto.
  pose proof (append_contig (n_p s) es Hc Hcont) as Hc'.
  pose proof (mem_append_ok es _ Eok) as El.
  split; [exact Hc'|]. unfold K0. cbn [n_conf upd_p n_p apply_mut]. rewrite El.
  rewrite iconf_app; [exact Hn|].
  (* every appended entry lies above the snapshot index *)
  pose proof (contig_B _ Hc) as HB. destruct Hc' as [Hl _]. cbn [p_log set_log] in Hl. rewrite El in Hl.
  destruct es as [| e0 r0]; [constructor|]. unfold continues in Hcont.
  destruct (p_log (n_p s)) as [| x t] eqn:Elog.
  - cbn [app] in Hl. unfold lwf in Hl. destruct Hl as [_ Hw]. pose proof (wf_from_ge _ _ Hw) as Hge.
    assert (Hl0 : last_index (n_p s) = sidx (n_p s)) by (unfold last_index, sidx, log_last; rewrite Elog; simpl; destruct (p_snap (n_p s)); reflexivity).
    eapply Forall_impl; [| exact Hge]. intros e He. simpl in He. lia.
  - change ((x :: t) ++ e0 :: r0) with (x :: (t ++ e0 :: r0)) in Hl. unfold lwf in Hl. destruct Hl as [_ Hw].
    change (x :: t ++ e0 :: r0) with ((x :: t) ++ e0 :: r0) in Hw. apply wf_from_app in Hw. destruct Hw as [Hw1 Hw2].
    pose proof (wf_from_ge _ _ Hw2) as Hge.
    assert (Hli : last_index (n_p s) = e_index x + N.of_nat (length (x :: t)) - 1).
    { unfold last_index. rewrite Elog. rewrite (log_last_wf _ _ Hw1 ltac:(discriminate)). reflexivity. }
    eapply Forall_impl; [| exact Hge]. intros e He. simpl in He. simpl length in *. lia.
Qed.
