(* Raft/SnapConfTrack.v — round 9: invariant (a) WITH snapshots.  The configuration a node holds is a function of its logical log:
   n_conf s = init_latest_conf (n_p s) = the decoded latest configuration entry among the log entries above the snapshot index,
   or the snapshot's membership if there is none.  Node level, every event (AddNode / RemoveNode, SnapshotDone, delivered
   InstallSnap, restart) and every crash point, from a contiguous store.  Premises: a snapshot (taken or installed) whose
   metadata carries the configuration of the prefix it covers (snap_conf_ok — raft.go takes the membership of the applied
   prefix); a follower never truncates at or below its snapshot index (conflict_above — a consequence of leader
   completeness); proposals carry no configuration entries. *)
From Coq Require Import List NArith ZArith Bool Lia ZifyN ZifyNat ZifyBool.
From BLB Require Import Raft.Core Raft.NodeProofs Raft.NodeKeep Raft.NodeKeepV Raft.NodeElect Raft.LogMatchLists
  Raft.SnapContig Raft.MemberConfTrack.
Import ListNotations.
Open Scope N_scope.

Definition sidx (p : pstate) : N := match p_snap p with Some m => sn_index m | None => 0 end.
Definition slat (p : pstate) : option membership := match p_snap p with Some m => sn_conf m | None => None end.
Definition dropf (p : pstate) (e : entry) : bool := e_index e <? sidx p + 1.
Definition dlat (lat : option membership) (o : option entry) : option membership :=
  match o with Some e => decode_conf e | None => lat end.
Definition iconf (p : pstate) : option membership :=
  dlat (slat p) (last_conf_entry (drop_while (dropf p) (p_log p)) None).

Lemma lce_in l : forall acc e, last_conf_entry l acc = Some e -> In e l \/ acc = Some e.
Proof.
  induction l as [| x l IH]; intros acc e H; simpl in H; [auto|].
  destruct (IH _ _ H) as [X | X]; [left; right; exact X|].
  destruct (e_type x =? EntryConf); [inversion X; left; left; reflexivity | auto].
Qed.

Lemma drop_while_incl {A} (f : A -> bool) l x : In x (drop_while f l) -> In x l.
Proof. induction l as [| y l IH]; simpl; auto. destruct (f y); auto. Qed.

Lemma init_iconf_gen L latest sx : ipos L ->
  match last_conf_entry (drop_while (fun e => e_index e <? sx + 1) L) None with
  | Some e => if e_index e =? 0 then latest else decode_conf e
  | None => latest
  end = dlat latest (last_conf_entry (drop_while (fun e => e_index e <? sx + 1) L) None).
Proof.
  intro Hi. destruct (last_conf_entry (drop_while (fun e => e_index e <? sx + 1) L) None) as [e |] eqn:E; [| reflexivity].
  apply lce_in in E. destruct E as [E | E]; [| discriminate]. apply drop_while_incl in E.
  unfold ipos in Hi. rewrite Forall_forall in Hi. specialize (Hi e E). simpl in Hi.
  assert (X : (e_index e =? 0) = false) by (apply N.eqb_neq; lia). rewrite X. reflexivity.
Qed.

Lemma init_iconf p : ipos (p_log p) -> init_latest_conf p = iconf p.
Proof.
  intro Hi. unfold init_latest_conf, iconf, slat, dropf, sidx.
  destruct (p_log p) as [| x l] eqn:El.
  - destruct (p_snap p); reflexivity.
  - destruct (p_snap p) as [m |]; apply init_iconf_gen; exact Hi.
Qed.

Lemma drop_while_app_keep {A} (f : A -> bool) l es : Forall (fun e => f e = false) es -> drop_while f (l ++ es) = drop_while f l ++ es.
Proof.
  intro H. induction l as [| x l IH]; simpl.
  - destruct es as [| e r]; [reflexivity|]. simpl. inversion H; subst. rewrite H2. reflexivity.
  - destruct (f x); [exact IH | reflexivity].
Qed.

Lemma drop_while_app_cases {A} (f : A -> bool) a b :
  drop_while f (a ++ b) = drop_while f a ++ b \/ (drop_while f a = [] /\ drop_while f (a ++ b) = drop_while f b).
Proof.
  induction a as [| x a IH]; simpl; [right; auto|]. destruct (f x); [exact IH | left; reflexivity].
Qed.

Lemma drop_while_drop_while {A} (f g : A -> bool) l : (forall x, g x = true -> f x = true) -> drop_while f (drop_while g l) = drop_while f l.
Proof.
  intro H. induction l as [| x l IH]; simpl; [reflexivity|]. destruct (g x) eqn:Eg.
  - rewrite (H x Eg). exact IH.
  - reflexivity.
Qed.

Lemma dlat_fold lat es : forall acc,
  dlat lat (last_conf_entry es acc) = fold_left cstep es (dlat lat acc).
Proof.
  induction es as [| x r IH]; intros acc; simpl; auto. fold (isconfb x). rewrite IH. f_equal. unfold cstep. destruct (isconfb x); reflexivity.
Qed.

(* appending entries above the snapshot index *)
Lemma iconf_app p es :
  Forall (fun e => sidx p < e_index e) es -> iconf (set_log p (p_log p ++ es)) = fold_left cstep es (iconf p).
Proof.
  intro H. unfold iconf. simpl. change (slat (set_log p (p_log p ++ es))) with (slat p).
  change (dropf (set_log p (p_log p ++ es))) with (dropf p).
  rewrite drop_while_app_keep.
  - rewrite lce_app. apply dlat_fold.
  - eapply Forall_impl; [| exact H]. intros e He. simpl in He. unfold dropf. apply N.ltb_ge. lia.
Qed.

(* cutting off a tail of larger indices below which the configuration lies *)
Lemma iconf_cut p res tail keep :
  p_log p = res ++ tail -> Forall (fun e => keep < e_index e) tail ->
  (iconf p = None \/ exists c, iconf p = Some c /\ mb_index c <= keep) ->
  iconf (set_log p res) = iconf p.
Proof.
  intros El Ht Hc. unfold iconf in *. simpl. change (slat (set_log p res)) with (slat p). change (dropf (set_log p res)) with (dropf p).
  rewrite El in Hc |- *.
  assert (Htail : forall acc, (exists e, last_conf_entry tail acc = Some e /\ In e tail /\ isconfb e = true) \/ last_conf_entry tail acc = acc).
  { intros acc. destruct (lce_cases tail acc) as [[e X] | [X _]]; [left; exists e; exact X | right; exact X]. }
  assert (Hbad : forall e, In e tail -> isconfb e = true -> dlat (slat p) (Some e) = None \/ (exists c, dlat (slat p) (Some e) = Some c /\ mb_index c <= keep) -> False).
  { intros e Hin Hce [X | [c [X Y]]]; simpl in X; destruct (decode_conf_some e Hce) as [c' [D [E _]]]; rewrite D in X; [discriminate|].
    inversion X. subst c'. rewrite Forall_forall in Ht. specialize (Ht e Hin). simpl in Ht. lia. }
  destruct (drop_while_app_cases (dropf p) res tail) as [E | [E1 E2]].
  - rewrite E in *. rewrite lce_app in *. destruct (Htail (last_conf_entry (drop_while (dropf p) res) None)) as [[e [X [Y Z]]] | X].
    + exfalso. rewrite X in Hc. exact (Hbad e Y Z Hc).
    + rewrite X. reflexivity.
  - rewrite E1, E2 in *. simpl.
    destruct (last_conf_entry (drop_while (dropf p) tail) None) as [e |] eqn:El2; [| reflexivity].
    exfalso. destruct (lce_cases (drop_while (dropf p) tail) None) as [[e' [X [Y Z]]] | [X _]]; [| congruence].
    rewrite El2 in X. inversion X. subst e'. exact (Hbad e (drop_while_incl _ _ _ Y) Z Hc).
Qed.

(* trimming below the snapshot index *)
Lemma iconf_trim p u : u <= sidx p -> iconf (set_log p (mem_trim u (p_log p))) = iconf p.
Proof.
  intro Hu. unfold iconf. simpl. change (slat (set_log p (mem_trim u (p_log p)))) with (slat p).
  change (dropf (set_log p (mem_trim u (p_log p)))) with (dropf p). unfold mem_trim.
  rewrite drop_while_drop_while; [reflexivity|]. intros x Hx. apply N.leb_le in Hx. unfold dropf. apply N.ltb_lt. lia.
Qed.

(* ---------------------------------------------------------------- contiguity facts *)
Lemma wf_from_ge b l : wf_from b l -> Forall (fun e => b <= e_index e) l.
Proof.
  revert b. induction l as [| x r IH]; intros b H; constructor.
  - destruct H as [H _]. lia.
  - destruct H as [_ H]. eapply Forall_impl; [| apply (IH _ H)]. intros e He. simpl in He. lia.
Qed.

Lemma contig_ipos p : contig p -> ipos (p_log p).
Proof.
  intros [A _]. unfold lwf in A. destruct (p_log p) as [| x r]; [constructor|]. destruct A as [A1 A2].
  eapply Forall_impl; [| apply (wf_from_ge _ _ A2)]. intros e He. simpl in He. lia.
Qed.

Lemma contig_B p : contig p -> sidx p <= last_index p.
Proof.
  intros [A B]. unfold sidx, last_index. destruct (p_log p) as [| x r] eqn:El.
  - unfold log_last. simpl. destruct (p_snap p); lia.
  - destruct A as [A1 A2]. rewrite (log_last_wf _ _ A2 ltac:(discriminate)). destruct (p_snap p) as [m |]; [| lia].
    destruct B as [B1 B2]. simpl length in *. lia.
Qed.

Lemma iconf_ext p p' : p_log p' = p_log p -> p_snap p' = p_snap p -> iconf p' = iconf p.
Proof. intros A B. unfold iconf, slat, dropf, sidx. rewrite A, B. reflexivity. Qed.

(* ---------------------------------------------------------------- the pass *)
Definition K0 (s : node) : Prop := n_conf s = iconf (n_p s).
Definition K (s : node) : Prop := contig (n_p s) /\ K0 s.
Definition kx (r : R node) : Prop := match r with Ret s' => K s' | _ => True end.
Definition k0x (r : R node) : Prop := match r with Ret s' => K0 s' | _ => True end.
Definition k0x2 (r : R (N * node)) : Prop := match r with Ret (_, s') => K0 s' | _ => True end.

Lemma kx_k0x r : kx r -> k0x r.
Proof. destruct r; simpl; auto. intros [_ X]. exact X. Qed.

Lemma kx_bind (a : R node) (f : node -> R node) : kx a -> (forall s1, K s1 -> kx (f s1)) -> kx (bind a f).
Proof. intros Ha Hf. destruct a; simpl in *; auto. Qed.
Lemma k0x_bind (a : R node) (f : node -> R node) : k0x a -> (forall s1, K0 s1 -> k0x (f s1)) -> k0x (bind a f).
Proof. intros Ha Hf. destruct a; simpl in *; auto. Qed.
Lemma kx_bind0 (a : R node) (f : node -> R node) : kx a -> (forall s1, K s1 -> k0x (f s1)) -> k0x (bind a f).
Proof. intros Ha Hf. destruct a; simpl in *; auto. Qed.
Lemma kx_bind_pure {A} (a : R A) (f : A -> R node) : (forall x, a = Ret x -> kx (f x)) -> kx (bind a f).
Proof. intros Hf. destruct a; simpl in *; auto. Qed.
Lemma k0x_bind_pure {A} (a : R A) (f : A -> R node) : (forall x, a = Ret x -> k0x (f x)) -> k0x (bind a f).
Proof. intros Hf. destruct a; simpl in *; auto. Qed.
Lemma k0x2_of r st : k0x r -> k0x2 (s1 <- r ;; Ret (st, s1)).
Proof. destruct r; simpl; auto. Qed.
Lemma k0x2_bind (a : R node) (f : node -> R (N * node)) : k0x a -> (forall s1, K0 s1 -> k0x2 (f s1)) -> k0x2 (bind a f).
Proof. intros Ha Hf. destruct a; simpl in *; auto. Qed.

Lemma sr_K s s' : sr s s' -> K s -> K s'.
Proof.
  intros [A [B [C _]]] [X Y]. split; [eapply contig_ext; eauto|]. unfold K0 in *. rewrite C, Y. symmetry. apply iconf_ext; auto.
Qed.
Lemma sr_K0 s s' : sr s s' -> K0 s -> K0 s'.
Proof. intros [A [B [C _]]] Y. unfold K0 in *. rewrite C, Y. symmetry. apply iconf_ext; auto. Qed.
Lemma srx_kx s r : K s -> srx s r -> kx r.
Proof. intros H X. destruct r; simpl in *; auto. eapply sr_K; eauto. Qed.
Lemma srx_k0x s r : K0 s -> srx s r -> k0x r.
Proof. intros H X. destruct r; simpl in *; auto. eapply sr_K0; eauto. Qed.
Lemma K_vol s s' : n_p s' = n_p s -> n_conf s' = n_conf s -> K s -> K s'.
Proof. intros A B [X Y]. unfold K, K0 in *. rewrite A, B. auto. Qed.
Lemma K0_vol s s' : n_p s' = n_p s -> n_conf s' = n_conf s -> K0 s -> K0 s'.
Proof. intros A B Y. unfold K0 in *. rewrite A, B. auto. Qed.

(* appending a batch that continues the log; the configuration was advanced over the batch *)
Lemma kx_log_append s es :
  contig (n_p s) -> continues (n_p s) es -> n_conf s = fold_left cstep es (iconf (n_p s)) -> kx (log_append s es).
Proof.
  intros Hc Hcont Hn. unfold log_append, do_mut.
  destruct (negb (n_budget s =? 0) && (n_budget s =? n_cnt s + 1)); simpl; auto.
  destruct (snd (mem_append (p_log (n_p s)) es)) eqn:Eok; simpl; auto.
  pose proof (append_contig (n_p s) es Hc Hcont) as Hc'.
  pose proof (mem_append_ok es _ Eok) as El.
  split; [exact Hc'|]. unfold K0. cbn [n_conf upd_p n_p apply_mut]. rewrite El.
  rewrite iconf_app; [exact Hn|].
  (* every appended entry lies above the snapshot index *)
  pose proof (contig_B _ Hc) as HB. destruct Hc' as [Hl _]. cbn [p_log set_log] in Hl. rewrite El in Hl.
  destruct es as [| e0 r0]; [constructor|]. unfold continues in Hcont.
  destruct (p_log (n_p s)) as [| x t] eqn:Elog.
  - cbn [app] in Hl. unfold lwf in Hl. destruct Hl as [_ Hw]. pose proof (wf_from_ge _ _ Hw) as Hge.
    assert (Hl0 : last_index (n_p s) = sidx (n_p s)) by (unfold last_index, sidx, log_last; rewrite Elog; simpl; destruct (p_snap (n_p s)); reflexivity).
    eapply Forall_impl; [| exact Hge]. intros e He. simpl in He. lia.
  - change ((x :: t) ++ e0 :: r0) with (x :: (t ++ e0 :: r0)) in Hl. unfold lwf in Hl. destruct Hl as [_ Hw].
    change (x :: t ++ e0 :: r0) with ((x :: t) ++ e0 :: r0) in Hw. apply wf_from_app in Hw. destruct Hw as [Hw1 Hw2].
    pose proof (wf_from_ge _ _ Hw2) as Hge.
    assert (Hli : last_index (n_p s) = e_index x + N.of_nat (length (x :: t)) - 1).
    { unfold last_index. rewrite Elog. rewrite (log_last_wf _ _ Hw1 ltac:(discriminate)). reflexivity. }
    eapply Forall_impl; [| exact Hge]. intros e He. simpl in He. simpl length in *. lia.
Qed.

(* ---------------------------------------------------------------- leader events *)
Lemma log_append_iconf s es c :
  contig (n_p s) -> continues (n_p s) es -> c = fold_left cstep es (iconf (n_p s)) ->
  match log_append s es with Ret s' => contig (n_p s') /\ c = iconf (n_p s') /\ n_conf s' = n_conf s | _ => True end.
Proof.
  intros Hc Hcont Hn.
  assert (X : kx (log_append (set_conf s c) es)) by (apply kx_log_append; simpl; auto).
  unfold log_append, do_mut in *. simpl in X.
  destruct (negb (n_budget s =? 0) && (n_budget s =? n_cnt s + 1)); simpl in *; auto.
  destruct (snd (mem_append (p_log (n_p s)) es)); simpl in *; auto.
  destruct X as [X1 X2]. unfold K0 in X2. simpl in X2. auto.
Qed.

Lemma kx_leader_propose s es :
  contig (n_p s) ->
  n_conf s = fold_left cstep (stamp es (last_index (n_p s) + 1) (p_term (n_p s))) (iconf (n_p s)) ->
  kx (leader_propose s es).
Proof.
  intros Hc Hn. unfold leader_propose. apply kx_bind.
  - apply kx_log_append; auto. unfold continues. pose proof (stamp_head es (last_index (n_p s) + 1) (p_term (n_p s))) as X.
    destruct (stamp es (last_index (n_p s) + 1) (p_term (n_p s))); auto.
  - intros s1 W1. apply kx_bind.
    + eapply srx_kx; [exact W1|]. apply srx_for_peers. intros s3 p.
      match goal with |- srx s3 (if ?c then _ else _) => destruct c end; [apply srx_send_app_ents | kleafS].
    + intros s2 W2. destruct (l_peers s2); [eapply srx_kx; [exact W2 | apply srx_leader_maybe_commit] | exact W2].
Qed.

Lemma k0x2_propose s es : K s -> Forall (fun e => isconfb e = false) es -> k0x2 (propose s es).
Proof.
  intros [Hc Hn] Hf. unfold propose. destruct (n_role s); simpl; try exact Hn.
  apply k0x2_of. apply kx_k0x. apply kx_leader_propose; auto.
  rewrite fold_cstep_nonconf; [exact Hn | apply stamp_nonconf; exact Hf].
Qed.

Lemma k0x2_add_node s member rnd : K s -> k0x2 (add_node s member rnd).
Proof.
  intros W. pose proof W as [Hc Hn]. unfold add_node. destruct (n_role s); simpl; try exact Hn.
  unfold leader_add_node. pose proof (pure_verify_nop_committed s) as Pv.
  destruct (verify_nop_committed s) as [[] | |]; simpl in *; auto.
  destruct (n_conf s) as [c |] eqn:Ec; [| simpl; auto].
  destruct (memb member (mb_members c)); [simpl; exact Hn|].
  destruct (negb (latest_conf_committed s)); [simpl; exact Hn|].
  cbv zeta. apply k0x2_of. apply kx_k0x. apply kx_leader_propose; simpl; auto.
  unfold K0 in Hn. rewrite <- Hn, Ec. unfold cstep, isconfb. simpl. rewrite decode_stamped_conf. reflexivity.
Qed.

Lemma k0x2_remove_node s member : K s -> k0x2 (remove_node s member).
Proof.
  intros W. pose proof W as [Hc Hn]. unfold remove_node. destruct (n_role s); simpl; try exact Hn.
  unfold leader_remove_node. pose proof (pure_verify_nop_committed s) as Pv.
  destruct (verify_nop_committed s) as [[] | |]; simpl in *; auto.
  destruct (n_conf s) as [c |] eqn:Ec; [| simpl; auto].
  destruct (negb (memb member (mb_members c))); [simpl; exact Hn|].
  destruct (negb (latest_conf_committed s)); [simpl; exact Hn|].
  cbv zeta. apply k0x2_bind.
  - apply kx_k0x. apply kx_leader_propose; simpl; auto.
    unfold K0 in Hn. rewrite <- Hn, Ec. unfold cstep, isconfb. simpl. rewrite decode_stamped_conf. reflexivity.
  - intros s3 W3. apply k0x2_of. eapply srx_k0x; [exact W3 | apply srx_leader_maybe_commit].
Qed.

Lemma k0x2_bootstrap s ms ep : K s -> k0x2 (propose_initial_membership s ms ep).
Proof.
  intros W. pose proof W as [Hc Hn]. unfold propose_initial_membership.
  destruct (n_role s); simpl; try exact Hn. destruct (is_clean (n_p s)) eqn:Ecl; [| simpl; exact Hn].
  assert (Hcl : p_log (n_p s) = [] /\ p_snap (n_p s) = None).
  { unfold is_clean in Ecl. destruct (p_log (n_p s)); [| simpl in Ecl; try discriminate; destruct (p_snap (n_p s)); discriminate].
    destruct (p_snap (n_p s)); [simpl in Ecl; try discriminate | auto]. }
  destruct Hcl as [Hl Hs].
  pose proof (srx_do_mut s (MSaveState 0 1) I) as X.
  destruct (do_mut (MSaveState 0 1) s) as [s1 | |]; simpl in *; auto.
  pose proof (sr_K _ _ X W) as [Hc1 Hn1]. destruct X as [X1 [X2 _]].
  match goal with |- context [log_append s1 ?es] =>
    pose proof (log_append_iconf s1 es (fold_left cstep es (iconf (n_p s1))) Hc1) as F;
    destruct (log_append s1 es) as [s2 | |]; simpl in *; auto end.
  destruct F as [_ [F _]]; [| reflexivity |].
  - unfold continues. simpl. unfold last_index. rewrite X1, X2, Hl, Hs. reflexivity.
  - unfold K0. simpl. rewrite <- F. unfold cstep, isconfb. simpl. reflexivity.
Qed.

(* ---------------------------------------------------------------- follower: truncate above the snapshot, then append *)
Lemma kx_truncate s ci :
  K s -> (forall m, p_snap (n_p s) = Some m -> sn_index m <= ci - 1) ->
  kx (s' <- do_mut (MTruncate (ci - 1)) s ;;
      match n_conf s' with
      | Some c => if ci <=? mb_index c then Ret (set_conf s' (init_latest_conf (n_p s'))) else Ret s'
      | None => Ret s'
      end).
Proof.
  intros [Hc Hn] Hm. destruct (mem_truncate_split (ci - 1) (p_log (n_p s))) as [tail [E F]].
  pose proof (trunc_contig (n_p s) (ci - 1) Hc Hm) as Hc'.
  unfold do_mut. destruct (negb (n_budget s =? 0) && (n_budget s =? n_cnt s + 1)); cbn [bind]; [exact I|].
  cbn [n_conf upd_p]. unfold K0 in Hn. destruct (n_conf s) as [c |] eqn:Ec.
  - destruct (ci <=? mb_index c) eqn:El.
    + split; [exact Hc'|]. unfold K0. cbn. apply init_iconf. apply contig_ipos. exact Hc'.
    + apply N.leb_gt in El. split; [exact Hc'|]. unfold K0. cbn [n_conf upd_p n_p]. rewrite Ec, Hn. symmetry.
      apply (iconf_cut _ _ tail (ci - 1) E F). right. exists c. split; [auto | lia].
  - split; [exact Hc'|]. unfold K0. cbn [n_conf upd_p n_p]. rewrite Ec, Hn. symmetry.
    apply (iconf_cut _ _ tail (ci - 1) E F). left. auto.
Qed.

Lemma kx_handle_app_ents s from pi pt cm oes :
  K s -> match oes with Some es => ents_wf es | None => True end -> kx (handle_app_ents s from pi pt cm oes).
Proof.
  intros W Hw. unfold handle_app_ents.
  assert (W0 : K (set_follower_contact s)) by (eapply K_vol; [| | exact W]; reflexivity).
  set (s0 := set_follower_contact s) in *.
  apply kx_bind_pure. intros ok _.
  destruct (negb ok); [eapply K_vol; [| | exact W0]; reflexivity|].
  destruct oes as [ents |].
  2: { eapply srx_kx with (s := send s0 from (AppEntsResp true pi 0)); [eapply K_vol; [| | exact W0]; reflexivity | apply srx_follower_maybe_commit]. }
  apply kx_bind_pure. intros [ci any] Hci.
  apply kx_bind.
  - destruct any; [apply kx_truncate; [exact W0|] | exact W0].
    intros m Hm. pose proof (conflict_index_above s0 ents ci m Hw Hci Hm). lia.
  - intros s1 W1.
    destruct (last_ent_index ents <=? last_index (n_p s1)).
    + eapply srx_kx; [| apply srx_follower_maybe_commit]. eapply K_vol; [| | exact W1]; reflexivity.
    + destruct ents as [| e0 r]; simpl; auto.
      match goal with |- kx (if ?c then _ else _) => destruct c end; simpl; auto.
      match goal with |- kx (match ?x with _ => _ end) => destruct x as [| a0 ar] eqn:Eapp end; simpl; auto.
      match goal with |- kx (if ?c then _ else _) => destruct c eqn:Eidx end; simpl; auto.
      apply negb_false_iff, N.eqb_eq in Eidx.
      match goal with |- kx (bind (log_append ?x _) _) => set (s2 := x) end.
      assert (HF : n_p s2 = n_p s1 /\ n_conf s2 = fold_left cstep (a0 :: ar) (n_conf s1)).
      { destruct (fold_set_conf (a0 :: ar) s1) as [A [B _]]. split; [exact A | exact B]. }
      destruct HF as [P2 C2].
      destruct W1 as [Hc1 Hn1].
      apply kx_bind.
      * apply kx_log_append; [rewrite P2; exact Hc1 | rewrite P2; unfold continues; exact Eidx |].
        rewrite C2, P2. unfold K0 in Hn1. rewrite Hn1. reflexivity.
      * intros s3 W3. eapply srx_kx; [| apply srx_follower_maybe_commit]. eapply K_vol; [| | exact W3]; reflexivity.
Qed.

(* ---------------------------------------------------------------- snapshots *)
Definition snapped (p : pstate) (m : snapmeta) : pstate := apply_mut p (MSnapCommit m).

(* the recorded snapshot carries the configuration of the prefix it covers: reading the configuration off
   the snapshot plus the configuration entries above its index gives the node's current configuration *)
Definition snap_conf_ok (s : node) (m : snapmeta) : Prop := iconf (snapped (n_p s) m) = n_conf s.

(* for an installed snapshot this is needed only when the follower's log already holds the snapshot's last entry *)
Definition snap_pre (s : node) (m : snapmeta) : Prop :=
  in_log (n_p s) (sn_index m) (sn_term m) = Ret true -> snap_conf_ok s m.

Lemma in_log_ext p p' i t : p_log p' = p_log p -> in_log p' i t = in_log p i t.
Proof. intro E. unfold in_log, log_term, log_entries. rewrite E. reflexivity. Qed.

Lemma snap_pre_sr s s' m : sr s s' -> snap_pre s m -> snap_pre s' m.
Proof.
  intros [A [B [C _]]] H. unfold snap_pre, snap_conf_ok in *. rewrite (in_log_ext (n_p s) (n_p s') _ _ A). intro X.
  rewrite C, <- (H X). apply iconf_ext; simpl; auto.
Qed.

Lemma mem_truncate0 l : ipos l -> mem_truncate 0 l = [].
Proof.
  intro H. unfold mem_truncate. rewrite <- (app_nil_r (rev l)). rewrite drop_while_all; [reflexivity|].
  apply Forall_rev. eapply Forall_impl; [| exact H]. intros e He. simpl in He. apply N.ltb_lt. lia.
Qed.

Lemma k0x_trim_log s i : K0 s -> i <= sidx (n_p s) -> k0x (trim_log s i).
Proof.
  intros Hn Hi. unfold trim_log.
  destruct (log_first (p_log (n_p s))); simpl; auto. destruct (log_last (p_log (n_p s))); simpl; auto.
  destruct (i =? n - 1); simpl; auto. destruct ((i <? n) || (n0 <? i)); simpl; auto.
  destruct (i - n <? cf_keep (n_cfg s)); simpl; auto.
  unfold do_mut. destruct (negb (n_budget s =? 0) && (n_budget s =? n_cnt s + 1)); simpl; auto.
  unfold K0 in *. simpl. rewrite Hn. symmetry.
  apply (iconf_trim (n_p s) (i - cf_keep (n_cfg s))). lia.
Qed.

Lemma k0x_snapshot_done s m : K0 s -> snap_conf_ok s m -> k0x (snapshot_done s m).
Proof.
  intros Hn Hp. unfold snapshot_done.
  match goal with |- k0x (if ?c then _ else _) => destruct c end; [exact Hn|].
  unfold do_mut. destruct (negb (n_budget s =? 0) && (n_budget s =? n_cnt s + 1)); cbn [bind]; [exact I|].
  apply k0x_trim_log.
  - unfold K0. cbn [n_conf upd_p n_p]. symmetry. exact Hp.
  - cbn. unfold sidx. simpl. lia.
Qed.

Lemma k0x_handle_snapshot s from li lt conf :
  K s -> snap_pre s {| sn_index := li; sn_term := lt; sn_conf := Some conf |} -> k0x (handle_snapshot s from li lt conf).
Proof.
  intros [Hc Hn] Hp. unfold handle_snapshot.
  assert (Hn0 : K0 (set_follower_contact s)) by (eapply K0_vol; [| | exact Hn]; reflexivity).
  assert (Hp0 : snap_pre (set_follower_contact s) {| sn_index := li; sn_term := lt; sn_conf := Some conf |}) by exact Hp.
  assert (Hc0 : contig (n_p (set_follower_contact s))) by exact Hc.
  set (s0 := set_follower_contact s) in *. set (m := {| sn_index := li; sn_term := lt; sn_conf := Some conf |}) in *.
  match goal with |- k0x (match ?x with _ => _ end) => destruct x end.
  { eapply K0_vol; [| | exact Hn0]; reflexivity. }
  unfold do_mut. destruct (negb (n_budget s0 =? 0) && (n_budget s0 =? n_cnt s0 + 1)); cbn [bind]; [exact I|].
  match goal with |- k0x (bind (in_log (n_p ?x) li lt) _) => set (s1 := x) end.
  apply k0x_bind_pure. intros il Hil.
  assert (Hil0 : in_log (n_p s0) li lt = Ret il) by (rewrite <- Hil; symmetry; apply in_log_ext; reflexivity).
  apply k0x_bind.
  - destruct il.
    + apply k0x_trim_log.
      * unfold K0. symmetry. exact (Hp0 Hil0).
      * unfold sidx. simpl. lia.
    + unfold do_mut. destruct (negb (n_budget s1 =? 0) && (n_budget s1 =? n_cnt s1 + 1)); cbn [bind]; [exact I|].
      simpl. unfold K0. simpl.
      unfold iconf, slat, dropf, sidx. simpl. rewrite (mem_truncate0 (p_log (n_p s)) (contig_ipos _ Hc)). reflexivity.
  - intros s2 W2. apply k0x_bind.
    + destruct (n_commit s2 <? li); [eapply srx_k0x; [exact W2 | apply srx_commit_up_to] | exact W2].
    + intros s3 W3. eapply K0_vol; [| | exact W3]; reflexivity.
Qed.

(* ---------------------------------------------------------------- messages *)
Definition snap_msg_pre (s : node) (m : msg) : Prop :=
  match m_body m with
  | InstallSnap li lt conf => snap_pre s {| sn_index := li; sn_term := lt; sn_conf := Some conf |}
  | _ => True
  end.

Lemma snap_msg_pre_sr s s' m : sr s s' -> snap_msg_pre s m -> snap_msg_pre s' m.
Proof. unfold snap_msg_pre. destruct (m_body m); auto. apply snap_pre_sr. Qed.

Lemma k0x_after_srx s (a : R node) (f : node -> R node) :
  srx s a -> (forall s1, sr s s1 -> k0x (f s1)) -> k0x (bind a f).
Proof. intros X F. destruct a; simpl in *; auto. Qed.

Lemma k0x_handle_follower s m : K s -> mwf m -> snap_msg_pre s m -> k0x (handle_follower s m).
Proof.
  intros W Hw Hp. unfold handle_follower. unfold mwf in Hw. unfold snap_msg_pre in Hp. destruct (m_body m).
  - eapply k0x_after_srx; [apply srx_follower_note_leader|]. intros s1 S1. apply kx_k0x. apply kx_handle_app_ents; [eapply sr_K; eauto | exact Hw].
  - destruct W as [_ Hn]. exact Hn.
  - apply k0x_bind_pure. intros g _. destruct W as [_ Hn]. apply k0x_bind.
    + destruct g; [eapply srx_k0x; [exact Hn | apply srx_do_mut; exact I] | exact Hn].
    + intros s1 W1. eapply K0_vol; [| | exact W1]; reflexivity.
  - destruct W as [_ Hn]. exact Hn.
  - eapply k0x_after_srx; [apply srx_follower_note_leader|]. intros s1 S1.
    apply k0x_handle_snapshot; [eapply sr_K; eauto | eapply snap_pre_sr; eauto].
Qed.

Lemma srx_refl_ret s : srx s (Ret s). Proof. simpl. apply sr_refl. Qed.

Lemma k0x_handle_msg s m : K s -> mwf m -> snap_msg_pre s m -> k0x (handle_msg s m).
Proof.
  intros W Hw Hp. pose proof W as [_ Hn]. unfold handle_msg.
  destruct ((negb (m_to m =? 0) && negb (m_to m =? n_id s)) || (negb (m_tog m =? 0) && negb (m_tog m =? p_guid (n_p s)))); [exact Hn|].
  destruct (negb (guid_get (m_from m) (p_guids (n_p s)) =? 0) && negb (guid_get (m_from m) (p_guids (n_p s)) =? m_fromg m)); [exact Hn|].
  eapply k0x_after_srx.
  - destruct (guid_get (m_from m) (p_guids (n_p s)) =? 0); [apply srx_do_mut; exact I | apply srx_refl_ret].
  - intros s1 S1.
    match goal with |- k0x (if ?c then _ else _) => destruct c end; [eapply sr_K0; eauto|].
    destruct (m_term m <? p_term (n_p s1)); [eapply sr_K0; eauto|].
    eapply k0x_after_srx with (s := s1).
    + destruct (p_term (n_p s1) <? m_term m); [| apply srx_refl_ret].
      destruct (m_body m); simpl; try exact I; try apply sr_refl;
        (eapply srx_bind; [apply srx_do_mut; exact I | intros s2; kleafS]).
    + intros s2 S2. pose proof (sr_trans _ _ _ S1 S2) as S. unfold handle_by_role. destruct (n_role s2).
      * apply k0x_handle_follower; [eapply sr_K; eauto | exact Hw | eapply snap_msg_pre_sr; eauto].
      * eapply srx_k0x; [eapply sr_K0; eauto | apply srx_handle_candidate].
      * eapply srx_k0x; [eapply sr_K0; eauto | apply srx_handle_leader].
Qed.

(* ---------------------------------------------------------------- restart: the configuration is read off the durable state *)
Lemma new_core_conf id cfg p s' : new_core id cfg p = Ret s' -> n_conf s' = init_latest_conf (n_p s').
Proof.
  unfold new_core. destruct (reconcile (blank_node id cfg p)) as [r | |]; simpl; try discriminate.
  set (s0 := set_conf (blank_node id cfg (n_p r)) (init_latest_conf (n_p r))).
  assert (X : srx s0 (match p_snap (n_p r) with None => Ret s0 | Some m => commit_up_to s0 (sn_index m) end)).
  { destruct (p_snap (n_p r)); [apply srx_commit_up_to | apply srx_refl_ret]. }
  destruct (match p_snap (n_p r) with None => Ret s0 | Some m => commit_up_to s0 (sn_index m) end) as [s1 | |]; simpl; try discriminate.
  intro H. inversion H. subst. simpl. destruct X as [A [B [C _]]]. rewrite C. simpl.
  unfold init_latest_conf. rewrite A, B. reflexivity.
Qed.

(* ---------------------------------------------------------------- every event *)
Definition evK (s : node) (ev : event) : Prop :=
  match ev with
  | EDeliver m => mwf m /\ snap_msg_pre s m
  | EPropose es => Forall (fun e => isconfb e = false) es
  | ESnapDone m => snap_conf_ok s m
  | _ => True
  end.

Definition ok2 (r : R (N * node)) : Prop :=
  match r with Ret (_, s') => ipos (p_log (n_p s')) -> n_conf s' = init_latest_conf (n_p s') | _ => True end.

Lemma k0x2_ok2 r : k0x2 r -> ok2 r.
Proof. destruct r as [[st x] | |]; simpl; auto. intros H Hi. rewrite init_iconf; auto. Qed.

Lemma ok2_run_event s ev : K s -> evK s ev -> ok2 (run_event s ev).
Proof.
  intros W He. destruct ev; simpl in *.
  - apply k0x2_ok2. apply k0x2_bootstrap. exact W.
  - apply k0x2_ok2. unfold wrap0. apply k0x2_of. destruct He. apply k0x_handle_msg; auto.
  - apply k0x2_ok2. unfold wrap0. apply k0x2_of. destruct W. eapply srx_k0x; [eassumption | apply srx_tick].
  - apply k0x2_ok2. apply k0x2_propose; auto.
  - apply k0x2_ok2. apply k0x2_add_node. exact W.
  - apply k0x2_ok2. apply k0x2_remove_node. exact W.
  - apply k0x2_ok2. unfold wrap0. apply k0x2_of. destruct W. apply k0x_snapshot_done; auto.
  - unfold wrap0. destruct (new_core (n_id s) (n_cfg s) (n_p s)) as [x | |] eqn:E; simpl; auto.
    intros _. eapply new_core_conf; eauto.
Qed.

(* invariant (a) with snapshots: the configuration a node uses is the one its durable state determines
   (snapshot membership, then the configuration entries above the snapshot index) *)
Definition conf_logical (s : node) : Prop := contig (n_p s) /\ n_conf s = init_latest_conf (n_p s).

Theorem conf_tracks_logical_step s ev k crashed st s' :
  conf_logical s -> evK s ev ->
  run_event_crash (settle s) ev k = Ret (crashed, st, s') -> conf_logical s'.
Proof.
  intros [Hc Hn] He Hrun.
  assert (Hc' : contig (n_p s')).
  { eapply contiguous_step; [exact Hc | | exact Hrun]. intros m ->. destruct He. assumption. }
  split; [exact Hc'|]. revert Hrun. unfold run_event_crash.
  assert (W0 : K (with_budget (settle s) k)).
  { split; [exact Hc|]. unfold K0. simpl. rewrite Hn. apply init_iconf. apply contig_ipos. exact Hc. }
  assert (He0 : evK (with_budget (settle s) k) ev) by exact He.
  pose proof (ok2_run_event _ ev W0 He0) as P.
  destruct (run_event (with_budget (settle s) k) ev) as [[st0 x] | c | p]; simpl in *; try discriminate.
  - intro H. inversion H. subst. simpl. apply P. apply contig_ipos in Hc'. exact Hc'.
  - destruct (new_core (n_id s) (n_cfg s) p) eqn:E; simpl; try discriminate.
    intro H. inversion H. subst. eapply new_core_conf; eauto.
Qed.
